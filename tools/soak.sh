#!/bin/bash
# tools/soak.sh <tier> <seed> [<seed> ...]   - every check once per seed on the current /repo; prints alarms only
HERE="$(cd "$(dirname "$0")/.." && pwd)"
cd "$HERE"
tier=$1; shift
for sd in "$@"; do
  for i in 01 02 03 04 05 06 07 08 09 10 11 12 13 14 15 16 17 18 19 20; do
    t0=$(date +%s)
    out=$(VERIF_SEED=$sd ./check C$i --tier $tier 2>&1); rc=$?
    v=$(echo "$out" | grep VIOLATION | cut -c1-150)
    echo "seed=$sd C$i rc=$rc $(( $(date +%s) - t0 ))s ${v}"
    if [ $rc -ne 0 ] && [ -z "$v" ]; then echo "$out" | tail -5; fi
  done
done
echo SOAK-DONE
