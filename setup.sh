#!/bin/bash
# offline setup: regenerate Gen/ from /repo and build the whole Coq development once
set -e
HERE="$(cd "$(dirname "$0")" && pwd)"
cd "$HERE"
export PYTHONPATH="/repo:$HERE/shims:$HERE/lib:$HERE"
/venv/bin/python - <<'PY'
import sys, os
sys.path.insert(0, os.path.join(os.getcwd(), "lib"))
import core
with core.Lock():
    st = core.regen()
    print("translator:", st)
    core.ensure_makefile()
PY
cd coq && (timeout 3000 make -j12 --no-print-directory -k 2>&1 | tail -5) || true
echo setup done
