import os, sys, time, tempfile, shutil
d = tempfile.mkdtemp(prefix="d27-")
os.environ["D27_LOG"] = os.path.join(d, "log.txt")
sys.path.insert(0, os.path.dirname(os.path.abspath(__file__)))
os.environ["PYTHONPATH"] = os.pathsep.join([os.environ.get("PYTHONPATH", ""), os.path.dirname(os.path.abspath(__file__))])
from executorlib.cache.executor import FileExecutor
from executorlib.cache.subprocess_spawner import execute_in_subprocess
from funcs27 import f, g
cache = os.path.join(d, "cache")
# session A: the consumer is submitted while the producer is still registered
with FileExecutor(cache_directory=cache, execute_function=execute_in_subprocess) as exe:
    fa = exe.submit(g, 1)
    fb = exe.submit(f, fa)
    print("A:", fb.result(timeout=60))
# session B: the same two calls, the consumer submitted after the producer's future completed
with FileExecutor(cache_directory=cache, execute_function=execute_in_subprocess) as exe:
    fa = exe.submit(g, 1)
    print("B producer:", fa.result(timeout=60))
    time.sleep(1.0)
    fb = exe.submit(f, fa)
    print("B:", fb.result(timeout=60))
n = len(open(os.environ["D27_LOG"]).read().strip().split("\n"))
print("f executed %d time(s); cache files: %s" % (n, sorted(os.listdir(cache))))
shutil.rmtree(d, ignore_errors=True)
sys.exit(0 if n == 1 else 1)
