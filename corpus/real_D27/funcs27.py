import os
def g(x):
    return x + 1
def f(y):
    with open(os.environ["D27_LOG"], "a") as fh:
        fh.write("f executed with %r\n" % (y,))
    return y * 10
