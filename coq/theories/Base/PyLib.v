(* PyLib: the meaning given to the Python subset that translator/py2v.py emits.
   Dynamically typed values, an exception monad, Python's operators on them.
   Everything here is executable (vm_compute) — the translator differential test runs
   the emitted definitions against CPython on generated inputs every check run. *)
From Coq Require Import ZArith String Ascii List Bool.
From EL Require Import Base.Dec.
Import ListNotations.
Local Open Scope string_scope.

Inductive pyval : Type :=
| VNone
| VBool (b : bool)
| VInt (z : Z)
| VStr (s : string)
| VList (l : list pyval)
| VTuple (l : list pyval)
| VDict (d : list (pyval * pyval))      (* insertion ordered, keys unique *)
| VObj (cls : string) (id : Z).         (* opaque object with identity (Future, function, ...) *)

(* exception monad; the payload is the exception class name *)
Inductive res (A : Type) : Type :=
| Ok (a : A)
| Err (e : string).
Arguments Ok {A} a.
Arguments Err {A} e.

Definition bind {A B} (m : res A) (k : A -> res B) : res B :=
  match m with Ok a => k a | Err e => Err e end.

Notation "x <- m ;; k" := (bind m (fun x => k))
  (at level 61, m at next level, right associativity).
Notation "' p <- m ;; k" := (bind m (fun p => k))
  (at level 61, p pattern, m at next level, right associativity).

Fixpoint mapM {A B} (f : A -> res B) (l : list A) : res (list B) :=
  match l with
  | [] => Ok []
  | a :: t => b <- f a ;; bs <- mapM f t ;; Ok (b :: bs)
  end.

Fixpoint foldM {A S} (f : S -> A -> res S) (l : list A) (s : S) : res S :=
  match l with
  | [] => Ok s
  | a :: t => s' <- f s a ;; foldM f t s'
  end.

(* filterM: keep the elements whose (possibly raising) test is true *)
Fixpoint filterM {A} (f : A -> res bool) (l : list A) : res (list A) :=
  match l with
  | [] => Ok []
  | a :: t => b <- f a ;; r <- filterM f t ;; Ok (if b then a :: r else r)
  end.

(* ---------- equality (Python ==), bool is an int ---------- *)

Definition as_int (v : pyval) : option Z :=
  match v with
  | VInt z => Some z
  | VBool b => Some (if b then 1 else 0)%Z
  | _ => None
  end.

Fixpoint pyeqb (a b : pyval) {struct a} : bool :=
  let fix leq (x y : list pyval) {struct x} : bool :=
    match x, y with
    | [], [] => true
    | u :: x', v :: y' => pyeqb u v && leq x' y'
    | _, _ => false
    end in
  (* dict equality: same key/value pairs, order-insensitive; keys unique so it is enough
     that sizes agree and every pair of a is found in b *)
  let fix dfind (k : pyval) (y : list (pyval * pyval)) (v : pyval) {struct y} : bool :=
    false in
  match a, b with
  | VNone, VNone => true
  | VStr s, VStr t => String.eqb s t
  | VList x, VList y => leq x y
  | VTuple x, VTuple y => leq x y
  | VDict x, VDict y =>
      let fix deq (x : list (pyval * pyval)) {struct x} : bool :=
        match x with
        | [] => true
        | (k, v) :: x' =>
            (let fix look (y : list (pyval * pyval)) : bool :=
               match y with
               | [] => false
               | (k2, v2) :: y' => if pyeqb k k2 then pyeqb v v2 else look y'
               end in look y) && deq x'
        end in
      Nat.eqb (length x) (length y) && deq x
  | VObj c i, VObj d j => String.eqb c d && Z.eqb i j
  | _, _ =>
      match as_int a, as_int b with
      | Some x, Some y => Z.eqb x y
      | _, _ => false
      end
  end.

Definition truthy (v : pyval) : bool :=
  match v with
  | VNone => false
  | VBool b => b
  | VInt z => negb (Z.eqb z 0)
  | VStr s => negb (String.eqb s "")
  | VList l => match l with [] => false | _ => true end
  | VTuple l => match l with [] => false | _ => true end
  | VDict d => match d with [] => false | _ => true end
  | VObj _ _ => true
  end.

Definition is_none (v : pyval) : bool := match v with VNone => true | _ => false end.

(* ---------- arithmetic / ordering ---------- *)

Definition py_add (a b : pyval) : res pyval :=
  match a, b with
  | VStr s, VStr t => Ok (VStr (String.append s t))
  | VList x, VList y => Ok (VList (List.app x y))
  | VTuple x, VTuple y => Ok (VTuple (List.app x y))
  | _, _ => match as_int a, as_int b with
            | Some x, Some y => Ok (VInt (x + y))
            | _, _ => Err "TypeError"
            end
  end.

Definition py_sub (a b : pyval) : res pyval :=
  match as_int a, as_int b with
  | Some x, Some y => Ok (VInt (x - y))
  | _, _ => Err "TypeError"
  end.

Definition py_mul (a b : pyval) : res pyval :=
  match as_int a, as_int b with
  | Some x, Some y => Ok (VInt (x * y))
  | _, _ => Err "TypeError"   (* sequence repetition is not in the subset *)
  end.

(* int(a / b) for ints: true division then truncation toward zero.  Exact for
   |a|,|b| < 2^53 (CPython goes through a double); that bound is an assumption. *)
Definition py_int_truediv (a b : pyval) : res pyval :=
  match as_int a, as_int b with
  | Some x, Some y => if Z.eqb y 0 then Err "ZeroDivisionError" else Ok (VInt (Z.quot x y))
  | _, _ => Err "TypeError"
  end.

Definition py_cmp (op : Z -> Z -> bool) (a b : pyval) : res pyval :=
  match as_int a, as_int b with
  | Some x, Some y => Ok (VBool (op x y))
  | _, _ => Err "TypeError"
  end.
Definition py_gt := py_cmp Z.gtb.
Definition py_ge := py_cmp Z.geb.
Definition py_lt := py_cmp Z.ltb.
Definition py_le := py_cmp Z.leb.
Definition py_eq (a b : pyval) : res pyval := Ok (VBool (pyeqb a b)).
Definition py_ne (a b : pyval) : res pyval := Ok (VBool (negb (pyeqb a b))).

(* ---------- strings ---------- *)

Fixpoint str_prefixb (p s : string) : bool :=
  match p with
  | EmptyString => true
  | String a p' => match s with
                   | String b s' => Ascii.eqb a b && str_prefixb p' s'
                   | EmptyString => false
                   end
  end.

Fixpoint str_containsb (p s : string) : bool :=
  str_prefixb p s ||
  match s with
  | EmptyString => false
  | String _ s' => str_containsb p s'
  end.

Fixpoint str_drop (n : nat) (s : string) : string :=
  match n with
  | O => s
  | S n' => match s with EmptyString => EmptyString | String _ s' => str_drop n' s' end
  end.

(* s.split(sep) for a non-empty separator; fuel = length s + 1 *)
Fixpoint str_split_aux (fuel : nat) (sep : string) (acc : string) (s : string) : list string :=
  match fuel with
  | O => [acc]
  | S f =>
      match s with
      | EmptyString => [acc]
      | String a s' =>
          if str_prefixb sep s
          then acc :: str_split_aux f sep EmptyString (str_drop (String.length sep) s)
          else str_split_aux f sep (String.append acc (String a EmptyString)) s'
      end
  end.

Definition py_split (s sep : pyval) : res pyval :=
  match s, sep with
  | VStr s, VStr sep =>
      if String.eqb sep "" then Err "ValueError"
      else Ok (VList (List.map VStr (str_split_aux (S (String.length s)) sep EmptyString s)))
  | _, _ => Err "TypeError"
  end.

Definition py_str (v : pyval) : res pyval :=
  match v with
  | VStr s => Ok (VStr s)
  | VInt z => Ok (VStr (dec z))
  | VBool true => Ok (VStr "True")
  | VBool false => Ok (VStr "False")
  | VNone => Ok (VStr "None")
  | _ => Err "Unsupported"
  end.

(* ---------- containers ---------- *)

Definition py_len (v : pyval) : res pyval :=
  match v with
  | VStr s => Ok (VInt (Z.of_nat (String.length s)))
  | VList l | VTuple l => Ok (VInt (Z.of_nat (List.length l)))
  | VDict d => Ok (VInt (Z.of_nat (List.length d)))
  | _ => Err "TypeError"
  end.

Fixpoint list_mem (x : pyval) (l : list pyval) : bool :=
  match l with [] => false | y :: t => pyeqb x y || list_mem x t end.

Fixpoint dict_find (k : pyval) (d : list (pyval * pyval)) : option pyval :=
  match d with
  | [] => None
  | (k2, v) :: t => if pyeqb k k2 then Some v else dict_find k t
  end.

Definition py_in (x c : pyval) : res pyval :=
  match c with
  | VList l | VTuple l => Ok (VBool (list_mem x l))
  | VDict d => Ok (VBool (match dict_find x d with Some _ => true | None => false end))
  | VStr s => match x with
              | VStr p => Ok (VBool (str_containsb p s))
              | _ => Err "TypeError"
              end
  | _ => Err "TypeError"
  end.

Definition py_not_in (x c : pyval) : res pyval :=
  b <- py_in x c ;; Ok (VBool (negb (truthy b))).

Fixpoint list_index_aux (x : pyval) (l : list pyval) (i : Z) : option Z :=
  match l with
  | [] => None
  | y :: t => if pyeqb x y then Some i else list_index_aux x t (i + 1)%Z
  end.

Definition py_index (l x : pyval) : res pyval :=
  match l with
  | VList l | VTuple l => match list_index_aux x l 0%Z with
                          | Some i => Ok (VInt i)
                          | None => Err "ValueError"
                          end
  | _ => Err "AttributeError"
  end.

Definition list_get (l : list pyval) (i : Z) : res pyval :=
  let n := Z.of_nat (List.length l) in
  let j := if Z.ltb i 0 then (i + n)%Z else i in
  if Z.ltb j 0 || Z.geb j n then Err "IndexError"
  else match List.nth_error l (Z.to_nat j) with
       | Some v => Ok v
       | None => Err "IndexError"
       end.

(* c[n:] for n >= 0 (negative bounds are not in the subset) *)
Definition py_slice_from (c k : pyval) : res pyval :=
  match c, as_int k with
  | VList l, Some n => if Z.ltb n 0 then Err "Unsupported" else Ok (VList (List.skipn (Z.to_nat n) l))
  | VTuple l, Some n => if Z.ltb n 0 then Err "Unsupported" else Ok (VTuple (List.skipn (Z.to_nat n) l))
  | _, _ => Err "TypeError"
  end.

Definition py_getitem (c k : pyval) : res pyval :=
  match c with
  | VList l | VTuple l => match as_int k with
                          | Some i => list_get l i
                          | None => Err "TypeError"
                          end
  | VDict d => match dict_find k d with
               | Some v => Ok v
               | None => Err "KeyError"
               end
  | _ => Err "TypeError"
  end.

Fixpoint dict_set_l (k v : pyval) (d : list (pyval * pyval)) : list (pyval * pyval) :=
  match d with
  | [] => [(k, v)]
  | (k2, v2) :: t => if pyeqb k k2 then (k2, v) :: t else (k2, v2) :: dict_set_l k v t
  end.

Fixpoint dict_del_l (k : pyval) (d : list (pyval * pyval)) : list (pyval * pyval) :=
  match d with
  | [] => []
  | (k2, v2) :: t => if pyeqb k k2 then t else (k2, v2) :: dict_del_l k t
  end.

Definition py_setitem (c k v : pyval) : res pyval :=
  match c with
  | VDict d => Ok (VDict (dict_set_l k v d))
  | _ => Err "TypeError"
  end.

Definition py_delitem (c k : pyval) : res pyval :=
  match c with
  | VDict d => match dict_find k d with
               | Some _ => Ok (VDict (dict_del_l k d))
               | None => Err "KeyError"
               end
  | _ => Err "TypeError"
  end.

Definition py_dict_get (c k dflt : pyval) : res pyval :=
  match c with
  | VDict d => Ok (match dict_find k d with Some v => v | None => dflt end)
  | _ => Err "AttributeError"
  end.

Definition py_dict_update (c u : pyval) : res pyval :=
  match c, u with
  | VDict d, VDict e => Ok (VDict (List.fold_left (fun acc kv => dict_set_l (fst kv) (snd kv) acc) e d))
  | _, _ => Err "TypeError"
  end.

Definition py_keys (c : pyval) : res pyval :=
  match c with
  | VDict d => Ok (VList (List.map fst d))
  | _ => Err "AttributeError"
  end.

Definition py_values (c : pyval) : res pyval :=
  match c with
  | VDict d => Ok (VList (List.map snd d))
  | _ => Err "AttributeError"
  end.

Definition py_items (c : pyval) : res pyval :=
  match c with
  | VDict d => Ok (VList (List.map (fun kv => VTuple [fst kv; snd kv]) d))
  | _ => Err "AttributeError"
  end.

Definition py_copy (c : pyval) : res pyval :=
  match c with
  | VDict _ | VList _ => Ok c
  | _ => Err "AttributeError"
  end.

(* iteration: what `for x in c` / a comprehension ranges over *)
Definition py_iter (c : pyval) : res (list pyval) :=
  match c with
  | VList l | VTuple l => Ok l
  | VDict d => Ok (List.map fst d)
  | _ => Err "TypeError"
  end.

Definition py_unpack2 (v : pyval) : res (pyval * pyval) :=
  match v with
  | VTuple [a; b] | VList [a; b] => Ok (a, b)
  | _ => Err "ValueError"
  end.

(* dict display / comprehension result: later keys override earlier ones *)
Definition py_mkdict (kvs : list (pyval * pyval)) : pyval :=
  VDict (List.fold_left (fun acc kv => dict_set_l (fst kv) (snd kv) acc) kvs []).

Definition py_sum (c : pyval) : res pyval :=
  l <- py_iter c ;;
  foldM (fun acc v => py_add acc v) l (VInt 0).

Definition py_all (c : pyval) : res pyval :=
  l <- py_iter c ;; Ok (VBool (List.forallb truthy l)).

Definition py_isinstance_list (v : pyval) : bool :=
  match v with VList _ => true | _ => false end.
Definition py_isinstance_dict (v : pyval) : bool :=
  match v with VDict _ => true | _ => false end.
Definition py_isinstance_obj (cls : string) (v : pyval) : bool :=
  match v with VObj c _ => String.eqb c cls | _ => false end.

(* attribute access on an object modelled as a dict of fields *)
Definition py_getattr (o : pyval) (name : string) : res pyval :=
  match o with
  | VDict d => match dict_find (VStr name) d with
               | Some v => Ok v
               | None => Err "AttributeError"
               end
  | _ => Err "AttributeError"
  end.
Definition py_setattr (o : pyval) (name : string) (v : pyval) : res pyval :=
  match o with
  | VDict d => Ok (VDict (dict_set_l (VStr name) v d))
  | _ => Err "AttributeError"
  end.

Definition cond (v : pyval) : bool := truthy v.

(* raise <object>: exception objects are represented by VStr <class name> *)
Definition py_raise {A} (e : pyval) : res A :=
  match e with VStr cls => Err cls | _ => Err "TypeError" end.

(* str(type(e)) for an exception object represented by its class name *)
Definition py_type_str (e : pyval) : pyval :=
  match e with
  | VStr cls => VStr (String.append "<class '" (String.append cls "'>"))
  | _ => VNone
  end.

(* embedding of typed values, used by specifications and theorems *)
Definition opt_str (o : option string) : pyval := match o with Some s => VStr s | None => VNone end.
Definition opt_bool (o : option bool) : pyval := match o with Some b => VBool b | None => VNone end.
Definition strs (l : list string) : pyval := VList (List.map VStr l).
