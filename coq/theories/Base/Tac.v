(* Shared tactics. *)
From Coq Require Import String Bool.

(* decide String.eqb on closed literals without letting cbn unfold it on open terms *)
Ltac ground_eqb :=
  repeat match goal with
  | |- context [String.eqb ?a ?b] =>
      let r := eval vm_compute in (String.eqb a b) in
      match r with
      | true => change (String.eqb a b) with true
      | false => change (String.eqb a b) with false
      end
  end.
