(* Decimal printing of integers, as Python's str(int), with a proved parser inverse.
   Decimal* imports stay inside this file (their notations capture ++ / app). *)
From Coq Require Import ZArith String Ascii List.
From Coq Require Import DecimalString DecimalZ DecimalPos DecimalFacts.
From Coq Require Decimal.

Definition dec (z : Z) : string := NilZero.string_of_int (Z.to_int z).

Definition undec (s : string) : option Z :=
  match NilZero.int_of_string s with
  | Some d => Some (Z.of_int d)
  | None => None
  end.

Lemma undec_dec (z : Z) : undec (dec z) = Some z.
Proof.
  unfold undec, dec. rewrite NilZero.isi.
  - f_equal. apply DecimalZ.of_to.
  - destruct z; simpl; try discriminate.
    intros E; injection E as E; exact (DecimalPos.Unsigned.to_uint_nonnil _ E).
  - destruct z; simpl; try discriminate.
    intros E; injection E as E; exact (DecimalPos.Unsigned.to_uint_nonnil _ E).
Qed.

Lemma dec_inj (a b : Z) : dec a = dec b -> a = b.
Proof.
  intros H. assert (E : undec (dec a) = undec (dec b)) by (rewrite H; reflexivity).
  rewrite !undec_dec in E. congruence.
Qed.

(* first character of a decimal numeral is never '-' for non-negative numbers, and is a
   digit or '-' always; used to show that "-n 12" style tokens are unambiguous. *)
Definition is_digit (a : ascii) : bool :=
  let n := nat_of_ascii a in andb (Nat.leb 48 n) (Nat.leb n 57).

Fixpoint all_digits (s : string) : bool :=
  match s with
  | EmptyString => true
  | String a s' => andb (is_digit a) (all_digits s')
  end.

Lemma string_of_uint_digits (d : Decimal.uint) : all_digits (NilEmpty.string_of_uint d) = true.
Proof. induction d; simpl; auto. Qed.

Lemma dec_nonneg_digits (z : Z) : (0 <= z)%Z -> all_digits (dec z) = true /\ dec z <> EmptyString.
Proof.
  intros Hz. unfold dec. destruct z as [|p|p]; try (exfalso; apply Hz; reflexivity).
  - simpl. split; [reflexivity|discriminate].
  - unfold Z.to_int. unfold NilZero.string_of_int.
    pose proof (DecimalPos.Unsigned.to_uint_nonnil p) as Hn.
    destruct (Pos.to_uint p) eqn:E; try congruence;
      (split; [rewrite <- E at 1; unfold NilZero.string_of_uint; rewrite E; apply (string_of_uint_digits) | simpl; discriminate]).
Qed.
