(* Canonical, quote-free rendering of values for the translator differential test. *)
From Coq Require Import ZArith String Ascii List Bool.
From EL Require Import Base.Dec Base.PyLib.
Import ListNotations.
Local Open Scope string_scope.

Definition hexdigit (n : nat) : ascii :=
  match n with
  | 0 => "0" | 1 => "1" | 2 => "2" | 3 => "3" | 4 => "4" | 5 => "5" | 6 => "6" | 7 => "7"
  | 8 => "8" | 9 => "9" | 10 => "a" | 11 => "b" | 12 => "c" | 13 => "d" | 14 => "e" | _ => "f"
  end%char.

Fixpoint hex (s : string) : string :=
  match s with
  | EmptyString => EmptyString
  | String a s' => let n := nat_of_ascii a in
                   String (hexdigit (Nat.div n 16)) (String (hexdigit (Nat.modulo n 16)) (hex s'))
  end.

Fixpoint show (v : pyval) : string :=
  let fix showl (l : list pyval) : string :=
    match l with
    | [] => ""
    | x :: t => show x ++ "," ++ showl t
    end in
  let fix showd (l : list (pyval * pyval)) : string :=
    match l with
    | [] => ""
    | (k, x) :: t => show k ++ ":" ++ show x ++ "," ++ showd t
    end in
  match v with
  | VNone => "N"
  | VBool true => "T"
  | VBool false => "F"
  | VInt z => "i" ++ dec z
  | VStr s => "s" ++ hex s
  | VList l => "[" ++ showl l ++ "]"
  | VTuple l => "(" ++ showl l ++ ")"
  | VDict d => "{" ++ showd d ++ "}"
  | VObj c i => "o" ++ c ++ "#" ++ dec i
  end.

Definition show_res (r : res pyval) : string :=
  match r with Ok v => "Ok " ++ show v | Err e => "Err " ++ e end.
Definition show_res2 (r : res (pyval * pyval)) : string :=
  match r with Ok (a, b) => "Ok " ++ show a ++ " | " ++ show b | Err e => "Err " ++ e end.
Definition show_res3 (r : res (pyval * pyval * pyval)) : string :=
  match r with Ok (a, b, c) => "Ok " ++ show a ++ " | " ++ show b ++ " | " ++ show c | Err e => "Err " ++ e end.
