(* Model/DepOrderSpec.v evaluated along a replayed run. *)
From Coq Require Import List Bool Arith String.
From EL Require Import Base.Dec Model.Exec Model.ExecShow Model.StepExec Model.DepExec Model.DepOrderSpec.
Import ListNotations.
Local Open Scope string_scope.

Fixpoint dorder (c : dcfg) (picks : list tid) (d : dstate) (h : hist) (n : nat) : string :=
  if order_ok d h then
    match picks with
    | [] => "ok " ++ sn (List.length (hbodies h)) ++ " " ++ sn (List.length (hdirect h))
    | t :: rest =>
        match dstep c d t with
        | Some (d', l) => dorder c rest d' ((d, t, l) :: h) (S n)
        | None => "stuck"
        end
    end
  else "step " ++ sn n ++ ": order".

Definition opt_nat' (k : nat) : option nat := match k with O => None | S m => Some m end.
Definition dorder_case (rs : list nat) (deps : list (list nat)) (ncalls : nat) (prog : list op) (picks : list tid) : string :=
  let xc := mkXC (fun i => existsb (Nat.eqb i) rs) (fun _ => 1) None None in
  let c := mkDC xc (IBlock 1) (fun i => nth (i - 1) deps []) in
  dorder c picks (dinit ncalls prog) [] 0.
