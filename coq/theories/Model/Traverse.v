(* The two traversals of the dependency resolver (interactive/shared.py):
   _get_future_objects_from_input (which futures does a call wait for) and
   _update_futures_in_input (replace futures by their results).  Hand-written from the source;
   compared with the real functions on generated nested arguments in every C03 check run. *)
From Coq Require Import List Bool Arith.
Import ListNotations.

Inductive targ :=
| TVal (v : nat)                    (* anything that is neither a Future nor a list *)
| TFut (j : nat)                    (* the future of call j *)
| TList (l : list targ)             (* a Python list: traversed *)
| TOther (l : list targ).           (* tuple / dict / other container: NOT traversed by either function *)

(* find_future_in_list: futures in order of appearance, lists descended into *)
Fixpoint find1 (a : targ) : list nat :=
  match a with
  | TFut j => [j]
  | TList l => (fix go (l : list targ) : list nat :=
                  match l with [] => [] | x :: t => find1 x ++ go t end) l
  | TVal _ | TOther _ => []
  end.
Definition find (l : list targ) : list nat := flat_map find1 l.

(* what a call waits for: positional arguments, then keyword values *)
Definition futures_of (args : list targ) (kwargs : list (nat * targ)) : list nat :=
  find args ++ find (map snd kwargs).

(* get_result with the futures' results given by [res]; also the futures it asks, in order *)
Fixpoint subst (res : nat -> targ) (a : targ) : targ :=
  match a with
  | TFut j => res j
  | TList l => TList ((fix go (l : list targ) : list targ :=
                         match l with [] => [] | x :: t => subst res x :: go t end) l)
  | TVal _ | TOther _ => a
  end.

Fixpoint asked (a : targ) : list nat :=
  match a with
  | TFut j => [j]
  | TList l => (fix go (l : list targ) : list nat :=
                  match l with [] => [] | x :: t => asked x ++ go t end) l
  | TVal _ | TOther _ => []
  end.

Definition update_args (res : nat -> targ) (args : list targ) : list targ := map (subst res) args.
Definition update_kwargs (res : nat -> targ) (kw : list (nat * targ)) : list (nat * targ) :=
  map (fun p => (fst p, subst res (snd p))) kw.
Definition asked_of (args : list targ) (kwargs : list (nat * targ)) : list nat :=
  flat_map asked args ++ flat_map asked (map snd kwargs).

(* futures still present where the traversals look (i.e. outside tuples/dicts) *)
Fixpoint visible_futs (a : targ) : list nat :=
  match a with
  | TFut j => [j]
  | TList l => (fix go (l : list targ) : list nat :=
                  match l with [] => [] | x :: t => visible_futs x ++ go t end) l
  | TVal _ | TOther _ => []
  end.
