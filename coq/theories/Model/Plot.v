(* Plot mode (plot_dependency_graph=True): ExecutorWithDependencies.submit records every call
   under a hash, __exit__ builds nodes and edges (standalone/plot.generate_nodes_and_edges,
   generate_task_hash) and hands them to the drawing routine.  Hand-written model; tied to the
   code by running the real functions (drawing stack replaced by recorders) on generated programs
   and comparing the graphs.  The hash is the structural term of the call with futures replaced
   by their producers' hashes (cloudpickle determinism / injectivity assumed). *)
From Coq Require Import List Bool Arith String ZArith.
From EL Require Import Base.Dec.
Import ListNotations.
Local Open Scope string_scope.

Inductive parg :=
| AVal (v : nat)                  (* a plain value *)
| AFut (j : nat)                  (* the future returned by the j-th submit (1-based) *)
| AList (l : list parg).

Record pcall := mkPC { pfn : string; pargs : list parg; pkwargs : list (string * parg) }.

Definition sn (n : nat) : string := dec (Z.of_nat n).

Fixpoint concat_with (sep : string) (l : list string) : string :=
  match l with [] => "" | [x] => x | x :: t => x ++ sep ++ concat_with sep t end.

(* inverse of _future_hash_dict: the hash under which the future of call j is CURRENTLY stored —
   a later call with the same hash displaces it *)
Fixpoint last_index (h : string) (hs : list string) (i : nat) (acc : option nat) : option nat :=
  match hs with
  | [] => acc
  | x :: t => last_index h t (S i) (if String.eqb x h then Some i else acc)
  end.

Definition fut_hash (hs : list string) (j : nat) : option string :=
  match nth_error hs (j - 1) with
  | Some h => match last_index h hs 1 None with
              | Some k => if Nat.eqb k j then Some h else None
              | None => None
              end
  | None => None
  end.

(* convert_arg of generate_task_hash; None = KeyError *)
Fixpoint enc_arg (hs : list string) (a : parg) : option string :=
  match a with
  | AVal v => Some ("v" ++ sn v)
  | AFut j => match fut_hash hs j with Some h => Some ("<" ++ h ++ ">") | None => None end
  | AList l =>
      match (fix go (l : list parg) : option (list string) :=
               match l with
               | [] => Some []
               | x :: t => match enc_arg hs x, go t with
                           | Some s, Some r => Some (s :: r)
                           | _, _ => None
                           end
               end) l with
      | Some ss => Some ("[" ++ concat_with "," ss ++ "]")
      | None => None
      end
  end.

Fixpoint enc_args (hs : list string) (l : list parg) : option (list string) :=
  match l with
  | [] => Some []
  | x :: t => match enc_arg hs x, enc_args hs t with
              | Some s, Some r => Some (s :: r)
              | _, _ => None
              end
  end.

Fixpoint enc_kwargs (hs : list string) (l : list (string * parg)) : option (list string) :=
  match l with
  | [] => Some []
  | (k, x) :: t => match enc_arg hs x, enc_kwargs hs t with
                   | Some s, Some r => Some ((k ++ "=" ++ s) :: r)
                   | _, _ => None
                   end
  end.

(* generate_task_hash at submit time: hs = hashes of the calls submitted so far *)
Definition task_hash (hs : list string) (c : pcall) : option string :=
  match enc_args hs (pargs c), enc_kwargs hs (pkwargs c) with
  | Some a, Some k => Some (pfn c ++ "(" ++ concat_with "," a ++ ";" ++ concat_with "," k ++ ")")
  | _, _ => None
  end.

(* all submits; None = some submit raised KeyError *)
Fixpoint hashes (calls : list pcall) (hs : list string) : option (list string) :=
  match calls with
  | [] => Some hs
  | c :: t => match task_hash hs c with
              | Some h => hashes t (List.app hs [h])
              | None => None
              end
  end.

(* ---- the graph ---- *)
Inductive shape := Box | Circle.
Record node := mkN { nname : string; nid : nat; nshape : shape }.
Record edge := mkEd { estart : nat; eend : nat; elabel : string }.

(* _task_hash_dict: one entry per distinct hash, position of first insertion, content of the last *)
Fixpoint dict_keys (hs : list string) (seen : list string) : list string :=
  match hs with
  | [] => seen
  | h :: t => if existsb (String.eqb h) seen then dict_keys t seen else dict_keys t (List.app seen [h])
  end.

Fixpoint index_of (h : string) (l : list string) (i : nat) : option nat :=
  match l with
  | [] => None
  | x :: t => if String.eqb x h then Some i else index_of h t (S i)
  end.

Fixpoint last_call (h : string) (hs : list string) (calls : list pcall) (acc : option pcall) : option pcall :=
  match hs, calls with
  | x :: t, c :: ct => last_call h t ct (if String.eqb x h then Some c else acc)
  | _, _ => acc
  end.

Definition str_val (v : nat) : string := sn v.

Fixpoint all_futs (l : list parg) : bool :=
  match l with
  | [] => true
  | AFut _ :: t => all_futs t
  | _ :: t => false
  end.

Fixpoint str_arg (a : parg) : string :=
  match a with
  | AVal v => str_val v
  | AFut j => "<Future>"
  | AList l => "[" ++ concat_with ", " (map str_arg l) ++ "]"
  end.

Definition gstate := (list node * list edge)%type.

(* add_element; state = (value nodes appended so far, edges); None = KeyError *)
Fixpoint add_element (keys hs : list string) (nboxes : nat) (a : parg) (link : nat) (label : string)
         (st : gstate) : option gstate :=
  match a with
  | AFut j =>
      match fut_hash hs j with
      | Some h => match index_of h keys 0 with
                  | Some k => Some (fst st, List.app (snd st) [mkEd k link label])
                  | None => None
                  end
      | None => None
      end
  | AList l =>
      if all_futs l then
        (fix go (l : list parg) (st : gstate) : option gstate :=
           match l with
           | [] => Some st
           | x :: t => match add_element keys hs nboxes x link label st with
                       | Some st' => go t st'
                       | None => None
                       end
           end) l st
      else
        let id := nboxes + List.length (fst st) in
        Some (List.app (fst st) [mkN (str_arg a) id Circle], List.app (snd st) [mkEd id link label])
  | AVal v =>
      let id := nboxes + List.length (fst st) in
      Some (List.app (fst st) [mkN (str_val v) id Circle], List.app (snd st) [mkEd id link label])
  end.

Fixpoint add_args (keys hs : list string) (nboxes : nat) (l : list parg) (link : nat)
         (st : gstate) : option gstate :=
  match l with
  | [] => Some st
  | x :: t => match add_element keys hs nboxes x link "" st with
              | Some st' => add_args keys hs nboxes t link st'
              | None => None
              end
  end.

Fixpoint add_kwargs (keys hs : list string) (nboxes : nat) (l : list (string * parg)) (link : nat)
         (st : gstate) : option gstate :=
  match l with
  | [] => Some st
  | (k, x) :: t => match add_element keys hs nboxes x link k st with
                   | Some st' => add_kwargs keys hs nboxes t link st'
                   | None => None
                   end
  end.

Fixpoint add_calls (keys hs : list string) (calls : list pcall) (nb : nat) (ks : list string) (link : nat)
         (st : gstate) : option gstate :=
  match ks with
  | [] => Some st
  | h :: t =>
      match last_call h hs calls None with
      | Some c =>
          match add_args keys hs nb (pargs c) link st with
          | Some st1 => match add_kwargs keys hs nb (pkwargs c) link st1 with
                        | Some st2 => add_calls keys hs calls nb t (S link) st2
                        | None => None
                        end
          | None => None
          end
      | None => None
      end
  end.

(* generate_nodes_and_edges over the recorded calls *)
Definition graph (calls : list pcall) : option gstate :=
  match hashes calls [] with
  | None => None
  | Some hs =>
      let keys := dict_keys hs [] in
      let nb := List.length keys in
      let boxes := map (fun ki => mkN (match last_call (fst ki) hs calls None with Some c => pfn c | None => "" end)
                                      (snd ki) Box)
                       (combine keys (seq 0 nb)) in
      match add_calls keys hs calls nb keys 0 ([], []) with
      | Some st => Some (List.app boxes (fst st), snd st)
      | None => None
      end
  end.

(* ---- the property: one box per submitted call, one incoming edge per argument ---- *)
Definition spec_arg_edges (a : parg) : nat :=
  match a with
  | AFut _ => 1
  | AList l => if all_futs l then List.length l else 1
  | AVal _ => 1
  end.

Definition spec_boxes (calls : list pcall) : nat := List.length calls.
Definition call_edges (c : pcall) : nat :=
  fold_right (fun a n => spec_arg_edges a + n) 0 (pargs c)
  + fold_right (fun ka n => spec_arg_edges (snd ka) + n) 0 (pkwargs c).
Definition spec_edges (calls : list pcall) : nat := fold_right (fun c acc => call_edges c + acc) 0 calls.

Definition is_box (n : node) : bool := match nshape n with Box => true | Circle => false end.
Definition count_boxes (g : gstate) : nat := List.length (filter is_box (fst g)).

(* rendering for the correspondence check *)
Definition show_node (n : node) : string :=
  nname n ++ "#" ++ sn (nid n) ++ (match nshape n with Box => "b" | Circle => "c" end).
Definition show_edge (e : edge) : string := sn (estart e) ++ ">" ++ sn (eend e) ++ ":" ++ elabel e.
Definition show_graph (o : option gstate) : string :=
  match o with
  | None => "KeyError"
  | Some g => concat_with "," (map show_node (fst g)) ++ "|" ++ concat_with "," (map show_edge (snd g))
  end.
