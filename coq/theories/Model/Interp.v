(* A small family of submitted functions with a fixed meaning, used ONLY to instantiate the
   `apply` parameter when model and implementation are run on the same request sequences
   (correspondence check).  Theorems never mention it: they hold for every `apply`. *)
From Coq Require Import ZArith String List Bool.
From EL Require Import Base.Dec Base.PyLib.
Import ListNotations.
Local Open Scope string_scope.
Local Open Scope list_scope.

Definition arg_or (i : nat) (name : string) (pos : list pyval) (kw : pyval) : pyval :=
  match List.nth_error pos i with
  | Some v => v
  | None => match kw with
            | VDict d => match dict_find (VStr name) d with Some v => v | None => VNone end
            | _ => VNone
            end
  end.

(* def echo(a=None, b=None, c=None): return [a, b, c]
   def boom(a=None): raise ValueError
   def rankecho(a=None): return [a, rank]
   def preset_<id>(): return {"b": id}        (an init function)
   def preset2_<id>(): return {"a": id, "zz": 1} *)
Definition names_of (f : pyval) : pyval :=
  match f with
  | VObj "echo" _ => VList [VStr "a"; VStr "b"; VStr "c"]
  | VObj "boom" _ => VList [VStr "a"]
  | VObj "rankecho" _ => VList [VStr "a"]
  | VObj "retnone" _ => VList [VStr "a"]
  | _ => VList []
  end.

Definition interp (rank : Z) (f : pyval) (pos : list pyval) (kw : pyval) : res pyval :=
  match f with
  | VObj "echo" _ => Ok (VList [arg_or 0 "a" pos kw; arg_or 1 "b" pos kw; arg_or 2 "c" pos kw])
  | VObj "boom" _ => Err "ValueError"
  | VObj "rankecho" _ => Ok (VList [arg_or 0 "a" pos kw; VInt rank])
  | VObj "retnone" _ => Ok VNone
  | VObj "preset" id => Ok (VDict [(VStr "b", VInt id)])
  | VObj "preset2" id => Ok (VDict [(VStr "a", VInt id); (VStr "zz", VInt 1)])
  | VObj "badinit" _ => Err "RuntimeError"
  | _ => Err "TypeError"
  end.
