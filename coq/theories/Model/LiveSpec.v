(* Liveness-side statements about the per-call executor model and the resolver model, as boolean
   functions: tested on replayed implementation traces (Model/StepShow.v, DepShow.v) and proved
   for all reachable states in Proofs/StepLive.v / DepLive.v. *)
From Coq Require Import List Bool Arith.
From EL Require Import Model.Exec Model.StepExec Model.DepExec.
Import ListNotations.

(* ---- candidate liveness statements, tested on replayed traces before being proved ---- *)
(* the dispatcher is inside a pass of its slot wait loop that cannot free anything: every entry
   still to be examined or already kept belongs to a future that is not done *)
Definition d_polling (x : xstate) : bool :=
  match disp x with
  | DScan _ todo kept => forallb (fun p => negb (fdone (getf (base x) (fst p)))) (List.app kept todo)
  | _ => false
  end.
Definition tid_eqb (a b : tid) : bool :=
  match a, b with
  | TM, TM | TR, TR | TD, TD => true
  | TW i, TW j | TP i, TP j => Nat.eqb i j
  | _, _ => false
  end.

Definition scan_not_alone_b (c : xcfg) (x : xstate) : bool :=
  negb (d_polling x) || existsb (fun t => negb (tid_eqb t TD)) (xenabled c x).

Definition rest_ok_b (c : xcfg) (x : xstate) : bool :=
  match xenabled c x with
  | [] => (match main (base x) with MEnd => true | _ => false end)
          && forallb (fun i => fdone (getf (base x) i)) (subm (base x))
          && forallb (fun p => negb (palive p)) (ps (base x))
          && forallb wdone (ws (base x))
          && (match disp x with DDone => true | _ => false end)
  | _ => true
  end.


(* ---- candidate statements for the resolver model, tested on replayed traces ---- *)
Definition r_in_inner_shutdown (d : dstate) : bool :=
  match rp d with
  | RInPut _ _ | RInJoin _ | RInJoinD | RInQJoin | RTd0 | RQJoin0 | RDone => true
  | _ => false
  end.

Definition wait_list_drained_b (d : dstate) : bool :=
  negb (r_in_inner_shutdown d) || match rwait d with [] => true | _ => false end.

Definition drest_ok_b (c : dcfg) (d : dstate) : bool :=
  match denabled c d with
  | [] => (match main (dbase d) with MEnd => true | _ => false end)
          && forallb (fun i => fdone (getf (dbase d) i)) (subm (dbase d))
          && forallb (fun p => negb (palive p)) (ps (dbase d))
          && forallb wdone (ws (dbase d))
          && (match rp d with RDone => true | _ => false end)
  | _ => true
  end.

