(* Request/reply semantics of a worker process: how the one-step function extracted from the
   backend scripts (Gen.WorkerSerial.wstep_serial, Gen.WorkerParallel.wstep_rank) is iterated
   over a sequence of requests, the request alphabet of C17, and the n-rank composition with
   MPI collectives (bcast from root, gather to root in rank order) used for C18.
   Hand-written; the collectives' meaning is the specification of MPI (trusted). *)
From Coq Require Import ZArith String List Bool.
From EL Require Import Base.Dec Base.PyLib.
Import ListNotations.
Local Open Scope string_scope.
Local Open Scope list_scope.

Definition unpack_step (v : pyval) : res (pyval * list pyval * bool) :=
  match v with
  | VTuple [m; VList r; VBool s] => Ok (m, r, s)
  | _ => Err "ModelError"
  end.

Section Run.
  Variable step : pyval -> pyval -> res pyval.   (* memory -> request -> VTuple [memory'; replies; stop] *)

  (* replies sent while serving [reqs] from memory [mem]; the flag says whether the loop was left *)
  Fixpoint run (mem : pyval) (reqs : list pyval) : res (list pyval * bool) :=
    match reqs with
    | [] => Ok ([], false)
    | r :: t =>
        '(m, reps, stop) <- (v <- step mem r ;; unpack_step v) ;;
        if (stop : bool) then Ok (reps, true)
        else '(rest, ex) <- run m t ;; Ok (reps ++ rest, ex)
    end.
End Run.

(* ---- request alphabet ---- *)
Definition mkd (l : list (string * pyval)) : pyval :=
  VDict (List.map (fun p => (VStr (fst p), snd p)) l).

Inductive wreq : Type :=
| RCall (f a k : pyval)        (* succeeding, raising or preset-using: decided by [apply] *)
| RInit (f : pyval)
| RShutdown (w : pyval)
| RJunk.                        (* a dictionary none of the branches recognises *)

Definition to_py (r : wreq) : pyval :=
  match r with
  | RCall f a k => mkd [("fn", f); ("args", a); ("kwargs", k)]
  | RInit f => mkd [("init", VBool true); ("fn", f); ("args", VTuple []); ("kwargs", mkd [])]
  | RShutdown w => mkd [("shutdown", VBool true); ("wait", w)]
  | RJunk => mkd [("ping", VInt 1)]
  end.

Definition ack : pyval := mkd [("result", VBool true)].
Definition reply_ok (v : pyval) : pyval := mkd [("result", v)].
Definition reply_err (cls : string) : pyval :=
  mkd [("error", VStr cls); ("error_type", py_type_str (VStr cls))].

Section Spec.
  Variable apply : pyval -> pyval -> res pyval.   (* call_funct: memory -> request -> value / exception *)

  Definition reply_of_call (mem : pyval) (r : wreq) : pyval :=
    match apply mem (to_py r) with Ok v => reply_ok v | Err e => reply_err e end.

  (* the specification of C17: one reply per call (value or error), none per init, one
     acknowledgement for the first shutdown and nothing afterwards *)
  Fixpoint spec_replies (mem : pyval) (reqs : list wreq) : list pyval :=
    match reqs with
    | [] => []
    | RShutdown _ :: _ => [ack]
    | RCall f a k :: t => reply_of_call mem (RCall f a k) :: spec_replies mem t
    | RInit f :: t => match apply VNone (to_py (RInit f)) with
                      | Ok m => spec_replies m t
                      | Err _ => []
                      end
    | RJunk :: t => spec_replies mem t
    end.

  (* every init function of the sequence returns (a raising init function kills the worker:
     outside the alphabet of C17) *)
  Fixpoint inits_ok (reqs : list wreq) : Prop :=
    match reqs with
    | [] => True
    | RShutdown _ :: _ => True
    | RInit f :: t => (exists m, apply VNone (to_py (RInit f)) = Ok m) /\ inits_ok t
    | _ :: t => inits_ok t
    end.

  Definition is_shutdown (r : wreq) : bool := match r with RShutdown _ => true | _ => false end.
  Definition bears_reply (r : wreq) : bool := match r with RCall _ _ _ | RShutdown _ => true | _ => false end.

  (* requests actually served: up to and including the first shutdown *)
  Fixpoint served (reqs : list wreq) : list wreq :=
    match reqs with
    | [] => []
    | r :: t => if is_shutdown r then [r] else r :: served t
    end.
End Spec.

(* ---- n ranks with collectives ---- *)
Section Par.
  Variable rank_step : (pyval -> pyval -> res pyval) -> (pyval -> res pyval) -> (pyval -> res pyval)
                       -> pyval -> pyval -> pyval -> pyval -> res pyval.
  (* rank_step apply bcast gather memory received rank0 size_gt1 *)
  Variable n : nat.                                   (* number of ranks *)
  Variable app : nat -> pyval -> pyval -> res pyval.  (* rank -> memory -> request -> outcome *)

  Definition ranks : list nat := List.seq 0 n.

  (* all ranks take the collective step for the request [received] (as read by rank 0):
     bcast delivers rank 0's object to everyone; gather delivers the list of all ranks'
     values, in rank order, to rank 0 and None elsewhere. *)
  Definition par_step (mems : nat -> pyval) (received : pyval) : res (list pyval) :=
    mapM (fun r =>
            rank_step (app r)
                      (fun _ => Ok received)
                      (fun _ => outs <- mapM (fun q => app q (mems q) received) ranks ;;
                                Ok (if Nat.eqb r 0 then VList outs else VNone))
                      (mems r) (if Nat.eqb r 0 then received else VNone)
                      (VBool (Nat.eqb r 0)) (VBool (Nat.ltb 1 n)))
         ranks.

  (* a request sequence on n ranks: replies of all ranks in the order sent, and whether the
     ranks left their loops *)
  Fixpoint par_run (mems : list pyval) (reqs : list pyval) : res (list pyval * bool) :=
    match reqs with
    | [] => Ok ([], false)
    | q :: t =>
        rs <- par_step (fun r => List.nth r mems VNone) q ;;
        us <- mapM unpack_step rs ;;
        let reps := List.concat (List.map (fun u : pyval * list pyval * bool => snd (fst u)) us) in
        if List.existsb (fun u : pyval * list pyval * bool => snd u) us then Ok (reps, true)
        else '(rest, ex) <- par_run (List.map (fun u : pyval * list pyval * bool => fst (fst u)) us) t ;;
             Ok (reps ++ rest, ex)
    end.
End Par.

(* ---- file mode: one multi-rank call (backend/cache_parallel.py) ---- *)
Section FilePar.
  Variable rank_body : (pyval -> pyval -> res pyval) -> (pyval -> res pyval) -> (pyval -> res pyval)
                       -> pyval -> pyval -> pyval -> res pyval.
  (* rank_body apply bcast gather loaded rank0 size_gt1 = VTuple [VList writes] *)
  Variable n : nat.
  Variable app : nat -> pyval -> res pyval.   (* rank -> the broadcast task dictionary -> outcome *)

  (* rank 0 reads the task file ([loaded]); bcast delivers it to every rank; every rank calls
     the function; gather delivers all ranks' values in rank order to rank 0 (None elsewhere);
     the result is, per rank, the list of values handed to backend_write_file *)
  Definition file_par (loaded : pyval) : res (list pyval) :=
    mapM (fun r =>
            rank_body (fun _ d => app r d)
                      (fun _ => Ok loaded)
                      (fun _ => outs <- mapM (fun q => app q loaded) (ranks n) ;;
                                Ok (if Nat.eqb r 0 then VList outs else VNone))
                      (if Nat.eqb r 0 then loaded else VNone)
                      (VBool (Nat.eqb r 0)) (VBool (Nat.ltb 1 n)))
         (ranks n).
End FilePar.
