(* Point-level model of the block-allocation executor with cache_directory set
   (execute_parallel_tasks with _execute_task_with_cache): Model/Exec.v's client, worker threads and
   processes, with the cache steps of the worker thread laid over them —
     after a task is taken:   listdir; on a hit  open-r / [read output] / close / set_result / task_done
                              (no set_running_or_notify_cancel, no request to the process);
     after a result arrives:  dump = open-a / 4 x create_dataset / close, then set_result as before;
                              a failing create_dataset (name exists) enters the except branch.
   The directory is the one of Model/FileExec.v (result files only).  Hand-written; tied to the
   code by the lockstep check (all points compared, several executor sessions over one directory,
   worker threads killed at a persistence point). *)
From Coq Require Import List Bool Arith Lia.
From EL Require Import Model.Exec Model.StepExec Model.FileExec.
Import ListNotations.

Inductive cpc :=
| CNone                                   (* no cache step pending: the thread is where Model/Exec.v says *)
| CLook (i : nat)
| CHitOpen (i : nat) | CHitRead (i : nat) | CHitClose (flag : bool) (i : nat) | CHitSet (flag : bool) (i : nat)
| CDOpen (i v : nat) | CDDs (i v : nat) (d : ds) | CDClose (ok : bool) (i v : nat).

Record cstate := mkCS {
  cb : state;
  cov : list cpc;            (* per worker thread *)
  cfs : fsys
}.

Record ccfg := mkCC { cbase : cfg; ccanon : nat -> nat }.

Definition ckey (c : ccfg) (i : nat) : key := (ccanon c i, []).
Definition cpath (c : ccfg) (i : nat) : path := (ckey c i, EOut).

Definition getov (s : cstate) (j : nat) : cpc := nth j (cov s) CNone.
Fixpoint updov (l : list cpc) (j : nat) (o : cpc) : list cpc :=
  match l, j with
  | [], O => [o]
  | [], S j' => CNone :: updov [] j' o
  | _ :: t, O => o :: t
  | a :: t, S j' => a :: updov t j' o
  end.
Definition set_ov (s : cstate) (j : nat) (o : cpc) : cstate := mkCS (cb s) (updov (cov s) j o) (cfs s).
Definition set_cb (s : cstate) (b : state) : cstate := mkCS b (cov s) (cfs s).
Definition set_cfs (s : cstate) (f : fsys) : cstate := mkCS (cb s) (cov s) f.

Definition next_ds (d : ds) : option ds :=
  match d with DFn => Some DArgs | DArgs => Some DKw | DKw => Some DOut | DOut => None end.

Definition cw_step (c : ccfg) (s : cstate) (j : nat) : option (cstate * flabel) :=
  let b := cb s in
  match nth_error (ws b) j with
  | None => None
  | Some w =>
      let fs := cfs s in
      match getov s j with
      | CNone =>
          match w_step (cbase c) b j with
          | Some (b', l) =>
              let o' := match wp w, nth_error (ws b') j with
                        | WGet, Some w' => match wp w' with WSrnc i => CLook i | _ => CNone end
                        | WRecv _, Some w' => match wp w' with WSetRes i v => CDOpen i v | _ => CNone end
                        | _, _ => CNone
                        end in
              Some (set_ov (set_cb s b') j o', FL l)
          | None => None
          end
      | CLook i =>
          if fs_has fs (cpath c i) then Some (set_ov s j (CHitOpen i), LListdir)
          else Some (set_ov s j CNone, LListdir)
      | CHitOpen i =>
          match fs_get fs (cpath c i) with
          | Some l => Some (set_ov s j (if has_ds DOut l then CHitRead i else CHitClose false i), LH5Open false (cpath c i))
          | None => Some (set_ov (set_cb s (wpc_to b j w WDead)) j CNone, LH5Open false (cpath c i))
          end
      | CHitRead i => Some (set_ov s j (CHitClose true i), LH5Read (cpath c i) DOut)
      | CHitClose flag i => Some (set_ov s j (CHitSet flag i), LH5Close (cpath c i))
      | CHitSet flag i =>
          (* future.set_result(result) on the future as it is: no set_running_or_notify_cancel *)
          let v := if flag then ccanon c i else 0 in
          match getf b i with
          | FPending | FRunning =>
              Some (set_ov (set_cb s (wpc_to (set_futs b (setf b i (FRes v))) j w WTd)) j CNone, FL (LSetRes i v))
          | _ => Some (set_ov (set_cb s (wpc_to b j w WDead)) j CNone, FL (LSetRes i v))     (* InvalidStateError: the thread dies *)
          end
      | CDOpen i v =>
          let s1 := if fs_has fs (cpath c i) then s else set_cfs s (fs_set fs (cpath c i) []) in
          Some (set_ov s1 j (CDDs i v DFn), LH5Open true (cpath c i))
      | CDDs i v d =>
          match fs_get fs (cpath c i) with
          | Some l =>
              if has_ds d l then Some (set_ov s j (CDClose false i v), LH5Ds (cpath c i) d)
              else
                let s1 := set_cfs s (fs_set fs (cpath c i) (l ++ [d])) in
                Some (set_ov s1 j (match next_ds d with Some d' => CDDs i v d' | None => CDClose true i v end), LH5Ds (cpath c i) d)
          | None => Some (set_ov s j (CDClose false i v), LH5Ds (cpath c i) d)
          end
      | CDClose ok i v =>
          if ok then Some (set_ov s j CNone, LH5Close (cpath c i))
          else Some (set_ov (set_cb s (wpc_to b j w (WEPoll i))) j CNone, LH5Close (cpath c i))   (* except branch *)
      end
  end.

Definition cstep (c : ccfg) (s : cstate) (t : tid) : option (cstate * flabel) :=
  match t with
  | TM => match m_step (cbase c) (cb s) with Some (b, l) => Some (set_cb s b, FL l) | None => None end
  | TW j => match j with O => None | S j' => cw_step c s j' end
  | TP k => match p_step (cbase c) (cb s) k with Some (b, l) => Some (set_cb s b, FL l) | None => None end
  | _ => None
  end.

Definition cinit (ncalls : nat) (prog : list op) (fs : fsys) : cstate := mkCS (init ncalls prog) [] fs.

Definition cenabled (c : ccfg) (s : cstate) : list tid :=
  filter (fun t => is_some (cstep c s t)) (tids (cb s)).

(* a worker thread is killed from outside (harness crash injection): it simply stops *)
Definition kill_worker (s : cstate) (j : nat) : cstate :=
  match nth_error (ws (cb s)) j with
  | Some w => set_ov (set_cb s (wpc_to (cb s) j w WDone)) j CNone
  | None => s
  end.
