(* Rendering of model traces in the alphabet of harness/sim.py, for the lockstep check. *)
From Coq Require Import List Bool Arith String ZArith.
From EL Require Import Base.Dec Model.Exec.
Import ListNotations.
Local Open Scope string_scope.

Definition sn (n : nat) : string := dec (Z.of_nat n).
Definition sb (b : bool) : string := if b then "1" else "0".

Definition show_item (it : item) : string :=
  match it with Task i => "T" ++ sn i | Shut w => "S" ++ sb w end.
Definition show_msg (m : msg) : string :=
  match m with
  | MCall i => "call" ++ sn i | MShut => "shut" | MRes v => "res:v" ++ sn v
  | MErr => "err:ValueError" | MAck => "res:True"
  end.
Definition show_tid (t : tid) : string :=
  match t with TM => "M" | TR => "R" | TD => "D" | TW j => "W" ++ sn j | TP k => "P" ++ sn k end.

Definition show_label (l : label) : string :=
  match l with
  | LMBegin => "mbegin"
  | LTStart j => "tstart W" ++ sn j
  | LPut q it => "put " ++ sn q ++ " " ++ show_item it
  | LGet q it => "get " ++ sn q ++ " " ++ show_item it
  | LGetNw q None => "getnw " ++ sn q ++ " E"
  | LGetNw q (Some it) => "getnw " ++ sn q ++ " " ++ show_item it
  | LTd q => "td " ++ sn q
  | LQJoin q => "qjoin " ++ sn q
  | LTJoin j => "tjoin W" ++ sn j
  | LCancel i => "cancel " ++ sn i
  | LSrnc i => "srnc " ++ sn i
  | LSetRes i v => "setres " ++ sn i ++ " v" ++ sn v
  | LSetExc i => "setexc " ++ sn i ++ " ValueError"
  | LResult i => "result " ++ sn i
  | LTBegin => "tbegin"
  | LSpawn k => "spawn P" ++ sn k
  | LZSendW k m => "zsend S" ++ sn k ++ " " ++ show_msg m
  | LZRecvW k m => "zrecv S" ++ sn k ++ " " ++ show_msg m
  | LPPoll k => "ppoll P" ++ sn k
  | LPComm k => "pcomm P" ++ sn k
  | LPTerm k => "pterm P" ++ sn k
  | LPWait k => "pwait P" ++ sn k
  | LPBegin => "pbegin"
  | LZRecvP k m => "zrecv C" ++ sn k ++ " " ++ show_msg m
  | LBody i => "body " ++ sn i
  | LZSendP k m => "zsend C" ++ sn k ++ " " ++ show_msg m
  | LTStartT t => "tstart " ++ show_tid t
  | LTJoinT t => "tjoin " ++ show_tid t
  | LDoneQ i b => "done? " ++ sn i
  | LSleep => "sleep"
  end.

Fixpoint join (sep : string) (l : list string) : string :=
  match l with
  | [] => ""
  | [x] => x
  | x :: t => x ++ sep ++ join sep t
  end.

Definition show_fstate (f : fstate) : string :=
  match f with
  | FPending => "pending" | FRunning => "running" | FCancelled | FCancelledN => "cancelled"
  | FRes v => "res:v" ++ sn v | FExc => "exc:ValueError"
  end.

Definition show_outcome (x : outcome) : string :=
  match x with
  | XOk => "ok" | XRaise => "raise" | XBool b => sb b | XRes v => "res:v" ++ sn v
  | XExc => "exc" | XCancelled => "cancelled" | XSkip => "skip"
  end.

Definition show_wstate (w : wthread) : string :=
  match wp w with WDone => "done" | WDead => "dead" | _ => "live" end.

Definition show_final (c : cfg) (s : state) : string :=
  "F|en=" ++ join "," (map show_tid (enabled c s))
  ++ "|futs=" ++ join "," (map show_fstate (futs s))
  ++ "|outs=" ++ join "," (map show_outcome (outs s))
  ++ "|main=" ++ (match main s with MEnd => "end" | _ => "live" end)
  ++ "|ws=" ++ join "," (map show_wstate (ws s))
  ++ "|ps=" ++ join "," (map (fun p => if palive p then "alive" else "exited") (ps s))
  ++ "|q=" ++ join "," (map (fun q => sn (qunf q) ++ ":" ++ join "." (map show_item (qitems q))) (queues s)).

(* follow the implementation's picks; every line: enabled|picked|label *)
Fixpoint replay (c : cfg) (picks : list tid) (s : state) : list string :=
  match picks with
  | [] => [show_final c s]
  | t :: rest =>
      let en := join "," (map show_tid (enabled c s)) in
      match step c s t with
      | Some (s', l) => (en ++ "|" ++ show_tid t ++ "|" ++ show_label l) :: replay c rest s'
      | None => ["STUCK|" ++ en ++ "|" ++ show_tid t; show_final c s]
      end
  end.

Definition replay_case (n : nat) (rs : list nat) (ncalls : nat) (prog : list op) (picks : list tid) : string :=
  let c := mkC n (fun i => existsb (Nat.eqb i) rs) in
  join ";" (replay c picks (init ncalls prog)).

(* ---- invariant testing on replayed traces ---- *)
From EL Require Import Model.ExecInv.
Fixpoint check_inv (c : cfg) (nofail : bool) (picks : list tid) (s : state) (n : nat) : string :=
  let bad :=
    (if owns_ok s then "" else "owns ") ++
    (if vals_ok c s then "" else "vals ") ++ (if running_ok s then "" else "running ") ++
    (if own_ok s then "" else "own ") ++ (if nthreads_ok c s then "" else "nthreads ") ++
    (if forallb (fun w => chan_ok c w (getp s (wproc w))) (ws s) then "" else "chan ") ++
    (if nofail then (if shuts_ok c s then "" else "shuts ") ++ (if counter_ok s then "" else "counter ") else "") in
  match bad with
  | EmptyString =>
      match picks with
      | [] => "ok"
      | t :: rest => match step c s t with
                     | Some (s', _) => check_inv c nofail rest s' (S n)
                     | None => "stuck"
                     end
      end
  | _ => "step " ++ sn n ++ ": " ++ bad
  end.

Definition check_inv_case (n : nat) (rs : list nat) (ncalls : nat) (prog : list op) (picks : list tid) : string :=
  let c := mkC n (fun i => existsb (Nat.eqb i) rs) in
  check_inv c (match rs with [] => true | _ => false end) picks (init ncalls prog) 0.
