(* The persistence protocol of the cache directory, per cache key: which files exist under the
   three suffixes, which datasets they hold, and the operation sequences the writers perform
   (hdf.dump, cache/backend.backend_write_file, the submit side of cache/shared.execute_tasks_h5,
   the interactive cache writer of interactive/shared._execute_task_with_cache).  File semantics
   are those of the h5py stand-in (DESIGN.md section 4): open-append creates, create_dataset is
   create-only and fails on an existing name, rename is atomic and replaces, every completed
   operation is durable.  The operation lists are compared on every check run with the sequences
   of persistence points observed when the real code runs under the simulator. *)
From Coq Require Import List Bool Arith String.
Import ListNotations.

Inductive suffix := SIn | SReady | SOut.
Inductive dsname := DFunction | DArgs | DKwargs | DOutput.

Definition suffix_eqb (a b : suffix) : bool :=
  match a, b with SIn, SIn | SReady, SReady | SOut, SOut => true | _, _ => false end.
Definition ds_eqb (a b : dsname) : bool :=
  match a, b with
  | DFunction, DFunction | DArgs, DArgs | DKwargs, DKwargs | DOutput, DOutput => true
  | _, _ => false
  end.

Definition file := list dsname.                      (* datasets present, creation order *)
Record entry := mkE { f_in : option file; f_ready : option file; f_out : option file }.

Definition getfile (e : entry) (s : suffix) : option file :=
  match s with SIn => f_in e | SReady => f_ready e | SOut => f_out e end.
Definition setfile (e : entry) (s : suffix) (f : option file) : entry :=
  match s with
  | SIn => mkE f (f_ready e) (f_out e)
  | SReady => mkE (f_in e) f (f_out e)
  | SOut => mkE (f_in e) (f_ready e) f
  end.

Inductive fsop :=
| OOpenA (s : suffix)
| ODs (s : suffix) (d : dsname)
| OClose (s : suffix)
| ORename (a b : suffix)
| ORemove (s : suffix).

Definition has_ds (f : file) (d : dsname) : bool := existsb (ds_eqb d) f.

(* None: the operation raises (nothing is changed) *)
Definition apply_op (e : entry) (o : fsop) : option entry :=
  match o with
  | OOpenA s => Some (match getfile e s with Some _ => e | None => setfile e s (Some []) end)
  | ODs s d => match getfile e s with
               | Some f => if has_ds f d then None else Some (setfile e s (Some (f ++ [d])))
               | None => None
               end
  | OClose _ => Some e
  | ORename a b => match getfile e a with
                   | Some f => Some (setfile (setfile e a None) b (Some f))
                   | None => None
                   end
  | ORemove s => match getfile e s with Some _ => Some (setfile e s None) | None => None end
  end.

(* a process performs its operations in order and stops at the first one that raises; a crash
   keeps exactly a prefix *)
Fixpoint apply_ops (e : entry) (l : list fsop) : entry :=
  match l with
  | [] => e
  | o :: t => match apply_op e o with Some e' => apply_ops e' t | None => e end
  end.

(* ---- the writers' operation lists ---- *)
Definition dump_ops (s : suffix) (keys : list dsname) : list fsop :=
  OOpenA s :: map (ODs s) keys ++ [OClose s].

(* cache/backend.backend_write_file *)
Definition worker_ops : list fsop :=
  ORename SIn SReady :: dump_ops SReady [DOutput] ++ [ORename SReady SOut].

(* cache/shared.execute_tasks_h5, a call without a published result: [stale] = a <key>.h5in exists *)
Definition submit_ops (stale : bool) : list fsop :=
  (if stale then [ORemove SIn] else []) ++ dump_ops SIn [DFunction; DArgs; DKwargs].

(* interactive/shared._execute_task_with_cache, miss path *)
Definition interactive_ops : list fsop := dump_ops SOut [DFunction; DArgs; DKwargs; DOutput].

(* ---- what readers accept ---- *)
Definition complete (f : file) : bool :=
  has_ds f DFunction && has_ds f DArgs && has_ds f DKwargs && has_ds f DOutput.

(* file mode (_check_task_output): the .h5out file exists and holds an output dataset *)
Definition accepted_file_mode (e : entry) : bool :=
  match f_out e with Some f => has_ds f DOutput | None => false end.

(* interactive cache (hit path): the .h5out file exists — the completeness flag is ignored *)
Definition accepted_interactive (e : entry) : bool :=
  match f_out e with Some _ => true | None => false end.

(* ---- rendering for the correspondence check ---- *)
Local Open Scope string_scope.
Definition show_suffix (s : suffix) : string :=
  match s with SIn => "h5in" | SReady => "h5ready" | SOut => "h5out" end.
Definition show_ds (d : dsname) : string :=
  match d with DFunction => "function" | DArgs => "input_args" | DKwargs => "input_kwargs" | DOutput => "output" end.
Definition show_op (o : fsop) : string :=
  match o with
  | OOpenA s => "open-a " ++ show_suffix s
  | ODs s d => "ds " ++ show_suffix s ++ " " ++ show_ds d
  | OClose s => "close " ++ show_suffix s
  | ORename a b => "rename " ++ show_suffix a ++ " " ++ show_suffix b
  | ORemove s => "remove " ++ show_suffix s
  end.
Fixpoint joinc (l : list string) : string :=
  match l with [] => "" | [x] => x | x :: t => x ++ "," ++ joinc t end.
Definition show_ops (l : list fsop) : string := joinc (map show_op l).
