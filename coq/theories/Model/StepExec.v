(* Point-level model of the per-call-process executor (InteractiveStepExecutor): the client,
   the dispatcher thread D (execute_separate_tasks with _submit_function_to_separate_process
   and _wait_for_free_slots), and one worker thread + private queue + process per call.
   Worker threads and processes are those of Model/Exec.v (same code: execute_parallel_tasks
   on a private queue), reused through the embedded base state.  Tied to the code by the
   lockstep check, like Model/Exec.v. *)
From Coq Require Import List Bool Arith Lia.
From EL Require Import Model.Exec.
Import ListNotations.

Inductive dpc :=
| DNone                                   (* not started *)
| DBegin | DGet
| DPutTask (i : nat) | DPutShut (i : nat)
| DScan (i : nat) (todo kept : list (nat * nat))     (* one pass of the slot wait loop *)
| DSpin (i : nat)                         (* wait loop with nothing left to wait for: spins forever *)
| DStart (i : nat) | DTd
| DSJoin (k : nat) | DSTd | DSQJoin
| DDone | DDead.

Record xstate := mkX {
  base : state;                 (* queues, futures, client, workers, processes *)
  disp : dpc;
  active : list (nat * nat);    (* future id -> slots, insertion order *)
  launched : nat                (* number of worker threads started (they are W1..) *)
}.

Record xcfg := mkXC {
  xraises : nat -> bool;
  xslots : nat -> nat;          (* slots requested by call i: cores x threads_per_core *)
  xmax_cores : option nat;
  xmax_workers : option nat
}.

Definition bcfg (c : xcfg) : cfg := mkC 1 (xraises c).

Definition sum_slots (l : list (nat * nat)) : nat := fold_right (fun p acc => snd p + acc) 0 l.

(* the guard of _wait_for_free_slots *)
Definition must_wait (c : xcfg) (act : list (nat * nat)) (i : nat) : bool :=
  match xmax_cores c with
  | Some m => Nat.ltb m (sum_slots act + xslots c i)
  | None => match xmax_workers c with
            | Some m => Nat.ltb m (length act + 1)
            | None => false
            end
  end.

Definition set_base (x : xstate) (b : state) : xstate := mkX b (disp x) (active x) (launched x).
Definition set_disp (x : xstate) (d : dpc) : xstate := mkX (base x) d (active x) (launched x).

Definition ddone (d : dpc) : bool := match d with DDone | DDead => true | _ => false end.

(* after the private queue holds the call and its shutdown message: wait or launch *)
Definition after_puts (c : xcfg) (x : xstate) (i : nat) : xstate :=
  if must_wait c (active x) i
  then match active x with
       | [] => set_disp x (DSpin i)
       | _ => set_disp x (DScan i (active x) [])
       end
  else set_disp x (DStart i).

Definition d_step (c : xcfg) (qm : nat) (x : xstate) : option (xstate * label) :=
  let s := base x in
  match disp x with
  | DNone | DDone | DDead | DSpin _ => None
  | DBegin => Some (set_disp x DGet, LTBegin)
  | DGet =>
      match qitems (getq s qm) with
      | [] => None
      | it :: _ =>
          let s1 := qpop s qm in
          match it with
          | Task i =>
              (* qtask = queue.Queue(): the new queue gets the next id *)
              let s2 := set_queues s1 (queues s1 ++ [mkQ [] 0]) in
              Some (mkX s2 (DPutTask i) (active x) (launched x), LGet qm it)
          | Shut w => Some (mkX s1 (if w then (if Nat.eqb (launched x) 0 then DSTd else DSJoin 0) else DSTd)
                                (active x) (launched x), LGet qm it)
          end
      end
  | DPutTask i =>
      let q := length (queues s) - 1 in
      Some (mkX (qput s q (Task i)) (DPutShut i) (active x) (launched x), LPut q (Task i))
  | DPutShut i =>
      let q := length (queues s) - 1 in
      Some (after_puts c (set_base x (qput s q (Shut true))) i, LPut q (Shut true))
  | DScan i todo kept =>
      match todo with
      | [] => None
      | (f, sl) :: rest =>
          let d := fdone (getf s f) in
          let kept' := if d then kept else kept ++ [(f, sl)] in
          match rest with
          | [] =>
              let x1 := mkX s (disp x) kept' (launched x) in
              Some (after_puts c x1 i, LDoneQ f d)
          | _ => Some (set_disp x (DScan i rest kept'), LDoneQ f d)
          end
      end
  | DStart i =>
      let q := length (queues s) - 1 in
      let s1 := set_ws s (ws s ++ [mkW q 0 WBegin]) in
      Some (mkX s1 DTd (active x ++ [(i, xslots c i)]) (S (launched x)), LTStart (S (launched x)))
  | DTd => Some (mkX (qtd s qm) DGet (active x) (launched x), LTd qm)
  | DSJoin k =>
      match nth_error (ws s) k with
      | Some wt =>
          if wdone wt then
            if wdead wt then Some (set_disp x DDead, LTJoin (S k))
            else Some (set_disp x (if Nat.eqb (S k) (launched x) then DSTd else DSJoin (S k)), LTJoin (S k))
          else None
      | None => None
      end
  | DSTd => Some (mkX (qtd s qm) DSQJoin (active x) (launched x), LTd qm)
  | DSQJoin => if Nat.eqb (qunf (getq s qm)) 0 then Some (set_disp x DDone, LQJoin qm) else None
  end.

(* ---- the client (ExecutorBase.submit / shutdown / __del__ with a single thread handle D) ---- *)
Definition xm_norm (x : xstate) : xstate :=
  let s := base x in
  let fin := set_base x (m_done s (if cur_silent s then [] else [XOk]) true) in
  match main s with
  | MPutShut w O => if cur_wait s then set_base x (set_main s (MJoin 0)) else fin
  | MJoin (S _) => set_base x (set_main s MQJoin)
  | _ => x
  end.

Definition xm_step (c : xcfg) (x : xstate) : option (xstate * label) :=
  let s := base x in
  let ret (b : state) (l : label) := Some (set_base x b, l) in
  match main s with
  | MBegin => Some (mkX (set_main s (MStart 0)) (disp x) (active x) (launched x), LMBegin)
  | MStart _ => Some (mkX (m_goto s (ops s ++ [ODrop]) [] false) DBegin (active x) (launched x), LTStartT TD)
  | MOp =>
      match ops s with
      | OSubmit i :: _ =>
          let s1 := qput s 0 (Task i) in
          let s2 := mkS (queues s1) (futs s1) (subm s1 ++ [i]) (main s1) (ops s1) (closed s1) (ws s1) (ps s1) (outs s1) in
          ret (m_done s2 [XOk] (closed s)) (LPut 0 (Task i))
      | OCancel i :: _ =>
          let '(f, b) := fcancel (getf s i) in
          ret (m_done (set_futs s (setf s i f)) [XBool b] (closed s)) (LCancel i)
      | OResult i :: _ =>
          if fdone (getf s i) then ret (m_done s [result_outcome (getf s i)] (closed s)) (LResult i) else None
      | OShutdown w true :: _ =>
          match drain_step s w with
          | Some (b, l) => ret b l
          | None => Some (xm_norm (set_base x (set_main s (MPutShut w 1))), LGetNw 0 None)
          end
      | OShutdown w false :: _ => Some (xm_norm (set_base x (set_main (qput s 0 (Shut w)) (MPutShut w 0))), LPut 0 (Shut w))
      | OExit :: _ => Some (xm_norm (set_base x (set_main (qput s 0 (Shut true)) (MPutShut true 0))), LPut 0 (Shut true))
      | ODrop :: _ => Some (xm_norm (set_base x (set_main (qput s 0 (Shut false)) (MPutShut false 0))), LPut 0 (Shut false))
      | [] => None
      end
  | MDrain w =>
      match drain_step s w with
      | Some (b, l) => ret b l
      | None => Some (xm_norm (set_base x (set_main s (MPutShut w 1))), LGetNw 0 None)
      end
  | MDrainCancel w j =>
      let '(f, _) := fcancel (getf s j) in
      ret (set_main (set_futs s (setf s j f)) (MDrainTd w)) (LCancel j)
  | MDrainTd w => ret (set_main (qtd s 0) (MDrain w)) (LTd 0)
  | MPutShut w k =>
      match k with
      | O => None
      | S k' => Some (xm_norm (set_base x (set_main (qput s 0 (Shut w)) (MPutShut w k'))), LPut 0 (Shut w))
      end
  | MJoin _ =>
      if ddone (disp x) then
        match disp x with
        | DDead => ret (m_done s [XRaise] false) (LTJoinT TD)
        | _ => ret (set_main s MQJoin) (LTJoinT TD)
        end
      else None
  | MQJoin =>
      if Nat.eqb (qunf (getq s 0)) 0
      then ret (m_done s (if cur_silent s then [] else [XOk]) true) (LQJoin 0) else None
  | MEnd => None
  end.

Definition xstep (c : xcfg) (x : xstate) (t : tid) : option (xstate * label) :=
  match t with
  | TM => xm_step c x
  | TD => d_step c 0 x
  | TW j => match j with
            | O => None
            | S j' => match w_step (bcfg c) (base x) j' with
                      | Some (b, l) => Some (set_base x b, l)
                      | None => None
                      end
            end
  | TP k => match p_step (bcfg c) (base x) k with
            | Some (b, l) => Some (set_base x b, l)
            | None => None
            end
  | TR => None
  end.

Definition xinit (ncalls : nat) (prog : list op) : xstate :=
  mkX (init ncalls prog) DNone [] 0.

Definition xtids (x : xstate) : list tid :=
  TM :: TD :: map (fun j => TW (S j)) (seq 0 (length (ws (base x))))
     ++ map (fun k => TP (S k)) (seq 0 (length (ps (base x)))).

Definition xenabled (c : xcfg) (x : xstate) : list tid :=
  filter (fun t => is_some (xstep c x t)) (xtids x).

(* ---- what C07 is about ---- *)
(* calls whose function body is being executed in some worker process *)
Definition executing (x : xstate) : list nat :=
  flat_map (fun p => match pp p with PBody i | PSend i => [i] | _ => [] end) (ps (base x)).

Definition exec_slots (c : xcfg) (x : xstate) : nat :=
  fold_right (fun i acc => xslots c i + acc) 0 (executing x).
