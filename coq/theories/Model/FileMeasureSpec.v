(* When is the loop thread of the file executor (Model/FileExec.v) inside a fruitless polling pass?
   Executable, so that the progress-measure statement of Proofs/FileMeasure.v can be tested on runs. *)
From Coq Require Import List Bool Arith.
From EL Require Import Model.Exec Model.ExecInv Model.StepExec Model.FileExec Model.FileSpec Model.FileLiveSpec.
Import ListNotations.

(* an entry of memory_dict the scan can do nothing for: its future is not done and its result file is not complete *)
Definition fruitless (s : fstateX) (e : key * nat) : bool :=
  negb (fdone (getf (fbase s) (snd e))) && negb (out_complete (fsy s) (fst e)).

(* the loop thread is in an iteration that can change nothing but its own program counter:
   - no queue item, and every memory_dict entry still to be looked at in this pass is fruitless;
   - or it polls the producers of a call and all of them are still running *)
Definition f_polling (s : fstateX) : bool :=
  match fpc s with
  | GGet => (match qitems (getq (fbase s) 0) with [] => true | _ => false end) && forallb (fruitless s) (mem s)
  | GScan todo _ => forallb (fruitless s) todo
  | GExistsOut k f todo _ | GOpenOut k f todo _ | GReadOut k f todo _ | GCloseOut _ k f todo _ | GSetRes k f todo _ =>
      forallb (fruitless s) ((k, f) :: todo)
  | GPoll _ _ _ todo kept => forallb (fun p => qalive (fgetp s p)) (todo ++ kept)
  | _ => false
  end.
