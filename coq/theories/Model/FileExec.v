(* Point-level model of the file-based executor (executorlib/cache): the client (ExecutorBase
   with the single thread handle F), the loop thread F (cache/shared.execute_tasks_h5 with
   _convert_args_and_kwargs, _check_task_output, subprocess_spawner.execute_in_subprocess and
   terminate_subprocess), one process per started call (backend/cache_serial ->
   cache/backend.backend_execute_task_in_file, FutureItem.result) and the cache directory they
   share.  One model step = one instrumented point of harness/sim.py (queue / future / process
   operations as in Model/Exec.v, plus listdir / exists / remove / rename and every HDF5
   operation of the h5py stand-in).  Hand-written; tied to the code by the lockstep check. *)
From Coq Require Import List Bool Arith Lia.
From EL Require Import Model.Exec Model.StepExec.
Import ListNotations.

(* ---------- the cache directory ---------- *)
Inductive ds := DFn | DArgs | DKw | DOut.
Definition ds_eqb (a b : ds) : bool :=
  match a, b with DFn, DFn | DArgs, DArgs | DKw, DKw | DOut, DOut => true | _, _ => false end.
Definition has_ds (d : ds) (l : list ds) : bool := existsb (ds_eqb d) l.

(* the key of a call: its canonical call (identical calls share one) and, per Future argument,
   how it was replaced: by a FutureItem naming the result file of the producing call (found in
   memory_dict; the file name is the producer's key, so the producer's key is part of this one)
   or by its value (None) *)
Inductive ktree := KT (c : nat) (pat : list (option ktree)).
Definition key := (nat * list (option ktree))%type.
Definition key_tree (k : key) : ktree := KT (fst k) (snd k).

Fixpoint ktree_eqb (a b : ktree) : bool :=
  match a, b with
  | KT c1 p1, KT c2 p2 =>
      Nat.eqb c1 c2 &&
      (fix go (x y : list (option ktree)) : bool :=
         match x, y with
         | [], [] => true
         | None :: x', None :: y' => go x' y'
         | Some u :: x', Some v :: y' => ktree_eqb u v && go x' y'
         | _, _ => false
         end) p1 p2
  end.
Definition key_eqb (a b : key) : bool := ktree_eqb (key_tree a) (key_tree b).

Inductive ext := EIn | ERdy | EOut.
Definition ext_eqb (a b : ext) : bool :=
  match a, b with EIn, EIn | ERdy, ERdy | EOut, EOut => true | _, _ => false end.
Definition path := (key * ext)%type.
Definition path_eqb (a b : path) : bool := key_eqb (fst a) (fst b) && ext_eqb (snd a) (snd b).

Definition fsys := list (path * list ds).          (* the files that exist, with their datasets *)
Fixpoint fs_get (fs : fsys) (p : path) : option (list ds) :=
  match fs with
  | [] => None
  | (q, c) :: t => if path_eqb p q then Some c else fs_get t p
  end.
Fixpoint fs_del (fs : fsys) (p : path) : fsys :=
  match fs with
  | [] => []
  | (q, c) :: t => if path_eqb p q then fs_del t p else (q, c) :: fs_del t p
  end.
Definition fs_set (fs : fsys) (p : path) (c : list ds) : fsys := fs_del fs p ++ [(p, c)].
Definition fs_has (fs : fsys) (p : path) : bool := match fs_get fs p with Some _ => true | None => false end.

(* ---------- labels ---------- *)
Inductive flabel :=
| FL (l : label)
| LListdir | LExists (p : path) | LRemove (p : path)
| LH5Open (append : bool) (p : path) | LH5Ds (p : path) (d : ds) | LH5Read (p : path) (d : ds) | LH5Close (p : path)
| LRename (a b : path).

(* ---------- processes (cache_serial.py) ---------- *)
Inductive fppc :=
| QBegin | QOpenIn | QReadIn (d : ds) | QCloseIn (ok : bool)
| QDepOpen (todo : list key) | QDepRead (todo : list key) | QDepClose (flag : bool) (todo : list key)
| QBody | QRen1 | QOpenR | QDsOut | QCloseR (ok : bool) | QRen2 | QExit.
Record fproc := mkFP { qkey : key; qwaits : list key; qpc : fppc }.
Definition qalive (p : fproc) : bool := match qpc p with QExit => false | _ => true end.

(* ---------- the loop thread ---------- *)
Inductive fpcT :=
| GNone | GGet
| GConvRes (i d : nat) (rest : list nat) (pat : list (option ktree)) (waits : list key)   (* arg.result() of a future not in memory_dict *)
| GListdir (i : nat) (k : key) (waits : list key)
| GExistsIn (i : nat) (k : key) (waits : list key)
| GRemove (i : nat) (k : key) (waits : list key)
| GOpenIn (i : nat) (k : key) (waits : list key)
| GDs (i : nat) (k : key) (waits : list key) (d : ds)
| GCloseIn (ok : bool) (i : nat) (k : key) (waits : list key)
| GCheck (i : nat) (k : key) (waits : list key)
| GPoll (i : nat) (k : key) (waits : list key) (todo kept : list nat)
| GSpawn (i : nat) (k : key) (waits : list key)
| GTd
| GScan (todo kept : list (key * nat))
| GExistsOut (k : key) (f : nat) (todo kept : list (key * nat))
| GOpenOut (k : key) (f : nat) (todo kept : list (key * nat))
| GReadOut (k : key) (f : nat) (todo kept : list (key * nat))
| GCloseOut (flag : bool) (k : key) (f : nat) (todo kept : list (key * nat))
| GSetRes (k : key) (f : nat) (todo kept : list (key * nat))
| GTerm (todo : list nat) | GTermPoll (p : nat) (todo : list nat)
| GSTd | GSQJoin
| GDone | GDead.

Record fstateX := mkFX {
  fx : xstate;                      (* client, queue 0, futures (Model/StepExec.v's client is ExecutorBase) *)
  fpc : fpcT;
  mem : list (key * nat);           (* memory_dict: key -> future, insertion order *)
  procd : list (key * nat);         (* process_dict: key -> process *)
  fps : list fproc;
  fsy : fsys
}.

Record fcfg := mkFC {
  fdeps : nat -> list nat;          (* the Future arguments of call i, in argument order *)
  fcanon : nat -> nat               (* identical calls have the same canonical call *)
}.

Definition dummy_xcfg : xcfg := mkXC (fun _ => false) (fun _ => 1) None None.

Definition set_fx (s : fstateX) (x : xstate) : fstateX := mkFX x (fpc s) (mem s) (procd s) (fps s) (fsy s).
Definition set_fpc (s : fstateX) (p : fpcT) : fstateX := mkFX (fx s) p (mem s) (procd s) (fps s) (fsy s).
Definition set_fsy (s : fstateX) (f : fsys) : fstateX := mkFX (fx s) (fpc s) (mem s) (procd s) (fps s) f.
Definition set_mem (s : fstateX) (m : list (key * nat)) : fstateX := mkFX (fx s) (fpc s) m (procd s) (fps s) (fsy s).
Definition set_fps (s : fstateX) (l : list fproc) : fstateX := mkFX (fx s) (fpc s) (mem s) (procd s) l (fsy s).
Definition fbase (s : fstateX) : state := base (fx s).
Definition set_fbase (s : fstateX) (b : state) : fstateX := set_fx s (set_base (fx s) b).

(* F has ended: the client's join looks at [disp] *)
Definition f_end (s : fstateX) (dead : bool) : fstateX :=
  set_fx (set_fpc s (if dead then GDead else GDone)) (set_disp (fx s) (if dead then DDead else DDone)).

Fixpoint assoc_key {A} (l : list (key * A)) (k : key) : option A :=
  match l with
  | [] => None
  | (q, a) :: t => if key_eqb k q then Some a else assoc_key t k
  end.
Fixpoint assoc_set {A} (l : list (key * A)) (k : key) (a : A) : list (key * A) :=
  match l with
  | [] => [(k, a)]
  | (q, b) :: t => if key_eqb k q then (q, a) :: t else (q, b) :: assoc_set t k a
  end.
(* the key under which future [d] is registered in memory_dict (first match) *)
Fixpoint mem_find (m : list (key * nat)) (d : nat) : option key :=
  match m with
  | [] => None
  | (k, f) :: t => if Nat.eqb f d then Some k else mem_find t d
  end.

Definition fgetp (s : fstateX) (n : nat) : fproc := nth (n - 1) (fps s) (mkFP (0, []) [] QExit).
Definition fsetp (s : fstateX) (n : nat) (p : fproc) : fstateX := set_fps s (upd (fps s) (n - 1) p).

(* _convert_args_and_kwargs: Future arguments found in memory_dict become FutureItems (no
   point); one that is not found is resolved by arg.result() (a point) *)
Fixpoint conv (c : fcfg) (s : fstateX) (i : nat) (todo : list nat) (pat : list (option ktree)) (waits : list key) : fstateX :=
  match todo with
  | [] => (* serialize_funct_h5; `if task_key not in memory_dict` *)
      let k := (fcanon c i, pat) in
      match assoc_key (mem s) k with
      | Some _ => set_fpc s GTd
      | None => set_fpc s (GListdir i k waits)
      end
  | d :: rest =>
      match mem_find (mem s) d with
      | Some kd => conv c s i rest (pat ++ [Some (key_tree kd)]) (waits ++ [kd])
      | None => set_fpc s (GConvRes i d rest pat waits)
      end
  end.

(* the scan of memory_dict in an iteration without a queue item *)
Definition scan_next (s : fstateX) (todo kept : list (key * nat)) : fstateX :=
  match todo with
  | [] => set_fpc (set_mem s kept) GGet
  | _ => set_fpc s (GScan todo kept)
  end.

Definition after_check (s : fstateX) (i : nat) (k : key) (waits : list key) : fstateX :=
  let pl := flat_map (fun w => match assoc_key (procd s) w with Some p => [p] | None => [] end) waits in
  match pl with
  | [] => set_fpc s (GSpawn i k waits)
  | _ => set_fpc s (GPoll i k waits pl [])
  end.

Definition kill_proc (s : fstateX) (n : nat) : fstateX :=
  let p := fgetp s n in fsetp s n (mkFP (qkey p) (qwaits p) QExit).

Definition f_step (c : fcfg) (s : fstateX) : option (fstateX * flabel) :=
  let b := fbase s in
  let fs := fsy s in
  match fpc s with
  | GNone => match disp (fx s) with
             | DBegin => Some (set_fpc s GGet, FL LTBegin)
             | _ => None
             end
  | GDone | GDead => None
  | GGet =>
      match qitems (getq b 0) with
      | [] => Some (scan_next s (mem s) [], FL (LGetNw 0 None))
      | it :: _ =>
          let s1 := set_fbase s (qpop b 0) in
          match it with
          | Task i => Some (conv c s1 i (fdeps c i) [] [], FL (LGetNw 0 (Some it)))
          | Shut w => Some (set_fpc s1 (match map snd (procd s) with [] => GSTd | l => GTerm l end), FL (LGetNw 0 (Some it)))
          end
      end
  | GConvRes i d rest pat waits =>
      match getf b d with
      | FRes _ => Some (conv c s i rest (pat ++ [None]) waits, FL (LResult d))
      | FCancelled | FCancelledN | FExc => Some (f_end s true, FL (LResult d))      (* result() raises *)
      | _ => None
      end
  | GListdir i k waits =>
      if fs_has fs (k, EOut)
      then Some (set_fpc (set_mem s (assoc_set (mem s) k i)) GTd, LListdir)
      else Some (set_fpc s (GExistsIn i k waits), LListdir)
  | GExistsIn i k waits =>
      Some (set_fpc s (if fs_has fs (k, EIn) then GRemove i k waits else GOpenIn i k waits), LExists (k, EIn))
  | GRemove i k waits =>
      if fs_has fs (k, EIn)
      then Some (set_fpc (set_fsy s (fs_del fs (k, EIn))) (GOpenIn i k waits), LRemove (k, EIn))
      else Some (f_end s true, LRemove (k, EIn))
  | GOpenIn i k waits =>
      let s1 := if fs_has fs (k, EIn) then s else set_fsy s (fs_set fs (k, EIn) []) in
      Some (set_fpc s1 (GDs i k waits DFn), LH5Open true (k, EIn))
  | GDs i k waits d =>
      match fs_get fs (k, EIn) with
      | Some l =>
          if has_ds d l then Some (set_fpc s (GCloseIn false i k waits), LH5Ds (k, EIn) d)   (* name already exists *)
          else
            let s1 := set_fsy s (fs_set fs (k, EIn) (l ++ [d])) in
            Some (set_fpc s1 (match d with DFn => GDs i k waits DArgs | DArgs => GDs i k waits DKw | _ => GCloseIn true i k waits end),
                  LH5Ds (k, EIn) d)
      | None => Some (f_end s true, LH5Ds (k, EIn) d)
      end
  | GCloseIn ok i k waits =>
      if ok then Some (set_fpc s (GCheck i k waits), LH5Close (k, EIn)) else Some (f_end s true, LH5Close (k, EIn))
  | GCheck i k waits =>
      if fs_has fs (k, EIn) then Some (after_check s i k waits, LExists (k, EIn))
      else Some (f_end s true, LExists (k, EIn))
  | GPoll i k waits todo kept =>
      match todo with
      | [] => None
      | p :: rest =>
          let kept' := if qalive (fgetp s p) then kept ++ [p] else kept in
          match rest with
          | [] => Some (set_fpc s (match kept' with [] => GSpawn i k waits | _ => GPoll i k waits kept' [] end), FL (LPPoll p))
          | _ => Some (set_fpc s (GPoll i k waits rest kept'), FL (LPPoll p))
          end
      end
  | GSpawn i k waits =>
      let n := S (length (fps s)) in
      Some (mkFX (fx s) GTd (assoc_set (mem s) k i) (assoc_set (procd s) k n) (fps s ++ [mkFP k waits QBegin]) fs,
            FL (LSpawn n))
  | GTd => Some (set_fpc (set_fbase s (qtd b 0)) GGet, FL (LTd 0))
  | GScan todo kept =>
      match todo with
      | [] => None
      | (k, f) :: rest =>
          let d := fdone (getf b f) in
          if d then Some (scan_next s rest kept, FL (LDoneQ f d))
          else Some (set_fpc s (GExistsOut k f rest kept), FL (LDoneQ f d))
      end
  | GExistsOut k f todo kept =>
      if fs_has fs (k, EOut) then Some (set_fpc s (GOpenOut k f todo kept), LExists (k, EOut))
      else Some (scan_next s todo (kept ++ [(k, f)]), LExists (k, EOut))
  | GOpenOut k f todo kept =>
      match fs_get fs (k, EOut) with
      | Some l => Some (set_fpc s (if has_ds DOut l then GReadOut k f todo kept else GCloseOut false k f todo kept), LH5Open false (k, EOut))
      | None => Some (f_end s true, LH5Open false (k, EOut))
      end
  | GReadOut k f todo kept => Some (set_fpc s (GCloseOut true k f todo kept), LH5Read (k, EOut) DOut)
  | GCloseOut flag k f todo kept =>
      if flag then Some (set_fpc s (GSetRes k f todo kept), LH5Close (k, EOut))
      else Some (scan_next s todo (kept ++ [(k, f)]), LH5Close (k, EOut))
  | GSetRes k f todo kept =>
      match getf b f with
      | FPending | FRunning =>
          Some (scan_next (set_fbase s (set_futs b (setf b f (FRes (fst k))))) todo (kept ++ [(k, f)]), FL (LSetRes f (fst k)))
      | _ => Some (f_end s true, FL (LSetRes f (fst k)))             (* InvalidStateError *)
      end
  | GTerm todo =>
      match todo with
      | [] => None
      | p :: rest => Some (set_fpc (kill_proc s p) (GTermPoll p rest), FL (LPTerm p))
      end
  | GTermPoll p rest =>
      if qalive (fgetp s p) then Some (s, FL (LPPoll p))
      else Some (set_fpc s (match rest with [] => GSTd | _ => GTerm rest end), FL (LPPoll p))
  | GSTd => Some (set_fpc (set_fbase s (qtd b 0)) GSQJoin, FL (LTd 0))
  | GSQJoin => if Nat.eqb (qunf (getq b 0)) 0 then Some (f_end s false, FL (LQJoin 0)) else None
  end.

(* ---------- a call process ---------- *)
Definition q_to (s : fstateX) (n : nat) (p : fproc) (pc : fppc) : fstateX := fsetp s n (mkFP (qkey p) (qwaits p) pc).

(* what load() reads after the function: only the datasets that are there *)
Definition after_fn (l : list ds) : fppc :=
  if has_ds DArgs l then QReadIn DArgs else if has_ds DKw l then QReadIn DKw else QCloseIn true.
Definition after_args (l : list ds) : fppc :=
  if has_ds DKw l then QReadIn DKw else QCloseIn true.

Definition q_step (c : fcfg) (s : fstateX) (n : nat) : option (fstateX * flabel) :=
  match nth_error (fps s) (n - 1) with
  | None => None
  | Some p =>
      if Nat.eqb n 0 then None else
      let k := qkey p in
      let fs := fsy s in
      let to := q_to s n p in
      match qpc p with
      | QExit => None
      | QBegin => Some (to QOpenIn, FL LPBegin)
      | QOpenIn =>
          match fs_get fs (k, EIn) with
          | Some l => Some (to (if has_ds DFn l then QReadIn DFn else QCloseIn false), LH5Open false (k, EIn))
          | None => Some (to QExit, LH5Open false (k, EIn))
          end
      | QReadIn d =>
          let l := match fs_get fs (k, EIn) with Some l => l | None => [] end in
          Some (to (match d with DFn => after_fn l | DArgs => after_args l | _ => QCloseIn true end), LH5Read (k, EIn) d)
      | QCloseIn ok =>
          Some (to (if ok then (match qwaits p with [] => QBody | w => QDepOpen w end) else QExit), LH5Close (k, EIn))
      | QDepOpen todo =>
          match todo with
          | [] => None
          | d :: rest =>
              match fs_get fs (d, EOut) with
              | Some l => Some (to (if has_ds DOut l then QDepRead todo else QDepClose false todo), LH5Open false (d, EOut))
              | None => Some (to QExit, LH5Open false (d, EOut))
              end
          end
      | QDepRead todo =>
          match todo with
          | [] => None
          | d :: _ => Some (to (QDepClose true todo), LH5Read (d, EOut) DOut)
          end
      | QDepClose flag todo =>
          match todo with
          | [] => None
          | d :: rest =>
              Some (to (if flag then (match rest with [] => QBody | _ => QDepOpen rest end) else QDepOpen todo), LH5Close (d, EOut))
          end
      | QBody => Some (to QRen1, FL (LBody (fst k)))
      | QRen1 =>
          match fs_get fs (k, EIn) with
          | Some l => Some (q_to (set_fsy s (fs_set (fs_del fs (k, EIn)) (k, ERdy) l)) n p QOpenR, LRename (k, EIn) (k, ERdy))
          | None => Some (to QExit, LRename (k, EIn) (k, ERdy))
          end
      | QOpenR =>
          let s1 := if fs_has fs (k, ERdy) then s else set_fsy s (fs_set fs (k, ERdy) []) in
          Some (q_to s1 n p QDsOut, LH5Open true (k, ERdy))
      | QDsOut =>
          match fs_get fs (k, ERdy) with
          | Some l =>
              if has_ds DOut l then Some (to (QCloseR false), LH5Ds (k, ERdy) DOut)
              else Some (q_to (set_fsy s (fs_set fs (k, ERdy) (l ++ [DOut]))) n p (QCloseR true), LH5Ds (k, ERdy) DOut)
          | None => Some (to QExit, LH5Ds (k, ERdy) DOut)
          end
      | QCloseR ok => Some (to (if ok then QRen2 else QExit), LH5Close (k, ERdy))
      | QRen2 =>
          match fs_get fs (k, ERdy) with
          | Some l => Some (q_to (set_fsy s (fs_set (fs_del fs (k, ERdy)) (k, EOut) l)) n p QExit, LRename (k, ERdy) (k, EOut))
          | None => Some (to QExit, LRename (k, ERdy) (k, EOut))
          end
      end
  end.

(* ---------- the system ---------- *)
Definition fstep (c : fcfg) (s : fstateX) (t : tid) : option (fstateX * flabel) :=
  match t with
  | TM => match xm_step dummy_xcfg (fx s) with
          | Some (x, l) => Some (set_fx s x, FL l)
          | None => None
          end
  | TD => f_step c s
  | TP n => q_step c s n
  | _ => None
  end.

Definition finit (ncalls : nat) (prog : list op) (fs : fsys) : fstateX :=
  mkFX (xinit ncalls prog) GNone [] [] [] fs.

Definition ftids (s : fstateX) : list tid :=
  TM :: TD :: map (fun k => TP (S k)) (seq 0 (length (fps s))).

Definition fenabled (c : fcfg) (s : fstateX) : list tid :=
  filter (fun t => is_some (fstep c s t)) (ftids s).
