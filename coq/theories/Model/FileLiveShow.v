(* Model/FileLiveSpec.v evaluated along a replayed run (kill-free single sessions). *)
From Coq Require Import List Bool Arith String.
From EL Require Import Base.Dec Model.Exec Model.ExecShow Model.StepExec Model.FileExec Model.FileShow Model.FileSpec Model.FileLiveSpec.
Import ListNotations.
Local Open Scope string_scope.

Fixpoint flive (c : fcfg) (prog : list op) (picks : list tid) (s : fstateX) (n : nat) (rests : nat) : string :=
  if rest_ok prog s then
    let rests' := if procs_exited s && loop_between s then S rests else rests in
    match picks with
    | [] => "ok " ++ sn rests'
    | t :: rest =>
        match fstep c s t with
        | Some (s', _) => flive c prog rest s' (S n) rests'
        | None => "stuck"
        end
    end
  else "step " ++ sn n ++ ": " ++ (if rest_A s then "" else "A ") ++ (if rest_B prog s then "" else "B").

Definition flive_case (deps : list (list nat)) (canon : list nat) (ncalls : nat) (prog : list op) (picks : list tid) : string :=
  let c := mkFC (fun i => nth (i - 1) deps []) (fun i => nth (i - 1) canon i) in
  if no_late_submit prog && nocancel prog then flive c prog picks (finit ncalls prog []) 0 0 else "skip".
