(* Statements about the cached-block-executor model (Model/CacheExec.v) in executable form. *)
From Coq Require Import List Bool Arith.
From EL Require Import Model.Exec Model.StepExec Model.FileExec Model.FileSpec Model.CacheExec.
Import ListNotations.

(* every file of the directory is a result file whose datasets are a prefix of what dump() writes *)
Fixpoint is_prefix (a b : list ds) : bool :=
  match a, b with
  | [], _ => true
  | x :: a', y :: b' => ds_eqb x y && is_prefix a' b'
  | _, [] => false
  end.
Definition full_entry : list ds := [DFn; DArgs; DKw; DOut].
Definition dir_ok (fs : fsys) : bool :=
  forallb (fun e => match snd (fst e) with EOut => is_prefix (snd e) full_entry | _ => false end) fs.

(* a worker in its dump has written exactly the datasets before the one it is about to write *)
Definition dump_ok (c : ccfg) (s : cstate) : bool :=
  forallb (fun o => match o with
                    | CDDs i v d => match fs_get (cfs s) (cpath c i) with Some _ => true | None => false end
                    | _ => true
                    end) (cov s).
