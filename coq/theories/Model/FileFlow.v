(* Dataflow of the file-based executor: results are published per call under the call's key; a
   task reads the published results of its producers (cache/backend.backend_load_file resolves
   every FutureItem through get_output, which only returns once the output dataset is there),
   applies the function, publishes.  The order in which tasks publish is arbitrary, subject to:
   a task publishes after its producers (cache/subprocess_spawner waits for the producers'
   processes; FutureItem.result spins until the output exists). *)
From Coq Require Import List Bool Arith Lia.
Import ListNotations.

Section Flow.
  Variable deps : nat -> list nat.                  (* producers of call i, argument order *)
  Variable app : nat -> list nat -> nat.            (* value of call i from its inputs' values *)

  Definition store := nat -> option nat.            (* published output per call *)
  Definition upd_store (s : store) (i v : nat) : store := fun j => if Nat.eqb j i then Some v else s j.

  Fixpoint all_some (l : list (option nat)) : option (list nat) :=
    match l with
    | [] => Some []
    | Some v :: t => match all_some t with Some vs => Some (v :: vs) | None => None end
    | None :: _ => None
    end.

  (* one task publishes: enabled when every producer has published *)
  Definition publish (s : store) (i : nat) : option store :=
    match all_some (map s (deps i)) with
    | Some vs => Some (upd_store s i (app i vs))
    | None => None
    end.

  Inductive freach : store -> Prop :=
  | freach_init : freach (fun _ => None)
  | freach_step : forall s i s', freach s -> publish s i = Some s' -> freach s'.

  (* sequential evaluation in dependency order *)
  Fixpoint seqval (fuel : nat) (i : nat) : nat :=
    match fuel with
    | O => 0
    | S f => app i (map (seqval f) (deps i))
    end.
End Flow.
