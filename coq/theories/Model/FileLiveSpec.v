(* Progress statement for the file-executor model (Model/FileExec.v), in executable form so that it
   can be tested on replayed implementation traces before it is proved (Proofs/FileLive.v).
   In a run without kills: whenever every started process has exited and the loop thread is between
   two iterations, (A) every future still registered in memory_dict is done or has a complete result
   file (the next scan completes it), and (B) every call the loop has taken from the queue is done or
   registered. *)
From Coq Require Import List Bool Arith.
From EL Require Import Model.Exec Model.ExecInv Model.StepExec Model.FileExec Model.FileSpec.
Import ListNotations.

Definition procs_exited (s : fstateX) : bool := forallb (fun p => negb (qalive p)) (fps s).
Definition loop_between (s : fstateX) : bool := match fpc s with GGet => true | _ => false end.
Definition out_complete (fs : fsys) (k : key) : bool :=
  match fs_get fs (k, EOut) with Some l => has_ds DOut l | None => false end.

Fixpoint occb (i : nat) (l : list nat) : nat :=
  match l with [] => 0 | j :: t => (if Nat.eqb i j then 1 else 0) + occb i t end.
Fixpoint tasksb (l : list item) : list nat :=
  match l with [] => [] | Task i :: t => i :: tasksb t | Shut _ :: t => tasksb t end.

(* call i is neither still to be submitted nor in the queue *)
Definition taken (s : fstateX) (i : nat) : bool :=
  Nat.eqb (occb i (submits (ops (fbase s))) + occb i (tasksb (qitems (getq (fbase s) 0)))) 0.

Definition rest_A (s : fstateX) : bool :=
  forallb (fun e => fdone (getf (fbase s) (snd e)) || out_complete (fsy s) (fst e)) (mem s).
Definition rest_B (prog : list op) (s : fstateX) : bool :=
  forallb (fun i => negb (taken s i) || fdone (getf (fbase s) i) || existsb (fun e => Nat.eqb (snd e) i) (mem s))
          (submits prog).

Definition rest_ok (prog : list op) (s : fstateX) : bool :=
  negb (procs_exited s && loop_between s) || (rest_A s && rest_B prog s).

(* every result file of the directory is complete *)
Definition fs_outs_complete (fs : fsys) : bool :=
  forallb (fun e => match snd (fst e) with EOut => has_ds DOut (snd e) | _ => true end) fs.

(* no submit() after a shutdown / with-exit (such a call is refused and never reaches the queue) *)
Definition is_submit (o : op) : bool := match o with OSubmit _ => true | _ => false end.
Fixpoint no_late_submit (l : list op) : bool :=
  match l with
  | [] => true
  | OShutdown _ _ :: t | OExit :: t => negb (existsb is_submit t)
  | _ :: t => no_late_submit t
  end.
