(* The cache-key normaliser of standalone/serialize._get_hash:
     re.sub(b"(?<=/ipykernel_)([0-9]+)(?=/)", b"", binary)
   as an executable function on byte strings (lists of ascii), and the relation "equal up to the
   digits of /ipykernel_<digits>/ segments" that C08 allows it to identify.  The translator
   check (translator/regex_tie.py) fails closed unless the pattern literal in the source is
   exactly this one; `blank` is differentially tested against Python's re.sub on every run. *)
From Coq Require Import List Bool Arith Ascii String.
Import ListNotations.
Local Open Scope list_scope.

Definition bytes := list ascii.

Definition marker : bytes := list_ascii_of_string "/ipykernel_".

Definition is_digit (a : ascii) : bool :=
  let n := nat_of_ascii a in Nat.leb 48 n && Nat.leb n 57.

Definition slash : ascii := "/"%char.

Fixpoint prefixb (p s : bytes) : bool :=
  match p, s with
  | [], _ => true
  | a :: p', b :: s' => Ascii.eqb a b && prefixb p' s'
  | _ :: _, [] => false
  end.

Fixpoint span_digits (s : bytes) : bytes * bytes :=
  match s with
  | a :: t => if is_digit a then let '(d, r) := span_digits t in (a :: d, r) else ([], s)
  | [] => ([], [])
  end.

(* leftmost, non-overlapping matches; a match is a maximal non-empty digit run that is preceded
   by the marker and followed by '/'.  [fuel] bounds the number of scanning steps (length s + 1
   is enough). *)
Fixpoint blank_aux (fuel : nat) (s : bytes) : bytes :=
  match fuel with
  | O => s
  | S f =>
      match s with
      | [] => []
      | a :: t =>
          if prefixb marker s then
            let rest := List.skipn (List.length marker) s in
            let '(d, r) := span_digits rest in
            match d, r with
            | _ :: _, c :: _ => if Ascii.eqb c slash then List.app marker (blank_aux f r)
                                else List.app marker (blank_aux f rest)
            | _, _ => List.app marker (blank_aux f rest)
            end
          else a :: blank_aux f t
      end
  end.

Definition blank (s : bytes) : bytes := blank_aux (S (List.length s)) s.

(* equal up to the digits of "/ipykernel_<digits>/" segments (the two digit strings are arbitrary,
   possibly of different length, possibly empty).  The '/' that closes a segment stays part of
   the remainder because it may open the next segment. *)
Inductive digits_equiv : bytes -> bytes -> Prop :=
| de_nil : digits_equiv [] []
| de_char : forall a s t, digits_equiv s t -> digits_equiv (a :: s) (a :: t)
| de_seg : forall d1 d2 s t,
    forallb is_digit d1 = true -> forallb is_digit d2 = true ->
    digits_equiv (slash :: s) (slash :: t) ->
    digits_equiv (List.app marker (List.app d1 (slash :: s))) (List.app marker (List.app d2 (slash :: t))).

Definition show_bytes (s : bytes) : string := string_of_list_ascii s.
