(* Rest-state statement for the cached block executor (Model/CacheExec.v) in executable form, tested
   on replayed implementation traces before being proved (Proofs/CacheLive.v): in a state where no
   thread or process can take a step, the client has finished, every submitted future is done, every
   worker process has exited and every worker thread has ended. *)
From Coq Require Import List Bool Arith.
From EL Require Import Model.Exec Model.ExecInv Model.StepExec Model.FileExec Model.CacheExec.
Import ListNotations.

Definition crest_goal (s : cstate) : bool :=
  (match main (cb s) with MEnd => true | _ => false end)
  && forallb (fun i => fdone (getf (cb s) i)) (subm (cb s))
  && forallb (fun p => negb (palive p)) (ps (cb s))
  && forallb wdone (ws (cb s)).

Definition crest_ok_b (c : ccfg) (s : cstate) : bool :=
  match cenabled c s with
  | [] => crest_goal s
  | _ => true
  end.

(* no two identical calls among those the program submits *)
Definition canon_inj_on (c : ccfg) (prog : list op) : Prop :=
  forall i j, In i (submits prog) -> In j (submits prog) -> ccanon c i = ccanon c j -> i = j.
Fixpoint nodupb (l : list nat) : bool :=
  match l with [] => true | x :: t => negb (existsb (Nat.eqb x) t) && nodupb t end.
Definition canon_inj_on_b (c : ccfg) (prog : list op) : bool := nodupb (map (ccanon c) (submits prog)).
