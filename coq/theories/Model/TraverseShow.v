(* Rendering of Model/Traverse.v results for the correspondence check (props/traverse.py). *)
From Coq Require Import List String Bool Arith ZArith.
From EL Require Import Base.Dec.
From EL Require Export Model.Traverse.
Import ListNotations.
Open Scope string_scope.
Definition show_nat (n : nat) : string := dec (Z.of_nat n).

Fixpoint tshow (a : targ) : string :=
  match a with
  | TVal v => "v" ++ show_nat v
  | TFut j => "f" ++ show_nat j
  | TList l => "[" ++ String.concat "," ((fix go (l : list targ) := match l with [] => [] | x :: t => tshow x :: go t end) l) ++ "]"
  | TOther l => "(" ++ String.concat "," ((fix go (l : list targ) := match l with [] => [] | x :: t => tshow x :: go t end) l) ++ ")"
  end.

Definition tcase (args : list targ) (kw : list (nat * targ)) (results : list targ) (done : list bool) : string :=
  let res := fun j => nth j results (TVal 0) in
  let fs := futures_of args kw in
  String.concat "," (map show_nat fs) ++ "|" ++
  (if forallb (fun j => nth j done false) fs then "T" else "F") ++ "|" ++
  String.concat ";" (map tshow (update_args res args)) ++ "|" ++
  String.concat ";" (map (fun p => "k" ++ show_nat (fst p) ++ "=" ++ tshow (snd p)) (update_kwargs res kw)).
