(* Invariants of the block-allocation executor model (Model/Exec.v), written as boolean
   functions so that they can be (a) evaluated on every state of the traces replayed from the
   implementation (a test that the statements are right) and (b) proved for every reachable
   state (Proofs/ExecProofs.v). *)
From Coq Require Import List Bool Arith Lia.
From EL Require Import Model.Exec.
Import ListNotations.

Definition count {A} (f : A -> bool) (l : list A) : nat := length (filter f l).

(* a worker that took an item from its queue and has not yet called task_done for it *)
Definition w_holds (w : wthread) : bool :=
  match wp w with
  | WSrnc _ | WCancTd | WSend _ | WRecv _ | WSetRes _ _ | WTd
  | WEPoll _ | WESend _ | WERecv _ | WEComm _ | WETerm _ | WEWait _ | WETd _
  | WSPoll _ | WSSend _ | WSRecv _ | WSComm _ | WSTerm _ | WSWait | WSTd => true
  | _ => false
  end.

Definition m_holds (s : state) : nat :=
  match main s with MDrainCancel _ _ | MDrainTd _ => 1 | _ => 0 end.

Definition is_shut (it : item) : bool := match it with Shut _ => true | _ => false end.
Definition is_task (it : item) : bool := match it with Task _ => true | _ => false end.

(* a worker that has taken a shutdown message *)
Definition w_past (w : wthread) : bool :=
  match wp w with
  | WSPoll _ | WSSend _ | WSRecv _ | WSComm _ | WSTerm _ | WSWait | WSTd | WSQJoin | WDone => true
  | _ => false
  end.

(* the call a worker is currently responsible for *)
Definition w_call (w : wthread) : option nat :=
  match wp w with
  | WSrnc i | WSend i | WRecv i | WSetRes i _
  | WEPoll i | WESend i | WERecv i | WEComm i | WETerm i | WEWait i | WETd i | WESetExc i => Some i
  | _ => None
  end.

(* the call is being executed remotely: request sent, reply not yet taken *)
Definition w_remote (w : wthread) : option nat :=
  match wp w with WRecv i => Some i | _ => None end.

(* no task behind a shutdown message *)
Fixpoint srt (l : list item) : bool :=
  match l with
  | [] => true
  | Task _ :: t => srt t
  | Shut _ :: t => forallb is_shut t
  end.

(* how many shutdown messages the client has put so far *)
Definition in_shutdown (s : state) : bool :=
  match ops s with OShutdown _ _ :: _ | OExit :: _ | ODrop :: _ => true | _ => false end.

Definition shuts_put (c : cfg) (s : state) : nat :=
  if closed s then nworkers c
  else match main s with
       | MPutShut _ k => nworkers c - k
       | MJoin _ | MQJoin => nworkers c
       | _ => 0
       end.

(* ---- channel between a worker thread and its process ---- *)
Definition reply_of (c : cfg) (i : nat) : msg := if raises c i then MErr else MRes i.

Definition msg_eqb (a b : msg) : bool :=
  match a, b with
  | MCall i, MCall j => Nat.eqb i j
  | MShut, MShut | MErr, MErr | MAck, MAck => true
  | MRes v, MRes w => Nat.eqb v w
  | _, _ => false
  end.
Definition msgs_eqb (a b : list msg) : bool :=
  Nat.eqb (length a) (length b) && forallb (fun p => msg_eqb (fst p) (snd p)) (combine a b).

Definition p_idle (p : proc) : bool :=
  match pp p with PBegin | PRecv => true | _ => false end.

(* the process is serving request [rq] (MCall i or MShut) whose reply is [rp]: the request is
   in flight, or being executed, or the reply is in flight; nothing else is in the channel *)
Definition serving (p : proc) (rq rp : msg) : bool :=
  (p_idle p && msgs_eqb (inbox p) [rq] && msgs_eqb (outbox p) [])
  || (match rq, pp p with
      | MCall i, PBody j | MCall i, PSend j => Nat.eqb i j
      | MShut, PAck => true
      | _, _ => false
      end && msgs_eqb (inbox p) [] && msgs_eqb (outbox p) [])
  || (match rq with MShut => negb (palive p) | _ => p_idle p end
      && msgs_eqb (inbox p) [] && msgs_eqb (outbox p) [rp]).

Definition quiet (p : proc) : bool := msgs_eqb (inbox p) [] && msgs_eqb (outbox p) [].

Definition chan_ok (c : cfg) (w : wthread) (p : proc) : bool :=
  match wp w with
  | WBegin | WSpawn => true
  | WRecv i => serving p (MCall i) (reply_of c i)
  | WERecv _ | WSRecv _ => serving p MShut MAck
  | WEComm _ | WETerm _ | WEWait _ | WETd _ | WESetExc _
  | WSComm _ | WSTerm _ | WSWait | WSTd | WSQJoin | WDone | WDead =>
      quiet p && (negb (palive p) || match pp p with PAck => false | _ => match wp w with WDead | WDone | WSTd | WSQJoin | WETd _ | WESetExc _ => true | _ => false end end)
  | _ => p_idle p && quiet p
  end.

(* every worker past its spawn owns exactly the process created with it *)
Definition owns_ok (s : state) : bool :=
  forallb (fun w => match wp w with WBegin | WSpawn => Nat.eqb (wproc w) 0
                               | _ => Nat.ltb 0 (wproc w) && Nat.leb (wproc w) (length (ps s)) end) (ws s)
  && Nat.eqb (count (fun w => match wp w with WBegin | WSpawn => false | _ => true end) (ws s)) (length (ps s))
  && forallb (fun k => Nat.leb (count (fun w => Nat.eqb (wproc w) (S k)) (ws s)) 1) (seq 0 (length (ps s))).

(* values: a result message / a pending set_result / a finished future carry the call's own value *)
Definition vals_ok (c : cfg) (s : state) : bool :=
  forallb (fun w => match wp w with WSetRes i v => Nat.eqb i v | _ => true end) (ws s)
  && forallb (fun i => match getf s i with FRes v => Nat.eqb v i | _ => true end) (seq 1 (length (futs s))).

(* a future is Running exactly while a worker is between srnc and the set_result/exception *)
Definition running_ok (s : state) : bool :=
  forallb (fun w => match wp w with
                    | WSend i | WRecv i | WSetRes i _
                    | WEPoll i | WESend i | WERecv i | WEComm i | WETerm i | WEWait i | WETd i | WESetExc i =>
                        match getf s i with FRunning => true | _ => false end
                    | _ => true end) (ws s).

(* a call is in at most one place *)
Definition where_count (s : state) (i : nat) : nat :=
  count (fun it => match it with Task j => Nat.eqb i j | _ => false end) (qitems (getq s 0))
  + count (fun w => match w_call w with Some j => Nat.eqb i j | None => false end) (ws s)
  + match main s with MDrainCancel _ j => if Nat.eqb i j then 1 else 0 | _ => 0 end.

Definition own_ok (s : state) : bool :=
  forallb (fun i => Nat.leb (where_count s i) 1
                    && (fdone (getf s i) || negb (existsb (Nat.eqb i) (subm s)) || Nat.eqb (where_count s i) 1)
                    && (existsb (Nat.eqb i) (subm s) || Nat.eqb (where_count s i) 0))
          (seq 1 (length (futs s))).

Definition counter_ok (s : state) : bool :=
  Nat.eqb (qunf (getq s 0)) (length (qitems (getq s 0)) + count w_holds (ws s) + m_holds s).

(* shutdown-message accounting, for programs without failing calls *)
Definition shuts_ok (c : cfg) (s : state) : bool :=
  Nat.eqb (count is_shut (qitems (getq s 0)) + count w_past (ws s)) (shuts_put c s)
  && srt (qitems (getq s 0)).

Definition nthreads_ok (c : cfg) (s : state) : bool :=
  match main s with
  | MBegin => Nat.eqb (length (ws s)) 0
  | MStart k => Nat.eqb (length (ws s)) k && Nat.ltb k (nworkers c)
  | _ => Nat.eqb (length (ws s)) (nworkers c)
  end.

(* holds for every program, failing calls included *)
Definition inv_safe (c : cfg) (s : state) : bool :=
  owns_ok s && vals_ok c s && running_ok s && own_ok s && nthreads_ok c s
  && forallb (fun w => chan_ok c w (getp s (wproc w))) (ws s).

(* holds for programs in which no call raises (a failing call kills its worker thread, after
   which the counter and the shutdown messages no longer add up: defects D16/D23) *)
Definition inv_nofail (c : cfg) (s : state) : bool := counter_ok s && shuts_ok c s.

(* ---- reachability and well-formed programs ---- *)
Inductive reach (c : cfg) (s0 : state) : state -> Prop :=
| reach_init : reach c s0 s0
| reach_step : forall s t s' l, reach c s0 s -> step c s t = Some (s', l) -> reach c s0 s'.

(* every call id between 1 and ncalls is submitted at most once *)
Fixpoint submits (l : list op) : list nat :=
  match l with
  | [] => []
  | OSubmit i :: t => i :: submits t
  | _ :: t => submits t
  end.

Definition wf_prog (ncalls : nat) (prog : list op) : Prop :=
  NoDup (submits prog) /\ (forall i, In i (submits prog) -> 1 <= i <= ncalls)
  /\ ~ In ODrop prog.

Definition nofail (c : cfg) : Prop := forall i, raises c i = false.
