(* Model/CacheLiveSpec.v evaluated along replayed kill-free sessions over one directory. *)
From Coq Require Import List Bool Arith String.
From EL Require Import Base.Dec Model.Exec Model.ExecInv Model.ExecShow Model.StepExec Model.FileExec Model.FileSpec Model.CacheExec Model.CacheShow Model.CacheLiveSpec.
Import ListNotations.
Local Open Scope string_scope.

Fixpoint clive (c : ccfg) (picks : list tid) (s : cstate) (n : nat) : string * cstate :=
  if crest_ok_b c s then
    match picks with
    | [] => (match cenabled c s with [] => "rest" | _ => "ok" end, s)
    | t :: rest =>
        match cstep c s t with
        | Some (s', _) => clive c rest s' (S n)
        | None => ("stuck", s)
        end
    end
  else ("step " ++ sn n ++ ": rest state without goal", s).

Fixpoint clive_sessions (c : ccfg) (ncalls : nat) (sess : list (list op * list tid)) (fs : fsys) (rests : nat) : string :=
  match sess with
  | [] => "ok " ++ sn rests
  | (prog, picks) :: rest =>
      if negb (nocancel prog && canon_inj_on_b c prog) then "skip" else
      let '(r, sf) := clive c picks (cinit ncalls prog fs) 0 in
      match r with
      | "ok" => clive_sessions c ncalls rest (cfs sf) rests
      | "rest" => clive_sessions c ncalls rest (cfs sf) (S rests)
      | _ => r
      end
  end.

Definition clive_case (nw : nat) (canon : list nat) (ncalls : nat) (sess : list (list op * list tid)) : string :=
  let c := mkCC (mkC nw (fun _ => false)) (fun i => nth (i - 1) canon i) in
  clive_sessions c ncalls sess [] 0.
