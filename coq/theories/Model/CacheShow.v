(* Rendering of cached-block-executor model traces in the alphabet of harness/sim.py. *)
From Coq Require Import List Bool Arith String ZArith.
From EL Require Import Base.Dec Model.Exec Model.ExecShow Model.StepExec Model.FileExec Model.FileShow Model.CacheExec.
Import ListNotations.
Local Open Scope string_scope.

(* values are rendered through the canonical call (identical calls compute the same value); 0 is None *)
Definition show_val (c : ccfg) (v : nat) : string :=
  match v with O => "None" | _ => "v" ++ sn (ccanon c v) end.
Definition show_cmsg (c : ccfg) (m : msg) : string :=
  match m with MRes v => "res:" ++ show_val c v | MCall i => "call" ++ sn (ccanon c i) | _ => show_msg m end.

Definition show_clabel (c : ccfg) (l : flabel) : string :=
  match l with
  | FL (LSetRes i v) => "setres " ++ sn i ++ " " ++ show_val c v
  | FL (LZSendW k m) => "zsend S" ++ sn k ++ " " ++ show_cmsg c m
  | FL (LZRecvW k m) => "zrecv S" ++ sn k ++ " " ++ show_cmsg c m
  | FL (LZRecvP k m) => "zrecv C" ++ sn k ++ " " ++ show_cmsg c m
  | FL (LZSendP k m) => "zsend C" ++ sn k ++ " " ++ show_cmsg c m
  | FL (LBody i) => "body " ++ sn (ccanon c i)
  | FL l' => show_label l'
  | _ => show_flabel l
  end.

Definition show_cfstate (c : ccfg) (f : fstate) : string :=
  match f with FRes v => "res:" ++ show_val c v | _ => show_fstate f end.
Definition show_coutcome (c : ccfg) (x : outcome) : string :=
  match x with XRes v => "res:" ++ show_val c v | _ => show_outcome x end.

Definition show_cfinal (c : ccfg) (s : cstate) : string :=
  let b := cb s in
  "F|en=" ++ join "," (map show_tid (cenabled c s))
  ++ "|futs=" ++ join "," (map (show_cfstate c) (futs b))
  ++ "|outs=" ++ join "," (map (show_coutcome c) (outs b))
  ++ "|main=" ++ (match main b with MEnd => "end" | _ => "live" end)
  ++ "|ws=" ++ join "," (map show_wstate (ws b))
  ++ "|ps=" ++ join "," (map (fun p => if palive p then "alive" else "exited") (ps b))
  ++ "|q=" ++ join "," (map (fun q => sn (qunf q) ++ ":" ++ join "." (map show_item (qitems q))) (queues b))
  ++ "|nfiles=" ++ sn (List.length (cfs s)).

Inductive cpick := CK (t : tid) | CCrashW (j : nat).

Fixpoint creplay (c : ccfg) (picks : list cpick) (s : cstate) : list string * cstate :=
  match picks with
  | [] => ([], s)
  | CCrashW j :: rest =>
      let '(l, s') := creplay c rest (kill_worker s (j - 1)) in
      (("|W" ++ sn j ++ "|crash W" ++ sn j) :: l, s')
  | CK t :: rest =>
      let en := join "," (map show_tid (cenabled c s)) in
      match cstep c s t with
      | Some (s', l) => let '(ls, sf) := creplay c rest s' in ((en ++ "|" ++ show_tid t ++ "|" ++ show_clabel c l) :: ls, sf)
      | None => (["STUCK|" ++ en ++ "|" ++ show_tid t], s)
      end
  end.

Fixpoint csessions (c : ccfg) (ncalls : nat) (sess : list (list op * list cpick)) (fs : fsys) : list string :=
  match sess with
  | [] => []
  | (prog, picks) :: rest =>
      let '(ls, sf) := creplay c picks (cinit ncalls prog fs) in
      match rest with
      | [] => ls ++ [show_cfinal c sf]
      | _ => ls ++ ["S|nfiles=" ++ sn (List.length (cfs sf))] ++ csessions c ncalls rest (cfs sf)
      end
  end.

Definition csessions_case (nw : nat) (rs : list nat) (canon : list nat) (ncalls : nat)
           (sess : list (list op * list cpick)) : string :=
  let c := mkCC (mkC nw (fun i => existsb (Nat.eqb i) rs)) (fun i => nth (i - 1) canon i) in
  join ";" (csessions c ncalls sess []).

(* ---- statements of Model/CacheSpec.v evaluated along a replayed run ---- *)
From EL Require Import Model.FileSpec Model.CacheSpec.

Fixpoint ccheck (c : ccfg) (picks : list cpick) (s : cstate) (n : nat) : string * cstate :=
  if negb (dir_ok (cfs s)) then ("step " ++ sn n ++ ": dir", s) else
  match picks with
  | [] => ("ok", s)
  | CCrashW j :: rest => ccheck c rest (kill_worker s (j - 1)) (S n)
  | CK t :: rest =>
      match cstep c s t with
      | Some (s', l) =>
          if negb (outs_kept (cfs s) (cfs s')) then ("step " ++ sn n ++ ": completed entry altered", s)
          else match l with
               | FL (LSetRes i v) =>
                   if Nat.eqb v 0 || Nat.eqb (ccanon c v) (ccanon c i) then ccheck c rest s' (S n)
                   else ("step " ++ sn n ++ ": foreign value", s)
               | _ => ccheck c rest s' (S n)
               end
      | None => ("stuck", s)
      end
  end.

Fixpoint ccheck_sessions (c : ccfg) (ncalls : nat) (sess : list (list op * list cpick)) (fs : fsys) : string :=
  match sess with
  | [] => "ok"
  | (prog, picks) :: rest =>
      let '(r, sf) := ccheck c picks (cinit ncalls prog fs) 0 in
      match r with
      | "ok" => ccheck_sessions c ncalls rest (cfs sf)
      | _ => r
      end
  end.

Definition ccheck_case (nw : nat) (rs : list nat) (canon : list nat) (ncalls : nat)
           (sess : list (list op * list cpick)) : string :=
  let c := mkCC (mkC nw (fun i => existsb (Nat.eqb i) rs)) (fun i => nth (i - 1) canon i) in
  ccheck_sessions c ncalls sess [].
