(* Point-level model of the dependency resolver (ExecutorWithDependencies +
   execute_tasks_with_dependencies, _submit_waiting_task, _get_future_objects_from_input,
   _update_futures_in_input, _fail_task) in front of a block-allocation or a per-call-process
   executor.  The outer queue is queue 0, the inner executor's queue is queue 1; inner worker
   threads / dispatcher / processes are those of Model/Exec.v and Model/StepExec.v.
   Tied to the code by the lockstep check. *)
From Coq Require Import List Bool Arith Lia.
From EL Require Import Model.Exec Model.StepExec.
Import ListNotations.

Inductive inner_kind := IBlock (n : nat) | IStep.

(* what the resolver does after handling the parked calls of a pass *)
Inductive rafter := ASleepPoll | AShut (w : bool).

Inductive rpc :=
| RNone | RBegin | RPoll
(* a call just taken from the outer queue *)
| RCheck (i : nat) (todo : list nat) (alld : bool)        (* done? of each input future *)
| RRes (i : nat) (todo : list nat) (k : rcont)            (* result() of each input, in walk order *)
| RFwd (i : nat) (k : rcont)                               (* put on the inner queue *)
| RFailSrnc (i : nat) (k : rcont) | RFailSet (i : nat) (k : rcont)
| RTd                                                      (* task_done on the outer queue *)
(* a pass over the wait list *)
| RScan (pre : list (nat * list nat)) (cur : nat) (deps todo : list nat) (alld : bool)
        (post : list (nat * list nat)) (n0 : nat) (a : rafter)
| RSleep (a : rafter)
(* executor.shutdown(wait=w) of the inner executor, run by the resolver thread *)
| RInPut (w : bool) (k : nat) | RInJoin (k : nat) | RInJoinD | RInQJoin
| RTd0 | RQJoin0
| RDone | RDead
with rcont :=
| KTd                                                      (* continue with task_done (fresh call) *)
| KScan (pre : list (nat * list nat)) (post : list (nat * list nat)) (n0 : nat) (a : rafter).

Record dstate := mkD {
  xs : xstate;
  rp : rpc;
  rwait : list (nat * list nat)       (* parked calls with the futures they wait for *)
}.

Record dcfg := mkDC {
  dx : xcfg;
  dinner : inner_kind;
  ddeps : nat -> list nat             (* input futures of call i, in traversal order (with repetitions) *)
}.

Definition set_xs (d : dstate) (x : xstate) : dstate := mkD x (rp d) (rwait d).
Definition set_rp (d : dstate) (r : rpc) : dstate := mkD (xs d) r (rwait d).
Definition dbase (d : dstate) : state := base (xs d).
Definition set_dbase (d : dstate) (b : state) : dstate := set_xs d (set_base (xs d) b).

Definition rdone (r : rpc) : bool := match r with RDone | RDead => true | _ => false end.

Definition fok (f : fstate) : bool := match f with FRes _ => true | _ => false end.

Definition inner_shut_start (c : dcfg) (d : dstate) (w : bool) : dstate :=
  match dinner c with
  | IBlock n => set_rp d (RInPut w n)
  | IStep => set_rp d (RInPut w 1)
  end.

(* start a pass over the wait list; with an empty list go on with [a] *)
Definition start_pass (c : dcfg) (d : dstate) (a : rafter) : dstate :=
  match rwait d with
  | (j, dj) :: rest => set_rp d (RScan [] j dj dj true rest (length (rwait d)) a)
  | [] => match a with
          | ASleepPoll => set_rp d (RSleep ASleepPoll)
          | AShut w => inner_shut_start c d w
          end
  end.

(* continue a pass after the parked call [cur] has been kept / forwarded / failed *)
Definition scan_next (c : dcfg) (d : dstate) (pre post : list (nat * list nat)) (n0 : nat) (a : rafter) : dstate :=
  match post with
  | (j, dj) :: rest => set_rp d (RScan pre j dj dj true rest n0 a)
  | [] =>
      (* pass finished: wait_lst := pre; sleep if nothing was forwarded *)
      let d1 := mkD (xs d) (rp d) pre in
      match a with
      | ASleepPoll => if Nat.eqb (length pre) n0 then set_rp d1 (RSleep ASleepPoll) else set_rp d1 RPoll
      | AShut w => if Nat.eqb (length pre) n0 then set_rp d1 (RSleep (AShut w)) else start_pass c d1 (AShut w)
      end
  end.

Definition kont (c : dcfg) (d : dstate) (k : rcont) : dstate :=
  match k with
  | KTd => set_rp d RTd
  | KScan pre post n0 a => scan_next c d pre post n0 a
  end.

Definition after_inputs_done (d : dstate) (i : nat) (deps : list nat) (k : rcont) : dstate :=
  match deps with
  | [] => set_rp d (RFwd i k)
  | _ => set_rp d (RRes i deps k)
  end.

Definition r_step (c : dcfg) (d : dstate) : option (dstate * label) :=
  let s := dbase d in
  match rp d with
  | RNone | RDone | RDead => None
  | RBegin => Some (set_rp d RPoll, LTBegin)
  | RPoll =>
      match qitems (getq s 0) with
      | [] => Some (start_pass c d ASleepPoll, LGetNw 0 None)
      | it :: _ =>
          let d1 := set_dbase d (qpop s 0) in
          match it with
          | Shut w => Some (start_pass c d1 (AShut w), LGetNw 0 (Some it))
          | Task i =>
              match ddeps c i with
              | [] => Some (set_rp d1 (RFwd i KTd), LGetNw 0 (Some it))
              | deps => Some (set_rp d1 (RCheck i deps true), LGetNw 0 (Some it))
              end
          end
      end
  | RCheck i todo alld =>
      match todo with
      | [] => None
      | j :: rest =>
          let b := fdone (getf s j) in
          let alld' := alld && b in
          match rest with
          | [] =>
              if alld' then Some (after_inputs_done d i (ddeps c i) KTd, LDoneQ j b)
              else Some (mkD (xs d) RTd (rwait d ++ [(i, ddeps c i)]), LDoneQ j b)
          | _ => Some (set_rp d (RCheck i rest alld'), LDoneQ j b)
          end
      end
  | RRes i todo k =>
      match todo with
      | [] => None
      | j :: rest =>
          if fdone (getf s j) then
            if fok (getf s j) then
              match rest with
              | [] => Some (set_rp d (RFwd i k), LResult j)
              | _ => Some (set_rp d (RRes i rest k), LResult j)
              end
            else Some (set_rp d (RFailSrnc i k), LResult j)
          else None
      end
  | RFwd i k => Some (kont c (set_dbase d (qput s 1 (Task i))) k, LPut 1 (Task i))
  | RFailSrnc i k =>
      match getf s i with
      | FPending => Some (set_rp (set_dbase d (set_futs s (setf s i FRunning))) (RFailSet i k), LSrnc i)
      | FCancelled => Some (kont c (set_dbase d (set_futs s (setf s i FCancelledN))) k, LSrnc i)
      | _ => Some (set_rp d RDead, LSrnc i)
      end
  | RFailSet i k =>
      match getf s i with
      | FRunning | FPending => Some (kont c (set_dbase d (set_futs s (setf s i FExc))) k, LSetExc i)
      | _ => Some (set_rp d RDead, LSetExc i)
      end
  | RTd => Some (set_rp (set_dbase d (qtd s 0)) RPoll, LTd 0)
  | RScan pre cur deps todo alld post n0 a =>
      match todo with
      | [] => None
      | j :: rest =>
          let b := fdone (getf s j) in
          let alld' := alld && b in
          match rest with
          | [] =>
              if alld' then Some (after_inputs_done d cur deps (KScan pre post n0 a), LDoneQ j b)
              else Some (kont c d (KScan (pre ++ [(cur, deps)]) post n0 a), LDoneQ j b)
          | _ => Some (set_rp d (RScan pre cur deps rest alld' post n0 a), LDoneQ j b)
          end
      end
  | RSleep a =>
      match a with
      | ASleepPoll => Some (set_rp d RPoll, LSleep)
      | AShut w => Some (start_pass c d (AShut w), LSleep)
      end
  | RInPut w k =>
      match k with
      | O => None
      | S k' =>
          let d1 := set_dbase d (qput s 1 (Shut w)) in
          match k' with
          | S _ => Some (set_rp d1 (RInPut w k'), LPut 1 (Shut w))
          | O => if w then
                   match dinner c with
                   | IBlock n => Some (set_rp d1 (if Nat.eqb n 0 then RInQJoin else RInJoin 0), LPut 1 (Shut w))
                   | IStep => Some (set_rp d1 RInJoinD, LPut 1 (Shut w))
                   end
                 else Some (set_rp d1 RTd0, LPut 1 (Shut w))
          end
      end
  | RInJoin k =>
      match nth_error (ws s) k with
      | Some wt =>
          if wdone wt then
            if wdead wt then Some (set_rp d RDead, LTJoin (S k))
            else match dinner c with
                 | IBlock n => Some (set_rp d (if Nat.eqb (S k) n then RInQJoin else RInJoin (S k)), LTJoin (S k))
                 | IStep => None
                 end
          else None
      | None => None
      end
  | RInJoinD =>
      if ddone (disp (xs d)) then
        match disp (xs d) with
        | DDead => Some (set_rp d RDead, LTJoinT TD)
        | _ => Some (set_rp d RInQJoin, LTJoinT TD)
        end
      else None
  | RInQJoin => if Nat.eqb (qunf (getq s 1)) 0 then Some (set_rp d RTd0, LQJoin 1) else None
  | RTd0 => Some (set_rp (set_dbase d (qtd s 0)) RQJoin0, LTd 0)
  | RQJoin0 => if Nat.eqb (qunf (getq s 0)) 0 then Some (set_rp d RDone, LQJoin 0) else None
  end.

(* ---- the client: construction starts the inner threads, then R; shutdown joins R ---- *)
Definition dm_step (c : dcfg) (d : dstate) : option (dstate * label) :=
  let x := xs d in
  let s := base x in
  let ret (b : state) (l : label) := Some (set_dbase d b, l) in
  match main s with
  | MBegin =>
      let s1 := set_queues s (queues s ++ [mkQ [] 0]) in     (* the inner executor's queue *)
      match dinner c with
      | IBlock O => Some (set_dbase d (set_main s1 (MStart 1)), LMBegin)
      | _ => Some (set_dbase d (set_main s1 (MStart 0)), LMBegin)
      end
  | MStart k =>
      match dinner c with
      | IBlock n =>
          if Nat.ltb k n then
            let s1 := set_ws s (ws s ++ [mkW 1 0 WBegin]) in
            Some (set_dbase d (set_main s1 (MStart (S k))), LTStart (S k))
          else Some (mkD (set_base x (m_goto s (ops s ++ [ODrop]) [] false)) RBegin (rwait d), LTStartT TR)
      | IStep =>
          match k with
          | O => Some (set_xs d (mkX (set_main s (MStart 1)) DBegin (active x) (launched x)), LTStartT TD)
          | S _ => Some (mkD (set_base x (m_goto s (ops s ++ [ODrop]) [] false)) RBegin (rwait d), LTStartT TR)
          end
      end
  | MJoin _ =>
      if rdone (rp d) then
        match rp d with
        | RDead => ret (m_done s [XRaise] false) (LTJoinT TR)
        | _ => ret (set_main s MQJoin) (LTJoinT TR)
        end
      else None
  | _ =>
      (* submit / cancel / result / drain / put / qjoin: as for the per-call executor's client *)
      match xm_step (dx c) x with
      | Some (x', l) => Some (set_xs d x', l)
      | None => None
      end
  end.

Definition dstep (c : dcfg) (d : dstate) (t : tid) : option (dstate * label) :=
  match t with
  | TM => dm_step c d
  | TR => r_step c d
  | TD => match dinner c with
          | IStep => match d_step (dx c) 1 (xs d) with
                     | Some (x', l) => Some (set_xs d x', l)
                     | None => None
                     end
          | _ => None
          end
  | TW j => match j with
            | O => None
            | S j' => match w_step (bcfg (dx c)) (dbase d) j' with
                      | Some (b, l) => Some (set_dbase d b, l)
                      | None => None
                      end
            end
  | TP k => match p_step (bcfg (dx c)) (dbase d) k with
            | Some (b, l) => Some (set_dbase d b, l)
            | None => None
            end
  end.

Definition dinit (ncalls : nat) (prog : list op) : dstate := mkD (xinit ncalls prog) RNone [].

Definition dtids (d : dstate) : list tid :=
  TM :: TR :: TD :: map (fun j => TW (S j)) (seq 0 (length (ws (dbase d))))
     ++ map (fun k => TP (S k)) (seq 0 (length (ps (dbase d)))).

Definition denabled (c : dcfg) (d : dstate) : list tid :=
  filter (fun t => is_some (dstep c d t)) (dtids d).
