(* Rendering of step-executor model traces for the lockstep check. *)
From Coq Require Import List Bool Arith String ZArith.
From EL Require Import Base.Dec Model.Exec Model.ExecShow Model.StepExec.
Import ListNotations.
Local Open Scope string_scope.

Definition show_xfinal (c : xcfg) (x : xstate) : string :=
  let s := base x in
  "F|en=" ++ join "," (map show_tid (xenabled c x))
  ++ "|futs=" ++ join "," (map show_fstate (futs s))
  ++ "|outs=" ++ join "," (map show_outcome (outs s))
  ++ "|main=" ++ (match main s with MEnd => "end" | _ => "live" end)
  ++ "|disp=" ++ (match disp x with DDone => "done" | DDead => "dead" | DNone => "none" | _ => "live" end)
  ++ "|ws=" ++ join "," (map show_wstate (ws s))
  ++ "|ps=" ++ join "," (map (fun p => if palive p then "alive" else "exited") (ps s))
  ++ "|q=" ++ join "," (map (fun q => sn (qunf q) ++ ":" ++ join "." (map show_item (qitems q))) (queues s)).

(* every line: enabled|picked|label|slots in use by executing calls *)
Fixpoint xreplay (c : xcfg) (picks : list tid) (x : xstate) : list string :=
  match picks with
  | [] => [show_xfinal c x]
  | t :: rest =>
      let en := join "," (map show_tid (xenabled c x)) in
      match xstep c x t with
      | Some (x', l) => (en ++ "|" ++ show_tid t ++ "|" ++ show_label l ++ "|" ++ sn (exec_slots c x')) :: xreplay c rest x'
      | None => ["STUCK|" ++ en ++ "|" ++ show_tid t; show_xfinal c x]
      end
  end.

Definition opt_nat (n : nat) : option nat := match n with O => None | S k => Some k end.

(* mc / mw are encoded as 0 = None, S k = Some k *)
Definition xreplay_case (rs : list nat) (slots : list nat) (mc mw : nat) (ncalls : nat) (prog : list op)
           (picks : list tid) : string :=
  let c := mkXC (fun i => existsb (Nat.eqb i) rs) (fun i => nth (i - 1) slots 1) (opt_nat mc) (opt_nat mw) in
  join ";" (xreplay c picks (xinit ncalls prog)).

From EL Require Import Model.LiveSpec.

Fixpoint xcheck (c : xcfg) (picks : list tid) (x : xstate) (n : nat) : string :=
  if negb (scan_not_alone_b c x) then "step " ++ sn n ++ ": scan alone"
  else match picks with
       | [] => if rest_ok_b c x then "ok" else "rest state not final"
       | t :: rest => match xstep c x t with
                      | Some (x', _) => xcheck c rest x' (S n)
                      | None => "stuck"
                      end
       end.

Definition xcheck_case (rs : list nat) (slots : list nat) (mc mw : nat) (ncalls : nat) (prog : list op)
           (picks : list tid) : string :=
  let c := mkXC (fun i => existsb (Nat.eqb i) rs) (fun i => nth (i - 1) slots 1) (opt_nat mc) (opt_nat mw) in
  xcheck c picks (xinit ncalls prog) 0.
