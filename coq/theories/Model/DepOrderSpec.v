(* Order of execution behind the dependency resolver with ONE block-allocation worker
   (Model/DepExec.v, dinner = IBlock 1), in executable form for testing on replayed traces before
   being proved (Proofs/DepOrder.v).  A history is the list of (state before, thread, label),
   newest first. *)
From Coq Require Import List Bool Arith.
From EL Require Import Model.Exec Model.ExecInv Model.StepExec Model.DepExec.
Import ListNotations.

Definition hist := list (dstate * tid * label).

(* calls whose function body was executed, oldest first *)
Definition hbodies (h : hist) : list nat :=
  flat_map (fun e => match snd e with LBody i => [i] | _ => [] end) (rev h).

(* calls the resolver put on the inner queue (queue 1), oldest first *)
Definition hforwards (h : hist) : list nat :=
  flat_map (fun e => match e with (_, TR, LPut 1 (Task i)) => [i] | _ => [] end) (rev h).

(* ... those forwarded directly after being taken from the outer queue (all inputs had finished), not
   from the wait list *)
Definition hdirect (h : hist) : list nat :=
  flat_map (fun e => match e with
                     | (d, TR, LPut 1 (Task i)) => match rp d with RFwd _ KTd => [i] | _ => [] end
                     | _ => []
                     end) (rev h).

Fixpoint subseqb (a l : list nat) : bool :=
  match a, l with
  | [], _ => true
  | _ :: _, [] => false
  | x :: a', y :: l' => if Nat.eqb x y then subseqb a' l' else subseqb a l'
  end.

(* (1) the single inner worker executes calls in the order the resolver forwarded them;
   (2) calls forwarded directly are forwarded in submission order *)
Definition order_ok (d : dstate) (h : hist) : bool :=
  subseqb (hbodies h) (hforwards h) && subseqb (hdirect h) (subm (dbase d)).
