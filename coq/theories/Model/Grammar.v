(* Specification side of C16: the option syntax of srun(1) / mpiexec(1) restricted to the
   options executorlib is documented to use, written as decoders from an argv to the
   resource request it expresses.  Hand-written, part of the trusted base. *)
From Coq Require Import ZArith String Ascii List Bool.
From EL Require Import Base.Dec.
Import ListNotations.
Local Open Scope string_scope.

Record req := mkReq {
  r_cores : Z; r_cwd : option string; r_tpc : Z; r_gpc : Z; r_over : bool }.

Definition req_eqb (a b : req) : bool :=
  Z.eqb (r_cores a) (r_cores b)
  && match r_cwd a, r_cwd b with
     | None, None => true | Some x, Some y => String.eqb x y | _, _ => false end
  && Z.eqb (r_tpc a) (r_tpc b) && Z.eqb (r_gpc a) (r_gpc b) && Bool.eqb (r_over a) (r_over b).

Definition starts_dash (s : string) : bool :=
  match s with String "-"%char _ => true | _ => false end.

(* "--name=VALUE" -> Some VALUE *)
Fixpoint strip_prefix (p s : string) : option string :=
  match p with
  | EmptyString => Some s
  | String a p' => match s with
                   | String b s' => if Ascii.eqb a b then strip_prefix p' s' else None
                   | EmptyString => None
                   end
  end.

(* a non-negative decimal numeral, digits only, non empty *)
Definition parse_count (s : string) : option Z :=
  match s with
  | EmptyString => None
  | _ => if all_digits s then undec s else None
  end.

(* srun options ... first non-option token starts the command.  [fuel] is structural on the
   token list, two tokens may be consumed per step. *)
Fixpoint srun_opts (l : list string) (r : req) : option (req * list string) :=
  match l with
  | [] => None                                   (* no command *)
  | tok :: t =>
      if negb (starts_dash tok) then Some (r, l)
      else if String.eqb tok "--oversubscribe" || String.eqb tok "-s"
           then srun_opts t (mkReq (r_cores r) (r_cwd r) (r_tpc r) (r_gpc r) true)
      else match strip_prefix "--cpus-per-task=" tok with
           | Some v => match parse_count v with
                       | Some n => srun_opts t (mkReq (r_cores r) (r_cwd r) n (r_gpc r) (r_over r))
                       | None => None
                       end
           | None =>
      match strip_prefix "--gpus-per-task=" tok with
           | Some v => match parse_count v with
                       | Some n => srun_opts t (mkReq (r_cores r) (r_cwd r) (r_tpc r) n (r_over r))
                       | None => None
                       end
           | None =>
      match strip_prefix "--ntasks=" tok with
           | Some v => match parse_count v with
                       | Some n => srun_opts t (mkReq n (r_cwd r) (r_tpc r) (r_gpc r) (r_over r))
                       | None => None
                       end
           | None =>
      match strip_prefix "--chdir=" tok with
           | Some v => srun_opts t (mkReq (r_cores r) (Some v) (r_tpc r) (r_gpc r) (r_over r))
           | None =>
      match t with
      | v :: t' =>
          if String.eqb tok "-n" then
            match parse_count v with
            | Some n => srun_opts t' (mkReq n (r_cwd r) (r_tpc r) (r_gpc r) (r_over r))
            | None => None
            end
          else if String.eqb tok "-D" then
            srun_opts t' (mkReq (r_cores r) (Some v) (r_tpc r) (r_gpc r) (r_over r))
          else if String.eqb tok "-c" then
            match parse_count v with
            | Some n => srun_opts t' (mkReq (r_cores r) (r_cwd r) n (r_gpc r) (r_over r))
            | None => None
            end
          else None
      | [] => None
      end end end end end
  end.

(* srun's defaults: one task, cwd inherited, one cpu per task, no gpus *)
Definition srun_default : req := mkReq 1 None 1 0 false.

Definition decode_srun (argv : list string) : option (req * list string) :=
  match argv with
  | tok :: t => if String.eqb tok "srun" then srun_opts t srun_default else None
  | [] => None
  end.

(* what a request means to srun: absent options = defaults *)
Definition norm_req (r : req) : req :=
  mkReq (r_cores r) (r_cwd r)
        (if Z.gtb (r_tpc r) 1 then r_tpc r else 1)
        (if Z.gtb (r_gpc r) 0 then r_gpc r else 0)
        (r_over r).

(* mpiexec -n N [--oversubscribe] cmd ...; no prefix at all = one local process *)
Definition decode_mpiexec (argv : list string) : option (Z * bool * list string) :=
  match argv with
  | [] => None
  | tok :: t =>
      if String.eqb tok "mpiexec" then
        match t with
        | f :: v :: t2 =>
            if String.eqb f "-n" then
              match parse_count v with
              | Some n =>
                  match t2 with
                  | tok2 :: t3 =>
                      if String.eqb tok2 "--oversubscribe" then Some (n, true, t3)
                      else if starts_dash tok2 then None else Some (n, false, t2)
                  | [] => None
                  end
              | None => None
              end
            else None
        | _ => None
        end
      else if starts_dash tok then None else Some (1%Z, false, argv)
  end.
