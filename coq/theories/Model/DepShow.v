(* Rendering of resolver-model traces for the lockstep check. *)
From Coq Require Import List Bool Arith String ZArith.
From EL Require Import Base.Dec Model.Exec Model.ExecShow Model.StepExec Model.StepShow Model.DepExec.
Import ListNotations.
Local Open Scope string_scope.

Definition show_dfinal (c : dcfg) (d : dstate) : string :=
  let s := dbase d in
  "F|en=" ++ join "," (map show_tid (denabled c d))
  ++ "|futs=" ++ join "," (map show_fstate (futs s))
  ++ "|outs=" ++ join "," (map show_outcome (outs s))
  ++ "|main=" ++ (match main s with MEnd => "end" | _ => "live" end)
  ++ "|res=" ++ (match rp d with RDone => "done" | RDead => "dead" | RNone => "none" | _ => "live" end)
  ++ "|disp=" ++ (match disp (xs d) with DDone => "done" | DDead => "dead" | DNone => "none" | _ => "live" end)
  ++ "|ws=" ++ join "," (map show_wstate (ws s))
  ++ "|ps=" ++ join "," (map (fun p => if palive p then "alive" else "exited") (ps s))
  ++ "|q=" ++ join "," (map (fun q => sn (qunf q) ++ ":" ++ join "." (map show_item (qitems q))) (queues s)).

Fixpoint dreplay (c : dcfg) (picks : list tid) (d : dstate) : list string :=
  match picks with
  | [] => [show_dfinal c d]
  | t :: rest =>
      let en := join "," (map show_tid (denabled c d)) in
      match dstep c d t with
      | Some (d', l) => (en ++ "|" ++ show_tid t ++ "|" ++ show_label l ++ "|" ++ sn (exec_slots (dx c) (xs d'))) :: dreplay c rest d'
      | None => ["STUCK|" ++ en ++ "|" ++ show_tid t; show_dfinal c d]
      end
  end.

(* inner: 0 = per-call executor, S n = block executor with n workers *)
Definition dreplay_case (inner : nat) (rs : list nat) (slots : list nat) (deps : list (list nat)) (mc mw : nat)
           (ncalls : nat) (prog : list op) (picks : list tid) : string :=
  let xc := mkXC (fun i => existsb (Nat.eqb i) rs) (fun i => nth (i - 1) slots 1) (opt_nat mc) (opt_nat mw) in
  let c := mkDC xc (match inner with O => IStep | S n => IBlock n end) (fun i => nth (i - 1) deps []) in
  join ";" (dreplay c picks (dinit ncalls prog)).

From EL Require Import Model.LiveSpec.

Fixpoint dcheck (c : dcfg) (picks : list tid) (d : dstate) (n : nat) : string :=
  if negb (wait_list_drained_b d) then "step " ++ sn n ++ ": wait list not drained"
  else if negb (scan_not_alone_b (dx c) (xs d)) && negb (existsb (fun t => negb (tid_eqb t TD)) (denabled c d))
       then "step " ++ sn n ++ ": scan alone"
  else match picks with
       | [] => if drest_ok_b c d then "ok" else "rest state not final"
       | t :: rest => match dstep c d t with
                      | Some (d', _) => dcheck c rest d' (S n)
                      | None => "stuck"
                      end
       end.

Definition dcheck_case (inner : nat) (rs : list nat) (slots : list nat) (deps : list (list nat)) (mc mw : nat)
           (ncalls : nat) (prog : list op) (picks : list tid) : string :=
  let xc := mkXC (fun i => existsb (Nat.eqb i) rs) (fun i => nth (i - 1) slots 1) (opt_nat mc) (opt_nat mw) in
  let c := mkDC xc (match inner with O => IStep | S n => IBlock n end) (fun i => nth (i - 1) deps []) in
  dcheck c picks (dinit ncalls prog) 0.
