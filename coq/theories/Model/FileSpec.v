(* Statements about the file-executor model (Model/FileExec.v) in executable form, tested on
   replayed implementation traces before being proved (Proofs/FileSafe.v). *)
From Coq Require Import List Bool Arith.
From EL Require Import Model.Exec Model.StepExec Model.FileExec.
Import ListNotations.

(* programs without cancellation (cancel() and shutdown(cancel_futures=True)) *)
Definition op_nocancel (o : op) : bool :=
  match o with OCancel _ => false | OShutdown _ true => false | _ => true end.
Definition nocancel (prog : list op) : bool := forallb op_nocancel prog.

(* memory_dict entries the loop thread currently holds: the dictionary itself and, during a scan,
   the entries already moved to the new dictionary or still to be looked at *)
Definition scan_entries (p : fpcT) : list (key * nat) :=
  match p with
  | GScan todo kept => todo ++ kept
  | GExistsOut k f todo kept | GOpenOut k f todo kept | GReadOut k f todo kept
  | GCloseOut _ k f todo kept | GSetRes k f todo kept => (k, f) :: todo ++ kept
  | _ => []
  end.
Definition all_entries (s : fstateX) : list (key * nat) := mem s ++ scan_entries (fpc s).

(* every entry registers a future under the key of its own call *)
Definition mem_key_ok (c : fcfg) (s : fstateX) : bool :=
  forallb (fun e => Nat.eqb (fst (fst e)) (fcanon c (snd e))) (all_entries s).

Definition alive_keys (s : fstateX) : list key :=
  flat_map (fun p => if qalive p then [qkey p] else []) (fps s).
Fixpoint key_nodup (l : list key) : bool :=
  match l with
  | [] => true
  | k :: t => negb (existsb (key_eqb k) t) && key_nodup t
  end.

(* at most one running process per key; a running process's key is registered with a future
   that is not done; its result file does not exist yet *)
Definition procs_ok (s : fstateX) : bool :=
  key_nodup (alive_keys s)
  && forallb (fun k => existsb (fun e => key_eqb k (fst e) && negb (fdone (getf (fbase s) (snd e)))) (mem s)
                       && negb (fs_has (fsy s) (k, EOut))) (alive_keys s).

(* the key the loop thread is preparing a process for *)
Definition preparing (p : fpcT) : option key :=
  match p with
  | GExistsIn _ k _ | GRemove _ k _ | GOpenIn _ k _ | GDs _ k _ _ | GCloseIn _ _ k _
  | GCheck _ k _ | GPoll _ k _ _ _ | GSpawn _ k _ => Some k
  | _ => None
  end.
Definition prep_ok (s : fstateX) : bool :=
  match preparing (fpc s) with
  | Some k => negb (existsb (key_eqb k) (alive_keys s)) && negb (fs_has (fsy s) (k, EOut))
              && negb (existsb (fun e => key_eqb k (fst e)) (mem s))
  | None => true
  end.

Definition loop_alive (s : fstateX) : bool := match fpc s with GDead => false | _ => true end.

(* completed entries of [fs] are still there, unchanged, in [fs'] *)
Definition outs_kept (fs fs' : fsys) : bool :=
  forallb (fun e => match snd (fst e) with
                    | EOut => if has_ds DOut (snd e)
                              then match fs_get fs' (fst e) with
                                   | Some l => forallb (fun d => has_ds d l) (snd e) && Nat.eqb (length l) (length (snd e))
                                   | None => false
                                   end
                              else true
                    | _ => true
                    end) fs.

(* a process about to run its function: every input's result file is complete *)
Definition body_inputs_ok (s : fstateX) : bool :=
  forallb (fun p => match qpc p with
                    | QBody => forallb (fun w => match fs_get (fsy s) (w, EOut) with Some l => has_ds DOut l | None => false end) (qwaits p)
                    | _ => true
                    end) (fps s).
