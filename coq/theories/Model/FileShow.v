(* Rendering of file-executor model traces in the alphabet of harness/sim.py. *)
From Coq Require Import List Bool Arith String ZArith.
From EL Require Import Base.Dec Model.Exec Model.ExecShow Model.StepExec Model.FileExec.
Import ListNotations.
Local Open Scope string_scope.

Definition show_ftid (t : tid) : string := match t with TD => "F" | _ => show_tid t end.
Definition show_ext (e : ext) : string := match e with EIn => ".h5in" | ERdy => ".h5ready" | EOut => ".h5out" end.
Definition show_path (p : path) : string := "k" ++ sn (fst (fst p)) ++ show_ext (snd p).
Definition show_ds (d : ds) : string :=
  match d with DFn => "function" | DArgs => "input_args" | DKw => "input_kwargs" | DOut => "output" end.

Definition show_flabel (l : flabel) : string :=
  match l with
  | FL (LTStartT _) => "tstart F"
  | FL (LTJoinT _) => "tjoin F"
  | FL l' => show_label l'
  | LListdir => "listdir"
  | LExists p => "exists " ++ show_path p
  | LRemove p => "remove " ++ show_path p
  | LH5Open a p => "h5 " ++ (if a then "open-a " else "open-r ") ++ show_path p
  | LH5Ds p d => "h5 ds " ++ show_path p ++ " " ++ show_ds d
  | LH5Read p d => "h5 read " ++ show_path p ++ " " ++ show_ds d
  | LH5Close p => "h5 close " ++ show_path p
  | LRename a b => "rename " ++ show_path a ++ " " ++ show_path b
  end.

(* the directory: every file with its datasets, as "<variant bits>k<call><ext>=ds.ds" *)
Definition show_file (e : path * list ds) : string :=
  show_path (fst e) ++ "/" ++ join "" (map (fun o => match o with Some _ => "1" | None => "0" end) (snd (fst (fst e)))) ++ "=" ++ join "." (map show_ds (snd e)).

Definition show_ffinal (c : fcfg) (s : fstateX) : string :=
  let b := fbase s in
  "F|en=" ++ join "," (map show_ftid (fenabled c s))
  ++ "|futs=" ++ join "," (map show_fstate (futs b))
  ++ "|outs=" ++ join "," (map show_outcome (outs b))
  ++ "|main=" ++ (match main b with MEnd => "end" | _ => "live" end)
  ++ "|loop=" ++ (match fpc s with GDone => "done" | GDead => "dead" | GNone => "none" | _ => "live" end)
  ++ "|ps=" ++ join "," (map (fun p => if qalive p then "alive" else "exited") (fps s))
  ++ "|q=" ++ join "," (map (fun q => sn (qunf q) ++ ":" ++ join "." (map show_item (qitems q))) (queues b))
  ++ "|nfiles=" ++ sn (List.length (fsy s)).

Fixpoint freplay (c : fcfg) (picks : list tid) (s : fstateX) : list string :=
  match picks with
  | [] => [show_ffinal c s]
  | t :: rest =>
      let en := join "," (map show_ftid (fenabled c s)) in
      match fstep c s t with
      | Some (s', l) => (en ++ "|" ++ show_ftid t ++ "|" ++ show_flabel l) :: freplay c rest s'
      | None => ["STUCK|" ++ en ++ "|" ++ show_ftid t; show_ffinal c s]
      end
  end.

(* deps: per call the list of Future arguments; canon: per call its canonical call *)
Definition freplay_case (deps : list (list nat)) (canon : list nat) (ncalls : nat) (prog : list op)
           (picks : list tid) : string :=
  let c := mkFC (fun i => nth (i - 1) deps []) (fun i => nth (i - 1) canon i) in
  join ";" (freplay c picks (finit ncalls prog [])).

(* ---- several sessions over one directory; a process may be killed from outside ---- *)
Inductive fpick := PK (t : tid) | PCrash (n : nat).

Fixpoint freplay2 (c : fcfg) (picks : list fpick) (s : fstateX) : list string * fstateX :=
  match picks with
  | [] => ([], s)
  | PCrash n :: rest =>
      let '(l, s') := freplay2 c rest (kill_proc s n) in
      (("|P" ++ sn n ++ "|crash P" ++ sn n) :: l, s')
  | PK t :: rest =>
      let en := join "," (map show_ftid (fenabled c s)) in
      match fstep c s t with
      | Some (s', l) => let '(ls, sf) := freplay2 c rest s' in ((en ++ "|" ++ show_ftid t ++ "|" ++ show_flabel l) :: ls, sf)
      | None => (["STUCK|" ++ en ++ "|" ++ show_ftid t], s)
      end
  end.

Fixpoint fsessions (c : fcfg) (ncalls : nat) (sess : list (list op * list fpick)) (fs : fsys) : list string :=
  match sess with
  | [] => []
  | (prog, picks) :: rest =>
      let '(ls, sf) := freplay2 c picks (finit ncalls prog fs) in
      match rest with
      | [] => ls ++ [show_ffinal c sf]
      | _ => ls ++ ["S|nfiles=" ++ sn (List.length (fsy sf))] ++ fsessions c ncalls rest (fsy sf)
      end
  end.

Definition fsessions_case (deps : list (list nat)) (canon : list nat) (ncalls : nat)
           (sess : list (list op * list fpick)) : string :=
  let c := mkFC (fun i => nth (i - 1) deps []) (fun i => nth (i - 1) canon i) in
  join ";" (fsessions c ncalls sess []).

(* ---- statements of Model/FileSpec.v evaluated along a replayed run ---- *)
From EL Require Import Model.FileSpec.

Definition fcheck_state (c : fcfg) (nc : bool) (s : fstateX) : string :=
  (if mem_key_ok c s then "" else "memkey ") ++
  (if nc then (if procs_ok s then "" else "procs ") ++ (if prep_ok s then "" else "prep ") ++
              (if loop_alive s then "" else "loopdead ") ++ (if body_inputs_ok s then "" else "body ")
   else "").

Fixpoint fcheck (c : fcfg) (nc : bool) (picks : list fpick) (s : fstateX) (n : nat) : string * fstateX :=
  match fcheck_state c nc s with
  | EmptyString =>
      match picks with
      | [] => ("ok", s)
      | PCrash k :: rest => fcheck c nc rest (kill_proc s k) (S n)
      | PK t :: rest =>
          match fstep c s t with
          | Some (s', _) =>
              if nc && negb (outs_kept (fsy s) (fsy s')) then ("step " ++ sn n ++ ": completed entry altered", s)
              else fcheck c nc rest s' (S n)
          | None => ("stuck", s)
          end
      end
  | bad => ("step " ++ sn n ++ ": " ++ bad, s)
  end.

Fixpoint fcheck_sessions (c : fcfg) (ncalls : nat) (sess : list (list op * list fpick)) (fs : fsys) : string :=
  match sess with
  | [] => "ok"
  | (prog, picks) :: rest =>
      let '(r, sf) := fcheck c (nocancel prog) picks (finit ncalls prog fs) 0 in
      match r with
      | "ok" => fcheck_sessions c ncalls rest (fsy sf)
      | _ => r
      end
  end.

Definition fcheck_case (deps : list (list nat)) (canon : list nat) (ncalls : nat)
           (sess : list (list op * list fpick)) : string :=
  let c := mkFC (fun i => nth (i - 1) deps []) (fun i => nth (i - 1) canon i) in
  fcheck_sessions c ncalls sess [].
