(* Point-level model of the interactive executors (DESIGN.md Appendix C): the client thread
   interpreting a program of submit / cancel / result / shutdown / drop / exit operations, the
   block-allocation worker threads (execute_parallel_tasks with _execute_task), the worker
   processes (interactive_serial.main) and the queues, futures and PAIR channels between
   them.  One model step = one instrumented point of harness/sim.py plus the thread-local code
   up to the next point.  Hand-written; tied to the code by the lockstep check, which runs the
   real executorlib under the deterministic simulator on the same programs and schedules and
   compares enabled sets, labels and final observations step by step. *)
From Coq Require Import List Bool Arith Lia.
Import ListNotations.

(* ---------- data ---------- *)
Inductive item := Task (i : nat) | Shut (w : bool).
Inductive fstate := FPending | FRunning | FCancelled | FCancelledN | FRes (v : nat) | FExc.
Inductive msg := MCall (i : nat) | MShut | MRes (v : nat) | MErr | MAck.

Definition fdone (f : fstate) : bool :=
  match f with FPending | FRunning => false | _ => true end.

(* CPython Future.cancel / set_running_or_notify_cancel *)
Definition fcancel (f : fstate) : fstate * bool :=
  match f with
  | FPending => (FCancelled, true)
  | FCancelled => (FCancelled, true)
  | FCancelledN => (FCancelledN, true)
  | _ => (f, false)
  end.

Record queue := mkQ { qitems : list item; qunf : nat }.

(* client program *)
Inductive op :=
| OSubmit (i : nat)
| OCancel (i : nat)
| OResult (i : nat)
| OShutdown (w c : bool)
| ODrop
| OExit.

Inductive outcome :=
| XOk | XRaise                (* submit / shutdown / exit / drop *)
| XBool (b : bool)            (* cancel *)
| XRes (v : nat) | XExc | XCancelled   (* result *)
| XSkip.

(* where the client is inside the current operation *)
Inductive mpc :=
| MBegin
| MStart (k : nat)                 (* tstart of worker k+1 of n *)
| MOp                              (* at the first point of the head operation *)
| MDrain (w : bool)                (* cancel_items_in_queue: at get_nowait *)
| MDrainCancel (w : bool) (j : nat)
| MDrainTd (w : bool)
| MPutShut (w : bool) (k : nat)    (* k messages still to put *)
| MJoin (k : nat)                  (* tjoin of worker k+1 *)
| MQJoin
| MEnd.

(* worker thread *)
Inductive wpc :=
| WBegin | WSpawn | WGet
| WSrnc (i : nat) | WCancTd
| WSend (i : nat) | WRecv (i : nat) | WSetRes (i v : nat) | WTd
| WEPoll (i : nat) | WESend (i : nat) | WERecv (i : nat) | WEComm (i : nat) | WETerm (i : nat) | WEWait (i : nat)
| WETd (i : nat) | WESetExc (i : nat)
| WSPoll (w : bool) | WSSend (w : bool) | WSRecv (w : bool) | WSComm (w : bool) | WSTerm (w : bool) | WSWait
| WSTd | WSQJoin
| WDone | WDead.                   (* finished normally / with a stored exception *)

Record wthread := mkW { wq : nat; wproc : nat; wp : wpc }.   (* wproc: 0 = none yet, k = P_k *)

Inductive ppc := PBegin | PRecv | PBody (i : nat) | PSend (i : nat) | PAck | PExit.
Record proc := mkP { pp : ppc; inbox : list msg; outbox : list msg }.

Record state := mkS {
  queues : list queue;
  futs : list fstate;           (* future of call i at index i-1 *)
  subm : list nat;              (* call ids whose submit succeeded *)
  main : mpc;
  ops : list op;
  closed : bool;                (* executor fields cleared *)
  ws : list wthread;
  ps : list proc;
  outs : list outcome
}.

Record cfg := mkC { nworkers : nat; raises : nat -> bool }.

(* ---------- small list helpers ---------- *)
Fixpoint upd {A} (l : list A) (n : nat) (x : A) : list A :=
  match l, n with
  | [], _ => []
  | _ :: t, O => x :: t
  | a :: t, S n' => a :: upd t n' x
  end.

Definition getq (s : state) (q : nat) : queue := nth q (queues s) (mkQ [] 0).
Definition getf (s : state) (i : nat) : fstate := nth (i - 1) (futs s) FPending.
Definition setf (s : state) (i : nat) (f : fstate) : list fstate := upd (futs s) (i - 1) f.

Definition set_queues (s : state) (x : list queue) : state :=
  mkS x (futs s) (subm s) (main s) (ops s) (closed s) (ws s) (ps s) (outs s).
Definition set_futs (s : state) (x : list fstate) : state :=
  mkS (queues s) x (subm s) (main s) (ops s) (closed s) (ws s) (ps s) (outs s).
Definition set_main (s : state) (x : mpc) : state :=
  mkS (queues s) (futs s) (subm s) x (ops s) (closed s) (ws s) (ps s) (outs s).
Definition set_ws (s : state) (x : list wthread) : state :=
  mkS (queues s) (futs s) (subm s) (main s) (ops s) (closed s) x (ps s) (outs s).
Definition set_ps (s : state) (x : list proc) : state :=
  mkS (queues s) (futs s) (subm s) (main s) (ops s) (closed s) (ws s) x (outs s).

Definition qput (s : state) (q : nat) (it : item) : state :=
  let qu := getq s q in set_queues s (upd (queues s) q (mkQ (qitems qu ++ [it]) (S (qunf qu)))).
Definition qpop (s : state) (q : nat) : state :=
  let qu := getq s q in set_queues s (upd (queues s) q (mkQ (tl (qitems qu)) (qunf qu))).
Definition qtd (s : state) (q : nat) : state :=
  let qu := getq s q in set_queues s (upd (queues s) q (mkQ (qitems qu) (pred (qunf qu)))).

(* ---------- labels (the alphabet shared with harness/sim.py) ---------- *)
Inductive tid := TM | TR | TD | TW (j : nat) | TP (k : nat).     (* W1.., P1.. are 1-based; R, D: resolver, dispatcher (other models) *)

Inductive label :=
| LMBegin | LTStart (j : nat)
| LPut (q : nat) (it : item) | LGet (q : nat) (it : item) | LGetNw (q : nat) (it : option item)
| LTd (q : nat) | LQJoin (q : nat) | LTJoin (j : nat)
| LCancel (i : nat) | LSrnc (i : nat) | LSetRes (i v : nat) | LSetExc (i : nat) | LResult (i : nat)
| LTBegin | LSpawn (k : nat)
| LZSendW (k : nat) (m : msg) | LZRecvW (k : nat) (m : msg)
| LPPoll (k : nat) | LPComm (k : nat) | LPTerm (k : nat) | LPWait (k : nat)
| LPBegin | LZRecvP (k : nat) (m : msg) | LBody (i : nat) | LZSendP (k : nat) (m : msg)
(* used by the dispatcher / resolver models *)
| LTStartT (t : tid) | LTJoinT (t : tid) | LDoneQ (i : nat) (b : bool) | LSleep.

(* ---------- the client ---------- *)
Definition mem_nat (i : nat) (l : list nat) : bool := existsb (Nat.eqb i) l.

Definition result_outcome (f : fstate) : outcome :=
  match f with
  | FRes v => XRes v
  | FExc => XExc
  | FCancelled | FCancelledN => XCancelled
  | _ => XSkip
  end.

(* Skip over operations that have no point at all (on a closed executor submit raises,
   shutdown/exit return at once; cancel/result of a call whose submit failed is skipped by
   the harness).  ODrop is the implicit release of the executor at the end of the program:
   __del__ -> shutdown(wait=False); it does not happen when a shutdown re-raised a worker's
   exception (the traceback stored in the thread object keeps the executor alive). *)
Fixpoint settle (cl leaked : bool) (sub : list nat) (l : list op) (acc : list outcome)
  : list op * list outcome * mpc :=
  match l with
  | [] => ([], acc, MEnd)
  | o :: t =>
      match o with
      | OSubmit i => if cl then settle cl leaked sub t (acc ++ [XRaise]) else (l, acc, MOp)
      | OCancel i | OResult i => if mem_nat i sub then (l, acc, MOp) else settle cl leaked sub t (acc ++ [XSkip])
      | OShutdown _ _ | OExit => if cl then settle cl leaked sub t (acc ++ [XOk]) else (l, acc, MOp)
      | ODrop => if cl || leaked then settle cl leaked sub t acc else (l, acc, MOp)
      end
  end.

Definition leaked (s : state) : bool := existsb (fun x => match x with XRaise => true | _ => false end) (outs s) && negb (closed s).

(* continue with the operations [l]; [cl]: executor fields cleared *)
Definition m_goto (s : state) (l : list op) (x : list outcome) (cl : bool) : state :=
  let acc := outs s ++ x in
  let lk := existsb (fun y => match y with XRaise => true | _ => false end) acc && negb cl in
  let '(l', acc', pc) := settle cl lk (subm s) l acc in
  mkS (queues s) (futs s) (subm s) pc l' cl (ws s) (ps s) acc'.

(* the head operation is over with outcome [x] *)
Definition m_done (s : state) (x : list outcome) (cl : bool) : state := m_goto s (tl (ops s)) x cl.

Definition wdone (w : wthread) : bool := match wp w with WDone | WDead => true | _ => false end.
Definition wdead (w : wthread) : bool := match wp w with WDead => true | _ => false end.

Definition cur_wait (s : state) : bool :=
  match ops s with OShutdown w _ :: _ => w | OExit :: _ => true | _ => false end.
Definition cur_silent (s : state) : bool :=     (* ODrop records no outcome *)
  match ops s with ODrop :: _ => true | _ => false end.

(* resolve program counters that are not at a point *)
Definition m_norm (c : cfg) (s : state) : state :=
  let fin := m_done s (if cur_silent s then [] else [XOk]) true in
  match main s with
  | MPutShut w O =>
      if cur_wait s then (if Nat.eqb (nworkers c) 0 then set_main s MQJoin else set_main s (MJoin 0)) else fin
  | MJoin k => if Nat.eqb k (nworkers c) then set_main s MQJoin else s
  | _ => s
  end.

Definition drain_step (s : state) (w : bool) : option (state * label) :=
  match qitems (getq s 0) with
  | [] => None
  | it :: _ =>
      match it with
      | Task j => Some (set_main (qpop s 0) (MDrainCancel w j), LGetNw 0 (Some it))
      | Shut _ => Some (set_main (qpop s 0) (MDrain w), LGetNw 0 (Some it))
      end
  end.

Definition m_step (c : cfg) (s : state) : option (state * label) :=
  match main s with
  | MBegin =>
      if Nat.eqb (nworkers c) 0
      then Some (m_goto s (ops s ++ [ODrop]) [] false, LMBegin)
      else Some (set_main s (MStart 0), LMBegin)
  | MStart k =>
      let s1 := set_ws s (ws s ++ [mkW 0 0 WBegin]) in
      if Nat.eqb (S k) (nworkers c)
      then Some (m_goto s1 (ops s1 ++ [ODrop]) [] false, LTStart (S k))
      else Some (set_main s1 (MStart (S k)), LTStart (S k))
  | MOp =>
      match ops s with
      | OSubmit i :: _ =>
          let s1 := qput s 0 (Task i) in
          let s2 := mkS (queues s1) (futs s1) (subm s1 ++ [i]) (main s1) (ops s1) (closed s1) (ws s1) (ps s1) (outs s1) in
          Some (m_done s2 [XOk] (closed s), LPut 0 (Task i))
      | OCancel i :: _ =>
          let '(f, b) := fcancel (getf s i) in
          Some (m_done (set_futs s (setf s i f)) [XBool b] (closed s), LCancel i)
      | OResult i :: _ =>
          if fdone (getf s i) then Some (m_done s [result_outcome (getf s i)] (closed s), LResult i) else None
      | OShutdown w true :: _ =>
          match drain_step s w with
          | Some r => Some r
          | None => Some (m_norm c (set_main s (MPutShut w (nworkers c))), LGetNw 0 None)
          end
      | OShutdown w false :: _ =>
          match nworkers c with
          | O => if Nat.eqb (qunf (getq s 0)) 0 then (if w then Some (m_done s [XOk] true, LQJoin 0) else None) else None
          | S k => Some (m_norm c (set_main (qput s 0 (Shut w)) (MPutShut w k)), LPut 0 (Shut w))
          end
      | OExit :: _ =>
          match nworkers c with
          | O => if Nat.eqb (qunf (getq s 0)) 0 then Some (m_done s [XOk] true, LQJoin 0) else None
          | S k => Some (m_norm c (set_main (qput s 0 (Shut true)) (MPutShut true k)), LPut 0 (Shut true))
          end
      | ODrop :: _ =>
          match nworkers c with
          | O => None
          | S k => Some (m_norm c (set_main (qput s 0 (Shut false)) (MPutShut false k)), LPut 0 (Shut false))
          end
      | [] => None
      end
  | MDrain w =>
      match drain_step s w with
      | Some r => Some r
      | None => Some (m_norm c (set_main s (MPutShut w (nworkers c))), LGetNw 0 None)
      end
  | MDrainCancel w j =>
      let '(f, _) := fcancel (getf s j) in
      Some (set_main (set_futs s (setf s j f)) (MDrainTd w), LCancel j)
  | MDrainTd w => Some (set_main (qtd s 0) (MDrain w), LTd 0)
  | MPutShut w k =>
      match k with
      | O => None
      | S k' => Some (m_norm c (set_main (qput s 0 (Shut w)) (MPutShut w k')), LPut 0 (Shut w))
      end
  | MJoin k =>
      match nth_error (ws s) k with
      | Some wt =>
          if wdone wt then
            if wdead wt then Some (m_done s [XRaise] false, LTJoin (S k))   (* re-raised: fields stay *)
            else Some (m_norm c (set_main s (MJoin (S k))), LTJoin (S k))
          else None
      | None => None
      end
  | MQJoin =>
      if Nat.eqb (qunf (getq s 0)) 0
      then Some (m_done s (if cur_silent s then [] else [XOk]) true, LQJoin 0) else None
  | MEnd => None
  end.

(* ---------- worker threads ---------- *)
Definition getp (s : state) (k : nat) : proc := nth (k - 1) (ps s) (mkP PExit [] []).
Definition setp (s : state) (k : nat) (p : proc) : state := set_ps s (upd (ps s) (k - 1) p).
Definition palive (p : proc) : bool := match pp p with PExit => false | _ => true end.

Definition send_to_p (s : state) (k : nat) (m : msg) : state :=
  let p := getp s k in setp s k (mkP (pp p) (inbox p ++ [m]) (outbox p)).
Definition pop_from_p (s : state) (k : nat) : state :=
  let p := getp s k in setp s k (mkP (pp p) (inbox p) (tl (outbox p))).

Definition set_w (s : state) (j : nat) (w : wthread) : state := set_ws s (upd (ws s) j w).
Definition wpc_to (s : state) (j : nat) (w : wthread) (pc : wpc) : state :=
  set_w s j (mkW (wq w) (wproc w) pc).

Definition w_step (c : cfg) (s : state) (j : nat) : option (state * label) :=
  match nth_error (ws s) j with
  | None => None
  | Some w =>
      let q := wq w in
      let k := wproc w in
      let to := wpc_to s j w in
      match wp w with
      | WBegin => Some (to WSpawn, LTBegin)
      | WSpawn =>
          let k' := S (length (ps s)) in
          let s1 := set_ps s (ps s ++ [mkP PBegin [] []]) in
          Some (set_w s1 j (mkW q k' WGet), LSpawn k')
      | WGet =>
          match qitems (getq s q) with
          | [] => None
          | it :: _ =>
              let s1 := qpop s q in
              match it with
              | Task i => Some (wpc_to s1 j w (WSrnc i), LGet q it)
              | Shut b => Some (wpc_to s1 j w (WSPoll b), LGet q it)
              end
          end
      | WSrnc i =>
          match getf s i with
          | FPending => Some (wpc_to (set_futs s (setf s i FRunning)) j w (WSend i), LSrnc i)
          | FCancelled => Some (wpc_to (set_futs s (setf s i FCancelledN)) j w WCancTd, LSrnc i)
          | _ => Some (to WDead, LSrnc i)          (* RuntimeError: unexpected state *)
          end
      | WCancTd => Some (wpc_to (qtd s q) j w WGet, LTd q)
      | WSend i => Some (wpc_to (send_to_p s k (MCall i)) j w (WRecv i), LZSendW k (MCall i))
      | WRecv i =>
          match outbox (getp s k) with
          | [] => None
          | m :: _ =>
              let s1 := pop_from_p s k in
              match m with
              | MRes v => Some (wpc_to s1 j w (WSetRes i v), LZRecvW k m)
              | MErr => Some (wpc_to s1 j w (WEPoll i), LZRecvW k m)
              | _ => Some (wpc_to s1 j w WDead, LZRecvW k m)
              end
          end
      | WSetRes i v =>
          match getf s i with
          | FRunning | FPending => Some (wpc_to (set_futs s (setf s i (FRes v))) j w WTd, LSetRes i v)
          | _ => Some (to (WEPoll i), LSetRes i v)   (* InvalidStateError enters the except branch *)
          end
      | WTd => Some (wpc_to (qtd s q) j w WGet, LTd q)
      (* a failed call: interface.shutdown(wait=True), task_done, set_exception, thread dies *)
      | WEPoll i => if palive (getp s k) then Some (to (WESend i), LPPoll k) else Some (to (WETd i), LPPoll k)
      | WESend i => Some (wpc_to (send_to_p s k MShut) j w (WERecv i), LZSendW k MShut)
      | WERecv i =>
          match outbox (getp s k) with
          | [] => None
          | m :: _ => Some (wpc_to (pop_from_p s k) j w (WEComm i), LZRecvW k m)
          end
      | WEComm i => if palive (getp s k) then None else Some (to (WETerm i), LPComm k)
      | WETerm i => Some (to (WEWait i), LPTerm k)
      | WEWait i => if palive (getp s k) then None else Some (to (WETd i), LPWait k)
      | WETd i => Some (wpc_to (qtd s q) j w (WESetExc i), LTd q)
      | WESetExc i =>
          match getf s i with
          | FRunning | FPending => Some (wpc_to (set_futs s (setf s i FExc)) j w WDead, LSetExc i)
          | _ => Some (to WDead, LSetExc i)
          end
      (* a shutdown message *)
      | WSPoll b => if palive (getp s k) then Some (to (WSSend b), LPPoll k) else Some (to WSTd, LPPoll k)
      | WSSend b => Some (wpc_to (send_to_p s k MShut) j w (WSRecv b), LZSendW k MShut)
      | WSRecv b =>
          match outbox (getp s k) with
          | [] => None
          | m :: _ => Some (wpc_to (pop_from_p s k) j w (WSComm b), LZRecvW k m)
          end
      | WSComm b => if palive (getp s k) then None else Some (to (WSTerm b), LPComm k)
      | WSTerm b => Some (to (if b then WSWait else WSTd), LPTerm k)
      | WSWait => if palive (getp s k) then None else Some (to WSTd, LPWait k)
      | WSTd => Some (wpc_to (qtd s q) j w WSQJoin, LTd q)
      | WSQJoin => if Nat.eqb (qunf (getq s q)) 0 then Some (to WDone, LQJoin q) else None
      | WDone | WDead => None
      end
  end.

(* ---------- worker processes (interactive_serial.main) ---------- *)
Definition p_step (c : cfg) (s : state) (k : nat) : option (state * label) :=
  match nth_error (ps s) (k - 1) with
  | None => None
  | Some p =>
      if Nat.eqb k 0 then None else
      match pp p with
      | PBegin => Some (setp s k (mkP PRecv (inbox p) (outbox p)), LPBegin)
      | PRecv =>
          match inbox p with
          | [] => None
          | m :: t =>
              match m with
              | MCall i => Some (setp s k (mkP (PBody i) t (outbox p)), LZRecvP k m)
              | MShut => Some (setp s k (mkP PAck t (outbox p)), LZRecvP k m)
              | _ => Some (setp s k (mkP PRecv t (outbox p)), LZRecvP k m)
              end
          end
      | PBody i => Some (setp s k (mkP (PSend i) (inbox p) (outbox p)), LBody i)
      | PSend i =>
          let m := if raises c i then MErr else MRes i in
          Some (setp s k (mkP PRecv (inbox p) (outbox p ++ [m])), LZSendP k m)
      | PAck => Some (setp s k (mkP PExit (inbox p) (outbox p ++ [MAck])), LZSendP k MAck)
      | PExit => None
      end
  end.

(* ---------- the system ---------- *)
Definition step (c : cfg) (s : state) (t : tid) : option (state * label) :=
  match t with
  | TM => m_step c s
  | TW j => match j with O => None | S j' => w_step c s j' end
  | TP k => p_step c s k
  | TR | TD => None
  end.

Definition init (ncalls : nat) (prog : list op) : state :=
  mkS [mkQ [] 0] (repeat FPending ncalls) [] MBegin prog false [] [] [].

Definition tids (s : state) : list tid :=
  TM :: map (fun j => TW (S j)) (seq 0 (length (ws s))) ++ map (fun k => TP (S k)) (seq 0 (length (ps s))).

Definition is_some {A} (o : option A) : bool := match o with Some _ => true | None => false end.
Definition enabled (c : cfg) (s : state) : list tid := filter (fun t => is_some (step c s t)) (tids s).

(* run a list of scheduler choices: the n-th enabled thread (mod the number enabled) *)
Fixpoint run (c : cfg) (sched : list nat) (s : state) : state * list (tid * label) :=
  match sched with
  | [] => (s, [])
  | n :: rest =>
      match enabled c s with
      | [] => (s, [])
      | e :: es =>
          let t := nth (n mod length (e :: es)) (e :: es) e in
          match step c s t with
          | Some (s', l) => let '(sf, tr) := run c rest s' in (sf, (t, l) :: tr)
          | None => (s, [])
          end
      end
  end.
