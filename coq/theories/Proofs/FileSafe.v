(* Safety of the file-based executor model (Model/FileExec.v): the statements of
   Model/FileSpec.v proved for every reachable state, for every initial directory (leftover
   files of any kind), every program and schedule, with call processes killed at any moment
   (C13 values, C09 completed cache entries, C14 leftover files).

   Proved exactly as asked (no hypothesis on the program):
     no_rerun, mem_key_inv, setres_own_value.
   Proved with hypotheses that turned out to be necessary:
     file_inv, body_after_inputs, body_inputs_inv : nocancel prog, wf_prog n prog
     outs_never_altered                           : nocancel prog, wf_prog n prog, fs_wf fs0
   (the *_gen versions only need subm_wf prog: no call id submitted twice, ids >= 1).
   Counterexamples (vm_compute) showing that the statements fail without them:
     file_inv_needs_distinct_submits, file_inv_needs_positive_ids,
     outs_needs_fs_wf, outs_needs_distinct_submits.
   The inductive invariant is the record [FInv]; it is preserved by client steps
   (finv_client), loop-thread steps (finv_fstep), process steps (finv_qstep) and kills
   (finv_kill). *)
From Coq Require Import List Bool Arith Lia.
From EL Require Import Model.Exec Model.ExecInv Model.StepExec Model.FileExec Model.FileSpec.
Import ListNotations.

(* ------------------------------------------------------------------ *)
(* transitions and reachability                                        *)
(* ------------------------------------------------------------------ *)
Inductive ftrans (c : fcfg) : fstateX -> fstateX -> Prop :=
| ft_step : forall s t s' l, fstep c s t = Some (s', l) -> ftrans c s s'
| ft_kill : forall s n, ftrans c s (kill_proc s n).
Inductive freach (c : fcfg) : fstateX -> fstateX -> Prop :=
| fr_refl : forall s, freach c s s
| fr_step : forall s s' s'', freach c s s' -> ftrans c s' s'' -> freach c s s''.

(* ------------------------------------------------------------------ *)
(* equality tests                                                      *)
(* ------------------------------------------------------------------ *)
(* keys are trees (a FutureItem argument names the producer's key): equality test is exact *)
Fixpoint pat_eqb (x y : list (option ktree)) : bool :=
  match x, y with
  | [], [] => true
  | None :: x', None :: y' => pat_eqb x' y'
  | Some u :: x', Some v :: y' => ktree_eqb u v && pat_eqb x' y'
  | _, _ => false
  end.

Lemma ktree_eqb_unfold : forall c1 p1 c2 p2,
  ktree_eqb (KT c1 p1) (KT c2 p2) = Nat.eqb c1 c2 && pat_eqb p1 p2.
Proof.
  intros c1 p1 c2 p2. reflexivity.
Qed.

Fixpoint ksize (t : ktree) : nat :=
  match t with
  | KT _ pat => S ((fix go (l : list (option ktree)) : nat :=
                      match l with
                      | [] => 0
                      | None :: r => go r
                      | Some u :: r => ksize u + go r
                      end) pat)
  end.
Fixpoint psize (l : list (option ktree)) : nat :=
  match l with
  | [] => 0
  | None :: r => psize r
  | Some u :: r => ksize u + psize r
  end.
Lemma ksize_unfold : forall c p, ksize (KT c p) = S (psize p).
Proof. intros c p. reflexivity. Qed.

Lemma ktree_eqb_eq_n : forall n a, ksize a <= n -> forall b, ktree_eqb a b = true <-> a = b.
Proof.
  induction n as [|n IHn]; intros [c1 p1] Hs [c2 p2]; rewrite ksize_unfold in Hs; [lia|].
  rewrite ktree_eqb_unfold, andb_true_iff, Nat.eqb_eq.
  assert (Hp : forall p, psize p <= n -> forall q, pat_eqb p q = true <-> p = q).
  { clear c1 c2 p1 p2 Hs. induction p as [|o p IHp]; intros Hsz [|o2 q]; simpl.
    - split; reflexivity.
    - split; intros H; discriminate H.
    - destruct o; split; intros H; discriminate H.
    - destruct o as [u|], o2 as [v|]; simpl in Hsz.
      + rewrite andb_true_iff, (IHn u) by lia. rewrite IHp by lia.
        split; [intros [H1 H2]; now subst|intros H; inversion H; auto].
      + split; intros H; discriminate H.
      + split; intros H; discriminate H.
      + rewrite IHp by lia. split; [intros H; now subst|intros H; inversion H; auto]. }
  rewrite Hp by lia. split; [intros [H1 H2]; now subst|intros H; inversion H; auto].
Qed.

Lemma ktree_eqb_eq : forall a b, ktree_eqb a b = true <-> a = b.
Proof. intros a b. apply (ktree_eqb_eq_n (ksize a)). apply Nat.le_refl. Qed.

Lemma key_eqb_eq : forall a b : key, key_eqb a b = true <-> a = b.
Proof.
  intros [a1 a2] [b1 b2]. unfold key_eqb, key_tree. simpl fst. simpl snd. rewrite ktree_eqb_eq.
  split; [intros H; inversion H; reflexivity|intros H; inversion H; reflexivity].
Qed.

Lemma key_eqb_refl : forall a : key, key_eqb a a = true.
Proof. intros a. now apply key_eqb_eq. Qed.

Lemma key_eqb_neq : forall a b : key, key_eqb a b = false <-> a <> b.
Proof.
  intros a b. split.
  - intros H E. apply key_eqb_eq in E. rewrite E in H. discriminate.
  - intros H. destruct (key_eqb a b) eqn:E; [|reflexivity]. apply key_eqb_eq in E. contradiction.
Qed.

Lemma key_eq_dec : forall a b : key, {a = b} + {a <> b}.
Proof.
  intros a b. destruct (key_eqb a b) eqn:E; [left; now apply key_eqb_eq|right; now apply key_eqb_neq].
Qed.

Lemma ext_eqb_eq : forall a b, ext_eqb a b = true <-> a = b.
Proof. intros [] []; simpl; split; intros H; try reflexivity; try discriminate. Qed.

Lemma path_eqb_eq : forall a b : path, path_eqb a b = true <-> a = b.
Proof.
  intros [a1 a2] [b1 b2]. unfold path_eqb. simpl. rewrite andb_true_iff, key_eqb_eq, ext_eqb_eq.
  split; [intros [H1 H2]; now subst|intros H; inversion H; auto].
Qed.

Lemma path_eqb_refl : forall a : path, path_eqb a a = true.
Proof. intros a. now apply path_eqb_eq. Qed.

Lemma path_eqb_neq : forall a b : path, a <> b -> path_eqb a b = false.
Proof.
  intros a b H. destruct (path_eqb a b) eqn:E; [|reflexivity]. apply path_eqb_eq in E. contradiction.
Qed.

Lemma ds_eqb_eq : forall a b, ds_eqb a b = true <-> a = b.
Proof. intros [] []; simpl; split; intros H; try reflexivity; try discriminate. Qed.

Lemma has_ds_In : forall d l, has_ds d l = true <-> In d l.
Proof.
  intros d l. unfold has_ds. rewrite existsb_exists. split.
  - intros (x & Hx & E). apply ds_eqb_eq in E. now subst.
  - intros H. exists d. split; [exact H|now apply ds_eqb_eq].
Qed.

(* ------------------------------------------------------------------ *)
(* the directory                                                       *)
(* ------------------------------------------------------------------ *)
Lemma fs_get_app : forall a b q,
  fs_get (a ++ b) q = match fs_get a q with Some c => Some c | None => fs_get b q end.
Proof.
  induction a as [|[r c] a IH]; intros b q; simpl; [reflexivity|].
  destruct (path_eqb q r); [reflexivity|apply IH].
Qed.

Lemma fs_get_del_same : forall fs p, fs_get (fs_del fs p) p = None.
Proof.
  induction fs as [|[r c] fs IH]; intros p; simpl; [reflexivity|].
  destruct (path_eqb p r) eqn:E; [apply IH|]. simpl. rewrite E. apply IH.
Qed.

Lemma fs_get_del_other : forall fs p q, q <> p -> fs_get (fs_del fs p) q = fs_get fs q.
Proof.
  induction fs as [|[r c] fs IH]; intros p q H; simpl; [reflexivity|].
  destruct (path_eqb p r) eqn:E.
  - apply path_eqb_eq in E. subst r. rewrite (path_eqb_neq q p H). now apply IH.
  - simpl. destruct (path_eqb q r); [reflexivity|now apply IH].
Qed.

Lemma fs_get_set_same : forall fs p c, fs_get (fs_set fs p c) p = Some c.
Proof.
  intros fs p c. unfold fs_set. rewrite fs_get_app, fs_get_del_same. simpl. now rewrite path_eqb_refl.
Qed.

Lemma fs_get_set_other : forall fs p c q, q <> p -> fs_get (fs_set fs p c) q = fs_get fs q.
Proof.
  intros fs p c q H. unfold fs_set. rewrite fs_get_app, (fs_get_del_other _ _ _ H). simpl.
  rewrite (path_eqb_neq q p H). now destruct (fs_get fs q).
Qed.

Lemma fs_has_true : forall fs p, fs_has fs p = true <-> exists l, fs_get fs p = Some l.
Proof.
  intros fs p. unfold fs_has. destruct (fs_get fs p) as [l|]; split; intros H; try reflexivity; try discriminate.
  - now exists l.
  - destruct H as (l & H). discriminate.
Qed.

Lemma fs_has_false : forall fs p, fs_has fs p = false <-> fs_get fs p = None.
Proof.
  intros fs p. unfold fs_has. destruct (fs_get fs p) as [l|]; split; intros H; try reflexivity; discriminate.
Qed.

(* ------------------------------------------------------------------ *)
(* lists updated at one index                                          *)
(* ------------------------------------------------------------------ *)
Lemma upd_length : forall {A} (l : list A) n x, length (upd l n x) = length l.
Proof. induction l as [|a l IH]; intros [|n] x; simpl; auto. Qed.

Lemma nth_error_upd : forall {A} (l : list A) n x j y,
  nth_error (upd l n x) j = Some y ->
  (j = n /\ y = x /\ n < length l) \/ (j <> n /\ nth_error l j = Some y).
Proof.
  induction l as [|a l IH]; intros [|n] x [|j] y H; simpl in *; try discriminate.
  - inversion H; subst. left. repeat split; lia.
  - right. split; [lia|exact H].
  - right. split; [lia|exact H].
  - destruct (IH n x j y H) as [(E1 & E2 & E3)|(E1 & E2)]; [left; repeat split; auto; lia|right; split; auto].
Qed.

Lemma nth_error_upd_same : forall {A} (l : list A) n x, n < length l -> nth_error (upd l n x) n = Some x.
Proof. induction l as [|a l IH]; intros [|n] x H; simpl in *; try lia; [reflexivity|apply IH; lia]. Qed.

Lemma nth_error_upd_other : forall {A} (l : list A) n x j, j <> n -> nth_error (upd l n x) j = nth_error l j.
Proof.
  induction l as [|a l IH]; intros [|n] x [|j] H; simpl in *; try reflexivity; try lia. apply IH. lia.
Qed.

Lemma In_upd : forall {A} (l : list A) n x y, In y (upd l n x) -> y = x \/ In y l.
Proof.
  intros A l n x y H. apply In_nth_error in H. destruct H as (j & Hj).
  destruct (nth_error_upd _ _ _ _ _ Hj) as [(_ & E & _)|(_ & E)]; [now left|right; eapply nth_error_In; eauto].
Qed.

Lemma nth_upd_other : forall {A} (l : list A) n x j d, j <> n -> nth j (upd l n x) d = nth j l d.
Proof.
  induction l as [|a l IH]; intros [|n] x [|j] d H; simpl in *; try reflexivity; try lia. apply IH. lia.
Qed.

Lemma nth_upd_cases : forall {A} (l : list A) n x j d, nth j (upd l n x) d = x \/ nth j (upd l n x) d = nth j l d.
Proof.
  induction l as [|a l IH]; intros [|n] x [|j] d; simpl; auto.
Qed.

(* ------------------------------------------------------------------ *)
(* association lists                                                   *)
(* ------------------------------------------------------------------ *)
Lemma In_assoc_set : forall {A} (l : list (key * A)) k a e, In e (assoc_set l k a) -> In e l \/ e = (k, a).
Proof.
  induction l as [|[q b] l IH]; intros k a e H; simpl in *.
  - destruct H as [H|[]]. now right.
  - destruct (key_eqb k q) eqn:E.
    + apply key_eqb_eq in E. subst q. destruct H as [H|H]; [right; now symmetry|left; now right].
    + destruct H as [H|H]; [left; now left|]. destruct (IH _ _ _ H) as [H1|H1]; [left; now right|now right].
Qed.

Lemma assoc_key_none : forall {A} (l : list (key * A)) k, assoc_key l k = None -> forall e, In e l -> fst e <> k.
Proof.
  induction l as [|[q b] l IH]; intros k H e He; simpl in *; [contradiction|].
  destruct (key_eqb k q) eqn:E; [discriminate|]. destruct He as [He|He].
  - subst e. simpl. apply key_eqb_neq in E. congruence.
  - now apply IH.
Qed.

Lemma assoc_set_fresh : forall {A} (l : list (key * A)) k a, (forall e, In e l -> fst e <> k) -> assoc_set l k a = l ++ [(k, a)].
Proof.
  induction l as [|[q b] l IH]; intros k a H; simpl; [reflexivity|].
  destruct (key_eqb k q) eqn:E.
  - apply key_eqb_eq in E. subst q. exfalso. apply (H (k, b)); [now left|reflexivity].
  - f_equal. apply IH. intros e He. apply H. now right.
Qed.

Lemma assoc_key_set_same : forall {A} (l : list (key * A)) k a, assoc_key l k = None -> assoc_key (assoc_set l k a) k = Some a.
Proof.
  induction l as [|[q b] l IH]; intros k a H; simpl in *.
  - now rewrite key_eqb_refl.
  - destruct (key_eqb k q) eqn:E; [discriminate|]. simpl. rewrite E. now apply IH.
Qed.

(* ------------------------------------------------------------------ *)
(* (5) a call whose result file exists is not run again                *)
(* ------------------------------------------------------------------ *)
Theorem no_rerun : forall c s s' i k w,
  fpc s = GListdir i k w -> fs_has (fsy s) (k, EOut) = true -> fstep c s TD = Some (s', LListdir) ->
  fpc s' = GTd /\ fps s' = fps s /\ fsy s' = fsy s /\ assoc_key (mem s') k = Some i.
Proof.
  intros c s s' i k w Hpc Hhas Hst. simpl in Hst. unfold f_step in Hst. rewrite Hpc, Hhas in Hst.
  inversion Hst; subst; clear Hst. simpl. repeat split.
  destruct (assoc_key (mem s) k) as [j|] eqn:E; [|now apply assoc_key_set_same].
  clear -E. induction (mem s) as [|[q b] l IH]; simpl in *; [discriminate|].
  destruct (key_eqb k q) eqn:Ek; simpl; rewrite Ek; [reflexivity|now apply IH].
Qed.

(* ------------------------------------------------------------------ *)
(* helpers of the loop thread                                          *)
(* ------------------------------------------------------------------ *)
Lemma conv_spec : forall c s i todo pat waits,
  exists pc', conv c s i todo pat waits = set_fpc s pc' /\
    (pc' = GTd
     \/ (exists pat' w', pc' = GListdir i (fcanon c i, pat') w' /\ assoc_key (mem s) (fcanon c i, pat') = None)
     \/ (exists d rest pat' w', pc' = GConvRes i d rest pat' w')).
Proof.
  intros c s i todo. induction todo as [|d rest IH]; intros pat waits; simpl.
  - destruct (assoc_key (mem s) (fcanon c i, pat)) as [j|] eqn:E.
    + exists GTd. split; [reflexivity|now left].
    + exists (GListdir i (fcanon c i, pat) waits). split; [reflexivity|]. right. left. now exists pat, waits.
  - destruct (mem_find (mem s) d) as [kd|].
    + apply IH.
    + exists (GConvRes i d rest pat waits). split; [reflexivity|]. right. right. now exists d, rest, pat, waits.
Qed.

Ltac fld := cbn [fx fpc mem procd fps fsy set_fx set_fpc set_fsy set_mem set_fps fbase set_fbase f_end
                 base disp active launched set_base set_disp
                 queues futs subm main ops closed ws ps outs] in *.

(* destruct every match of a step equation *)
Ltac step_cases H :=
  repeat match type of H with
         | Some _ = Some _ => fail 1
         | None = Some _ => discriminate H
         | context [match ?x with _ => _ end] => destruct x eqn:?; try discriminate H
         | context [if ?x then _ else _] => destruct x eqn:?; try discriminate H
         end.

Ltac ins := simpl in *; repeat (progress (rewrite ?in_app_iff in *; simpl in *)).

Ltac goal_cases :=
  repeat match goal with
         | |- context [match ?x with _ => _ end] => destruct x eqn:?
         | |- context [if ?x then _ else _] => destruct x eqn:?
         end.

(* ------------------------------------------------------------------ *)
(* (1) every memory_dict entry registers a future under its own key    *)
(* ------------------------------------------------------------------ *)
Definition pkey_ok (c : fcfg) (p : fpcT) : Prop :=
  match p with
  | GListdir i k _ | GExistsIn i k _ | GRemove i k _ | GOpenIn i k _ | GDs i k _ _ | GCloseIn _ i k _
  | GCheck i k _ | GPoll i k _ _ _ | GSpawn i k _ => fst k = fcanon c i
  | _ => True
  end.

Definition MKc (c : fcfg) (m : list (key * nat)) (p : fpcT) : Prop :=
  (forall e, In e (m ++ scan_entries p) -> fst (fst e) = fcanon c (snd e)) /\ pkey_ok c p.
Definition MK (c : fcfg) (s : fstateX) : Prop := MKc c (mem s) (fpc s).

Lemma MK_conv : forall c s i todo pat waits, MK c s -> scan_entries (fpc s) = [] ->
  MK c (conv c s i todo pat waits).
Proof.
  intros c s i todo pat waits [He Hp] Hsc.
  destruct (conv_spec c s i todo pat waits) as (pc' & E & Hc). rewrite E. unfold MK, MKc. fld.
  rewrite Hsc in He.
  destruct Hc as [Hc|[(pat' & w' & Hc & _)|(d & rest & pat' & w' & Hc)]]; subst pc'; simpl; split; auto.
Qed.

Lemma MK_scan_next : forall c s todo kept,
  (forall e, In e (mem s) -> fst (fst e) = fcanon c (snd e)) ->
  (forall e, In e (todo ++ kept) -> fst (fst e) = fcanon c (snd e)) ->
  MK c (scan_next s todo kept).
Proof.
  intros c s todo kept Hm Ht. unfold scan_next. destruct todo as [|e0 todo]; unfold MK, MKc; fld; simpl; split; auto.
  - intros e He. rewrite app_nil_r in He. apply Ht. exact He.
  - intros e He. apply in_app_iff in He. destruct He as [He|He]; [now apply Hm|now apply Ht].
Qed.

Lemma MK_f_step : forall c s s' l, MK c s -> f_step c s = Some (s', l) -> MK c s'.
Proof.
  intros c s s' l HMK Hst. unfold f_step in Hst. pose proof HMK as [He Hp].
  assert (Hm : forall e, In e (mem s) -> fst (fst e) = fcanon c (snd e)).
  { intros e H. apply He. apply in_app_iff. now left. }
  destruct (fpc s) eqn:Hpc; step_cases Hst; inversion Hst; subst; clear Hst;
    unfold after_check, kill_proc, fsetp; goal_cases; try exact HMK;
    try (apply MK_conv; [unfold MK; fld; exact HMK|fld; rewrite Hpc; reflexivity]);
    try (apply MK_scan_next; fld; [exact Hm|];
         intros e0 He0; apply He; ins; tauto);
    try (unfold MK, MKc; fld; simpl in *; split; [|auto];
         intros e0 He0; apply He; revert He0; rewrite ?app_nil_r, ?in_app_iff; simpl; tauto).
  - (* GListdir, result file present *)
    unfold MK, MKc; fld; simpl in *. split; [|auto]. intros e0 He0. rewrite app_nil_r in He0.
    apply In_assoc_set in He0. destruct He0 as [He0|He0]; [now apply Hm|]. subst e0. exact Hp.
  - (* GSpawn *)
    unfold MK, MKc; fld; simpl in *. split; [|auto]. intros e0 He0. rewrite app_nil_r in He0.
    apply In_assoc_set in He0. destruct He0 as [He0|He0]; [now apply Hm|]. subst e0. exact Hp.
Qed.

(* what a process step / a kill / a client step leave alone *)
Lemma q_step_frame : forall c s n s' l, q_step c s n = Some (s', l) ->
  fx s' = fx s /\ fpc s' = fpc s /\ mem s' = mem s /\ procd s' = procd s.
Proof.
  intros c s n s' l Hst. unfold q_step in Hst. step_cases Hst; inversion Hst; subst; clear Hst;
    unfold q_to, fsetp; goal_cases; fld; repeat split; reflexivity.
Qed.

Lemma kill_frame : forall s n,
  fx (kill_proc s n) = fx s /\ fpc (kill_proc s n) = fpc s /\ mem (kill_proc s n) = mem s
  /\ procd (kill_proc s n) = procd s /\ fsy (kill_proc s n) = fsy s.
Proof. intros s n. unfold kill_proc, fsetp. fld. repeat split; reflexivity. Qed.

Lemma MK_ftrans : forall c s s', MK c s -> ftrans c s s' -> MK c s'.
Proof.
  intros c s s' H Ht. destruct Ht as [s t s' l Hst|s n].
  - destruct t as [| | |j|k]; simpl in Hst; try discriminate.
    + destruct (xm_step dummy_xcfg (fx s)) as [[x l0]|]; [|discriminate]. inversion Hst; subst; clear Hst. exact H.
    + eapply MK_f_step; eauto.
    + destruct (q_step_frame _ _ _ _ _ Hst) as (_ & E1 & E2 & _). unfold MK. now rewrite E1, E2.
  - destruct (kill_frame s n) as (_ & E1 & E2 & _). unfold MK. now rewrite E1, E2.
Qed.

Lemma MK_reach : forall c n prog fs0 s, freach c (finit n prog fs0) s -> MK c s.
Proof.
  intros c n prog fs0 s H. remember (finit n prog fs0) as s0 eqn:E. induction H as [s|s s' s'' H1 IH H2].
  - subst s. unfold MK, MKc, finit. simpl. split; [intros e []|exact I].
  - eapply MK_ftrans; eauto.
Qed.

Theorem mem_key_inv : forall c n prog fs0 s,
  freach c (finit n prog fs0) s -> mem_key_ok c s = true.
Proof.
  intros c n prog fs0 s H. destruct (MK_reach _ _ _ _ _ H) as [He _].
  unfold mem_key_ok, all_entries. apply forallb_forall. intros e Hin. apply Nat.eqb_eq. now apply He.
Qed.

(* labels *)
Lemma drain_step_label : forall s w b l, drain_step s w = Some (b, l) -> exists it, l = LGetNw 0 (Some it).
Proof.
  intros s w b l H. unfold drain_step in H. step_cases H; inversion H; subst; eauto.
Qed.

Lemma xm_step_label : forall c x x' l, xm_step c x = Some (x', l) ->
  match l with LSetRes _ _ | LBody _ => False | _ => True end.
Proof.
  intros c x x' l Hst. unfold xm_step in Hst.
  step_cases Hst; inversion Hst; subst; clear Hst; try exact I;
    match goal with H : drain_step _ _ = Some _ |- _ => apply drain_step_label in H; destruct H as (it & E); subst; exact I end.
Qed.

Lemma f_step_setres : forall c s s' f v, f_step c s = Some (s', FL (LSetRes f v)) ->
  exists k todo kept, fpc s = GSetRes k f todo kept /\ v = fst k.
Proof.
  intros c s s' f v Hst. unfold f_step in Hst.
  destruct (fpc s) eqn:Hpc; step_cases Hst; inversion Hst; subst; clear Hst; eauto.
Qed.

Lemma q_step_label : forall c s n s' l, q_step c s n = Some (s', l) ->
  match l with FL (LSetRes _ _) => False | _ => True end.
Proof.
  intros c s n s' l Hst. unfold q_step in Hst. step_cases Hst; inversion Hst; subst; clear Hst; exact I.
Qed.

Corollary setres_own_value : forall c n prog fs0 s t s' f v,
  freach c (finit n prog fs0) s -> fstep c s t = Some (s', FL (LSetRes f v)) -> v = fcanon c f.
Proof.
  intros c n prog fs0 s t s' f v Hr Hst. destruct (MK_reach _ _ _ _ _ Hr) as [He _].
  destruct t as [| | |j|k]; simpl in Hst; try discriminate.
  - destruct (xm_step dummy_xcfg (fx s)) as [[x l0]|] eqn:E; [|discriminate]. inversion Hst; subst; clear Hst.
    apply xm_step_label in E. contradiction.
  - destruct (f_step_setres _ _ _ _ _ Hst) as (k0 & todo & kept & Hpc & Hv). subst v.
    apply (He (k0, f)). rewrite Hpc. apply in_app_iff. right. simpl. now left.
  - apply q_step_label in Hst. contradiction.
Qed.


(* ================================================================== *)
(* The joint invariant for (2), (3), (4)                               *)
(* ================================================================== *)

(* ---------- counting occurrences ---------- *)
Fixpoint occ (i : nat) (l : list nat) : nat :=
  match l with
  | [] => 0
  | j :: t => (if Nat.eqb i j then 1 else 0) + occ i t
  end.

Lemma occ_app : forall i a b, occ i (a ++ b) = occ i a + occ i b.
Proof. induction a as [|j a IH]; intros b; simpl; [reflexivity|rewrite IH; lia]. Qed.

Lemma occ_In : forall i l, 1 <= occ i l -> In i l.
Proof.
  induction l as [|j l IH]; simpl; intros H; [lia|].
  destruct (Nat.eqb i j) eqn:E; [left; symmetry; now apply Nat.eqb_eq|right; apply IH; lia].
Qed.

Lemma occ_NoDup : forall i l, NoDup l -> occ i l <= 1.
Proof.
  induction l as [|j l IH]; simpl; intros H; [lia|]. inversion H as [|x y Hn Hd]; subst.
  destruct (Nat.eqb i j) eqn:E; [|specialize (IH Hd); lia].
  apply Nat.eqb_eq in E. subst j. destruct (occ i l) eqn:Eo; [lia|].
  exfalso. apply Hn. apply occ_In. lia.
Qed.

Fixpoint tasks (l : list item) : list nat :=
  match l with
  | [] => []
  | Task i :: t => i :: tasks t
  | Shut _ :: t => tasks t
  end.

Lemma tasks_app : forall a b, tasks (a ++ b) = tasks a ++ tasks b.
Proof. induction a as [|[i|w] a IH]; intros b; simpl; rewrite ?IH; reflexivity. Qed.

Lemma submits_app : forall a b, submits (a ++ b) = submits a ++ submits b.
Proof. induction a as [|o a IH]; intros b; simpl; [reflexivity|]. destruct o; simpl; rewrite ?IH; reflexivity. Qed.

(* ---------- queue 0 ---------- *)
Definition q0 (b : state) : list item := qitems (getq b 0).

Lemma q0_qpop : forall b, q0 (qpop b 0) = tl (q0 b).
Proof. intros b. unfold q0, qpop, getq, set_queues. simpl. destruct (queues b) as [|q t]; reflexivity. Qed.

Lemma q0_qtd : forall b, q0 (qtd b 0) = q0 b.
Proof. intros b. unfold q0, qtd, getq, set_queues. simpl. destruct (queues b) as [|q t]; reflexivity. Qed.

Lemma q0_qput : forall b it, q0 (qput b 0 it) = q0 b ++ [it] \/ q0 (qput b 0 it) = q0 b.
Proof. intros b it. unfold q0, qput, getq, set_queues. simpl. destruct (queues b) as [|q t]; simpl; auto. Qed.

(* ---------- the client ---------- *)
Definition main_ok (m : mpc) : Prop :=
  match m with MDrain _ | MDrainCancel _ _ | MDrainTd _ => False | _ => True end.

Definition cntb (b : state) (i : nat) : nat := occ i (submits (ops b)) + occ i (tasks (q0 b)).

(* b' comes after b: same futures, no new pending submission, still no cancellation *)
Definition cgood (b b' : state) : Prop :=
  nocancel (ops b') = true /\ main_ok (main b') /\ futs b' = futs b /\ forall i, cntb b' i <= cntb b i.

Lemma settle_spec : forall cl lk sub l acc l' acc' pc,
  settle cl lk sub l acc = (l', acc', pc) -> (exists pre, l = pre ++ l') /\ main_ok pc.
Proof.
  intros cl lk sub l. induction l as [|o t IH]; intros acc l' acc' pc H; simpl in H.
  - inversion H; subst. split; [now exists []|exact I].
  - assert (Hstop : (o :: t, acc, MOp) = (l', acc', pc) -> (exists pre, o :: t = pre ++ l') /\ main_ok pc).
    { intros E. inversion E; subst. split; [now exists []|exact I]. }
    assert (Hgo : forall a, settle cl lk sub t a = (l', acc', pc) -> (exists pre, o :: t = pre ++ l') /\ main_ok pc).
    { intros a E. destruct (IH _ _ _ _ E) as [(pre & Hp) Hm]. split; [exists (o :: pre); simpl; now rewrite Hp|exact Hm]. }
    destruct o; try (destruct cl; [eapply Hgo; eauto|now apply Hstop]);
      try (destruct (mem_nat i sub); [now apply Hstop|eapply Hgo; eauto]).
    destruct (cl || lk); [eapply Hgo; eauto|now apply Hstop].
Qed.

Lemma nocancel_app : forall a b, nocancel (a ++ b) = true -> nocancel b = true.
Proof. intros a b H. unfold nocancel in *. rewrite forallb_app in H. apply andb_true_iff in H. tauto. Qed.

Lemma m_goto_good : forall s l x cl,
  nocancel l = true ->
  nocancel (ops (m_goto s l x cl)) = true /\ main_ok (main (m_goto s l x cl))
  /\ futs (m_goto s l x cl) = futs s /\ queues (m_goto s l x cl) = queues s
  /\ forall i, occ i (submits (ops (m_goto s l x cl))) <= occ i (submits l).
Proof.
  intros s l x cl Hn. unfold m_goto.
  destruct (settle cl _ (subm s) l (outs s ++ x)) as [[l' acc'] pc] eqn:E.
  apply settle_spec in E. destruct E as [(pre & Hp) Hm]. simpl. subst l. repeat split; auto.
  - eapply nocancel_app; eauto.
  - intros i. rewrite submits_app, occ_app. lia.
Qed.

Lemma q0_queues : forall b b', queues b' = queues b -> q0 b' = q0 b.
Proof. intros b b' H. unfold q0, getq. now rewrite H. Qed.

Lemma cgood_goto : forall b s l x cl,
  nocancel l = true -> futs s = futs b ->
  (forall i, occ i (submits l) + occ i (tasks (q0 s)) <= cntb b i) ->
  cgood b (m_goto s l x cl).
Proof.
  intros b s l x cl Hn Hf Hc. destruct (m_goto_good s l x cl Hn) as (H1 & H2 & H3 & H4 & H5).
  unfold cgood. repeat split; auto; [congruence|]. intros i. unfold cntb at 1. rewrite (q0_queues _ _ H4).
  specialize (H5 i). specialize (Hc i). lia.
Qed.

Lemma nocancel_tl : forall l, nocancel l = true -> nocancel (tl l) = true.
Proof. intros [|o l] H; [reflexivity|]. simpl in *. apply andb_true_iff in H. tauto. Qed.

Lemma occ_submits_tl : forall i l, occ i (submits (tl l)) <= occ i (submits l).
Proof. intros i [|o l]; simpl; [lia|]. destruct o; simpl; lia. Qed.

Lemma cgood_done : forall b s x cl,
  nocancel (ops s) = true -> futs s = futs b ->
  (forall i, occ i (submits (tl (ops s))) + occ i (tasks (q0 s)) <= cntb b i) ->
  cgood b (m_done s x cl).
Proof. intros b s x cl Hn Hf Hc. unfold m_done. apply cgood_goto; auto. now apply nocancel_tl. Qed.

Lemma cgood_setmain : forall b s m,
  nocancel (ops s) = true -> main_ok m -> futs s = futs b -> (forall i, cntb s i <= cntb b i) ->
  cgood b (set_main s m).
Proof. intros b s m Hn Hm Hf Hc. unfold cgood. simpl. repeat split; auto. Qed.

Lemma tasks_put_shut : forall b w i, occ i (tasks (q0 (qput b 0 (Shut w)))) = occ i (tasks (q0 b)).
Proof.
  intros b w i. destruct (q0_qput b (Shut w)) as [E|E]; rewrite E; [|reflexivity].
  rewrite tasks_app. simpl. now rewrite app_nil_r.
Qed.

Lemma cgood_xnorm : forall b x,
  nocancel (ops (base x)) = true -> main_ok (main (base x)) -> futs (base x) = futs b ->
  (forall i, cntb (base x) i <= cntb b i) ->
  cgood b (base (xm_norm x)).
Proof.
  intros b x Hn Hm Hf Hc. unfold xm_norm.
  assert (Hsame : cgood b (base x)) by (unfold cgood; auto).
  assert (Hfin : forall o, cgood b (m_done (base x) o true)).
  { intros o. apply cgood_done; auto. intros i. specialize (Hc i). unfold cntb in *.
    pose proof (occ_submits_tl i (ops (base x))). lia. }
  destruct (main (base x)) as [|k| |w|w j|w|w k|k| |] eqn:E; try exact Hsame.
  - destruct k as [|k]; [|exact Hsame]. destruct (cur_wait (base x)); simpl; [|apply Hfin].
    apply cgood_setmain; auto; exact I.
  - destruct k as [|k]; [exact Hsame|]. simpl. apply cgood_setmain; auto; exact I.
Qed.

Lemma cgood_putshut : forall b s w m x,
  base x = set_main (qput s 0 (Shut w)) m ->
  nocancel (ops s) = true -> main_ok m -> futs s = futs b -> (forall i, cntb s i <= cntb b i) ->
  cgood b (base (xm_norm x)).
Proof.
  intros b s w m x Hx Hn Hm Hf Hc. apply cgood_xnorm; rewrite Hx; simpl; auto.
  intros i. specialize (Hc i). unfold cntb in *. simpl.
  change (q0 (set_main (qput s 0 (Shut w)) m)) with (q0 (qput s 0 (Shut w))).
  rewrite tasks_put_shut. exact Hc.
Qed.

Lemma client_step : forall c x x' l,
  nocancel (ops (base x)) = true -> main_ok (main (base x)) ->
  xm_step c x = Some (x', l) -> cgood (base x) (base x').
Proof.
  intros c x x' l Hn Hm Hst. unfold xm_step in Hst.
  assert (Hrefl : forall i, cntb (base x) i <= cntb (base x) i) by (intros; lia).
  assert (Htl : forall i, occ i (submits (tl (ops (base x)))) + occ i (tasks (q0 (base x))) <= cntb (base x) i).
  { intros i. unfold cntb. pose proof (occ_submits_tl i (ops (base x))). lia. }
  destruct (main (base x)) as [|k| |w|w j|w|w k|k| |] eqn:Emain; try contradiction.
  - (* MBegin *) inversion Hst; subst; clear Hst. simpl. apply cgood_setmain; auto; exact I.
  - (* MStart *) inversion Hst; subst; clear Hst. simpl. apply cgood_goto; auto.
    + unfold nocancel in *. rewrite forallb_app, Hn. reflexivity.
    + intros i. unfold cntb. rewrite submits_app, occ_app. simpl. lia.
  - (* MOp *)
    destruct (ops (base x)) as [|o rest] eqn:Eops; [discriminate|].
    assert (Hn' : nocancel rest = true /\ op_nocancel o = true).
    { simpl in Hn. apply andb_true_iff in Hn. tauto. }
    destruct o as [i|i|i|w cf| |]; simpl in Hn'; try (destruct Hn' as [_ Hx]; discriminate).
    + (* submit *)
      inversion Hst; subst; clear Hst. simpl. apply cgood_done; simpl; auto.
      * rewrite Eops. exact Hn.
      * rewrite Eops. simpl. intros i0. unfold cntb. rewrite Eops. simpl.
        match goal with |- context [q0 ?s] => change (q0 s) with (q0 (qput (base x) 0 (Task i))) end.
        destruct (q0_qput (base x) (Task i)) as [E|E]; rewrite E; [|lia].
        rewrite tasks_app, occ_app. simpl. lia.
    + (* result *)
      destruct (fdone (getf (base x) i)); [|discriminate]. inversion Hst; subst; clear Hst. simpl.
      apply cgood_done; rewrite ?Eops; auto.
    + (* shutdown *)
      destruct cf; [destruct Hn' as [_ Hx]; discriminate|].
      inversion Hst; subst; clear Hst. (eapply cgood_putshut; [simpl; reflexivity|..]); rewrite ?Eops; auto; exact I.
    + inversion Hst; subst; clear Hst. (eapply cgood_putshut; [simpl; reflexivity|..]); rewrite ?Eops; auto; exact I.
    + inversion Hst; subst; clear Hst. (eapply cgood_putshut; [simpl; reflexivity|..]); rewrite ?Eops; auto; exact I.
  - (* MPutShut *)
    destruct k as [|k']; [discriminate|]. inversion Hst; subst; clear Hst.
    (eapply cgood_putshut; [simpl; reflexivity|..]); auto; exact I.
  - (* MJoin *)
    destruct (ddone (disp x)); [|discriminate].
    destruct (disp x); inversion Hst; subst; clear Hst; simpl;
      try (apply cgood_setmain; auto; exact I); apply cgood_done; auto.
  - (* MQJoin *)
    destruct (Nat.eqb (qunf (getq (base x) 0)) 0); [|discriminate]. inversion Hst; subst; clear Hst. simpl.
    apply cgood_done; auto.
  - discriminate.
Qed.

(* ---------- the invariant ---------- *)
Definition fut (s : fstateX) (i : nat) : fstate := getf (fbase s) i.
Definition fgood (f : fstate) : bool :=
  match f with FCancelled | FCancelledN | FExc => false | _ => true end.

Definition held (p : fpcT) : option nat :=
  match p with
  | GConvRes i _ _ _ _ | GListdir i _ _ | GExistsIn i _ _ | GRemove i _ _ | GOpenIn i _ _ | GDs i _ _ _
  | GCloseIn _ i _ _ | GCheck i _ _ | GPoll i _ _ _ _ | GSpawn i _ _ => Some i
  | _ => None
  end.
Definition hcnt (p : fpcT) (i : nat) : nat :=
  match held p with Some j => if Nat.eqb i j then 1 else 0 | None => 0 end.
Definition cnt (s : fstateX) (i : nat) : nat := cntb (fbase s) i + hcnt (fpc s) i.

Definition scanning (p : fpcT) : bool :=
  match p with
  | GScan _ _ | GExistsOut _ _ _ _ | GOpenOut _ _ _ _ | GReadOut _ _ _ _ | GCloseOut _ _ _ _ _ | GSetRes _ _ _ _ => true
  | _ => false
  end.
Definition witp (p : fpcT) (m : list (key * nat)) : list (key * nat) := if scanning p then scan_entries p else m.
Definition wit (s : fstateX) : list (key * nat) := witp (fpc s) (mem s).

Definition prepL (p : fpcT) : option key :=
  match p with GListdir _ k _ => Some k | _ => preparing p end.

Definition ds_before (d : ds) : list ds :=
  match d with DFn => [] | DArgs => [DFn] | DKw => [DFn; DArgs] | DOut => [DFn; DArgs; DKw] end.

Definition complete (fs : fsys) (w : key) : Prop :=
  exists l, fs_get fs (w, EOut) = Some l /\ has_ds DOut l = true.
Definition hdc (fs : fsys) (todo : list key) : Prop :=
  match todo with d :: _ => complete fs d | [] => True end.
Definition dep_ok (fs : fsys) (p : fproc) : Prop :=
  match qpc p with
  | QDepOpen todo => exists done, qwaits p = done ++ todo /\ Forall (complete fs) done
  | QDepRead todo => exists done, qwaits p = done ++ todo /\ Forall (complete fs) done /\ hdc fs todo
  | QDepClose flag todo => exists done, qwaits p = done ++ todo /\ Forall (complete fs) done /\ (flag = true -> hdc fs todo)
  | QBody => Forall (complete fs) (qwaits p)
  | _ => True
  end.

Definition Lpc (p : fpcT) (fs : fsys) (ft : nat -> fstate) : Prop :=
  match p with
  | GRemove _ k _ | GCheck _ k _ => fs_has fs (k, EIn) = true
  | GOpenIn _ k _ => fs_get fs (k, EIn) = None
  | GDs _ k _ d => fs_get fs (k, EIn) = Some (ds_before d)
  | GCloseIn ok _ k _ => ok = true /\ fs_has fs (k, EIn) = true
  | GExistsOut k f _ _ => fdone (ft f) = false
  | GOpenOut k f _ _ | GReadOut k f _ _ | GCloseOut _ k f _ _ | GSetRes k f _ _ =>
      fs_has fs (k, EOut) = true /\ fdone (ft f) = false
  | GDead => False
  | _ => True
  end.

Record FInv (s : fstateX) : Prop := mkFInv {
  I_nc : nocancel (ops (fbase s)) = true;
  I_main : main_ok (main (fbase s));
  I_fgood : forall i, fgood (fut s i) = true;
  I_u1 : forall i, cnt s i <= 1;
  I_u2 : forall e, In e (mem s) -> cnt s (snd e) = 0 /\ 1 <= snd e;
  I_u3 : forall i, 1 <= cnt s i -> fdone (fut s i) = false /\ 1 <= i;
  I_inj : forall e1 e2, In e1 (mem s) -> In e2 (mem s) -> snd e1 = snd e2 -> e1 = e2;
  I_scan : incl (scan_entries (fpc s)) (mem s);
  I_p1 : forall n1 n2 p1 p2, nth_error (fps s) n1 = Some p1 -> nth_error (fps s) n2 = Some p2 ->
           qalive p1 = true -> qalive p2 = true -> qkey p1 = qkey p2 -> n1 = n2;
  I_p2a : forall p, In p (fps s) -> qalive p = true ->
            exists e, In e (wit s) /\ fst e = qkey p /\ fdone (fut s (snd e)) = false;
  I_p2b : forall p, In p (fps s) -> qalive p = true -> fs_get (fsy s) (qkey p, EOut) = None;
  I_r : forall k, prepL (fpc s) = Some k ->
          (forall p, In p (fps s) -> qalive p = true -> qkey p <> k) /\ (forall e, In e (mem s) -> fst e <> k);
  I_rb : forall k, preparing (fpc s) = Some k -> fs_get (fsy s) (k, EOut) = None;
  I_l : Lpc (fpc s) (fsy s) (fut s);
  I_d : forall p, In p (fps s) -> dep_ok (fsy s) p
}.

Lemma wit_incl : forall s, FInv s -> incl (wit s) (mem s).
Proof.
  intros s H. unfold wit, witp. destruct (scanning (fpc s)); [apply (I_scan _ H)|apply incl_refl].
Qed.

Lemma fut_eq : forall s s', futs (fbase s') = futs (fbase s) -> forall i, fut s' i = fut s i.
Proof. intros s s' H i. unfold fut, getf. now rewrite H. Qed.

Lemma Lpc_ext : forall p fs ft ft', (forall i, ft' i = ft i) -> Lpc p fs ft -> Lpc p fs ft'.
Proof. intros p fs ft ft' H HL. destruct p; simpl in *; rewrite ?H; exact HL. Qed.

Lemma complete_mono_forall : forall fs fs' l,
  (forall w, complete fs w -> complete fs' w) -> Forall (complete fs) l -> Forall (complete fs') l.
Proof. intros fs fs' l H HF. eapply Forall_impl; [|exact HF]. exact H. Qed.

Lemma dep_ok_mono : forall fs fs' p,
  (forall w, complete fs w -> complete fs' w) -> dep_ok fs p -> dep_ok fs' p.
Proof.
  intros fs fs' p H Hd. unfold dep_ok in *.
  assert (Hh : forall t, hdc fs t -> hdc fs' t) by (intros [|d t]; simpl; auto).
  destruct (qpc p); try exact Hd.
  - destruct Hd as (dn & E & HF). exists dn. split; [exact E|]. eapply complete_mono_forall; eauto.
  - destruct Hd as (dn & E & HF & Hc). exists dn. repeat split; auto. eapply complete_mono_forall; eauto.
  - destruct Hd as (dn & E & HF & Hc). exists dn. repeat split; auto. eapply complete_mono_forall; eauto.
  - eapply complete_mono_forall; eauto.
Qed.

Lemma complete_ext : forall fs fs', (forall k, fs_get fs' (k, EOut) = fs_get fs (k, EOut)) ->
  forall w, complete fs w -> complete fs' w.
Proof. intros fs fs' H w (l & E & Hd). exists l. rewrite H. auto. Qed.

Lemma complete_stab : forall fs fs', (forall k l, fs_get fs (k, EOut) = Some l -> fs_get fs' (k, EOut) = Some l) ->
  forall w, complete fs w -> complete fs' w.
Proof. intros fs fs' H w (l & E & Hd). exists l. split; auto. Qed.

(* ---------- master lemma 1: memory_dict, processes and futures unchanged ---------- *)
Lemma finv_master1 : forall s s',
  FInv s ->
  fps s' = fps s -> mem s' = mem s -> futs (fbase s') = futs (fbase s) ->
  nocancel (ops (fbase s')) = true -> main_ok (main (fbase s')) ->
  (forall i, cnt s' i <= cnt s i) ->
  (forall k, fs_get (fsy s') (k, EOut) = fs_get (fsy s) (k, EOut)) ->
  incl (scan_entries (fpc s')) (mem s) ->
  (forall e, In e (wit s) -> fdone (fut s (snd e)) = false -> In e (wit s')) ->
  (forall k, prepL (fpc s') = Some k -> prepL (fpc s) = Some k
     \/ ((forall p, In p (fps s) -> qalive p = true -> qkey p <> k) /\ (forall e, In e (mem s) -> fst e <> k))) ->
  (forall k, preparing (fpc s') = Some k -> preparing (fpc s) = Some k \/ fs_get (fsy s') (k, EOut) = None) ->
  Lpc (fpc s') (fsy s') (fut s) ->
  FInv s'.
Proof.
  intros s s' H Efps Emem Efut Hnc Hmain Hcnt Hout Hscan Hwit Hprep Hpb HL.
  pose proof (fut_eq s s' Efut) as Ef.
  constructor; rewrite ?Efps, ?Emem; auto.
  - intros i. rewrite Ef. apply (I_fgood _ H).
  - intros i. specialize (Hcnt i). pose proof (I_u1 _ H i). lia.
  - intros e He. destruct (I_u2 _ H e He) as [H1 H2]. split; [|exact H2]. specialize (Hcnt (snd e)). lia.
  - intros i Hi. rewrite Ef. apply (I_u3 _ H). specialize (Hcnt i). lia.
  - apply (I_inj _ H).
  - apply (I_p1 _ H).
  - intros p Hp Ha. destruct (I_p2a _ H p Hp Ha) as (e & He & Hk & Hd). exists e. rewrite Ef. auto.
  - intros p Hp Ha. rewrite Hout. apply (I_p2b _ H p Hp Ha).
  - intros k Hk. destruct (Hprep k Hk) as [Hk'|Hk']; [apply (I_r _ H k Hk')|exact Hk'].
  - intros k Hk. destruct (Hpb k Hk) as [Hk'|Hk']; [rewrite Hout; apply (I_rb _ H k Hk')|exact Hk'].
  - eapply Lpc_ext; [|exact HL]. exact Ef.
  - intros p Hp. eapply dep_ok_mono; [|apply (I_d _ H p Hp)]. apply complete_ext. exact Hout.
Qed.

(* ---------- master lemma 2: the end of a scan (memory_dict := kept) ---------- *)
Lemma finv_scan_end : forall s s' kept,
  FInv s ->
  fx s' = fx s -> fps s' = fps s -> fsy s' = fsy s -> mem s' = kept -> fpc s' = GGet ->
  incl kept (wit s) ->
  (forall e, In e (wit s) -> fdone (fut s (snd e)) = false -> In e kept) ->
  FInv s'.
Proof.
  intros s s' kept H Efx Efps Efsy Emem Epc Hinc Hkeep.
  assert (Eb : fbase s' = fbase s) by (unfold fbase; now rewrite Efx).
  assert (Ef : forall i, fut s' i = fut s i) by (intros i; unfold fut; now rewrite Eb).
  assert (Hcnt : forall i, cnt s' i <= cnt s i).
  { intros i. unfold cnt. rewrite Eb, Epc. unfold hcnt. simpl. lia. }
  assert (Hkm : incl kept (mem s)) by (eapply incl_tran; [exact Hinc|now apply wit_incl]).
  constructor; rewrite ?Eb, ?Efps, ?Efsy, ?Emem, ?Epc; simpl; auto.
  - apply (I_nc _ H).
  - apply (I_main _ H).
  - intros i. rewrite Ef. apply (I_fgood _ H).
  - intros i. specialize (Hcnt i). pose proof (I_u1 _ H i). lia.
  - intros e He. destruct (I_u2 _ H e (Hkm e He)) as [H1 H2]. split; [|exact H2]. specialize (Hcnt (snd e)). lia.
  - intros i Hi. rewrite Ef. apply (I_u3 _ H). specialize (Hcnt i). lia.
  - intros e1 e2 H1 H2. apply (I_inj _ H); auto.
  - intros e [].
  - apply (I_p1 _ H).
  - intros p Hp Ha. destruct (I_p2a _ H p Hp Ha) as (e & He & Hk & Hd). exists e.
    unfold wit, witp. rewrite Epc, Emem. simpl. rewrite Ef. auto.
  - apply (I_p2b _ H).
  - intros k Hk. discriminate.
  - intros k Hk. discriminate.
  - apply (I_d _ H).
Qed.

(* ---------- master lemma 3: a new memory_dict entry, possibly with a new process ---------- *)
Lemma hcnt_held : forall p i, held p = Some i -> hcnt p i = 1.
Proof. intros p i H. unfold hcnt. rewrite H. now rewrite Nat.eqb_refl. Qed.

Lemma nth_error_snoc : forall {A} (l : list A) x n y, nth_error (l ++ [x]) n = Some y ->
  (n < length l /\ nth_error l n = Some y) \/ (n = length l /\ y = x).
Proof.
  intros A l x n y H. destruct (Nat.lt_ge_cases n (length l)) as [L|L].
  - left. rewrite nth_error_app1 in H by exact L. auto.
  - right. rewrite nth_error_app2 in H by exact L. destruct (n - length l) as [|m] eqn:E; simpl in H.
    + inversion H. split; [lia|reflexivity].
    + destruct m; discriminate.
Qed.

Lemma finv_add : forall s s' i k newp,
  FInv s ->
  held (fpc s) = Some i -> prepL (fpc s) = Some k -> scanning (fpc s) = false ->
  fx s' = fx s -> fsy s' = fsy s -> mem s' = mem s ++ [(k, i)] -> fpc s' = GTd ->
  fps s' = fps s ++ newp ->
  (forall p, In p newp -> newp = [p] /\ qkey p = k /\ qpc p = QBegin /\ preparing (fpc s) = Some k) ->
  FInv s'.
Proof.
  intros s s' i k newp H Hheld Hprep Hsc Efx Efsy Emem Epc Efps Hnew.
  assert (Eb : fbase s' = fbase s) by (unfold fbase; now rewrite Efx).
  assert (Ef : forall j, fut s' j = fut s j) by (intros j; unfold fut; now rewrite Eb).
  assert (Hcnt : forall j, cnt s' j <= cnt s j).
  { intros j. unfold cnt. rewrite Eb, Epc. unfold hcnt at 1. simpl. lia. }
  assert (Hci : cnt s i = 1 /\ cnt s' i = 0).
  { pose proof (I_u1 _ H i) as H1. unfold cnt in *. rewrite Eb, Epc. rewrite (hcnt_held _ _ Hheld) in *.
    change (hcnt GTd i) with 0. lia. }
  destruct Hci as [Hci Hci'].
  destruct (I_u3 _ H i) as [Hnd Hpos]; [lia|].
  destruct (I_r _ H k Hprep) as [Hnoalive Hnoent].
  assert (Hwit : wit s = mem s) by (unfold wit, witp; now rewrite Hsc).
  constructor; rewrite ?Eb, ?Efsy, ?Emem, ?Epc; simpl; auto.
  - apply (I_nc _ H).
  - apply (I_main _ H).
  - intros j. rewrite Ef. apply (I_fgood _ H).
  - intros j. specialize (Hcnt j). pose proof (I_u1 _ H j). lia.
  - intros e He. apply in_app_iff in He. destruct He as [He|[He|[]]].
    + destruct (I_u2 _ H e He) as [H1 H2]. split; [|exact H2]. specialize (Hcnt (snd e)). lia.
    + subst e. simpl. split; [exact Hci'|exact Hpos].
  - intros j Hj. rewrite Ef. apply (I_u3 _ H). specialize (Hcnt j). lia.
  - intros e1 e2 H1 H2 E. apply in_app_iff in H1. apply in_app_iff in H2.
    destruct H1 as [H1|[H1|[]]]; destruct H2 as [H2|[H2|[]]].
    + apply (I_inj _ H); auto.
    + subst e2. simpl in E. destruct (I_u2 _ H e1 H1) as [Hz _]. rewrite E in Hz. lia.
    + subst e1. simpl in E. destruct (I_u2 _ H e2 H2) as [Hz _]. rewrite <- E in Hz. lia.
    + congruence.
  - intros e [].
  - (* one process per key *)
    intros n1 n2 p1 p2 Hn1 Hn2 Ha1 Ha2 Ek. rewrite Efps in Hn1, Hn2.
    destruct newp as [|np newp'].
    + rewrite app_nil_r in Hn1, Hn2. eapply (I_p1 _ H); eauto.
    + destruct (Hnew np (or_introl eq_refl)) as (Enp & Hk & _ & _). inversion Enp; subst newp'.
      destruct (nth_error_snoc _ _ _ _ Hn1) as [[L1 N1]|[L1 N1]];
        destruct (nth_error_snoc _ _ _ _ Hn2) as [[L2 N2]|[L2 N2]].
      * eapply (I_p1 _ H); eauto.
      * subst p2. exfalso. apply (Hnoalive p1); [eapply nth_error_In; eauto|exact Ha1|congruence].
      * subst p1. exfalso. apply (Hnoalive p2); [eapply nth_error_In; eauto|exact Ha2|congruence].
      * lia.
  - (* registered with a pending future *)
    intros p Hp Ha. rewrite Efps in Hp. apply in_app_iff in Hp. unfold wit, witp. rewrite Epc, Emem. simpl.
    destruct Hp as [Hp|Hp].
    + destruct (I_p2a _ H p Hp Ha) as (e & He & Hk & Hd). rewrite Hwit in He. exists e. rewrite Ef.
      repeat split; auto. apply in_app_iff. now left.
    + destruct (Hnew p Hp) as (_ & Hk & _ & _). exists (k, i). rewrite Ef. simpl. repeat split; auto.
      apply in_app_iff. right. now left.
  - intros p Hp Ha. rewrite Efps in Hp. apply in_app_iff in Hp. destruct Hp as [Hp|Hp].
    + apply (I_p2b _ H p Hp Ha).
    + destruct (Hnew p Hp) as (_ & Hk & _ & Hpr). rewrite Hk. apply (I_rb _ H k Hpr).
  - intros k0 Hk0. discriminate.
  - intros k0 Hk0. discriminate.
  - intros p Hp. rewrite Efps in Hp. apply in_app_iff in Hp. destruct Hp as [Hp|Hp].
    + apply (I_d _ H p Hp).
    + destruct (Hnew p Hp) as (_ & _ & Hq & _). unfold dep_ok. now rewrite Hq.
Qed.

(* ---------- master lemma 4: set_result ---------- *)
Lemma getf_setf_cases : forall b f v j,
  getf (set_futs b (setf b f v)) j = v \/ getf (set_futs b (setf b f v)) j = getf b j.
Proof. intros b f v j. unfold getf, setf. simpl. apply nth_upd_cases. Qed.

Lemma getf_setf_other : forall b f v j, 1 <= j -> 1 <= f -> j <> f ->
  getf (set_futs b (setf b f v)) j = getf b j.
Proof. intros b f v j Hj Hf Hn. unfold getf, setf. simpl. apply nth_upd_other. lia. Qed.

Lemma finv_setres : forall s s' k f todo kept v,
  FInv s -> fpc s = GSetRes k f todo kept ->
  fbase s' = set_futs (fbase s) (setf (fbase s) f (FRes v)) ->
  fpc s' = GScan ((k, f) :: todo) kept -> mem s' = mem s -> fps s' = fps s -> fsy s' = fsy s ->
  FInv s'.
Proof.
  intros s s' k f todo kept v H Hpc Eb Epc Emem Efps Efsy.
  assert (Hcnt : forall j, cnt s' j = cnt s j).
  { intros j. unfold cnt. rewrite Eb, Epc, Hpc. reflexivity. }
  assert (Hkf : In (k, f) (mem s)).
  { apply (I_scan _ H). rewrite Hpc. simpl. now left. }
  destruct (I_u2 _ H _ Hkf) as [Hf0 Hfpos]. simpl in Hf0, Hfpos.
  assert (Hoth : forall j, 1 <= j -> j <> f -> fut s' j = fut s j).
  { intros j Hj Hn. unfold fut. rewrite Eb. now apply getf_setf_other. }
  pose proof (I_l _ H) as HL. rewrite Hpc in HL. simpl in HL. destruct HL as [Hhas Hnd].
  constructor; rewrite ?Efps, ?Efsy, ?Emem, ?Epc; simpl; auto.
  - rewrite Eb. apply (I_nc _ H).
  - rewrite Eb. apply (I_main _ H).
  - intros j. unfold fut. rewrite Eb. destruct (getf_setf_cases (fbase s) f (FRes v) j) as [E|E]; rewrite E;
      [reflexivity|apply (I_fgood _ H)].
  - intros j. rewrite Hcnt. apply (I_u1 _ H).
  - intros e He. rewrite Hcnt. apply (I_u2 _ H e He).
  - intros j Hj. rewrite Hcnt in Hj. destruct (I_u3 _ H j Hj) as [H1 H2]. split; [|exact H2].
    rewrite Hoth; auto. intros E. subst j. lia.
  - apply (I_inj _ H).
  - pose proof (I_scan _ H) as Hs. rewrite Hpc in Hs. exact Hs.
  - apply (I_p1 _ H).
  - intros p Hp Ha. destruct (I_p2a _ H p Hp Ha) as (e & He & Hk & Hd).
    exists e. unfold wit, witp in *. rewrite Epc. rewrite Hpc in He. simpl in *. repeat split; auto.
    assert (Hem : In e (mem s)) by (apply (I_scan _ H); rewrite Hpc; exact He).
    destruct (Nat.eq_dec (snd e) f) as [E|E].
    + exfalso. assert (Ee : e = (k, f)) by (apply (I_inj _ H); auto).
      subst e. simpl in Hk. pose proof (I_p2b _ H p Hp Ha) as Hb. rewrite <- Hk in Hb.
      apply fs_has_true in Hhas. destruct Hhas as (l & Hl). congruence.
    + rewrite Hoth; auto. apply (I_u2 _ H e Hem).
  - apply (I_p2b _ H).
  - intros k0 Hk0. discriminate.
  - intros k0 Hk0. discriminate.
  - apply (I_d _ H).
Qed.

(* ---------- master lemma 5: one process changes (a step of it, or a kill) ---------- *)
Lemma finv_proc : forall s s' j p pc',
  FInv s ->
  nth_error (fps s) j = Some p ->
  fx s' = fx s -> fpc s' = fpc s -> mem s' = mem s ->
  fps s' = upd (fps s) j (mkFP (qkey p) (qwaits p) pc') ->
  (qalive p = false -> pc' = QExit /\ fsy s' = fsy s) ->
  (forall pa, fst pa <> qkey p -> fs_get (fsy s') pa = fs_get (fsy s) pa) ->
  (pc' <> QExit -> fs_get (fsy s') (qkey p, EOut) = fs_get (fsy s) (qkey p, EOut)) ->
  ((forall w, complete (fsy s) w -> complete (fsy s') w) -> dep_ok (fsy s') (mkFP (qkey p) (qwaits p) pc')) ->
  FInv s'.
Proof.
  intros s s' j p pc' H Hj Efx Epc Emem Efps Hdead Hfs1 Hfs2 Hdep.
  assert (Eb : fbase s' = fbase s) by (unfold fbase; now rewrite Efx).
  assert (Ef : forall i, fut s' i = fut s i) by (intros i; unfold fut; now rewrite Eb).
  assert (Ecnt : forall i, cnt s' i = cnt s i) by (intros i; unfold cnt; now rewrite Eb, Epc).
  assert (Ewit : wit s' = wit s) by (unfold wit; now rewrite Epc, Emem).
  set (np := mkFP (qkey p) (qwaits p) pc') in *.
  assert (Hnp : qalive np = true -> qalive p = true).
  { intros Ha. destruct (qalive p) eqn:E; [reflexivity|]. destruct (Hdead eq_refl) as [E1 _].
    subst np. unfold qalive in Ha. simpl in Ha. rewrite E1 in Ha. discriminate. }
  (* every process of s' is the new one at j or an old one elsewhere *)
  assert (Hnth : forall n q, nth_error (fps s') n = Some q ->
            (n = j /\ q = np) \/ (n <> j /\ nth_error (fps s) n = Some q)).
  { intros n q Hn. rewrite Efps in Hn. destruct (nth_error_upd _ _ _ _ _ Hn) as [(E1 & E2 & _)|(E1 & E2)]; auto. }
  assert (Hin : forall q, In q (fps s') -> exists n, nth_error (fps s') n = Some q).
  { intros q Hq. now apply In_nth_error. }
  (* paths of a preparing key / of other live processes are untouched *)
  assert (Hkeep : forall pa, (qalive p = true -> fst pa <> qkey p) -> fs_get (fsy s') pa = fs_get (fsy s) pa).
  { intros pa Hpa. destruct (qalive p) eqn:E; [apply Hfs1; auto|]. destruct (Hdead eq_refl) as [_ E2]. now rewrite E2. }
  assert (Hstab : forall k l, fs_get (fsy s) (k, EOut) = Some l -> fs_get (fsy s') (k, EOut) = Some l).
  { intros k l Hl. rewrite Hkeep; [exact Hl|]. intros Ha E. simpl in E. subst k.
    rewrite (I_p2b _ H p (nth_error_In _ _ Hj) Ha) in Hl. discriminate. }
  assert (Hprepkeep : forall k e, prepL (fpc s) = Some k -> fs_get (fsy s') (k, e) = fs_get (fsy s) (k, e)).
  { intros k e Hk. apply Hkeep. intros Ha. simpl. intros E.
    destruct (I_r _ H k Hk) as [Hno _]. apply (Hno p (nth_error_In _ _ Hj) Ha). now symmetry. }
  constructor; rewrite ?Eb, ?Epc, ?Emem; auto.
  - apply (I_nc _ H).
  - apply (I_main _ H).
  - intros i. rewrite Ef. apply (I_fgood _ H).
  - intros i. rewrite Ecnt. apply (I_u1 _ H).
  - intros e He. rewrite Ecnt. apply (I_u2 _ H e He).
  - intros i Hi. rewrite Ecnt in Hi. rewrite Ef. apply (I_u3 _ H i Hi).
  - apply (I_inj _ H).
  - apply (I_scan _ H).
  - intros n1 n2 p1 p2 Hn1 Hn2 Ha1 Ha2 Ek.
    destruct (Hnth _ _ Hn1) as [[E1 Q1]|[E1 Q1]]; destruct (Hnth _ _ Hn2) as [[E2 Q2]|[E2 Q2]]; subst; try lia.
    + exfalso. apply E2. symmetry. eapply (I_p1 _ H); eauto.
    + exfalso. apply E1. eapply (I_p1 _ H); eauto.
    + eapply (I_p1 _ H); eauto.
  - intros q Hq Ha. rewrite Ewit. destruct (Hin q Hq) as (n & Hn).
    destruct (Hnth _ _ Hn) as [[E1 Q1]|[E1 Q1]].
    + subst q. destruct (I_p2a _ H p (nth_error_In _ _ Hj) (Hnp Ha)) as (e & He & Hk & Hd).
      exists e. rewrite Ef. auto.
    + destruct (I_p2a _ H q (nth_error_In _ _ Q1) Ha) as (e & He & Hk & Hd). exists e. rewrite Ef. auto.
  - intros q Hq Ha. destruct (Hin q Hq) as (n & Hn).
    destruct (Hnth _ _ Hn) as [[E1 Q1]|[E1 Q1]].
    + subst q. simpl. rewrite Hfs2.
      * apply (I_p2b _ H p (nth_error_In _ _ Hj) (Hnp Ha)).
      * intros E. subst np. unfold qalive in Ha. simpl in Ha. rewrite E in Ha. discriminate.
    + rewrite Hkeep; [apply (I_p2b _ H q (nth_error_In _ _ Q1) Ha)|].
      intros Hap. simpl. intros E. apply E1. eapply (I_p1 _ H); eauto.
  - intros k Hk. destruct (I_r _ H k Hk) as [Hno Hne]. split; [|exact Hne].
    intros q Hq Ha. destruct (Hin q Hq) as (n & Hn). destruct (Hnth _ _ Hn) as [[E1 Q1]|[E1 Q1]].
    + subst q. simpl. apply (Hno p (nth_error_In _ _ Hj) (Hnp Ha)).
    + apply (Hno q (nth_error_In _ _ Q1) Ha).
  - intros k Hk. rewrite Hprepkeep; [apply (I_rb _ H k Hk)|].
    destruct (fpc s); simpl in *; try discriminate; exact Hk.
  - pose proof (I_l _ H) as HL. eapply Lpc_ext; [exact Ef|].
    assert (Hhas : forall k, fs_has (fsy s) (k, EOut) = true -> fs_has (fsy s') (k, EOut) = true).
    { intros k Hh. apply fs_has_true in Hh. destruct Hh as (l & Hl). apply fs_has_true. exists l. now apply Hstab. }
    destruct (fpc s) eqn:Epcs; simpl in *; auto;
      try (unfold fs_has in *;
           match goal with |- context [fs_get (fsy s') (?k0, _)] => rewrite (Hprepkeep k0 _ eq_refl) end; exact HL);
      try (destruct HL as [HL1 HL2]; split; auto).
  - intros q Hq. destruct (Hin q Hq) as (n & Hn). destruct (Hnth _ _ Hn) as [[E1 Q1]|[E1 Q1]].
    + subst q. apply Hdep. apply complete_stab. exact Hstab.
    + eapply dep_ok_mono; [|apply (I_d _ H q (nth_error_In _ _ Q1))]. apply complete_stab. exact Hstab.
Qed.

(* ---------- initial state ---------- *)
Definition subm_wf (prog : list op) : Prop :=
  NoDup (submits prog) /\ forall i, In i (submits prog) -> 1 <= i.

Lemma wf_prog_subm_wf : forall n prog, wf_prog n prog -> subm_wf prog.
Proof. intros n prog (H1 & H2 & _). split; [exact H1|]. intros i Hi. apply H2 in Hi. lia. Qed.

Lemma nth_repeat_same : forall {A} (x : A) n j, nth j (repeat x n) x = x.
Proof. intros A x n. induction n as [|n IH]; intros [|j]; simpl; auto. Qed.

Lemma finv_init : forall n prog fs0, nocancel prog = true -> subm_wf prog -> FInv (finit n prog fs0).
Proof.
  intros n prog fs0 Hn [Hnd Hpos].
  assert (Hc : forall i, cnt (finit n prog fs0) i = occ i (submits prog)).
  { intros i. unfold cnt, cntb, hcnt, finit, q0. simpl. lia. }
  assert (Hf : forall i, fut (finit n prog fs0) i = FPending).
  { intros i. unfold fut, getf, finit. simpl. apply nth_repeat_same. }
  constructor; simpl; auto.
  - intros i. now rewrite Hf.
  - intros i. rewrite Hc. now apply occ_NoDup.
  - intros e [].
  - intros i Hi. rewrite Hc in Hi. rewrite Hf. split; [reflexivity|]. apply Hpos. now apply occ_In.
  - intros e1 e2 [].
  - intros e [].
  - intros n1 n2 p1 p2 H1. destruct n1; discriminate H1.
  - intros p [].
  - intros p [].
  - intros k Hk. discriminate.
  - intros p [].
Qed.

(* ---------- client steps ---------- *)
Lemma finv_client : forall s x' l, FInv s -> xm_step dummy_xcfg (fx s) = Some (x', l) -> FInv (set_fx s x').
Proof.
  intros s x' l H Hst.
  destruct (client_step _ _ _ _ (I_nc _ H) (I_main _ H) Hst) as (H1 & H2 & H3 & H4).
  apply finv_master1 with (s := s); fld; auto.
  - intros i. unfold cnt, fbase. fld. specialize (H4 i). lia.
  - apply (I_scan _ H).
  - apply (I_l _ H).
Qed.

(* ---------- kills ---------- *)
Lemma upd_oob : forall {A} (l : list A) n x, length l <= n -> upd l n x = l.
Proof. induction l as [|a l IH]; intros [|n] x H; simpl in *; try reflexivity; try lia. f_equal. apply IH. lia. Qed.

Lemma finv_kill : forall s n, FInv s -> FInv (kill_proc s n).
Proof.
  intros s n H. unfold kill_proc. destruct (nth_error (fps s) (n - 1)) as [p|] eqn:Hp.
  - assert (Eg : fgetp s n = p) by (unfold fgetp; now apply nth_error_nth).
    rewrite Eg. eapply finv_proc with (s := s) (j := n - 1) (p := p) (pc' := QExit); eauto;
      unfold fsetp; fld; auto.
    intros _. exact I.
  - apply nth_error_None in Hp. unfold fsetp. rewrite upd_oob by exact Hp.
    destruct s; exact H.
Qed.

(* ---------- process steps ---------- *)
Ltac in_cases H :=
  repeat match type of H with
         | context [if ?x then _ else _] => destruct x eqn:?
         | context [match ?x with _ => _ end] => destruct x eqn:?
         end.

Ltac fs_other :=
  repeat (first [rewrite fs_get_set_other | rewrite fs_get_del_other];
          [|solve [congruence | discriminate | (let E := fresh "E" in intros E; subst; simpl in *; congruence)]]);
  try reflexivity.

Lemma q_step_spec : forall c s n s' l, q_step c s n = Some (s', l) ->
  exists p pc', nth_error (fps s) (n - 1) = Some p /\ qalive p = true /\
    fx s' = fx s /\ fpc s' = fpc s /\ mem s' = mem s /\
    fps s' = upd (fps s) (n - 1) (mkFP (qkey p) (qwaits p) pc') /\
    (forall pa, fst pa <> qkey p -> fs_get (fsy s') pa = fs_get (fsy s) pa) /\
    (pc' <> QExit -> fs_get (fsy s') (qkey p, EOut) = fs_get (fsy s) (qkey p, EOut)) /\
    (dep_ok (fsy s) p -> (forall w, complete (fsy s) w -> complete (fsy s') w) ->
     dep_ok (fsy s') (mkFP (qkey p) (qwaits p) pc')).
Proof.
  intros c s n s' l Hst. unfold q_step in Hst.
  destruct (nth_error (fps s) (n - 1)) as [p|] eqn:Hp; [|discriminate].
  destruct (Nat.eqb n 0); [discriminate|]. exists p.
  destruct p as [k w pc]. cbn [qkey qwaits qpc] in *.
  destruct pc; step_cases Hst; in_cases Hst; inversion Hst; subst; clear Hst; unfold q_to, fsetp; fld;
    (eexists; split; [reflexivity|]; split; [reflexivity|]; split; [reflexivity|]; split; [reflexivity|];
     split; [reflexivity|]; split; [reflexivity|]); cbn [qkey qwaits qpc];
    (split; [intros pa Hpa; fs_other|]); (split; [intros Hne; try congruence; fs_other|]);
    unfold dep_ok; cbn [qkey qwaits qpc]; intros Hd Hmono; try exact I;
    try (unfold after_fn, after_args; repeat match goal with |- context [has_ds ?d ?l] => destruct (has_ds d l) end; exact I).
  - (* QCloseIn true, no dependencies *) constructor.
  - (* QCloseIn true, dependencies *) exists []. split; [reflexivity|constructor].
  - (* QDepOpen, complete *)
    destruct Hd as (dn & E & HF). exists dn. repeat split; auto. simpl.
    match goal with H1 : fs_get _ _ = Some ?l, H2 : has_ds DOut ?l = true |- _ => exists l; auto end.
  - (* QDepOpen, incomplete *)
    destruct Hd as (dn & E & HF). exists dn. repeat split; auto. intros Hx. discriminate.
  - (* QDepRead *)
    destruct Hd as (dn & E & HF & Hc). exists dn. repeat split; auto.
  - (* QDepClose true, last *)
    destruct Hd as (dn & E & HF & Hc). rewrite E. apply Forall_app. split; [exact HF|].
    constructor; [apply Hc; reflexivity|constructor].
  - (* QDepClose true, more *)
    destruct Hd as (dn & E & HF & Hc).
    match type of E with _ = _ ++ ?d0 :: _ => exists (dn ++ [d0]) end.
    split; [rewrite E, <- app_assoc; reflexivity|]. apply Forall_app. split; [exact HF|].
    constructor; [apply Hc; reflexivity|constructor].
  - (* QDepClose false *)
    destruct Hd as (dn & E & HF & Hc). exists dn. split; auto.
Qed.

Lemma finv_qstep : forall c s n s' l, FInv s -> q_step c s n = Some (s', l) -> FInv s'.
Proof.
  intros c s n s' l H Hst.
  destruct (q_step_spec _ _ _ _ _ Hst) as (p & pc' & Hp & Ha & Efx & Epc & Emem & Efps & Hfs1 & Hfs2 & Hdep).
  eapply finv_proc with (s := s) (j := n - 1) (p := p) (pc' := pc'); eauto.
  - intros Hx. rewrite Ha in Hx. discriminate.
  - intros Hm. apply Hdep; auto. apply (I_d _ H p). eapply nth_error_In; eauto.
Qed.

(* ---------- loop-thread steps ---------- *)
Lemma cntb_qtd : forall b i, cntb (qtd b 0) i = cntb b i.
Proof. intros b i. unfold cntb. now rewrite q0_qtd. Qed.

Lemma cntb_qpop_shut : forall b w l i, q0 b = Shut w :: l -> cntb (qpop b 0) i = cntb b i.
Proof. intros b w l i H. unfold cntb. rewrite q0_qpop, H. reflexivity. Qed.

Lemma cntb_qpop_task : forall b i0 l i, q0 b = Task i0 :: l ->
  cntb (qpop b 0) i + (if Nat.eqb i i0 then 1 else 0) = cntb b i.
Proof. intros b i0 l i H. unfold cntb. rewrite q0_qpop, H. simpl. change (ops (qpop b 0)) with (ops b). lia. Qed.

Lemma cntb_setfuts : forall b x i, cntb (set_futs b x) i = cntb b i.
Proof. reflexivity. Qed.

Lemma scan_next_cases : forall s todo kept,
  (todo = [] /\ scan_next s todo kept = set_fpc (set_mem s kept) GGet)
  \/ (todo <> [] /\ scan_next s todo kept = set_fpc s (GScan todo kept)).
Proof. intros s [|e t] kept; [left|right]; split; try reflexivity. discriminate. Qed.
Lemma finv_scan_next : forall s todo kept,
  FInv s ->
  incl (todo ++ kept) (wit s) ->
  (forall e, In e (wit s) -> fdone (fut s (snd e)) = false -> In e (todo ++ kept)) ->
  FInv (scan_next s todo kept).
Proof.
  intros s todo kept H Hinc Hkeep.
  destruct (scan_next_cases s todo kept) as [[Et E]|[Et E]]; rewrite E.
  - subst todo. simpl in *. eapply finv_scan_end with (s := s) (kept := kept); eauto.
  - apply finv_master1 with (s := s); fld; auto.
    + apply (I_nc _ H).
    + apply (I_main _ H).
    + intros i. unfold cnt, fbase. fld. unfold hcnt at 1. simpl. lia.
    + simpl. eapply incl_tran; [exact Hinc|now apply wit_incl].
    + intros k Hk. discriminate.
    + intros k Hk. discriminate.
    + exact I.
Qed.

Lemma scan_next_set_fpc : forall s p todo kept, scan_next (set_fpc s p) todo kept = scan_next s todo kept.
Proof. intros s p [|e t] kept; reflexivity. Qed.

Ltac side Hpc :=
  unfold wit, witp; fld; rewrite ?Hpc; simpl;
  try solve [ reflexivity | assumption | exact I | apply incl_nil_l | (split; assumption) | (split; [reflexivity|assumption])
            | (let k := fresh in let Hk := fresh in intros k Hk; discriminate Hk)
            | (let k := fresh in let Hk := fresh in intros k Hk; left; exact Hk)
            | (let e := fresh in let He := fresh in intros e He; exact He)
            | (let e := fresh in let He := fresh in let Hd := fresh in intros e He Hd; exact He) ].

Ltac cnt_side Hpc :=
  match goal with
  | |- forall j, cnt _ j <= cnt _ j =>
      let i := fresh "i" in
      intros i; unfold cnt, fbase; fld; rewrite ?Hpc; rewrite ?cntb_qtd; unfold hcnt; simpl; try lia
  end.

Lemma finv_conv : forall c s s1 i todo pat waits,
  FInv s -> scanning (fpc s) = false ->
  fps s1 = fps s -> mem s1 = mem s -> fsy s1 = fsy s -> futs (fbase s1) = futs (fbase s) ->
  nocancel (ops (fbase s1)) = true -> main_ok (main (fbase s1)) ->
  (forall j, cntb (fbase s1) j + (if Nat.eqb j i then 1 else 0) <= cnt s j) ->
  FInv (conv c s1 i todo pat waits).
Proof.
  intros c s s1 i todo pat waits H Hsc Efps Emem Efsy Efut Hnc Hmn Hcnt.
  destruct (conv_spec c s1 i todo pat waits) as (pc' & E & Hc). rewrite E.
  assert (Hw : wit s = mem s) by (unfold wit, witp; now rewrite Hsc).
  apply finv_master1 with (s := s); fld; auto.
  - intros j. specialize (Hcnt j). unfold cnt at 1. unfold fbase in *. fld.
    destruct Hc as [Hc|[(pat' & w' & Hc & _)|(d & rest & pat' & w' & Hc)]]; subst pc'; unfold hcnt; simpl; lia.
  - rewrite Efsy. auto.
  - destruct Hc as [Hc|[(pat' & w' & Hc & _)|(d & rest & pat' & w' & Hc)]]; subst pc'; simpl; apply incl_nil_l.
  - intros e He _. rewrite Hw in He. unfold wit, witp. fld. rewrite Emem.
    destruct Hc as [Hc|[(pat' & w' & Hc & _)|(d & rest & pat' & w' & Hc)]]; subst pc'; simpl; exact He.
  - intros k Hk. right.
    destruct Hc as [Hc|[(pat' & w' & Hc & Ha)|(d & rest & pat' & w' & Hc)]]; subst pc'; simpl in Hk; try discriminate.
    inversion Hk; subst k; clear Hk. rewrite Emem in Ha. pose proof (assoc_key_none _ _ Ha) as Hno. split; [|exact Hno].
    intros p Hp Hal Ek. destruct (I_p2a _ H p Hp Hal) as (e & He & Hke & _). rewrite Hw in He.
    apply (Hno e He). congruence.
  - intros k Hk.
    destruct Hc as [Hc|[(pat' & w' & Hc & _)|(d & rest & pat' & w' & Hc)]]; subst pc'; simpl in Hk; discriminate.
  - destruct Hc as [Hc|[(pat' & w' & Hc & _)|(d & rest & pat' & w' & Hc)]]; subst pc'; simpl; exact I.
Qed.

Lemma finv_fstep : forall c s s' l, FInv s -> f_step c s = Some (s', l) -> FInv s'.
Proof.
  intros c s s' l H Hst. unfold f_step in Hst.
  pose proof (I_l _ H) as HL. pose proof (I_nc _ H) as Hnc. pose proof (I_main _ H) as Hmn.
  pose proof (I_scan _ H) as Hscan.
  destruct (fpc s) as [ | |i d rest pat waits|i k waits|i k waits|i k waits|i k waits|i k waits d|ok i k waits
                       |i k waits|i k waits todo kept|i k waits| |todo kept|k f todo kept|k f todo kept
                       |k f todo kept|flag k f todo kept|k f todo kept|todo|p todo| | | | ] eqn:Hpc; simpl in HL.
  - (* GNone *)
    destruct (disp (fx s)); try discriminate. inversion Hst; subst; clear Hst.
    apply finv_master1 with (s := s); fld; auto; try solve [side Hpc]. cnt_side Hpc.
  - (* GGet *)
    destruct (qitems (getq (fbase s) 0)) as [|it l0] eqn:Eq.
    + inversion Hst; subst; clear Hst. apply finv_scan_next; auto; unfold wit, witp; rewrite Hpc; simpl;
        rewrite app_nil_r; [apply incl_refl|intros e He _; exact He].
    + destruct it as [i|w]; inversion Hst; subst; clear Hst.
      * apply finv_conv with (s := s); fld; auto; [now rewrite Hpc|].
        intros j. unfold cnt, fbase. fld. rewrite Hpc. unfold hcnt. simpl.
        pose proof (cntb_qpop_task (base (fx s)) i l0 j Eq). lia.
      * apply finv_master1 with (s := s); fld; auto; try solve [side Hpc; destruct (map snd (procd s)); side Hpc].
        intros j. unfold cnt, fbase. fld. rewrite Hpc.
        rewrite (cntb_qpop_shut (base (fx s)) w l0 j Eq). unfold hcnt.
        destruct (map snd (procd s)); simpl; lia.
  - (* GConvRes *)
    pose proof (I_fgood _ H d) as Hg. unfold fut in Hg.
    destruct (getf (fbase s) d) eqn:Ef; try discriminate; inversion Hst; subst; clear Hst.
    apply finv_conv with (s := s); auto; [now rewrite Hpc|].
    intros j. unfold cnt. rewrite Hpc. unfold hcnt. simpl. lia.
  - (* GListdir *)
    destruct (I_r _ H k) as [Hno Hne]; [rewrite Hpc; reflexivity|].
    destruct (fs_has (fsy s) (k, EOut)) eqn:Eh; inversion Hst; subst; clear Hst.
    + rewrite (assoc_set_fresh _ _ _ Hne).
      apply finv_add with (s := s) (i := i) (k := k) (newp := []); fld; auto; try solve [side Hpc].
      * now rewrite app_nil_r.
      * intros p [].
    + apply finv_master1 with (s := s); fld; auto; try solve [side Hpc]. cnt_side Hpc.
      rewrite Hpc. simpl. intros k0 Hk0. right. inversion Hk0; subst. now apply fs_has_false.
  - (* GExistsIn *)
    inversion Hst; subst; clear Hst.
    destruct (fs_has (fsy s) (k, EIn)) eqn:Eh;
      apply finv_master1 with (s := s); fld; auto; try solve [side Hpc]; try cnt_side Hpc.
    simpl. now apply fs_has_false.
  - (* GRemove *)
    rewrite HL in Hst. inversion Hst; subst; clear Hst.
    apply finv_master1 with (s := s); fld; auto; try solve [side Hpc]; try cnt_side Hpc.
    + intros k0. apply fs_get_del_other. discriminate.
    + simpl. apply fs_get_del_same.
  - (* GOpenIn *)
    assert (Eh : fs_has (fsy s) (k, EIn) = false) by now apply fs_has_false.
    rewrite Eh in Hst. inversion Hst; subst; clear Hst.
    apply finv_master1 with (s := s); fld; auto; try solve [side Hpc]; try cnt_side Hpc.
    + intros k0. apply fs_get_set_other. discriminate.
    + simpl. apply fs_get_set_same.
  - (* GDs *)
    rewrite HL in Hst.
    destruct d; simpl in Hst; inversion Hst; subst; clear Hst;
      (apply finv_master1 with (s := s); fld; auto; try solve [side Hpc]; try cnt_side Hpc;
       [intros k0; apply fs_get_set_other; discriminate|simpl; rewrite ?fs_get_set_same; auto]).
    + split; [reflexivity|]. apply fs_has_true. eexists. apply fs_get_set_same.
    + split; [reflexivity|]. apply fs_has_true. eexists. apply fs_get_set_same.
  - (* GCloseIn *)
    destruct HL as [Eok Eh]. subst ok. inversion Hst; subst; clear Hst.
    apply finv_master1 with (s := s); fld; auto; try solve [side Hpc]; try cnt_side Hpc.
  - (* GCheck *)
    rewrite HL in Hst. inversion Hst; subst; clear Hst. unfold after_check.
    destruct (flat_map _ waits);
      apply finv_master1 with (s := s); fld; auto; try solve [side Hpc]; try cnt_side Hpc.
  - (* GPoll *)
    step_cases Hst; inversion Hst; subst; clear Hst; goal_cases;
      apply finv_master1 with (s := s); fld; auto; try solve [side Hpc]; try cnt_side Hpc.
  - (* GSpawn *)
    destruct (I_r _ H k) as [Hno Hne]; [rewrite Hpc; reflexivity|].
    inversion Hst; subst; clear Hst. rewrite (assoc_set_fresh _ _ _ Hne).
    apply finv_add with (s := s) (i := i) (k := k) (newp := [mkFP k waits QBegin]); fld; auto; try solve [side Hpc].
    intros p [Hp|[]]. subst p. rewrite Hpc. simpl. auto.
  - (* GTd *)
    inversion Hst; subst; clear Hst.
    apply finv_master1 with (s := s); fld; auto; try solve [side Hpc]; try cnt_side Hpc.
  - (* GScan *)
    destruct todo as [|[k f] rest]; [discriminate|].
    destruct (fdone (getf (fbase s) f)) eqn:Ed; inversion Hst; subst; clear Hst.
    + apply finv_scan_next; auto; unfold wit, witp; rewrite Hpc; simpl.
      * apply incl_tl, incl_refl.
      * intros e [He|He] Hd; [|exact He]. subst e. unfold fut in Hd. simpl in Hd. congruence.
    + apply finv_master1 with (s := s); fld; auto; try solve [side Hpc]; try cnt_side Hpc.
  - (* GExistsOut *)
    destruct (fs_has (fsy s) (k, EOut)) eqn:Eh; inversion Hst; subst; clear Hst.
    + apply finv_master1 with (s := s); fld; auto; try solve [side Hpc]; try cnt_side Hpc.
    + apply finv_scan_next; auto; unfold wit, witp; rewrite Hpc; simpl.
      * intros e He. ins. tauto.
      * intros e He _. ins. tauto.
  - (* GOpenOut *)
    destruct HL as [Eh Hnd].
    destruct (fs_get (fsy s) (k, EOut)) as [l1|] eqn:Eg.
    + inversion Hst; subst; clear Hst.
      destruct (has_ds DOut l1);
        apply finv_master1 with (s := s); fld; auto; try solve [side Hpc]; try cnt_side Hpc.
    + apply fs_has_true in Eh. destruct Eh as (l1 & El). congruence.
  - (* GReadOut *)
    inversion Hst; subst; clear Hst.
    apply finv_master1 with (s := s); fld; auto; try solve [side Hpc]; try cnt_side Hpc.
  - (* GCloseOut *)
    destruct flag; inversion Hst; subst; clear Hst.
    + apply finv_master1 with (s := s); fld; auto; try solve [side Hpc]; try cnt_side Hpc.
    + apply finv_scan_next; auto; unfold wit, witp; rewrite Hpc; simpl.
      * intros e He. ins. tauto.
      * intros e He _. ins. tauto.
  - (* GSetRes *)
    destruct HL as [Eh Hnd]. unfold fut in Hnd.
    assert (Hgo : forall v, FInv (scan_next (set_fbase s (set_futs (fbase s) (setf (fbase s) f (FRes v)))) todo (kept ++ [(k, f)]))).
    { intros v. rewrite <- (scan_next_set_fpc _ (GScan ((k, f) :: todo) kept)).
      apply finv_scan_next.
      - eapply finv_setres with (s := s) (v := v); eauto.
      - unfold wit, witp. fld. simpl. intros e He. ins. tauto.
      - unfold wit, witp. fld. simpl. intros e He _. ins. tauto. }
    destruct (getf (fbase s) f) eqn:Ef; try discriminate Hnd; inversion Hst; subst; clear Hst; apply Hgo.
  - (* GTerm *)
    destruct todo as [|p rest]; [discriminate|]. inversion Hst; subst; clear Hst.
    pose proof (finv_kill s p H) as Hk. destruct (kill_frame s p) as (E1 & E2 & E3 & E4 & E5).
    apply finv_master1 with (s := kill_proc s p); auto; unfold kill_proc, fsetp; fld; auto;
      try solve [side Hpc]; try cnt_side Hpc.
  - (* GTermPoll *)
    destruct (qalive (fgetp s p)); inversion Hst; subst; clear Hst; [exact H|].
    destruct todo; apply finv_master1 with (s := s); fld; auto; try solve [side Hpc]; try cnt_side Hpc.
  - (* GSTd *)
    inversion Hst; subst; clear Hst.
    apply finv_master1 with (s := s); fld; auto; try solve [side Hpc]; try cnt_side Hpc.
  - (* GSQJoin *)
    destruct (Nat.eqb (qunf (getq (fbase s) 0)) 0); inversion Hst; subst; clear Hst.
    apply finv_master1 with (s := s); fld; auto; try solve [side Hpc]; try cnt_side Hpc.
  - discriminate.
  - discriminate.
Qed.

(* ---------- the invariant holds in every reachable state ---------- *)
Lemma finv_ftrans : forall c s s', FInv s -> ftrans c s s' -> FInv s'.
Proof.
  intros c s s' H Ht. destruct Ht as [s t s' l Hst|s n].
  - destruct t as [| | |j|k]; simpl in Hst; try discriminate.
    + destruct (xm_step dummy_xcfg (fx s)) as [[x l0]|] eqn:E; [|discriminate]. inversion Hst; subst; clear Hst.
      eapply finv_client; eauto.
    + eapply finv_fstep; eauto.
    + eapply finv_qstep; eauto.
  - now apply finv_kill.
Qed.

Lemma finv_reach : forall c n prog fs0 s,
  nocancel prog = true -> subm_wf prog -> freach c (finit n prog fs0) s -> FInv s.
Proof.
  intros c n prog fs0 s Hn Hw H. remember (finit n prog fs0) as s0 eqn:E. induction H as [s|s s' s'' H1 IH H2].
  - subst s. now apply finv_init.
  - eapply finv_ftrans; eauto.
Qed.
(* ================================================================== *)
(* From the invariant to the statements of Model/FileSpec.v            *)
(* ================================================================== *)
Lemma In_alive_keys : forall s k,
  In k (alive_keys s) <-> exists p, In p (fps s) /\ qalive p = true /\ qkey p = k.
Proof.
  intros s k. unfold alive_keys. rewrite in_flat_map. split.
  - intros (p & Hp & Hk). exists p. destruct (qalive p); simpl in Hk; [|contradiction].
    destruct Hk as [Hk|[]]. auto.
  - intros (p & Hp & Ha & Hk). exists p. split; [exact Hp|]. rewrite Ha. now left.
Qed.

Lemma existsb_false : forall {A} (f : A -> bool) l, (forall x, In x l -> f x = false) -> existsb f l = false.
Proof.
  intros A f l H. destruct (existsb f l) eqn:E; [|reflexivity].
  apply existsb_exists in E. destruct E as (x & Hx & Hf). rewrite (H x Hx) in Hf. discriminate.
Qed.

Lemma key_nodup_alive : forall l : list fproc,
  (forall n1 n2 p1 p2, nth_error l n1 = Some p1 -> nth_error l n2 = Some p2 ->
     qalive p1 = true -> qalive p2 = true -> qkey p1 = qkey p2 -> n1 = n2) ->
  key_nodup (flat_map (fun p => if qalive p then [qkey p] else []) l) = true.
Proof.
  induction l as [|a l IH]; intros H; simpl; [reflexivity|].
  assert (Ht : key_nodup (flat_map (fun p => if qalive p then [qkey p] else []) l) = true).
  { apply IH. intros n1 n2 p1 p2 H1 H2 A1 A2 E. specialize (H (S n1) (S n2) p1 p2 H1 H2 A1 A2 E). lia. }
  destruct (qalive a) eqn:Ea; simpl; [|exact Ht]. rewrite Ht, andb_true_r. apply negb_true_iff.
  apply existsb_false. intros k Hk. apply key_eqb_neq. intros E. subst k.
  apply in_flat_map in Hk. destruct Hk as (p & Hp & Hk). destruct (qalive p) eqn:Ep; simpl in Hk; [|contradiction].
  destruct Hk as [Hk|[]]. apply In_nth_error in Hp. destruct Hp as (n & Hn).
  specialize (H 0 (S n) a p eq_refl Hn Ea Ep (eq_sym Hk)). discriminate.
Qed.

Lemma preparing_prepL : forall p k, preparing p = Some k -> prepL p = Some k.
Proof. intros p k H. destruct p; simpl in *; try discriminate; exact H. Qed.

Lemma finv_procs_ok : forall s, FInv s -> procs_ok s = true.
Proof.
  intros s H. unfold procs_ok. apply andb_true_iff. split.
  - apply key_nodup_alive. apply (I_p1 _ H).
  - apply forallb_forall. intros k Hk. apply In_alive_keys in Hk. destruct Hk as (p & Hp & Ha & Hk). subst k.
    apply andb_true_iff. split.
    + destruct (I_p2a _ H p Hp Ha) as (e & He & Hke & Hd). apply existsb_exists. exists e. split.
      * now apply (wit_incl _ H).
      * apply andb_true_iff. split; [apply key_eqb_eq; now symmetry|]. unfold fut in Hd. now rewrite Hd.
    + apply negb_true_iff. apply fs_has_false. apply (I_p2b _ H p Hp Ha).
Qed.

Lemma finv_prep_ok : forall s, FInv s -> prep_ok s = true.
Proof.
  intros s H. unfold prep_ok. destruct (preparing (fpc s)) as [k|] eqn:Ek; [|reflexivity].
  destruct (I_r _ H k (preparing_prepL _ _ Ek)) as [Hno Hne]. pose proof (I_rb _ H k Ek) as Hb.
  repeat (apply andb_true_iff; split); apply negb_true_iff.
  - apply existsb_false. intros k' Hk'. apply key_eqb_neq. intros E. subst k'.
    apply In_alive_keys in Hk'. destruct Hk' as (p & Hp & Ha & Hk). now apply (Hno p Hp Ha).
  - now apply fs_has_false.
  - apply existsb_false. intros e He. apply key_eqb_neq. intros E. apply (Hne e He). now symmetry.
Qed.

Lemma finv_loop_alive : forall s, FInv s -> loop_alive s = true.
Proof.
  intros s H. unfold loop_alive. pose proof (I_l _ H) as HL. destruct (fpc s); try reflexivity. contradiction.
Qed.

Theorem file_inv_gen : forall c n prog fs0 s,
  nocancel prog = true -> subm_wf prog -> freach c (finit n prog fs0) s ->
  procs_ok s = true /\ prep_ok s = true /\ loop_alive s = true.
Proof.
  intros c n prog fs0 s Hn Hw Hr. pose proof (finv_reach _ _ _ _ _ Hn Hw Hr) as H.
  repeat split; [now apply finv_procs_ok|now apply finv_prep_ok|now apply finv_loop_alive].
Qed.

(* (2) *)
Theorem file_inv : forall c n prog fs0 s,
  nocancel prog = true -> wf_prog n prog -> freach c (finit n prog fs0) s ->
  procs_ok s = true /\ prep_ok s = true /\ loop_alive s = true.
Proof. intros c n prog fs0 s Hn Hw. apply file_inv_gen; [exact Hn|eapply wf_prog_subm_wf; eauto]. Qed.

(* ---------- result files are never touched again ---------- *)
Lemma fsy_conv : forall c s i todo pat waits, fsy (conv c s i todo pat waits) = fsy s.
Proof. intros c s i todo pat waits. destruct (conv_spec c s i todo pat waits) as (pc' & E & _). now rewrite E. Qed.

Lemma fsy_scan_next : forall s todo kept, fsy (scan_next s todo kept) = fsy s.
Proof. intros s [|e t] kept; reflexivity. Qed.

Lemma f_step_fs_out : forall c s s' l, f_step c s = Some (s', l) ->
  forall k, fs_get (fsy s') (k, EOut) = fs_get (fsy s) (k, EOut).
Proof.
  intros c s s' l Hst k0. unfold f_step in Hst.
  destruct (fpc s) eqn:Hpc; step_cases Hst; in_cases Hst; inversion Hst; subst; clear Hst;
    unfold after_check, kill_proc, fsetp; goal_cases; rewrite ?fsy_conv, ?fsy_scan_next; fld; try reflexivity;
    fs_other.
Qed.

Lemma out_stable : forall c s s', FInv s -> ftrans c s s' ->
  forall k l, fs_get (fsy s) (k, EOut) = Some l -> fs_get (fsy s') (k, EOut) = Some l.
Proof.
  intros c s s' H Ht k l Hl. destruct Ht as [s t s' l0 Hst|s n].
  - destruct t as [| | |j|m]; simpl in Hst; try discriminate.
    + destruct (xm_step dummy_xcfg (fx s)) as [[x l1]|]; [|discriminate]. inversion Hst; subst; clear Hst. exact Hl.
    + rewrite (f_step_fs_out _ _ _ _ Hst). exact Hl.
    + destruct (q_step_spec _ _ _ _ _ Hst) as (p & pc' & Hp & Ha & _ & _ & _ & _ & Hfs1 & _ & _).
      destruct (key_eq_dec k (qkey p)) as [E|E].
      * subst k. rewrite (I_p2b _ H p (nth_error_In _ _ Hp) Ha) in Hl. discriminate.
      * rewrite Hfs1; [exact Hl|exact E].
  - destruct (kill_frame s n) as (_ & _ & _ & _ & E). rewrite E. exact Hl.
Qed.

(* a directory lists every path once *)
Definition fs_wf (fs : fsys) : Prop := NoDup (map fst fs).
Definition fs_uniq (fs : fsys) : Prop := forall p l, In (p, l) fs -> fs_get fs p = Some l.

Lemma fs_wf_uniq : forall fs, fs_wf fs -> fs_uniq fs.
Proof.
  induction fs as [|[q c] fs IH]; intros Hw p l Hin; [contradiction|].
  unfold fs_wf in Hw. simpl in Hw. inversion Hw as [|x y Hn Hd]; subst. simpl. destruct Hin as [Hin|Hin].
  - inversion Hin; subst. now rewrite path_eqb_refl.
  - rewrite path_eqb_neq; [now apply IH|]. intros E. subst q. apply Hn. apply in_map_iff. exists (p, l). auto.
Qed.

Lemma In_fs_del : forall fs p q l, In (q, l) (fs_del fs p) -> In (q, l) fs /\ q <> p.
Proof.
  induction fs as [|[r c] fs IH]; intros p q l H; simpl in *; [contradiction|].
  destruct (path_eqb p r) eqn:E.
  - destruct (IH _ _ _ H) as [H1 H2]. auto.
  - destruct H as [H|H].
    + inversion H; subst. split; [now left|]. intros E2. subst q. rewrite path_eqb_refl in E. discriminate.
    + destruct (IH _ _ _ H) as [H1 H2]. auto.
Qed.

Lemma uniq_del : forall fs p, fs_uniq fs -> fs_uniq (fs_del fs p).
Proof.
  intros fs p H q l Hin. apply In_fs_del in Hin. destruct Hin as [Hin Hne].
  rewrite fs_get_del_other by exact Hne. now apply H.
Qed.

Lemma uniq_set : forall fs p c, fs_uniq fs -> fs_uniq (fs_set fs p c).
Proof.
  intros fs p c H q l Hin. unfold fs_set in Hin. apply in_app_iff in Hin. destruct Hin as [Hin|[Hin|[]]].
  - apply In_fs_del in Hin. destruct Hin as [Hin Hne]. rewrite fs_get_set_other by exact Hne. now apply H.
  - inversion Hin; subst. apply fs_get_set_same.
Qed.

Lemma uniq_f_step : forall c s s' l, fs_uniq (fsy s) -> f_step c s = Some (s', l) -> fs_uniq (fsy s').
Proof.
  intros c s s' l H Hst. unfold f_step in Hst.
  destruct (fpc s) eqn:Hpc; step_cases Hst; in_cases Hst; inversion Hst; subst; clear Hst;
    unfold after_check, kill_proc, fsetp; goal_cases; rewrite ?fsy_conv, ?fsy_scan_next; fld;
    repeat (first [apply uniq_set | apply uniq_del]); exact H.
Qed.

Lemma uniq_q_step : forall c s n s' l, fs_uniq (fsy s) -> q_step c s n = Some (s', l) -> fs_uniq (fsy s').
Proof.
  intros c s n s' l H Hst. unfold q_step in Hst.
  step_cases Hst; in_cases Hst; inversion Hst; subst; clear Hst; unfold q_to, fsetp; fld;
    repeat (first [apply uniq_set | apply uniq_del]); exact H.
Qed.

Lemma uniq_ftrans : forall c s s', fs_uniq (fsy s) -> ftrans c s s' -> fs_uniq (fsy s').
Proof.
  intros c s s' H Ht. destruct Ht as [s t s' l0 Hst|s n].
  - destruct t as [| | |j|m]; simpl in Hst; try discriminate.
    + destruct (xm_step dummy_xcfg (fx s)) as [[x l1]|]; [|discriminate]. inversion Hst; subst; clear Hst. exact H.
    + eapply uniq_f_step; eauto.
    + eapply uniq_q_step; eauto.
  - destruct (kill_frame s n) as (_ & _ & _ & _ & E). now rewrite E.
Qed.

Lemma uniq_reach : forall c s0 s, fs_uniq (fsy s0) -> freach c s0 s -> fs_uniq (fsy s).
Proof.
  intros c s0 s H Hr. induction Hr as [s|s s' s'' H1 IH H2]; [exact H|]. eapply uniq_ftrans; [apply IH; exact H|exact H2].
Qed.

Lemma outs_kept_stable : forall fs fs', fs_uniq fs ->
  (forall k l, fs_get fs (k, EOut) = Some l -> fs_get fs' (k, EOut) = Some l) ->
  outs_kept fs fs' = true.
Proof.
  intros fs fs' Hu Hs. unfold outs_kept. apply forallb_forall. intros [[k x] cts] Hin. simpl.
  destruct x; try reflexivity. destruct (has_ds DOut cts) eqn:Ed; [|reflexivity].
  rewrite (Hs k cts (Hu _ _ Hin)). apply andb_true_iff. split; [|apply Nat.eqb_refl].
  apply forallb_forall. intros d Hd. now apply has_ds_In.
Qed.

Theorem outs_never_altered_gen : forall c n prog fs0 s s',
  nocancel prog = true -> subm_wf prog -> fs_wf fs0 ->
  freach c (finit n prog fs0) s -> ftrans c s s' -> outs_kept (fsy s) (fsy s') = true.
Proof.
  intros c n prog fs0 s s' Hn Hw Hfs Hr Ht. apply outs_kept_stable.
  - eapply uniq_reach; [|exact Hr]. simpl. now apply fs_wf_uniq.
  - eapply out_stable; [|exact Ht]. eapply finv_reach; eauto.
Qed.

(* (3) *)
Theorem outs_never_altered : forall c n prog fs0 s s',
  nocancel prog = true -> wf_prog n prog -> fs_wf fs0 ->
  freach c (finit n prog fs0) s -> ftrans c s s' -> outs_kept (fsy s) (fsy s') = true.
Proof.
  intros c n prog fs0 s s' Hn Hw. apply outs_never_altered_gen; [exact Hn|eapply wf_prog_subm_wf; eauto].
Qed.

(* ---------- a call's function starts only when its inputs are complete ---------- *)
Lemma q_step_body : forall c s n s' k, q_step c s n = Some (s', FL (LBody k)) ->
  exists p, nth_error (fps s) (n - 1) = Some p /\ qpc p = QBody.
Proof.
  intros c s n s' k Hst. unfold q_step in Hst.
  destruct (nth_error (fps s) (n - 1)) as [p|] eqn:Hp; [|discriminate]. exists p. split; [reflexivity|].
  step_cases Hst; inversion Hst; subst; reflexivity.
Qed.

Theorem body_after_inputs_gen : forall c n prog fs0 s s' k m,
  nocancel prog = true -> subm_wf prog -> freach c (finit n prog fs0) s ->
  fstep c s (TP m) = Some (s', FL (LBody k)) ->
  forall w, In w (qwaits (fgetp s m)) -> exists l, fs_get (fsy s) (w, EOut) = Some l /\ has_ds DOut l = true.
Proof.
  intros c n prog fs0 s s' k m Hn Hw Hr Hst w Hin. pose proof (finv_reach _ _ _ _ _ Hn Hw Hr) as H.
  simpl in Hst. destruct (q_step_body _ _ _ _ _ Hst) as (p & Hp & Hq).
  assert (Eg : fgetp s m = p) by (unfold fgetp; now apply nth_error_nth). rewrite Eg in Hin.
  pose proof (I_d _ H p (nth_error_In _ _ Hp)) as Hd. unfold dep_ok in Hd. rewrite Hq in Hd.
  rewrite Forall_forall in Hd. apply (Hd w Hin).
Qed.

(* (4) *)
Theorem body_after_inputs : forall c n prog fs0 s s' k m,
  nocancel prog = true -> wf_prog n prog -> freach c (finit n prog fs0) s ->
  fstep c s (TP m) = Some (s', FL (LBody k)) ->
  forall w, In w (qwaits (fgetp s m)) -> exists l, fs_get (fsy s) (w, EOut) = Some l /\ has_ds DOut l = true.
Proof.
  intros c n prog fs0 s s' k m Hn Hw. apply body_after_inputs_gen; [exact Hn|eapply wf_prog_subm_wf; eauto].
Qed.

Corollary body_inputs_inv : forall c n prog fs0 s,
  nocancel prog = true -> wf_prog n prog -> freach c (finit n prog fs0) s -> body_inputs_ok s = true.
Proof.
  intros c n prog fs0 s Hn Hw Hr.
  pose proof (finv_reach _ _ _ _ _ Hn (wf_prog_subm_wf _ _ Hw) Hr) as H.
  unfold body_inputs_ok. apply forallb_forall. intros p Hp. pose proof (I_d _ H p Hp) as Hd. unfold dep_ok in Hd.
  destruct (qpc p); try reflexivity. apply forallb_forall. intros w Hw'. rewrite Forall_forall in Hd.
  destruct (Hd w Hw') as (l & El & Hl). now rewrite El.
Qed.
(* ================================================================== *)
(* The added hypotheses are necessary: counterexamples                 *)
(* ================================================================== *)
Fixpoint frun (c : fcfg) (l : list tid) (s : fstateX) : option fstateX :=
  match l with
  | [] => Some s
  | t :: r => match fstep c s t with Some (s', _) => frun c r s' | None => None end
  end.

Lemma freach_front : forall c s s1 s', ftrans c s s1 -> freach c s1 s' -> freach c s s'.
Proof.
  intros c s s1 s' Ht Hr. induction Hr as [s1|s1 s2 s3 H1 IH H2].
  - eapply fr_step; [apply fr_refl|exact Ht].
  - eapply fr_step; [apply IH; exact Ht|exact H2].
Qed.

Lemma frun_reach : forall c l s s', frun c l s = Some s' -> freach c s s'.
Proof.
  intros c l. induction l as [|t r IH]; intros s s' H; simpl in H.
  - inversion H; subst. apply fr_refl.
  - destruct (fstep c s t) as [[s1 l1]|] eqn:E; [|discriminate].
    eapply freach_front; [eapply ft_step; exact E|apply IH; exact H].
Qed.

Lemma frun_one : forall c t s,
  frun c [t] s = match fstep c s t with Some (s', _) => Some s' | None => None end.
Proof. intros c t s. simpl. destruct (fstep c s t) as [[s1 l1]|]; reflexivity. Qed.

Definition rp (n : nat) (t : tid) : list tid := repeat t n.
Definition run_or (c : fcfg) (l : list tid) (s : fstateX) : fstateX :=
  match frun c l s with Some s' => s' | None => s end.

(* call 2 takes the future of call 1 as argument *)
Definition ce_cfg : fcfg := mkFC (fun i => match i with 2 => [1] | _ => [] end) (fun i => i).

(* (a) the same call id submitted twice: the second conversion of call 2 happens after future 1
   has left memory_dict, so it gets another key; future 2 is then registered under two keys, and
   completing it through the first leaves the process of the second registered with a done future *)
Definition ce_a_prog : list op := [OSubmit 1; OSubmit 2; OSubmit 2].
Definition ce_a_sched : list tid :=
  rp 3 TM ++ rp 13 TD ++ rp 12 (TP 1) ++ [TM] ++ rp 25 TD ++ [TM] ++ rp 12 TD ++ rp 15 (TP 2) ++ rp 7 TD.
Definition ce_a_state : fstateX := run_or ce_cfg ce_a_sched (finit 2 ce_a_prog []).

Example file_inv_needs_distinct_submits :
  nocancel ce_a_prog = true /\ ~ wf_prog 2 ce_a_prog /\
  freach ce_cfg (finit 2 ce_a_prog []) ce_a_state /\ procs_ok ce_a_state = false.
Proof.
  split; [reflexivity|]. split; [|split].
  - intros (Hnd & _). simpl in Hnd. inversion Hnd as [|x l Hn Hd]; subst. inversion Hd as [|y l' Hn' _]; subst.
    apply Hn'. now left.
  - apply frun_reach with (l := ce_a_sched). vm_compute. reflexivity.
  - vm_compute. reflexivity.
Qed.

(* (b) call ids 0 and 1 denote the same future (getf/setf use i - 1) *)
Definition ce_b_cfg : fcfg := mkFC (fun _ => []) (fun i => i).
Definition ce_b_prog : list op := [OSubmit 0; OSubmit 1].
Definition ce_b_sched : list tid := rp 4 TM ++ rp 23 TD ++ rp 12 (TP 1) ++ rp 7 TD.
Definition ce_b_state : fstateX := run_or ce_b_cfg ce_b_sched (finit 2 ce_b_prog []).

Example file_inv_needs_positive_ids :
  nocancel ce_b_prog = true /\ NoDup (submits ce_b_prog) /\
  freach ce_b_cfg (finit 2 ce_b_prog []) ce_b_state /\ procs_ok ce_b_state = false.
Proof.
  split; [reflexivity|]. split; [|split].
  - simpl. constructor; [intros [H|[]]; discriminate|]. constructor; [intros []|constructor].
  - apply frun_reach with (l := ce_b_sched). vm_compute. reflexivity.
  - vm_compute. reflexivity.
Qed.

(* (c) a directory listing with the same path twice: outs_kept compares a shadowed entry *)
Definition ce_c_fs : fsys := [(((1, []), EOut), []); (((1, []), EOut), [DOut])].

Example outs_needs_fs_wf :
  nocancel [] = true /\ wf_prog 0 [] /\ ~ fs_wf ce_c_fs /\
  ftrans ce_b_cfg (finit 0 [] ce_c_fs) (kill_proc (finit 0 [] ce_c_fs) 0) /\
  outs_kept (fsy (finit 0 [] ce_c_fs)) (fsy (kill_proc (finit 0 [] ce_c_fs) 0)) = false.
Proof.
  split; [reflexivity|]. split; [|split; [|split]].
  - split; [constructor|]. split; [intros i []|intros []].
  - intros H. unfold fs_wf in H. simpl in H. inversion H as [|x l Hn _]; subst. apply Hn. now left.
  - apply ft_kill.
  - vm_compute. reflexivity.
Qed.

(* (d) with a third submit of call 2 two processes run on one key, and the slower one replaces
   a completed result file by a different one (the directory is empty at the start) *)
Definition ce_d_prog : list op := [OSubmit 1; OSubmit 2; OSubmit 2; OSubmit 2].
Definition ce_d_sched : list tid :=
  ce_a_sched ++ rp 3 TD ++ rp 8 (TP 3) ++ [TM] ++ rp 12 TD ++ rp 12 (TP 4) ++ rp 3 (TP 3).
Definition ce_d_state : fstateX := run_or ce_cfg ce_d_sched (finit 2 ce_d_prog []).
Definition ce_d_state' : fstateX := run_or ce_cfg [TP 3] ce_d_state.

Example outs_needs_distinct_submits :
  nocancel ce_d_prog = true /\ fs_wf [] /\
  freach ce_cfg (finit 2 ce_d_prog []) ce_d_state /\ ftrans ce_cfg ce_d_state ce_d_state' /\
  fs_get (fsy ce_d_state) ((2, [None]), EOut) = Some [DFn; DArgs; DKw; DOut] /\
  fs_get (fsy ce_d_state') ((2, [None]), EOut) = Some [DOut] /\
  outs_kept (fsy ce_d_state) (fsy ce_d_state') = false.
Proof.
  split; [reflexivity|]. split; [constructor|]. split; [|split; [|split; [|split]]].
  - apply frun_reach with (l := ce_d_sched). vm_compute. reflexivity.
  - destruct (fstep ce_cfg ce_d_state (TP 3)) as [[s1 l1]|] eqn:E.
    + replace ce_d_state' with s1; [eapply ft_step; exact E|].
      unfold ce_d_state', run_or. rewrite frun_one, E. reflexivity.
    + vm_compute in E. discriminate.
  - vm_compute. reflexivity.
  - vm_compute. reflexivity.
  - vm_compute. reflexivity.
Qed.

(* ================================================================== *)
Print Assumptions no_rerun.
Print Assumptions mem_key_inv.
Print Assumptions setres_own_value.
Print Assumptions file_inv_gen.
Print Assumptions file_inv.
Print Assumptions outs_never_altered_gen.
Print Assumptions outs_never_altered.
Print Assumptions body_after_inputs_gen.
Print Assumptions body_after_inputs.
Print Assumptions body_inputs_inv.
Print Assumptions file_inv_needs_distinct_submits.
Print Assumptions file_inv_needs_positive_ids.
Print Assumptions outs_needs_fs_wf.
Print Assumptions outs_needs_distinct_submits.
