(* C15: init_function presets fill only what the caller left open — proofs over the
   regenerated call_funct / _update_dict_delta (Gen.Backend). *)
From Coq Require Import ZArith String Ascii List Bool Lia.
From EL Require Import Base.Dec Base.PyLib Base.Tac Proofs.DictFacts Gen.Backend.
Import ListNotations.
Local Open Scope string_scope.
Local Open Scope list_scope.

Definition has_key (x : string) (l : sal) : bool :=
  match assoc x l with Some _ => true | None => false end.

(* the preset entries that apply: declared among [open] (the parameters not bound
   positionally) and not passed by keyword *)
Definition applicable (open : list string) (kw mem : sal) : sal :=
  List.filter (fun p => List.existsb (String.eqb (fst p)) open && negb (has_key (fst p) kw)) mem.

Lemma items_iter l :
  (t2 <- py_items (sdict l) ;; py_iter t2) = Ok (List.map (fun p => VTuple [VStr (fst p); snd p]) l).
Proof.
  unfold py_items, sdict, kvs. cbn. f_equal. rewrite List.map_map. reflexivity.
Qed.

Lemma list_mem_keys x kw : list_mem (VStr x) (List.map fst (kvs kw)) = has_key x kw.
Proof.
  unfold has_key. induction kw as [|[k v] t IH]; simpl; [reflexivity|].
  destruct (String.eqb x k); simpl; [reflexivity|exact IH].
Qed.

Lemma update_dict_delta_s mem kw open :
  NoDup (keys mem) ->
  _update_dict_delta (sdict mem) (sdict kw) (strs open) = Ok (sdict (applicable open kw mem)).
Proof.
  intros ND. unfold _update_dict_delta.
  change (t2 <- py_items (sdict mem) ;; ?k t2) with (t2 <- py_items (sdict mem) ;; k t2).
  unfold py_items at 1. unfold sdict at 1. cbn [bind]. unfold py_iter. cbn [bind].
  set (items := List.map (fun kv : pyval * pyval => VTuple [fst kv; snd kv]) (kvs mem)).
  set (pred := fun p : string * pyval => List.existsb (String.eqb (fst p)) open && negb (has_key (fst p) kw)).
  rewrite (filterM_pure _ (fun t => match t with
                                    | VTuple [VStr k; _] => List.existsb (String.eqb k) open && negb (has_key k kw)
                                    | _ => false end)).
  2:{ intros a Ha. unfold items in Ha. apply in_map_iff in Ha. destruct Ha as [[k0 v0] [<- Hin]].
      unfold kvs in Hin. apply in_map_iff in Hin. destruct Hin as [[k v] [E _]]. inversion E; subst.
      cbn -[list_mem]. unfold strs. rewrite list_mem_strs.
      destruct (List.existsb (String.eqb k) open); cbn -[list_mem]; [|reflexivity].
      unfold sdict. cbn -[list_mem]. rewrite list_mem_keys. destruct (has_key k kw); reflexivity. }
  cbn [bind].
  assert (F : List.filter (fun t => match t with
                                    | VTuple [VStr k; _] => List.existsb (String.eqb k) open && negb (has_key k kw)
                                    | _ => false end) items
              = List.map (fun p => VTuple [VStr (fst p); snd p]) (applicable open kw mem)).
  { unfold items, applicable, kvs. clear. induction mem as [|[k v] t IH]; simpl; [reflexivity|].
    destruct (List.existsb (String.eqb k) open && negb (has_key k kw)); simpl; rewrite IH; reflexivity. }
  rewrite F.
  rewrite (mapM_pure _ (fun t => match t with VTuple [k; v] => (k, v) | _ => (VNone, VNone) end)).
  2:{ intros a Ha. apply in_map_iff in Ha. destruct Ha as [[k v] [<- _]]. reflexivity. }
  cbn [bind]. rewrite List.map_map. cbn [fst snd].
  change (List.map (fun x : string * pyval => (VStr (fst x), snd x)) (applicable open kw mem))
    with (kvs (applicable open kw mem)).
  rewrite py_mkdict_kvs; [reflexivity|]. apply keys_filter_nodup. exact ND.
Qed.

Definition mkargs (tup : bool) (pos : list pyval) : pyval := if tup then VTuple pos else VList pos.

Definition request (fn : pyval) (tup : bool) (pos : list pyval) (kw : sal) : pyval :=
  sdict [("fn", fn); ("args", mkargs tup pos); ("kwargs", sdict kw)].

Definition kw_eff (names : list string) (pos : list pyval) (kw mem : sal) : sal :=
  aupdate kw (applicable (List.skipn (List.length pos) names) kw mem).

Lemma slice_from_strs names n :
  py_slice_from (strs names) (VInt (Z.of_nat n)) = Ok (strs (List.skipn n names)).
Proof.
  unfold py_slice_from, strs. cbn [as_int].
  destruct (Z.ltb_spec (Z.of_nat n) 0) as [H|H]; [lia|].
  rewrite Nat2Z.id, List.skipn_map. reflexivity.
Qed.

Lemma call_funct_with_memory names fn tup pos kw mem funct :
  NoDup (keys mem) ->
  call_funct (strs names) (request fn tup pos kw) funct (sdict mem)
  = Ok (fn, mkargs tup pos, sdict (kw_eff names pos kw mem)).
Proof.
  intros ND. unfold call_funct, request, kw_eff.
  cbn -[_update_dict_delta py_dict_update sdict strs List.skipn Z.of_nat].
  replace (VDict (kvs [("fn", fn); ("args", mkargs tup pos); ("kwargs", sdict kw)]))
    with (sdict [("fn", fn); ("args", mkargs tup pos); ("kwargs", sdict kw)]) by reflexivity.
  assert (L : (t6 <- py_getitem (sdict [("fn", fn); ("args", mkargs tup pos); ("kwargs", sdict kw)]) (VStr "args") ;; py_len t6)
              = Ok (VInt (Z.of_nat (List.length pos)))).
  { destruct tup; reflexivity. }
  rewrite L. cbn [bind]. rewrite slice_from_strs. cbn [bind].
  rewrite !py_getitem_s. cbn [assoc]. ground_eqb. cbn [bind].
  rewrite update_dict_delta_s by exact ND. cbn [bind].
  rewrite py_dict_update_s. cbn [bind].
  rewrite py_setitem_s. cbn [bind aset]. ground_eqb. cbv iota.
  change (negb (is_none (sdict mem))) with true. cbv iota. cbn [bind].
  rewrite !py_getitem_s. cbn [assoc]. ground_eqb. reflexivity.
Qed.

Lemma call_funct_without_memory names fn tup pos kw funct :
  call_funct (strs names) (request fn tup pos kw) funct VNone = Ok (fn, mkargs tup pos, sdict kw).
Proof. destruct tup; reflexivity. Qed.

(* what the callee finally sees under a name: the caller's keyword wins; otherwise the
   preset, but only for a declared parameter that is not bound positionally; else nothing *)
Lemma kw_eff_lookup names pos kw mem x :
  NoDup (keys mem) ->
  assoc x (kw_eff names pos kw mem)
  = match assoc x kw with
    | Some v => Some v
    | None => if List.existsb (String.eqb x) (List.skipn (List.length pos) names) then assoc x mem else None
    end.
Proof.
  intros ND. unfold kw_eff, applicable. rewrite assoc_aupdate by (apply keys_filter_nodup; exact ND).
  rewrite (assoc_filter_key (fun k => List.existsb (String.eqb k) (List.skipn (List.length pos) names) && negb (has_key k kw))).
  unfold has_key. destruct (assoc x kw) as [v|] eqn:E.
  - rewrite Bool.andb_false_r. reflexivity.
  - rewrite Bool.andb_true_r.
    destruct (List.existsb (String.eqb x) (List.skipn (List.length pos) names)); [|reflexivity].
    destruct (assoc x mem); reflexivity.
Qed.
