(* Corollaries of Proofs/CacheLive.v in the form used by Props/C02, C05, C12. *)
From Coq Require Import List Bool Arith.
From EL Require Import Model.Exec Model.ExecInv Model.StepExec Model.FileExec Model.FileSpec Model.CacheExec Model.CacheLiveSpec Proofs.CacheLive.
Import ListNotations.

Theorem cache_rest : forall c n prog fs0 s,
  nofail (cbase c) -> 1 <= nworkers (cbase c) -> wf_prog n prog -> nocancel prog = true ->
  canon_inj_on c prog ->
  creach_nk c (cinit n prog fs0) s ->
  cenabled c s = [] ->
  main (cb s) = MEnd
  /\ (forall i, In i (subm (cb s)) -> fdone (getf (cb s) i) = true)
  /\ (forall p, In p (ps (cb s)) -> palive p = false)
  /\ (forall w, In w (ws (cb s)) -> wdone w = true).
Proof.
  intros c n prog fs0 s H1 H2 H3 H4 H5 H6 Hst.
  pose proof (cache_rest_state c n prog fs0 s H1 H2 H3 H4 H5 H6) as R.
  unfold crest_ok_b in R. rewrite Hst in R. unfold crest_goal in R.
  apply andb_true_iff in R. destruct R as [R Rw].
  apply andb_true_iff in R. destruct R as [R Rp].
  apply andb_true_iff in R. destruct R as [Rm Rf].
  split; [destruct (main (cb s)); try discriminate; reflexivity|].
  split; [intros i Hi; exact (proj1 (forallb_forall _ _) Rf i Hi)|].
  split.
  - intros p Hp. pose proof (proj1 (forallb_forall _ _) Rp p Hp) as E. cbv beta in E. destruct (palive p); [simpl in E; discriminate E|reflexivity].
  - intros w Hw. exact (proj1 (forallb_forall _ _) Rw w Hw).
Qed.
