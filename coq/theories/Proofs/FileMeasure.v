(* Progress measure for the file-executor model (Model/FileExec.v) in kill-free runs: every step of every
   thread or process decreases a natural-number measure, except a step of the loop thread inside a
   fruitless polling pass (Model/FileMeasureSpec.v: f_polling); and a fruitlessly polling loop thread is
   never alone unless everything taken from the queue is done.

   fmu = Phi (T) + client rank + cost of the calls still to be submitted + cost of the queue items
         + sum of the process ranks + rank of the loop thread's program counter, where
   - T = V + 4 * (calls not yet registered: to be submitted, queued, held by the loop thread); V values every
     memory_dict entry: 4 fruitless, 3 result file complete, 2 future done; during a scan the entries still to
     be visited are valued as they will be AFTER the visit (4 kept fruitless, 2 set done, 1 dropped), so that
     the progress of a pass is booked at its first step (GGet with an empty queue -> GScan: V drops iff some
     entry is not fruitless, i.e. iff the step is not polling) and the return to GGet at the end of the pass is
     free.  T never increases (registration: V + 4, pending - 1; process steps only complete files).
     Phi t = 3 t^2 + 5 t pays for the length of the new pass (6 |mem| + 1 <= 6 T' + 1).
   - the rank of GPoll is pos = 2 (|L| + 1) * (#running producers in L) + (position of the last exited producer
     in L = todo ++ kept, 0 if none): rotating a running head to the back or dropping an exited head decreases
     it as soon as some producer has exited (= not polling); a producer that exits only lowers it.
   - every queued / unsubmitted call i carries callcost c i, quadratic in its number of Future arguments (bound
     on the whole iteration GConvRes .. GSpawn, the new process's rank included).
   Invariants added here for all kill-free reachable states (also after the loop has taken a shutdown message,
   where FileLive's JInv is no longer available): XInv (result files complete, files of running processes,
   non-empty todo lists, GTermPoll only on an exited process) and RInv (registered futures are in range, so
   that set_result really makes the future done).
   Both theorems are proved exactly as stated, with f_polling unchanged. *)
From Coq Require Import List Bool Arith Lia.
From EL Require Import Model.Exec Model.ExecInv Model.StepExec Model.FileExec Model.FileSpec Model.FileLiveSpec Model.FileMeasureSpec.
From EL Require Import Proofs.FileSafe Proofs.FileLive.
Import ListNotations.

(* ================================================================== *)
(* The measure                                                         *)
(* ================================================================== *)
Definition sumf {A} (f : A -> nat) (l : list A) : nat := fold_right (fun x a => f x + a) 0 l.

(* ---- memory_dict entries: 4 = fruitless, 3 = result file complete, 2 = future done (in the dictionary);
        "after the visit of this pass": 4 = fruitless (kept), 2 = will be set done (kept), 1 = will be dropped ---- *)
Definition ev (dn : nat -> bool) (cp : key -> bool) (e : key * nat) : nat :=
  if dn (snd e) then 2 else if cp (fst e) then 3 else 4.
Definition eva (dn : nat -> bool) (cp : key -> bool) (e : key * nat) : nat :=
  if dn (snd e) then 1 else if cp (fst e) then 2 else 4.
Definition ecv (cp : key -> bool) (k : key) : nat := if cp k then 2 else 4.

Definition Vpc (dn : nat -> bool) (cp : key -> bool) (pc : fpcT) (m : list (key * nat)) : nat :=
  match pc with
  | GScan todo kept => sumf (eva dn cp) todo + sumf (ev dn cp) kept
  | GExistsOut k f todo kept | GOpenOut k f todo kept => ecv cp k + (sumf (eva dn cp) todo + sumf (ev dn cp) kept)
  | GReadOut k f todo kept | GSetRes k f todo kept => 2 + (sumf (eva dn cp) todo + sumf (ev dn cp) kept)
  | GCloseOut flag k f todo kept => (if flag then 2 else 4) + (sumf (eva dn cp) todo + sumf (ev dn cp) kept)
  | _ => sumf (ev dn cp) m
  end.

Definition sdn (s : fstateX) : nat -> bool := fun f => fdone (getf (fbase s) f).
Definition scp (s : fstateX) : key -> bool := fun k => out_complete (fsy s) k.
Definition Vs (s : fstateX) : nat := Vpc (sdn s) (scp s) (fpc s) (mem s).

(* calls not yet registered: to be submitted, in the queue, held by the loop thread *)
Definition hld (p : fpcT) : nat := match held p with Some _ => 1 | None => 0 end.
Definition pend (s : fstateX) : nat :=
  length (submits (ops (fbase s))) + length (tasks (q0 (fbase s))) + hld (fpc s).
Definition Ts (s : fstateX) : nat := Vs s + 4 * pend s.
Definition Phi (t : nat) : nat := 3 * t * t + 5 * t.

(* ---- the client ---- *)
Definition Wc : nat := 40.
Definition mrank (m : mpc) : nat :=
  match m with
  | MBegin => Wc + 14 | MStart _ => Wc + 13 | MOp => 12
  | MPutShut _ k => 3 + 2 * k | MJoin _ => 2 | MQJoin => 1
  | _ => 0
  end.
Definition crank (b : state) : nat := length (ops b) * Wc + mrank (main b).

(* ---- processes ---- *)
Definition prank (p : fproc) : nat :=
  let w := 3 * length (qwaits p) in
  match qpc p with
  | QExit => 0 | QRen2 => 1 | QCloseR _ => 2 | QDsOut => 3 | QOpenR => 4 | QRen1 => 5 | QBody => 6
  | QDepOpen todo => 3 * length todo + 6
  | QDepRead todo => 3 * length todo + 5
  | QDepClose flag todo => 3 * length todo + (if flag then 4 else 7)
  | QCloseIn _ => w + 8
  | QReadIn d => w + (match d with DFn => 11 | DArgs => 10 | _ => 9 end)
  | QOpenIn => w + 12
  | QBegin => w + 13
  end.

(* ---- the loop thread ---- *)
(* polling the producers: number of running ones, and the position of the last exited one *)
Fixpoint ld (al : nat -> bool) (L : list nat) : nat :=
  match L with
  | [] => 0
  | p :: r => match ld al r with 0 => if al p then 0 else 1 | S x => S (S x) end
  end.
Definition cnta (al : nat -> bool) (L : list nat) : nat := length (filter al L).
Definition pos (al : nat -> bool) (L : list nat) : nat := 2 * (length L + 1) * cnta al L + ld al L.

Definition PB (w : nat) : nat := 2 * (w + 1) * w + w.
Definition Rsp (w : nat) : nat := 3 * w + 20.
Definition RC (w : nat) : nat := PB w + Rsp w + 2.
Definition callcost (c : fcfg) (i : nat) : nat := RC (length (fdeps c i)) + 11 + length (fdeps c i).

Definition rpc (al : nat -> bool) (p : fpcT) : nat :=
  match p with
  | GNone => 1 | GGet => 0 | GTd => 1
  | GConvRes i d rest pat waits => RC (length waits + length rest) + 10 + length rest
  | GListdir _ _ w => RC (length w) + 8
  | GExistsIn _ _ w => RC (length w) + 7
  | GRemove _ _ w => RC (length w) + 6
  | GOpenIn _ _ w => RC (length w) + 5
  | GDs _ _ w d => RC (length w) + (match d with DFn => 4 | DArgs => 3 | _ => 2 end)
  | GCloseIn _ _ _ w => RC (length w) + 1
  | GCheck _ _ w => RC (length w)
  | GPoll _ _ w todo kept => pos al (todo ++ kept) + Rsp (length w) + 1
  | GSpawn _ _ w => Rsp (length w)
  | GScan todo _ => 6 * length todo + 1
  | GExistsOut _ _ todo _ => 6 * length todo + 6
  | GOpenOut _ _ todo _ => 6 * length todo + 5
  | GReadOut _ _ todo _ => 6 * length todo + 4
  | GCloseOut _ _ _ todo _ => 6 * length todo + 3
  | GSetRes _ _ todo _ => 6 * length todo + 2
  | GTerm l => 2 * length l + 3
  | GTermPoll _ l => 2 * length l + 4
  | GSTd => 2 | GSQJoin => 1
  | GDone | GDead => 0
  end.
Definition sal (s : fstateX) : nat -> bool := fun p => qalive (fgetp s p).
Definition lrank (s : fstateX) : nat :=
  (if tph (fpc s) then 0 else 2 * length (procd s) + 4) + rpc (sal s) (fpc s).

Definition icost (c : fcfg) (it : item) : nat := match it with Task i => callcost c i | Shut _ => 1 end.

Definition fmu (c : fcfg) (n : nat) (prog : list op) (s : fstateX) : nat :=
  Phi (Ts s)
  + crank (fbase s)
  + sumf (callcost c) (submits (ops (fbase s)))
  + sumf (icost c) (q0 (fbase s))
  + sumf prank (fps s)
  + lrank s.


(* ================================================================== *)
(* Additional invariants of kill-free runs (also after the loop thread has taken a shutdown message) *)
(* ================================================================== *)
Definition pne (p : fproc) : Prop :=
  match qpc p with QDepOpen [] | QDepRead [] | QDepClose _ [] => False | _ => True end.
Definition lne (pc : fpcT) : Prop :=
  match pc with GScan [] _ | GPoll _ _ _ [] _ => False | _ => True end.
Definition tpok (s : fstateX) : Prop :=
  match fpc s with GTermPoll p _ => qalive (fgetp s p) = false | _ => True end.

Record XInv (s : fstateX) : Prop := mkXI {
  X_out : forall k l, fs_get (fsy s) (k, EOut) = Some l -> has_ds DOut l = true;
  X_proc : forall p, In p (fps s) -> Forall (complete (fsy s)) (qwaits p) /\ Qf (fsy s) p /\ pne p;
  X_tp : tpok s;
  X_ne : lne (fpc s)
}.

Lemma fps_conv : forall c s i todo pat waits, fps (conv c s i todo pat waits) = fps s.
Proof. intros. destruct (conv_spec c s i todo pat waits) as (pc' & E & _). now rewrite E. Qed.
Lemma fps_scan_next : forall s todo kept, fps (scan_next s todo kept) = fps s.
Proof. intros s [|e t] kept; reflexivity. Qed.

Ltac list_cases :=
  repeat match goal with
         | |- context [match ?x with _ => _ end] => match type of x with list _ => destruct x eqn:? end
         | |- context [if ?x then _ else _] => destruct x eqn:?
         end.

Ltac conv_tac :=
  match goal with
  | |- context [conv ?c ?s ?i ?t ?p ?w] =>
      let pc' := fresh "pc'" in let E := fresh "E" in let Hc := fresh "Hc" in
      destruct (conv_spec c s i t p w) as (pc' & E & Hc); rewrite ?E;
      destruct Hc as [Hc|[(?&?&Hc&_)|(?&?&?&?&Hc)]]; subst pc'
  end.

(* what a loop-thread step does to the list of processes *)
Lemma f_step_fps : forall c s s' l, f_step c s = Some (s', l) ->
  fps s' = fps s \/ (exists n, fps s' = fps (kill_proc s n))
  \/ (fpc s' = GTd /\ exists k w, fps s' = fps s ++ [mkFP k w QBegin]).
Proof.
  intros c s s' l Hst. unfold f_step in Hst.
  destruct (fpc s) eqn:Hpc; step_cases Hst; in_cases Hst; inversion Hst; subst; clear Hst;
    unfold after_check; goal_cases; rewrite ?fps_conv, ?fps_scan_next; fld;
    try (left; reflexivity).
  - right. right. split; [reflexivity|]. eexists. eexists. reflexivity.
  - right. left. eexists. reflexivity.
Qed.

Lemma fgetp_kill : forall s n, qalive (fgetp (kill_proc s n) n) = false.
Proof.
  intros s n. unfold kill_proc, fsetp, fgetp. fld.
  destruct (Nat.lt_ge_cases (n - 1) (length (fps s))) as [Hlt|Hge].
  - rewrite (nth_error_nth _ _ _ (nth_error_upd_same _ _ _ Hlt)). reflexivity.
  - rewrite upd_oob by exact Hge. rewrite nth_overflow by exact Hge. reflexivity.
Qed.

(* local facts about the loop thread's program counter *)
Lemma f_step_pcs : forall c s s' l, f_step c s = Some (s', l) -> tpok s -> lne (fpc s') /\ tpok s'.
Proof.
  intros c s s' l Hst Htp. unfold f_step in Hst. unfold tpok in *.
  destruct (fpc s) eqn:Hpc; step_cases Hst; in_cases Hst; inversion Hst; subst; clear Hst;
    unfold after_check, scan_next; list_cases; try conv_tac; fld; simpl;
    try (split; exact I); try (split; [exact I|]); try congruence.
  apply fgetp_kill.
Qed.

Lemma q_step_pne : forall c s n s' l, q_step c s n = Some (s', l) ->
  (forall p, In p (fps s) -> pne p) -> forall p, In p (fps s') -> pne p.
Proof.
  intros c s n s' l Hst Hall. unfold q_step in Hst.
  destruct (nth_error (fps s) (n - 1)) as [p|] eqn:Hp; [|discriminate].
  destruct (Nat.eqb n 0); [discriminate|].
  destruct p as [k w pc]. cbn [qkey qwaits qpc] in *.
  destruct pc; step_cases Hst; in_cases Hst; inversion Hst; subst; clear Hst; unfold q_to, fsetp; fld;
    intros p' Hin; apply In_upd in Hin; (destruct Hin as [Hin|Hin]; [|now apply Hall]); subst p';
    unfold pne, after_fn, after_args; cbn [qkey qwaits qpc];
    repeat match goal with |- context [if ?x then _ else _] => destruct x end; goal_cases; try exact I; try discriminate.
Qed.

Lemma xinv_init : forall n prog fs0, fs_outs_complete fs0 = true -> XInv (finit n prog fs0).
Proof.
  intros n prog fs0 Hfs. constructor; simpl.
  - intros k l Hl. apply fs_get_In in Hl. unfold fs_outs_complete in Hfs.
    rewrite forallb_forall in Hfs. apply (Hfs _ Hl).
  - intros p [].
  - exact I.
  - exact I.
Qed.

Lemma xinv_client : forall s x', XInv s -> XInv (set_fx s x').
Proof. intros s x' [A B C D]. constructor; auto. Qed.

Lemma xinv_qstep : forall c s n s' l, FInv s -> XInv s -> q_step c s n = Some (s', l) -> XInv s'.
Proof.
  intros c s n s' l H X Hst.
  pose proof (finv_qstep _ _ _ _ _ H Hst) as H'.
  destruct (q_step_spec _ _ _ _ _ Hst) as (p & pc0 & Hp & Ha & Efx & Epc & Emem & _ & Hfs1 & _ & _).
  pose proof (nth_error_In _ _ Hp) as Hpin.
  destruct (X_proc _ X p Hpin) as (HW & HQ & HN).
  destruct (q_step_live _ _ _ _ _ _ Hst Hp HQ HW (I_d _ H p Hpin)) as (pc' & Efps & HQ' & Hex).
  assert (Hlen : n - 1 < length (fps s)) by (apply nth_error_Some; congruence).
  assert (Hal : qalive (mkFP (qkey p) (qwaits p) pc') = false -> pc' = QExit).
  { unfold qalive. simpl. destruct pc'; intros Hx; try discriminate Hx; reflexivity. }
  set (np := mkFP (qkey p) (qwaits p) pc') in *.
  assert (Hstab : forall k l0, fs_get (fsy s) (k, EOut) = Some l0 -> fs_get (fsy s') (k, EOut) = Some l0).
  { eapply out_stable; [exact H|]. apply (ft_step c s (TP n) s' l). exact Hst. }
  assert (Hcm : forall k, complete (fsy s) k -> complete (fsy s') k) by (apply complete_stab; exact Hstab).
  assert (Hnth : forall m q, nth_error (fps s') m = Some q ->
            (m = n - 1 /\ q = np) \/ (m <> n - 1 /\ nth_error (fps s) m = Some q)).
  { intros m q Hm. rewrite Efps in Hm. destruct (nth_error_upd _ _ _ _ _ Hm) as [(E1 & E2 & _)|(E1 & E2)]; auto. }
  assert (Hnp : nth_error (fps s') (n - 1) = Some np) by (rewrite Efps; now apply nth_error_upd_same).
  assert (Hoth : forall m q, m <> n - 1 -> nth_error (fps s) m = Some q -> qalive q = true ->
            forall e, fs_get (fsy s') (qkey q, e) = fs_get (fsy s) (qkey q, e)).
  { intros m q Hm Hq Hqa e. apply Hfs1. simpl. intros E. apply Hm. eapply (I_p1 _ H); eauto. }
  constructor.
  - intros k l0 Hl0. destruct (key_eq_dec k (qkey p)) as [E|E].
    + subst k. destruct (qalive np) eqn:Enp.
      * pose proof (I_p2b _ H' np (nth_error_In _ _ Hnp) Enp) as Hb. simpl in Hb. congruence.
      * destruct (Hex (Hal eq_refl)) as (l1 & E1 & Hl1). congruence.
    + rewrite Hfs1 in Hl0 by (simpl; exact E). apply (X_out _ X k l0 Hl0).
  - intros q Hq. pose proof (q_step_pne _ _ _ _ _ Hst (fun p0 Hp0 => proj2 (proj2 (X_proc _ X p0 Hp0))) q Hq) as Hpn.
    apply In_nth_error in Hq. destruct Hq as (m & Hm). destruct (Hnth _ _ Hm) as [[E1 E2]|[E1 E2]].
    + subst q. split; [|split; [exact HQ'|exact Hpn]].
      simpl. eapply complete_mono_forall; [exact Hcm|exact HW].
    + destruct (X_proc _ X q (nth_error_In _ _ E2)) as (A2 & A3 & A4). split; [|split; [|exact Hpn]].
      * eapply complete_mono_forall; eauto.
      * eapply Qf_frame; [|exact A3]. intros Hqa e. eapply Hoth; eauto.
  - pose proof (X_tp _ X) as Htp. unfold tpok in *. rewrite Epc. destruct (fpc s); auto.
    unfold fgetp in *. rewrite Efps. destruct (Nat.eq_dec (p0 - 1) (n - 1)) as [E|E].
    + rewrite E in Htp. rewrite (nth_error_nth _ _ _ Hp) in Htp. congruence.
    + rewrite nth_upd_other by exact E. exact Htp.
  - rewrite Epc. apply (X_ne _ X).
Qed.

Lemma xinv_fstep : forall c prog s s' l,
  FInv s -> XInv s -> f_step c s = Some (s', l) -> (tph (fpc s') = true \/ JInv prog s') -> XInv s'.
Proof.
  intros c prog s s' l H X Hst HJ'.
  pose proof (f_step_fs_frame _ _ _ _ Hst) as Hfr.
  destruct (f_step_pcs _ _ _ _ Hst (X_tp _ X)) as [Hne Htp].
  assert (Hout : forall k, fs_get (fsy s') (k, EOut) = fs_get (fsy s) (k, EOut)).
  { intros k. destruct (Hfr (k, EOut)) as [E|(k0 & _ & E)]; [exact E|discriminate E]. }
  assert (Hcm : forall k, complete (fsy s) k -> complete (fsy s') k) by (apply complete_ext; exact Hout).
  assert (Hold : forall p, In p (fps s) -> Forall (complete (fsy s')) (qwaits p) /\ Qf (fsy s') p /\ pne p).
  { intros p Hp. destruct (X_proc _ X p Hp) as (A1 & A2 & A3). split; [|split; [|exact A3]].
    - eapply complete_mono_forall; eauto.
    - eapply Qf_frame; [|exact A2]. intros Hpa e. destruct (Hfr (qkey p, e)) as [E|(k0 & Hk0 & E)]; [exact E|].
      exfalso. destruct (I_r _ H k0 (preparing_prepL _ _ Hk0)) as [Hno _]. apply (Hno p Hp Hpa). congruence. }
  constructor; auto.
  - intros k l0. rewrite Hout. apply (X_out _ X).
  - intros p Hp. destruct (f_step_fps _ _ _ _ Hst) as [E|[(n & E)|(Epc & k & w & E)]]; rewrite E in Hp.
    + now apply Hold.
    + unfold kill_proc, fsetp in Hp. fld. apply In_upd in Hp. destruct Hp as [Hp|Hp]; [|now apply Hold].
      subst p. cbn [qwaits]. split; [|split; exact I].
      unfold fgetp. destruct (nth_in_or_default (n - 1) (fps s) (mkFP (0, []) [] QExit)) as [Hin|Hd].
      * apply (Hold _ Hin).
      * rewrite Hd. constructor.
    + apply in_app_iff in Hp. destruct Hp as [Hp|[Hp|[]]]; [now apply Hold|]. subst p.
      destruct HJ' as [HJ'|J']; [rewrite Epc in HJ'; discriminate HJ'|].
      destruct (J_proc _ _ J' (mkFP k w QBegin)) as (_ & B1 & B2).
      { rewrite E. apply in_app_iff. right. now left. }
      split; [exact B1|split; [exact B2|exact I]].
Qed.

Definition Inv2 (c : fcfg) (prog : list op) (s : fstateX) : Prop := Inv c prog s /\ XInv s.

Lemma inv2_step : forall c prog s t s' l,
  (forall a b, fcanon c a = fcanon c b -> a = b) ->
  Inv2 c prog s -> fstep c s t = Some (s', l) -> Inv2 c prog s'.
Proof.
  intros c prog s t s' l Hinj [HI X] Hst.
  pose proof (inv_step _ _ _ _ _ _ Hinj HI Hst) as HI'. split; [exact HI'|].
  destruct HI as (H & _ & _). destruct HI' as (_ & _ & HJ').
  destruct t as [| | |j|k]; simpl in Hst; try discriminate.
  - destruct (xm_step dummy_xcfg (fx s)) as [[x l0]|] eqn:E; [|discriminate]. inversion Hst; subst; clear Hst.
    now apply xinv_client.
  - eapply xinv_fstep; eauto.
  - eapply xinv_qstep; eauto.
Qed.

Lemma inv2_reach : forall c n prog fs0 s,
  nocancel prog = true -> wf_prog n prog -> no_late_submit prog = true ->
  (forall i j, fcanon c i = fcanon c j -> i = j) -> fs_outs_complete fs0 = true ->
  freach_nk c (finit n prog fs0) s -> Inv2 c prog s.
Proof.
  intros c n prog fs0 s Hnc Hwf Hnl Hinj Hfs Hr. remember (finit n prog fs0) as s0 eqn:E.
  induction Hr as [s|s s' s'' t l Hr IH Hst].
  - subst s. split; [|now apply xinv_init].
    eapply inv_reach; eauto. apply nk_refl.
  - eapply inv2_step; eauto.
Qed.

(* ================================================================== *)
(* THEOREM 2: a fruitlessly polling loop thread is not alone           *)
(* ================================================================== *)
Lemma q_step_enabled : forall c s j p,
  nth_error (fps s) j = Some p -> qalive p = true -> pne p -> is_some (q_step c s (S j)) = true.
Proof.
  intros c s j p Hp Ha Hn. unfold q_step. simpl. rewrite Nat.sub_0_r, Hp.
  destruct p as [k w pc]. unfold qalive, pne in *. cbn [qkey qwaits qpc] in *.
  destruct pc; try discriminate Ha; goal_cases; try reflexivity; try contradiction.
Qed.

Lemma alive_enabled : forall c s j p, XInv s ->
  nth_error (fps s) j = Some p -> qalive p = true -> exists t, t <> TD /\ In t (fenabled c s).
Proof.
  intros c s j p X Hp Ha. exists (TP (S j)). split; [discriminate|].
  unfold fenabled. apply filter_In. split.
  - unfold ftids. right. right. apply in_map_iff. exists j. split; [reflexivity|].
    apply in_seq. split; [lia|]. simpl. apply nth_error_Some. congruence.
  - simpl. eapply q_step_enabled; eauto. apply (X_proc _ X p). eapply nth_error_In; eauto.
Qed.

Lemma fruitless_alive : forall prog s e, JInv prog s -> In e (mem s) -> fruitless s e = true ->
  exists j p, nth_error (fps s) j = Some p /\ qalive p = true.
Proof.
  intros prog s e J He Hf. unfold fruitless in Hf. apply andb_true_iff in Hf. destruct Hf as [_ Hf].
  apply negb_true_iff in Hf.
  destruct (J_mem _ _ J e He) as [Hc|(n & p & _ & Hn & Hk)].
  - apply complete_out in Hc. congruence.
  - destruct (qalive p) eqn:Ea; [now exists (n - 1), p|].
    destruct (J_proc _ _ J p (nth_error_In _ _ Hn)) as (Hc & _). specialize (Hc Ea). apply complete_out in Hc.
    rewrite Hk in Hc. congruence.
Qed.

Lemma fgetp_alive : forall s p, qalive (fgetp s p) = true ->
  exists q, nth_error (fps s) (p - 1) = Some q /\ qalive q = true.
Proof.
  intros s p Ha. unfold fgetp in Ha. destruct (nth_error (fps s) (p - 1)) as [q|] eqn:E.
  - exists q. split; [reflexivity|]. now rewrite (nth_error_nth _ _ _ E) in Ha.
  - apply nth_error_None in E. rewrite nth_overflow in Ha by exact E. discriminate Ha.
Qed.

Theorem file_polling_not_alone : forall c n prog fs0 s,
  nocancel prog = true -> wf_prog n prog -> no_late_submit prog = true ->
  (forall i j, fcanon c i = fcanon c j -> i = j) ->
  fs_wf fs0 -> fs_outs_complete fs0 = true ->
  freach_nk c (finit n prog fs0) s ->
  f_polling s = true ->
  (exists t, t <> TD /\ In t (fenabled c s))
  \/ (forall i, In i (submits prog) -> taken s i = true -> fdone (getf (fbase s) i) = true).
Proof.
  intros c n prog fs0 s Hnc Hwf Hnl Hinj _ Hfs Hr Hpoll.
  destruct (inv2_reach _ _ _ _ _ Hnc Hwf Hnl Hinj Hfs Hr) as [(H & _ & HJ) X].
  pose proof (X_ne _ X) as Hne. pose proof (I_scan _ H) as Hscan.
  assert (Hfr : forall e, JInv prog s -> In e (mem s) -> fruitless s e = true ->
                  exists t, t <> TD /\ In t (fenabled c s)).
  { intros e J He Hf. destruct (fruitless_alive _ _ _ J He Hf) as (j & p & Hp & Ha). eapply alive_enabled; eauto. }
  unfold f_polling in Hpoll.
  destruct (fpc s) eqn:Hpc; try discriminate Hpoll; simpl in Hne, Hscan;
    (destruct HJ as [HJ|J]; [discriminate HJ|]).
  - (* GGet *)
    apply andb_true_iff in Hpoll. destruct Hpoll as [Hq Hall].
    destruct (mem s) as [|e m] eqn:Em.
    + right. intros i Hi Htk. destruct (J_B _ _ J i Hi) as [B|[B|(e & He & _)]].
      * exfalso. unfold taken in Htk. rewrite tasksb_tasks in Htk.
        rewrite (occb_occ i (tasks (qitems (getq (fbase s) 0)))), (occb_occ i (submits (ops (fbase s)))) in Htk.
        apply Nat.eqb_eq in Htk. unfold cnt, hcnt in B. rewrite Hpc in B. cbn [held] in B. unfold cntb, q0 in B. lia.
      * exact B.
      * rewrite Em in He. destruct He.
    + left. simpl in Hall. apply andb_true_iff in Hall. apply (Hfr e J); [now left|tauto].
  - (* GPoll *)
    left. destruct todo as [|p rest]; [contradiction|]. simpl in Hpoll. apply andb_true_iff in Hpoll.
    destruct Hpoll as [Ha _]. destruct (fgetp_alive _ _ Ha) as (q & Hq & Hqa). eapply alive_enabled; eauto.
  - (* GScan *)
    left. destruct todo as [|e rest]; [contradiction|]. simpl in Hpoll. apply andb_true_iff in Hpoll.
    apply (Hfr e J); [apply Hscan; now left|tauto].
  - left. simpl in Hpoll. apply andb_true_iff in Hpoll. apply (Hfr (k, f) J); [apply Hscan; now left|tauto].
  - left. simpl in Hpoll. apply andb_true_iff in Hpoll. apply (Hfr (k, f) J); [apply Hscan; now left|tauto].
  - left. simpl in Hpoll. apply andb_true_iff in Hpoll. apply (Hfr (k, f) J); [apply Hscan; now left|tauto].
  - left. simpl in Hpoll. apply andb_true_iff in Hpoll. apply (Hfr (k, f) J); [apply Hscan; now left|tauto].
  - left. simpl in Hpoll. apply andb_true_iff in Hpoll. apply (Hfr (k, f) J); [apply Hscan; now left|tauto].
Qed.

Print Assumptions file_polling_not_alone.

(* ================================================================== *)
(* Arithmetic and list facts for the measure                           *)
(* ================================================================== *)
Lemma sumf_app : forall {A} (f : A -> nat) a b, sumf f (a ++ b) = sumf f a + sumf f b.
Proof. intros A f a b. induction a as [|x a IH]; simpl; [reflexivity|]. rewrite IH. lia. Qed.

Lemma sumf_le : forall {A} (f g : A -> nat) l, (forall x, In x l -> f x <= g x) -> sumf f l <= sumf g l.
Proof.
  intros A f g l. induction l as [|x l IH]; intros H; simpl; [lia|].
  pose proof (H x (or_introl eq_refl)). assert (sumf f l <= sumf g l) by (apply IH; intros y Hy; apply H; now right). lia.
Qed.

Lemma sumf_ge_length : forall {A} (f : A -> nat) l, (forall x, 1 <= f x) -> length l <= sumf f l.
Proof. intros A f l H. induction l as [|x l IH]; simpl; [lia|]. specialize (H x). lia. Qed.

Lemma sumf_upd : forall {A} (f : A -> nat) l j x y, nth_error l j = Some x ->
  sumf f (upd l j y) + f x = sumf f l + f y.
Proof.
  intros A f l. induction l as [|a l IH]; intros j x y H; destruct j; simpl in *; try discriminate.
  - inversion H; subst. lia.
  - specialize (IH _ _ y H). lia.
Qed.

Lemma sumf_upd_le : forall {A} (f : A -> nat) l j y, (forall x, f y <= f x) -> sumf f (upd l j y) <= sumf f l.
Proof.
  intros A f l. induction l as [|a l IH]; intros j y H; destruct j; simpl; try lia.
  - specialize (H a). lia.
  - specialize (IH j y H). lia.
Qed.

Lemma length_assoc_set : forall {A} (l : list (key * A)) k a, length (assoc_set l k a) <= S (length l).
Proof. intros A l k a. induction l as [|[q b] l IH]; simpl; [lia|]. destruct (key_eqb k q); simpl; lia. Qed.

(* ---- entry values ---- *)
Lemma ev_le4 : forall dn cp e, ev dn cp e <= 4.
Proof. intros. unfold ev. destruct (dn (snd e)), (cp (fst e)); lia. Qed.
Lemma eva_le_ev : forall dn cp e, eva dn cp e <= ev dn cp e.
Proof. intros. unfold ev, eva. destruct (dn (snd e)), (cp (fst e)); lia. Qed.
Lemma eva_ge1 : forall dn cp e, 1 <= eva dn cp e.
Proof. intros. unfold eva. destruct (dn (snd e)), (cp (fst e)); lia. Qed.

Section Mono.
  Variables dn dn' : nat -> bool.
  Variables cp cp' : key -> bool.
  Hypothesis Hdn : forall f, dn f = true -> dn' f = true.
  Hypothesis Hcp : forall k, cp k = true -> cp' k = true.

  Lemma ev_mono : forall e, ev dn' cp' e <= ev dn cp e.
  Proof.
    intros e. unfold ev. specialize (Hdn (snd e)). specialize (Hcp (fst e)).
    destruct (dn (snd e)); [rewrite Hdn by reflexivity; lia|].
    destruct (cp (fst e)); [rewrite Hcp by reflexivity; destruct (dn' (snd e)); lia|].
    destruct (dn' (snd e)), (cp' (fst e)); lia.
  Qed.
  Lemma eva_mono : forall e, eva dn' cp' e <= eva dn cp e.
  Proof.
    intros e. unfold eva. specialize (Hdn (snd e)). specialize (Hcp (fst e)).
    destruct (dn (snd e)); [rewrite Hdn by reflexivity; lia|].
    destruct (cp (fst e)); [rewrite Hcp by reflexivity; destruct (dn' (snd e)); lia|].
    destruct (dn' (snd e)), (cp' (fst e)); lia.
  Qed.
  Lemma ecv_mono : forall k, ecv cp' k <= ecv cp k.
  Proof. intros k. unfold ecv. specialize (Hcp k). destruct (cp k); [rewrite Hcp by reflexivity; lia|]. destruct (cp' k); lia. Qed.

  Lemma Vpc_mono : forall pc m, Vpc dn' cp' pc m <= Vpc dn cp pc m.
  Proof.
    intros pc m.
    assert (A : forall l, sumf (ev dn' cp') l <= sumf (ev dn cp) l) by (intros l; apply sumf_le; intros; apply ev_mono).
    assert (B : forall l, sumf (eva dn' cp') l <= sumf (eva dn cp) l) by (intros l; apply sumf_le; intros; apply eva_mono).
    destruct pc; simpl; auto;
      try (match goal with |- context [ecv _ ?k] => pose proof (ecv_mono k) end);
      repeat match goal with |- context [sumf (ev dn' cp') ?l] => pose proof (A l); pose proof (B l); clear A end;
      repeat match goal with |- context [sumf (eva dn' cp') ?l] => pose proof (B l); clear B end; try lia.
  Qed.
End Mono.

Lemma Vpc_nonscan : forall dn cp pc m, scanning pc = false -> Vpc dn cp pc m = sumf (ev dn cp) m.
Proof. intros dn cp pc m H. destruct pc; try discriminate H; reflexivity. Qed.

(* ---- polling the producers ---- *)
Lemma ld_le : forall al L, ld al L <= length L.
Proof. intros al L. induction L as [|p r IH]; simpl; [lia|]. destruct (ld al r); [destruct (al p); lia|lia]. Qed.

Lemma cnta_le : forall al L, cnta al L <= length L.
Proof. intros al L. unfold cnta. induction L as [|p r IH]; simpl; [lia|]. destruct (al p); simpl; lia. Qed.

Lemma ld_app_alive : forall al r p, al p = true -> ld al (r ++ [p]) = ld al r.
Proof. intros al r p Hp. induction r as [|q r IH]; simpl; [now rewrite Hp|]. now rewrite IH. Qed.

Lemma cnta_app : forall al a b, cnta al (a ++ b) = cnta al a + cnta al b.
Proof. intros. unfold cnta. rewrite filter_app, app_length. reflexivity. Qed.

Lemma ld_pos : forall al L, forallb al L = false -> 1 <= ld al L.
Proof.
  intros al L. induction L as [|p r IH]; simpl; intros H; [discriminate|].
  destruct (al p); simpl in H; [specialize (IH H); destruct (ld al r); lia|destruct (ld al r); lia].
Qed.

Lemma pos_le_PB : forall al L, pos al L <= PB (length L).
Proof. intros al L. unfold pos, PB. pose proof (ld_le al L). pose proof (cnta_le al L). nia. Qed.

Lemma PB_mono : forall a b, a <= b -> PB a <= PB b.
Proof. intros a b H. unfold PB. nia. Qed.

Lemma RC_mono : forall a b, a <= b -> RC a <= RC b.
Proof. intros a b H. unfold RC, Rsp. pose proof (PB_mono a b H). lia. Qed.

Lemma pos_rotate : forall al p r, al p = true -> 1 <= ld al (p :: r) -> pos al (r ++ [p]) < pos al (p :: r).
Proof.
  intros al p r Hp Hl. unfold pos. rewrite app_length, cnta_app, (ld_app_alive _ _ _ Hp).
  assert (E1 : cnta al [p] = 1) by (unfold cnta; simpl; rewrite Hp; reflexivity).
  assert (E2 : cnta al (p :: r) = S (cnta al r)) by (unfold cnta; simpl; rewrite Hp; reflexivity).
  assert (E3 : length (p :: r) = S (length r)) by reflexivity.
  assert (E5 : length [p] = 1) by reflexivity.
  assert (E4 : ld al (p :: r) = match ld al r with 0 => 0 | S x => S (S x) end) by (simpl; rewrite Hp; reflexivity).
  rewrite E1, E2, E3, E4, E5 in *. destruct (ld al r); [lia|]. nia.
Qed.

Lemma pos_drop : forall al p r, al p = false -> pos al r < pos al (p :: r).
Proof.
  intros al p r Hp. unfold pos.
  assert (E2 : cnta al (p :: r) = cnta al r) by (unfold cnta; simpl; rewrite Hp; reflexivity).
  assert (E3 : length (p :: r) = S (length r)) by reflexivity.
  assert (E4 : ld al (p :: r) = match ld al r with 0 => 1 | S x => S (S x) end) by (simpl; rewrite Hp; reflexivity).
  rewrite E2, E3, E4. destruct (ld al r); nia.
Qed.

Lemma pos_mono : forall al al' L, (forall x, al' x = true -> al x = true) -> pos al' L <= pos al L.
Proof.
  intros al al' L H.
  assert (A : cnta al' L <= cnta al L /\ (cnta al' L = cnta al L -> ld al' L = ld al L)).
  { induction L as [|p r [IH1 IH2]]; [split; reflexivity|]. unfold cnta in *. simpl. specialize (H p).
    destruct (al' p) eqn:E1; [rewrite H by reflexivity|destruct (al p) eqn:E2]; simpl.
    - split; [lia|]. intros E. rewrite IH2 by lia. reflexivity.
    - split; [lia|]. intros E. lia.
    - split; [lia|]. intros E. rewrite IH2 by lia. reflexivity. }
  destruct A as [A1 A2]. unfold pos. destruct (Nat.eq_dec (cnta al' L) (cnta al L)) as [E|E].
  - rewrite (A2 E), E. lia.
  - pose proof (ld_le al' L). nia.
Qed.

(* ---- the global potential ---- *)
Lemma Phi_mono : forall a b, a <= b -> Phi a <= Phi b.
Proof. intros a b H. unfold Phi. nia. Qed.
Lemma Phi_step : forall a b, a < b -> Phi a + 6 * a + 8 <= Phi b.
Proof. intros a b H. unfold Phi. nia. Qed.

(* ================================================================== *)
(* Futures of registered calls are in range                            *)
(* ================================================================== *)
Lemma f_step_cnt : forall c s s' l, FInv s -> f_step c s = Some (s', l) ->
  length (futs (fbase s')) = length (futs (fbase s)) /\ (forall j, cnt s' j <= cnt s j) /\
  (forall e, In e (mem s') -> In e (mem s) \/ 1 <= cnt s (snd e)).
Proof.
  intros c s s' l H Hst. pose proof (I_scan _ H) as Hscan. unfold f_step in Hst.
  destruct (fpc s) eqn:Hpc; step_cases Hst; in_cases Hst; inversion Hst; subst; clear Hst;
    unfold after_check, scan_next; list_cases; try conv_tac; fld;
    (split; [unfold setf; simpl; rewrite ?upd_length; reflexivity|]);
    (split; [intros j; unfold cnt, hcnt, fbase; fld; rewrite ?Hpc; cbn [held]; rewrite ?cntb_qtd, ?cntb_setfuts; try lia|]);
    try (intros e0 He0; left; exact He0);
    try (match goal with
         | Hq : qitems (getq (fbase s) 0) = Task ?i :: ?l0 |- _ <= _ =>
             pose proof (cntb_qpop_task (base (fx s)) i l0 j Hq); lia
         | Hq : qitems (getq (fbase s) 0) = Shut ?w :: ?l0 |- _ <= _ =>
             rewrite (cntb_qpop_shut (base (fx s)) w l0 j Hq); lia
         end);
    try (unfold kill_proc, fsetp; fld; lia);
    try (intros e0 He0; apply In_assoc_set in He0; destruct He0 as [He0|He0]; [now left|right]; subst e0;
         unfold cnt, hcnt; rewrite Hpc; simpl; rewrite Nat.eqb_refl; lia);
    try (intros e0 He0; left; apply Hscan; simpl; rewrite ?in_app_iff in *; simpl in *; tauto).
  intros e He. left. now rewrite <- Heql.
Qed.

Record RInv (n : nat) (s : fstateX) : Prop := mkRI {
  R_len : length (futs (fbase s)) = n;
  R_cnt : forall i, 1 <= cnt s i -> i <= n;
  R_mem : forall e, In e (mem s) -> snd e <= n
}.

Lemma rinv_init : forall n prog fs0, wf_prog n prog -> RInv n (finit n prog fs0).
Proof.
  intros n prog fs0 (Hnd & Hrange & Hdrop). constructor; simpl.
  - apply repeat_length.
  - intros i Hi. unfold cnt, cntb, hcnt, finit, q0 in Hi. simpl in Hi. apply Hrange. apply occ_In. lia.
  - intros e [].
Qed.

Lemma rinv_step : forall c n s t s' l, FInv s -> RInv n s -> fstep c s t = Some (s', l) -> RInv n s'.
Proof.
  intros c n s t s' l H [R1 R2 R3] Hst.
  destruct t as [| | |j|k]; simpl in Hst; try discriminate.
  - destruct (xm_step dummy_xcfg (fx s)) as [[x l0]|] eqn:E; [|discriminate]. inversion Hst; subst; clear Hst.
    destruct (client_step _ _ _ _ (I_nc _ H) (I_main _ H) E) as (_ & _ & Ef & Hc).
    constructor; fld.
    + unfold fbase in *. fld. congruence.
    + intros i Hi. apply R2. unfold cnt, fbase in *. fld. specialize (Hc i). lia.
    + exact R3.
  - destruct (f_step_cnt _ _ _ _ H Hst) as (A1 & A2 & A3). constructor.
    + congruence.
    + intros i Hi. apply R2. specialize (A2 i). lia.
    + intros e He. destruct (A3 e He) as [X|X]; [now apply R3|now apply R2].
  - destruct (q_step_frame _ _ _ _ _ Hst) as (E1 & E2 & E3 & _). constructor.
    + unfold fbase. now rewrite E1.
    + intros i Hi. apply R2. unfold cnt, fbase in *. now rewrite <- E1, <- E2.
    + rewrite E3. exact R3.
Qed.

Lemma inv3_reach : forall c n prog fs0 s,
  nocancel prog = true -> wf_prog n prog -> no_late_submit prog = true ->
  (forall i j, fcanon c i = fcanon c j -> i = j) -> fs_outs_complete fs0 = true ->
  freach_nk c (finit n prog fs0) s -> Inv2 c prog s /\ RInv n s.
Proof.
  intros c n prog fs0 s Hnc Hwf Hnl Hinj Hfs Hr. remember (finit n prog fs0) as s0 eqn:E.
  induction Hr as [s|s s' s'' t l Hr IH Hst].
  - subst s. split; [|now apply rinv_init]. eapply inv2_reach; eauto. apply nk_refl.
  - destruct (IH E) as [I2 R]. split; [eapply inv2_step; eauto|].
    destruct I2 as [(H & _) _]. eapply rinv_step; eauto.
Qed.

(* ================================================================== *)
(* Client steps                                                        *)
(* ================================================================== *)
Definition sl (l : list op) : nat := length (submits l).
Definition sc (c : fcfg) (l : list op) : nat := sumf (callcost c) (submits l).
Definition qc (c : fcfg) (b : state) : nat := sumf (icost c) (q0 b).
Definition tl_ (b : state) : nat := length (tasks (q0 b)).

Lemma suffix_le : forall c (pre l' : list op),
  sl l' <= sl (pre ++ l') /\ sc c l' <= sc c (pre ++ l') /\ length l' <= length (pre ++ l').
Proof.
  intros c pre l'. unfold sl, sc. rewrite submits_app, sumf_app, !app_length. lia.
Qed.

Lemma settle_shape : forall cl lk sub l acc l' acc' pc,
  settle cl lk sub l acc = (l', acc', pc) ->
  (exists pre, l = pre ++ l') /\ ((pc = MOp /\ l' <> []) \/ (pc = MEnd /\ l' = [])).
Proof.
  intros cl lk sub l. induction l as [|o t IH]; intros acc l' acc' pc H; simpl in H.
  - inversion H; subst. split; [now exists []|right; auto].
  - assert (Hstop : (o :: t, acc, MOp) = (l', acc', pc) ->
                    (exists pre, o :: t = pre ++ l') /\ ((pc = MOp /\ l' <> []) \/ (pc = MEnd /\ l' = []))).
    { intros E. inversion E; subst. split; [now exists []|left; split; [reflexivity|discriminate]]. }
    assert (Hgo : forall a, settle cl lk sub t a = (l', acc', pc) ->
                    (exists pre, o :: t = pre ++ l') /\ ((pc = MOp /\ l' <> []) \/ (pc = MEnd /\ l' = []))).
    { intros a E. destruct (IH _ _ _ _ E) as [(pre & Hp) Hm]. split; [exists (o :: pre); simpl; now rewrite Hp|exact Hm]. }
    destruct o; try (destruct cl; [eapply Hgo; eauto|now apply Hstop]);
      try (destruct (mem_nat i sub); [now apply Hstop|eapply Hgo; eauto]).
    destruct (cl || lk); [eapply Hgo; eauto|now apply Hstop].
Qed.

Lemma goto_measure : forall c s l x cl,
  q0 (m_goto s l x cl) = q0 s /\ sl (ops (m_goto s l x cl)) <= sl l /\ sc c (ops (m_goto s l x cl)) <= sc c l /\
  crank (m_goto s l x cl) <= length l * Wc + 12 /\ (l = [] -> crank (m_goto s l x cl) = 0).
Proof.
  intros c s l x cl. unfold m_goto.
  destruct (settle cl _ (subm s) l (outs s ++ x)) as [[l' acc'] pc] eqn:E.
  apply settle_shape in E. destruct E as [(pre & Hp) Hm]. subst l.
  destruct (suffix_le c pre l') as (A1 & A2 & A3). unfold crank. simpl.
  split; [reflexivity|]. split; [exact A1|]. split; [exact A2|]. split.
  - destruct Hm as [[E1 E2]|[E1 E2]]; subst pc; simpl; unfold Wc in *; lia.
  - intros E0. destruct pre; [|discriminate]. simpl in E0. subst l'.
    destruct Hm as [[E1 E2]|[E1 E2]]; [congruence|]. subst pc. reflexivity.
Qed.

Lemma done_measure : forall c s x cl,
  q0 (m_done s x cl) = q0 s /\ sl (ops (m_done s x cl)) <= sl (tl (ops s)) /\
  sc c (ops (m_done s x cl)) <= sc c (tl (ops s)) /\
  (ops s <> [] -> crank (m_done s x cl) + Wc <= length (ops s) * Wc + 12) /\
  (ops s = [] -> crank (m_done s x cl) = 0).
Proof.
  intros c s x cl. unfold m_done.
  destruct (goto_measure c s (tl (ops s)) x cl) as (A1 & A2 & A3 & A4 & A5).
  split; [exact A1|]. split; [exact A2|]. split; [exact A3|]. split.
  - intros Hne. destruct (ops s) as [|o r]; [congruence|]. cbn [tl length] in *. unfold Wc in *. lia.
  - intros E. apply A5. now rewrite E.
Qed.

Lemma tl_sl_sc : forall c l, sl (tl l) <= sl l /\ sc c (tl l) <= sc c l.
Proof. intros c [|o l]; simpl; [split; lia|]. destruct (suffix_le c [o] l) as (A & B & _). split; assumption. Qed.

Lemma qput_measure : forall c b it,
  qc c (qput b 0 it) <= qc c b + icost c it /\
  tl_ (qput b 0 it) <= tl_ b + (match it with Task _ => 1 | Shut _ => 0 end).
Proof.
  intros c b it. unfold qc, tl_. destruct (q0_qput b it) as [E|E]; rewrite E.
  - rewrite sumf_app, tasks_app, app_length. simpl. destruct it; simpl; lia.
  - destruct it; lia.
Qed.

Lemma xnorm_measure : forall c x,
  q0 (base (xm_norm x)) = q0 (base x) /\ sl (ops (base (xm_norm x))) <= sl (ops (base x)) /\
  sc c (ops (base (xm_norm x))) <= sc c (ops (base x)) /\ crank (base (xm_norm x)) <= crank (base x).
Proof.
  intros c x. unfold xm_norm.
  assert (Hsame : q0 (base x) = q0 (base x) /\ sl (ops (base x)) <= sl (ops (base x)) /\
                  sc c (ops (base x)) <= sc c (ops (base x)) /\ crank (base x) <= crank (base x)) by (repeat split; lia).
  destruct (main (base x)) as [|k| |w|w j|w|w k|k| |] eqn:E; try exact Hsame.
  - destruct k as [|k]; [|exact Hsame]. destruct (cur_wait (base x)); simpl.
    + repeat split; try lia. unfold crank. simpl. rewrite E. simpl. lia.
    + destruct (done_measure c (base x) (if cur_silent (base x) then [] else [XOk]) true) as (A1 & A2 & A3 & A4 & A5).
      destruct (tl_sl_sc c (ops (base x))) as [B1 B2].
      split; [exact A1|]. split; [lia|]. split; [lia|].
      unfold crank at 2. rewrite E. simpl mrank.
      destruct (ops (base x)) as [|o r] eqn:Eo; [rewrite A5 by reflexivity; lia|].
      assert (o :: r <> []) by discriminate. specialize (A4 H). unfold Wc in *. simpl length in *. lia.
  - destruct k as [|k]; [exact Hsame|]. simpl. repeat split; try lia. unfold crank. simpl. rewrite E. simpl. lia.
Qed.

Definition cm (c : fcfg) (b : state) : nat := crank b + sc c (ops b) + qc c b.
Definition pq (b : state) : nat := sl (ops b) + tl_ b.

Lemma putshut_measure : forall c s w k x,
  base x = set_main (qput s 0 (Shut w)) (MPutShut w k) ->
  pq (base (xm_norm x)) <= pq s /\ cm c (base (xm_norm x)) <= length (ops s) * Wc + 3 + 2 * k + sc c (ops s) + qc c s + 1.
Proof.
  intros c s w k x Hx. destruct (xnorm_measure c x) as (A1 & A2 & A3 & A4).
  destruct (qput_measure c s (Shut w)) as [B1 B2]. rewrite Hx in *.
  unfold pq, cm, qc, tl_ in *. rewrite A1. simpl ops in *. unfold crank in A4 at 2. simpl in A4.
  change (q0 (set_main (qput s 0 (Shut w)) (MPutShut w k))) with (q0 (qput s 0 (Shut w))).
  simpl icost in B1. unfold Wc in *. lia.
Qed.

Lemma client_measure : forall c c0 x x' l,
  nocancel (ops (base x)) = true -> main_ok (main (base x)) ->
  xm_step c0 x = Some (x', l) ->
  pq (base x') <= pq (base x) /\ cm c (base x') < cm c (base x).
Proof.
  intros c c0 x x' l Hn Hm Hst. unfold xm_step in Hst.
  destruct (main (base x)) as [|k| |w|w j|w|w k|k| |] eqn:Emain; try contradiction.
  - (* MBegin *) inversion Hst; subst; clear Hst. unfold pq, cm, crank, qc, tl_, q0, getq. simpl. rewrite Emain. simpl. unfold Wc. lia.
  - (* MStart *) inversion Hst; subst; clear Hst. simpl.
    destruct (goto_measure c (base x) (ops (base x) ++ [ODrop]) [] false) as (A1 & A2 & A3 & A4 & _).
    unfold pq, cm, qc, tl_. rewrite A1. unfold crank at 2. rewrite Emain. simpl mrank.
    unfold sl, sc in *. rewrite submits_app in A2, A3. simpl in A2, A3. rewrite app_nil_r in A2, A3.
    rewrite app_length in A4. simpl in A4. unfold Wc in *. lia.
  - (* MOp *)
    destruct (ops (base x)) as [|o rest] eqn:Eops; [discriminate|].
    assert (Hn' : nocancel rest = true /\ op_nocancel o = true).
    { simpl in Hn. apply andb_true_iff in Hn. tauto. }
    assert (Hcr : crank (base x) = S (length rest) * Wc + 12).
    { unfold crank. rewrite Emain, Eops. reflexivity. }
    destruct o as [i|i|i|w cf| |]; simpl in Hn'; try (destruct Hn' as [_ Hx]; discriminate).
    + (* submit *)
      inversion Hst; subst; clear Hst. cbn [base set_base].
      match goal with |- context [m_done ?s2 ?o ?cl] =>
        destruct (done_measure c s2 o cl) as (A1 & A2 & A3 & A4 & _); set (b' := m_done s2 o cl) in * end.
      destruct (qput_measure c (base x) (Task i)) as [B1 B2].
      cbn [ops] in A2, A3, A4. change (ops (qput (base x) 0 (Task i))) with (ops (base x)) in *.
      rewrite Eops in *. cbn [tl] in *. specialize (A4 ltac:(discriminate)).
      unfold pq, cm, qc, tl_ in *. rewrite A1.
      match goal with |- context [q0 ?s2] => change (q0 s2) with (q0 (qput (base x) 0 (Task i))) end.
      rewrite Eops. unfold sl, sc in *. simpl submits. simpl sumf. simpl length in *. simpl icost in B1. rewrite ?Hcr. unfold Wc in *. lia.
    + (* result *)
      destruct (fdone (getf (base x) i)); [|discriminate]. inversion Hst; subst; clear Hst. cbn [base set_base].
      match goal with |- context [m_done ?s2 ?o ?cl] =>
        destruct (done_measure c s2 o cl) as (A1 & A2 & A3 & A4 & _); set (b' := m_done s2 o cl) in * end.
      rewrite Eops in *. cbn [tl] in *. specialize (A4 ltac:(discriminate)).
      unfold pq, cm, qc, tl_ in *. rewrite A1, Eops. unfold sl, sc in *. simpl submits. simpl length in *. rewrite ?Hcr. unfold Wc in *. lia.
    + (* shutdown *)
      destruct cf; [destruct Hn' as [_ Hx]; discriminate|].
      inversion Hst; subst; clear Hst.
      match goal with |- context [xm_norm ?x1] => destruct (putshut_measure c (base x) w 0 x1 eq_refl) as [P1 P2] end.
      split; [exact P1|]. rewrite Eops in P2. unfold cm at 2. rewrite Hcr, Eops. simpl length in P2. unfold Wc in *. lia.
    + inversion Hst; subst; clear Hst.
      match goal with |- context [xm_norm ?x1] => destruct (putshut_measure c (base x) false 0 x1 eq_refl) as [P1 P2] end.
      split; [exact P1|]. rewrite Eops in P2. unfold cm at 2. rewrite Hcr, Eops. simpl length in P2. unfold Wc in *. lia.
    + inversion Hst; subst; clear Hst.
      match goal with |- context [xm_norm ?x1] => destruct (putshut_measure c (base x) true 0 x1 eq_refl) as [P1 P2] end.
      split; [exact P1|]. rewrite Eops in P2. unfold cm at 2. rewrite Hcr, Eops. simpl length in P2. unfold Wc in *. lia.
  - (* MPutShut *)
    destruct k as [|k']; [discriminate|]. inversion Hst; subst; clear Hst.
    match goal with |- context [xm_norm ?x1] => destruct (putshut_measure c (base x) w k' x1 eq_refl) as [P1 P2] end.
    split; [exact P1|]. unfold cm at 2. unfold crank. rewrite Emain. simpl mrank. lia.
  - (* MJoin *)
    destruct (ddone (disp x)); [|discriminate].
    assert (Hq : pq (set_main (base x) MQJoin) <= pq (base x) /\ cm c (set_main (base x) MQJoin) < cm c (base x)).
    { unfold pq, cm, crank, qc, tl_, q0, getq. simpl. rewrite Emain. simpl. split; lia. }
    assert (Hd : pq (m_done (base x) [XRaise] false) <= pq (base x) /\ cm c (m_done (base x) [XRaise] false) < cm c (base x)).
    { destruct (done_measure c (base x) [XRaise] false) as (A1 & A2 & A3 & A4 & A5).
      destruct (tl_sl_sc c (ops (base x))) as [B1 B2].
      unfold pq, cm, qc, tl_. rewrite A1. split; [lia|]. unfold crank at 2. rewrite Emain. simpl mrank.
      destruct (ops (base x)) as [|o r] eqn:Eo; [rewrite A5 by reflexivity; lia|].
      specialize (A4 ltac:(discriminate)). unfold Wc in *. simpl length in *. lia. }
    destruct (disp x); inversion Hst; subst; clear Hst; cbn [base set_base]; auto.
  - (* MQJoin *)
    destruct (Nat.eqb (qunf (getq (base x) 0)) 0); [|discriminate]. inversion Hst; subst; clear Hst. cbn [base set_base].
    match goal with |- context [m_done ?s2 ?o ?cl] =>
      destruct (done_measure c s2 o cl) as (A1 & A2 & A3 & A4 & A5); set (b' := m_done s2 o cl) in * end.
    destruct (tl_sl_sc c (ops (base x))) as [B1 B2].
    unfold pq, cm, qc, tl_. rewrite A1. split; [lia|]. unfold crank at 2. rewrite Emain. simpl mrank.
    destruct (ops (base x)) as [|o r] eqn:Eo; [rewrite A5 by reflexivity; lia|].
    specialize (A4 ltac:(discriminate)). unfold Wc in *. simpl length in *. lia.
  - discriminate.
Qed.

(* ================================================================== *)
(* Process steps                                                       *)
(* ================================================================== *)
Lemma q_step_prank : forall c s n s' l,
  (forall k l0, fs_get (fsy s) (k, EOut) = Some l0 -> has_ds DOut l0 = true) ->
  q_step c s n = Some (s', l) ->
  exists p np, nth_error (fps s) (n - 1) = Some p /\ fps s' = upd (fps s) (n - 1) np /\
               prank np < prank p /\ qalive p = true.
Proof.
  intros c s n s' l Hout Hst. unfold q_step in Hst.
  destruct (nth_error (fps s) (n - 1)) as [p|] eqn:Hp; [|discriminate].
  destruct (Nat.eqb n 0); [discriminate|]. exists p.
  destruct p as [k w pc]. cbn [qkey qwaits qpc] in *.
  destruct pc; step_cases Hst; in_cases Hst; inversion Hst; subst; clear Hst; unfold q_to, fsetp; fld;
    (eexists; split; [reflexivity|]; split; [reflexivity|]; split; [|reflexivity]);
    unfold prank, after_fn, after_args; cbn [qkey qwaits qpc];
    repeat match goal with |- context [if ?x then _ else _] => destruct x end;
    cbn [qkey qwaits qpc length]; try lia;
    try (exfalso; match goal with H1 : fs_get _ (_, EOut) = Some ?l0, H2 : has_ds DOut ?l0 = false |- _ =>
                    rewrite (Hout _ _ H1) in H2; discriminate H2 end).
Qed.

Lemma rpc_mono : forall al al' pc, (forall x, al' x = true -> al x = true) -> rpc al' pc <= rpc al pc.
Proof. intros al al' pc H. destruct pc; simpl; try lia. pose proof (pos_mono al al' (todo ++ kept) H). lia. Qed.

Lemma fmu_eq : forall c n prog s,
  fmu c n prog s = Phi (Ts s) + (cm c (fbase s) + sumf prank (fps s) + lrank s).
Proof. intros. unfold fmu, cm, sc, qc. lia. Qed.

Lemma Ts_eq : forall s, Ts s = Vs s + 4 * (pq (fbase s) + hld (fpc s)).
Proof. intros. unfold Ts, pend, pq, sl, tl_. lia. Qed.

Lemma closeA : forall c n prog s s', Ts s' <= Ts s ->
  cm c (fbase s') + sumf prank (fps s') + lrank s' < cm c (fbase s) + sumf prank (fps s) + lrank s ->
  fmu c n prog s' < fmu c n prog s.
Proof. intros c n prog s s' HT HR. rewrite !fmu_eq. pose proof (Phi_mono _ _ HT). lia. Qed.

Lemma proc_decreases : forall c n prog s k s' l,
  FInv s -> XInv s -> q_step c s k = Some (s', l) -> fmu c n prog s' < fmu c n prog s.
Proof.
  intros c n prog s k s' l H X Hst.
  destruct (q_step_frame _ _ _ _ _ Hst) as (Efx & Epc & Emem & Epd).
  destruct (q_step_prank _ _ _ _ _ (X_out _ X) Hst) as (p & np & Hp & Efps & Hlt & Ha).
  assert (Eb : fbase s' = fbase s) by (unfold fbase; now rewrite Efx).
  assert (Hstab : forall k0 l0, fs_get (fsy s) (k0, EOut) = Some l0 -> fs_get (fsy s') (k0, EOut) = Some l0).
  { eapply out_stable; [exact H|]. apply (ft_step c s (TP k) s' l). exact Hst. }
  apply closeA.
  - rewrite !Ts_eq, Eb, Epc. unfold Vs. rewrite Epc, Emem.
    assert (Vpc (sdn s') (scp s') (fpc s) (mem s) <= Vpc (sdn s) (scp s) (fpc s) (mem s)); [|lia].
    apply Vpc_mono.
    + intros f Hf. unfold sdn in *. now rewrite Eb.
    + intros k0 Hk. unfold scp, out_complete in *. destruct (fs_get (fsy s) (k0, EOut)) as [l0|] eqn:E; [|discriminate].
      now rewrite (Hstab _ _ E).
  - rewrite Eb. pose proof (sumf_upd prank (fps s) (k - 1) p np Hp) as Hs. rewrite <- Efps in Hs.
    assert (lrank s' <= lrank s); [|lia].
    unfold lrank. rewrite Epc, Epd. apply Nat.add_le_mono_l. apply rpc_mono.
    intros x Hx. unfold sal, fgetp in *. rewrite Efps in Hx. destruct (Nat.eq_dec (x - 1) (k - 1)) as [E|E].
    + rewrite E. now rewrite (nth_error_nth _ _ _ Hp).
    + now rewrite nth_upd_other in Hx by exact E.
Qed.

Lemma client_decreases : forall c n prog s x' l,
  FInv s -> xm_step dummy_xcfg (fx s) = Some (x', l) -> fmu c n prog (set_fx s x') < fmu c n prog s.
Proof.
  intros c n prog s x' l H Hst.
  destruct (client_step _ _ _ _ (I_nc _ H) (I_main _ H) Hst) as (_ & _ & Ef & _).
  destruct (client_measure c _ _ _ _ (I_nc _ H) (I_main _ H) Hst) as [Hp Hc].
  apply closeA.
  - rewrite !Ts_eq. unfold Vs, sdn, scp, fbase, getf in *. fld. rewrite Ef. lia.
  - unfold lrank, sal, fgetp, fbase in *. fld. lia.
Qed.

(* ================================================================== *)
(* Loop-thread steps                                                   *)
(* ================================================================== *)
Lemma RC_ge : forall w, 22 <= RC w.
Proof. intros w. unfold RC, Rsp. lia. Qed.

Lemma conv_rank : forall c s i todo pat waits,
  exists pc', conv c s i todo pat waits = set_fpc s pc' /\ scanning pc' = false /\ tph pc' = false /\
    forall al, rpc al pc' <= RC (length waits + length todo) + 9 + length todo.
Proof.
  intros c s i todo. induction todo as [|d rest IH]; intros pat waits; cbn [conv length].
  - destruct (assoc_key (mem s) (fcanon c i, pat)).
    + exists GTd. repeat split; auto. intros al. cbn [rpc]. pose proof (RC_ge (length waits + 0)). lia.
    + eexists. repeat split; auto. intros al. cbn [rpc]. rewrite !Nat.add_0_r. lia.
  - destruct (mem_find (mem s) d) as [kd|].
    + destruct (IH (pat ++ [Some (key_tree kd)]) (waits ++ [kd])) as (pc' & E & A & B & C).
      exists pc'. repeat split; auto. intros al. specialize (C al). rewrite app_length in C. cbn [length] in C.
      replace (length waits + 1 + length rest) with (length waits + S (length rest)) in C by lia. lia.
    + eexists. repeat split; auto. intros al. cbn [rpc].
      pose proof (RC_mono (length waits + length rest) (length waits + S (length rest))). lia.
Qed.

Lemma sumf_ev_assoc_set : forall dn cp m k i,
  sumf (ev dn cp) (assoc_set m k i) <= sumf (ev dn cp) m + 4.
Proof.
  intros dn cp m k i. induction m as [|[q b] m IH]; simpl.
  - pose proof (ev_le4 dn cp (k, i)). lia.
  - destruct (key_eqb k q); simpl; [|lia]. pose proof (ev_le4 dn cp (q, i)). lia.
Qed.

Lemma hld_le1 : forall p, hld p <= 1.
Proof. intros p. unfold hld. destruct (held p); lia. Qed.

(* steps that change neither memory_dict nor the scan *)
Lemma Ts_pc_le : forall s s',
  (forall k, scp s' k = scp s k) -> (forall f, sdn s f = true -> sdn s' f = true) ->
  mem s' = mem s -> scanning (fpc s) = false -> scanning (fpc s') = false ->
  pq (fbase s') + hld (fpc s') <= pq (fbase s) + hld (fpc s) ->
  Ts s' <= Ts s.
Proof.
  intros s s' Hcp Hdn Em S1 S2 Hp. rewrite !Ts_eq. unfold Vs. rewrite !Vpc_nonscan by assumption. rewrite Em.
  assert (sumf (ev (sdn s') (scp s')) (mem s) <= sumf (ev (sdn s) (scp s)) (mem s)); [|lia].
  apply sumf_le. intros e _. apply ev_mono; [exact Hdn|]. intros k Hk. now rewrite Hcp.
Qed.

(* registration of the held call *)
Lemma Ts_reg : forall s s' k i,
  scp s' = scp s -> sdn s' = sdn s -> mem s' = assoc_set (mem s) k i ->
  scanning (fpc s) = false -> scanning (fpc s') = false ->
  pq (fbase s') = pq (fbase s) -> hld (fpc s) = 1 -> hld (fpc s') = 0 ->
  Ts s' <= Ts s.
Proof.
  intros s s' k i Hcp Hdn Em S1 S2 Hp H1 H0. rewrite !Ts_eq. unfold Vs. rewrite !Vpc_nonscan by assumption.
  rewrite Em, Hcp, Hdn, Hp, H1, H0. pose proof (sumf_ev_assoc_set (sdn s) (scp s) (mem s) k i). lia.
Qed.

Lemma cm_same : forall c b b', ops b' = ops b -> main b' = main b -> q0 b' = q0 b -> cm c b' = cm c b.
Proof. intros c b b' E1 E2 E3. unfold cm, crank, qc. now rewrite E1, E2, E3. Qed.

Lemma getf_setf_same : forall b f v, 1 <= f <= length (futs b) -> getf (set_futs b (setf b f v)) f = v.
Proof.
  intros b f v Hf. unfold getf, setf. simpl.
  assert (Hlt : f - 1 < length (futs b)) by lia.
  now rewrite (nth_error_nth _ _ _ (nth_error_upd_same _ _ v Hlt)).
Qed.

Lemma pq_qpop_task : forall b i l0, q0 b = Task i :: l0 -> pq (qpop b 0) + 1 = pq b.
Proof. intros b i l0 E. unfold pq, tl_. rewrite q0_qpop, E. simpl. change (ops (qpop b 0)) with (ops b). lia. Qed.
Lemma pq_qpop_shut : forall b w l0, q0 b = Shut w :: l0 -> pq (qpop b 0) = pq b.
Proof. intros b w l0 E. unfold pq, tl_. rewrite q0_qpop, E. simpl. reflexivity. Qed.
Lemma cm_qpop : forall c b it l0, q0 b = it :: l0 -> cm c (qpop b 0) + icost c it = cm c b.
Proof.
  intros c b it l0 E. unfold cm, qc. rewrite q0_qpop, E. simpl.
  change (ops (qpop b 0)) with (ops b). change (crank (qpop b 0)) with (crank b). lia.
Qed.
Lemma pq_qtd : forall b, pq (qtd b 0) = pq b.
Proof. intros b. unfold pq, tl_. now rewrite q0_qtd. Qed.
Lemma cm_qtd : forall c b, cm c (qtd b 0) = cm c b.
Proof. intros c b. unfold cm, qc. now rewrite q0_qtd. Qed.

Lemma sumf_eva_lt : forall s m, forallb (fruitless s) m = false ->
  sumf (eva (sdn s) (scp s)) m < sumf (ev (sdn s) (scp s)) m.
Proof.
  intros s m. induction m as [|e m IH]; simpl; intros Hf; [discriminate|].
  pose proof (eva_le_ev (sdn s) (scp s) e) as Hle.
  assert (Hm : sumf (eva (sdn s) (scp s)) m <= sumf (ev (sdn s) (scp s)) m) by (apply sumf_le; intros; apply eva_le_ev).
  destruct (fruitless s e) eqn:Ee; simpl in Hf.
  - specialize (IH Hf). lia.
  - assert (eva (sdn s) (scp s) e < ev (sdn s) (scp s) e); [|lia].
    unfold fruitless in Ee. unfold eva, ev, sdn, scp.
    destruct (fdone (getf (fbase s) (snd e))); [lia|]. destruct (out_complete (fsy s) (fst e)); [lia|discriminate Ee].
Qed.

Lemma flat_map_len : forall {A B} (f : A -> list B) l, (forall x, length (f x) <= 1) -> length (flat_map f l) <= length l.
Proof.
  intros A B f l H. induction l as [|x l IH]; simpl; [lia|]. rewrite app_length. specialize (H x). lia.
Qed.

Lemma scan_next_T : forall s todo kept,
  Ts (scan_next s todo kept) = sumf (eva (sdn s) (scp s)) todo + sumf (ev (sdn s) (scp s)) kept + 4 * pq (fbase s).
Proof.
  intros s todo kept. rewrite Ts_eq. destruct todo as [|e t]; unfold scan_next, Vs, sdn, scp, fbase; fld; cbn [Vpc hld held sumf fold_right]; lia.
Qed.

Lemma scan_next_R : forall c s todo kept,
  cm c (fbase (scan_next s todo kept)) + sumf prank (fps (scan_next s todo kept)) + lrank (scan_next s todo kept)
  <= cm c (fbase s) + sumf prank (fps s) + (2 * length (procd s) + 4 + (6 * length todo + 1)).
Proof.
  intros c s todo kept. destruct todo as [|e t]; unfold scan_next, lrank, fbase; fld; cbn [tph rpc]; lia.
Qed.

Lemma closeB : forall c n prog s s', Ts s' < Ts s ->
  cm c (fbase s') + sumf prank (fps s') + lrank s' <= cm c (fbase s) + sumf prank (fps s) + lrank s + 6 * Ts s' + 1 ->
  fmu c n prog s' < fmu c n prog s.
Proof. intros c n prog s s' HT HR. rewrite !fmu_eq. pose proof (Phi_step _ _ HT). lia. Qed.

Ltac Tpc Hcp Hdn Hpc :=
  apply Ts_pc_le; fld;
  [exact Hcp|exact Hdn|reflexivity|rewrite ?Hpc; reflexivity|try reflexivity|unfold fbase; fld; rewrite ?Hpc; cbn [hld held]; try lia].
Ltac Rpc Hpc :=
  unfold lrank, sal, fgetp, fbase; fld; rewrite ?Hpc; cbn [tph rpc length]; try lia.

Lemma sumf_cons : forall {A} (f : A -> nat) x l, sumf f (x :: l) = f x + sumf f l.
Proof. reflexivity. Qed.
Lemma sumf_nil : forall {A} (f : A -> nat), sumf f [] = 0.
Proof. reflexivity. Qed.

Ltac Tscan Hpc :=
  rewrite !Ts_eq; unfold Vs, sdn, scp, fbase; fld; rewrite ?Hpc; cbn [Vpc hld held]; try lia.

Lemma loop_decreases : forall c n prog s s' l,
  FInv s -> XInv s -> RInv n s -> f_step c s = Some (s', l) -> f_polling s = false ->
  fmu c n prog s' < fmu c n prog s.
Proof.
  intros c n prog s s' l H X R Hst Hnp.
  pose proof (finv_fstep _ _ _ _ H Hst) as H'.
  assert (Hdead : fpc s' <> GDead).
  { intros E. pose proof (I_l _ H') as Y. rewrite E in Y. exact Y. }
  pose proof (f_step_fs_frame _ _ _ _ Hst) as Hfr.
  assert (Hcp : forall k, scp s' k = scp s k).
  { intros k. unfold scp, out_complete. destruct (Hfr (k, EOut)) as [E|(k0 & _ & E)]; [now rewrite E|discriminate E]. }
  assert (Hdn : forall f, sdn s f = true -> sdn s' f = true).
  { intros f. apply (f_step_fut_mono _ _ _ _ Hst). }
  clear Hfr.
  pose proof (I_l _ H) as HL. pose proof (I_scan _ H) as Hscan. pose proof (X_tp _ X) as Htp. unfold tpok in Htp.
  unfold f_step in Hst.
  destruct (fpc s) as [ | |i d rest pat waits|i k waits|i k waits|i k waits|i k waits|i k waits d|ok i k waits
                       |i k waits|i k waits todo kept|i k waits| |todo kept|k f todo kept|k f todo kept
                       |k f todo kept|flag k f todo kept|k f todo kept|todo|p todo| | | | ] eqn:Hpc;
    simpl in HL, Hscan.
  - (* GNone *)
    destruct (disp (fx s)); try discriminate. inversion Hst; subst; clear Hst.
    apply closeA; [Tpc Hcp Hdn Hpc|Rpc Hpc].
  - (* GGet *)
    assert (Hlr : lrank s = 2 * length (procd s) + 4) by (unfold lrank; rewrite Hpc; cbn [tph rpc]; lia).
    destruct (qitems (getq (fbase s) 0)) as [|it l0] eqn:Eq.
    + inversion Hst; subst; clear Hst.
      unfold f_polling in Hnp. rewrite Hpc, Eq in Hnp. cbn [andb] in Hnp.
      apply closeB.
      * rewrite scan_next_T, Ts_eq. unfold Vs. rewrite Hpc. cbn [Vpc hld held]. rewrite ?sumf_cons, ?sumf_nil.
        pose proof (sumf_eva_lt s (mem s) Hnp). lia.
      * pose proof (scan_next_R c s (mem s) []) as Hs. rewrite scan_next_T.
        pose proof (sumf_ge_length (eva (sdn s) (scp s)) (mem s) (eva_ge1 _ _)). lia.
    + destruct it as [i|w]; inversion Hst; subst; clear Hst.
      * set (s1 := set_fbase s (qpop (fbase s) 0)) in *.
        destruct (conv_rank c s1 i (fdeps c i) [] []) as (pc' & E & A & B & C). rewrite E in *.
        pose proof (hld_le1 pc'). specialize (C (sal s)). unfold sal, fgetp in C.
        pose proof (pq_qpop_task (fbase s) i l0 Eq) as Hpq. pose proof (cm_qpop c (fbase s) (Task i) l0 Eq) as Hcm.
        cbn [icost] in Hcm. unfold callcost in Hcm. cbn [length] in C. rewrite Nat.add_0_l in C.
        apply closeA.
        -- apply Ts_pc_le; [exact Hcp|exact Hdn|reflexivity|rewrite Hpc; reflexivity|exact A|].
           subst s1. unfold fbase in *. fld. rewrite Hpc. cbn [hld held]. lia.
        -- subst s1. unfold lrank, sal, fgetp, fbase in *. fld. rewrite Hpc, B. cbn [tph rpc]. lia.
      * pose proof (pq_qpop_shut (fbase s) w l0 Eq) as Hpq. pose proof (cm_qpop c (fbase s) (Shut w) l0 Eq) as Hcm.
        cbn [icost] in Hcm. pose proof (map_length snd (procd s)) as Hml.
        destruct (map snd (procd s)) as [|n0 pl] eqn:Em; cbn [length] in Hml.
        -- apply closeA; [Tpc Hcp Hdn Hpc|Rpc Hpc]; unfold fbase in *; lia.
        -- apply closeA; [Tpc Hcp Hdn Hpc|Rpc Hpc]; unfold fbase in *; cbn [length]; lia.
  - (* GConvRes *)
    destruct (getf (fbase s) d) eqn:Ef; try discriminate; inversion Hst; subst; clear Hst;
      try (exfalso; apply Hdead; reflexivity).
    destruct (conv_rank c s i rest (pat ++ [None]) waits) as (pc' & E & A & B & C). rewrite E in *.
    pose proof (hld_le1 pc'). specialize (C (sal s)). unfold sal, fgetp in C.
    apply closeA; [Tpc Hcp Hdn Hpc; exact A|Rpc Hpc]. rewrite B. lia.
  - (* GListdir *)
    destruct (fs_has (fsy s) (k, EOut)) eqn:Eh; inversion Hst; subst; clear Hst.
    + apply closeA.
      * apply Ts_reg with (k := k) (i := i); fld; rewrite ?Hpc; reflexivity.
      * pose proof (RC_ge (length waits)). Rpc Hpc.
    + apply closeA; [Tpc Hcp Hdn Hpc|Rpc Hpc].
  - (* GExistsIn *)
    inversion Hst; subst; clear Hst.
    destruct (fs_has (fsy s) (k, EIn)); (apply closeA; [Tpc Hcp Hdn Hpc|Rpc Hpc]).
  - (* GRemove *)
    rewrite HL in Hst. inversion Hst; subst; clear Hst. apply closeA; [Tpc Hcp Hdn Hpc|Rpc Hpc].
  - (* GOpenIn *)
    inversion Hst; subst; clear Hst.
    destruct (fs_has (fsy s) (k, EIn)); (apply closeA; [Tpc Hcp Hdn Hpc|Rpc Hpc]).
  - (* GDs *)
    rewrite HL in Hst.
    destruct d; simpl in Hst; inversion Hst; subst; clear Hst; (apply closeA; [Tpc Hcp Hdn Hpc|Rpc Hpc]).
  - (* GCloseIn *)
    destruct HL as [Eok Eh]. subst ok. inversion Hst; subst; clear Hst. apply closeA; [Tpc Hcp Hdn Hpc|Rpc Hpc].
  - (* GCheck *)
    rewrite HL in Hst. inversion Hst; subst; clear Hst. unfold after_check in *.
    match goal with |- context [flat_map ?g ?l0] =>
      assert (Hlen : length (flat_map g l0) <= length l0)
        by (apply flat_map_len; intros w0; destruct (assoc_key (procd s) w0); simpl; lia);
      destruct (flat_map g l0) as [|n0 pl] eqn:Epl end.
    + apply closeA; [Tpc Hcp Hdn Hpc|Rpc Hpc]. unfold RC. lia.
    + apply closeA; [Tpc Hcp Hdn Hpc|Rpc Hpc]. rewrite app_nil_r.
      match goal with |- context [pos ?al (n0 :: pl)] => pose proof (pos_le_PB al (n0 :: pl)) end.
      pose proof (PB_mono _ _ Hlen). unfold RC. lia.
  - (* GPoll *)
    destruct todo as [|p rest]; [discriminate|].
    assert (Hld : 1 <= ld (sal s) (p :: rest ++ kept)).
    { apply ld_pos. unfold f_polling in Hnp. rewrite Hpc in Hnp. exact Hnp. }
    remember (if qalive (fgetp s p) then kept ++ [p] else kept) as kept' eqn:Ek.
    assert (Hpos : pos (sal s) (rest ++ kept') < pos (sal s) ((p :: rest) ++ kept)).
    { subst kept'. destruct (qalive (fgetp s p)) eqn:Ea.
      - rewrite app_assoc. apply pos_rotate; [exact Ea|exact Hld].
      - apply pos_drop. exact Ea. }
    unfold sal, fgetp in Hpos.
    clear Ek.
    destruct rest as [|r rest']; injection Hst as Hs' _; subst s'.
    + cbn [app] in Hpos. destruct kept' as [|n0 kept''].
      * apply closeA; [Tpc Hcp Hdn Hpc|Rpc Hpc].
      * apply closeA; [Tpc Hcp Hdn Hpc|Rpc Hpc]. rewrite app_nil_r. cbn [app]. lia.
    + apply closeA; [Tpc Hcp Hdn Hpc|Rpc Hpc].
  - (* GSpawn *)
    inversion Hst; subst; clear Hst. apply closeA.
    + apply Ts_reg with (k := k) (i := i); fld; rewrite ?Hpc; reflexivity.
    + Rpc Hpc. rewrite sumf_app. rewrite ?sumf_cons, ?sumf_nil. unfold prank at 2. cbn [qpc qwaits].
      pose proof (length_assoc_set (procd s) k (S (length (fps s)))). unfold Rsp. lia.
  - (* GTd *)
    inversion Hst; subst; clear Hst.
    apply closeA; [Tpc Hcp Hdn Hpc; rewrite pq_qtd; lia|Rpc Hpc; rewrite cm_qtd; lia].
  - (* GScan *)
    destruct todo as [|[k f] rest]; [discriminate|].
    assert (Hlr : lrank s = 2 * length (procd s) + 4 + (6 * S (length rest) + 1)) by (unfold lrank; rewrite Hpc; reflexivity).
    destruct (fdone (getf (fbase s) f)) eqn:Ed; inversion Hst; subst; clear Hst.
    + apply closeA.
      * rewrite scan_next_T, Ts_eq. unfold Vs. rewrite Hpc. cbn [Vpc hld held]. rewrite ?sumf_cons, ?sumf_nil.
        pose proof (eva_ge1 (sdn s) (scp s) (k, f)). lia.
      * pose proof (scan_next_R c s rest kept). lia.
    + unfold fbase in Ed. apply closeA; [Tscan Hpc|Rpc Hpc].
      rewrite ?sumf_cons, ?sumf_nil. unfold ecv, eva. cbn [fst snd]. rewrite Ed. lia.
  - (* GExistsOut *)
    assert (Hlr : lrank s = 2 * length (procd s) + 4 + (6 * length todo + 6)) by (unfold lrank; rewrite Hpc; reflexivity).
    destruct (fs_has (fsy s) (k, EOut)) eqn:Eh; inversion Hst; subst; clear Hst.
    + apply closeA; [Tscan Hpc|Rpc Hpc].
    + apply closeA.
      * rewrite scan_next_T, Ts_eq. unfold Vs. rewrite Hpc. cbn [Vpc hld held]. rewrite sumf_app. rewrite ?sumf_cons, ?sumf_nil.
        pose proof (ev_le4 (sdn s) (scp s) (k, f)).
        assert (ecv (scp s) k = 4) by (unfold ecv, scp, out_complete; apply fs_has_false in Eh; rewrite Eh; reflexivity). lia.
      * pose proof (scan_next_R c s todo (kept ++ [(k, f)])). lia.
  - (* GOpenOut *)
    destruct HL as [Eh Hnd].
    destruct (fs_get (fsy s) (k, EOut)) as [l1|] eqn:Eg; [|apply fs_has_true in Eh; destruct Eh; congruence].
    inversion Hst; subst; clear Hst.
    destruct (has_ds DOut l1) eqn:Ehd; (apply closeA; [Tscan Hpc|Rpc Hpc]);
      unfold ecv, out_complete; rewrite Eg, Ehd; lia.
  - (* GReadOut *)
    inversion Hst; subst; clear Hst. apply closeA; [Tscan Hpc|Rpc Hpc].
  - (* GCloseOut *)
    assert (Hlr : lrank s = 2 * length (procd s) + 4 + (6 * length todo + 3)) by (unfold lrank; rewrite Hpc; reflexivity).
    destruct flag; inversion Hst; subst; clear Hst.
    + apply closeA; [Tscan Hpc|Rpc Hpc].
    + apply closeA.
      * rewrite scan_next_T, Ts_eq. unfold Vs. rewrite Hpc. cbn [Vpc hld held]. rewrite sumf_app. rewrite ?sumf_cons, ?sumf_nil.
        pose proof (ev_le4 (sdn s) (scp s) (k, f)). lia.
      * pose proof (scan_next_R c s todo (kept ++ [(k, f)])). lia.
  - (* GSetRes *)
    assert (Hlr : lrank s = 2 * length (procd s) + 4 + (6 * length todo + 2)) by (unfold lrank; rewrite Hpc; reflexivity).
    destruct HL as [Eh Hnd]. unfold fut in Hnd.
    assert (Hkf : In (k, f) (mem s)) by (apply Hscan; now left).
    assert (Hrange : 1 <= f <= length (futs (fbase s))).
    { split; [apply (I_u2 _ H _ Hkf)|]. rewrite (R_len _ _ R). apply (R_mem _ _ R _ Hkf). }
    assert (Hgo : forall v, fmu c n prog (scan_next (set_fbase s (set_futs (fbase s) (setf (fbase s) f (FRes v)))) todo (kept ++ [(k, f)]))
                            < fmu c n prog s).
    { intros v. set (s2 := set_fbase s (set_futs (fbase s) (setf (fbase s) f (FRes v)))).
      assert (Hd2 : forall x, sdn s x = true -> sdn s2 x = true).
      { intros x Hx. unfold sdn, s2, fbase in *. fld.
        destruct (getf_setf_cases (base (fx s)) f (FRes v) x) as [E|E]; rewrite E; [reflexivity|exact Hx]. }
      assert (Hf2 : sdn s2 f = true).
      { unfold sdn, s2, fbase in *. fld. rewrite getf_setf_same by exact Hrange. reflexivity. }
      assert (Hc2 : forall k0, scp s k0 = true -> scp s2 k0 = true) by (intros k0 Hk0; exact Hk0).
      apply closeA.
      - rewrite scan_next_T, Ts_eq. unfold Vs. rewrite Hpc. cbn [Vpc hld held]. rewrite sumf_app. rewrite ?sumf_cons, ?sumf_nil.
        assert (A1 : sumf (eva (sdn s2) (scp s2)) todo <= sumf (eva (sdn s) (scp s)) todo)
          by (apply sumf_le; intros; apply eva_mono; assumption).
        assert (A2 : sumf (ev (sdn s2) (scp s2)) kept <= sumf (ev (sdn s) (scp s)) kept)
          by (apply sumf_le; intros; apply ev_mono; assumption).
        assert (A3 : ev (sdn s2) (scp s2) (k, f) = 2) by (unfold ev; cbn [snd]; rewrite Hf2; reflexivity).
        assert (A4 : pq (fbase s2) = pq (fbase s)) by reflexivity. lia.
      - pose proof (scan_next_R c s2 todo (kept ++ [(k, f)])) as Hs.
        assert (A4 : cm c (fbase s2) = cm c (fbase s)) by reflexivity.
        assert (A5 : fps s2 = fps s) by reflexivity. assert (A6 : procd s2 = procd s) by reflexivity.
        rewrite A4, A5, A6 in Hs. lia. }
    destruct (getf (fbase s) f) eqn:Ef; try discriminate Hnd; inversion Hst; subst; clear Hst; apply Hgo.
  - (* GTerm *)
    destruct todo as [|p rest]; [discriminate|]. inversion Hst; subst; clear Hst.
    unfold kill_proc, fsetp in *. apply closeA.
    + Tpc Hcp Hdn Hpc.
    + Rpc Hpc.
      pose proof (sumf_upd_le prank (fps s) (p - 1) (mkFP (qkey (nth (p - 1) (fps s) (mkFP (0, []) [] QExit)))
                    (qwaits (nth (p - 1) (fps s) (mkFP (0, []) [] QExit))) QExit)) as Hs.
      cbn [length]. assert (forall x, prank (mkFP (qkey (nth (p - 1) (fps s) (mkFP (0, []) [] QExit)))
                    (qwaits (nth (p - 1) (fps s) (mkFP (0, []) [] QExit))) QExit) <= prank x) by (intros; unfold prank; simpl; lia).
      specialize (Hs H0). lia.
  - (* GTermPoll *)
    rewrite Htp in Hst. inversion Hst; subst; clear Hst.
    destruct todo; (apply closeA; [Tpc Hcp Hdn Hpc|Rpc Hpc]); cbn [length]; lia.
  - (* GSTd *)
    inversion Hst; subst; clear Hst.
    apply closeA; [Tpc Hcp Hdn Hpc; rewrite pq_qtd; lia|Rpc Hpc; rewrite cm_qtd; lia].
  - (* GSQJoin *)
    destruct (Nat.eqb (qunf (getq (fbase s) 0)) 0); [|discriminate]. inversion Hst; subst; clear Hst.
    apply closeA; [Tpc Hcp Hdn Hpc|Rpc Hpc].
  - discriminate.
  - discriminate.
Qed.

(* ================================================================== *)
(* THEOREM 1: every step decreases the measure, except fruitless polling steps of the loop thread *)
(* ================================================================== *)
Theorem file_step_decreases : forall c n prog fs0 s t s' l,
  nocancel prog = true -> wf_prog n prog -> no_late_submit prog = true ->
  (forall i j, fcanon c i = fcanon c j -> i = j) ->
  fs_wf fs0 -> fs_outs_complete fs0 = true ->
  freach_nk c (finit n prog fs0) s ->
  fstep c s t = Some (s', l) ->
  (t = TD -> f_polling s = false) ->
  fmu c n prog s' < fmu c n prog s.
Proof.
  intros c n prog fs0 s t s' l Hnc Hwf Hnl Hinj _ Hfs Hr Hst Hnp.
  destruct (inv3_reach _ _ _ _ _ Hnc Hwf Hnl Hinj Hfs Hr) as [[(H & _ & _) X] R].
  destruct t as [| | |j|k]; simpl in Hst; try discriminate.
  - destruct (xm_step dummy_xcfg (fx s)) as [[x l0]|] eqn:E; [|discriminate]. inversion Hst; subst; clear Hst.
    eapply client_decreases; eauto.
  - eapply loop_decreases; eauto.
  - eapply proc_decreases; eauto.
Qed.

Print Assumptions file_step_decreases.
(* ================================================================== *)
(* Tests and examples (vm_compute)                                     *)
(* ================================================================== *)
(* run a list of scheduler choices (the k-th enabled thread, modulo) and check the statement of theorem 1 at
   every step; also count the steps taken and the polling steps of the loop thread among them *)
Fixpoint run_check (c : fcfg) (n : nat) (prog : list op) (sched : list nat) (s : fstateX) (steps polls : nat)
  : bool * fstateX * nat * nat :=
  match sched with
  | [] => (true, s, steps, polls)
  | k :: rest =>
      match fenabled c s with
      | [] => (true, s, steps, polls)
      | e :: es =>
          let t := nth (k mod length (e :: es)) (e :: es) e in
          match fstep c s t with
          | Some (s', _) =>
              let pol := match t with TD => f_polling s | _ => false end in
              if pol || Nat.ltb (fmu c n prog s') (fmu c n prog s)
              then run_check c n prog rest s' (S steps) (if pol then S polls else polls) else (false, s, steps, polls)
          | None => (false, s, steps, polls)
          end
      end
  end.

Fixpoint lcg (seed len : nat) : list nat :=
  match len with 0 => [] | S l => let x := (seed * 21 + 17) mod 101 in (x / 3) :: lcg x l end.

(* (1) the required example: two calls, the second depends on the first; the client waits for the second
   result and leaves the with-block.  Along this kill-free run (102 steps, 21 of them fruitless polling steps
   of the loop thread, at which the measure is not required to decrease) fmu strictly decreases at every other
   step; the run ends with everything done. *)
Definition ex2_cfg : fcfg := mkFC (fun i => match i with 2 => [1] | _ => [] end) (fun i => i).
Definition ex2_prog : list op := [OSubmit 1; OSubmit 2; OResult 2; OExit].
Definition ex2_run := run_check ex2_cfg 2 ex2_prog (lcg 3 400) (finit 2 ex2_prog []) 0 0.

Example fmu_decreases_along_run :
  let '(ok, sf, steps, polls) := ex2_run in
  ok = true /\ fenabled ex2_cfg sf = [] /\ fpc sf = GDone /\ main (fbase sf) = MEnd /\
  futs (fbase sf) = [FRes 1; FRes 2] /\ length (fps sf) = 2 /\ 0 < polls /\ polls < steps.
Proof. vm_compute. repeat split; try reflexivity; lia. Qed.

(* (2) the same check over 3 programs x 30 pseudo-random schedules, three calls with dependencies
   (call 3 takes the futures of calls 1, 2, 1), with and without shutdown *)
Definition t_cfg : fcfg := mkFC (fun i => match i with 2 => [1] | 3 => [1; 2; 1] | _ => [] end) (fun i => i).
Definition t_prog1 : list op := [OSubmit 1; OSubmit 2; OResult 2; OSubmit 3; OShutdown true false].
Definition t_prog2 : list op := [OSubmit 1; OSubmit 2; OSubmit 3; OExit].
Definition t_prog3 : list op := [OSubmit 1; OSubmit 2; OSubmit 3; OResult 3].

Definition all_ok (prog : list op) (seeds : list nat) : bool :=
  forallb (fun sd => let '(ok, _, _, _) := run_check t_cfg 3 prog (lcg sd 400) (finit 3 prog []) 0 0 in ok) seeds.

Example fmu_decreases_along_runs :
  all_ok t_prog1 (seq 1 30) = true /\ all_ok t_prog2 (seq 1 30) = true /\ all_ok t_prog3 (seq 1 30) = true.
Proof. vm_compute. auto. Qed.

Print Assumptions fmu_decreases_along_run.
