(* C06 for the block executor WITH cache_directory (Model/CacheExec.v): a call that has started is never
   turned into a cancelled one by any step (cache steps of the worker threads included). *)
From Coq Require Import List Bool Arith Lia.
From EL Require Import Model.Exec Model.ExecInv Model.StepExec Model.FileExec Model.CacheExec Proofs.ExecSafe Proofs.ExecStarted.
Import ListNotations.

Lemma futs_wpc_to : forall b j w pc, futs (wpc_to b j w pc) = futs b.
Proof. intros. unfold wpc_to. destruct b; reflexivity. Qed.

Theorem cache_started_stays : forall c s t s' l i,
  cstep c s t = Some (s', l) -> started (getf (cb s) i) -> started (getf (cb s') i).
Proof.
  intros c s t s' l i Hst Hc. destruct t as [| | |j|k]; simpl in Hst; try discriminate Hst.
  - destruct (m_step (cbase c) (cb s)) as [[b l']|] eqn:Hm; [|discriminate Hst].
    inversion Hst; subst; clear Hst. simpl.
    eapply (started_never_cancelled (cbase c) (cb s) TM b _ i); [simpl; exact Hm|exact Hc].
  - destruct j as [|j]; [discriminate Hst|]. unfold cw_step in Hst.
    destruct (nth_error (ws (cb s)) j) as [w|] eqn:Hw; [|discriminate Hst]. cbv zeta in Hst.
    destruct (getov s j) eqn:Ho.
    + destruct (w_step (cbase c) (cb s) j) as [[b l']|] eqn:Hs; [|discriminate Hst].
      inversion Hst; subst; clear Hst. simpl.
      eapply (started_never_cancelled (cbase c) (cb s) (TW (S j)) b _ i); [simpl; exact Hs|exact Hc].
    + destruct (fs_has (cfs s) (cpath c i0)); inversion Hst; subst; simpl; exact Hc.
    + destruct (fs_get (cfs s) (cpath c i0)); inversion Hst; subst; simpl; unfold getf in *; rewrite ?futs_wpc_to; exact Hc.
    + inversion Hst; subst; simpl; exact Hc.
    + inversion Hst; subst; simpl; exact Hc.
    + destruct (getf (cb s) i0) eqn:Hf; inversion Hst; subst; clear Hst; simpl; unfold getf in *; rewrite ?futs_wpc_to; simpl.
      all: try exact Hc.
      all: unfold setf; destruct (ExecSafe.nth_upd_cases _ (futs (cb s)) (i - 1) (i0 - 1) (FRes (if flag then ccanon c i0 else 0)) FPending)
             as [(E1 & L & Hx)|(E1 & Hx)]; rewrite Hx; [unfold started; eauto|exact Hc].
    + destruct (fs_has (cfs s) (cpath c i0)); inversion Hst; subst; simpl; exact Hc.
    + destruct (fs_get (cfs s) (cpath c i0)) as [l0|]; [destruct (has_ds d l0)|]; inversion Hst; subst; simpl; exact Hc.
    + destruct ok; inversion Hst; subst; simpl; unfold getf in *; rewrite ?futs_wpc_to; exact Hc.
  - destruct (p_step (cbase c) (cb s) k) as [[b l']|] eqn:Hp; [|discriminate Hst].
    inversion Hst; subst; clear Hst. simpl.
    eapply (started_never_cancelled (cbase c) (cb s) (TP k) b _ i); [simpl; exact Hp|exact Hc].
Qed.
