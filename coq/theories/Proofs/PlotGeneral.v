(* C20, positive half: when all submitted calls have distinct hashes, plot mode draws exactly
   one box per submitted call and one incoming edge per argument. *)
From Coq Require Import List Bool Arith String ZArith Lia.
From EL Require Import Model.Plot.
Import ListNotations.
Local Open Scope string_scope.

(* futures refer to earlier calls *)
Fixpoint arg_ok (n : nat) (a : parg) : bool :=
  match a with
  | AVal _ => true
  | AFut j => Nat.leb 1 j && Nat.leb j n
  | AList l => forallb (arg_ok n) l
  end.
Definition call_ok (n : nat) (c : pcall) : bool :=
  forallb (arg_ok n) (pargs c) && forallb (fun ka => arg_ok n (snd ka)) (pkwargs c).
(* the i-th call (0-based position i) may use the futures of calls 1..i *)
Fixpoint calls_ok (calls : list pcall) (i : nat) : bool :=
  match calls with [] => true | c :: t => call_ok i c && calls_ok t (S i) end.

Lemma arg_ok_list : forall n l, arg_ok n (AList l) = forallb (arg_ok n) l.
Proof. intros n l. reflexivity. Qed.

(* ---- the (shallow) consequence of arg_ok that the graph construction needs ---- *)
Definition wk (n : nat) (a : parg) : Prop :=
  match a with
  | AVal _ => True
  | AFut j => 1 <= j <= n
  | AList l => forall j, In (AFut j) l -> 1 <= j <= n
  end.

Lemma arg_ok_fut : forall i n j, arg_ok i (AFut j) = true -> i <= n -> 1 <= j <= n.
Proof.
  intros i n j H Hle. change (Nat.leb 1 j && Nat.leb j i = true) in H. apply andb_true_iff in H. destruct H as [H1 H2].
  apply Nat.leb_le in H1. apply Nat.leb_le in H2. lia.
Qed.

Lemma arg_ok_wk : forall i n a, arg_ok i a = true -> i <= n -> wk n a.
Proof.
  intros i n a H Hle. destruct a as [v | j | l].
  - exact I.
  - simpl. eapply arg_ok_fut; eauto.
  - simpl. intros j Hin. rewrite arg_ok_list in H.
    rewrite forallb_forall in H. specialize (H _ Hin). eapply arg_ok_fut; eauto.
Qed.

Definition call_wk (n : nat) (c : pcall) : Prop :=
  Forall (wk n) (pargs c) /\ Forall (fun ka => wk n (snd ka)) (pkwargs c).

Lemma call_ok_wk : forall i n c, call_ok i c = true -> i <= n -> call_wk n c.
Proof.
  intros i n c H Hle. unfold call_ok in H. apply andb_true_iff in H. destruct H as [H1 H2].
  rewrite forallb_forall in H1. rewrite forallb_forall in H2.
  split; apply Forall_forall.
  - intros a Ha. eapply arg_ok_wk; eauto.
  - intros ka Hka. eapply arg_ok_wk; eauto.
Qed.

Lemma calls_ok_wk : forall calls i n, calls_ok calls i = true -> i + List.length calls <= n ->
  Forall (call_wk n) calls.
Proof.
  induction calls as [| c t IH]; intros i n H Hle.
  - constructor.
  - simpl in H. apply andb_true_iff in H. destruct H as [H1 H2]. simpl in Hle. constructor.
    + eapply call_ok_wk; eauto. lia.
    + eapply IH; eauto. lia.
Qed.

(* ---- hashes ---- *)
Lemma hashes_length : forall calls acc hs, hashes calls acc = Some hs ->
  List.length hs = List.length acc + List.length calls.
Proof.
  induction calls as [| c t IH]; intros acc hs H; simpl in H.
  - inversion H; subst. simpl. lia.
  - destruct (task_hash acc c) as [h |] eqn:Hh; [| discriminate].
    apply IH in H. rewrite app_length in H. simpl in *. lia.
Qed.

(* ---- last_index / fut_hash ---- *)
Lemma last_index_notin : forall h hs i acc, ~ In h hs -> last_index h hs i acc = acc.
Proof.
  intros h hs. induction hs as [| x t IH]; intros i acc Hn; simpl.
  - reflexivity.
  - rewrite IH by (intro Hc; apply Hn; right; exact Hc).
    destruct (String.eqb x h) eqn:E; [| reflexivity].
    apply String.eqb_eq in E. subst. exfalso. apply Hn. left. reflexivity.
Qed.

Lemma last_index_nodup : forall h hs k i acc, NoDup hs -> nth_error hs k = Some h ->
  last_index h hs i acc = Some (i + k).
Proof.
  intros h hs. induction hs as [| x t IH]; intros k i acc Hnd Hk.
  - destruct k; discriminate.
  - inversion Hnd as [| x' t' Hnx Hndt]; subst. destruct k as [| k]; simpl in *.
    + inversion Hk; subst. rewrite String.eqb_refl. rewrite last_index_notin by assumption.
      f_equal. lia.
    + rewrite (IH k (S i) _ Hndt Hk). f_equal. lia.
Qed.

Lemma fut_hash_nodup : forall hs j, NoDup hs -> 1 <= j <= List.length hs ->
  exists h, fut_hash hs j = Some h /\ In h hs.
Proof.
  intros hs j Hnd Hj. unfold fut_hash.
  destruct (nth_error hs (j - 1)) as [h |] eqn:Hn.
  - exists h. rewrite (last_index_nodup h hs (j - 1) 1 None Hnd Hn).
    replace (1 + (j - 1)) with j by lia. rewrite Nat.eqb_refl. split; [reflexivity |].
    eapply nth_error_In; eauto.
  - apply nth_error_None in Hn. lia.
Qed.

(* ---- index_of ---- *)
Lemma index_of_in : forall h l i, In h l -> exists k, index_of h l i = Some k.
Proof.
  intros h l. induction l as [| x t IH]; intros i Hin; simpl.
  - destruct Hin.
  - destruct (String.eqb x h) eqn:E.
    + eexists; reflexivity.
    + destruct Hin as [Hx | Ht].
      * subst. rewrite String.eqb_refl in E. discriminate.
      * apply IH. exact Ht.
Qed.

(* ---- last_call ---- *)
Lemma last_call_notin : forall h hs calls acc, ~ In h hs -> last_call h hs calls acc = acc.
Proof.
  intros h hs. induction hs as [| x t IH]; intros calls acc Hn; simpl.
  - reflexivity.
  - destruct calls as [| c ct]; [reflexivity |].
    rewrite IH by (intro Hc; apply Hn; right; exact Hc).
    destruct (String.eqb x h) eqn:E; [| reflexivity].
    apply String.eqb_eq in E. subst. exfalso. apply Hn. left. reflexivity.
Qed.

Lemma last_call_nodup : forall h hs calls k c acc, NoDup hs ->
  nth_error hs k = Some h -> nth_error calls k = Some c ->
  last_call h hs calls acc = Some c.
Proof.
  intros h hs. induction hs as [| x t IH]; intros calls k c acc Hnd Hk Hc.
  - destruct k; discriminate.
  - inversion Hnd as [| x' t' Hnx Hndt]; subst.
    destruct calls as [| c0 ct]; [destruct k; discriminate |].
    destruct k as [| k]; simpl in *.
    + inversion Hk; subst. inversion Hc; subst. rewrite String.eqb_refl.
      apply last_call_notin. assumption.
    + eapply IH; eauto.
Qed.

Lemma Forall2_nth : forall (A B : Type) (R : A -> B -> Prop) (l1 : list A) (l2 : list B),
  List.length l1 = List.length l2 ->
  (forall i a b, nth_error l1 i = Some a -> nth_error l2 i = Some b -> R a b) ->
  Forall2 R l1 l2.
Proof.
  intros A B R l1. induction l1 as [| a t IH]; intros l2 Hlen H; destruct l2 as [| b t2];
    simpl in Hlen; try discriminate.
  - constructor.
  - constructor.
    + apply (H 0); reflexivity.
    + apply IH; [lia |]. intros i a' b' Ha Hb. apply (H (S i)); assumption.
Qed.

Lemma last_call_all : forall hs calls, NoDup hs -> List.length hs = List.length calls ->
  Forall2 (fun h c => last_call h hs calls None = Some c) hs calls.
Proof.
  intros hs calls Hnd Hlen. apply Forall2_nth; [exact Hlen |].
  intros i h c Hh Hc. eapply last_call_nodup; eauto.
Qed.

(* ---- dict_keys ---- *)
Lemma existsb_eqb_notin : forall h seen, ~ In h seen -> existsb (String.eqb h) seen = false.
Proof.
  intros h seen Hn. destruct (existsb (String.eqb h) seen) eqn:E; [| reflexivity].
  apply existsb_exists in E. destruct E as [x [Hx Heq]]. apply String.eqb_eq in Heq. subst.
  contradiction.
Qed.

Lemma dict_keys_nodup : forall hs seen, NoDup (List.app seen hs) -> dict_keys hs seen = List.app seen hs.
Proof.
  induction hs as [| h t IH]; intros seen Hnd; simpl.
  - rewrite app_nil_r. reflexivity.
  - assert (Hn : ~ In h seen).
    { intro Hin. apply NoDup_remove_2 in Hnd. apply Hnd. apply in_or_app. left. exact Hin. }
    rewrite existsb_eqb_notin by exact Hn.
    rewrite IH.
    + rewrite <- app_assoc. reflexivity.
    + rewrite <- app_assoc. simpl. exact Hnd.
Qed.

(* ---- add_element ---- *)
Definition nboxes_of (st : gstate) : list node := filter is_box (fst st).

Definition grows (st st' : gstate) (n : nat) : Prop :=
  List.length (snd st') = List.length (snd st) + n /\ nboxes_of st' = nboxes_of st.

Lemma grows_trans : forall a b c n m, grows a b n -> grows b c m -> grows a c (n + m).
Proof.
  intros a b c n m [H1 H2] [H3 H4]. split; [lia | congruence].
Qed.

Section WithHs.
Variable hs : list string.
Hypothesis Hnd : NoDup hs.
Variable nb : nat.

Lemma add_fut : forall j link label st, 1 <= j <= List.length hs ->
  exists st', add_element hs hs nb (AFut j) link label st = Some st' /\ grows st st' 1.
Proof.
  intros j link label st Hj. simpl.
  destruct (fut_hash_nodup hs j Hnd Hj) as [h [Hf Hin]]. rewrite Hf.
  destruct (index_of_in h hs 0 Hin) as [k Hk]. rewrite Hk.
  eexists; split; [reflexivity |]. split; simpl.
  - rewrite app_length. simpl. reflexivity.
  - reflexivity.
Qed.

Lemma add_circle : forall (st : gstate) nm id e,
  grows st (List.app (fst st) [mkN nm id Circle], List.app (snd st) [e]) 1.
Proof.
  intros st nm id e. split; simpl.
  - rewrite app_length. reflexivity.
  - unfold nboxes_of. simpl. rewrite filter_app. simpl. rewrite app_nil_r. reflexivity.
Qed.

Lemma add_futs_go : forall link label l st, all_futs l = true ->
  (forall j, In (AFut j) l -> 1 <= j <= List.length hs) ->
  exists st',
    (fix go (l : list parg) (st : gstate) : option gstate :=
       match l with
       | [] => Some st
       | x :: t => match add_element hs hs nb x link label st with
                   | Some st' => go t st'
                   | None => None
                   end
       end) l st = Some st' /\ grows st st' (List.length l).
Proof.
  intros link label. induction l as [| x t IH]; intros st Haf Hb.
  - exists st. split; [reflexivity |]. split; simpl; [lia | reflexivity].
  - destruct x as [v | j | l']; simpl in Haf; try discriminate.
    destruct (add_fut j link label st) as [st1 [H1 G1]].
    { apply Hb. left. reflexivity. }
    destruct (IH st1 Haf) as [st2 [H2 G2]].
    { intros j' Hj'. apply Hb. right. exact Hj'. }
    exists st2. split.
    + rewrite H1. exact H2.
    + change (List.length (AFut j :: t)) with (1 + List.length t). eapply grows_trans; eauto.
Qed.

Lemma add_element_ok : forall a link label st, wk (List.length hs) a ->
  exists st', add_element hs hs nb a link label st = Some st' /\ grows st st' (spec_arg_edges a).
Proof.
  intros a link label st Hw. destruct a as [v | j | l].
  - simpl. eexists; split; [reflexivity |]. apply add_circle.
  - apply add_fut. exact Hw.
  - simpl in Hw. simpl. destruct (all_futs l) eqn:Haf.
    + apply add_futs_go; assumption.
    + eexists; split; [reflexivity |]. apply add_circle.
Qed.

Lemma add_args_ok : forall l link st, Forall (wk (List.length hs)) l ->
  exists st', add_args hs hs nb l link st = Some st'
              /\ grows st st' (fold_right (fun a n => spec_arg_edges a + n) 0 l).
Proof.
  induction l as [| x t IH]; intros link st Hf.
  - exists st. split; [reflexivity |]. split; simpl; [lia | reflexivity].
  - inversion Hf as [| x' t' Hx Ht]; subst.
    destruct (add_element_ok x link "" st Hx) as [st1 [H1 G1]].
    destruct (IH link st1 Ht) as [st2 [H2 G2]].
    exists st2. split.
    + simpl. rewrite H1. exact H2.
    + simpl fold_right. eapply grows_trans; eauto.
Qed.

Lemma add_kwargs_ok : forall l link st, Forall (fun ka => wk (List.length hs) (snd ka)) l ->
  exists st', add_kwargs hs hs nb l link st = Some st'
              /\ grows st st' (fold_right (fun (ka : string * parg) n => spec_arg_edges (snd ka) + n) 0 l).
Proof.
  induction l as [| [k x] t IH]; intros link st Hf.
  - exists st. split; [reflexivity |]. split; simpl; [lia | reflexivity].
  - inversion Hf as [| x' t' Hx Ht]; subst. simpl in Hx.
    destruct (add_element_ok x link k st Hx) as [st1 [H1 G1]].
    destruct (IH link st1 Ht) as [st2 [H2 G2]].
    exists st2. split.
    + simpl. rewrite H1. exact H2.
    + simpl fold_right. eapply grows_trans; eauto.
Qed.

Lemma add_calls_ok : forall calls ks cs link st,
  Forall2 (fun h c => last_call h hs calls None = Some c) ks cs ->
  Forall (call_wk (List.length hs)) cs ->
  exists st', add_calls hs hs calls nb ks link st = Some st' /\ grows st st' (spec_edges cs).
Proof.
  intros calls ks cs link st HF. revert link st.
  induction HF as [| h c ks cs Hlc HF IH]; intros link st Hw.
  - exists st. split; [reflexivity |]. split; simpl; [lia | reflexivity].
  - inversion Hw as [| c' cs' Hc Hcs]; subst. destruct Hc as [Ha Hk].
    destruct (add_args_ok (pargs c) link st Ha) as [st1 [H1 G1]].
    destruct (add_kwargs_ok (pkwargs c) link st1 Hk) as [st2 [H2 G2]].
    destruct (IH (S link) st2 Hcs) as [st3 [H3 G3]].
    exists st3. split.
    + simpl. rewrite Hlc, H1, H2. exact H3.
    + change (spec_edges (c :: cs)) with (call_edges c + spec_edges cs). unfold call_edges.
      eapply grows_trans; [| exact G3]. eapply grows_trans; eauto.
Qed.

End WithHs.

(* ---- boxes ---- *)
Lemma filter_boxes_map : forall (A : Type) (f : A -> string) (g : A -> nat) (l : list A),
  filter is_box (map (fun x => mkN (f x) (g x) Box) l) = map (fun x => mkN (f x) (g x) Box) l.
Proof.
  intros A f g l. induction l as [| x t IH]; simpl; [reflexivity |]. rewrite IH. reflexivity.
Qed.

Theorem graph_of_distinct_calls : forall calls hs,
  calls_ok calls 0 = true -> hashes calls [] = Some hs -> NoDup hs ->
  exists g, graph calls = Some g
            /\ count_boxes g = spec_boxes calls
            /\ List.length (snd g) = spec_edges calls.
Proof.
  intros calls hs Hok Hh Hnd.
  assert (Hlen : List.length hs = List.length calls).
  { apply hashes_length in Hh. simpl in Hh. exact Hh. }
  assert (Hw : Forall (call_wk (List.length hs)) calls).
  { eapply calls_ok_wk; eauto. simpl. lia. }
  assert (Hk : dict_keys hs [] = hs).
  { rewrite dict_keys_nodup; [reflexivity | exact Hnd]. }
  destruct (add_calls_ok hs Hnd (List.length hs) calls hs calls 0 ([], [])
              (last_call_all hs calls Hnd Hlen) Hw) as [st [Hst [Ge Gb]]].
  unfold graph. rewrite Hh. cbv zeta. rewrite Hk. rewrite Hst.
  eexists; split; [reflexivity |]. split.
  - unfold count_boxes, spec_boxes. simpl fst. rewrite filter_app.
    unfold nboxes_of in Gb. rewrite Gb. simpl. rewrite app_nil_r.
    rewrite (filter_boxes_map _
               (fun ki : string * nat => match last_call (fst ki) hs calls None with
                                         | Some c => pfn c | None => "" end)
               (fun ki => snd ki)).
    rewrite map_length, combine_length, seq_length. lia.
  - simpl in *. exact Ge.
Qed.

Print Assumptions graph_of_distinct_calls.
