(* Result fidelity (C01) and cancellation (C06) for the per-call-process executor model
   (Model/StepExec.v) and for the dependency resolver model (Model/DepExec.v), the latter for
   BOTH inner executors (block allocation and per-call process).

   The channel / ownership / value facts needed here are packaged in one invariant [BI] of the
   embedded base state; it is self-contained (it mentions only worker threads, processes and
   futures) and is shown to be preserved by every kind of base-state transition, so it serves
   both models.  "Running" facts are taken from the existing invariants (XInv of StepSafe,
   Inv4 of DepSafe).

   Main results
     per-call executor : step_fidelity (S1), step_body_running (S2), step_cancelled_stable (S3),
                         step_cancelled_never_runs (S4)
     resolver          : dep_fidelity (D1), dep_body_running (D2), dep_cancelled_stable (D3),
                         dep_cancelled_never_runs (D4)   -- for every dinner c (IBlock k and IStep)
     counterexamples   : step_fidelity_needs_range, dep_fidelity_needs_range: (S1)/(D1) need 1 <= i,
                         because getf _ 0 = getf _ 1 (both read index 0 of the futures list). *)
From Coq Require Import List Bool Arith Lia.
From EL Require Import Model.Exec Model.ExecInv Model.StepExec Model.DepExec.
From EL Require Proofs.ExecLive Proofs.DepLive.
From EL Require Import Proofs.ExecSafe Proofs.StepSafe Proofs.DepSafe.
Import ListNotations.

Ltac dall H :=
  repeat match type of H with
  | context [match ?x with _ => _ end] => destruct x eqn:?
  end; try discriminate H.

Definition cancd (f : fstate) : Prop := f = FCancelled \/ f = FCancelledN.

(* ================================================================== *)
(* how futures move in client / dispatcher / resolver steps           *)
(* ================================================================== *)

(* at most one future changes; a cancelled one stays cancelled; no result appears *)
Definition fmove (s s' : state) : Prop :=
  futs s' = futs s \/
  exists i f, futs s' = upd (futs s) (i - 1) f /\ (cancd (getf s i) -> cancd f) /\
              (forall v, f = FRes v -> getf s i = FRes v).

Lemma fmove_refl : forall s s', futs s' = futs s -> fmove s s'.
Proof. intros s s' E. left. exact E. Qed.

Lemma fmove_cancd : forall s s' i, fmove s s' -> cancd (getf s i) -> cancd (getf s' i).
Proof.
  intros s s' i [E|(i0 & f & E & Hc & _)] H; unfold getf in *; rewrite E; [exact H|].
  destruct (ExecSafe.nth_upd_cases _ (futs s) (i - 1) (i0 - 1) f FPending) as [(E1 & L & Hx)|(E1 & Hx)]; rewrite Hx.
  - apply Hc. rewrite <- E1. exact H.
  - exact H.
Qed.

Lemma fmove_fres : forall s s' i v, fmove s s' -> getf s' i = FRes v -> getf s i = FRes v.
Proof.
  intros s s' i v [E|(i0 & f & E & _ & Hr)] H; unfold getf in *; rewrite E in H; [exact H|].
  destruct (ExecSafe.nth_upd_cases _ (futs s) (i - 1) (i0 - 1) f FPending) as [(E1 & L & Hx)|(E1 & Hx)]; rewrite Hx in H.
  - rewrite E1. apply Hr. exact H.
  - exact H.
Qed.

Lemma fshape_fmove : forall s s', fshape s s' -> fmove s s'.
Proof.
  intros s s' [E|[i E]]; [left; exact E|]. right. exists i, (fst (fcancel (getf s i))).
  split; [exact E|]. split.
  - intros [H|H]; rewrite H; simpl; [left|right]; reflexivity.
  - intros v. destruct (getf s i); simpl; intros H; try discriminate H; exact H.
Qed.

(* the client of the per-call executor, all program counters *)
Lemma xm_step_fshape : forall c x x' l, xm_step c x = Some (x', l) -> fshape (base x) (base x').
Proof.
  intros c x x' l H.
  destruct (main (base x)) eqn:Hm.
  - unfold xm_step in H. rewrite Hm in H. inversion H; subst. left. reflexivity.
  - unfold xm_step in H. rewrite Hm in H. inversion H; subst. left. simpl. apply ExecSafe.m_goto_futs.
  - apply (xm_step_shape _ _ _ _ H); [congruence|intros k0; congruence].
  - apply (xm_step_shape _ _ _ _ H); [congruence|intros k0; congruence].
  - apply (xm_step_shape _ _ _ _ H); [congruence|intros k0; congruence].
  - apply (xm_step_shape _ _ _ _ H); [congruence|intros k0; congruence].
  - apply (xm_step_shape _ _ _ _ H); [congruence|intros k0; congruence].
  - apply (xm_step_shape _ _ _ _ H); [congruence|intros k0; congruence].
  - apply (xm_step_shape _ _ _ _ H); [congruence|intros k0; congruence].
  - apply (xm_step_shape _ _ _ _ H); [congruence|intros k0; congruence].
Qed.

(* ================================================================== *)
(* the base-state invariant                                           *)
(* ================================================================== *)

Record BI (c : cfg) (s : state) : Prop := mkBI {
  B_ow1 : forall j w, nth_error (ws s) j = Some w ->
            if spawnedb w then 1 <= wproc w <= length (ps s) else wproc w = 0;
  B_ow3 : forall j j' w w', j <> j' -> nth_error (ws s) j = Some w -> nth_error (ws s) j' = Some w' ->
            spawnedb w = true -> spawnedb w' = true -> wproc w <> wproc w';
  B_ow4 : forall k, 1 <= k <= length (ps s) ->
            exists j w, nth_error (ws s) j = Some w /\ spawnedb w = true /\ wproc w = k;
  B_chan : forall j w, nth_error (ws s) j = Some w -> chanS c w (getp s (wproc w)) = true;
  B_v1 : forall j w i v, nth_error (ws s) j = Some w -> wp w = WSetRes i v -> i = v;
  B_v2 : forall i v, 1 <= i -> getf s i = FRes v -> v = i
}.

(* ---- one worker step: the worker's own record, its process, its channel ---- *)
Lemma w_step_chan : forall c s j s' l w,
  w_step c s j = Some (s', l) -> nth_error (ws s) j = Some w ->
  (if spawnedb w then 1 <= wproc w <= length (ps s) else wproc w = 0) ->
  chanS c w (getp s (wproc w)) = true ->
  exists w', ws s' = upd (ws s) j w' /\ chanS c w' (getp s' (wproc w')) = true /\
    ((wp w = WSpawn /\ w' = mkW (wq w) (S (length (ps s))) WGet /\ ps s' = ps s ++ [mkP PBegin [] []])
     \/ (wp w <> WSpawn /\ wproc w' = wproc w /\ spawnedb w' = spawnedb w /\ length (ps s') = length (ps s) /\
         (forall k, k <> wproc w - 1 -> nth k (ps s') (mkP PExit [] []) = nth k (ps s) (mkP PExit [] [])) /\
         (spawnedb w = false -> ps s' = ps s))).
Proof.
  intros c s j s' l w Hst Hj Ho Hc. unfold w_step in Hst. rewrite Hj in Hst. cbv zeta in Hst.
  unfold spawnedb in Ho.
  destruct (wp w) eqn:Hpc; dall Hst; inversion Hst; subst; clear Hst; wnorm;
  eexists; (split; [reflexivity|]).
  all: try solve [
    split; [ unfold getp; fld; cbn [wproc]; rewrite ?ExecSafe.nth_upd_same by lia; fold (getp s (wproc w)); chan_case Hc Hpc
           | right; unfold spawnedb; rewrite Hpc; cbn [wp wproc]; rewrite ?ExecSafe.upd_length;
             split; [discriminate|]; split; [reflexivity|]; split; [reflexivity|]; split; [reflexivity|];
             split; [intros k Hk; first [reflexivity | apply ExecSafe.nth_upd_other; lia]
                    | first [intros _; reflexivity | discriminate] ] ] ].
  split; [|left; repeat split; reflexivity].
  unfold getp. fld. cbn [wproc]. replace (S (length (ps s)) - 1) with (length (ps s)) by lia.
  rewrite app_nth2 by lia. rewrite Nat.sub_diag. reflexivity.
Qed.

(* ---- one worker step: values and futures ---- *)
Lemma w_step_vals : forall c s j s' l w,
  w_step c s j = Some (s', l) -> nth_error (ws s) j = Some w ->
  chanS c w (getp s (wproc w)) = true ->
  exists w', ws s' = upd (ws s) j w' /\ (forall i v, wp w' = WSetRes i v -> i = v) /\
    (futs s' = futs s \/
     exists i f, w_call w = Some i /\ futs s' = upd (futs s) (i - 1) f /\
                 (forall v, f = FRes v -> wp w = WSetRes i v)).
Proof.
  intros c s j s' l w Hst Hj Hc. unfold w_step in Hst. rewrite Hj in Hst. cbv zeta in Hst.
  destruct (wp w) eqn:Hpc.
  7: {
    destruct (outbox (getp s (wproc w))) as [|m ob'] eqn:Hob; [discriminate|].
    assert (Hsv : serving (getp s (wproc w)) (MCall i) (reply_of c i) = true).
    { unfold chanS, chan_ok in Hc. rewrite Hpc in Hc. apply andb_true_iff in Hc. tauto. }
    destruct (serving_out _ _ _ _ _ Hsv Hob) as (Em & _).
    destruct m; inversion Hst; subst; clear Hst; wnorm; eexists; (split; [reflexivity|]);
      (split; [|left; reflexivity]); intros ii vv E; cbn [wp] in E; try discriminate E.
    inversion E; subst. unfold reply_of in Em. destruct (raises c ii); inversion Em. reflexivity. }
  all: dall Hst; inversion Hst; subst; clear Hst; wnorm; eexists; (split; [reflexivity|]);
    (split; [intros ii vv E; cbn [wp] in E; discriminate E|]);
    first [ left; reflexivity
          | right; eexists; eexists; split; [unfold w_call; rewrite Hpc; reflexivity|];
            split; [reflexivity|]; intros v0 E; first [discriminate E | inversion E; subst; reflexivity] ].
Qed.

Lemma upd_same_inj : forall A (l : list A) j a b y,
  nth_error l j = Some y -> upd l j a = upd l j b -> a = b.
Proof.
  intros A l j a b y Hj E.
  pose proof (ExecSafe.nth_error_upd_same _ l j a y Hj) as H1.
  pose proof (ExecSafe.nth_error_upd_same _ l j b y Hj) as H2.
  rewrite E in H1. congruence.
Qed.

Lemma BI_wstep : forall c s j s' l,
  w_step c s j = Some (s', l) ->
  (forall w i, nth_error (ws s) j = Some w -> w_call w = Some i -> 1 <= i) ->
  BI c s -> BI c s'.
Proof.
  intros c s j s' l Hst Hrng H.
  destruct (nth_error (ws s) j) as [w|] eqn:Hj; [|unfold w_step in Hst; rewrite Hj in Hst; discriminate Hst].
  destruct H as [Ho1 Ho3 Ho4 Hch Hv1 Hv2].
  destruct (w_step_chan c s j s' l w Hst Hj (Ho1 j w Hj) (Hch j w Hj)) as (w' & Hws & Hc' & Hcase).
  destruct (w_step_vals c s j s' l w Hst Hj (Hch j w Hj)) as (w2 & Hws2 & Hv1' & Hf).
  assert (Ew : w2 = w') by (eapply upd_same_inj; [exact Hj|congruence]). subst w2. clear Hws2.
  pose proof (Ho1 j w Hj) as Hown.
  assert (Hlen : length (ps s) <= length (ps s')).
  { destruct Hcase as [(_ & _ & E)|(_ & _ & _ & E & _)]; [rewrite E, app_length; simpl; lia|lia]. }
  assert (Hsp' : spawnedb w' = true -> wp w <> WSpawn -> spawnedb w = true).
  { intros S' N. destruct Hcase as [(E & _)|(_ & _ & E & _)]; congruence. }
  constructor.
  - (* ow1 *)
    intros j2 x H2. rewrite Hws in H2.
    apply ExecSafe.nth_error_upd_inv in H2 as [(E1 & E2 & _)|(E1 & E2)].
    + subst x. destruct Hcase as [(_ & E & Ep)|(_ & Ewp & Esp & El & _)].
      * subst w'. unfold spawnedb. cbn [wp wproc]. rewrite Ep, app_length. simpl. lia.
      * rewrite Esp, Ewp, El. exact Hown.
    + specialize (Ho1 j2 x E2). destruct (spawnedb x); [lia|exact Ho1].
  - (* ow3 *)
    intros j1 j2 w1 w2 Hne E1 E2 S1 S2. rewrite Hws in E1, E2.
    apply ExecSafe.nth_error_upd_inv in E1 as [(A1 & B1 & _)|(A1 & B1)];
    apply ExecSafe.nth_error_upd_inv in E2 as [(A2 & B2 & _)|(A2 & B2)]; subst.
    + congruence.
    + destruct Hcase as [(_ & E & _)|(N & Ewp & _)].
      * subst w'. cbn [wproc]. pose proof (Ho1 j2 w2 B2) as Hb. rewrite S2 in Hb. lia.
      * rewrite Ewp. eapply (Ho3 j j2 w w2); eauto.
    + destruct Hcase as [(_ & E & _)|(N & Ewp & _)].
      * subst w'. cbn [wproc]. pose proof (Ho1 j1 w1 B1) as Hb. rewrite S1 in Hb. lia.
      * rewrite Ewp. eapply (Ho3 j1 j w1 w); eauto.
    + eapply (Ho3 j1 j2 w1 w2); eauto.
  - (* ow4 *)
    intros k Hk. rewrite Hws.
    assert (Hself : nth_error (upd (ws s) j w') j = Some w') by (eapply ExecSafe.nth_error_upd_same; exact Hj).
    destruct Hcase as [(Epc & E & Ep)|(N & Ewp & Esp & El & _)].
    + rewrite Ep, app_length in Hk. simpl in Hk.
      destruct (Nat.eq_dec k (S (length (ps s)))) as [Ek|Ek].
      * exists j, w'. split; [exact Hself|]. subst w'. split; [reflexivity|]. cbn [wproc]. lia.
      * destruct (Ho4 k) as (m & x & Hm & Sx & Hx); [lia|].
        exists m, x. split; [|split; assumption]. rewrite ExecSafe.nth_error_upd_other; [exact Hm|].
        intros Ej. subst m. rewrite Hj in Hm. inversion Hm; subst x. unfold spawnedb in Sx. rewrite Epc in Sx. discriminate Sx.
    + destruct (Ho4 k) as (m & x & Hm & Sx & Hx); [lia|].
      destruct (Nat.eq_dec m j) as [Ej|Ej].
      * subst m. rewrite Hj in Hm. inversion Hm; subst x. exists j, w'. split; [exact Hself|].
        split; congruence.
      * exists m, x. split; [|split; assumption]. rewrite ExecSafe.nth_error_upd_other; [exact Hm|lia].
  - (* chan *)
    intros j2 x H2. rewrite Hws in H2.
    apply ExecSafe.nth_error_upd_inv in H2 as [(E1 & E2 & _)|(E1 & E2)]; [subst x; exact Hc'|].
    destruct (spawnedb x) eqn:Sx; [|apply chanS_unspawned; exact Sx].
    pose proof (Ho1 j2 x E2) as Hox. rewrite Sx in Hox.
    pose proof (Hch j2 x E2) as Hcx. unfold getp in *.
    destruct Hcase as [(_ & _ & Ep)|(N & Ewp & Esp & El & Hoth & Hun)].
    + rewrite Ep, app_nth1 by lia. exact Hcx.
    + destruct (spawnedb w) eqn:Sw.
      * rewrite Hoth; [exact Hcx|]. intros Eq.
        apply (Ho3 j2 j x w E1 E2 Hj Sx Sw). lia.
      * rewrite (Hun eq_refl). exact Hcx.
  - (* v1 *)
    intros j2 x i v H2 Hp. rewrite Hws in H2.
    apply ExecSafe.nth_error_upd_inv in H2 as [(E1 & E2 & _)|(E1 & E2)]; [subst x; eauto|eauto].
  - (* v2 *)
    intros i v Hi Hfi. destruct Hf as [Ef|(i0 & f & Hca & Ef & Hres)]; unfold getf in *; rewrite Ef in Hfi.
    + apply (Hv2 i v Hi Hfi).
    + destruct (ExecSafe.nth_upd_cases _ (futs s) (i - 1) (i0 - 1) f FPending) as [(E1 & L & Hx)|(E1 & Hx)];
        rewrite Hx in Hfi; [|apply (Hv2 i v Hi Hfi)].
      subst f. pose proof (Hres v eq_refl) as Hpc. pose proof (Hrng w i0 eq_refl Hca) as Hi0.
      pose proof (Hv1 j w i0 v Hj Hpc). lia.
Qed.

(* ---- a process step ---- *)
Lemma BI_pstep : forall c s k s' l, p_step c s k = Some (s', l) -> BI c s -> BI c s'.
Proof.
  intros c s k s' l Hst [Ho1 Ho3 Ho4 Hch Hv1 Hv2].
  assert (HC : DepLive.CH c s).
  { intros w Hw. apply In_nth_error in Hw. destruct Hw as [j Hj]. eapply Hch; exact Hj. }
  destruct (DepLive.CH_pstep _ _ _ _ _ Hst HC) as (HC' & Ew & El).
  pose proof (DepSafe.p_step_futs _ _ _ _ _ Hst) as Ef.
  constructor.
  - intros j w Hj. rewrite Ew in Hj. rewrite El. eapply Ho1; exact Hj.
  - rewrite Ew. exact Ho3.
  - rewrite Ew, El. exact Ho4.
  - intros j w Hj. apply HC'. eapply nth_error_In; exact Hj.
  - rewrite Ew. exact Hv1.
  - unfold getf in *. rewrite Ef. exact Hv2.
Qed.

(* ---- steps of the client, the dispatcher, the resolver: no worker or process moves,
        possibly one new (unspawned) worker thread ---- *)
Definition wgrow (s s' : state) : Prop :=
  ws s' = ws s \/ exists q, ws s' = ws s ++ [mkW q 0 WBegin].

Lemma BI_frame : forall c s s', wgrow s s' -> ps s' = ps s -> fmove s s' -> BI c s -> BI c s'.
Proof.
  intros c s s' Hw Ep Hf [Ho1 Ho3 Ho4 Hch Hv1 Hv2].
  assert (Hv2' : forall i v, 1 <= i -> getf s' i = FRes v -> v = i).
  { intros i v Hi Hfi. apply (Hv2 i v Hi). eapply fmove_fres; eauto. }
  destruct Hw as [Ew|[q Ew]].
  - constructor; unfold getp; rewrite ?Ew, ?Ep; try assumption.
  - assert (Hold : forall m x, nth_error (ws s ++ [mkW q 0 WBegin]) m = Some x ->
              nth_error (ws s) m = Some x \/ x = mkW q 0 WBegin).
    { intros m x Hx. apply ExecSafe.nth_error_snoc_inv in Hx. destruct Hx as [[_ Hx]|[_ Hx]]; [left; exact Hx|right; exact Hx]. }
    constructor; unfold getp; rewrite ?Ew, ?Ep; try assumption.
    + intros j w Hj. destruct (Hold j w Hj) as [Hj'|E]; [eapply Ho1; exact Hj'|subst w; reflexivity].
    + intros j j' w w' Hne E1 E2 S1 S2.
      destruct (Hold j w E1) as [E1'|E1']; [|subst w; discriminate S1].
      destruct (Hold j' w' E2) as [E2'|E2']; [|subst w'; discriminate S2].
      eapply (Ho3 j j' w w'); eauto.
    + intros k Hk. destruct (Ho4 k Hk) as (j & w & Hj & Sw & Hw). exists j, w.
      split; [apply ExecSafe.nth_error_app_l; exact Hj|split; assumption].
    + intros j w Hj. destruct (Hold j w Hj) as [Hj'|E]; [eapply Hch; exact Hj'|subst w; apply chanS_unspawned; reflexivity].
    + intros j w i v Hj Hp. destruct (Hold j w Hj) as [Hj'|E]; [eapply Hv1; eauto|subst w; discriminate Hp].
Qed.

Lemma BI_init : forall c n prog, BI c (init n prog).
Proof.
  intros c n prog. constructor; unfold init; fld.
  - intros j w Hj. destruct j; discriminate Hj.
  - intros j j' w w' _ Hj. destruct j; discriminate Hj.
  - intros k Hk. simpl in Hk. lia.
  - intros j w Hj. destruct j; discriminate Hj.
  - intros j w i v Hj. destruct j; discriminate Hj.
  - intros i v _ Hf. unfold getf in Hf. fld. cbn [futs] in Hf. rewrite nth_repeat_pending in Hf. discriminate Hf.
Qed.

(* ---- the dispatcher ---- *)
Lemma d_step_frame : forall c q x x' l, d_step c q x = Some (x', l) ->
  wgrow (base x) (base x') /\ ps (base x') = ps (base x) /\ futs (base x') = futs (base x).
Proof.
  intros c q x x' l H. unfold d_step in H. cbv zeta in H.
  destruct (disp x); dall H; inversion H; subst; clear H;
  rewrite ?base_after_puts; simpl; (split; [|split; reflexivity]);
  first [left; reflexivity | right; eexists; reflexivity].
Qed.

(* ================================================================== *)
(* the per-call-process executor                                      *)
(* ================================================================== *)

Lemma BI_xstep : forall c n x t x' l,
  XInv c n x -> xstep c x t = Some (x', l) -> BI (bcfg c) (base x) -> BI (bcfg c) (base x').
Proof.
  intros c n x t x' l HX Hst HB. destruct t as [| | |j|k]; simpl in Hst.
  - destruct (xm_step_eff _ _ _ _ Hst) as ((Ews & Eps & _) & _).
    eapply BI_frame; [left; exact Ews|exact Eps| |exact HB].
    apply fshape_fmove. eapply xm_step_fshape; exact Hst.
  - discriminate Hst.
  - destruct (d_step_frame _ _ _ _ _ Hst) as (Hw & Ep & Ef).
    eapply BI_frame; [exact Hw|exact Ep|left; exact Ef|exact HB].
  - destruct j as [|j]; [discriminate Hst|].
    destruct (w_step (bcfg c) (base x) j) as [[b l']|] eqn:Hw; [|discriminate Hst].
    inversion Hst; subst; clear Hst. simpl.
    eapply BI_wstep; [exact Hw| |exact HB].
    intros w i Hj Hca. apply (xcall_range c n x j w i HX Hj Hca).
  - destruct (p_step (bcfg c) (base x) k) as [[b l']|] eqn:Hp; [|discriminate Hst].
    inversion Hst; subst; clear Hst. simpl. eapply BI_pstep; [exact Hp|exact HB].
Qed.

Lemma BI_xreach : forall c n prog x,
  wf_prog n prog -> xreach c (xinit n prog) x -> BI (bcfg c) (base x).
Proof.
  intros c n prog x Hwf Hr. induction Hr as [|x t x' l Hr IH Hst].
  - apply BI_init.
  - eapply BI_xstep; [eapply xreach_inv; [exact Hwf|exact Hr]|exact Hst|exact IH].
Qed.

(* (S1) a finished future carries its own call's value.  The side condition 1 <= i is
   necessary: getf _ 0 reads the future of call 1 (index 0 - 1 = 0), see the counterexample
   step_fidelity_needs_range below. *)
Theorem step_fidelity : forall c n prog x i v,
  wf_prog n prog -> xreach c (xinit n prog) x -> 1 <= i ->
  getf (base x) i = FRes v -> v = i.
Proof.
  intros c n prog x i v Hwf Hr Hi Hf.
  exact (B_v2 _ _ (BI_xreach c n prog x Hwf Hr) i v Hi Hf).
Qed.
Print Assumptions step_fidelity.

(* (S2) the body of call i is only executed while future i is Running *)
Theorem step_body_running : forall c n prog x t x' i,
  wf_prog n prog -> xreach c (xinit n prog) x ->
  xstep c x t = Some (x', LBody i) -> getf (base x) i = FRunning.
Proof.
  intros c n prog x t x' i Hwf Hr Hst. pose proof (xreach_inv c n prog x Hwf Hr) as HX.
  destruct t as [| | |j|k]; simpl in Hst.
  - exfalso. eapply xm_step_nobody; exact Hst.
  - discriminate Hst.
  - exfalso. eapply d_step_nobody; exact Hst.
  - destruct j as [|j]; [discriminate Hst|].
    destruct (w_step (bcfg c) (base x) j) as [[b l']|] eqn:Hw; [|discriminate Hst].
    inversion Hst; subst. exfalso. eapply w_step_nobody; exact Hw.
  - destruct (p_step (bcfg c) (base x) k) as [[b l']|] eqn:Hp; [|discriminate Hst].
    inversion Hst; subst.
    destruct (p_step_body _ _ _ _ _ Hp) as (p & Hpk & Hk & Hpp).
    assert (Hin : In i (pexec p)) by (unfold pexec; rewrite Hpp; left; reflexivity).
    destruct (exec_owner c n x (k - 1) p i HX Hpk Hin) as (j & w & Hj & _ & Hpc).
    eapply xrun_is_running; [exact HX|exact Hj|]. unfold w_run. rewrite Hpc. reflexivity.
Qed.
Print Assumptions step_body_running.

(* (S3) a cancelled future stays cancelled; no reachability needed *)
Theorem step_cancelled_stable : forall c x t x' l i,
  xstep c x t = Some (x', l) ->
  (getf (base x) i = FCancelled \/ getf (base x) i = FCancelledN) ->
  (getf (base x') i = FCancelled \/ getf (base x') i = FCancelledN).
Proof.
  intros c x t x' l i Hst Hc. destruct t as [| | |j|k]; simpl in Hst.
  - eapply (fmove_cancd (base x) (base x')); [|exact Hc].
    apply fshape_fmove. eapply xm_step_fshape; exact Hst.
  - discriminate Hst.
  - destruct (d_step_frame _ _ _ _ _ Hst) as (_ & _ & Ef). unfold getf in *. rewrite Ef. exact Hc.
  - destruct j as [|j]; [discriminate Hst|].
    destruct (w_step (bcfg c) (base x) j) as [[b l']|] eqn:Hw; [|discriminate Hst].
    inversion Hst; subst; clear Hst. simpl.
    eapply (cancelled_stays (bcfg c) (base x) (TW (S j)) b _ i); [simpl; exact Hw|exact Hc].
  - destruct (p_step (bcfg c) (base x) k) as [[b l']|] eqn:Hp; [|discriminate Hst].
    inversion Hst; subst; clear Hst. simpl.
    eapply (cancelled_stays (bcfg c) (base x) (TP k) b _ i); [simpl; exact Hp|exact Hc].
Qed.
Print Assumptions step_cancelled_stable.

Lemma xreach_trans : forall c x0 x x', xreach c x0 x -> xreach c x x' -> xreach c x0 x'.
Proof.
  intros c x0 x x' H1 H2. induction H2 as [|x1 t x2 l _ IH Hs]; [exact H1|].
  eapply xreach_step; [exact IH|exact Hs].
Qed.

Lemma step_cancelled_reach : forall c x x' i, xreach c x x' ->
  (getf (base x) i = FCancelled \/ getf (base x) i = FCancelledN) ->
  (getf (base x') i = FCancelled \/ getf (base x') i = FCancelledN).
Proof.
  intros c x x' i H Hc. induction H as [|x1 t x2 l _ IH Hs]; [exact Hc|].
  eapply step_cancelled_stable; [exact Hs|exact IH].
Qed.

(* (S4) once future i is cancelled, the body of call i is never executed, in any continuation *)
Theorem step_cancelled_never_runs : forall c n prog x x' t x'' i,
  wf_prog n prog -> xreach c (xinit n prog) x ->
  (getf (base x) i = FCancelled \/ getf (base x) i = FCancelledN) ->
  xreach c x x' -> xstep c x' t = Some (x'', LBody i) -> False.
Proof.
  intros c n prog x x' t x'' i Hwf Hr Hc Hr' Hst.
  pose proof (step_cancelled_reach c x x' i Hr' Hc) as Hc'.
  assert (Hrun : getf (base x') i = FRunning).
  { eapply step_body_running; [exact Hwf| |exact Hst]. eapply xreach_trans; [exact Hr|exact Hr']. }
  destruct Hc' as [E|E]; rewrite E in Hrun; discriminate Hrun.
Qed.
Print Assumptions step_cancelled_never_runs.

(* ================================================================== *)
(* the dependency resolver                                            *)
(* ================================================================== *)

Lemma r_step_frame : forall c d d' l, r_step c d = Some (d', l) ->
  ws (dbase d') = ws (dbase d) /\ ps (dbase d') = ps (dbase d) /\ fmove (dbase d) (dbase d').
Proof.
  intros c d d' l H. unfold r_step in H. cbv zeta in H.
  destruct (rp d); dall H; inversion H; subst; clear H; xsn; simpl.
  all: split; [reflexivity|]; split; [reflexivity|].
  all: first [ left; reflexivity
             | right; eexists; eexists; split; [reflexivity|]; split;
               [ intros [E|E]; first [right; reflexivity | congruence]
               | intros v E; discriminate E ] ].
Qed.

Lemma dm_step_frame : forall c d d' l, dm_step c d = Some (d', l) ->
  wgrow (dbase d) (dbase d') /\ ps (dbase d') = ps (dbase d) /\ fmove (dbase d) (dbase d').
Proof.
  intros c d d' l H. unfold dm_step in H. cbv zeta in H. unfold dbase.
  assert (Hxm :
      match xm_step (dx c) (xs d) with Some (x', l0) => Some (set_xs d x', l0) | None => None end = Some (d', l) ->
      wgrow (base (xs d)) (base (xs d')) /\ ps (base (xs d')) = ps (base (xs d)) /\
      fmove (base (xs d)) (base (xs d'))).
  { intros Hx. destruct (xm_step (dx c) (xs d)) as [[x' l0]|] eqn:Hxs; [|discriminate Hx].
    inversion Hx; subst. simpl.
    destruct (xm_step_eff _ _ _ _ Hxs) as ((Ews & Eps & _) & _).
    split; [left; exact Ews|]. split; [exact Eps|]. apply fshape_fmove. eapply xm_step_fshape; exact Hxs. }
  destruct (main (base (xs d))) eqn:Hm; try (apply Hxm; exact H).
  - destruct (dinner c) as [[|n]|]; inversion H; subst; simpl;
    (split; [left; reflexivity|split; [reflexivity|left; reflexivity]]).
  - destruct (dinner c) as [n|].
    + destruct (Nat.ltb k n); inversion H; subst; simpl.
      * split; [right; eexists; reflexivity|split; [reflexivity|left; reflexivity]].
      * split; [left; apply ExecSafe.m_goto_ws|split; [apply ExecSafe.m_goto_ps|left; apply ExecSafe.m_goto_futs]].
    + destruct k; inversion H; subst; simpl.
      * split; [left; reflexivity|split; [reflexivity|left; reflexivity]].
      * split; [left; apply ExecSafe.m_goto_ws|split; [apply ExecSafe.m_goto_ps|left; apply ExecSafe.m_goto_futs]].
  - destruct (rdone (rp d)); [|discriminate H]. destruct (rp d); inversion H; subst; simpl;
    unfold wgrow, fmove; rewrite ?ExecSafe.m_done_ws, ?ExecSafe.m_done_ps, ?ExecSafe.m_done_futs;
    (split; [left; reflexivity|split; [reflexivity|left; reflexivity]]).
Qed.

Lemma BI_dstep : forall c n d t d' l,
  Inv4 c n d -> dstep c d t = Some (d', l) -> BI (bcfg (dx c)) (dbase d) -> BI (bcfg (dx c)) (dbase d').
Proof.
  intros c n d t d' l HI Hst HB. destruct t as [| | |j|k]; simpl in Hst.
  - destruct (dm_step_frame _ _ _ _ Hst) as (Hw & Ep & Hf). eapply BI_frame; eauto.
  - destruct (r_step_frame _ _ _ _ Hst) as (Ew & Ep & Hf). eapply BI_frame; [left; exact Ew|exact Ep|exact Hf|exact HB].
  - destruct (dinner c); [discriminate Hst|].
    destruct (d_step (dx c) 1 (xs d)) as [[x' l']|] eqn:Hd; [|discriminate Hst].
    inversion Hst; subst; clear Hst. unfold dbase in *. simpl.
    destruct (d_step_frame _ _ _ _ _ Hd) as (Hw & Ep & Ef).
    eapply BI_frame; [exact Hw|exact Ep|left; exact Ef|exact HB].
  - destruct j as [|j]; [discriminate Hst|].
    destruct (w_step (bcfg (dx c)) (dbase d) j) as [[b l']|] eqn:Hw; [|discriminate Hst].
    inversion Hst; subst; clear Hst. unfold dbase in *. simpl.
    eapply BI_wstep; [exact Hw| |exact HB].
    intros w i Hj Hca. destruct HI as ((_ & HW & _) & _).
    destruct (HW w (nth_error_In _ _ Hj)) as [_ Hc]. apply (Hc i Hca).
  - destruct (p_step (bcfg (dx c)) (dbase d) k) as [[b l']|] eqn:Hp; [|discriminate Hst].
    inversion Hst; subst; clear Hst. unfold dbase in *. simpl. eapply BI_pstep; [exact Hp|exact HB].
Qed.

Lemma BI_dreach : forall c n prog d,
  wf_prog n prog -> dreach c (dinit n prog) d -> BI (bcfg (dx c)) (dbase d).
Proof.
  intros c n prog d Hwf Hr. induction Hr as [|d t d' l Hr IH Hst].
  - apply BI_init.
  - eapply BI_dstep; [eapply Inv4_reach; [exact Hwf|exact Hr]|exact Hst|exact IH].
Qed.

(* the worker that owns a process executing the body of call i is waiting for that reply *)
Lemma body_owner : forall c s k p i,
  BI c s -> nth_error (ps s) (k - 1) = Some p -> k <> 0 -> pp p = PBody i ->
  exists j w, nth_error (ws s) j = Some w /\ wp w = WRecv i.
Proof.
  intros c s k p i HB Hp Hk Hpp.
  assert (Hkl : 1 <= k <= length (ps s)).
  { assert (k - 1 < length (ps s)) by (apply nth_error_Some; congruence). lia. }
  destruct (B_ow4 _ _ HB k Hkl) as (j & w & Hj & Sw & Hw).
  exists j, w. split; [exact Hj|].
  pose proof (B_chan _ _ HB j w Hj) as Hc. rewrite Hw in Hc. unfold getp in Hc.
  rewrite (ExecSafe.nth_error_nth' _ _ _ _ _ Hp) in Hc.
  unfold spawnedb in Sw.
  destruct p as [pc ib ob]. cbn [pp] in Hpp. subst pc.
  unfold chanS, chan_ok, chan2, serving, quiet, p_idle, palive in Hc. cbn [pp inbox outbox] in Hc.
  destruct (wp w); try discriminate Sw; simpl in Hc; try discriminate Hc;
    rewrite ?andb_true_r, ?orb_false_r, ?andb_false_r in Hc; try discriminate Hc.
  repeat (apply andb_true_iff in Hc; destruct Hc as [Hc _]).
  apply Nat.eqb_eq in Hc. subst. reflexivity.
Qed.

(* (D1) a finished future carries its own call's value; both inner executors.
   As for (S1) the side condition 1 <= i is necessary. *)
Theorem dep_fidelity : forall c n prog d i v,
  wf_prog n prog -> wf_deps c n -> dreach c (dinit n prog) d -> 1 <= i ->
  getf (dbase d) i = FRes v -> v = i.
Proof.
  intros c n prog d i v Hwf _ Hr Hi Hf.
  exact (B_v2 _ _ (BI_dreach c n prog d Hwf Hr) i v Hi Hf).
Qed.
Print Assumptions dep_fidelity.

(* (D2) the body of call i is only executed while future i is Running; both inner executors.
   (The converse does not hold: on the resolver's failure path RFailSrnc / RFailSet a future is
   marked Running and then receives an exception without any body step; that path produces
   the labels LSrnc / LSetExc only, never LBody, so it is irrelevant here.) *)
Theorem dep_body_running : forall c n prog d t d' i,
  wf_prog n prog -> wf_deps c n -> dreach c (dinit n prog) d ->
  dstep c d t = Some (d', LBody i) -> getf (dbase d) i = FRunning.
Proof.
  intros c n prog d t d' i Hwf _ Hr Hst.
  pose proof (BI_dreach c n prog d Hwf Hr) as HB.
  pose proof (Inv4_reach c n prog d Hwf Hr) as (_ & _ & _ & (HO & _)).
  destruct t as [| | |j|k]; simpl in Hst.
  - exfalso. eapply dm_step_nobody; exact Hst.
  - exfalso. eapply r_step_nobody; exact Hst.
  - destruct (dinner c); [discriminate Hst|].
    destruct (d_step (dx c) 1 (xs d)) as [[x' l']|] eqn:Hd; [|discriminate Hst].
    inversion Hst; subst. exfalso. eapply d_step_nobody; exact Hd.
  - destruct j as [|j]; [discriminate Hst|].
    destruct (w_step (bcfg (dx c)) (dbase d) j) as [[b l']|] eqn:Hw; [|discriminate Hst].
    inversion Hst; subst. exfalso. eapply w_step_nobody; exact Hw.
  - destruct (p_step (bcfg (dx c)) (dbase d) k) as [[b l']|] eqn:Hp; [|discriminate Hst].
    inversion Hst; subst.
    destruct (p_step_body _ _ _ _ _ Hp) as (p & Hpk & Hk & Hpp).
    destruct (body_owner _ _ k p i HB Hpk Hk Hpp) as (j & w & Hj & Hpc).
    assert (Hown : wown w = Some i) by (unfold wown; rewrite Hpc; reflexivity).
    pose proof (HO w i (nth_error_In _ _ Hj) Hown) as Hrun.
    unfold getf. apply isrun_inv. exact Hrun.
Qed.
Print Assumptions dep_body_running.

(* (D3) a cancelled future stays cancelled; no reachability needed; both inner executors *)
Theorem dep_cancelled_stable : forall c d t d' l i,
  dstep c d t = Some (d', l) ->
  (getf (dbase d) i = FCancelled \/ getf (dbase d) i = FCancelledN) ->
  (getf (dbase d') i = FCancelled \/ getf (dbase d') i = FCancelledN).
Proof.
  intros c d t d' l i Hst Hc. destruct t as [| | |j|k]; simpl in Hst.
  - destruct (dm_step_frame _ _ _ _ Hst) as (_ & _ & Hf). eapply (fmove_cancd _ _ i Hf); exact Hc.
  - destruct (r_step_frame _ _ _ _ Hst) as (_ & _ & Hf). eapply (fmove_cancd _ _ i Hf); exact Hc.
  - destruct (dinner c); [discriminate Hst|].
    destruct (d_step (dx c) 1 (xs d)) as [[x' l']|] eqn:Hd; [|discriminate Hst].
    inversion Hst; subst; clear Hst. unfold dbase in *. simpl.
    destruct (d_step_frame _ _ _ _ _ Hd) as (_ & _ & Ef). unfold getf in *. rewrite Ef. exact Hc.
  - destruct j as [|j]; [discriminate Hst|].
    destruct (w_step (bcfg (dx c)) (dbase d) j) as [[b l']|] eqn:Hw; [|discriminate Hst].
    inversion Hst; subst; clear Hst. unfold dbase in *. simpl.
    eapply (cancelled_stays (bcfg (dx c)) (base (xs d)) (TW (S j)) b _ i); [simpl; exact Hw|exact Hc].
  - destruct (p_step (bcfg (dx c)) (dbase d) k) as [[b l']|] eqn:Hp; [|discriminate Hst].
    inversion Hst; subst; clear Hst. unfold dbase in *. simpl.
    eapply (cancelled_stays (bcfg (dx c)) (base (xs d)) (TP k) b _ i); [simpl; exact Hp|exact Hc].
Qed.
Print Assumptions dep_cancelled_stable.

Lemma dreach_trans : forall c d0 d d', dreach c d0 d -> dreach c d d' -> dreach c d0 d'.
Proof.
  intros c d0 d d' H1 H2. induction H2 as [|d1 t d2 l _ IH Hs]; [exact H1|].
  eapply dreach_step; [exact IH|exact Hs].
Qed.

Lemma dep_cancelled_reach : forall c d d' i, dreach c d d' ->
  (getf (dbase d) i = FCancelled \/ getf (dbase d) i = FCancelledN) ->
  (getf (dbase d') i = FCancelled \/ getf (dbase d') i = FCancelledN).
Proof.
  intros c d d' i H Hc. induction H as [|d1 t d2 l _ IH Hs]; [exact Hc|].
  eapply dep_cancelled_stable; [exact Hs|exact IH].
Qed.

(* (D4) once future i is cancelled, the body of call i is never executed, in any continuation;
   both inner executors *)
Theorem dep_cancelled_never_runs : forall c n prog d d' t d'' i,
  wf_prog n prog -> wf_deps c n -> dreach c (dinit n prog) d ->
  (getf (dbase d) i = FCancelled \/ getf (dbase d) i = FCancelledN) ->
  dreach c d d' -> dstep c d' t = Some (d'', LBody i) -> False.
Proof.
  intros c n prog d d' t d'' i Hwf Hwd Hr Hc Hr' Hst.
  pose proof (dep_cancelled_reach c d d' i Hr' Hc) as Hc'.
  assert (Hrun : getf (dbase d') i = FRunning).
  { eapply dep_body_running; [exact Hwf|exact Hwd| |exact Hst]. eapply dreach_trans; [exact Hr|exact Hr']. }
  destruct Hc' as [E|E]; rewrite E in Hrun; discriminate Hrun.
Qed.
Print Assumptions dep_cancelled_never_runs.

(* ================================================================== *)
(* the side condition 1 <= i of (S1) and (D1) cannot be dropped        *)
(* ================================================================== *)

Fixpoint xrun (c : xcfg) (sched : list tid) (x : xstate) : option xstate :=
  match sched with
  | [] => Some x
  | t :: r => match xstep c x t with Some (x', _) => xrun c r x' | None => None end
  end.

Lemma xrun_reach : forall c sched x0 x x', xreach c x0 x -> xrun c sched x = Some x' -> xreach c x0 x'.
Proof.
  intros c sched. induction sched as [|t r IH]; intros x0 x x' Hr H; simpl in H.
  - inversion H; subst. exact Hr.
  - destruct (xstep c x t) as [[x1 l]|] eqn:Hs; [|discriminate H].
    eapply IH; [|exact H]. eapply xreach_step; [exact Hr|exact Hs].
Qed.

Fixpoint drun (c : dcfg) (sched : list tid) (d : dstate) : option dstate :=
  match sched with
  | [] => Some d
  | t :: r => match dstep c d t with Some (d', _) => drun c r d' | None => None end
  end.

Lemma drun_reach : forall c sched d0 d d', dreach c d0 d -> drun c sched d = Some d' -> dreach c d0 d'.
Proof.
  intros c sched. induction sched as [|t r IH]; intros d0 d d' Hr H; simpl in H.
  - inversion H; subst. exact Hr.
  - destruct (dstep c d t) as [[d1 l]|] eqn:Hs; [|discriminate H].
    eapply IH; [|exact H]. eapply dreach_step; [exact Hr|exact Hs].
Qed.

Definition cx0 : xcfg := mkXC (fun _ => false) (fun _ => 1) None None.
Definition sched_x : list tid :=
  [TM; TM; TM; TD; TD; TD; TD; TD; TW 1; TW 1; TW 1; TW 1; TW 1; TP 1; TP 1; TP 1; TP 1; TW 1; TW 1].
Definition sched_d : list tid :=
  [TM; TM; TM; TM; TR; TR; TR; TW 1; TW 1; TW 1; TW 1; TW 1; TP 1; TP 1; TP 1; TP 1; TW 1; TW 1].
Definition sched_ds : list tid :=
  [TM; TM; TM; TM; TR; TR; TR; TD; TD; TD; TD; TD; TW 1; TW 1; TW 1; TW 1; TW 1; TP 1; TP 1; TP 1; TP 1; TW 1; TW 1].
Definition cd0 (k : inner_kind) : dcfg := mkDC cx0 k (fun _ => []).

Lemma wf_prog_one : wf_prog 1 [OSubmit 1].
Proof.
  split; [|split].
  - simpl. constructor; [intros []|constructor].
  - simpl. intros i [E|[]]. subst. lia.
  - simpl. intros [E|[]]. discriminate E.
Qed.

(* without 1 <= i: the future of call 1 is read through index 0 *)
Theorem step_fidelity_needs_range :
  exists c n prog x i v, wf_prog n prog /\ xreach c (xinit n prog) x /\
                         getf (base x) i = FRes v /\ v <> i.
Proof.
  destruct (xrun cx0 sched_x (xinit 1 [OSubmit 1])) as [x|] eqn:Hx; [|vm_compute in Hx; discriminate Hx].
  exists cx0, 1, [OSubmit 1], x, 0, 1.
  split; [exact wf_prog_one|]. split; [eapply xrun_reach; [apply xreach_init|exact Hx]|].
  vm_compute in Hx. inversion Hx; subst. split; [reflexivity|discriminate].
Qed.
Print Assumptions step_fidelity_needs_range.

Theorem dep_fidelity_needs_range : forall k, k = IBlock 1 \/ k = IStep ->
  exists c n prog d i v, dinner c = k /\ wf_prog n prog /\ wf_deps c n /\ dreach c (dinit n prog) d /\
                         getf (dbase d) i = FRes v /\ v <> i.
Proof.
  assert (Hwd : forall k, wf_deps (cd0 k) 1) by (intros k i j []).
  intros k [E|E]; subst k.
  - destruct (drun (cd0 (IBlock 1)) sched_d (dinit 1 [OSubmit 1])) as [d|] eqn:Hd; [|vm_compute in Hd; discriminate Hd].
    exists (cd0 (IBlock 1)), 1, [OSubmit 1], d, 0, 1.
    split; [reflexivity|]. split; [exact wf_prog_one|]. split; [apply Hwd|].
    split; [eapply drun_reach; [apply dreach_init|exact Hd]|].
    vm_compute in Hd. inversion Hd; subst. split; [reflexivity|discriminate].
  - destruct (drun (cd0 IStep) sched_ds (dinit 1 [OSubmit 1])) as [d|] eqn:Hd; [|vm_compute in Hd; discriminate Hd].
    exists (cd0 IStep), 1, [OSubmit 1], d, 0, 1.
    split; [reflexivity|]. split; [exact wf_prog_one|]. split; [apply Hwd|].
    split; [eapply drun_reach; [apply dreach_init|exact Hd]|].
    vm_compute in Hd. inversion Hd; subst. split; [reflexivity|discriminate].
Qed.
Print Assumptions dep_fidelity_needs_range.
