(* Corollaries of the safety invariants of the block-executor model. *)
From Coq Require Import List Bool Arith Lia.
From EL Require Import Model.Exec Model.ExecInv Proofs.ExecSafe.
Import ListNotations.

Lemma reach_trans c s0 s s' : reach c s0 s -> reach c s s' -> reach c s0 s'.
Proof.
  intros H1 H2. induction H2 as [|s1 t s2 l _ IH Hs]; [exact H1|].
  eapply reach_step; [exact IH|exact Hs].
Qed.

Definition is_cancelled (f : fstate) : Prop := f = FCancelled \/ f = FCancelledN.

Lemma cancelled_reach c s s' i : reach c s s' -> is_cancelled (getf s i) -> is_cancelled (getf s' i).
Proof.
  intros H Hc. induction H as [|s1 t s2 l _ IH Hs]; [exact Hc|].
  eapply cancelled_stays; [exact Hs|exact IH].
Qed.

(* once a future is cancelled its function body is never executed, in any continuation *)
Theorem cancelled_never_runs c n prog s s' t s'' i :
  wf_prog n prog -> reach c (init n prog) s -> is_cancelled (getf s i) ->
  reach c s s' -> step c s' t = Some (s'', LBody i) -> False.
Proof.
  intros Hwf Hr Hc Hr' Hs.
  assert (Hc' : is_cancelled (getf s' i)) by (eapply cancelled_reach; eassumption).
  assert (Hrun : getf s' i = FRunning).
  { eapply body_needs_running; [exact Hwf| |exact Hs]. eapply reach_trans; eassumption. }
  destruct Hc' as [E|E]; rewrite E in Hrun; discriminate.
Qed.

(* cancel() answers True exactly when it leaves the future cancelled *)
Lemma fcancel_true f : snd (fcancel f) = true -> is_cancelled (fst (fcancel f)).
Proof. destruct f; simpl; intros H; try discriminate; [left|left|right]; reflexivity. Qed.
