(* Refutation witnesses on the file-executor model (Model/FileExec.v) for property C06
   ("a call whose cancel() returned True is never executed; a started call is completed"),
   findings D22 and D26: concrete runs checked by vm_compute.  In all of them the calls have no
   Future arguments (fdeps empty), fcanon is the identity and the cache directory is empty at
   the start.
     file_cancel_true_yet_executed          cancel() returns True on a pending future, the call's
                                            function is executed all the same (both orders of
                                            "cancel" and "the loop thread takes the task")
     file_cancel_kills_loop                 a cancel between the loop's done() test and its
                                            set_result kills the loop thread (InvalidStateError)
     file_shutdown_terminates_started_call  shutdown(cancel_futures=True) terminates a call that
                                            has already run its function; its future stays
                                            pending for ever in a state where nothing is enabled *)
From Coq Require Import List Bool Arith Lia.
From EL Require Import Model.Exec Model.ExecInv Model.StepExec Model.FileExec Model.FileSpec Proofs.FileSafe.
Import ListNotations.

(* ---------- running a schedule, with the labels ---------- *)
Fixpoint ftrace (c : fcfg) (l : list tid) (s : fstateX) : option (fstateX * list flabel) :=
  match l with
  | [] => Some (s, [])
  | t :: r =>
      match fstep c s t with
      | Some (s', lb) =>
          match ftrace c r s' with
          | Some (sf, tr) => Some (sf, lb :: tr)
          | None => None
          end
      | None => None
      end
  end.

Lemma ftrace_frun : forall c l s sf tr, ftrace c l s = Some (sf, tr) -> frun c l s = Some sf.
Proof.
  intros c l. induction l as [|t r IH]; intros s sf tr H; simpl in *.
  - inversion H; subst. reflexivity.
  - destruct (fstep c s t) as [[s1 lb]|]; [|discriminate].
    destruct (ftrace c r s1) as [[sf1 tr1]|] eqn:E; [|discriminate]. inversion H; subst.
    eapply IH; eauto.
Qed.

Lemma ftrace_reach : forall c l s sf tr, ftrace c l s = Some (sf, tr) -> freach c s sf.
Proof. intros c l s sf tr H. eapply frun_reach. eapply ftrace_frun; eauto. Qed.

Definition trace_or (c : fcfg) (l : list tid) (s : fstateX) : list flabel :=
  match ftrace c l s with Some (_, tr) => tr | None => [] end.

Definition rf_cfg : fcfg := mkFC (fun _ => []) (fun i => i).
Definition k1 : key := (1, []).

(* ================================================================== *)
(* (a) cancel() returned True, the call is executed                    *)
(* ================================================================== *)
Definition ra_prog : list op := [OSubmit 1; OCancel 1].
Definition ra_init : fstateX := finit 1 ra_prog [].

(* order 1: the client cancels while the task is still in the queue; the loop thread then takes
   it, never looks at the future, and launches the process *)
Definition ra1_pre : list tid := rp 3 TM.                        (* begin, start F, submit *)
Definition ra1_rest : list tid := rp 12 TD ++ rp 7 (TP 1).       (* F: ... spawn, task_done; P1: ... body *)
Definition ra1_s0 : fstateX := run_or rf_cfg ra1_pre ra_init.
Definition ra1_s1 : fstateX := run_or rf_cfg [TM] ra1_s0.
Definition ra1_s2 : fstateX := run_or rf_cfg ra1_rest ra1_s1.

(* order 2: the loop thread has taken the task (and is converting it) when the client cancels *)
Definition ra2_pre : list tid := rp 3 TM ++ rp 2 TD.
Definition ra2_rest : list tid := rp 10 TD ++ rp 7 (TP 1).
Definition ra2_s0 : fstateX := run_or rf_cfg ra2_pre ra_init.
Definition ra2_s1 : fstateX := run_or rf_cfg [TM] ra2_s0.
Definition ra2_s2 : fstateX := run_or rf_cfg ra2_rest ra2_s1.

Example file_cancel_true_yet_executed :
  (* order 1 *)
  (frun rf_cfg ra1_pre ra_init = Some ra1_s0
   /\ q0 (fbase ra1_s0) = [Task 1] /\ fpc ra1_s0 = GNone                 (* the task is still queued *)
   /\ fut ra1_s0 1 = FPending
   /\ fstep rf_cfg ra1_s0 TM = Some (ra1_s1, FL (LCancel 1))
   /\ fut ra1_s1 1 = FCancelled /\ outs (fbase ra1_s1) = [XOk; XBool true]   (* cancel() returned True *)
   /\ ftrace rf_cfg ra1_rest ra1_s1 = Some (ra1_s2, trace_or rf_cfg ra1_rest ra1_s1)
   /\ last (trace_or rf_cfg ra1_rest ra1_s1) LListdir = FL (LBody 1)       (* ... and the function runs *)
   /\ fut ra1_s2 1 = FCancelled
   /\ freach rf_cfg ra_init ra1_s2)
  /\
  (* order 2 *)
  (frun rf_cfg ra2_pre ra_init = Some ra2_s0
   /\ q0 (fbase ra2_s0) = [] /\ fpc ra2_s0 = GListdir 1 k1 []            (* the loop thread holds the task *)
   /\ fut ra2_s0 1 = FPending
   /\ fstep rf_cfg ra2_s0 TM = Some (ra2_s1, FL (LCancel 1))
   /\ fut ra2_s1 1 = FCancelled /\ outs (fbase ra2_s1) = [XOk; XBool true]
   /\ ftrace rf_cfg ra2_rest ra2_s1 = Some (ra2_s2, trace_or rf_cfg ra2_rest ra2_s1)
   /\ last (trace_or rf_cfg ra2_rest ra2_s1) LListdir = FL (LBody 1)
   /\ fut ra2_s2 1 = FCancelled
   /\ freach rf_cfg ra_init ra2_s2).
Proof.
  split.
  - repeat (split; [vm_compute; reflexivity|]).
    apply frun_reach with (l := ra1_pre ++ [TM] ++ ra1_rest). vm_compute. reflexivity.
  - repeat (split; [vm_compute; reflexivity|]).
    apply frun_reach with (l := ra2_pre ++ [TM] ++ ra2_rest). vm_compute. reflexivity.
Qed.

(* the same as one run: some schedule has the step LCancel 1 (outcome True) before LBody 1 *)
Corollary file_cancel_true_yet_executed_run :
  exists sched s tr n1 n2,
    ftrace rf_cfg sched ra_init = Some (s, tr) /\ freach rf_cfg ra_init s
    /\ n1 < n2 /\ nth_error tr n1 = Some (FL (LCancel 1)) /\ nth_error tr n2 = Some (FL (LBody 1))
    /\ outs (fbase s) = [XOk; XBool true].
Proof.
  exists (ra1_pre ++ [TM] ++ ra1_rest), ra1_s2, (trace_or rf_cfg (ra1_pre ++ [TM] ++ ra1_rest) ra_init), 3, 22.
  assert (E : ftrace rf_cfg (ra1_pre ++ [TM] ++ ra1_rest) ra_init
              = Some (ra1_s2, trace_or rf_cfg (ra1_pre ++ [TM] ++ ra1_rest) ra_init))
    by (vm_compute; reflexivity).
  split; [exact E|]. split; [eapply ftrace_reach; exact E|].
  split; [lia|]. repeat (split; [vm_compute; reflexivity|]). vm_compute; reflexivity.
Qed.

(* ================================================================== *)
(* (b) a cancel between done() and set_result kills the loop thread    *)
(* ================================================================== *)
(* submit; F launches P1; P1 runs to the end (result file written); F scans memory_dict:
   done()? no - exists - open - read - close: F is about to call set_result *)
Definition rb_pre : list tid := rp 3 TM ++ rp 13 TD ++ rp 12 (TP 1) ++ rp 5 TD.
Definition rb_s0 : fstateX := run_or rf_cfg rb_pre ra_init.
Definition rb_s1 : fstateX := run_or rf_cfg [TM] rb_s0.
Definition rb_s2 : fstateX := run_or rf_cfg [TD] rb_s1.

Example file_cancel_kills_loop :
  frun rf_cfg rb_pre ra_init = Some rb_s0
  /\ fpc rb_s0 = GSetRes k1 1 [] [] /\ fut rb_s0 1 = FPending          (* past the done() test *)
  /\ fs_get (fsy rb_s0) (k1, EOut) = Some [DFn; DArgs; DKw; DOut]      (* the call has completed *)
  /\ fstep rf_cfg rb_s0 TM = Some (rb_s1, FL (LCancel 1))
  /\ fut rb_s1 1 = FCancelled /\ outs (fbase rb_s1) = [XOk; XBool true]
  /\ fstep rf_cfg rb_s1 TD = Some (rb_s2, FL (LSetRes 1 1))            (* set_result raises *)
  /\ fpc rb_s2 = GDead /\ disp (fx rb_s2) = DDead /\ loop_alive rb_s2 = false
  /\ freach rf_cfg ra_init rb_s2.
Proof.
  repeat (split; [vm_compute; reflexivity|]).
  apply frun_reach with (l := rb_pre ++ [TM; TD]). vm_compute. reflexivity.
Qed.

(* ================================================================== *)
(* (c) shutdown(cancel_futures=True) terminates a call that has started *)
(* ================================================================== *)
Definition rc_prog : list op := [OSubmit 1; OShutdown true true].
Definition rc_init : fstateX := finit 1 rc_prog [].

(* submit; F launches P1; P1 runs its function and renames its input file *)
Definition rc_pre : list tid := rp 3 TM ++ rp 12 TD ++ rp 8 (TP 1).
(* the client's shutdown: nothing left to cancel in the queue, puts the shutdown message *)
Definition rc_shut : list tid := rp 2 TM.
(* F: takes the message, terminates P1, polls it, task_done, queue join; client: joins F and the queue *)
Definition rc_end : list tid := rp 3 TD ++ rp 2 TM.
Definition rc_s0 : fstateX := run_or rf_cfg rc_pre rc_init.
Definition rc_s1 : fstateX := run_or rf_cfg rc_shut rc_s0.
Definition rc_s2 : fstateX := run_or rf_cfg [TD] rc_s1.
Definition rc_s3 : fstateX := run_or rf_cfg [TD] rc_s2.
Definition rc_s4 : fstateX := run_or rf_cfg rc_end rc_s3.

Example file_shutdown_terminates_started_call :
  ftrace rf_cfg rc_pre rc_init = Some (rc_s0, trace_or rf_cfg rc_pre rc_init)
  /\ nth_error (trace_or rf_cfg rc_pre rc_init) 21 = Some (FL (LBody 1))      (* the function has run *)
  /\ map qpc (fps rc_s0) = [QOpenR]
  /\ frun rf_cfg rc_shut rc_s0 = Some rc_s1
  /\ fstep rf_cfg rc_s1 TD = Some (rc_s2, FL (LGetNw 0 (Some (Shut true))))   (* F takes the message *)
  /\ fpc rc_s2 = GTerm [1] /\ map qpc (fps rc_s2) = [QOpenR]                  (* P1 still running *)
  /\ fstep rf_cfg rc_s2 TD = Some (rc_s3, FL (LPTerm 1))
  /\ map qpc (fps rc_s3) = [QExit]                                            (* terminated *)
  /\ frun rf_cfg rc_end rc_s3 = Some rc_s4
  /\ fpc rc_s4 = GDone /\ main (fbase rc_s4) = MEnd /\ outs (fbase rc_s4) = [XOk; XOk]
  /\ map qpc (fps rc_s4) = [QExit]
  /\ fs_has (fsy rc_s4) (k1, EOut) = false
  /\ fut rc_s4 1 = FPending                                                   (* pending for ever: *)
  /\ fenabled rf_cfg rc_s4 = []                                               (* nothing can move *)
  /\ freach rf_cfg rc_init rc_s4.
Proof.
  repeat (split; [vm_compute; reflexivity|]).
  apply frun_reach with (l := rc_pre ++ rc_shut ++ [TD; TD] ++ rc_end). vm_compute. reflexivity.
Qed.

Print Assumptions file_cancel_true_yet_executed.
Print Assumptions file_cancel_true_yet_executed_run.
Print Assumptions file_cancel_kills_loop.
Print Assumptions file_shutdown_terminates_started_call.
