(* Property C11: with a single worker the calls are executed in the order in which they were
   submitted.  Main results: single_worker_submission_order, no_call_executed_twice.
   The invariant over (state, trace) is
       subseq (bodies tr ++ held s ++ qtasks (q0 s)) (subm s)
   where [held s] is the call the worker has taken from the queue and whose body has not yet
   run and [qtasks (q0 s)] are the calls still in the queue, together with the safety
   invariant [Inv] of Proofs/ExecSafe.v. *)
From Coq Require Import List Bool Arith Lia.
From EL Require Import Model.Exec Model.ExecInv Proofs.ExecSafe.
Import ListNotations.

(* ================= statements ================= *)
Inductive reach_tr (c : cfg) (s0 : state) : state -> list label -> Prop :=          (* newest label first *)
| reach_tr_init : reach_tr c s0 s0 []
| reach_tr_step : forall s tr t s' l, reach_tr c s0 s tr -> step c s t = Some (s', l) -> reach_tr c s0 s' (l :: tr).

Definition bodies (tr : list label) : list nat :=                                   (* calls executed, oldest first *)
  rev (flat_map (fun l => match l with LBody i => [i] | _ => [] end) tr).

Inductive subseq {A} : list A -> list A -> Prop :=
| ss_nil : forall l, subseq [] l
| ss_skip : forall a l x, subseq a l -> subseq a (x :: l)
| ss_take : forall a l x, subseq a l -> subseq (x :: a) (x :: l).

(* ================= subseq ================= *)
Lemma subseq_refl : forall A (l : list A), subseq l l.
Proof. intros A l. induction l as [|x l IH]; [apply ss_nil|apply ss_take; exact IH]. Qed.

Lemma subseq_trans : forall A (b c : list A), subseq b c -> forall a, subseq a b -> subseq a c.
Proof.
  intros A b c Hbc. induction Hbc as [l|b l x Hbl IH|b l x Hbl IH]; intros a Hab.
  - inversion Hab; subst. apply ss_nil.
  - apply ss_skip. apply IH. exact Hab.
  - inversion Hab as [l0 E1 E2|a0 l0 x0 Hs E1 E2|a0 l0 x0 Hs E1 E2]; subst.
    + apply ss_nil.
    + apply ss_skip. apply IH. exact Hs.
    + apply ss_take. apply IH. exact Hs.
Qed.

Lemma subseq_app_r : forall A (l a l' : list A), subseq a l' -> subseq a (l ++ l').
Proof. intros A l a l' H. induction l as [|x l IH]; [exact H|]. simpl. apply ss_skip. exact IH. Qed.

Lemma subseq_app : forall A (a l : list A), subseq a l -> forall a' l', subseq a' l' -> subseq (a ++ a') (l ++ l').
Proof.
  intros A a l H. induction H as [l|a l x H IH|a l x H IH]; intros a' l' H'.
  - simpl. apply subseq_app_r. exact H'.
  - simpl. apply ss_skip. apply IH. exact H'.
  - simpl. apply ss_take. apply IH. exact H'.
Qed.

Lemma subseq_head : forall A (p a b : list A), subseq a b -> subseq (p ++ a) (p ++ b).
Proof. intros A p a b H. apply subseq_app; [apply subseq_refl|exact H]. Qed.

Lemma subseq_prefix : forall A (a b : list A), subseq a (a ++ b).
Proof.
  intros A a b. rewrite <- (app_nil_r a) at 1. apply subseq_head. apply ss_nil.
Qed.

Lemma subseq_drop_tail : forall A (a b l : list A), subseq (a ++ b) l -> subseq a l.
Proof. intros A a b l H. eapply subseq_trans; [exact H|apply subseq_prefix]. Qed.

Lemma subseq_In : forall A (a l : list A) x, subseq a l -> In x a -> In x l.
Proof.
  intros A a l x H. induction H as [l|a l y H IH|a l y H IH]; intros Hin.
  - destruct Hin.
  - right. apply IH. exact Hin.
  - destruct Hin as [E|Hin]; [left; exact E|right; apply IH; exact Hin].
Qed.

Lemma subseq_NoDup : forall A (a l : list A), subseq a l -> NoDup l -> NoDup a.
Proof.
  intros A a l H. induction H as [l|a l y H IH|a l y H IH]; intros Hnd.
  - constructor.
  - apply IH. inversion Hnd; assumption.
  - inversion Hnd as [|y0 l0 Hni Hnd']; subst. constructor.
    + intros Hin. apply Hni. eapply subseq_In; eauto.
    + apply IH. exact Hnd'.
Qed.

Lemma subseq_flat_map : forall A B (f g : A -> list B) l,
  (forall x, subseq (f x) (g x)) -> subseq (flat_map f l) (flat_map g l).
Proof.
  intros A B f g l H. induction l as [|x l IH]; [apply ss_nil|].
  simpl. apply subseq_app; [apply H|exact IH].
Qed.

Lemma subseq_if : forall (b b' : bool) (i : nat), (b' = true -> b = true) ->
  subseq (if b' then [i] else []) (if b then [i] else []).
Proof.
  intros b b' i H. destruct b'; [rewrite H by reflexivity; apply subseq_refl|apply ss_nil].
Qed.

(* ================= bodies ================= *)
Definition lbody (l : label) : list nat := match l with LBody i => [i] | _ => [] end.

Lemma bodies_cons : forall l tr, bodies (l :: tr) = bodies tr ++ lbody l.
Proof.
  intros l tr. unfold bodies. simpl. rewrite rev_app_distr.
  destruct l; reflexivity.
Qed.

Lemma lbody_not : forall l, (forall i, l <> LBody i) -> lbody l = [].
Proof. intros l H. destruct l; try reflexivity. exfalso. eapply H. reflexivity. Qed.

(* ================= the pending calls ================= *)
Definition qtasks (l : list item) : list nat :=
  flat_map (fun it => match it with Task i => [i] | Shut _ => [] end) l.

(* the process has received (or is about to receive) call i and has not yet run its body *)
Definition prebody (p : proc) (i : nat) : bool :=
  (match pp p with PBody j => Nat.eqb i j | _ => false end) || existsb (msg_eqb (MCall i)) (inbox p).
Arguments prebody : simpl never.

Definition held_w (pl : list proc) (w : wthread) : list nat :=
  match wp w with
  | WSrnc i | WSend i => [i]
  | WRecv i => if prebody (nth (wproc w - 1) pl (mkP PExit [] [])) i then [i] else []
  | _ => []
  end.

Definition held (s : state) : list nat := flat_map (held_w (ps s)) (ws s).

Definition pend (s : state) : list nat := held s ++ qtasks (q0 s).

Lemma qtasks_app : forall a b, qtasks (a ++ b) = qtasks a ++ qtasks b.
Proof. intros a b. unfold qtasks. apply flat_map_app. Qed.

Lemma qtasks_tl : forall l, subseq (qtasks (tl l)) (qtasks l).
Proof.
  intros l. destruct l as [|it l]; [apply ss_nil|]. destruct it as [i|b]; simpl.
  - apply ss_skip. apply subseq_refl.
  - apply subseq_refl.
Qed.

(* ================= the client ================= *)
Lemma q0_upd0 : forall s x, queues s <> [] -> q0 (set_queues s (upd (queues s) 0 x)) = qitems x.
Proof. intros s x H. unfold q0, getq. simpl. rewrite getq_upd0 by exact H. reflexivity. Qed.

(* what a client step does to the submitted list and to the queue *)
Definition m_eff (s s' : state) : Prop :=
  (exists i, subm s' = subm s ++ [i] /\ q0 s' = q0 s ++ [Task i]) \/
  (subm s' = subm s /\ (q0 s' = q0 s \/ (exists b, q0 s' = q0 s ++ [Shut b]) \/ q0 s' = tl (q0 s))).

Lemma q0_m_norm : forall c s, q0 (m_norm c s) = q0 s.
Proof. intros c s. unfold q0, getq. now rewrite m_norm_queues. Qed.
Lemma q0_m_done : forall s x cl, q0 (m_done s x cl) = q0 s.
Proof. intros s x cl. unfold q0, getq. now rewrite m_done_queues. Qed.
Lemma q0_m_goto : forall s l x cl, q0 (m_goto s l x cl) = q0 s.
Proof. intros s l x cl. unfold q0, getq. now rewrite m_goto_queues. Qed.

Lemma drain_eff : forall s w s' l, drain_step s w = Some (s', l) -> queues s <> [] ->
  ps s' = ps s /\ subm s' = subm s /\ q0 s' = tl (q0 s).
Proof.
  intros s w s' l H Hq. unfold drain_step in H.
  destruct (qitems (getq s 0)) as [|it rest] eqn:E; [discriminate|].
  destruct it as [j|b]; inversion H; subst; clear H; (split; [reflexivity|]); (split; [reflexivity|]).
  - unfold qpop, set_main. unfold q0 at 1. unfold getq. simpl. rewrite getq_upd0 by exact Hq. reflexivity.
  - unfold qpop, set_main. unfold q0 at 1. unfold getq. simpl. rewrite getq_upd0 by exact Hq. reflexivity.
Qed.

Lemma putshut_eff : forall c s b m', queues s <> [] ->
  let s' := m_norm c (set_main (qput s 0 (Shut b)) m') in
  ps s' = ps s /\ m_eff s s'.
Proof.
  intros c s b m' Hq s'. unfold s'. split.
  - rewrite m_norm_ps. reflexivity.
  - right. split; [rewrite m_norm_subm; reflexivity|]. right. left. exists b.
    rewrite q0_m_norm. unfold qput, set_main. unfold q0 at 1. unfold getq. simpl.
    rewrite getq_upd0 by exact Hq. reflexivity.
Qed.

Lemma m_step_eff : forall c s s' l, m_step c s = Some (s', l) -> queues s <> [] ->
  ps s' = ps s /\ m_eff s s'.
Proof.
  intros c s s' l H Hq.
  assert (Hsame : forall s1, ps s1 = ps s -> subm s1 = subm s -> q0 s1 = q0 s -> ps s1 = ps s /\ m_eff s s1).
  { intros s1 E1 E2 E3. split; [exact E1|]. right. split; [exact E2|]. left. exact E3. }
  assert (Hdrain : forall w, drain_step s w = Some (s', l) -> ps s' = ps s /\ m_eff s s').
  { intros w Hd. destruct (drain_eff _ _ _ _ Hd Hq) as (E1 & E2 & E3).
    split; [exact E1|]. right. split; [exact E2|]. right. right. exact E3. }
  unfold m_step in H.
  destruct (main s) as [|k| |w|w j|w|w k|k| |] eqn:Hm.
  - destruct (Nat.eqb (nworkers c) 0); inversion H; subst; clear H; apply Hsame;
      rewrite ?m_goto_ps, ?m_goto_subm, ?q0_m_goto; reflexivity.
  - destruct (Nat.eqb (S k) (nworkers c)); inversion H; subst; clear H; apply Hsame;
      rewrite ?m_goto_ps, ?m_goto_subm, ?q0_m_goto; reflexivity.
  - destruct (ops s) as [|o rest] eqn:Ho; [discriminate|].
    destruct o as [i|i|i|w cc| |].
    + inversion H; subst; clear H. split; [rewrite m_done_ps; reflexivity|].
      left. exists i. rewrite m_done_subm, q0_m_done. split; [reflexivity|].
      unfold qput. unfold q0 at 1. unfold getq. simpl. rewrite getq_upd0 by exact Hq. reflexivity.
    + destruct (fcancel (getf s i)) as [f b]. inversion H; subst; clear H. apply Hsame;
        rewrite ?m_done_ps, ?m_done_subm, ?q0_m_done; reflexivity.
    + destruct (fdone (getf s i)); inversion H; subst; clear H. apply Hsame;
        rewrite ?m_done_ps, ?m_done_subm, ?q0_m_done; reflexivity.
    + destruct cc.
      * destruct (drain_step s w) as [r|] eqn:Ed.
        -- inversion H; subst; clear H. eapply Hdrain; eauto.
        -- inversion H; subst; clear H. apply Hsame;
             rewrite ?m_norm_ps, ?m_norm_subm, ?q0_m_norm; reflexivity.
      * destruct (nworkers c) as [|k] eqn:En.
        -- destruct (Nat.eqb (qunf (getq s 0)) 0); [|discriminate]. destruct w; [|discriminate].
           inversion H; subst; clear H. apply Hsame;
             rewrite ?m_done_ps, ?m_done_subm, ?q0_m_done; reflexivity.
        -- inversion H; subst; clear H. apply putshut_eff. exact Hq.
    + destruct (nworkers c) as [|k] eqn:En; [discriminate|].
      inversion H; subst; clear H. apply putshut_eff. exact Hq.
    + destruct (nworkers c) as [|k] eqn:En.
      * destruct (Nat.eqb (qunf (getq s 0)) 0); [|discriminate].
        inversion H; subst; clear H. apply Hsame;
          rewrite ?m_done_ps, ?m_done_subm, ?q0_m_done; reflexivity.
      * inversion H; subst; clear H. apply putshut_eff. exact Hq.
  - destruct (drain_step s w) as [r|] eqn:Ed.
    + inversion H; subst; clear H. eapply Hdrain; eauto.
    + inversion H; subst; clear H. apply Hsame;
        rewrite ?m_norm_ps, ?m_norm_subm, ?q0_m_norm; reflexivity.
  - destruct (fcancel (getf s j)) as [f b]. inversion H; subst; clear H. apply Hsame; reflexivity.
  - inversion H; subst; clear H. apply Hsame; try reflexivity.
    unfold qtd, set_main. unfold q0 at 1. unfold getq. simpl. rewrite getq_upd0 by exact Hq. reflexivity.
  - destruct k as [|k']; [discriminate|].
    inversion H; subst; clear H. apply putshut_eff. exact Hq.
  - destruct (nth_error (ws s) k) as [wt|]; [|discriminate].
    destruct (wdone wt); [|discriminate].
    destruct (wdead wt); inversion H; subst; clear H; apply Hsame;
      rewrite ?m_done_ps, ?m_done_subm, ?q0_m_done, ?m_norm_ps, ?m_norm_subm, ?q0_m_norm; reflexivity.
  - destruct (Nat.eqb (qunf (getq s 0)) 0); [|discriminate].
    inversion H; subst; clear H. apply Hsame;
      rewrite ?m_done_ps, ?m_done_subm, ?q0_m_done; reflexivity.
  - discriminate.
Qed.

Lemma held_w_begin : forall pl, held_w pl (mkW 0 0 WBegin) = [].
Proof. reflexivity. Qed.

Lemma m_step_pend : forall c s s' l B, m_step c s = Some (s', l) -> queues s <> [] ->
  subseq (B ++ pend s) (subm s) -> subseq (B ++ pend s') (subm s').
Proof.
  intros c s s' l B H Hq IH.
  destruct (m_step_eff _ _ _ _ H Hq) as [Eps Heff].
  assert (Hh : held s' = held s).
  { unfold held. rewrite Eps. destruct (m_step_ws _ _ _ _ H) as [E|E]; rewrite E; [reflexivity|].
    rewrite flat_map_app. simpl. now rewrite !app_nil_r. }
  unfold pend in *. rewrite Hh.
  destruct Heff as [(i & E1 & E2)|(E1 & [E2|[(b & E2)|E2]])]; rewrite E1, E2.
  - rewrite qtasks_app. simpl. rewrite !app_assoc. apply subseq_app; [|apply subseq_refl].
    rewrite <- app_assoc. exact IH.
  - exact IH.
  - rewrite qtasks_app. simpl. rewrite app_nil_r. exact IH.
  - eapply subseq_trans; [exact IH|]. apply subseq_head. apply subseq_head. apply qtasks_tl.
Qed.

(* ================= the worker thread ================= *)
Ltac ss_fin :=
  repeat match goal with |- context [if ?b then _ else _] => destruct b end;
  cbn [app];
  first [apply subseq_refl | apply ss_skip; apply subseq_refl | apply ss_nil].

Lemma w_step_pend0 : forall c qi qn qs fs sb mn os cl wpr wpc pl ou s' l,
  w_step c (mkS (mkQ qi qn :: qs) fs sb mn os cl [mkW 0 wpr wpc] pl ou) 0 = Some (s', l) ->
  subm s' = sb /\ subseq (pend s') (pend (mkS (mkQ qi qn :: qs) fs sb mn os cl [mkW 0 wpr wpc] pl ou)).
Proof.
  intros c qi qn qs fs sb mn os cl wpr wpc pl ou s' l H.
  unfold w_step in H. cbn in H.
  destruct wpc; destr_all H; inversion H; subst; clear H; (split; [reflexivity|]);
    unfold pend, held, held_w, q0, getq; cbn; ss_fin.
Qed.

Lemma one_worker_len : forall c n s, nworkers c = 1 -> Inv c n s -> length (ws s) <= 1.
Proof.
  intros c n s Hc H. pose proof (I_nth _ _ _ H) as Hn. unfold nthreads_ok in Hn. rewrite Hc in Hn.
  destruct (main s);
    try (apply Nat.eqb_eq in Hn; lia).
  apply andb_true_iff in Hn. destruct Hn as [Hn1 Hn2]. apply Nat.eqb_eq in Hn1. apply Nat.ltb_lt in Hn2. lia.
Qed.

Lemma one_worker_nth : forall (wl : list wthread) j w, length wl <= 1 -> nth_error wl j = Some w -> j = 0 /\ wl = [w].
Proof.
  intros wl j w Hl Hj. destruct wl as [|a [|b wl]]; simpl in Hl; try lia.
  - destruct j; discriminate.
  - destruct j as [|j]; simpl in Hj; [inversion Hj; subst; split; reflexivity|destruct j; discriminate].
Qed.

Lemma w_step_pend : forall c n s j s' l, nworkers c = 1 -> Inv c n s -> w_step c s j = Some (s', l) ->
  subm s' = subm s /\ subseq (pend s') (pend s).
Proof.
  intros c n s j s' l Hc H Hst.
  pose proof (one_worker_len c n s Hc H) as Hl.
  destruct (nth_error (ws s) j) as [w|] eqn:Hj; [|unfold w_step in Hst; rewrite Hj in Hst; discriminate].
  destruct (one_worker_nth _ _ _ Hl Hj) as [Ej Ew]. subst j.
  pose proof (I_wq _ _ _ H 0 w Hj) as Hwq. pose proof (I_q _ _ _ H) as Hq.
  destruct s as [qs fs sb mn os cl wl pl ou]. simpl in *. subst wl.
  destruct qs as [|[qi qn] qs]; [congruence|].
  destruct w as [wqv wpr wpc]. simpl in Hwq. subst wqv.
  apply (w_step_pend0 _ _ _ _ _ _ _ _ _ _ _ _ _ _ _ Hst).
Qed.

(* ================= the worker process ================= *)
Lemma p_step_shape : forall c s k s' l, p_step c s k = Some (s', l) ->
  exists p p', nth_error (ps s) (k - 1) = Some p /\ k <> 0 /\ s' = setp s k p' /\
    ((exists i, l = LBody i /\ pp p = PBody i /\ pp p' = PSend i /\ inbox p' = inbox p) \/
     ((forall i, l <> LBody i) /\ forall i, prebody p' i = true -> prebody p i = true)).
Proof.
  intros c s k s' l H. unfold p_step in H.
  destruct (nth_error (ps s) (k - 1)) as [p|] eqn:Hp; [|discriminate].
  destruct (Nat.eqb k 0) eqn:Ek; [discriminate|]. apply Nat.eqb_neq in Ek.
  exists p. destruct p as [pc ib ob]. cbn [pp inbox outbox] in H.
  destruct pc as [| |i0|i0| |].
  - inversion H; subst; clear H. eexists. repeat split; try assumption. right.
    split; [intros i; discriminate|]. intros i Hi. exact Hi.
  - destruct ib as [|m t]; [discriminate|].
    destruct m as [i0| |v| |]; inversion H; subst; clear H; eexists; repeat split; try assumption; right;
      (split; [intros i; discriminate|]); intros i Hi; unfold prebody in *; cbn [pp inbox existsb msg_eqb] in *;
      try exact Hi; rewrite ?orb_false_l in *; try (rewrite Hi; apply orb_true_r).
  - inversion H; subst; clear H. eexists. repeat split; try assumption. left. exists i0. repeat split.
  - inversion H; subst; clear H. eexists. repeat split; try assumption. right.
    split; [intros i; discriminate|]. intros i Hi. exact Hi.
  - inversion H; subst; clear H. eexists. repeat split; try assumption. right.
    split; [intros i; discriminate|]. intros i Hi. exact Hi.
  - discriminate.
Qed.

Lemma held_w_setp_mono : forall pl k p p' w, nth_error pl (k - 1) = Some p ->
  (forall i, prebody p' i = true -> prebody p i = true) ->
  subseq (held_w (upd pl (k - 1) p') w) (held_w pl w).
Proof.
  intros pl k p p' w Hp Hmono. unfold held_w.
  destruct (wp w) as [| | |i| |i|i|i v| |i|i|i|i|i|i|i|i|b|b|b|b|b| | | | |]; try apply subseq_refl.
  destruct (nth_upd_cases _ pl (wproc w - 1) (k - 1) p' (mkP PExit [] [])) as [(E & Lt & Hn)|(E & Hn)]; rewrite Hn.
  - rewrite E. rewrite (nth_error_nth' _ _ _ _ _ Hp). apply subseq_if. apply Hmono.
  - apply subseq_refl.
Qed.

Lemma p_step_fields : forall c s k s' l, p_step c s k = Some (s', l) ->
  ws s' = ws s /\ subm s' = subm s /\ q0 s' = q0 s.
Proof.
  intros c s k s' l H. destruct (p_step_shape _ _ _ _ _ H) as (p & p' & _ & _ & E & _). subst s'.
  repeat split.
Qed.

(* a step other than the body of a call does not add a pending call *)
Lemma p_step_pend_other : forall c s k s' l, p_step c s k = Some (s', l) -> (forall i, l <> LBody i) ->
  subseq (pend s') (pend s).
Proof.
  intros c s k s' l H Hl.
  destruct (p_step_shape _ _ _ _ _ H) as (p & p' & Hp & Hk & E & [(i & El & _)|(_ & Hmono)]).
  - exfalso. eapply Hl; eauto.
  - subst s'. unfold pend, held, setp, set_ps, q0, getq. cbn [ps ws queues].
    apply subseq_app; [|apply subseq_refl].
    apply subseq_flat_map. intros w. eapply held_w_setp_mono; eauto.
Qed.

(* the body of call i: i was the held call, and is no longer pending afterwards *)
Lemma p_step_pend_body : forall c n s k s' i, nworkers c = 1 -> Inv c n s ->
  p_step c s k = Some (s', LBody i) -> held s = [i] /\ held s' = [].
Proof.
  intros c n s k s' i Hc H Hst.
  destruct (p_step_shape _ _ _ _ _ Hst) as (p & p' & Hp & Hk & E & [(i' & El & Hpp & Hpp' & Hib)|(Hl & _)]);
    [|exfalso; eapply Hl; eauto].
  inversion El; subst i'. clear El.
  assert (Hkl : 1 <= k <= length (ps s)).
  { assert (k - 1 < length (ps s)) by (apply nth_error_Some; congruence). lia. }
  destruct (owner_exists c n s k H Hkl) as (j & w & Hj & Hw).
  pose proof (one_worker_len c n s Hc H) as Hlen.
  destruct (one_worker_nth _ _ _ Hlen Hj) as [Ej Ews]. subst j.
  pose proof (I_chan _ _ _ H 0 w Hj) as Hch. rewrite Hw in Hch. unfold getp in Hch.
  rewrite (nth_error_nth' _ _ _ _ _ Hp) in Hch.
  pose proof (I_ow1 _ _ _ H 0 w Hj) as Ho. unfold spawnedb in Ho.
  assert (Hw2 : wp w = WRecv i /\ inbox p = []).
  { unfold chanS, chan_ok, chan2 in Hch. destruct p as [pc ib ob]. simpl in Hpp. subst pc.
    unfold serving, quiet, p_idle, palive in Hch. cbn [pp inbox outbox] in Hch.
    destruct (wp w); try (exfalso; lia); simpl in Hch; try discriminate Hch.
    rewrite andb_true_r, orb_false_r in Hch. apply andb_true_iff in Hch. destruct Hch as [Hch _].
    apply andb_true_iff in Hch. destruct Hch as [Hch Hib0]. apply Nat.eqb_eq in Hch. subst.
    split; [reflexivity|]. simpl. apply msgs_eqb_nil. exact Hib0. }
  destruct Hw2 as [Hpc Hib0].
  subst s'. unfold held, setp, set_ps. cbn [ps ws]. rewrite Ews. simpl. rewrite !app_nil_r.
  unfold held_w. rewrite Hpc, Hw.
  rewrite (nth_error_nth' _ _ _ _ _ Hp).
  rewrite nth_upd_same by lia.
  unfold prebody. rewrite Hpp, Hpp', Hib, Hib0, Nat.eqb_refl. simpl. split; reflexivity.
Qed.

(* ================= the invariant along a trace ================= *)
Lemma step_pend : forall c n s tr t s' l, nworkers c = 1 -> Inv c n s ->
  step c s t = Some (s', l) ->
  subseq (bodies tr ++ pend s) (subm s) -> subseq (bodies (l :: tr) ++ pend s') (subm s').
Proof.
  intros c n s tr t s' l Hc H Hst IH. rewrite bodies_cons.
  destruct t as [| | |j|k]; simpl in Hst; try discriminate.
  - rewrite (lbody_not l) by (intros i; eapply m_step_label; eauto). rewrite app_nil_r.
    eapply m_step_pend; eauto. apply (I_q _ _ _ H).
  - destruct j as [|j]; [discriminate|].
    rewrite (lbody_not l) by (intros i; eapply w_step_label; eauto). rewrite app_nil_r.
    destruct (w_step_pend c n s j s' l Hc H Hst) as [Es Hp]. rewrite Es.
    eapply subseq_trans; [exact IH|]. apply subseq_head. exact Hp.
  - destruct (p_step_fields _ _ _ _ _ Hst) as (Ew & Es & Eq). rewrite Es.
    destruct l as [| | | | | | | | | | | | | | | | | | | | | | |i| | | | |];
      try (simpl lbody; rewrite app_nil_r; eapply subseq_trans; [exact IH|]; apply subseq_head;
           eapply p_step_pend_other; [exact Hst|intros i0; discriminate]).
    destruct (p_step_pend_body c n s k s' i Hc H Hst) as [Hh Hh'].
    unfold pend in *. rewrite Hh', Eq. rewrite Hh in IH. simpl lbody. rewrite <- app_assoc. exact IH.
Qed.

Lemma reach_tr_inv : forall c n prog s tr, nworkers c = 1 -> wf_prog n prog ->
  reach_tr c (init n prog) s tr -> Inv c n s /\ subseq (bodies tr ++ pend s) (subm s).
Proof.
  intros c n prog s tr Hc Hwf Hr. induction Hr as [|s tr t s' l Hr [IH1 IH2] Hst].
  - split; [now apply inv_init|]. apply ss_nil.
  - split; [eapply step_inv; eauto|]. eapply step_pend; eauto.
Qed.

Theorem single_worker_submission_order : forall c n prog s tr,
  nworkers c = 1 -> wf_prog n prog -> reach_tr c (init n prog) s tr -> subseq (bodies tr) (subm s).
Proof.
  intros c n prog s tr Hc Hwf Hr. destruct (reach_tr_inv c n prog s tr Hc Hwf Hr) as [_ H].
  eapply subseq_drop_tail; eauto.
Qed.
Print Assumptions single_worker_submission_order.

Lemma inv_subm_nodup : forall c n s, Inv c n s -> NoDup (subm s).
Proof.
  intros c n s H. pose proof (I_sub1 _ _ _ H) as Hnd.
  rewrite <- (app_nil_r (subm s)). eapply NoDup_app_drop_mid with (b := submits (ops s)).
  rewrite app_nil_r. exact Hnd.
Qed.

Corollary no_call_executed_twice : forall c n prog s tr,
  nworkers c = 1 -> wf_prog n prog -> reach_tr c (init n prog) s tr -> NoDup (bodies tr).
Proof.
  intros c n prog s tr Hc Hwf Hr. destruct (reach_tr_inv c n prog s tr Hc Hwf Hr) as [Hi H].
  eapply subseq_NoDup; [eapply subseq_drop_tail; exact H|]. eapply inv_subm_nodup; eauto.
Qed.
Print Assumptions no_call_executed_twice.

(* ================= sanity: the statement is not vacuous, and needs nworkers = 1 ================= *)
Fixpoint exec (c : cfg) (sched : list tid) (s : state) (tr : list label) : option (state * list label) :=
  match sched with
  | [] => Some (s, tr)
  | t :: r => match step c s t with Some (s', l) => exec c r s' (l :: tr) | None => None end
  end.

Lemma exec_reach : forall c s0 sched s tr s' tr',
  reach_tr c s0 s tr -> exec c sched s tr = Some (s', tr') -> reach_tr c s0 s' tr'.
Proof.
  intros c s0 sched. induction sched as [|t r IH]; intros s tr s' tr' Hr He; simpl in He.
  - inversion He; subst. exact Hr.
  - destruct (step c s t) as [[s1 l]|] eqn:Hst; [|discriminate].
    eapply IH; [|exact He]. eapply reach_tr_step; eauto.
Qed.

Definition ex_prog : list op := [OSubmit 1; OSubmit 2; OShutdown true false].

Lemma ex_prog_wf : wf_prog 2 ex_prog.
Proof.
  unfold wf_prog, ex_prog. simpl. split; [|split].
  - constructor; [simpl; intros [E|[]]; discriminate|]. constructor; [intros []|constructor].
  - intros i [E|[E|[]]]; subst; lia.
  - intros [E|[E|[E|[]]]]; discriminate.
Qed.

(* one worker: both bodies run, in submission order *)
Lemma single_worker_example : exists s tr,
  reach_tr (mkC 1 (fun _ => false)) (init 2 ex_prog) s tr /\ bodies tr = [1; 2] /\ subm s = [1; 2].
Proof.
  destruct (exec (mkC 1 (fun _ => false))
              ([TM; TM; TM; TM] ++ [TW 1; TW 1; TW 1; TW 1; TW 1] ++ [TP 1; TP 1; TP 1; TP 1]
               ++ [TW 1; TW 1; TW 1; TW 1; TW 1; TW 1] ++ [TP 1; TP 1; TP 1])
              (init 2 ex_prog) []) as [[s tr]|] eqn:E; [|vm_compute in E; discriminate].
  exists s, tr. split; [eapply exec_reach; [apply reach_tr_init|exact E]|].
  vm_compute in E. inversion E; subst. split; reflexivity.
Qed.

(* two workers: call 2 can be executed before call 1 *)
Lemma two_workers_may_reorder : exists s tr,
  reach_tr (mkC 2 (fun _ => false)) (init 2 ex_prog) s tr /\ bodies tr = [2; 1] /\ subm s = [1; 2] /\
  ~ subseq (bodies tr) (subm s).
Proof.
  destruct (exec (mkC 2 (fun _ => false))
              ([TM; TM; TM; TM; TM] ++ [TW 1; TW 1; TW 1; TW 1; TW 1] ++ [TW 2; TW 2; TW 2; TW 2; TW 2]
               ++ [TP 2; TP 2; TP 2] ++ [TP 1; TP 1; TP 1])
              (init 2 ex_prog) []) as [[s tr]|] eqn:E; [|vm_compute in E; discriminate].
  exists s, tr. split; [eapply exec_reach; [apply reach_tr_init|exact E]|].
  vm_compute in E. inversion E; subst. split; [reflexivity|]. split; [reflexivity|].
  vm_compute. intros H.
  inversion H as [|a l x H1|a l x H1]; subst.
  inversion H1 as [|a l x H2|a l x H2]; subst.
  - inversion H2.
  - inversion H2.
Qed.
Print Assumptions single_worker_example.
Print Assumptions two_workers_may_reorder.
