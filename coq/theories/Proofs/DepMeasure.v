(* A progress measure for the dependency-resolver model (Model/DepExec.v) in front of a
   block-allocation executor (dinner c = IBlock k): every step of every thread strictly decreases
   the natural number [dmu c n d], except a step of the resolver thread R taken in a state with
   [r_polling c d = true] (a fruitless poll: see the comment at r_polling).
   Main result: dstep_decreases.  The per-call inner executor (IStep) is not covered here.
   Invariants used: RI_reach / Inv4_reach / done_monotone from Proofs/DepSafe.v and the small
   invariants [MI] (bounds) and [rsd] (prefix of the inputs checked so far) proved here. *)
From Coq Require Import List Bool Arith Lia.
From EL Require Import Model.Exec Model.ExecInv Model.StepExec Model.DepExec Model.LiveSpec.
From EL Require Import Proofs.DepSafe.
From EL Require Import Proofs.ExecSafe Proofs.StepSafe Proofs.StepLive.
Import ListNotations.

(* ------------------------------------------------------------------ *)

(* number of worker threads of the inner block executor *)
Definition nwk (c : dcfg) : nat := match dinner c with IBlock k => k | IStep => 1 end.

(* ================= a small general invariant: bounds ================= *)
Definition kcount (k : rcont) (rw : list (nat * list nat)) : nat :=
  match k with KTd => length rw | KScan pre post _ _ => length pre + length post end.
Definition rcount (r : rpc) (rw : list (nat * list nat)) : nat :=
  match r with
  | RScan pre _ _ _ _ post _ _ => length pre + 1 + length post
  | RRes _ _ k | RFwd _ k | RFailSrnc _ k | RFailSet _ k => 1 + kcount k rw
  | RCheck _ _ _ => 1 + length rw
  | RNone | RBegin | RPoll | RTd | RSleep _ => length rw
  | _ => 0
  end.

Record MI (c : dcfg) (n : nat) (d : dstate) : Prop := mkMI {
  M_ops : inshut (main (dbase d)) -> ops (dbase d) <> [];
  M_q : queues (dbase d) <> [];
  M_ws : length (ws (dbase d)) <= nwk c;
  M_st : forall k, main (dbase d) = MStart k -> length (ws (dbase d)) <= k;
  M_b : main (dbase d) = MBegin -> ws (dbase d) = [];
  M_rn : ~ started (main (dbase d)) -> rp d = RNone;
  M_cnt : rcount (rp d) (rwait d) + count is_task (qitems (getq (dbase d) 0)) + length (submits (ops (dbase d))) <= n
}.

Lemma submits_len_suffix : forall l l', (exists pre, l = pre ++ l') -> length (submits l') <= length (submits l).
Proof. intros l l' [pre E]. subst l. rewrite submits_app, app_length. lia. Qed.

Lemma mi_init : forall c n prog, wf_prog n prog -> MI c n (dinit n prog).
Proof.
  intros c n prog (Hnd & Hrg & _). constructor; unfold dinit, dbase, xinit, init; simpl.
  - tauto.
  - discriminate.
  - lia.
  - intros k E. discriminate E.
  - reflexivity.
  - reflexivity.
  - unfold count. simpl.
    assert (Hin : incl (submits prog) (seq 1 n)) by (intros i Hi; apply in_seq; specialize (Hrg i Hi); lia).
    pose proof (NoDup_incl_length Hnd Hin) as Hl. rewrite seq_length in Hl. lia.
Qed.

(* ---- the resolver's helper functions ---- *)
Lemma inner_shut_start_eq : forall c d w, inner_shut_start c d w = set_rp d (RInPut w (nwk c)).
Proof. intros c d w. unfold inner_shut_start, nwk. destruct (dinner c); reflexivity. Qed.

Lemma start_pass_xs : forall c d a, xs (start_pass c d a) = xs d /\ rwait (start_pass c d a) = rwait d.
Proof.
  intros c d a. unfold start_pass. destruct (rwait d) as [|[j dj] rest] eqn:E.
  - destruct a; [simpl; now rewrite E|rewrite inner_shut_start_eq; simpl; now rewrite E].
  - simpl. now rewrite E.
Qed.

Lemma start_pass_cnt : forall c d a,
  rcount (rp (start_pass c d a)) (rwait (start_pass c d a)) <= length (rwait d).
Proof.
  intros c d a. unfold start_pass. destruct (rwait d) as [|[j dj] rest] eqn:E.
  - destruct a; [simpl; rewrite ?E; simpl; lia|rewrite inner_shut_start_eq; simpl; rewrite ?E; simpl; lia].
  - simpl. lia.
Qed.

Lemma scan_next_xs : forall c d pre post n0 a, xs (scan_next c d pre post n0 a) = xs d.
Proof.
  intros c d pre post n0 a. unfold scan_next. destruct post as [|[j dj] rest]; [|reflexivity].
  destruct a; destruct (Nat.eqb (length pre) n0); try reflexivity.
  rewrite (proj1 (start_pass_xs c _ _)). reflexivity.
Qed.

Lemma scan_next_cnt : forall c d pre post n0 a,
  rcount (rp (scan_next c d pre post n0 a)) (rwait (scan_next c d pre post n0 a)) <= length pre + length post.
Proof.
  intros c d pre post n0 a. unfold scan_next. destruct post as [|[j dj] rest]; [|simpl; lia].
  destruct a; destruct (Nat.eqb (length pre) n0); simpl; try lia.
  pose proof (start_pass_cnt c (mkD (xs d) (rp d) pre) (AShut w)). simpl in *. lia.
Qed.

Lemma kont_xs : forall c d k, xs (kont c d k) = xs d.
Proof. intros c d k. destruct k; simpl; [reflexivity|apply scan_next_xs]. Qed.

Lemma kont_cnt : forall c d k, rcount (rp (kont c d k)) (rwait (kont c d k)) <= kcount k (rwait d).
Proof. intros c d k. destruct k; simpl; [lia|apply scan_next_cnt]. Qed.

Lemma after_inputs_done_cnt : forall d i deps k,
  xs (after_inputs_done d i deps k) = xs d /\
  rcount (rp (after_inputs_done d i deps k)) (rwait (after_inputs_done d i deps k)) = 1 + kcount k (rwait d).
Proof. intros d i deps k. unfold after_inputs_done. destruct deps; simpl; split; reflexivity. Qed.

(* ------------------------------------------------------------------ *)

Ltac dnorm :=
  unfold dbase, set_dbase, set_xs, set_rp, set_base in *;
  cbn [xs rp rwait base disp active launched] in *.

Lemma dbase_kont : forall c d k, dbase (kont c d k) = dbase d.
Proof. intros. unfold dbase. now rewrite kont_xs. Qed.
Lemma dbase_scan_next : forall c d pre post n0 a, dbase (scan_next c d pre post n0 a) = dbase d.
Proof. intros. unfold dbase. now rewrite scan_next_xs. Qed.
Lemma dbase_start_pass : forall c d a, dbase (start_pass c d a) = dbase d.
Proof. intros. unfold dbase. now rewrite (proj1 (start_pass_xs c d a)). Qed.
Lemma dbase_aid : forall d i deps k, dbase (after_inputs_done d i deps k) = dbase d.
Proof. intros. unfold dbase. now rewrite (proj1 (after_inputs_done_cnt d i deps k)). Qed.

(* the control part of the base state that the resolver never touches *)
Lemma r_step_ctl : forall c d d' l, r_step c d = Some (d', l) ->
  ctl_same (dbase d) (dbase d') /\ ws (dbase d') = ws (dbase d) /\ ps (dbase d') = ps (dbase d) /\
  length (queues (dbase d')) = length (queues (dbase d)).
Proof.
  intros c d d' l H. unfold r_step in H. cbv zeta in H.
  destruct (rp d); destr_all H; inversion H; subst; clear H;
    rewrite ?dbase_kont, ?dbase_scan_next, ?dbase_start_pass, ?dbase_aid; unfold dbase, set_dbase, set_xs, set_rp, set_base;
    cbn [xs base]; unfold ctl_same, qpop, qput, qtd, set_queues, set_futs; fld; rewrite ?upd_length;
    repeat split; reflexivity.
Qed.

Definition cq0 (s : state) : nat := count is_task (qitems (getq s 0)).

Lemma cq0_put1 : forall s it, cq0 (qput s 1 it) = cq0 s.
Proof. intros s it. unfold cq0, qput, set_queues, getq. fld. rewrite nth_upd_other by lia. reflexivity. Qed.
Lemma cq0_td : forall s q, cq0 (qtd s q) = cq0 s.
Proof.
  intros s q. unfold cq0, qtd, set_queues, getq. fld.
  change (mkQ [] 0) with dq. rewrite qtd_items. reflexivity.
Qed.
Lemma cq0_futs : forall s f, cq0 (set_futs s f) = cq0 s.
Proof. reflexivity. Qed.
Lemma cq0_pop : forall s it r, qitems (getq s 0) = it :: r -> queues s <> [] ->
  cq0 (qpop s 0) + b2n (is_task it) = cq0 s.
Proof.
  intros s it r H Hne. unfold cq0, qpop, set_queues, getq in *. fld. rewrite getq_upd0 by exact Hne.
  cbn [qitems]. rewrite H. cbn [tl]. rewrite count_cons. lia.
Qed.

Ltac rcnt_tac :=
  repeat match goal with
  | |- context [rcount (rp (kont ?c ?d ?k)) (rwait (kont ?c ?d ?k))] =>
      let H := fresh "Hk" in pose proof (kont_cnt c d k) as H;
      generalize dependent (rcount (rp (kont c d k)) (rwait (kont c d k))); intros
  | |- context [rcount (rp (scan_next ?c ?d ?p ?q ?n ?a)) (rwait (scan_next ?c ?d ?p ?q ?n ?a))] =>
      let H := fresh "Hk" in pose proof (scan_next_cnt c d p q n a) as H;
      generalize dependent (rcount (rp (scan_next c d p q n a)) (rwait (scan_next c d p q n a))); intros
  | |- context [rcount (rp (start_pass ?c ?d ?a)) (rwait (start_pass ?c ?d ?a))] =>
      let H := fresh "Hk" in pose proof (start_pass_cnt c d a) as H;
      generalize dependent (rcount (rp (start_pass c d a)) (rwait (start_pass c d a))); intros
  | |- context [rcount (rp (after_inputs_done ?d ?i ?l ?k)) (rwait (after_inputs_done ?d ?i ?l ?k))] =>
      rewrite (proj2 (after_inputs_done_cnt d i l k))
  end.

Lemma r_step_cnt : forall c d d' l, r_step c d = Some (d', l) -> queues (dbase d) <> [] ->
  rcount (rp d') (rwait d') + cq0 (dbase d') <= rcount (rp d) (rwait d) + cq0 (dbase d).
Proof.
  intros c d d' l H Hne. unfold r_step in H. cbv zeta in H.
  destruct (rp d) eqn:Hr; destr_all H; inversion H; subst; clear H;
    rewrite ?dbase_kont, ?dbase_scan_next, ?dbase_start_pass, ?dbase_aid; rcnt_tac;
    unfold set_dbase, set_xs, set_rp, set_base in *; cbn [xs rp rwait base dbase] in *;
    try match goal with Hq : qitems (getq _ 0) = _ :: _ |- _ => pose proof (cq0_pop _ _ _ Hq Hne) as Hpop; simpl in Hpop end;
    unfold dbase in *; cbn [xs base] in *;
    rewrite ?cq0_put1, ?cq0_td, ?cq0_futs; simpl rcount in *; simpl kcount in *; rewrite ?app_length in *; simpl length in *; try lia.
Qed.

Lemma mi_r : forall c n d d' l, MI c n d -> r_step c d = Some (d', l) -> MI c n d'.
Proof.
  intros c n d d' l [M1 M2 M3 M4 M6 M7 M5] H.
  destruct (r_step_ctl _ _ _ _ H) as ((Em & Eo & Es & Ec & Eu) & Ew & Ep & El).
  pose proof (r_step_cnt _ _ _ _ H M2) as Hc.
  assert (Hrn : ~ started (main (dbase d)) -> False).
  { intros Hn. specialize (M7 Hn). unfold r_step in H. rewrite M7 in H. discriminate H. }
  constructor; rewrite ?Em, ?Eo, ?Ew; try assumption.
  - intro E. rewrite E in El. simpl in El. destruct (queues (dbase d)); [congruence|discriminate].
  - intros Hn. exfalso. now apply Hrn.
  - unfold cq0 in Hc. lia.
Qed.

Lemma mi_w : forall c n d j b l, MI c n d -> w_step (bcfg (dx c)) (dbase d) j = Some (b, l) -> MI c n (set_dbase d b).
Proof.
  intros c n d j b l [M1 M2 M3 M4 M6 M7 M5] H.
  destruct (nth_error (ws (dbase d)) j) as [w|] eqn:Hj;
    [|unfold w_step in H; rewrite Hj in H; discriminate].
  destruct (w_step_fx _ _ _ _ _ w H Hj) as ((Em & Eo & Es & Ec & Eu) & El & _ & _ & w' & Ews & _ & _).
  destruct (w_step_eff _ _ _ _ _ w H Hj) as (_ & _ & Hq & _).
  constructor; unfold set_dbase, set_xs, set_base, dbase in *; cbn [xs base rp rwait] in *; rewrite ?Em, ?Eo, ?Ews, ?upd_length; try assumption.
  - intro E. rewrite E in El. simpl in El. destruct (queues (base (xs d))); [congruence|discriminate].
  - intros E. rewrite (M6 E) in Hj. destruct j; discriminate.
  - specialize (Hq 0). unfold getq in *. unfold dq in Hq. lia.
Qed.

Lemma mi_p : forall c n d k b l, MI c n d -> p_step (bcfg (dx c)) (dbase d) k = Some (b, l) -> MI c n (set_dbase d b).
Proof.
  intros c n d k b l [M1 M2 M3 M4 M6 M7 M5] H. destruct (p_step_eff _ _ _ _ _ H) as (p & p' & _ & _ & Eb & _). subst b.
  constructor; assumption.
Qed.

Lemma getq0_snoc : forall s, queues s <> [] ->
  getq (set_queues s (queues s ++ [mkQ [] 0])) 0 = getq s 0.
Proof. intros s H. unfold getq, set_queues. fld. destruct (queues s); [congruence|reflexivity]. Qed.

Lemma m_goto_queues_getq : forall s l x cl q, getq (m_goto s l x cl) q = getq s q.
Proof. intros. unfold getq. now rewrite m_goto_queues. Qed.

Lemma mi_m : forall c n k0 d d' l, dinner c = IBlock k0 -> MI c n d -> dm_step c d = Some (d', l) -> MI c n d'.
Proof.
  intros c n k0 d d' l Hin HM H. pose proof HM as [M1 M2 M3 M4 M6 M7 M5].
  assert (Hnw : nwk c = k0) by (unfold nwk; now rewrite Hin).
  unfold dm_step in H. cbv zeta in H. rewrite Hin in H.
  assert (Hxm : main (dbase d) <> MBegin -> (forall k, main (dbase d) <> MStart k) ->
                (forall k, main (dbase d) <> MJoin k) ->
                match xm_step (dx c) (xs d) with Some (x', l0) => Some (set_xs d x', l0) | None => None end = Some (d', l) ->
                MI c n d').
  { intros N1 N2 N3 Hx. destruct (xm_step (dx c) (xs d)) as [[x' l0]|] eqn:Ex; [|discriminate]. inversion Hx; subst; clear Hx.
    destruct (xm_step_cR _ _ _ _ Ex) as (HR & _ & _ & _).
    destruct (xm_step_eff _ _ _ _ Ex) as ((Ews & _ & Elq & _) & _ & _).
    assert (Hst : started (main (dbase d))) by (unfold dbase in *; destruct (main (base (xs d))); try exact I; congruence).
    destruct x' as [s' dd aa ll]. unfold dbase, set_xs in *. cbn [xs rp rwait base] in *.
    constructor; unfold dbase; cbn [xs rp rwait base]; rewrite ?Ews; try assumption.
    - (* ops *)
      destruct HR; cbn [main ops set_main qpop qput qtd set_queues set_futs inshut];
        try (intros Hi; exfalso; exact (goto_not_inshut _ _ _ _ Hi));
        try (intros _; apply M1; rewrite H0; exact I);
        try (intros Hi; now destruct Hi).
      + intros _. destruct H0 as [E|[E [t Ho]]]; [apply M1; rewrite E; exact I|rewrite Ho; discriminate].
      + intros _. destruct H0 as [E|[E [t Ho]]]; [apply M1; rewrite E; exact I|rewrite Ho; discriminate].
      + intros _. destruct H0 as [E|[E [t Ho]]]; [apply M1; rewrite E; exact I|rewrite Ho; discriminate].
      + intros _. destruct H0 as [[E Ho]|E]; [|apply M1; rewrite E; exact I].
        destruct Ho as [[t Ho]|[[_ [t Ho]]|[_ [t Ho]]]]; rewrite Ho; discriminate.
    - intro E. rewrite E in Elq. simpl in Elq. destruct (queues (base (xs d))); [congruence|discriminate].
    - intros k E. exfalso. destruct HR; cbn [main set_main] in E; try discriminate E; try congruence;
        try (match type of E with main (m_goto ?s0 ?l0 ?x0 ?c0) = _ => destruct (m_goto_main s0 l0 x0 c0) as [E2|E2]; rewrite E2 in E; discriminate E end).
    - intros E. exfalso. destruct HR; cbn [main set_main] in E; try discriminate E;
        try (match type of E with main (m_goto ?s0 ?l0 ?x0 ?c0) = _ => destruct (m_goto_main s0 l0 x0 c0) as [E2|E2]; rewrite E2 in E; discriminate E end).
    - intros Hn. exfalso. apply Hn. destruct HR; cbn [main set_main]; try exact I; try congruence;
        try (apply plain_started, m_goto_plain).
    - (* counts *)
      fold (cq0 s'). fold (cq0 (base (xs d))) in M5.
      assert (Hsuf : forall s1 lst xo cl, (exists pre, ops (base (xs d)) = pre ++ lst) ->
                length (submits (ops (m_goto s1 lst xo cl))) <= length (submits (ops (base (xs d))))).
      { intros s1 lst xo cl [pre Hp]. pose proof (submits_len_suffix _ _ (m_goto_ops s1 lst xo cl)) as Hs1.
        rewrite Hp, submits_app, app_length. lia. }
      destruct HR; try congruence.
      + (* submit *)
        pose proof (submits_len_suffix _ _ (m_goto_ops (submit_state (base (xs d)) i) t [XOk] (closed (base (xs d))))) as Hs1.
        rewrite H1 in M5. cbn [submits length] in M5.
        unfold cq0 in *. rewrite m_goto_queues_getq.
        generalize dependent (length (submits (ops (m_goto (submit_state (base (xs d)) i) t [XOk] (closed (base (xs d))))))).
        intros X HX. unfold submit_state, qput, set_queues, getq. fld.
        rewrite getq_upd0 by exact M2. cbn [qitems]. rewrite count_snoc. simpl b2n. unfold getq in M5. lia.
      + pose proof (Hsuf (set_futs (base (xs d)) (setf (base (xs d)) i f)) t [XBool b] (closed (base (xs d)))) as Hs2.
        specialize (Hs2 (ex_intro _ [OCancel i] H1)).
        unfold cq0 in *. rewrite m_goto_queues_getq. unfold getq, set_futs in *. fld. lia.
      + pose proof (Hsuf (base (xs d)) t [result_outcome (getf (base (xs d)) i)] (closed (base (xs d)))) as Hs2.
        specialize (Hs2 (ex_intro _ [OResult i] H1)).
        unfold cq0 in *. rewrite m_goto_queues_getq. lia.
      + pose proof (cq0_pop _ _ _ H1 M2) as Hp. cbn [set_main ops qpop set_queues]. unfold cq0 in *. simpl in Hp.
        change (getq (set_main (qpop (base (xs d)) 0) (MDrainCancel w j)) 0) with (getq (qpop (base (xs d)) 0) 0). lia.
      + pose proof (cq0_pop _ _ _ H1 M2) as Hp. cbn [set_main ops qpop set_queues]. unfold cq0 in *. simpl in Hp.
        change (getq (set_main (qpop (base (xs d)) 0) (MDrain w)) 0) with (getq (qpop (base (xs d)) 0) 0). lia.
      + exact M5.
      + cbn [set_main ops qput qtd set_queues]. unfold cq0 in *.
        change (getq (set_main (qput (base (xs d)) 0 (Shut w)) (MJoin 0)) 0) with (getq (qput (base (xs d)) 0 (Shut w)) 0).
        unfold qput, set_queues, getq in *. fld. rewrite getq_upd0 by exact M2. cbn [qitems].
        rewrite count_snoc. simpl b2n. lia.
      + pose proof (Hsuf (qput (base (xs d)) 0 (Shut w)) (tl (ops (base (xs d)))) (if cur_silent (base (xs d)) then [] else [XOk]) true) as Hs2.
        assert (He : exists pre, ops (base (xs d)) = pre ++ tl (ops (base (xs d))))
          by (destruct (ops (base (xs d))) as [|o t]; [exists []; reflexivity|exists [o]; reflexivity]).
        specialize (Hs2 He). unfold cq0 in *. rewrite m_goto_queues_getq.
        unfold qput, set_queues, getq in *. fld. rewrite getq_upd0 by exact M2. cbn [qitems].
        rewrite count_snoc. simpl b2n. lia.
      + cbn [set_main ops qput qtd set_queues]. unfold cq0 in *.
        change (getq (set_main (qput (base (xs d)) 0 (Shut w)) (MPutShut w (S k))) 0) with (getq (qput (base (xs d)) 0 (Shut w)) 0).
        unfold qput, set_queues, getq in *. fld. rewrite getq_upd0 by exact M2. cbn [qitems].
        rewrite count_snoc. simpl b2n. lia.
      + exact M5.
      + cbn [set_main ops qput qtd set_queues]. unfold cq0 in *.
        change (getq (set_main (qtd (base (xs d)) 0) (MDrain w)) 0) with (getq (qtd (base (xs d)) 0) 0).
        fold (cq0 (qtd (base (xs d)) 0)). rewrite cq0_td. unfold cq0. exact M5.
      + pose proof (Hsuf (base (xs d)) (tl (ops (base (xs d)))) (if cur_silent (base (xs d)) then [] else [XOk]) true) as Hs2.
        assert (He : exists pre, ops (base (xs d)) = pre ++ tl (ops (base (xs d))))
          by (destruct (ops (base (xs d))) as [|o t]; [exists []; reflexivity|exists [o]; reflexivity]).
        specialize (Hs2 He). unfold cq0 in *. rewrite m_goto_queues_getq. lia. }
  unfold dbase in *.
  destruct (main (base (xs d))) as [|k| |w|w j|w|w k|k| |] eqn:Hm;
    try (apply Hxm; [discriminate|intros; discriminate|intros; discriminate|exact H]).
  - (* MBegin *)
    assert (Hd' : d' = set_dbase d (set_main (set_queues (base (xs d)) (queues (base (xs d)) ++ [mkQ [] 0]))
                                     (match k0 with 0 => MStart 1 | _ => MStart 0 end)))
      by (destruct k0; inversion H; reflexivity).
    subst d'. clear H.
    constructor; unfold dbase, set_dbase, set_xs, set_base; cbn [xs base rp rwait]; unfold set_main, set_queues; fld.
    + destruct k0; simpl; tauto.
    + destruct (queues (base (xs d))); discriminate.
    + exact M3.
    + intros k E. rewrite (M6 eq_refl). simpl. lia.
    + destruct k0; discriminate.
    + intros _. apply M7. simpl. tauto.
    + pose proof (getq0_snoc (base (xs d)) M2) as Eg. unfold getq, set_queues in Eg. cbn [queues] in Eg.
      unfold getq in *. fld. rewrite Eg. exact M5.
  - (* MStart *)
    destruct (Nat.ltb k k0) eqn:Hlt; inversion H; subst; clear H.
    + apply Nat.ltb_lt in Hlt. specialize (M4 k eq_refl).
      constructor; unfold dbase, set_dbase, set_xs, set_base; cbn [xs base rp rwait]; unfold set_main, set_ws; fld;
        rewrite ?app_length; simpl length; try assumption; try lia.
      * intros k1 E. inversion E; subst. lia.
      * discriminate.
    + assert (Hrn : rp d = RNone) by (apply M7; simpl; tauto).
      constructor; unfold dbase, set_base; cbn [xs base rp rwait]; autorewrite with flds; try assumption.
      * intros Hi. exfalso. exact (goto_not_inshut _ _ _ _ Hi).
      * intros k1 E. destruct (m_goto_main (base (xs d)) (ops (base (xs d)) ++ [ODrop]) [] false) as [E2|E2]; rewrite E2 in E; discriminate.
      * intros E. destruct (m_goto_main (base (xs d)) (ops (base (xs d)) ++ [ODrop]) [] false) as [E2|E2]; rewrite E2 in E; discriminate.
      * intros Hn. exfalso. apply Hn. apply plain_started, m_goto_plain.
      * rewrite Hrn in M5. simpl rcount in *. rewrite m_goto_queues_getq.
        pose proof (submits_len_suffix _ _ (m_goto_ops (base (xs d)) (ops (base (xs d)) ++ [ODrop]) [] false)) as Hs.
        rewrite submits_app in Hs. simpl in Hs. rewrite app_nil_r in Hs. lia.
  - (* MJoin *)
    destruct (rdone (rp d)) eqn:Hrd; [|discriminate].
    assert (Hops : ops (base (xs d)) <> []) by (apply M1; exact I).
    destruct (rp d) eqn:Hr; simpl in Hrd; try discriminate Hrd; inversion H; subst; clear H.
    + constructor; unfold dbase, set_dbase, set_xs, set_base; cbn [xs base rp rwait]; unfold set_main; fld; try assumption.
      * intros k1 E. discriminate E.
      * discriminate.
      * simpl. tauto.
      * rewrite Hr. exact M5.
    + constructor; unfold dbase, set_dbase, set_xs, set_base, m_done; cbn [xs base rp rwait]; autorewrite with flds; try assumption.
      * intros Hi. exfalso. exact (goto_not_inshut _ _ _ _ Hi).
      * intros k1 E. destruct (m_goto_main (base (xs d)) (tl (ops (base (xs d)))) [XRaise] false) as [E2|E2]; rewrite E2 in E; discriminate.
      * intros E. destruct (m_goto_main (base (xs d)) (tl (ops (base (xs d)))) [XRaise] false) as [E2|E2]; rewrite E2 in E; discriminate.
      * intros Hn. exfalso. apply Hn. apply plain_started, m_goto_plain.
      * rewrite Hr. rewrite m_goto_queues_getq.
        pose proof (submits_len_suffix _ _ (m_goto_ops (base (xs d)) (tl (ops (base (xs d)))) [XRaise] false)) as Hs.
        assert (Ht : length (submits (tl (ops (base (xs d))))) <= length (submits (ops (base (xs d)))))
          by (apply submits_len_suffix; destruct (ops (base (xs d))) as [|o t]; [exists []; reflexivity|exists [o]; reflexivity]).
        lia.
Qed.


(* ------------------------------------------------------------------ *)

(* ================= the pass over the wait list: what has been checked so far ================= *)
Definition rsd (s : state) (r : rpc) : Prop :=
  match r with
  | RScan _ _ deps todo alld _ _ _ =>
      exists p', deps = p' ++ todo /\ (alld = true -> forall j, In j p' -> fdone (getf s j) = true)
  | _ => True
  end.

Lemma rsd_start_pass : forall c d a, rsd (dbase d) (rp (start_pass c d a)).
Proof.
  intros c d a. unfold start_pass. destruct (rwait d) as [|[j dj] rest].
  - destruct a; [exact I|rewrite inner_shut_start_eq; exact I].
  - simpl. exists []. split; [reflexivity|intros _ j0 []].
Qed.

Lemma rsd_scan_next : forall c d pre post n0 a, rsd (dbase d) (rp (scan_next c d pre post n0 a)).
Proof.
  intros c d pre post n0 a. unfold scan_next. destruct post as [|[j dj] rest].
  - destruct a; destruct (Nat.eqb (length pre) n0); try exact I.
    apply (rsd_start_pass c (mkD (xs d) (rp d) pre) (AShut w)).
  - simpl. exists []. split; [reflexivity|intros _ j0 []].
Qed.

Lemma rsd_kont : forall c d k, rsd (dbase d) (rp (kont c d k)).
Proof. intros c d k. destruct k; simpl; [exact I|apply rsd_scan_next]. Qed.

Lemma rsd_mono : forall s s' r, (forall j, fdone (getf s j) = true -> fdone (getf s' j) = true) ->
  rsd s r -> rsd s' r.
Proof.
  intros s s' r Hm H. destruct r; try exact I. simpl in *. destruct H as (p' & E & Hd).
  exists p'. split; [exact E|]. intros Ha j Hj. apply Hm. now apply Hd.
Qed.

Lemma rsd_r : forall c d d' l, r_step c d = Some (d', l) -> rsd (dbase d) (rp d) -> rsd (dbase d') (rp d').
Proof.
  intros c d d' l H HR.
  assert (Hmono : forall j, fdone (getf (dbase d) j) = true -> fdone (getf (dbase d') j) = true)
    by (intros j; apply (done_monotone c d TR d' l j); exact H).
  unfold r_step in H. cbv zeta in H.
  destruct (rp d) eqn:Hr; destr_all H; inversion H; subst; clear H;
    try (unfold after_inputs_done; destruct deps; exact I);
    try (unfold after_inputs_done; destruct (ddeps c i); exact I);
    try exact I;
    try (eapply rsd_mono; [|first [apply rsd_kont | apply rsd_scan_next | apply rsd_start_pass]];
         intros j0 Hj0; rewrite ?dbase_kont, ?dbase_scan_next, ?dbase_start_pass in *; first [exact Hj0 | now apply Hmono]).
  simpl in HR. destruct HR as (p' & E & Hd). simpl. exists (p' ++ [n]). split.
  - rewrite <- app_assoc. exact E.
  - intros Ha j Hj. apply andb_true_iff in Ha. destruct Ha as [Ha Hb].
    apply in_app_or in Hj. destruct Hj as [Hj|[Hj|[]]]; [now apply Hd|subst j; exact Hb].
Qed.

Lemma rsd_step : forall c d t d' l, dstep c d t = Some (d', l) -> rsd (dbase d) (rp d) -> rsd (dbase d') (rp d').
Proof.
  intros c d t d' l H HR.
  assert (Hmono : forall j, fdone (getf (dbase d) j) = true -> fdone (getf (dbase d') j) = true)
    by (intros j; apply (done_monotone c d t d' l j); exact H).
  destruct t as [| | |j|k]; simpl in H.
  - (* client *)
    assert (Hrp : rp d' = rp d \/ rp d' = RBegin).
    { unfold dm_step in H. cbv zeta in H. destruct (main (base (xs d))); destr_all H; inversion H; subst; auto. }
    destruct Hrp as [E|E]; rewrite E; [eapply rsd_mono; eauto|exact I].
  - eapply rsd_r; eauto.
  - destruct (dinner c); [discriminate|]. destruct (d_step (dx c) 1 (xs d)) as [[x' l0]|]; [|discriminate].
    inversion H; subst. eapply rsd_mono; eauto.
  - destruct j as [|j]; [discriminate|]. destruct (w_step _ _ _) as [[b l0]|]; [|discriminate].
    inversion H; subst. eapply rsd_mono; eauto.
  - destruct (p_step _ _ _) as [[b l0]|]; [|discriminate]. inversion H; subst. eapply rsd_mono; eauto.
Qed.

Lemma rsd_reach : forall c n prog d, dreach c (dinit n prog) d -> rsd (dbase d) (rp d).
Proof.
  intros c n prog d H. induction H as [|d t d' l Hr IH Hs]; [exact I|eapply rsd_step; eauto].
Qed.


Lemma mi_step : forall c n k0 d t d' l, dinner c = IBlock k0 -> MI c n d -> dstep c d t = Some (d', l) -> MI c n d'.
Proof.
  intros c n k0 d t d' l Hin HM H. destruct t as [| | |j|k]; simpl in H.
  - eapply mi_m; eauto.
  - eapply mi_r; eauto.
  - rewrite Hin in H. discriminate.
  - destruct j as [|j]; [discriminate|]. destruct (w_step _ _ _) as [[b l0]|] eqn:E; [|discriminate].
    inversion H; subst. eapply mi_w; eauto.
  - destruct (p_step _ _ _) as [[b l0]|] eqn:E; [|discriminate]. inversion H; subst. eapply mi_p; eauto.
Qed.

Lemma mi_reach : forall c n k0 prog d, dinner c = IBlock k0 -> wf_prog n prog -> dreach c (dinit n prog) d -> MI c n d.
Proof.
  intros c n k0 prog d Hin Hwf H. induction H as [|d t d' l Hr IH Hs]; [now apply mi_init|eapply mi_step; eauto].
Qed.

(* ------------------------------------------------------------------ *)

(* ================= constants of the measure ================= *)
Definition Lof (c : dcfg) (i : nat) : nat := length (ddeps c i).
Definition LLm (c : dcfg) (n : nat) : nat := sumf (Lof c) (seq 1 n).
(* cost of one pass over the wait list (at most n parked calls, each with at most LLm inputs) *)
Definition Cmax (c : dcfg) (n : nat) : nat := 1 + n * (LLm c n + 2).

Lemma Lof_le : forall c n i, 1 <= i <= n -> Lof c i <= LLm c n.
Proof.
  intros c n i Hi. unfold LLm.
  assert (Hin : In i (seq 1 n)) by (apply in_seq; lia).
  induction (seq 1 n) as [|a l IH]; [destruct Hin|]. simpl. destruct Hin as [E|Hin]; [subst; lia|specialize (IH Hin); lia].
Qed.

Definition Ld (e : nat * list nat) : nat := length (snd e).

Lemma pass_bound : forall c n (W : list (nat * list nat)),
  length W <= n -> (forall e, In e W -> Ld e <= LLm c n) -> sumf (fun e => Ld e + 2) W + 1 <= Cmax c n.
Proof.
  intros c n W Hl Hb. unfold Cmax.
  assert (H : sumf (fun e => Ld e + 2) W <= length W * (LLm c n + 2)).
  { induction W as [|e W IH]; simpl; [lia|].
    assert (Ld e <= LLm c n) by (apply Hb; now left).
    assert (sumf (fun e0 => Ld e0 + 2) W <= length W * (LLm c n + 2)) by (apply IH; [simpl in Hl; lia|intros e0 He0; apply Hb; now right]).
    lia. }
  assert (length W * (LLm c n + 2) <= n * (LLm c n + 2)) by (apply Nat.mul_le_mono_r; exact Hl).
  lia.
Qed.

Global Opaque Cmax.

Definition T1 : nat := 20.
Definition Pe' (c : dcfg) (n L : nat) : nat := L + T1 + Cmax c n + 12.
Definition Ke (c : dcfg) (n L : nat) : nat := Pe' c n L + L + Cmax c n + 5.
Definition W0T (c : dcfg) (n i : nat) : nat := 3 * Lof c i + Ke c n (Lof c i) + T1 + 35.
Definition SHc (c : dcfg) : nat := 22 * nwk c + nwk c + 15.
Definition W0S (c : dcfg) (n : nat) : nat := SHc c + 5.
Definition PS (c : dcfg) (n : nat) : nat := W0S c n + Cmax c n + 2.       (* putting a shutdown message on queue 0 *)
Definition ROPd (c : dcfg) (n : nat) : nat := PS c n + 20.
Definition opw (c : dcfg) (n : nat) (o : op) : nat :=
  match o with
  | OSubmit i => ROPd c n + 1 + W0T c n i + Cmax c n + 3
  | _ => ROPd c n + 1
  end.

Definition mrankd (c : dcfg) (n : nat) (pc : mpc) : nat :=
  match pc with
  | MBegin => 4 * nwk c + 2 * ROPd c n + 20
  | MStart k => 4 * (nwk c - k) + 2 * ROPd c n + 10
  | MOp => ROPd c n
  | MDrain _ => PS c n + 10
  | MDrainCancel _ _ => PS c n + 12
  | MDrainTd _ => PS c n + 11
  | MPutShut _ k => (PS c n + 1) * k + 3
  | MJoin _ => 2
  | MQJoin => 1
  | MEnd => 0
  end.

Definition wqw (c : dcfg) (n : nat) (q : nat) (it : item) : nat :=
  match q with
  | 0 => match it with Task i => W0T c n i | Shut _ => W0S c n end
  | _ => 20
  end.

Fixpoint qwi (w : nat -> item -> nat) (k : nat) (qs : list queue) : nat :=
  match qs with [] => 0 | q :: r => sumf (w k) (qitems q) + qwi w (S k) r end.

Definition wtr0 (w : wthread) : nat := wrank0 (wp w).

Definition dbm (c : dcfg) (n : nat) (s : state) : nat :=
  sumf (opw c n) (ops s) + mrankd c n (main s) + qwi (wqw c n) 0 (queues s) + sumf wtr0 (ws s) + sumf prank (ps s).

Lemma wqw_ge : forall c n q it, 20 <= wqw c n q it.
Proof. intros c n q it. unfold wqw, W0T, W0S, SHc. destruct q; [destruct it|]; lia. Qed.

(* ---- queues ---- *)
Lemma qwi_upd : forall w qs k q new old, nth_error qs q = Some old ->
  qwi w k (upd qs q new) + sumf (w (k + q)) (qitems old) = qwi w k qs + sumf (w (k + q)) (qitems new).
Proof.
  intros w qs. induction qs as [|a qs IH]; intros k q new old H; destruct q as [|q]; simpl in *; try discriminate.
  - inversion H; subst. rewrite Nat.add_0_r. lia.
  - specialize (IH (S k) q new old H). replace (k + S q) with (S k + q) by lia. lia.
Qed.

Lemma qwi_snoc : forall w qs k, qwi w k (qs ++ [mkQ [] 0]) = qwi w k qs.
Proof. intros w qs. induction qs as [|a qs IH]; intros k; simpl; [reflexivity|]. rewrite IH. reflexivity. Qed.

Lemma dbm_qput : forall c n s q it, dbm c n (qput s q it) <= dbm c n s + wqw c n q it.
Proof.
  intros c n s q it. unfold dbm, qput, set_queues, getq. fld.
  destruct (nth_error (queues s) q) as [old|] eqn:Hn.
  - rewrite (nth_some _ _ _ (mkQ [] 0) _ Hn).
    pose proof (qwi_upd (wqw c n) (queues s) 0 q (mkQ (qitems old ++ [it]) (S (qunf old))) old Hn) as Hq.
    simpl in Hq. rewrite sumf_app in Hq. simpl in Hq. lia.
  - rewrite (upd_none _ _ _ _ Hn). lia.
Qed.

Lemma dbm_qpop : forall c n s q it r, qitems (getq s q) = it :: r -> dbm c n (qpop s q) + wqw c n q it = dbm c n s.
Proof.
  intros c n s q it r Hq. unfold dbm, qpop, set_queues. fld. unfold getq in *.
  destruct (nth_error (queues s) q) as [old|] eqn:Hn.
  - rewrite (nth_some _ _ _ (mkQ [] 0) _ Hn) in *.
    pose proof (qwi_upd (wqw c n) (queues s) 0 q (mkQ (tl (qitems old)) (qunf old)) old Hn) as Hw.
    simpl in Hw. rewrite Hq in *. simpl in *. lia.
  - rewrite (nth_none _ _ _ (mkQ [] 0) Hn) in Hq. discriminate.
Qed.

Lemma dbm_qtd : forall c n s q, dbm c n (qtd s q) = dbm c n s.
Proof.
  intros c n s q. unfold dbm, qtd, set_queues, getq. fld.
  destruct (nth_error (queues s) q) as [old|] eqn:Hn.
  - rewrite (nth_some _ _ _ (mkQ [] 0) _ Hn).
    pose proof (qwi_upd (wqw c n) (queues s) 0 q (mkQ (qitems old) (pred (qunf old))) old Hn) as Hw.
    simpl in Hw. lia.
  - rewrite (upd_none _ _ _ _ Hn). reflexivity.
Qed.

Lemma dbm_set_futs : forall c n s x, dbm c n (set_futs s x) = dbm c n s.
Proof. reflexivity. Qed.

Lemma dbm_set_main : forall c n s x, dbm c n (set_main s x) + mrankd c n (main s) = dbm c n s + mrankd c n x.
Proof. intros. unfold dbm. simpl. lia. Qed.

Lemma dbm_setp : forall c n s k p p',
  nth_error (ps s) (k - 1) = Some p -> dbm c n (setp s k p') + prank p = dbm c n s + prank p'.
Proof. intros c n s k p p' Hn. unfold dbm, setp. simpl. pose proof (sumf_upd _ prank (ps s) (k - 1) p' p Hn). lia. Qed.

Lemma dbm_setp_none : forall c n s k p', nth_error (ps s) (k - 1) = None -> dbm c n (setp s k p') = dbm c n s.
Proof. intros c n s k p' Hn. unfold dbm, setp. simpl. rewrite (upd_none _ _ _ _ Hn). reflexivity. Qed.

Lemma dbm_send_to_p : forall c n s k m, dbm c n (send_to_p s k m) <= dbm c n s + 3.
Proof.
  intros c n s k m. unfold send_to_p, getp.
  destruct (nth_error (ps s) (k - 1)) as [p|] eqn:Hn.
  - rewrite (nth_some _ _ _ (mkP PExit [] []) _ Hn).
    pose proof (dbm_setp c n s k p (mkP (pp p) (inbox p ++ [m]) (outbox p)) Hn) as Hs.
    assert (Hl : prank (mkP (pp p) (inbox p ++ [m]) (outbox p)) = prank p + 3)
      by (unfold prank; simpl; rewrite app_length; simpl; lia).
    lia.
  - rewrite dbm_setp_none by exact Hn. lia.
Qed.

Lemma dbm_pop_from_p : forall c n s k, dbm c n (pop_from_p s k) = dbm c n s.
Proof.
  intros c n s k. unfold pop_from_p, getp.
  destruct (nth_error (ps s) (k - 1)) as [p|] eqn:Hn.
  - rewrite (nth_some _ _ _ (mkP PExit [] []) _ Hn).
    pose proof (dbm_setp c n s k p (mkP (pp p) (inbox p) (tl (outbox p))) Hn) as Hs.
    assert (Hl : prank (mkP (pp p) (inbox p) (tl (outbox p))) = prank p) by reflexivity. lia.
  - rewrite dbm_setp_none by exact Hn. reflexivity.
Qed.

Lemma dbm_set_w : forall c n s j w w',
  nth_error (ws s) j = Some w -> dbm c n (set_w s j w') + wrank0 (wp w) = dbm c n s + wrank0 (wp w').
Proof.
  intros c n s j w w' Hn. unfold dbm, set_w. simpl.
  pose proof (sumf_upd _ wtr0 (ws s) j w' w Hn) as Hs. unfold wtr0 in *. lia.
Qed.

Lemma dbm_wpc_to : forall c n s j w pc,
  nth_error (ws s) j = Some w -> dbm c n (wpc_to s j w pc) + wrank0 (wp w) = dbm c n s + wrank0 pc.
Proof.
  intros c n s j w pc Hn. unfold wpc_to. pose proof (dbm_set_w c n s j w (mkW (wq w) (wproc w) pc) Hn) as Hs.
  simpl in Hs. exact Hs.
Qed.

Lemma dbm_add_p : forall c n s p, dbm c n (set_ps s (ps s ++ [p])) = dbm c n s + prank p.
Proof. intros. unfold dbm. simpl. rewrite sumf_app. simpl. lia. Qed.

Lemma dbm_add_w : forall c n s w, dbm c n (set_ws s (ws s ++ [w])) = dbm c n s + wrank0 (wp w).
Proof. intros. unfold dbm. simpl. rewrite sumf_app. simpl. unfold wtr0. lia. Qed.

Lemma dbm_addq : forall c n s, dbm c n (set_queues s (queues s ++ [mkQ [] 0])) = dbm c n s.
Proof. intros. unfold dbm, set_queues. fld. now rewrite qwi_snoc. Qed.

(* ---- worker threads and processes of the inner executor ---- *)
Lemma dw_move : forall c n s s1 j w pc d0,
  nth_error (ws s1) j = Some w -> dbm c n s1 <= dbm c n s + d0 -> wrank0 pc + d0 < wrank0 (wp w) ->
  dbm c n (wpc_to s1 j w pc) < dbm c n s.
Proof. intros c n s s1 j w pc d0 Hn Hle Hr. pose proof (dbm_wpc_to c n s1 j w pc Hn). lia. Qed.

Lemma dw_step_dec : forall c n cf s j s' l, w_step cf s j = Some (s', l) -> dbm c n s' < dbm c n s.
Proof.
  intros c n cf s j s' l Hst. unfold w_step in Hst.
  destruct (nth_error (ws s) j) as [w|] eqn:Hn; [|discriminate].
  assert (Hsame : forall pc, wrank0 pc < wrank0 (wp w) -> dbm c n (wpc_to s j w pc) < dbm c n s).
  { intros pc Hr. apply (dw_move c n s s j w pc 0); [exact Hn|lia|lia]. }
  assert (Hfut : forall x pc, wrank0 pc < wrank0 (wp w) -> dbm c n (wpc_to (set_futs s x) j w pc) < dbm c n s).
  { intros x pc Hr. apply (dw_move c n s (set_futs s x) j w pc 0); [exact Hn|rewrite dbm_set_futs; lia|lia]. }
  assert (Htd : forall q pc, wrank0 pc < wrank0 (wp w) -> dbm c n (wpc_to (qtd s q) j w pc) < dbm c n s).
  { intros q pc Hr. apply (dw_move c n s (qtd s q) j w pc 0); [exact Hn|rewrite dbm_qtd; lia|lia]. }
  assert (Hsend : forall k m pc, wrank0 pc + 3 < wrank0 (wp w) -> dbm c n (wpc_to (send_to_p s k m) j w pc) < dbm c n s).
  { intros k m pc Hr. apply (dw_move c n s (send_to_p s k m) j w pc 3); [exact Hn|apply dbm_send_to_p|lia]. }
  assert (Hpop : forall k pc, wrank0 pc < wrank0 (wp w) -> dbm c n (wpc_to (pop_from_p s k) j w pc) < dbm c n s).
  { intros k pc Hr. apply (dw_move c n s (pop_from_p s k) j w pc 0); [exact Hn|rewrite dbm_pop_from_p; lia|lia]. }
  cbv zeta in Hst.
  destruct (wp w) as [ | | |i| |i|i|i v| |i|i|i|i|i|i|i|i|b|b|b|b|b| | | | | ] eqn:Hpc; simpl wrank0 in *.
  - inversion Hst; subst; clear Hst. apply Hsame. simpl. lia.
  - inversion Hst; subst; clear Hst.
    pose proof (dbm_set_w c n (set_ps s (ps s ++ [mkP PBegin [] []])) j w (mkW (wq w) (S (length (ps s))) WGet) Hn) as Hw.
    rewrite dbm_add_p in Hw. rewrite Hpc in Hw. unfold prank in Hw. simpl in Hw. lia.
  - destruct (qitems (getq s (wq w))) as [|it r] eqn:Hq; [discriminate|].
    pose proof (dbm_qpop c n s (wq w) it r Hq) as Hp. pose proof (wqw_ge c n (wq w) it) as Hge.
    destruct it as [i|b]; inversion Hst; subst; clear Hst.
    + pose proof (dbm_wpc_to c n (qpop s (wq w)) j w (WSrnc i) Hn) as Hw. rewrite Hpc in Hw. simpl in Hw. lia.
    + pose proof (dbm_wpc_to c n (qpop s (wq w)) j w (WSPoll b) Hn) as Hw. rewrite Hpc in Hw. simpl in Hw. lia.
  - destruct (getf s i); inversion Hst; subst; clear Hst;
      first [apply Hfut; simpl; lia | apply Hsame; simpl; lia].
  - inversion Hst; subst; clear Hst. apply Htd. simpl. lia.
  - inversion Hst; subst; clear Hst. apply Hsend. simpl. lia.
  - destruct (outbox (getp s (wproc w))) as [|m r]; [discriminate|].
    destruct m; inversion Hst; subst; clear Hst; apply Hpop; simpl; lia.
  - destruct (getf s i); inversion Hst; subst; clear Hst;
      first [apply Hfut; simpl; lia | apply Hsame; simpl; lia].
  - inversion Hst; subst; clear Hst. apply Htd. simpl. lia.
  - destruct (palive (getp s (wproc w))); inversion Hst; subst; clear Hst; apply Hsame; simpl; lia.
  - inversion Hst; subst; clear Hst. apply Hsend. simpl. lia.
  - destruct (outbox (getp s (wproc w))) as [|m r]; [discriminate|].
    inversion Hst; subst; clear Hst. apply Hpop. simpl. lia.
  - destruct (palive (getp s (wproc w))); [discriminate|].
    inversion Hst; subst; clear Hst. apply Hsame. simpl. lia.
  - inversion Hst; subst; clear Hst. apply Hsame. simpl. lia.
  - destruct (palive (getp s (wproc w))); [discriminate|].
    inversion Hst; subst; clear Hst. apply Hsame. simpl. lia.
  - inversion Hst; subst; clear Hst. apply Htd. simpl. lia.
  - destruct (getf s i); inversion Hst; subst; clear Hst;
      first [apply Hfut; simpl; lia | apply Hsame; simpl; lia].
  - destruct (palive (getp s (wproc w))); inversion Hst; subst; clear Hst; apply Hsame; simpl; lia.
  - inversion Hst; subst; clear Hst. apply Hsend. simpl. lia.
  - destruct (outbox (getp s (wproc w))) as [|m r]; [discriminate|].
    inversion Hst; subst; clear Hst. apply Hpop. simpl. lia.
  - destruct (palive (getp s (wproc w))); [discriminate|].
    inversion Hst; subst; clear Hst. apply Hsame. simpl. lia.
  - inversion Hst; subst; clear Hst. apply Hsame. destruct b; simpl; lia.
  - destruct (palive (getp s (wproc w))); [discriminate|].
    inversion Hst; subst; clear Hst. apply Hsame. simpl. lia.
  - inversion Hst; subst; clear Hst. apply Htd. simpl. lia.
  - destruct (Nat.eqb (qunf (getq s (wq w))) 0); [|discriminate].
    inversion Hst; subst; clear Hst. apply Hsame. simpl. lia.
  - discriminate.
  - discriminate.
Qed.

Lemma dp_step_dec : forall c n cf s k s' l, p_step cf s k = Some (s', l) -> dbm c n s' < dbm c n s.
Proof.
  intros c n cf s k s' l Hst. unfold p_step in Hst.
  destruct (nth_error (ps s) (k - 1)) as [p|] eqn:Hn; [|discriminate].
  destruct (Nat.eqb k 0); [discriminate|].
  assert (Hmove : forall p', prank p' < prank p -> dbm c n (setp s k p') < dbm c n s).
  { intros p' Hr. pose proof (dbm_setp c n s k p p' Hn). lia. }
  destruct (pp p) as [ | |i|i| | ] eqn:Hpp.
  - inversion Hst; subst; clear Hst. apply Hmove. unfold prank. rewrite Hpp. simpl. lia.
  - destruct (inbox p) as [|m t] eqn:Hin; [discriminate|].
    destruct m; inversion Hst; subst; clear Hst; apply Hmove; unfold prank; rewrite Hpp, Hin; simpl; lia.
  - inversion Hst; subst; clear Hst. apply Hmove. unfold prank. rewrite Hpp. simpl. lia.
  - inversion Hst; subst; clear Hst. apply Hmove. unfold prank. rewrite Hpp. simpl. lia.
  - inversion Hst; subst; clear Hst. apply Hmove. unfold prank. rewrite Hpp. simpl. lia.
  - discriminate.
Qed.

(* ------------------------------------------------------------------ *)

(* ================= the resolver's part of the measure ================= *)
(* a parked call is ready: all its inputs are done *)
Definition rdy (s : state) (e : nat * list nat) : bool := forallb (fun j => fdone (getf s j)) (snd e).
(* potential of a parked call that is still to be examined in this pass / has been kept *)
Definition epT (c : dcfg) (n : nat) (s : state) (e : nat * list nat) : nat :=
  if rdy s e then Pe' c n (Ld e) + Ld e else Ke c n (Ld e) + Ld e + 2.
Definition epK (c : dcfg) (n : nat) (e : nat * list nat) : nat := Ke c n (Ld e).
Definition curpot (c : dcfg) (n : nat) (s : state) (e : nat * list nat) (todo : list nat) (alld : bool) : nat :=
  if alld && rdy s e then Pe' c n (Ld e) + length todo else Ke c n (Ld e) + length todo + 1.
Definition q0ne (s : state) : bool := negb (is_nil (qitems (getq s 0))).
Definition abonus (c : dcfg) (a : rafter) : nat := match a with AShut _ => SHc c | ASleepPoll => 0 end.
Definition qbsc (c : dcfg) (n : nat) (s : state) (a : rafter) : nat :=
  match a with ASleepPoll => if q0ne s then Cmax c n + 2 else 0 | AShut _ => 0 end.
Definition qbsl (c : dcfg) (n : nat) (s : state) (a : rafter) : nat :=
  match a with ASleepPoll => if q0ne s then Cmax c n + 1 else 0 | AShut _ => 0 end.
Definition rbf (c : dcfg) (n : nat) (m n0 : nat) : nat := if Nat.eqb m n0 then 0 else Cmax c n + 1.
Definition kpot (c : dcfg) (n : nat) (s : state) (k : rcont) (rw : list (nat * list nat)) : nat :=
  match k with
  | KTd => 2 + sumf (epT c n s) rw
  | KScan pre post n0 a => sumf (epK c n) pre + sumf (epT c n s) post + abonus c a + qbsc c n s a + (Cmax c n + 1)
  end.

Definition rmf (c : dcfg) (n : nat) (s : state) (r : rpc) (rw : list (nat * list nat)) : nat :=
  match r with
  | RNone => sumf (epT c n s) rw
  | RBegin => 2 + sumf (epT c n s) rw
  | RPoll => 1 + sumf (epT c n s) rw
  | RCheck i todo _ => length todo + Ke c n (Lof c i) + 2 * Lof c i + T1 + 30 + sumf (epT c n s) rw
  | RRes i todo k => length todo + T1 + 8 + kpot c n s k rw
  | RFwd i k => T1 + 3 + kpot c n s k rw
  | RFailSrnc i k => 4 + kpot c n s k rw
  | RFailSet i k => 3 + kpot c n s k rw
  | RTd => 2 + sumf (epT c n s) rw
  | RScan pre cur deps todo alld post n0 a =>
      sumf (epK c n) pre + curpot c n s (cur, deps) todo alld + sumf (epT c n s) post
      + rbf c n (length pre + 1 + length post) n0 + abonus c a + qbsc c n s a
  | RSleep a => sumf (epK c n) rw + abonus c a + qbsl c n s a
  | RInPut w k => 22 * k + nwk c + 10
  | RInJoin k => (nwk c - k) + 5
  | RInJoinD => 4 | RInQJoin => 3 | RTd0 => 2 | RQJoin0 => 1
  | RDone | RDead => 0
  end.

Definition dmu (c : dcfg) (n : nat) (d : dstate) : nat :=
  dbm c n (dbase d) + rmf c n (dbase d) (rp d) (rwait d).

(* ---- monotonicity: futures becoming done and the outer queue becoming empty only lower it ---- *)
Definition smono (s s' : state) : Prop :=
  (forall j, fdone (getf s j) = true -> fdone (getf s' j) = true) /\ (q0ne s' = true -> q0ne s = true).

Lemma rdy_mono : forall s s' e, smono s s' -> rdy s e = true -> rdy s' e = true.
Proof.
  intros s s' e [Hm _] H. unfold rdy in *. rewrite forallb_forall in *. intros j Hj. apply Hm. now apply H.
Qed.

Lemma Pe_lt_Ke : forall c n L, Pe' c n L + L + Cmax c n + 5 = Ke c n L.
Proof. intros. unfold Ke. lia. Qed.

Lemma epT_mono : forall c n s s' e, smono s s' -> epT c n s' e <= epT c n s e.
Proof.
  intros c n s s' e Hm. unfold epT. pose proof (Pe_lt_Ke c n (Ld e)).
  destruct (rdy s e) eqn:E; [rewrite (rdy_mono _ _ _ Hm E); lia|destruct (rdy s' e); lia].
Qed.

Lemma sumT_mono : forall c n s s' W, smono s s' -> sumf (epT c n s') W <= sumf (epT c n s) W.
Proof.
  intros c n s s' W Hm. induction W as [|e W IH]; simpl; [lia|]. pose proof (epT_mono c n s s' e Hm). lia.
Qed.

Lemma curpot_mono : forall c n s s' e todo alld, smono s s' -> curpot c n s' e todo alld <= curpot c n s e todo alld.
Proof.
  intros c n s s' e todo alld Hm. unfold curpot. pose proof (Pe_lt_Ke c n (Ld e)). destruct alld; simpl; [|lia].
  destruct (rdy s e) eqn:E; [rewrite (rdy_mono _ _ _ Hm E); lia|destruct (rdy s' e); lia].
Qed.

Lemma qbsc_mono : forall c n s s' a, smono s s' -> qbsc c n s' a <= qbsc c n s a.
Proof.
  intros c n s s' a [_ Hq]. unfold qbsc. destruct a; [|lia].
  destruct (q0ne s') eqn:E; [rewrite (Hq eq_refl); lia|destruct (q0ne s); lia].
Qed.

Lemma qbsl_mono : forall c n s s' a, smono s s' -> qbsl c n s' a <= qbsl c n s a.
Proof.
  intros c n s s' a [_ Hq]. unfold qbsl. destruct a; [|lia].
  destruct (q0ne s') eqn:E; [rewrite (Hq eq_refl); lia|destruct (q0ne s); lia].
Qed.

Lemma kpot_mono : forall c n s s' k rw, smono s s' -> kpot c n s' k rw <= kpot c n s k rw.
Proof.
  intros c n s s' k rw Hm. destruct k as [|pre post n0 a]; simpl.
  - pose proof (sumT_mono c n s s' rw Hm). lia.
  - pose proof (sumT_mono c n s s' post Hm). pose proof (qbsc_mono c n s s' a Hm). lia.
Qed.

Lemma rmf_mono : forall c n s s' r rw, smono s s' -> rmf c n s' r rw <= rmf c n s r rw.
Proof.
  intros c n s s' r rw Hm.
  pose proof (sumT_mono c n s s' rw Hm) as H1.
  destruct r; simpl; try lia;
    try (pose proof (kpot_mono c n s s' k rw Hm); lia).
  - pose proof (sumT_mono c n s s' post Hm). pose proof (curpot_mono c n s s' (cur, deps) todo alld Hm).
    pose proof (qbsc_mono c n s s' a Hm). lia.
  - pose proof (qbsl_mono c n s s' a Hm). lia.
Qed.

(* ---- bounds ---- *)
Lemma epT_le : forall c n s e, epT c n s e <= epK c n e + Ld e + 2.
Proof. intros c n s e. unfold epT, epK. pose proof (Pe_lt_Ke c n (Ld e)). destruct (rdy s e); lia. Qed.

Lemma sumT_le : forall c n s W, sumf (epT c n s) W <= sumf (epK c n) W + sumf (fun e => Ld e + 2) W.
Proof. intros c n s W. induction W as [|e W IH]; simpl; [lia|]. pose proof (epT_le c n s e). lia. Qed.

Lemma sumT_ready : forall c n s W, existsb (rdy s) W = true ->
  sumf (epT c n s) W + Cmax c n + 5 <= sumf (epK c n) W + sumf (fun e => Ld e + 2) W.
Proof.
  intros c n s W. induction W as [|e W IH]; simpl; intros H; [discriminate|].
  pose proof (sumT_le c n s W) as Hl. pose proof (epT_le c n s e) as He.
  destruct (rdy s e) eqn:E.
  - unfold epT, epK in *. rewrite E in *. pose proof (Pe_lt_Ke c n (Ld e)). lia.
  - simpl in H. specialize (IH H). lia.
Qed.

Lemma curpot_le : forall c n s e, curpot c n s e (snd e) true <= epT c n s e.
Proof. intros c n s e. unfold curpot, epT, Ld. simpl. destruct (rdy s e); lia. Qed.

Lemma rbf_le : forall c n m n0, rbf c n m n0 <= Cmax c n + 1.
Proof. intros. unfold rbf. destruct (Nat.eqb m n0); lia. Qed.

(* ---- the helper functions, at a fixed base state ---- *)
Lemma rmf_start_pass : forall c n s d a,
  rmf c n s (rp (start_pass c d a)) (rwait (start_pass c d a))
  <= sumf (epT c n s) (rwait d) + abonus c a + qbsc c n s a.
Proof.
  intros c n s d a. unfold start_pass. destruct (rwait d) as [|[j dj] rest] eqn:E.
  - destruct a.
    + simpl. rewrite E. simpl. destruct (q0ne s); lia.
    + rewrite inner_shut_start_eq. simpl. unfold SHc. lia.
  - cbn [set_rp rp rwait rmf]. rewrite ?E. pose proof (curpot_le c n s (j, dj)) as Hc. cbn [snd] in Hc.
    unfold rbf. cbn [length sumf]. replace (Nat.eqb (0 + 1 + length rest) (S (length rest))) with true
      by (symmetry; apply Nat.eqb_eq; lia). lia.
Qed.

Lemma rmf_scan_next : forall c n s d pre post n0 a,
  sumf (fun e => Ld e + 2) pre + 1 <= Cmax c n ->
  rmf c n s (rp (scan_next c d pre post n0 a)) (rwait (scan_next c d pre post n0 a))
  <= sumf (epK c n) pre + sumf (epT c n s) post + abonus c a + qbsc c n s a + rbf c n (length pre + length post) n0.
Proof.
  intros c n s d pre post n0 a HB. unfold scan_next. destruct post as [|[j dj] rest].
  - pose proof (sumT_le c n s pre) as Hl. simpl. rewrite Nat.add_0_r. unfold rbf.
    destruct a; destruct (Nat.eqb (length pre) n0) eqn:En; simpl; rewrite ?Nat.add_0_r, ?En.
    + destruct (q0ne s); lia.
    + lia.
    + lia.
    + pose proof (rmf_start_pass c n s (mkD (xs d) (rp d) pre) (AShut w)) as Hs. simpl in Hs. lia.
  - simpl. pose proof (curpot_le c n s (j, dj)) as Hc. simpl in Hc.
    replace (length pre + 1 + length rest) with (length pre + S (length rest)) by lia. lia.
Qed.

Lemma rmf_kont : forall c n s d k,
  (forall pre post n0 a, k = KScan pre post n0 a -> sumf (fun e => Ld e + 2) pre + 1 <= Cmax c n) ->
  rmf c n s (rp (kont c d k)) (rwait (kont c d k)) <= kpot c n s k (rwait d).
Proof.
  intros c n s d k HB. destruct k as [|pre post n0 a]; simpl; [lia|].
  pose proof (rmf_scan_next c n s d pre post n0 a (HB _ _ _ _ eq_refl)) as H.
  pose proof (rbf_le c n (length pre + length post) n0). lia.
Qed.

Lemma rmf_aid : forall c n s d i deps k,
  rmf c n s (rp (after_inputs_done d i deps k)) (rwait (after_inputs_done d i deps k))
  <= length deps + T1 + 8 + kpot c n s k (rwait d).
Proof. intros. unfold after_inputs_done. destruct deps; simpl; lia. Qed.

(* ------------------------------------------------------------------ *)

(* A step of the resolver thread R is a fruitless poll exactly when R is at the sleep of its idle
   loop (pc RSleep), no parked call has all its inputs done (so the next pass over the wait list
   will forward nothing) and, before the shutdown message has been taken (a = ASleepPoll), the
   outer queue is empty; after it has been taken (a = AShut w) the wait list must be non-empty
   (with an empty wait list the sleep is followed by the shutdown of the inner executor).
   All other steps of R -- the get_nowait on the empty outer queue and every step of a pass over
   the wait list included -- decrease the measure: the cost of a fruitless cycle is charged to
   its sleep. *)
Definition r_polling (c : dcfg) (d : dstate) : bool :=
  match rp d with
  | RSleep a =>
      negb (existsb (rdy (dbase d)) (rwait d)) &&
      match a with
      | ASleepPoll => is_nil (qitems (getq (dbase d) 0))
      | AShut _ => negb (is_nil (rwait d))
      end
  | _ => false
  end.

Lemma wf_bound : forall c n W, wfl c W -> lP0 (rng n) W -> length W <= n ->
  sumf (fun e => Ld e + 2) W + 1 <= Cmax c n.
Proof.
  intros c n W Hw Hr Hl. apply pass_bound; [exact Hl|]. intros e He.
  unfold Ld. rewrite (Hw e He). apply Lof_le. exact (Hr e He).
Qed.

Lemma smono_refl : forall s, smono s s.
Proof. intros s. split; auto. Qed.

Lemma q0ne_put1 : forall s it, q0ne (qput s 1 it) = q0ne s.
Proof. intros s it. unfold q0ne, qput, set_queues, getq. fld. rewrite nth_upd_other by lia. reflexivity. Qed.
Lemma q0ne_td : forall s, q0ne (qtd s 0) = q0ne s.
Proof. intros s. unfold q0ne, qtd, set_queues, getq. fld. change (mkQ [] 0) with dq. rewrite qtd_items. reflexivity. Qed.

Ltac dsimp := unfold set_rp, set_dbase, set_xs, set_base, dbase in *; cbn [xs base rp rwait] in *.

Lemma r_step_dec : forall c n d d' l,
  MI c n d -> RI c d -> RP (rng n) d -> rsd (dbase d) (rp d) ->
  r_step c d = Some (d', l) -> r_polling c d = false -> dmu c n d' < dmu c n d.
Proof.
  intros c n d d' l HM HRI HRP Hsd Hst Hpoll.
  assert (Hdm : forall j, fdone (getf (dbase d) j) = true -> fdone (getf (dbase d') j) = true)
    by (intros j; apply (done_monotone c d TR d' l j); exact Hst).
  destruct HRI as [Hwl HRr]. destruct HRP as [Hrl HRp]. pose proof (M_cnt _ _ _ HM) as Hcnt.
  pose proof (M_ws _ _ _ HM) as Hws.
  assert (HT1 : T1 = 20) by reflexivity.
  unfold dmu. unfold r_step in Hst. cbv zeta in Hst. unfold r_polling in Hpoll.
  destruct (rp d) as [| | |i todo alld|i todo k|i k|i k|i k| |pre cur deps todo alld post n0 a|a|w k|k| | | | | |] eqn:Hr;
    try discriminate Hst.
  - (* RBegin *) inversion Hst; subst; clear Hst. dsimp. cbn [rmf]. lia.
  - (* RPoll *)
    destruct (qitems (getq (dbase d) 0)) as [|it rest] eqn:Hq0.
    + inversion Hst; subst; clear Hst. rewrite dbase_start_pass.
      pose proof (rmf_start_pass c n (dbase d) d ASleepPoll) as Hs. cbn [abonus qbsc] in Hs.
      unfold q0ne in Hs. rewrite Hq0 in Hs. cbn [is_nil negb] in Hs. cbn [rmf]. lia.
    + pose proof (dbm_qpop c n (dbase d) 0 it rest Hq0) as Hp.
      assert (Hsm : smono (dbase d) (qpop (dbase d) 0)).
      { split; [intros j Hj; exact Hj|]. intros _. unfold q0ne. rewrite Hq0. reflexivity. }
      destruct it as [i|w0].
      * (* a call *)
        simpl wqw in Hp. unfold W0T in Hp.
        destruct (ddeps c i) as [|j0 l0] eqn:Hdeps; inversion Hst; subst; clear Hst;
          unfold set_rp, set_dbase, set_xs, set_base, dbase in *; cbn [xs base rp rwait] in *.
        -- pose proof (sumT_mono c n _ _ (rwait d) Hsm). unfold Lof in Hp. rewrite Hdeps in Hp.
           cbn [rmf kpot length] in *. lia.
        -- pose proof (sumT_mono c n _ _ (rwait d) Hsm). cbn [rmf kpot] in *. unfold Lof in *. rewrite Hdeps in *.
           cbn [length] in *. lia.
      * (* the shutdown message *)
        inversion Hst; subst; clear Hst. rewrite dbase_start_pass.
        unfold set_dbase, set_xs, set_base, dbase in *; cbn [xs base] in *.
        match goal with |- context [start_pass c ?D (AShut w0)] =>
          pose proof (rmf_start_pass c n (qpop (base (xs d)) 0) D (AShut w0)) as Hs end.
        cbn [rwait abonus qbsc] in Hs. pose proof (sumT_mono c n _ _ (rwait d) Hsm).
        simpl wqw in Hp. unfold W0S in Hp. cbn [rmf]. lia.
  - (* RCheck *)
    destruct todo as [|j rest]; [discriminate|].
    destruct rest as [|j2 rest2].
    + destruct (alld && fdone (getf (dbase d) j)); inversion Hst; subst; clear Hst.
      * rewrite dbase_aid. pose proof (rmf_aid c n (dbase d) d i (ddeps c i) KTd) as Ha.
        cbn [rmf kpot length] in *. unfold Lof. lia.
      * dsimp. cbn [rmf length]. rewrite sumf_app. cbn [sumf].
        pose proof (epT_le c n (base (xs d)) (i, ddeps c i)) as He. unfold epK, Ld in He. cbn [snd] in He.
        unfold Lof. lia.
    + inversion Hst; subst; clear Hst. dsimp. cbn [rmf length]. lia.
  - (* RRes *)
    destruct todo as [|j rest]; [discriminate|].
    destruct (fdone (getf (dbase d) j)); [|discriminate].
    destruct (fok (getf (dbase d) j)); [destruct rest|]; inversion Hst; subst; clear Hst; dsimp; cbn [rmf length]; lia.
  - (* RFwd *)
    inversion Hst; subst; clear Hst. rewrite dbase_kont.
    assert (HBk : forall pre post n0 a, k = KScan pre post n0 a -> sumf (fun e => Ld e + 2) pre + 1 <= Cmax c n).
    { intros pre post n0 a E. subst k. simpl in HRr, HRp, Hcnt. apply wf_bound; [tauto|tauto|lia]. }
    pose proof (dbm_qput c n (dbase d) 1 (Task i)) as Hp. simpl wqw in Hp.
    match goal with |- context [kont c ?D k] =>
      pose proof (rmf_kont c n (qput (dbase d) 1 (Task i)) D k HBk) as Hk end.
    assert (Hsm : smono (dbase d) (qput (dbase d) 1 (Task i))).
    { split; [intros j Hj; exact Hj|rewrite q0ne_put1; tauto]. }
    pose proof (kpot_mono c n _ _ k (rwait d) Hsm). dsimp. cbn [rmf]. lia.
  - (* RFailSrnc *)
    assert (HBk : forall pre post n0 a, k = KScan pre post n0 a -> sumf (fun e => Ld e + 2) pre + 1 <= Cmax c n).
    { intros pre post n0 a E. subst k. simpl in HRr, HRp, Hcnt. apply wf_bound; [tauto|tauto|lia]. }
    destruct (getf (dbase d) i) eqn:Hf; inversion Hst; subst; clear Hst.
    all: try (dsimp; cbn [rmf]; lia).
    + (* pending -> running *)
      assert (Hsm : smono (dbase d) (set_futs (dbase d) (setf (dbase d) i FRunning))).
      { split; [intros j Hj; exact (Hdm j Hj)|tauto]. }
      pose proof (kpot_mono c n _ _ k (rwait d) Hsm). dsimp. cbn [rmf]. rewrite dbm_set_futs. lia.
    + (* cancelled -> notified *)
      rewrite dbase_kont in *.
      assert (Hsm : smono (dbase d) (set_futs (dbase d) (setf (dbase d) i FCancelledN))).
      { split; [intros j Hj; exact (Hdm j Hj)|tauto]. }
      match goal with |- context [kont c ?D k] =>
        pose proof (rmf_kont c n (set_futs (dbase d) (setf (dbase d) i FCancelledN)) D k HBk) as Hk end.
      pose proof (kpot_mono c n _ _ k (rwait d) Hsm). dsimp. cbn [rmf]. rewrite dbm_set_futs. lia.
  - (* RFailSet *)
    assert (HBk : forall pre post n0 a, k = KScan pre post n0 a -> sumf (fun e => Ld e + 2) pre + 1 <= Cmax c n).
    { intros pre post n0 a E. subst k. simpl in HRr, HRp, Hcnt. apply wf_bound; [tauto|tauto|lia]. }
    destruct (getf (dbase d) i) eqn:Hf; inversion Hst; subst; clear Hst.
    all: try (dsimp; cbn [rmf]; lia).
    + rewrite dbase_kont in *.
      assert (Hsm : smono (dbase d) (set_futs (dbase d) (setf (dbase d) i FExc)))
        by (split; [intros j Hj; exact (Hdm j Hj)|tauto]).
      match goal with |- context [kont c ?D k] =>
        pose proof (rmf_kont c n (set_futs (dbase d) (setf (dbase d) i FExc)) D k HBk) as Hk end.
      pose proof (kpot_mono c n _ _ k (rwait d) Hsm). dsimp. cbn [rmf]. rewrite dbm_set_futs. lia.
    + rewrite dbase_kont in *.
      assert (Hsm : smono (dbase d) (set_futs (dbase d) (setf (dbase d) i FExc)))
        by (split; [intros j Hj; exact (Hdm j Hj)|tauto]).
      match goal with |- context [kont c ?D k] =>
        pose proof (rmf_kont c n (set_futs (dbase d) (setf (dbase d) i FExc)) D k HBk) as Hk end.
      pose proof (kpot_mono c n _ _ k (rwait d) Hsm). dsimp. cbn [rmf]. rewrite dbm_set_futs. lia.
  - (* RTd *)
    inversion Hst; subst; clear Hst.
    assert (Hsm : smono (dbase d) (qtd (dbase d) 0)) by (split; [intros j Hj; exact Hj|rewrite q0ne_td; tauto]).
    pose proof (sumT_mono c n _ _ (rwait d) Hsm). dsimp. cbn [rmf]. rewrite dbm_qtd. lia.
  - (* RScan *)
    destruct todo as [|j rest]; [discriminate|].
    simpl in HRr, HRp, Hcnt. destruct HRr as (Hwpre & Hdeps & Hwpost). destruct HRp as (Hrpre & Hrcur & Hrpost).
    simpl in Hsd. destruct Hsd as (p' & Edeps & Hpd).
    assert (F1 : rdy (dbase d) (cur, deps) = true -> fdone (getf (dbase d) j) = true).
    { intros Hr1. unfold rdy in Hr1. cbn [snd] in Hr1. rewrite forallb_forall in Hr1. apply Hr1.
      rewrite Edeps. apply in_or_app. right. now left. }
    pose proof (Pe_lt_Ke c n (Ld (cur, deps))) as HPK.
    destruct rest as [|j2 rest2].
    + destruct (alld && fdone (getf (dbase d) j)) eqn:Eal; inversion Hst; subst; clear Hst.
      * (* all inputs done: forward *)
        apply andb_true_iff in Eal. destruct Eal as [Ea Eb]. subst alld.
        assert (Hrdy : rdy (dbase d) (cur, ddeps c cur) = true).
        { unfold rdy. cbn [snd]. apply forallb_forall. intros j0 Hj0. rewrite Edeps in Hj0.
          apply in_app_or in Hj0. destruct Hj0 as [Hj0|[Hj0|[]]]; [now apply Hpd|subst j0; exact Eb]. }
        rewrite dbase_aid.
        pose proof (rmf_aid c n (dbase d) d cur (ddeps c cur) (KScan pre post n0 a)) as Ha.
        cbn [rmf kpot] in *. unfold curpot. rewrite Hrdy. cbn [andb length]. unfold Pe', Ld in *. cbn [snd] in *. lia.
      * (* keep the call parked *)
        cbn [kont]. rewrite dbase_scan_next.
        assert (HB : sumf (fun e => Ld e + 2) (pre ++ [(cur, ddeps c cur)]) + 1 <= Cmax c n).
        { apply wf_bound.
          - apply wfl_app; [exact Hwpre|]. intros e [E|[]]. subst e. reflexivity.
          - intros e He. apply in_app_or in He. destruct He as [He|[He|[]]]; [now apply Hrpre|subst e; exact Hrcur].
          - rewrite app_length. simpl. lia. }
        pose proof (rmf_scan_next c n (dbase d) d (pre ++ [(cur, ddeps c cur)]) post n0 a HB) as Hs.
        rewrite sumf_app, app_length in Hs. cbn [sumf length] in Hs. unfold epK in Hs at 2.
        cbn [rmf]. unfold curpot.
        assert (Hnr : alld && rdy (dbase d) (cur, ddeps c cur) = false).
        { destruct alld; [|reflexivity]. simpl in Eal. simpl.
          destruct (rdy (dbase d) (cur, ddeps c cur)) eqn:E; [|reflexivity]. rewrite (F1 eq_refl) in Eal. discriminate. }
        rewrite Hnr. cbn [length]. replace (length pre + 1 + length post) with (length pre + 1 + length post) in Hs by lia. lia.
    + inversion Hst; subst; clear Hst. dsimp. cbn [rmf]. unfold curpot. cbn [length].
      destruct (alld && rdy (base (xs d)) (cur, ddeps c cur)) eqn:E1.
      * apply andb_true_iff in E1. destruct E1 as [Ea Er]. rewrite Ea. rewrite (F1 Er). cbn [andb]. rewrite Er. lia.
      * destruct ((alld && fdone (getf (base (xs d)) j)) && rdy (base (xs d)) (cur, ddeps c cur)); lia.
  - (* RSleep: not a fruitless poll *)
    simpl in Hcnt.
    assert (HB : sumf (fun e => Ld e + 2) (rwait d) + 1 <= Cmax c n) by (apply wf_bound; [exact Hwl|exact Hrl|lia]).
    pose proof (sumT_le c n (dbase d) (rwait d)) as Hle.
    destruct a as [|w0]; inversion Hst; subst; clear Hst.
    + dsimp. cbn [rmf abonus qbsl]. unfold q0ne.
      destruct (existsb (rdy (base (xs d))) (rwait d)) eqn:Eex.
      * pose proof (sumT_ready c n _ _ Eex). destruct (negb (is_nil (qitems (getq (base (xs d)) 0)))); lia.
      * simpl in Hpoll. rewrite Hpoll. simpl. lia.
    + rewrite dbase_start_pass. pose proof (rmf_start_pass c n (dbase d) d (AShut w0)) as Hs.
      cbn [rmf abonus qbsl qbsc] in *.
      destruct (existsb (rdy (dbase d)) (rwait d)) eqn:Eex.
      * pose proof (sumT_ready c n _ _ Eex). lia.
      * simpl in Hpoll. apply negb_false_iff in Hpoll. destruct (rwait d) as [|e rw] eqn:Erw; [|discriminate Hpoll].
        unfold start_pass. rewrite Erw, inner_shut_start_eq. cbn [set_rp rp rwait rmf sumf]. unfold SHc. lia.
  - (* RInPut *)
    destruct k as [|k']; [discriminate|].
    pose proof (dbm_qput c n (dbase d) 1 (Shut w)) as Hp. simpl wqw in Hp.
    destruct k' as [|k''].
    + destruct w.
      * destruct (dinner c) as [n1|] eqn:Hin.
        -- destruct (Nat.eqb n1 0); inversion Hst; subst; clear Hst; dsimp; cbn [rmf]; unfold nwk; rewrite Hin; lia.
        -- inversion Hst; subst; clear Hst; dsimp; cbn [rmf]. lia.
      * inversion Hst; subst; clear Hst. dsimp. cbn [rmf]. lia.
    + inversion Hst; subst; clear Hst. dsimp. cbn [rmf]. lia.
  - (* RInJoin *)
    destruct (nth_error (ws (dbase d)) k) as [wt|] eqn:Hk; [|discriminate].
    assert (Hkl : k < length (ws (dbase d))) by (apply nth_error_Some; congruence).
    destruct (wdone wt); [|discriminate].
    destruct (wdead wt).
    + inversion Hst; subst; clear Hst. dsimp. cbn [rmf]. lia.
    + destruct (dinner c) as [n1|] eqn:Hin; [|discriminate].
      destruct (Nat.eqb (S k) n1); inversion Hst; subst; clear Hst; dsimp; cbn [rmf]; unfold nwk in *; rewrite Hin in *; lia.
  - (* RInJoinD *)
    destruct (ddone (disp (xs d))); [|discriminate].
    destruct (disp (xs d)); inversion Hst; subst; clear Hst; dsimp; cbn [rmf]; lia.
  - (* RInQJoin *)
    destruct (Nat.eqb (qunf (getq (dbase d) 1)) 0); [|discriminate]. inversion Hst; subst; clear Hst. dsimp. cbn [rmf]. lia.
  - (* RTd0 *) inversion Hst; subst; clear Hst. dsimp. cbn [rmf]. rewrite dbm_qtd. lia.
  - (* RQJoin0 *)
    destruct (Nat.eqb (qunf (getq (dbase d) 0)) 0); [|discriminate]. inversion Hst; subst; clear Hst. dsimp. cbn [rmf]. lia.
Qed.

(* ------------------------------------------------------------------ *)

(* ================= the client ================= *)
Lemma opw_ge : forall c n o, ROPd c n + 1 <= opw c n o.
Proof. intros c n o. destruct o; simpl; lia. Qed.

Lemma settle_le_d : forall c n cl lk sub l acc l' acc' pc,
  settle cl lk sub l acc = (l', acc', pc) -> sumf (opw c n) l' + mrankd c n pc <= sumf (opw c n) l + ROPd c n.
Proof.
  intros c n cl lk sub l. induction l as [|o t IH]; intros acc l' acc' pc Hs.
  - simpl in Hs. inversion Hs; subst. simpl. lia.
  - assert (Hstay : (l', acc', pc) = (o :: t, acc, MOp) ->
                    sumf (opw c n) l' + mrankd c n pc <= sumf (opw c n) (o :: t) + ROPd c n).
    { intros E. inversion E; subst. simpl. lia. }
    assert (Hgo : forall acc2, settle cl lk sub t acc2 = (l', acc', pc) ->
                    sumf (opw c n) l' + mrankd c n pc <= sumf (opw c n) (o :: t) + ROPd c n).
    { intros acc2 E. specialize (IH _ _ _ _ E). simpl sumf. lia. }
    simpl in Hs. destruct o as [i|i|i|w0 c0| |].
    + destruct cl; [eapply Hgo; eauto|apply Hstay; now symmetry].
    + destruct (mem_nat i sub); [apply Hstay; now symmetry|eapply Hgo; eauto].
    + destruct (mem_nat i sub); [apply Hstay; now symmetry|eapply Hgo; eauto].
    + destruct cl; [eapply Hgo; eauto|apply Hstay; now symmetry].
    + destruct (cl || lk); [eapply Hgo; eauto|apply Hstay; now symmetry].
    + destruct cl; [eapply Hgo; eauto|apply Hstay; now symmetry].
Qed.

Lemma dbm_m_goto : forall c n s l x cl,
  dbm c n (m_goto s l x cl) + sumf (opw c n) (ops s) + mrankd c n (main s) <= dbm c n s + sumf (opw c n) l + ROPd c n.
Proof.
  intros c n s l x cl. unfold m_goto.
  destruct (settle cl _ (subm s) l (outs s ++ x)) as [[l' acc'] pc] eqn:Hs.
  pose proof (settle_le_d c n _ _ _ _ _ _ _ _ Hs) as Hle. unfold dbm. simpl. lia.
Qed.

Lemma sumf_tl_opw : forall c n l, l <> [] -> sumf (opw c n) (tl l) + ROPd c n + 1 <= sumf (opw c n) l.
Proof. intros c n l H. destruct l as [|o t]; [congruence|]. simpl. pose proof (opw_ge c n o). lia. Qed.

(* a client step may make the outer queue non-empty: this costs at most Cmax + 2 in the resolver's part *)
Lemma rmf_q0 : forall c n s s' r rw,
  (forall j, fdone (getf s j) = true -> fdone (getf s' j) = true) ->
  rmf c n s' r rw <= rmf c n s r rw + Cmax c n + 2.
Proof.
  intros c n s s' r rw Hm.
  assert (Hs : forall W, sumf (epT c n s') W <= sumf (epT c n s) W).
  { intros W. induction W as [|e W IH]; simpl; [lia|].
    assert (epT c n s' e <= epT c n s e).
    { unfold epT. pose proof (Pe_lt_Ke c n (Ld e)). destruct (rdy s e) eqn:E.
      - assert (rdy s' e = true) by (unfold rdy in *; rewrite forallb_forall in *; intros j Hj; apply Hm; now apply E).
        rewrite H0. lia.
      - destruct (rdy s' e); lia. }
    lia. }
  assert (Hq1 : forall a, qbsc c n s' a <= qbsc c n s a + Cmax c n + 2)
    by (intros a; unfold qbsc; destruct a; [destruct (q0ne s'); destruct (q0ne s)|]; lia).
  assert (Hq2 : forall a, qbsl c n s' a <= qbsl c n s a + Cmax c n + 2)
    by (intros a; unfold qbsl; destruct a; [destruct (q0ne s'); destruct (q0ne s)|]; lia).
  assert (Hk : forall k, kpot c n s' k rw <= kpot c n s k rw + Cmax c n + 2).
  { intros k. destruct k as [|pre post n0 a]; simpl; [specialize (Hs rw); lia|].
    specialize (Hs post). specialize (Hq1 a). lia. }
  pose proof (Hs rw) as H1.
  destruct r; simpl; try lia; try (specialize (Hk k); lia).
  - specialize (Hs post). specialize (Hq1 a).
    assert (curpot c n s' (cur, deps) todo alld <= curpot c n s (cur, deps) todo alld).
    { unfold curpot. pose proof (Pe_lt_Ke c n (Ld (cur, deps))). destruct alld; simpl; [|lia].
      destruct (rdy s (cur, deps)) eqn:E.
      - assert (rdy s' (cur, deps) = true) by (unfold rdy in *; rewrite forallb_forall in *; intros j Hj; apply Hm; now apply E).
        rewrite H0. lia.
      - destruct (rdy s' (cur, deps)); lia. }
    lia.
  - specialize (Hq2 a). lia.
Qed.

Lemma dbm_submit : forall c n s i, dbm c n (submit_state s i) <= dbm c n s + W0T c n i.
Proof. intros c n s i. change (dbm c n (submit_state s i)) with (dbm c n (qput s 0 (Task i))). apply (dbm_qput c n s 0 (Task i)). Qed.

Lemma q0ne_goto : forall s l x cl, q0ne (m_goto s l x cl) = q0ne s.
Proof. intros. unfold q0ne. now rewrite m_goto_queues_getq. Qed.

Lemma cR_dec_d : forall c n d0 s s',
  cR d0 s s' -> queues s <> [] -> (inshut (main s) -> ops s <> []) ->
  dbm c n s' < dbm c n s /\ ((q0ne s' = true -> q0ne s = true) \/ dbm c n s' + Cmax c n + 2 < dbm c n s).
Proof.
  intros c n d0 s s' HR Hne Hops.
  assert (HPS : PS c n = W0S c n + Cmax c n + 2) by reflexivity.
  assert (HROP : ROPd c n = PS c n + 20) by reflexivity.
  destruct HR.
  - pose proof (dbm_set_main c n s (MStart 0)) as Hm. rewrite H in Hm. simpl in Hm. split; [lia|left; tauto].
  - pose proof (dbm_m_goto c n s (ops s ++ [ODrop]) [] false) as Hm. rewrite H, sumf_app in Hm. simpl in Hm.
    split; [lia|left; rewrite q0ne_goto; tauto].
  - pose proof (dbm_m_goto c n (submit_state s i) t [XOk] (closed s)) as Hm.
    pose proof (dbm_submit c n s i) as Hsb. unfold submit_state in Hm at 2 3. cbn [ops main] in Hm.
    rewrite H, H0 in Hm. simpl in Hm. split; [lia|right; lia].
  - pose proof (dbm_m_goto c n (set_futs s (setf s i f)) t [XBool b] (closed s)) as Hm.
    rewrite dbm_set_futs in Hm. cbn [ops main set_futs] in Hm. rewrite H, H0 in Hm. simpl in Hm.
    split; [lia|left; rewrite q0ne_goto; tauto].
  - pose proof (dbm_m_goto c n s t [result_outcome (getf s i)] (closed s)) as Hm.
    rewrite H, H0 in Hm. simpl in Hm. split; [lia|left; rewrite q0ne_goto; tauto].
  - pose proof (dbm_qpop c n s 0 _ _ H0) as Hp. pose proof (dbm_set_main c n (qpop s 0) (MDrainCancel w j)) as Hm.
    cbn [main qpop set_queues] in Hm. simpl wqw in Hp. simpl mrankd in Hm at 2. unfold W0T in Hp.
    assert (Hq : q0ne s = true) by (unfold q0ne; rewrite H0; reflexivity).
    destruct H as [E|[E _]]; rewrite E in Hm; simpl in Hm; (split; [lia|left; intros _; exact Hq]).
  - pose proof (dbm_qpop c n s 0 _ _ H0) as Hp. pose proof (dbm_set_main c n (qpop s 0) (MDrain w)) as Hm.
    cbn [main qpop set_queues] in Hm. simpl wqw in Hp. simpl mrankd in Hm at 2. unfold W0S in Hp.
    assert (Hq : q0ne s = true) by (unfold q0ne; rewrite H0; reflexivity).
    destruct H as [E|[E _]]; rewrite E in Hm; simpl in Hm; (split; [lia|left; intros _; exact Hq]).
  - pose proof (dbm_set_main c n s (MPutShut w 1)) as Hm. simpl mrankd in Hm at 2.
    destruct H as [E|[E _]]; rewrite E in Hm; simpl in Hm; (split; [lia|left; tauto]).
  - pose proof (dbm_qput c n s 0 (Shut w)) as Hp. pose proof (dbm_set_main c n (qput s 0 (Shut w)) (MJoin 0)) as Hm.
    cbn [main qput set_queues] in Hm. simpl wqw in Hp. simpl mrankd in Hm at 2.
    destruct H as [[E _]|E]; rewrite E in Hm; simpl in Hm; (split; [lia|right; lia]).
  - pose proof (dbm_qput c n s 0 (Shut w)) as Hp.
    pose proof (dbm_m_goto c n (qput s 0 (Shut w)) (tl (ops s)) (if cur_silent s then [] else [XOk]) true) as Hm.
    cbn [main ops qput set_queues] in Hm. simpl wqw in Hp.
    assert (Ho : ops s <> []).
    { destruct H as [[E Ho]|E]; [|apply Hops; rewrite E; exact I].
      destruct Ho as [[t Ho]|[[_ [t Ho]]|[_ [t Ho]]]]; rewrite Ho; discriminate. }
    pose proof (sumf_tl_opw c n (ops s) Ho) as Ht.
    destruct H as [[E _]|E]; rewrite E in Hm; simpl in Hm; (split; [lia|right; lia]).
  - pose proof (dbm_qput c n s 0 (Shut w)) as Hp.
    pose proof (dbm_set_main c n (qput s 0 (Shut w)) (MPutShut w (S k))) as Hm.
    cbn [main qput set_queues] in Hm. simpl wqw in Hp. rewrite H in Hm. simpl mrankd in Hm.
    rewrite (Nat.mul_succ_r (PS c n + 1) (S k)) in Hm. split; [lia|right; lia].
  - pose proof (dbm_set_main c n (set_futs s (setf s j f)) (MDrainTd w)) as Hm.
    rewrite dbm_set_futs in Hm. cbn [main set_futs] in Hm. rewrite H in Hm. simpl in Hm. split; [lia|left; tauto].
  - pose proof (dbm_set_main c n (qtd s 0) (MDrain w)) as Hm. rewrite dbm_qtd in Hm.
    cbn [main qtd set_queues] in Hm. rewrite H in Hm. simpl in Hm.
    split; [lia|left]. change (q0ne (set_main (qtd s 0) (MDrain w))) with (q0ne (qtd s 0)). rewrite q0ne_td. tauto.
  - pose proof (dbm_m_goto c n s (tl (ops s)) [XRaise] false) as Hm.
    assert (Ho : ops s <> []) by (apply Hops; rewrite H; exact I).
    pose proof (sumf_tl_opw c n (ops s) Ho) as Ht. rewrite H in Hm. simpl in Hm.
    split; [lia|left; rewrite q0ne_goto; tauto].
  - pose proof (dbm_set_main c n s MQJoin) as Hm. rewrite H in Hm. simpl in Hm. split; [lia|left; tauto].
  - pose proof (dbm_m_goto c n s (tl (ops s)) (if cur_silent s then [] else [XOk]) true) as Hm.
    assert (Ho : ops s <> []) by (apply Hops; rewrite H; exact I).
    pose proof (sumf_tl_opw c n (ops s) Ho) as Ht. rewrite H in Hm. simpl in Hm.
    split; [lia|left; rewrite q0ne_goto; tauto].
Qed.

Lemma dm_step_dec : forall c n k0 d d' l,
  dinner c = IBlock k0 -> MI c n d -> dm_step c d = Some (d', l) -> dmu c n d' < dmu c n d.
Proof.
  intros c n k0 d d' l Hin HM H. pose proof HM as [M1 M2 M3 M4 M6 M7 M5].
  assert (Hnw : nwk c = k0) by (unfold nwk; now rewrite Hin).
  assert (Hdm : forall j, fdone (getf (dbase d) j) = true -> fdone (getf (dbase d') j) = true)
    by (intros j; apply (done_monotone c d TM d' l j); exact H).
  unfold dmu. unfold dm_step in H. cbv zeta in H. rewrite Hin in H.
  assert (Hxm : match xm_step (dx c) (xs d) with Some (x', l0) => Some (set_xs d x', l0) | None => None end = Some (d', l) ->
                dbm c n (dbase d') + rmf c n (dbase d') (rp d') (rwait d') < dbm c n (dbase d) + rmf c n (dbase d) (rp d) (rwait d)).
  { intros Hx. destruct (xm_step (dx c) (xs d)) as [[x' l0]|] eqn:Ex; [|discriminate]. inversion Hx; subst; clear Hx.
    destruct (xm_step_cR _ _ _ _ Ex) as (HR & _ & _ & _).
    destruct (cR_dec_d c n _ _ _ HR M2 M1) as (Hlt & Hq).
    unfold dbase, set_xs in *. cbn [xs rp rwait] in *.
    destruct Hq as [Hq|Hq].
    - pose proof (rmf_mono c n (base (xs d)) (base x') (rp d) (rwait d) (conj Hdm Hq)). lia.
    - pose proof (rmf_q0 c n (base (xs d)) (base x') (rp d) (rwait d) Hdm). lia. }
  unfold dbase in *.
  destruct (main (base (xs d))) as [|k| |w|w j|w|w k|k| |] eqn:Hm; try (apply Hxm; exact H).
  - (* MBegin *)
    assert (Hd' : d' = set_dbase d (set_main (set_queues (base (xs d)) (queues (base (xs d)) ++ [mkQ [] 0]))
                                     (match k0 with 0 => MStart 1 | _ => MStart 0 end)))
      by (destruct k0; inversion H; reflexivity).
    subst d'. clear H. dsimp.
    pose proof (dbm_set_main c n (set_queues (base (xs d)) (queues (base (xs d)) ++ [mkQ [] 0]))
                  (match k0 with 0 => MStart 1 | _ => MStart 0 end)) as Hmm.
    rewrite dbm_addq in Hmm. cbn [main set_queues] in Hmm. rewrite Hm in Hmm.
    assert (Hsm : smono (base (xs d)) (set_main (set_queues (base (xs d)) (queues (base (xs d)) ++ [mkQ [] 0]))
                                          (match k0 with 0 => MStart 1 | _ => MStart 0 end))).
    { split; [intros j Hj; exact Hj|].
      unfold q0ne. change (getq (set_main ?s0 ?m) 0) with (getq s0 0). rewrite (getq0_snoc _ M2). tauto. }
    pose proof (rmf_mono c n _ _ (rp d) (rwait d) Hsm).
    destruct k0; simpl in Hmm; lia.
  - (* MStart *)
    destruct (Nat.ltb k k0) eqn:Hlt; inversion H; subst; clear H.
    + apply Nat.ltb_lt in Hlt. dsimp.
      pose proof (dbm_set_main c n (set_ws (base (xs d)) (ws (base (xs d)) ++ [mkW 1 0 WBegin])) (MStart (S k))) as Hmm.
      rewrite dbm_add_w in Hmm. cbn [main set_ws wp] in Hmm. rewrite Hm in Hmm. simpl in Hmm.
      assert (Hsm : smono (base (xs d)) (set_main (set_ws (base (xs d)) (ws (base (xs d)) ++ [mkW 1 0 WBegin])) (MStart (S k))))
        by (split; [intros j Hj; exact Hj|tauto]).
      pose proof (rmf_mono c n _ _ (rp d) (rwait d) Hsm). lia.
    + assert (Hrn : rp d = RNone) by (apply M7; simpl; tauto).
      dsimp. rewrite Hrn.
      pose proof (dbm_m_goto c n (base (xs d)) (ops (base (xs d)) ++ [ODrop]) [] false) as Hmm.
      rewrite Hm, sumf_app in Hmm. simpl in Hmm.
      assert (Hsm : smono (base (xs d)) (m_goto (base (xs d)) (ops (base (xs d)) ++ [ODrop]) [] false)).
      { split; [intros j Hj; unfold getf in *; rewrite m_goto_futs; exact Hj|rewrite q0ne_goto; tauto]. }
      pose proof (sumT_mono c n _ _ (rwait d) Hsm). cbn [rmf]. lia.
  - (* MJoin *)
    destruct (rdone (rp d)) eqn:Hrd; [|discriminate].
    assert (Hops : ops (base (xs d)) <> []) by (apply M1; exact I).
    destruct (rp d) eqn:Hr; simpl in Hrd; try discriminate Hrd; inversion H; subst; clear H; dsimp.
    + pose proof (dbm_set_main c n (base (xs d)) MQJoin) as Hmm. rewrite Hm in Hmm. simpl in Hmm. rewrite Hr. cbn [rmf]. lia.
    + unfold m_done. pose proof (dbm_m_goto c n (base (xs d)) (tl (ops (base (xs d)))) [XRaise] false) as Hmm.
      pose proof (sumf_tl_opw c n _ Hops). rewrite Hm in Hmm. simpl in Hmm. rewrite Hr. cbn [rmf]. lia.
Qed.

(* ================= the theorem (resolver in front of a block-allocation executor) ================= *)
Theorem dstep_decreases : forall c n k0 prog d t d' l,
  dinner c = IBlock k0 ->
  wf_prog n prog -> wf_deps c n -> dreach c (dinit n prog) d -> dstep c d t = Some (d', l) ->
  (t = TR -> r_polling c d = false) -> (t = TD -> d_polling (xs d) = false) ->
  dmu c n d' < dmu c n d.
Proof.
  intros c n k0 prog d t d' l Hin Hwf Hwd Hr Hst HpR HpD.
  pose proof (mi_reach c n k0 prog d Hin Hwf Hr) as HM.
  pose proof (RI_reach c n prog d Hr) as HRI.
  pose proof (Inv4_reach c n prog d Hwf Hr) as (HS & _).
  destruct HS as (_ & HWP & _ & _ & _ & HRP).
  pose proof (rsd_reach c n prog d Hr) as Hsd.
  assert (Hdm : forall j, fdone (getf (dbase d) j) = true -> fdone (getf (dbase d') j) = true)
    by (intros j; apply (done_monotone c d t d' l j); exact Hst).
  destruct t as [| | |j|k]; simpl in Hst.
  - eapply dm_step_dec; eauto.
  - eapply r_step_dec; eauto.
  - rewrite Hin in Hst. discriminate.
  - destruct j as [|j]; [discriminate|].
    destruct (w_step (bcfg (dx c)) (dbase d) j) as [[b l0]|] eqn:E; [|discriminate]. inversion Hst; subst; clear Hst.
    destruct (nth_error (ws (dbase d)) j) as [w|] eqn:Hj;
      [|unfold w_step in E; rewrite Hj in E; discriminate].
    destruct (w_step_fx _ _ _ _ _ w E Hj) as (_ & _ & Hoth & _).
    destruct (HWP w (nth_error_In _ _ Hj)) as [Hq1 _].
    pose proof (dw_step_dec c n _ _ _ _ _ E) as Hlt.
    assert (Hsm : smono (dbase d) b).
    { split; [exact Hdm|]. unfold q0ne, getq. change (mkQ [] 0) with dq. rewrite Hoth by lia. tauto. }
    pose proof (rmf_mono c n _ _ (rp d) (rwait d) Hsm). unfold dmu. dsimp. lia.
  - destruct (p_step (bcfg (dx c)) (dbase d) k) as [[b l0]|] eqn:E; [|discriminate]. inversion Hst; subst; clear Hst.
    pose proof (dp_step_dec c n _ _ _ _ _ E) as Hlt.
    destruct (p_step_eff _ _ _ _ _ E) as (p & p' & _ & _ & Eb & _).
    assert (Hsm : smono (dbase d) b) by (split; [exact Hdm|subst b; tauto]).
    pose proof (rmf_mono c n _ _ (rp d) (rwait d) Hsm). unfold dmu. dsimp. lia.
Qed.
Print Assumptions dstep_decreases.
