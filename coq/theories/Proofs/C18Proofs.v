(* C18: one invocation per rank, results gathered in rank order, exactly one reply. *)
From Coq Require Import ZArith String List Bool Lia.
From EL Require Import Base.Dec Base.PyLib Base.Tac Model.Worker Proofs.DictFacts Gen.WorkerParallel Gen.SharedPath Gen.CacheCmd Gen.CacheParallel Gen.CacheBackend.
Import ListNotations.
Local Open Scope string_scope.
Local Open Scope list_scope.

Lemma rank_call apply bcast gather mem f a k (b s : bool) recv v g :
  bcast (if b then recv else VNone) = Ok (to_py (RCall f a k)) ->
  apply mem (to_py (RCall f a k)) = Ok v ->
  gather v = Ok g ->
  wstep_rank apply bcast gather mem recv (VBool b) (VBool s)
  = Ok (VTuple [mem; VList (if b then [reply_ok (if s then g else v)] else []); VBool false]).
Proof.
  intros Hb Ha Hg. unfold wstep_rank. unfold to_py, mkd in *. cbn [List.map fst snd] in *.
  destruct b; cbn; rewrite Hb; cbn; rewrite Ha; cbn;
    destruct s; cbn; rewrite ?Hg; reflexivity.
Qed.

Lemma rank_shutdown apply bcast gather mem w (b s : bool) recv :
  bcast (if b then recv else VNone) = Ok (to_py (RShutdown w)) ->
  wstep_rank apply bcast gather mem recv (VBool b) (VBool s)
  = Ok (VTuple [mem; VList (if b then [ack] else []); VBool true]).
Proof.
  intros Hb. unfold wstep_rank. unfold to_py, mkd in *. cbn [List.map fst snd] in *.
  destruct b; cbn; rewrite Hb; reflexivity.
Qed.

Lemma rank_init apply bcast gather mem f (b s : bool) recv m :
  bcast (if b then recv else VNone) = Ok (to_py (RInit f)) ->
  apply VNone (to_py (RInit f)) = Ok m ->
  wstep_rank apply bcast gather mem recv (VBool b) (VBool s)
  = Ok (VTuple [m; VList []; VBool false]).
Proof.
  intros Hb Ha. unfold wstep_rank. unfold to_py, mkd in *. cbn [List.map fst snd] in *.
  destruct b; cbn; rewrite Hb; cbn; rewrite Ha; reflexivity.
Qed.

Section Par.
  Variable n : nat.
  Variable app : nat -> pyval -> pyval -> res pyval.
  Variable mems : nat -> pyval.

  Lemma outs_ok req (out : nat -> pyval) :
    (forall r, r < n -> app r (mems r) req = Ok (out r)) ->
    mapM (fun q => app q (mems q) req) (ranks n) = Ok (List.map out (ranks n)).
  Proof.
    intros H. apply mapM_pure. intros r Hr. apply H. unfold ranks in Hr. apply in_seq in Hr. lia.
  Qed.

  (* a call on n >= 2 ranks: every rank invokes the function once on the same request;
     rank 0 sends exactly one reply carrying the list of return values in rank order;
     the other ranks send nothing; no rank changes its memory or leaves the loop *)
  Theorem par_call f a k (out : nat -> pyval) :
    2 <= n ->
    (forall r, r < n -> app r (mems r) (to_py (RCall f a k)) = Ok (out r)) ->
    par_step wstep_rank n app mems (to_py (RCall f a k))
    = Ok (List.map (fun r => VTuple [mems r;
                                     VList (if Nat.eqb r 0 then [reply_ok (VList (List.map out (ranks n)))] else []);
                                     VBool false]) (ranks n)).
  Proof.
    intros Hn H. unfold par_step. apply mapM_pure. intros r Hr.
    assert (Hrn : r < n) by (unfold ranks in Hr; apply in_seq in Hr; lia).
    rewrite (rank_call _ _ _ _ f a k (Nat.eqb r 0) (Nat.ltb 1 n) _ (out r)
               (if Nat.eqb r 0 then VList (List.map out (ranks n)) else VNone)).
    - assert (E : Nat.ltb 1 n = true) by (apply Nat.ltb_lt; lia). rewrite E.
      destruct (Nat.eqb r 0); reflexivity.
    - destruct (Nat.eqb r 0); reflexivity.
    - apply H. exact Hrn.
    - rewrite (outs_ok _ out H). reflexivity.
  Qed.

  Theorem par_shutdown w :
    par_step wstep_rank n app mems (to_py (RShutdown w))
    = Ok (List.map (fun r => VTuple [mems r; VList (if Nat.eqb r 0 then [ack] else []); VBool true]) (ranks n)).
  Proof.
    unfold par_step. apply mapM_pure. intros r Hr.
    rewrite (rank_shutdown _ _ _ _ w (Nat.eqb r 0) (Nat.ltb 1 n)); [reflexivity|].
    destruct (Nat.eqb r 0); reflexivity.
  Qed.

  Theorem par_init f (m : nat -> pyval) :
    (forall r, r < n -> app r VNone (to_py (RInit f)) = Ok (m r)) ->
    par_step wstep_rank n app mems (to_py (RInit f))
    = Ok (List.map (fun r => VTuple [m r; VList []; VBool false]) (ranks n)).
  Proof.
    intros H. unfold par_step. apply mapM_pure. intros r Hr.
    assert (Hrn : r < n) by (unfold ranks in Hr; apply in_seq in Hr; lia).
    rewrite (rank_init _ _ _ _ f (Nat.eqb r 0) (Nat.ltb 1 n) _ (m r)); [reflexivity| |apply H; exact Hrn].
    destruct (Nat.eqb r 0); reflexivity.
  Qed.
End Par.

(* number of replies of the whole worker for one call = 1, whatever n >= 2 *)
Definition replies_of (v : pyval) : list pyval :=
  match v with VTuple [_; VList r; _] => r | _ => [] end.

Lemma one_reply n (out : nat -> pyval) :
  1 <= n ->
  List.length (List.concat (List.map (fun r => replies_of (VTuple [VNone;
      VList (if Nat.eqb r 0 then [reply_ok (VList (List.map out (ranks n)))] else []); VBool false])) (ranks n))) = 1.
Proof.
  intros Hn. unfold ranks. destruct n as [|n']; [lia|]. cbn [List.seq List.map List.concat Nat.eqb replies_of].
  rewrite List.app_length. cbn [List.length].
  assert (E : forall l, (forall r, In r l -> r <> 0) ->
     List.concat (List.map (fun r => replies_of (VTuple [VNone;
      VList (if Nat.eqb r 0 then [reply_ok (VList (List.map out (0 :: List.seq 1 n')))] else []); VBool false])) l) = []).
  { induction l as [|x l IH]; intros Hl; [reflexivity|]. cbn [List.map List.concat].
    destruct x; [exfalso; apply (Hl 0); [left; reflexivity|reflexivity]|].
    cbn [Nat.eqb replies_of]. cbn [List.app]. apply IH. intros r Hr. apply Hl. right. exact Hr. }
  rewrite E; [reflexivity|]. intros r Hr. apply in_seq in Hr. lia.
Qed.

(* ---- file mode: backend/cache_parallel.py and cache/backend.py:backend_execute_task_in_file ---- *)
Lemma file_rank_ok apply bcast gather loaded (b s : bool) d v g :
  bcast (if b then loaded else VNone) = Ok d ->
  apply VNone d = Ok v ->
  gather v = Ok g ->
  file_rank apply bcast gather loaded (VBool b) (VBool s)
  = Ok (VTuple [VList (if b then [if s then g else v] else [])]).
Proof.
  intros Hb Ha Hg. unfold file_rank.
  destruct b; cbn; rewrite Hb; cbn; rewrite Ha; cbn; destruct s; cbn; rewrite ?Hg; reflexivity.
Qed.

Lemma file_rank_raises apply bcast gather loaded (b s : bool) d e :
  bcast (if b then loaded else VNone) = Ok d ->
  apply VNone d = Err e ->
  file_rank apply bcast gather loaded (VBool b) (VBool s) = Err e.
Proof.
  intros Hb Ha. unfold file_rank. destruct b; cbn; rewrite Hb; cbn; rewrite Ha; reflexivity.
Qed.

Section FilePar.
  Variable n : nat.
  Variable app : nat -> pyval -> res pyval.

  (* n >= 2 ranks: every rank calls the function once on the dictionary rank 0 loaded; rank 0
     hands exactly one value to backend_write_file: the list of all return values in rank
     order; no other rank writes *)
  Theorem file_par_call loaded (out : nat -> pyval) :
    2 <= n ->
    (forall r, r < n -> app r loaded = Ok (out r)) ->
    file_par file_rank n app loaded
    = Ok (List.map (fun r => VTuple [VList (if Nat.eqb r 0 then [VList (List.map out (ranks n))] else [])]) (ranks n)).
  Proof.
    intros Hn H. unfold file_par. apply mapM_pure. intros r Hr.
    assert (Hrn : r < n) by (unfold ranks in Hr; apply in_seq in Hr; lia).
    assert (Houts : mapM (fun q => app q loaded) (ranks n) = Ok (List.map out (ranks n))).
    { apply mapM_pure. intros q Hq. apply H. unfold ranks in Hq. apply in_seq in Hq. lia. }
    rewrite (file_rank_ok _ _ _ _ (Nat.eqb r 0) (Nat.ltb 1 n) loaded (out r)
               (if Nat.eqb r 0 then VList (List.map out (ranks n)) else VNone)).
    - assert (E : Nat.ltb 1 n = true) by (apply Nat.ltb_lt; lia). rewrite E.
      destruct (Nat.eqb r 0); reflexivity.
    - destruct (Nat.eqb r 0); reflexivity.
    - apply H. exact Hrn.
    - rewrite Houts. reflexivity.
  Qed.
End FilePar.

(* a single rank (mpiexec -n 1 never happens, but Get_size() = 1 is handled): the bare value *)
Theorem file_par_single app loaded v :
  app 0 loaded = Ok v ->
  file_par file_rank 1 app loaded = Ok [VTuple [VList [v]]].
Proof.
  intros H. unfold file_par, ranks. cbn [List.seq mapM].
  rewrite (file_rank_ok _ _ _ _ true false loaded v (VList [v])); cbn; try reflexivity; try exact H.
  rewrite H. reflexivity.
Qed.

(* the function raises on rank 0: nothing is handed to backend_write_file (no result file) *)
Theorem file_par_raises n app loaded e :
  1 <= n ->
  app 0 loaded = Err e ->
  file_par file_rank n app loaded = Err e.
Proof.
  intros Hn H. unfold file_par, ranks. destruct n as [|m]; [lia|]. cbn [List.seq mapM].
  rewrite (file_rank_raises _ _ _ _ true _ loaded e); [reflexivity|reflexivity|exact H].
Qed.

(* the serial file worker hands exactly its function's value to backend_write_file, once *)
Theorem file_serial_ok apply loaded v :
  apply VNone loaded = Ok v -> file_serial apply loaded = Ok (VTuple [VList [v]]).
Proof. intros H. unfold file_serial. cbn. rewrite H. reflexivity. Qed.

Theorem file_serial_raises apply loaded e :
  apply VNone loaded = Err e -> file_serial apply loaded = Err e.
Proof. intros H. unfold file_serial. cbn. rewrite H. reflexivity. Qed.
