(* Liveness side of the dependency-resolver model in front of the PER-CALL executor (dinner c = IStep):
   a state in which nothing can step is a proper rest state; the resolver never dies; the dispatcher never spins. *)
From Coq Require Import List Bool Arith Lia.
From EL Require Import Model.Exec Model.ExecInv Model.StepExec Model.DepExec Model.LiveSpec.
From EL Require Import Proofs.ExecSafe Proofs.ExecLive Proofs.DepSafe Proofs.DepLive.
From EL Require Proofs.StepSafe Proofs.StepLive.
Import ListNotations.


(* ====================== part 1 ====================== *)

(* ---------- the resolver's helper functions do not depend on the kind of inner executor,
              except for the number of shutdown messages (1 for the per-call executor) ---------- *)
Definition cB (c : dcfg) : dcfg := mkDC (dx c) (IBlock 1) (ddeps c).

Lemma cB_inner : forall c, dinner (cB c) = IBlock 1.
Proof. reflexivity. Qed.

Section CB.
  Variable c : dcfg.
  Hypothesis Hs : dinner c = IStep.

  Lemma sp_cB : forall d a, start_pass c d a = start_pass (cB c) d a.
  Proof. intros d a. unfold start_pass, inner_shut_start. rewrite Hs. reflexivity. Qed.

  Lemma sn_cB : forall d pre post n0 a, scan_next c d pre post n0 a = scan_next (cB c) d pre post n0 a.
  Proof. intros. unfold scan_next. destruct post; [|reflexivity]. destruct a; rewrite ?sp_cB; reflexivity. Qed.

  Lemma k_cB : forall d kk, kont c d kk = kont (cB c) d kk.
  Proof. intros d [|pre post n0 a]; simpl; [reflexivity|apply sn_cB]. Qed.
End CB.

Ltac tocB Hs := rewrite ?(sp_cB _ Hs), ?(sn_cB _ Hs), ?(k_cB _ Hs).

(* ---------- queue-level invariants, per-call inner executor ---------- *)
Definition d_holds (dp : dpc) : nat :=
  match dp with
  | DPutTask _ | DPutShut _ | DScan _ _ _ | DSpin _ | DStart _ | DTd | DSJoin _ | DSTd => 1
  | _ => 0
  end.
Definition d_past (dp : dpc) : nat :=
  match dp with DSJoin _ | DSTd | DSQJoin | DDone => 1 | _ => 0 end.

Definition C1s (d : dstate) : Prop :=
  qunf (getq (dbase d) 1) = length (qitems (getq (dbase d) 1)) + d_holds (disp (xs d)).
Definition S1s (d : dstate) : Prop :=
  count is_shut (qitems (getq (dbase d) 1)) + d_past (disp (xs d)) = sp1 1 (rp d).
Definition P1s (d : dstate) : Prop :=
  d_past (disp (xs d)) = 1 -> forallb is_shut (qitems (getq (dbase d) 1)) = true.
Definition JRs (d : dstate) : Prop :=
  (forall j, rp d <> RInJoin j) /\ (forall w j, rp d = RInPut w j -> j = 1).

Definition QS (c : dcfg) (d : dstate) : Prop :=
  C0 d /\ S0 c d /\ T0 d /\ P0q d /\ C1s d /\ S1s d /\ T1 d /\ P1s d /\ JRs d.

Definition jrok (r : rpc) : Prop := (forall j, r <> RInJoin j) /\ (forall w j, r = RInPut w j -> j = 1).

Lemma jb_sp : forall c d a, jrok (rp (start_pass (cB c) d a)).
Proof.
  intros c d a.
  destruct (start_pass_cases (cB c) d a 1 eq_refl) as [(j & dj & rest & E1 & E2)|[(E1 & E2 & E3)|(w & E1 & E2 & E3)]].
  - rewrite E2. simpl. split; intros; discriminate.
  - rewrite E3. simpl. split; intros; discriminate.
  - rewrite E3. simpl. split. intros; discriminate. intros w0 j0 E. inversion E. reflexivity.
Qed.

Lemma jb_sn : forall c d pre post n0 a, jrok (rp (scan_next (cB c) d pre post n0 a)).
Proof.
  intros c d pre post n0 a.
  destruct (scan_next_cases (cB c) d pre post n0 a) as [(j & dj & rest & E1 & E2)|(E1 & [E2|[(E2 & E3)|(w & E2 & E3)]])].
  - rewrite E2. simpl. split; intros; discriminate.
  - rewrite E2. simpl. split; intros; discriminate.
  - rewrite E3. simpl. split; intros; discriminate.
  - rewrite E3. apply jb_sp.
Qed.

Lemma jb_k : forall c d kk, jrok (rp (kont (cB c) d kk)).
Proof. intros c d [|pre post n0 a]; simpl. split; intros; discriminate. apply jb_sn. Qed.

Lemma jb_a : forall d i deps kk, jrok (rp (after_inputs_done d i deps kk)).
Proof. intros. unfold after_inputs_done. destruct deps; simpl; split; intros; discriminate. Qed.

Lemma QS_rstep : forall c d d' l, dinner c = IStep ->
  1 < length (queues (dbase d)) -> disp (xs d) <> DDead ->
  (forall i k0, rp d = RFailSrnc i k0 -> fpend (getf (dbase d) i) = true) ->
  (forall i k0, rp d = RFailSet i k0 -> isrun (getf (dbase d) i) = true) ->
  r_step c d = Some (d', l) -> QS c d -> QS c d'.
Proof.
  intros c d d' l Hs Hql Hdd Hfp0 Hfr0 H (HC0 & HS0 & HT0 & HP0 & HC1 & HS1 & HT1 & HP1 & [HJa HJb]).
  pose proof (cB_inner c) as Hk. assert (Hk1 : 1 <= 1) by lia.
  unfold C0, S0, T0, P0q, C1s, S1s, T1, P1s, TQ, shuts_put, m_holds in *.
  unfold r_step in H. cbv zeta in H. rewrite Hs in H.
  destruct (rp d) eqn:Hrp; try congruence; cbn [r_holds r_past0 sp1] in *.
  all: try (match type of Hrp with _ = RFailSrnc ?j ?kk => pose proof (Hfp0 j kk eq_refl) as Hfp end).
  all: try (match type of Hrp with _ = RFailSet ?j ?kk => pose proof (Hfr0 j kk eq_refl) as Hfr end).
  all: try (match type of Hrp with _ = RInPut ?w ?j => pose proof (HJb w j eq_refl) as Hjb end).
  all: try (match type of Hrp with _ = RInJoin ?j => exfalso; apply (HJa j); reflexivity end).
  all: destr_all H; try discriminate H; injection H as Ed El; subst l; symmetry in Ed.
  all: try (simpl in Hfp; discriminate Hfp).
  all: try (simpl in Hfr; discriminate Hfr).
  all: try (exfalso; apply Hdd; first [assumption|reflexivity]).
  all: subst d'.
  all: unfold QS, C0, S0, T0, P0q, C1s, S1s, T1, P1s, JRs, TQ, shuts_put, m_holds; tocB Hs; phr Hk; xsn; unf;
       rewrite ?nth_upd_eq, ?nth_upd_neq by lia; cbn [qitems qunf r_holds r_past0 sp1 kholds kpast aholds rp];
       try match goal with E : disp (xs _) = _ |- _ => rewrite E in * end;
       repeat match goal with |- _ /\ _ => split end.
  all: try assumption.
  all: try (first [apply (proj1 (jb_sp _ _ _)) | apply (proj2 (jb_sp _ _ _)) | apply (proj1 (jb_k _ _ _)) | apply (proj2 (jb_k _ _ _))
                  | apply (proj1 (jb_sn _ _ _ _ _ _)) | apply (proj2 (jb_sn _ _ _ _ _ _)) | apply (proj1 (jb_a _ _ _ _)) | apply (proj2 (jb_a _ _ _ _))]).
  all: try match goal with E : qitems _ = _ |- _ => rewrite E in * end.
  all: simpl tl; simpl length in *; rewrite ?count_app, ?count_cons, ?count_nil, ?app_length in *; simpl is_shut in *;
       cbv iota in *; simpl length in *.
  all: try lia.
  all: try (apply srt_tl; assumption).
  all: try (apply srt_app_shut; assumption).
  all: try (apply srt_app_task; lia).
  all: try (simpl in HT0; first [exact HT0 | apply srt_all_shut; exact HT0 | intros _; exact HT0]).
  all: try (intros jj Hjj; first [discriminate Hjj | inversion Hjj; subst; lia]).
  all: try (intros ww jj Hjj; first [discriminate Hjj | inversion Hjj; subst; lia]).
  all: try (intros Hex; rewrite forallb_app; rewrite (HP1 Hex); reflexivity).
Qed.


(* ====================== part 2 ====================== *)

Notation prep := StepSafe.prep.
Notation dhold := StepSafe.dhold.
Notation allq := StepSafe.allq.

(* ---------- layout of queues, workers and the dispatcher ---------- *)
Definition LS (d : dstate) : Prop :=
  (forall j w, nth_error (ws (dbase d)) j = Some w -> wq w = j + 2) /\
  launched (xs d) = length (ws (dbase d)) /\
  (main (dbase d) = MBegin -> length (queues (dbase d)) = 1 /\ ws (dbase d) = [] /\ disp (xs d) = DNone) /\
  (main (dbase d) <> MBegin -> length (queues (dbase d)) = 2 + length (ws (dbase d)) + prep (disp (xs d))) /\
  (disp (xs d) = DNone <-> (main (dbase d) = MBegin \/ main (dbase d) = MStart 0)).

(* the dispatcher is never in a bad program counter *)
Definition DG (d : dstate) : Prop :=
  (forall i todo kept, disp (xs d) = DScan i todo kept -> todo <> []) /\
  (forall i, disp (xs d) <> DSpin i) /\ disp (xs d) <> DDead /\
  (forall k, disp (xs d) = DSJoin k -> k < launched (xs d)).

(* contents of a worker's private queue, by program counter *)
Definition lwok (pc : wpc) (its : list item) : Prop :=
  match pc with
  | WBegin | WSpawn => exists i b, its = [Task i; Shut b]
  | WGet => (exists b, its = [Shut b]) \/ exists i b, its = [Task i; Shut b]
  | WSrnc _ | WCancTd | WSend _ | WRecv _ | WSetRes _ _ | WTd => exists b, its = [Shut b]
  | WSPoll _ | WSSend _ | WSRecv _ | WSComm _ | WSTerm _ | WSWait | WSTd | WSQJoin | WDone => its = []
  | _ => True
  end.

Definition lw1 (s : state) (w : wthread) : Prop :=
  lwok (wp w) (qitems (getq s (wq w))) /\
  qunf (getq s (wq w)) = length (qitems (getq s (wq w))) + (if w_holds w then 1 else 0).

Definition LW (d : dstate) : Prop := forall w, In w (ws (dbase d)) -> lw1 (dbase d) w.

(* the queue being prepared by the dispatcher *)
Definition PQs (d : dstate) : Prop :=
  let q := getq (dbase d) (length (queues (dbase d)) - 1) in
  match disp (xs d) with
  | DPutTask _ => qitems q = [] /\ qunf q = 0
  | DPutShut i => qitems q = [Task i] /\ qunf q = 1
  | DScan i _ _ | DSpin i | DStart i => qitems q = [Task i; Shut true] /\ qunf q = 2
  | _ => True
  end.

Lemma lw1_wstep : forall c s j w s', wq w < length (queues s) ->
  nth_error (ws s) j = Some w -> wstepG (wq w) c s j w s' -> lw1 s w ->
  exists w', ws s' = upd (ws s) j w' /\ wq w' = wq w /\ lw1 s' w'.
Proof.
  intros c s j w s' Hql Hj HR [H1 H2]. unfold lw1, w_holds in *.
  gcases HR; rewrite Hpc in H1, H2; unf; eexists; (split; [reflexivity|]); cbn [wq wp]; (split; [reflexivity|]);
  rewrite ?(nth_upd_eq _ _ _ _ _ Hql); cbn [qitems qunf lwok]; simpl in H1;
  try (destruct b); try rewrite Hit in *; simpl tl; simpl length in *; cbn [lwok];
  (split; [|try lia]); auto.
  - destruct H1 as [[b0 E]|[i0 [b0 E]]]; inversion E; subst. eauto.
  - destruct H1 as [[b0 E]|[i0 [b0 E]]]; inversion E; subst. reflexivity.
  - destruct H1 as [[b0 E]|[i0 [b0 E]]]; inversion E; subst. reflexivity.
Qed.

Lemma nth_snoc_q : forall (l : list queue) q, nth q (l ++ [mkQ [] 0]) (mkQ [] 0) = nth q l (mkQ [] 0).
Proof. intros. apply nth_snoc_dflt. Qed.

Lemma disp_ap_cases : forall c x i,
  (disp (after_puts c x i) = DStart i) \/ (exists a, active x = a /\ a <> [] /\ disp (after_puts c x i) = DScan i a []) \/
  (disp (after_puts c x i) = DSpin i).
Proof.
  intros c x i. unfold after_puts. destruct (must_wait c (active x) i); simpl; auto.
  destruct (active x) as [|e a] eqn:E; simpl; auto. right; left. exists (e :: a). repeat split; auto. discriminate.
Qed.

Lemma ap_frame : forall c x i, base (after_puts c x i) = base x /\ launched (after_puts c x i) = launched x.
Proof.
  intros c x i. unfold after_puts. destruct (must_wait c (active x) i); [|split; reflexivity].
  destruct (active x); split; reflexivity.
Qed.

Definition SB (c : dcfg) (d : dstate) : Prop := QS c d /\ LS d /\ DG d /\ LW d /\ PQs d.

Lemma SB_dstep : forall c d x' l, StepLive.fits (dx c) ->
  (forall w, In w (ws (dbase d)) -> bad (wp w) = false) ->
  d_step (dx c) 1 (xs d) = Some (x', l) -> SB c d -> SB c (set_xs d x').
Proof.
  intros c d x' l Hfit Hbad H (HQ & HL & HG & HW & HP).
  destruct HQ as (HC0 & HS0 & HT0 & HP0 & HC1 & HS1 & HT1 & HP1 & HJ).
  destruct HL as (L1 & L2 & L3 & L4 & L5). destruct HG as (G1 & G2 & G3 & G4). destruct HJ as [HJ1 HJ2].
  assert (Hwq2 : forall w, In w (ws (dbase d)) -> 2 <= wq w < 2 + length (ws (dbase d))).
  { intros w Hw. apply In_nth_error in Hw. destruct Hw as [j Hj]. rewrite (L1 j w Hj).
    pose proof (nth_error_some_lt _ _ _ _ Hj). lia. }
  unfold d_step in H. cbv zeta in H.
  assert (Hmb : disp (xs d) <> DNone -> main (dbase d) <> MBegin).
  { intros A B. apply A. apply L5. left; exact B. }
  destruct (disp (xs d)) eqn:Hdp; try discriminate H; specialize (Hmb ltac:(discriminate)); specialize (L4 Hmb);
  cbn [prep] in L4.
  all: destr_all H; try discriminate H; injection H as Ex El; subst x' l.
  all: try (match goal with E1 : nth_error _ _ = Some ?wt, E2 : wdead ?wt = true |- _ =>
              exfalso; pose proof (Hbad wt (nth_error_In _ _ E1)) as Hb; unfold wdead in E2;
              destruct (wp wt); try discriminate E2; discriminate Hb end).
  all: try (pose proof (G4 _ eq_refl) as Hg4).
  all: try (match goal with |- context [after_puts ?cc ?xx ?ii] =>
              destruct (ap_frame cc xx ii) as [Af1 Af2]; pose proof (StepLive.after_puts_nospin cc xx ii) as Ans;
              destruct (disp_ap_cases cc xx ii) as [Ad|[(aa & Aa1 & Aa2 & Ad)|Ad]];
              [ | | exfalso; eapply Ans; eauto] end).
  all: unfold SB, QS, C0, S0, T0, P0q, C1s, S1s, T1, P1s, JRs, TQ, LS, DG, LW, lw1, PQs, shuts_put, m_holds, dbase in *;
       cbn [xs rp rwait set_xs] in *; rewrite ?Af1, ?Af2, ?Ad in *;
       cbn [xs rp rwait set_xs base disp active launched set_base set_disp] in *; unf;
       rewrite ?app_length, ?upd_length in *; rewrite ?Hdp in *; cbn [length prep d_holds d_past] in *.
  all: rewrite ?nth_snoc_q; rewrite ?nth_upd_neq by lia; rewrite ?nth_upd_eq by lia; cbn [qitems qunf].
  all: repeat match goal with |- _ /\ _ => split end; try assumption; try lia; try (intros; discriminate); try exact I.
  all: try (intros Emb; contradiction).
  all: try (split; [intros Edn; discriminate Edn | intros Edn; exfalso; apply L5 in Edn; discriminate Edn]).
  all: try match goal with E : qitems (nth 1 _ _) = _ |- _ => rewrite E in * end.
  all: simpl tl; simpl length in *; rewrite ?count_cons in *; simpl is_shut in *; cbv iota in *.
  all: try lia.
  all: try (simpl in HT1; first [exact HT1 | apply srt_all_shut; exact HT1 | intros _; exact HT1]).
  all: try (intros w9 Hw9; pose proof (Hwq2 w9 Hw9) as Hq9; rewrite ?nth_snoc_q; rewrite ?nth_upd_neq by lia;
            apply HW; exact Hw9).
  all: try (rewrite nth_overflow by (rewrite upd_length; lia); reflexivity).
  all: try (destruct HP as [HPa HPb]; rewrite ?HPa, ?HPb; reflexivity).
  all: try (intros i9 t9 k9 E9; inversion E9; subst; assumption).
  - intros k9 E9. inversion E9; subst.
    match goal with E : Nat.eqb _ 0 = false |- _ => apply Nat.eqb_neq in E end. lia.
  - intros i9 t9 k9 E9. inversion E9; subst. discriminate.
  - intros i9 t9 k9 E9. inversion E9; subst. discriminate.
  - intros j9 w9 Hj9. destruct (Nat.lt_ge_cases j9 (length (ws (base (xs d))))) as [Hl|Hl].
    + rewrite nth_error_app1 in Hj9 by auto. apply L1; auto.
    + rewrite nth_error_app2 in Hj9 by auto. destruct (j9 - length (ws (base (xs d)))) as [|q9] eqn:Eq9; simpl in Hj9.
      * inversion Hj9; subst. simpl. lia.
      * destruct q9; discriminate Hj9.
  - intros w9 Hw9. apply in_app_or in Hw9. destruct Hw9 as [Hw9|[Hw9|[]]]; [apply HW; exact Hw9|].
    subst w9. cbn [wq wp w_holds lwok]. destruct HP as [HPa HPb]. rewrite HPa, HPb. split; [eauto|reflexivity].
  - intros k9 E9. inversion E9; subst.
    match goal with E : Nat.eqb _ _ = false |- _ => apply Nat.eqb_neq in E end. lia.
Qed.


(* ====================== part 3 ====================== *)

(* steps that leave the private queues, the workers and the dispatcher alone *)
Definition hiframe (s s' : state) : Prop :=
  ws s' = ws s /\ length (queues s') = length (queues s) /\ (forall q, 2 <= q -> getq s' q = getq s q).

Lemma HI_keep : forall d d', LS d -> DG d -> LW d -> PQs d ->
  hiframe (dbase d) (dbase d') -> disp (xs d') = disp (xs d) -> launched (xs d') = launched (xs d) ->
  (main (dbase d') = MBegin <-> main (dbase d) = MBegin) ->
  (main (dbase d') = MStart 0 <-> main (dbase d) = MStart 0) ->
  LS d' /\ DG d' /\ LW d' /\ PQs d'.
Proof.
  intros d d' (L1 & L2 & L3 & L4 & L5) HG HW HP (Fw & Fl & Fq) Fd Fla Mb Ms.
  assert (Hwq2 : forall w, In w (ws (dbase d)) -> 2 <= wq w).
  { intros w Hw. apply In_nth_error in Hw. destruct Hw as [j Hj]. rewrite (L1 j w Hj). lia. }
  split; [|split; [|split]].
  - unfold LS. rewrite Fw, Fl, Fd, Fla. split; [exact L1|]. split; [exact L2|].
    split; [intros E; apply L3; apply Mb; exact E|].
    split; [intros E; apply L4; intros E'; apply E; apply Mb; exact E'|].
    rewrite L5. rewrite Mb, Ms. tauto.
  - unfold DG in *. rewrite Fd, Fla. exact HG.
  - unfold LW, lw1 in *. rewrite Fw. intros w Hw. rewrite (Fq (wq w)) by (apply Hwq2; exact Hw). apply HW; exact Hw.
  - unfold PQs in *. rewrite Fd, Fl.
    destruct (disp (xs d)) eqn:Hdp; auto;
    (assert (Hm : main (dbase d) <> MBegin) by (intros E; pose proof (proj2 L5 (or_introl E)) as A; discriminate A));
    specialize (L4 Hm); rewrite ?Hdp in L4; cbn [prep] in L4; rewrite Fq by lia; exact HP.
Qed.

Lemma SB_wstep : forall c d j w s', LS d ->
  nth_error (ws (dbase d)) j = Some w -> wstepG (wq w) (bcfg (dx c)) (dbase d) j w s' ->
  SB c d -> SB c (set_dbase d s').
Proof.
  intros c d j w s' HLS Hj HR (HQ & HL & HG & HW & HP).
  destruct HL as (L1 & L2 & L3 & L4 & L5).
  pose proof (L1 j w Hj) as Hq. pose proof (nth_error_some_lt _ _ _ _ Hj) as Hjl.
  assert (Hin : In w (ws (dbase d))) by (eapply nth_error_In; eauto).
  assert (Hmb : main (dbase d) <> MBegin).
  { intros E. destruct (L3 E) as (_ & A & _). rewrite A in Hin. destruct Hin. }
  specialize (L4 Hmb).
  assert (Hql : wq w < length (queues (dbase d))) by lia.
  destruct (wstepG_frame _ _ _ _ _ _ HR) as (F1 & F2 & F3 & F4 & F5 & F6 & F7 & F8).
  destruct (lw1_wstep _ _ _ _ _ Hql Hj HR (HW w Hin)) as (w' & Ews & Ewq & Hlw').
  unfold SB. split; [|split; [|split; [|split]]].
  - destruct HQ as (HC0 & HS0 & HT0 & HP0 & HC1 & HS1 & HT1 & HP1 & HJ).
    unfold QS, C0, S0, T0, P0q, C1s, S1s, T1, P1s, JRs, TQ, shuts_put, m_holds, dbase in *.
    cbn [xs rp set_dbase set_xs base set_base]. rewrite (F8 0), (F8 1) by lia. rewrite F1, F3.
    repeat (split; [assumption|]). exact HJ.
  - unfold LS, dbase in *. cbn [xs set_dbase set_xs base set_base disp launched]. rewrite Ews, upd_length, F7, F1.
    split; [|split; [exact L2|split; [intros E; contradiction|split; [intros _; exact L4|exact L5]]]].
    intros j' x Hx. apply nth_error_upd_inv in Hx. destruct Hx as [[A B]|[A B]].
    + subst. rewrite Ewq. exact Hq.
    + apply L1; exact B.
  - exact HG.
  - unfold LW, dbase in *. cbn [xs set_dbase set_xs base set_base]. rewrite Ews. intros x Hx.
    apply In_upd_idx in Hx. destruct Hx as [Hx|[m [Hm1 Hm2]]]; [subst; exact Hlw'|].
    unfold lw1 in *. rewrite (F8 (wq x)).
    + apply HW. eapply nth_error_In; eauto.
    + rewrite (L1 m x Hm2), Hq. lia.
  - unfold PQs, dbase in *. cbn [xs set_dbase set_xs base set_base disp]. rewrite F7.
    destruct (disp (xs d)) eqn:Hdp; auto; cbn [prep] in L4; rewrite F8 by lia; exact HP.
Qed.


(* ====================== part 4 ====================== *)

Lemma r_step_hi : forall c d d' l, r_step c d = Some (d', l) ->
  forall q, 2 <= q -> getq (dbase d') q = getq (dbase d) q.
Proof.
  intros c d d' l H q Hq. unfold r_step in H. cbv zeta in H.
  destruct (rp d); destr_all H; try discriminate H; inversion H; subst; clear H; xsn; unf;
  rewrite ?nth_upd_neq by lia; reflexivity.
Qed.

Lemma r_step_xs : forall c d d' l, r_step c d = Some (d', l) ->
  disp (xs d') = disp (xs d) /\ launched (xs d') = launched (xs d) /\ active (xs d') = active (xs d).
Proof.
  intros c d d' l H. unfold r_step in H. cbv zeta in H.
  destruct (rp d); destr_all H; try discriminate H; inversion H; subst; clear H; xsn;
  repeat split; first [reflexivity | assumption | symmetry; assumption].
Qed.

Lemma SB_rstep : forall c d d' l, dinner c = IStep ->
  1 < length (queues (dbase d)) ->
  (forall i k0, rp d = RFailSrnc i k0 -> fpend (getf (dbase d) i) = true) ->
  (forall i k0, rp d = RFailSet i k0 -> isrun (getf (dbase d) i) = true) ->
  r_step c d = Some (d', l) -> SB c d -> SB c d'.
Proof.
  intros c d d' l Hs Hql Hfp Hfr H (HQ & HL & HG & HW & HP).
  destruct (r_step_ps _ _ _ _ H) as (P1 & P2 & P3 & P4 & P5 & P6 & P7).
  destruct (r_step_xs _ _ _ _ H) as (X1 & X2 & X3).
  pose proof (r_step_ws _ _ _ _ H) as Ews.
  assert (Hhi : hiframe (dbase d) (dbase d')) by (repeat split; auto; eapply r_step_hi; eauto).
  destruct (HI_keep d d' HL HG HW HP Hhi X1 X2) as (A & B & C & D); try (rewrite P2; tauto).
  split; [|tauto]. eapply QS_rstep; eauto. destruct HG as (_ & _ & G3 & _). exact G3.
Qed.

(* ---------- the client in front of the per-call executor ---------- *)
Inductive dmS (c : dcfg) (d : dstate) : dstate -> Prop :=
| DMS_x x' : plainm (main (dbase d)) -> mstepR (bcfg (dx c)) (dbase d) (base x') -> xframe (xs d) x' ->
    dmS c d (set_xs d x')
| DMS_begin : main (dbase d) = MBegin ->
    dmS c d (set_dbase d (set_main (set_queues (dbase d) (queues (dbase d) ++ [mkQ [] 0])) (MStart 0)))
| DMS_start0 : main (dbase d) = MStart 0 ->
    dmS c d (set_xs d (mkX (set_main (dbase d) (MStart 1)) DBegin (active (xs d)) (launched (xs d))))
| DMS_startL j : main (dbase d) = MStart (S j) ->
    dmS c d (mkD (set_base (xs d) (m_goto (dbase d) (ops (dbase d) ++ [ODrop]) [] false)) RBegin (rwait d))
| DMS_join j : main (dbase d) = MJoin j -> rp d = RDone ->
    dmS c d (set_dbase d (set_main (dbase d) MQJoin)).

Lemma dm_step_S : forall c d d' l, dinner c = IStep -> rp d <> RDead ->
  (forall w b rest, drain_src (dbase d) w -> qitems (getq (dbase d) 0) = Shut b :: rest -> False) ->
  dm_step c d = Some (d', l) -> dmS c d d'.
Proof.
  intros c d d' l Hk Hnd Hns H. unfold dm_step in H. cbv zeta in H. rewrite Hk in H. unfold dbase in *.
  assert (Hx : plainm (main (base (xs d))) ->
     match xm_step (dx c) (xs d) with Some (x', l0) => Some (set_xs d x', l0) | None => None end = Some (d', l) ->
     dmS c d d').
  { intros (N1 & N2 & N3) Hx. destruct (xm_step (dx c) (xs d)) as [[x' l0]|] eqn:Hxs; [|discriminate].
    inversion Hx; subst. destruct (xm_step_R _ _ _ _ N1 N2 N3 Hns Hxs) as [A B].
    apply DMS_x; auto. repeat split; auto. }
  destruct (main (base (xs d))) eqn:Hm;
  try (apply Hx; [repeat split; try discriminate; intros k0; discriminate|exact H]).
  - inversion H; subst. apply DMS_begin. exact Hm.
  - destruct k; inversion H; subst.
    + apply DMS_start0; auto.
    + eapply DMS_startL; eauto.
  - destruct (rdone (rp d)) eqn:Hrd; [|discriminate]. destruct (rp d) eqn:Hrp; try discriminate Hrd.
    + inversion H; subst. eapply DMS_join; eauto.
    + congruence.
Qed.

Lemma mpc_eq_begin : forall m, m = MBegin \/ m <> MBegin.
Proof. intros []; auto; right; discriminate. Qed.

Lemma SB_dm : forall c d d', dmS c d d' -> InvC (bcfg (dx c)) (dbase d) ->
  ((main (dbase d) = MBegin \/ exists j, main (dbase d) = MStart j) -> rp d = RNone) ->
  SB c d -> SB c d'.
Proof.
  intros c d d' HR HC Hrn (HQ & HL & HG & HW & HP).
  pose proof HL as (L1 & L2 & L3 & L4 & L5).
  assert (Hql : 0 < length (queues (dbase d))).
  { destruct (mpc_eq_begin (main (dbase d))) as [E|E]; [destruct (L3 E) as [A _]; lia|specialize (L4 E); lia]. }
  destruct HR as [x' Hpl HM Hfr| Hm | Hm | j Hm | j Hm Hrp].
  - destruct (mstepR_frame _ _ _ Hpl HM) as (Fw & Fp & Fl & Fq).
    destruct (mstepR_main _ _ _ Hpl HM) as (M1 & M2 & M3).
    destruct Hfr as (Fd & Fa & Fla). pose proof Hpl as (N1 & N2 & N3).
    assert (Hhi : hiframe (dbase d) (dbase (set_xs d x'))).
    { unfold dbase. simpl. repeat split; auto. intros q Hq. apply Fq. lia. }
    destruct (HI_keep d (set_xs d x') HL HG HW HP Hhi Fd Fla) as (A & B & C & D).
    { unfold dbase. simpl. split; intros E; [exfalso; apply M1; exact E|exfalso; apply N1; exact E]. }
    { unfold dbase. simpl. split; intros E; [exfalso; eapply M2; exact E|exfalso; eapply N2; exact E]. }
    split; [|tauto].
    destruct HQ as (HC0 & HS0 & HT0 & HP0 & HC1 & HS1 & HT1 & HP1 & [HJ1 HJ2]).
    unfold QS, C0, S0, T0, P0q, C1s, S1s, T1, P1s, JRs, TQ, dbase in *. cbn [xs rp set_xs].
    rewrite (Fq 1) by lia. rewrite Fd.
    split; [eapply (CM0_mstep _ (r_holds (rp d))); eauto|].
    split; [eapply (SM0_mstep _ (r_past0 (rp d))); eauto|].
    split; [eapply (TM0_mstep _ (r_past0 (rp d))); eauto|].
    split; [eapply (PM0_mstep _ (r_past0 (rp d))); eauto|].
    split; [exact HC1|]. split; [exact HS1|]. split; [exact HT1|]. split; [exact HP1|]. split; [exact HJ1|exact HJ2].
  - destruct (L3 Hm) as (A1 & A2 & A3).
    destruct HQ as (HC0 & HS0 & HT0 & HP0 & HC1 & HS1 & HT1 & HP1 & [HJ1 HJ2]). destruct HG as (G1 & G2 & G3 & G4).
    unfold SB, QS, C0, S0, T0, P0q, C1s, S1s, T1, P1s, JRs, TQ, LS, DG, LW, lw1, PQs, shuts_put, m_holds in *. xsn. unf.
    rewrite !nth_snoc_dflt. rewrite app_length. rewrite Hm, A1, A2, A3 in *. simpl length. cbn [prep].
    repeat match goal with |- _ /\ _ => split end; try assumption; try lia; try (intros; discriminate); try exact I;
    try (intros w9 Hw9; destruct Hw9).
    split; intros E; try discriminate E; auto.
  - assert (Hdn : disp (xs d) = DNone) by (apply L5; right; exact Hm).
    assert (Hmb : main (dbase d) <> MBegin) by congruence. specialize (L4 Hmb).
    destruct HQ as (HC0 & HS0 & HT0 & HP0 & HC1 & HS1 & HT1 & HP1 & [HJ1 HJ2]). destruct HG as (G1 & G2 & G3 & G4).
    unfold SB, QS, C0, S0, T0, P0q, C1s, S1s, T1, P1s, JRs, TQ, LS, DG, LW, lw1, PQs, shuts_put, m_holds, dbase in *.
    cbn [xs rp rwait set_xs base disp active launched]. unf. rewrite Hm, Hdn in *. cbn [prep d_holds d_past] in *.
    repeat match goal with |- _ /\ _ => split end; try assumption; try lia; try (intros; discriminate); try exact I.
    + split; intros E; try discriminate E. destruct E as [E|E]; discriminate E.
  - assert (Hrn' : rp d = RNone) by (apply Hrn; right; eauto).
    assert (Hcl : closed (dbase d) = false) by (apply (ctl_closed_false _ _ HC); congruence).
    assert (Hmb : main (dbase d) <> MBegin) by congruence. specialize (L4 Hmb).
    assert (Hdn : disp (xs d) <> DNone) by (intros E; apply L5 in E; destruct E as [E|E]; congruence).
    destruct HQ as (HC0 & HS0 & HT0 & HP0 & HC1 & HS1 & HT1 & HP1 & [HJ1 HJ2]). destruct HG as (G1 & G2 & G3 & G4).
    unfold SB, QS, C0, S0, T0, P0q, C1s, S1s, T1, P1s, JRs, TQ, LS, DG, LW, lw1, PQs, shuts_put, m_holds, dbase in *.
    cbn [xs rp rwait base set_base disp active launched]. unfold getq in *. rewrite m_goto_queues, m_goto_ws.
    destruct (m_goto_spec (base (xs d)) (ops (base (xs d)) ++ [ODrop]) [] false) as (l' & a' & pc & E & Hs).
    rewrite E. cbn [main closed]. pose proof (settle_pc _ _ _ _ _ _ _ _ Hs) as Hpc.
    rewrite Hrn', Hm, Hcl in *. cbn [r_holds r_past0 sp1] in *.
    destruct Hpc as [Hpc|Hpc]; rewrite Hpc;
    repeat match goal with |- _ /\ _ => split end; try assumption; try lia; try (intros; discriminate); try exact I;
    try (split; [intros E0; contradiction|intros [E0|E0]; discriminate E0]).
  - assert (Hmb : main (dbase d) <> MBegin) by congruence. specialize (L4 Hmb).
    assert (Hdn : disp (xs d) <> DNone) by (intros E; apply L5 in E; destruct E as [E|E]; congruence).
    destruct HQ as (HC0 & HS0 & HT0 & HP0 & HC1 & HS1 & HT1 & HP1 & [HJ1 HJ2]). destruct HG as (G1 & G2 & G3 & G4).
    unfold SB, QS, C0, S0, T0, P0q, C1s, S1s, T1, P1s, JRs, TQ, LS, DG, LW, lw1, PQs, shuts_put, m_holds in *. xsn. unf.
    rewrite Hm in *.
    repeat match goal with |- _ /\ _ => split end; try assumption; try lia; try (intros; discriminate); try exact I;
    try (split; [intros E0; contradiction|intros [E0|E0]; discriminate E0]).
Qed.


(* ====================== part 5 ====================== *)

(* ---------- workers and processes, bundled ---------- *)
Definition WIs (c : cfg) (s : state) : Prop :=
  OW1 s /\ OW3 s /\ CH c s /\ (forall w, In w (ws s) -> bad (wp w) = false) /\
  D_fin s /\ D_own s.

Lemma WIs_frame : forall c s s', ws s' = ws s -> ps s' = ps s -> WIs c s -> WIs c s'.
Proof.
  intros c s s' Ew Ep H. unfold WIs, OW1, OW3, CH, D_fin, D_own, getp in *. rewrite Ew, Ep. exact H.
Qed.

Lemma WIs_addw : forall c s s' q0, ws s' = ws s ++ [mkW q0 0 WBegin] -> ps s' = ps s -> WIs c s -> WIs c s'.
Proof.
  intros c s s' q0 Ew Ep (H1 & H3 & HC & Hb & Hf & Ho).
  assert (Hin : forall x, In x (ws s ++ [mkW q0 0 WBegin]) -> In x (ws s) \/ x = mkW q0 0 WBegin).
  { intros x Hx. apply in_app_or in Hx. destruct Hx as [Hx|[Hx|[]]]; auto. }
  unfold WIs, OW1, OW3, CH, D_fin, D_own, getp in *. rewrite Ew, Ep.
  split; [|split; [|split; [|split; [|split]]]].
  - intros x Hx. destruct (Hin x Hx) as [Hx'|Hx']; [exact (H1 x Hx')|]. subst x. reflexivity.
  - intros j j' w w' Hne E1 E2 S1 S2.
    assert (Hold : forall m x, nth_error (ws s ++ [mkW q0 0 WBegin]) m = Some x -> spawnedb x = true -> nth_error (ws s) m = Some x).
    { intros m x Hx Sx. destruct (Nat.lt_ge_cases m (length (ws s))) as [Hl|Hl].
      - rewrite nth_error_app1 in Hx; auto.
      - rewrite nth_error_app2 in Hx; auto. destruct (m - length (ws s)) as [|q]; simpl in Hx.
        + inversion Hx; subst. discriminate Sx.
        + destruct q; discriminate Hx. }
    eapply (H3 j j' w w'); eauto.
  - intros x Hx. destruct (Hin x Hx) as [Hx'|Hx']; [exact (HC x Hx')|]. subst x. apply chanS_unspawned. reflexivity.
  - intros x Hx. destruct (Hin x Hx) as [Hx'|Hx']; [exact (Hb x Hx')|]. subst x. reflexivity.
  - intros x Hx Hfx. destruct (Hin x Hx) as [Hx'|Hx']; [exact (Hf x Hx' Hfx)|]. subst x. discriminate Hfx.
  - intros kk Hkk. destruct (Ho kk Hkk) as [x [Hx1 Hx2]]. exists x. split; auto. apply in_or_app; auto.
Qed.

Lemma WIs_w : forall c s j w s', nth_error (ws s) j = Some w -> wstepG (wq w) c s j w s' -> WIs c s -> WIs c s'.
Proof.
  intros c s j w s' Hj HR (H1 & H3 & HC & Hb & Hf & Ho).
  split; [eapply OW1_wstep; eauto|]. split; [eapply OW3_wstep; eauto|]. split; [eapply CH_wstep; eauto|].
  split; [eapply bad_wstepG; eauto|].
  split; [eapply fin_wstepG; eauto|]. eapply own_wstepG; eauto.
Qed.

Lemma WIs_p : forall c s k s' l, p_step c s k = Some (s', l) -> WIs c s -> WIs c s'.
Proof.
  intros c s k s' l H (H1 & H3 & HC & Hb & Hf & Ho).
  destruct (CH_pstep _ _ _ _ _ H HC) as (HC' & Ew & El).
  destruct (ExecLive.p_step_inv _ _ _ _ _ H) as (p & p' & Hk & Hp & Ha & E).
  split; [|split; [|split; [exact HC'|split; [|split]]]].
  - unfold OW1 in *. rewrite Ew, El. exact H1.
  - unfold OW3 in *. rewrite Ew. exact H3.
  - rewrite Ew. exact Hb.
  - subst s'. eapply fin_pstep; eauto.
  - unfold D_own in *. rewrite Ew, El. exact Ho.
Qed.


(* ====================== part 6 ====================== *)

(* ---------- tasks in the private queues ---------- *)
Definition pqs (qs : list queue) : list item := allq (skipn 2 qs).

Lemma skipn_upd_lo : forall A (l : list A) q x, q < 2 -> skipn 2 (upd l q x) = skipn 2 l.
Proof.
  intros A l q x H. destruct l as [|a [|b l]]; destruct q as [|[|q]]; simpl; try reflexivity; lia.
Qed.

Lemma skipn_upd_hi : forall A (l : list A) q x, skipn 2 (upd l (q + 2) x) = upd (skipn 2 l) q x.
Proof.
  intros A l q x. replace (q + 2) with (S (S q)) by lia.
  destruct l as [|a [|b l]]; simpl; try reflexivity; try (destruct q; reflexivity).
Qed.

Lemma nth_skipn2 : forall A (l : list A) q d, nth q (skipn 2 l) d = nth (q + 2) l d.
Proof.
  intros A l q d. replace (q + 2) with (S (S q)) by lia.
  destruct l as [|a [|b l]]; simpl; try reflexivity; destruct q; reflexivity.
Qed.

Lemma cnt_allq_upd : forall (f : item -> bool) (l : list queue) q old new, nth_error l q = Some old ->
  count f (allq (upd l q new)) + count f (qitems old) = count f (allq l) + count f (qitems new).
Proof.
  intros f l q old new H. destruct (StepSafe.allq_upd_split l q old new H) as (l1 & l2 & E1 & E2).
  rewrite E1, E2. rewrite !count_app. lia.
Qed.

Lemma pq_lo : forall qs q x, q < 2 -> pqs (upd qs q x) = pqs qs.
Proof. intros. unfold pqs. rewrite skipn_upd_lo; auto. Qed.

Lemma pq_upd : forall f qs q new, 2 <= q < length qs ->
  count f (pqs (upd qs q new)) + count f (qitems (nth q qs (mkQ [] 0))) = count f (pqs qs) + count f (qitems new).
Proof.
  intros f qs q new Hq. unfold pqs. replace q with ((q - 2) + 2) at 1 by lia. rewrite skipn_upd_hi.
  assert (E : nth_error (skipn 2 qs) (q - 2) = Some (nth q qs (mkQ [] 0))).
  { replace q with ((q - 2) + 2) at 2 by lia. rewrite <- nth_skipn2. apply List.nth_error_nth'.
    rewrite skipn_length. lia. }
  apply (cnt_allq_upd f _ _ _ new E).
Qed.

Lemma pq_snoc : forall qs, 2 <= length qs -> pqs (qs ++ [mkQ [] 0]) = pqs qs.
Proof.
  intros qs H. unfold pqs. rewrite skipn_app. replace (2 - length qs) with 0 by lia. simpl.
  apply StepSafe.allq_snoc.
Qed.

(* ---------- ownership counting, per-call inner executor ---------- *)
Definition pcx (d : dstate) (i : nat) : nat :=
  pcnt d i + dhold (disp (xs d)) i + count (taskb i) (pqs (queues (dbase d))).
Definition EX (n : nat) (d : dstate) : Prop :=
  EIf n (pcx d) (rcnt d) (futs (dbase d)) (subm (dbase d)).

Lemma EX_wstep : forall c n d j w s', length (futs (dbase d)) = n ->
  wq w = j + 2 -> wq w < length (queues (dbase d)) ->
  nth_error (ws (dbase d)) j = Some w -> (forall i, w_call w = Some i -> 1 <= i <= n) ->
  wstepG (wq w) c (dbase d) j w s' -> EX n d -> EX n (set_dbase d s').
Proof.
  intros c n d j w s' Hlen Hq Hql Hj Hrng HR H. unfold EX in *.
  unfold w_call in Hrng.
  assert (Hpq : forall ii new, count (taskb ii) (pqs (upd (queues (dbase d)) (wq w) new))
                 + count (taskb ii) (qitems (getq (dbase d) (wq w)))
                 = count (taskb ii) (pqs (queues (dbase d))) + count (taskb ii) (qitems new)).
  { intros ii new. apply pq_upd. lia. }
  gcases HR; rewrite Hpc in Hrng.
  all: try (eapply EI_same; [| |exact H]; intros ii; unfold pcx, pcnt, rcnt; xsn; unf;
            try (specialize (Hpq ii); unfold dbase, getq in Hpq);
            rewrite ?nth_upd_neq by lia; cbn [qitems];
            try (destruct b); wcount ii Hj Hpc;
            try match goal with |- context [pqs (upd _ _ ?nw)] => specialize (Hpq nw); cbn [qitems] in Hpq end;
            try rewrite Hit in *; simpl tl in *; rewrite ?count_cons in *;
            cbn [taskb] in *; try lia).
  all: pose proof (Hrng i eq_refl) as Hi; destruct (H i Hi) as (E1 & _);
    eapply (EI_fut n (pcx d) (rcnt d) _ _ _ _ i _ Hlen Hi H);
    [ intros ii Hne; apply Nat.eqb_neq in Hne | | | | | ];
    unfold pcx, pcnt, rcnt in *; xsn; unf; rewrite ?nth_upd_neq by lia;
    try wcount i Hj Hpc; try wcount ii Hj Hpc; rewrite ?Nat.eqb_refl in *; rewrite ?Hne in *; try lia;
    try reflexivity; try (intros; reflexivity); try (intros; lia).
  all: assert (Hin : In w (ws (base (xs d)))) by (eapply nth_error_In; eauto).
  - assert (Hs : srncb i w = true) by (rewrite (srncb_pc i _ _ Hpc); apply Nat.eqb_refl).
    pose proof (count_pos _ (srncb i) _ _ Hin Hs). lia.
  - assert (Hs : srncb i w = true) by (rewrite (srncb_pc i _ _ Hpc); apply Nat.eqb_refl).
    pose proof (count_pos _ (srncb i) _ _ Hin Hs). lia.
  - assert (Hs : runsb i w = true) by (rewrite (runsb_pc i _ _ Hpc); apply Nat.eqb_refl).
    pose proof (count_pos _ (runsb i) _ _ Hin Hs). lia.
Qed.

Lemma EX_rstep : forall c n d d' l, dinner c = IStep -> length (futs (dbase d)) = n ->
  1 < length (queues (dbase d)) -> rP0 (rng n) (rp d) ->
  r_step c d = Some (d', l) -> EX n d -> EX n d'.
Proof.
  intros c n d d' l Hs Hlen Hql Hrng H HE. pose proof (cB_inner c) as Hk.
  unfold EX in *. unfold r_step in H. cbv zeta in H. rewrite Hs in H.
  destruct (rp d) eqn:Hrp; simpl in Hrng.
  all: try (match type of Hrp with _ = RFailSrnc ?j _ =>
       assert (Hfp : fpend (getf (dbase d) j) = true)
         by (destruct Hrng as [Hi _]; destruct (HE j Hi) as (_ & _ & _ & E4 & _); apply E4;
             unfold pcx, pcnt; rewrite Hrp; cbn [rpre]; rewrite eqn_refl; lia) end).
  all: try (match type of Hrp with _ = RFailSet ?j _ =>
       assert (Hfr : isrun (getf (dbase d) j) = true)
         by (destruct Hrng as [Hi _]; destruct (HE j Hi) as (_ & _ & _ & _ & _ & E6); apply E6;
             unfold rcnt; rewrite Hrp; cbn [rfs]; rewrite eqn_refl; lia) end).
  all: destr_all H; try discriminate H; inversion H; subst; clear H.
  all: try (simpl in Hfp; discriminate Hfp).
  all: try (simpl in Hfr; discriminate Hfr).
  all: try (xsn; (eapply EI_same; [| |exact HE]); intros ii; unfold pcx, pcnt, rcnt; rewrite Hrp; tocB Hs; rq Hk; xsn; unf;
            rewrite ?pq_lo by lia;
            rewrite ?nth_upd_eq, ?nth_upd_neq by lia; cbn [qitems rpre rfs kc rp rwait];
            rewrite ?count_app, ?lc_app, ?lc_one, ?count_cons, ?count_nil; cbn [taskb];
            try match goal with E : qitems _ = _ |- _ => rewrite E end; simpl tl;
            rewrite ?count_cons; cbn [taskb]; unfold eqn; try lia).
  all: destruct Hrng as [Hi Hrk]; destruct (HE i Hi) as (E1 & _); xsn; unf;
    eapply (EI_fut _ (pcx d) (rcnt d) _ _ _ _ i _ eq_refl Hi HE);
    [ intros ii Hne | | | | | ];
    unfold pcx, pcnt, rcnt in *; rewrite Hrp in *; tocB Hs; rq Hk; xsn; unf; cbn [rpre rfs kc rp rwait] in *;
    rewrite ?eqn_refl in *; rewrite ?(eqn_neq _ _ Hne); try lia;
    try reflexivity; try (intros; reflexivity); try (intros; lia).
Qed.


(* ====================== part 7 ====================== *)

Definition pcxS (s : state) (dp : dpc) (r : rpc) (rw : list (nat * list nat)) (i : nat) : nat :=
  pcntS s r rw i + dhold dp i + count (taskb i) (pqs (queues s)).
Definition EXs (n : nat) (s : state) (dp : dpc) (r : rpc) (rw : list (nat * list nat)) : Prop :=
  EIf n (pcxS s dp r rw) (rcntS s r) (futs s) (subm s).

Lemma EX_EXs : forall n d, EX n d <-> EXs n (dbase d) (disp (xs d)) (rp d) (rwait d).
Proof. intros. reflexivity. Qed.

Lemma EXs_mstepR : forall c n s s' dp r rw, plainm (main s) -> mstepR c s s' -> InvC c s -> D_nodup s ->
  length (futs s) = n -> 1 < length (queues s) ->
  (forall b j, main s = MDrainCancel b j -> 1 <= j <= n) -> EXs n s dp r rw -> EXs n s' dp r rw.
Proof.
  intros c n s s' dp r rw (N1 & N2 & N3) HR HC [Hnd1 Hnd2] Hlen Hql Hmdc H.
  pose proof HC as (C1 & C2 & C3 & _). unfold EXs in *.
  mcases HR; try congruence; try (exfalso; eapply N2; eauto; fail); try (exfalso; eapply N3; eauto; fail).
  all: try (try mgoto; unf; (eapply EI_same; [| |exact H]); intros ii; unfold pcxS, pcntS, rcntS; unf; rewrite ?Hm;
            rewrite ?pq_lo by lia;
            rewrite ?nth_upd_eq, ?nth_upd_neq by lia; cbn [qitems mdc];
            rewrite ?count_app, ?count_taskb_one; try rewrite Hit; simpl tl; rewrite ?count_cons; cbn [taskb];
            unfold eqn; try lia; fail).
  - (* submit *)
    assert (Hi : 1 <= i <= n) by (rewrite <- Hlen; apply C1; rewrite Ho; left; reflexivity).
    assert (Hns : ~ In i (subm s)) by (intros Hin; apply (Hnd2 i Hin); rewrite Ho; apply in_submits_head).
    mgoto; unf; eapply (EI_submit n (pcxS s dp r rw) (rcntS s r) _ (futs s) (subm s) i Hi Hns H);
    intros ii; unfold pcxS, pcntS; unf; rewrite ?Hm; rewrite ?pq_lo by lia;
    rewrite ?nth_upd_eq, ?nth_upd_neq by lia; cbn [qitems mdc];
    rewrite ?count_app, ?count_taskb_one; lia.
  - (* cancel *)
    assert (Hin : In i (subm s)) by (specialize (C3 Hm); rewrite Ho in C3; exact C3).
    assert (Hi : 1 <= i) by (apply (C2 i Hin)).
    pose proof (EI_cancel n _ _ _ _ i Hin Hi H) as H'.
    replace f with (fst (fcancel (nth (i - 1) (futs s) FPending))) by (unfold getf in Hfc; rewrite Hfc; reflexivity).
    mgoto; unf; (eapply EI_same; [| |exact H']); intros ii; unfold pcxS, pcntS, rcntS; unf; rewrite ?Hm; cbn [mdc]; lia.
  - (* drain cancel *)
    replace f with (fst (fcancel (nth (j0 - 1) (futs s) FPending))) by (unfold getf in Hfc; rewrite Hfc; reflexivity).
    assert (Hp1 : 1 <= pcxS s dp r rw j0) by (unfold pcxS, pcntS; rewrite Hm; cbn [mdc]; rewrite Nat.eqb_refl; lia).
    assert (Hi : 1 <= j0 <= n) by (eapply Hmdc; eauto).
    destruct (H j0 Hi) as (E1 & _ & _ & E4 & _). specialize (E4 Hp1).
    unf. eapply (EI_fut n (pcxS s dp r rw) (rcntS s r) _ _ _ _ j0 _ Hlen Hi H);
    [ intros ii Hne; apply Nat.eqb_neq in Hne | | | | | ];
    unfold pcxS, pcntS, rcntS in *; unf; rewrite ?Hm in *; cbn [mdc] in *; rewrite ?Nat.eqb_refl in *; rewrite ?Hne; try lia.
    intros _. destruct (nth (j0 - 1) (futs s) FPending); try discriminate E4; reflexivity.
Qed.

Lemma EX_dm : forall c n d d', dmS c d d' -> InvC (bcfg (dx c)) (dbase d) -> D_nodup (dbase d) ->
  length (futs (dbase d)) = n -> (main (dbase d) <> MBegin -> 1 < length (queues (dbase d))) ->
  MDC n d -> (forall j, main (dbase d) = MStart j -> rp d = RNone) ->
  (disp (xs d) = DNone <-> (main (dbase d) = MBegin \/ main (dbase d) = MStart 0)) ->
  (main (dbase d) = MBegin -> length (queues (dbase d)) = 1) ->
  EX n d -> EX n d'.
Proof.
  intros c n d d' HR HC HN Hlen Hql HM Hrn Hdn Hl1 HE.
  destruct HR as [x' Hpl HM' Hfr| Hm | Hm | j Hm | j Hm Hrp].
  - destruct Hfr as (Fd & _). apply EX_EXs. unfold dbase. cbn [xs rp rwait set_xs]. rewrite Fd.
    eapply EXs_mstepR; eauto. apply Hql. apply Hpl.
  - specialize (Hl1 Hm).
    unfold EX in *. xsn. unf. eapply EI_same; [| |exact HE]; intros ii; unfold pcx, pcnt, rcnt; xsn; unf;
    rewrite ?nth_snoc_dflt, ?Hm; [|reflexivity].
    unfold pqs. destruct (queues (base (xs d))) as [|a [|b l]]; simpl in Hl1; try lia. reflexivity.
  - assert (Hd0 : disp (xs d) = DNone) by (apply Hdn; right; exact Hm).
    unfold EX in *. unfold dbase in *. cbn [xs rp rwait set_xs base disp].
    eapply EI_same; [| |exact HE]; intros ii; unfold pcx, pcnt, rcnt, dbase; cbn [xs rp rwait set_xs base disp]; unf;
    rewrite ?Hm, ?Hd0; reflexivity.
  - pose proof (Hrn _ Hm) as Hr0. unfold EX in *. unfold dbase in *. cbn [xs rp rwait base set_base disp].
    destruct (m_goto_spec (base (xs d)) (ops (base (xs d)) ++ [ODrop]) [] false) as (l' & a' & pc & E & Hs).
    rewrite E. pose proof (settle_pc _ _ _ _ _ _ _ _ Hs) as Hpc. cbn [futs subm].
    eapply EI_same; [| |exact HE]; intros ii; unfold pcx, pcnt, rcnt, dbase; cbn [xs rp rwait base disp]; unf;
    rewrite Hr0, ?Hm; destruct Hpc as [Hpc|Hpc]; rewrite ?Hpc; reflexivity.
  - unfold EX in *. xsn. unf. eapply EI_same; [| |exact HE]; intros ii; unfold pcx, pcnt, rcnt; xsn; unf;
    rewrite ?Hm; reflexivity.
Qed.

Lemma dhold_ap : forall c x i ii, dhold (disp (after_puts c x i)) ii = 0.
Proof.
  intros c x i ii. destruct (disp_ap_cases c x i) as [E|[(a & _ & _ & E)|E]]; rewrite E; reflexivity.
Qed.

Lemma EX_dstep : forall c n d x' l,
  2 <= length (queues (dbase d)) ->
  (prep (disp (xs d)) = 1 -> 3 <= length (queues (dbase d))) ->
  d_step (dx c) 1 (xs d) = Some (x', l) -> EX n d -> EX n (set_xs d x').
Proof.
  intros c n d x' l Hl2 Hl3 H HE. unfold EX in *. unfold d_step in H. cbv zeta in H.
  assert (Hfs : futs (base x') = futs (base (xs d)) /\ subm (base x') = subm (base (xs d))).
  { destruct (disp (xs d)); destr_all H; try discriminate H; inversion H; subst; rewrite ?base_after_puts; split; reflexivity. }
  destruct Hfs as [Hf1 Hf2]. unfold dbase in *. cbn [xs set_xs]. rewrite Hf1, Hf2.
  eapply EI_same; [| |exact HE]; intros ii; unfold pcx, pcnt, rcnt, dbase; cbn [xs rp rwait set_xs].
  - destruct (disp (xs d)) eqn:Hdp; try discriminate H; cbn [prep] in Hl3;
    destr_all H; try discriminate H; inversion H; subst; clear H;
    rewrite ?dhold_ap, ?base_after_puts; cbn [base disp set_base set_disp dhold]; unf;
    rewrite ?pq_snoc by (rewrite ?upd_length; lia); rewrite ?pq_lo by lia;
    rewrite ?nth_snoc_dflt; rewrite ?nth_upd_eq, ?nth_upd_neq by lia; cbn [qitems];
    try match goal with E : qitems _ = _ |- _ => rewrite E end; simpl tl;
    try match goal with |- context [pqs (upd ?qs ?q ?nw)] =>
          pose proof (pq_upd (taskb ii) qs q nw ltac:(lia)) as Hpu; cbn [qitems] in Hpu end;
    rewrite ?count_app in *;
    try (change (count (srncb ii) [mkW (length (queues (base (xs d))) - 1) 0 WBegin]) with 0);
    rewrite ?count_cons, ?count_nil in *; cbn [taskb] in *;
    try lia.
  - destruct (disp (xs d)) eqn:Hdp; try discriminate H;
    destr_all H; try discriminate H; inversion H; subst; clear H;
    rewrite ?base_after_puts; cbn [base disp set_base set_disp]; unf; rewrite ?count_app;
    try (change (count (runsb ii) [mkW (length (queues (base (xs d))) - 1) 0 WBegin]) with 0); lia.
Qed.


(* ====================== part 8 ====================== *)

Definition RMs (d : dstate) : Prop :=
  (rp d = RNone <-> (main (dbase d) = MBegin \/ exists j, main (dbase d) = MStart j)) /\ rp d <> RDead.

Definition DIS (c : dcfg) (n : nat) (d : dstate) : Prop :=
  InvC (bcfg (dx c)) (dbase d) /\ D_nodup (dbase d) /\ RMs d /\ SB c d /\
  WIs (bcfg (dx c)) (dbase d) /\ EX n d /\ RJ c d /\ MDC n d.

Lemma CTL_dmS : forall c d d', dmS c d d' ->
  InvC (bcfg (dx c)) (dbase d) -> D_nodup (dbase d) ->
  InvC (bcfg (dx c)) (dbase d') /\ D_nodup (dbase d').
Proof.
  intros c d d' HR HC HN.
  pose proof (ctl_closed_false _ _ HC) as Hcf.
  pose proof HC as (C1 & C2 & C3 & C4 & C5 & C6 & C7 & C8 & C9).
  destruct HR as [x' Hpl HM Hfr| Hm | Hm | j Hm | j Hm Hrp]; unfold dbase in *; cbn [xs set_xs set_dbase set_base base].
  - split. apply (ctl_mstep (bcfg (dx c)) _ _ (le_n 1) HC HM). eapply nodup_mstep; eauto.
  - split; [|exact HN].
    eapply ctl_move; eauto; try reflexivity; unf; try congruence. apply Hcf; congruence.
  - split; [|exact HN].
    eapply ctl_move; eauto; try reflexivity; unf; try congruence. apply Hcf; congruence.
  - assert (Hc : closed (base (xs d)) = false) by (apply Hcf; congruence).
    split.
    + apply ctl_goto.
      * intros i Hi. apply in_app_or in Hi. destruct Hi as [Hi|[Hi|[]]]; auto. discriminate.
      * auto.
      * right. rewrite app_nil_r. auto.
      * left. apply in_or_app. right. left. reflexivity.
    + destruct HN as [H1 H2]. apply nodup_goto.
      * rewrite submits_app. simpl. rewrite app_nil_r. auto.
      * intros i Hi. rewrite submits_app. simpl. rewrite app_nil_r. auto.
  - split; [|exact HN].
    eapply ctl_move; eauto; try reflexivity; unf; try congruence.
    + apply Hcf; congruence.
    + intros _ _. rewrite Hm; split; congruence.
Qed.

Lemma ex_srnc : forall n d w i, EX n d -> 1 <= i <= n -> In w (ws (dbase d)) -> wp w = WSrnc i ->
  fpend (getf (dbase d) i) = true.
Proof.
  intros n d w i H Hi Hw Hpc. destruct (H i Hi) as (_ & _ & _ & E4 & _). apply E4. unfold pcx, pcnt.
  assert (Hs : srncb i w = true) by (rewrite (srncb_pc i _ _ Hpc); apply Nat.eqb_refl).
  pose proof (count_pos _ (srncb i) _ _ Hw Hs). lia.
Qed.

Lemma ex_run : forall n d w i v, EX n d -> 1 <= i <= n -> In w (ws (dbase d)) -> wp w = WSetRes i v ->
  getf (dbase d) i = FRunning.
Proof.
  intros n d w i v H Hi Hw Hpc. destruct (H i Hi) as (_ & _ & _ & _ & _ & E6). apply isrun_inv. apply E6. unfold rcnt.
  assert (Hs : runsb i w = true) by (rewrite (runsb_pc i _ _ Hpc); apply Nat.eqb_refl).
  pose proof (count_pos _ (runsb i) _ _ Hw Hs). lia.
Qed.

Lemma ex_fp : forall n d i k0, EX n d -> 1 <= i <= n -> rp d = RFailSrnc i k0 -> fpend (getf (dbase d) i) = true.
Proof.
  intros n d i k0 H Hi Hrp. destruct (H i Hi) as (_ & _ & _ & E4 & _). apply E4. unfold pcx, pcnt. rewrite Hrp.
  cbn [rpre]. rewrite eqn_refl. lia.
Qed.

Lemma ex_fr : forall n d i k0, EX n d -> 1 <= i <= n -> rp d = RFailSet i k0 -> isrun (getf (dbase d) i) = true.
Proof.
  intros n d i k0 H Hi Hrp. destruct (H i Hi) as (_ & _ & _ & _ & _ & E6). apply E6. unfold rcnt. rewrite Hrp.
  cbn [rfs]. rewrite eqn_refl. lia.
Qed.

(* ---------- worker steps ---------- *)
Lemma DIS_w : forall c n d j b l, nofail (bcfg (dx c)) -> Inv4 c n d ->
  w_step (bcfg (dx c)) (dbase d) j = Some (b, l) -> DIS c n d -> DIS c n (set_dbase d b).
Proof.
  intros c n d j b l Hnf H4 Hw (HC & HN & HRM & HSB & HW & HE & HJ & HM).
  assert (Hd : dstep c d (TW (S j)) = Some (set_dbase d b, l)) by (simpl; rewrite Hw; reflexivity).
  destruct (nth_error (ws (dbase d)) j) as [w|] eqn:Hj; [|unfold w_step in Hw; rewrite Hj in Hw; discriminate].
  assert (Hin : In w (ws (dbase d))) by (eapply nth_error_In; eauto).
  pose proof HW as (Ho1 & Ho3 & HCH & Hbad & Hfin & Hown).
  pose proof HSB as (HQ & HL & HG & HLW & HP). pose proof HL as (L1 & L2 & L3 & L4 & L5).
  assert (Hmb : main (dbase d) <> MBegin).
  { intros E. destruct (L3 E) as (_ & A & _). rewrite A in Hin. destruct Hin. }
  pose proof (L1 j w Hj) as Hq. pose proof (nth_error_some_lt _ _ _ _ Hj) as Hjl. specialize (L4 Hmb).
  assert (Hch : chan_ok (bcfg (dx c)) w (getp (dbase d) (wproc w)) = true).
  { pose proof (HCH w Hin) as Hc. unfold chanS in Hc. apply andb_true_iff in Hc. tauto. }
  assert (HR : wstepG (wq w) (bcfg (dx c)) (dbase d) j w b).
  { eapply w_step_invG; eauto.
    - intros i Hpc. eapply ex_srnc; eauto. eapply i4_wrng; eauto. unfold w_call. rewrite Hpc. reflexivity.
    - intros i v Hpc. eapply ex_run; eauto. eapply i4_wrng; eauto. unfold w_call. rewrite Hpc. reflexivity. }
  destruct (wstepG_frame _ _ _ _ _ _ HR) as (F1 & F2 & F3 & F4 & F5 & F6 & F7 & F8).
  unfold DIS.
  split; [unfold dbase; simpl; eapply ctl_frame; eauto|].
  split; [unfold D_nodup, dbase in *; simpl; rewrite F2, F4; exact HN|].
  split; [unfold RMs, dbase in *; simpl; rewrite F1; exact HRM|].
  split; [eapply SB_wstep; eauto|].
  split; [unfold dbase; simpl; eapply WIs_w; eauto|].
  split; [eapply EX_wstep; eauto; [eapply i4_len; eauto|lia|intros i Hc; eapply i4_wrng; eauto]|].
  split; [eapply RJ_other; eauto; discriminate|].
  unfold MDC, dbase in *. simpl. rewrite F1. exact HM.
Qed.

(* ---------- process steps ---------- *)
Lemma DIS_p : forall c n d kk b l, p_step (bcfg (dx c)) (dbase d) kk = Some (b, l) ->
  DIS c n d -> DIS c n (set_dbase d b).
Proof.
  intros c n d kk b l Hp (HC & HN & HRM & HSB & HW & HE & HJ & HM).
  assert (Hd : dstep c d (TP kk) = Some (set_dbase d b, l)) by (simpl; rewrite Hp; reflexivity).
  pose proof (WIs_p _ _ _ _ _ Hp HW) as HW'.
  destruct (ExecLive.p_step_inv _ _ _ _ _ Hp) as (p & p' & _ & _ & _ & E). subst b.
  assert (HJ' : RJ c (set_dbase d (setp (dbase d) kk p'))) by (eapply RJ_other; eauto; discriminate).
  exact (conj HC (conj HN (conj HRM (conj HSB (conj HW' (conj HE (conj HJ' HM))))))).
Qed.

(* ---------- dispatcher steps ---------- *)
Lemma d_step_ctl : forall c q x x' l, d_step c q x = Some (x', l) ->
  main (base x') = main (base x) /\ ops (base x') = ops (base x) /\ closed (base x') = closed (base x) /\
  subm (base x') = subm (base x) /\ outs (base x') = outs (base x) /\ futs (base x') = futs (base x) /\
  ps (base x') = ps (base x) /\
  (ws (base x') = ws (base x) \/ exists q0, ws (base x') = ws (base x) ++ [mkW q0 0 WBegin]).
Proof.
  intros c q x x' l H. unfold d_step in H. cbv zeta in H.
  destruct (disp x); destr_all H; try discriminate H; inversion H; subst; clear H;
  rewrite ?base_after_puts; simpl; repeat split; auto; right; eexists; reflexivity.
Qed.

Lemma DIS_d : forall c n d x' l, StepLive.fits (dx c) -> Inv4 c n d ->
  d_step (dx c) 1 (xs d) = Some (x', l) -> dinner c = IStep -> DIS c n d -> DIS c n (set_xs d x').
Proof.
  intros c n d x' l Hfit H4 Hd Hs (HC & HN & HRM & HSB & HW & HE & HJ & HM).
  assert (Hds : dstep c d TD = Some (set_xs d x', l)) by (simpl; rewrite Hs, Hd; reflexivity).
  pose proof HW as (Ho1 & Ho3 & HCH & Hbad & Hfin & Hown).
  pose proof HSB as (HQ & HL & HG & HLW & HP). pose proof HL as (L1 & L2 & L3 & L4 & L5).
  destruct (d_step_ctl _ _ _ _ _ Hd) as (F1 & F2 & F3 & F4 & F5 & F6 & F7 & F8).
  assert (Hdn : disp (xs d) <> DNone) by (intros E; unfold d_step in Hd; rewrite E in Hd; discriminate).
  assert (Hmb : main (dbase d) <> MBegin) by (intros E; apply Hdn; apply L5; left; exact E).
  specialize (L4 Hmb).
  unfold DIS, dbase in *. cbn [xs rp rwait set_xs].
  split; [eapply ctl_frame; eauto; rewrite F6; reflexivity|].
  split; [unfold D_nodup in *; rewrite F2, F4; exact HN|].
  split; [unfold RMs, dbase in *; cbn [xs rp set_xs]; rewrite F1; exact HRM|].
  split; [eapply SB_dstep; eauto|].
  split. { destruct F8 as [F8|[q0 F8]]; [eapply WIs_frame; eauto|eapply WIs_addw; eauto]. }
  split; [eapply EX_dstep; eauto; unfold dbase; [lia|intros E; rewrite E in L4; lia]|].
  split; [eapply RJ_other; eauto; discriminate|].
  unfold MDC, dbase in *. cbn [xs set_xs]. rewrite F1. exact HM.
Qed.

(* ---------- resolver steps ---------- *)
Lemma rok_weak : forall r, rok r -> r <> RNone /\ r <> RDead.
Proof. intros r (A & B & _). split; assumption. Qed.

Lemma rokS_rstep : forall c d d' l, dinner c = IStep -> disp (xs d) <> DDead ->
  (forall j, rp d <> RInJoin j) ->
  (forall i k0, rp d = RFailSrnc i k0 -> fpend (getf (dbase d) i) = true) ->
  (forall i k0, rp d = RFailSet i k0 -> isrun (getf (dbase d) i) = true) ->
  r_step c d = Some (d', l) -> rp d' <> RNone /\ rp d' <> RDead.
Proof.
  intros c d d' l Hs Hdd Hnj Hfp0 Hfr0 H. unfold r_step in H. cbv zeta in H. rewrite Hs in H.
  destruct (rp d) eqn:Hrp; try congruence.
  all: try (match type of Hrp with _ = RFailSrnc ?j ?kk => pose proof (Hfp0 j kk eq_refl) as Hfp end).
  all: try (match type of Hrp with _ = RFailSet ?j ?kk => pose proof (Hfr0 j kk eq_refl) as Hfr end).
  all: try (match type of Hrp with _ = RInJoin ?j => exfalso; apply (Hnj j); reflexivity end).
  all: destr_all H; try discriminate H; injection H as Ed El; subst d' l.
  all: try (simpl in Hfp; discriminate Hfp).
  all: try (simpl in Hfr; discriminate Hfr).
  all: try (exfalso; apply Hdd; first [assumption|reflexivity]).
  all: first [ apply rok_weak;
               first [apply rok_start_pass | apply rok_kont | apply rok_aid | apply rok_scan_next]
             | simpl; split; discriminate].
Qed.

Lemma DIS_r : forall c n d d' l, dinner c = IStep -> Inv4 c n d ->
  r_step c d = Some (d', l) -> DIS c n d -> DIS c n d'.
Proof.
  intros c n d d' l Hs H4 Hr (HC & HN & HRM & HSB & HW & HE & HJ & HM).
  pose proof HW as (Ho1 & Ho3 & HCH & Hbad & Hfin & Hown).
  pose proof HSB as (HQ & HL & HG & HLW & HP). pose proof HL as (L1 & L2 & L3 & L4 & L5).
  destruct HRM as (Hrm1 & Hrm2).
  pose proof (i4_rrng _ _ _ H4) as Hrr.
  assert (Hrn : rp d <> RNone) by (intros E; unfold r_step in Hr; rewrite E in Hr; discriminate).
  assert (Hmb : main (dbase d) <> MBegin /\ forall j, main (dbase d) <> MStart j).
  { split; [intros E|intros j E]; apply Hrn; apply Hrm1; eauto. }
  pose proof (i4_ql _ _ _ H4 (proj1 Hmb)) as Hql.
  assert (Hfp : forall i k0, rp d = RFailSrnc i k0 -> fpend (getf (dbase d) i) = true).
  { intros i k0 E. eapply ex_fp; eauto. rewrite E in Hrr. simpl in Hrr. destruct Hrr as [A _]. exact A. }
  assert (Hfr : forall i k0, rp d = RFailSet i k0 -> isrun (getf (dbase d) i) = true).
  { intros i k0 E. eapply ex_fr; eauto. rewrite E in Hrr. simpl in Hrr. destruct Hrr as [A _]. exact A. }
  destruct (r_step_ps _ _ _ _ Hr) as (P1 & P2 & P3 & P4 & P5 & P6 & P7).
  destruct (r_step_ops _ _ _ _ Hr) as (O1 & O2). pose proof (r_step_ws _ _ _ _ Hr) as Ews.
  destruct HG as (G1 & G2 & G3 & G4). destruct HQ as (_ & _ & _ & _ & _ & _ & _ & _ & [HJa HJb]).
  pose proof (rokS_rstep _ _ _ _ Hs G3 HJa Hfp Hfr Hr) as (K1 & K2).
  unfold DIS.
  split; [eapply ctl_frame; eauto|].
  split; [unfold D_nodup in *; rewrite O1, P4; exact HN|].
  split. { unfold RMs. rewrite P2. split; auto. split.
           - intros E; contradiction.
           - intros [E|[j E]]; exfalso; [apply (proj1 Hmb E)|apply (proj2 Hmb j E)]. }
  split; [eapply SB_rstep; eauto|].
  split; [eapply WIs_frame; eauto|].
  split; [eapply EX_rstep; eauto; eapply i4_len; eauto|].
  split; [eapply RJ_rstep; eauto|].
  unfold MDC in *. rewrite P2. exact HM.
Qed.


(* ====================== part 9 ====================== *)

Lemma dmS_frame : forall c d d', dmS c d d' ->
  ws (dbase d') = ws (dbase d) /\ ps (dbase d') = ps (dbase d).
Proof.
  intros c d d' HR. destruct HR as [x' Hpl HM Hfr| Hm | Hm | j Hm | j Hm Hrp]; unfold dbase; simpl; auto.
  - destruct (mstepR_frame _ _ _ Hpl HM) as (Fw & Fp & _). auto.
  - rewrite m_goto_ws, m_goto_ps. auto.
Qed.

Lemma DIS_m : forall c n d d' l, dinner c = IStep -> Inv4 c n d ->
  dm_step c d = Some (d', l) -> DIS c n d -> DIS c n d'.
Proof.
  intros c n d d' l Hs H4 Hm (HC & HN & HRM & HSB & HW & HE & HJ & HM).
  assert (Hd : dstep c d TM = Some (d', l)) by exact Hm.
  destruct HRM as (Hrm1 & Hrm2).
  pose proof HSB as (HQ & HL & HG & HLW & HP). pose proof HL as (L1 & L2 & L3 & L4 & L5).
  pose proof HQ as (_ & HS0 & _).
  pose proof (dm_step_S _ _ _ _ Hs Hrm2 (no_shut_drain c 0 d HC HS0) Hm) as HR.
  destruct (CTL_dmS _ _ _ HR HC HN) as [HC' HN'].
  assert (Hrn : (main (dbase d) = MBegin \/ exists j, main (dbase d) = MStart j) -> rp d = RNone) by (apply Hrm1).
  pose proof (SB_dm _ _ _ HR HC Hrn HSB) as HSB'.
  assert (HE' : EX n d').
  { eapply EX_dm; eauto. eapply i4_len; eauto. intros E; eapply i4_ql; eauto.
    intros E. apply (L3 E). }
  assert (HJ' : RJ c d') by (eapply RJ_other; eauto; discriminate).
  destruct (dmS_frame _ _ _ HR) as [Fw Fp].
  assert (HW' : WIs (bcfg (dx c)) (dbase d')) by (eapply WIs_frame; eauto).
  unfold DIS. split; [exact HC'|]. split; [exact HN'|].
  assert (Hrest : RMs d' /\ MDC n d').
  { destruct HR as [x' Hpl HM' Hfr| Hmb | Hm0 | j Hmj | j Hmj Hrp].
    - destruct (mstepR_main _ _ _ Hpl HM') as (M1 & M2 & M3). destruct Hpl as (N1 & N2 & N3).
      unfold RMs, MDC, dbase in *. cbn [xs rp set_xs]. split; [split; auto; split|].
      + intros E. apply Hrm1 in E. destruct E as [E|[j E]]; [contradiction|exfalso; eapply N2; eauto].
      + intros [E|[j E]]; [contradiction|exfalso; eapply M2; eauto].
      + intros b j E. eapply i4_q0; eauto.
    - unfold RMs, MDC, dbase in *. cbn [xs rp set_dbase set_xs base set_base]. unf. rewrite Hmb in *.
      split; [split; auto; split|].
      + intros _. right. eexists; reflexivity.
      + intros _. apply Hrm1. left; reflexivity.
      + intros b j E. discriminate E.
    - unfold RMs, MDC, dbase in *. cbn [xs rp set_xs base]. unf. rewrite Hm0 in *.
      split; [split; auto; split|].
      + intros _. right. eexists; reflexivity.
      + intros _. apply Hrm1. right; eexists; reflexivity.
      + intros b j E. discriminate E.
    - unfold RMs, MDC, dbase in *. cbn [xs rp base set_base].
      pose proof (m_goto_main (base (xs d)) (ops (base (xs d)) ++ [ODrop]) [] false) as Hmm.
      split; [split; [|discriminate]; split|].
      + intros E; discriminate E.
      + intros [E|[j0 E]]; destruct Hmm as [Hmm|Hmm]; congruence.
      + intros b j0 E. destruct Hmm as [Hmm|Hmm]; congruence.
    - unfold RMs, MDC, dbase in *. cbn [xs rp set_dbase set_xs base set_base]. unf. rewrite Hmj in *.
      split; [split; auto; split|].
      + intros E; congruence.
      + intros [E|[j0 E]]; discriminate E.
      + intros b j0 E. discriminate E. }
  destruct Hrest as (A & D).
  exact (conj A (conj HSB' (conj HW' (conj HE' (conj HJ' D))))).
Qed.

Lemma DIS_step : forall c n d t d' l, dinner c = IStep -> StepLive.fits (dx c) -> nofail (bcfg (dx c)) -> Inv4 c n d ->
  dstep c d t = Some (d', l) -> DIS c n d -> DIS c n d'.
Proof.
  intros c n d t d' l Hs Hfit Hnf H4 H HD. destruct t as [| | |j|kk]; simpl in H.
  - eapply DIS_m; eauto.
  - eapply DIS_r; eauto.
  - rewrite Hs in H. destruct (d_step (dx c) 1 (xs d)) as [[x' l']|] eqn:Hd; [|discriminate].
    injection H as E1 E2. subst d' l. eapply DIS_d; eauto.
  - destruct j as [|j]; [discriminate|].
    destruct (w_step (bcfg (dx c)) (dbase d) j) as [[b l']|] eqn:Hw; [|discriminate].
    injection H as E1 E2. subst d' l. eapply DIS_w; eauto.
  - destruct (p_step (bcfg (dx c)) (dbase d) kk) as [[b l']|] eqn:Hp; [|discriminate].
    injection H as E1 E2. subst d' l. eapply DIS_p; eauto.
Qed.

Lemma DIS_init : forall c n prog, wf_prog n prog -> DIS c n (dinit n prog).
Proof.
  intros c n prog (W1 & W2 & W3). unfold DIS, dinit, dbase, xinit, init. cbn [xs base rp rwait].
  refine (conj _ (conj _ (conj _ (conj _ (conj _ (conj _ (conj _ _))))))).
  - unfold InvC; cbn [queues futs subm main ops closed ws ps outs]. rewrite repeat_length.
    split; [intros i Hi; apply W2; apply in_submits; auto|].
    split; [intros i []|]. split; [discriminate|]. split; [discriminate|].
    split; [discriminate|]. split; [discriminate|]. split; [congruence|]. split; [discriminate|]. reflexivity.
  - split; cbn [ops subm]; auto.
  - unfold RMs. simpl. repeat split; try discriminate; auto.
  - unfold SB. split; [|split; [|split; [|split]]].
    + unfold QS, C0, S0, T0, P0q, C1s, S1s, T1, P1s, JRs, TQ, dbase. simpl.
      repeat split; try discriminate; auto; try (intros; discriminate).
    + unfold LS, dbase. simpl. split; [intros j w E; destruct j; discriminate E|].
      repeat split; auto; try congruence.
    + unfold DG. simpl. repeat split; try discriminate; intros; discriminate.
    + intros w [].
    + unfold PQs. simpl. exact I.
  - unfold WIs, OW1, OW3, CH, D_fin, D_own. simpl. repeat split; try (intros x []; fail).
    + intros j j' w w' _ E. destruct j; discriminate E.
    + intros kk Hkk. lia.
  - intros i Hi. unfold pcx, pcnt, rcnt, dbase. simpl. unfold getf. simpl.
    assert (Hp : nth (i - 1) (repeat FPending n) FPending = FPending) by (apply repeat_nth; lia).
    rewrite Hp. repeat split; auto; try (intros; lia).
  - split; simpl; auto. apply nel_nil.
  - intros b j E. discriminate E.
Qed.

Lemma DIS_reach : forall c n prog d, dinner c = IStep -> StepLive.fits (dx c) -> nofail (bcfg (dx c)) ->
  wf_prog n prog -> dreach c (dinit n prog) d -> DIS c n d.
Proof.
  intros c n prog d Hs Hfit Hnf Hwf H. induction H as [|d t d' l Hr IH Hstep].
  - apply DIS_init; auto.
  - eapply DIS_step; eauto. eapply Inv4_reach; eauto.
Qed.


(* ====================== part 10 ====================== *)

(* ---------- stuck threads, per-call inner executor ---------- *)
Lemma r_stuckS : forall c d, dinner c = IStep -> r_step c d = None ->
  match rp d with
  | RNone | RDone | RDead => True
  | RCheck _ todo _ | RScan _ _ _ todo _ _ _ _ => todo = []
  | RRes _ todo _ => match todo with [] => True | j :: _ => fdone (getf (dbase d) j) = false end
  | RInPut _ j => j = 0
  | RInJoin _ => True
  | RInJoinD => ddone (disp (xs d)) = false
  | RInQJoin => qunf (getq (dbase d) 1) <> 0
  | RQJoin0 => qunf (getq (dbase d) 0) <> 0
  | _ => False
  end.
Proof.
  intros c d Hs H. unfold r_step in H. cbv zeta in H. rewrite Hs in H.
  destruct (rp d); auto; destr_all H; try discriminate H; auto.
  - apply Nat.eqb_neq; assumption.
  - apply Nat.eqb_neq; assumption.
Qed.

Lemma dm_stuckS : forall c d, dinner c = IStep -> dm_step c d = None ->
  match main (dbase d) with
  | MBegin | MStart _ => False
  | MJoin _ => rdone (rp d) = false
  | MOp => match ops (dbase d) with
           | OResult i :: _ => fdone (getf (dbase d) i) = false
           | [] => True
           | _ => False
           end
  | MPutShut _ 0 => True
  | MQJoin => qunf (getq (dbase d) 0) <> 0
  | MEnd => True
  | _ => False
  end.
Proof.
  intros c d Hk H. unfold dm_step in H. cbv zeta in H. rewrite Hk in H. unfold dbase.
  destruct (main (base (xs d))) eqn:Hm.
  - discriminate H.
  - destruct k; discriminate H.
  - destruct (xm_step (dx c) (xs d)) as [[x' l']|] eqn:Hx; [discriminate|]. unfold xm_step in Hx. cbv zeta in Hx.
    rewrite Hm in Hx. destruct (ops (base (xs d))) as [|o t]; auto. destruct o as [i|i|i|w b| |]; try discriminate Hx.
    + destruct (fcancel (getf (base (xs d)) i)); discriminate Hx.
    + destruct (fdone (getf (base (xs d)) i)); [discriminate Hx|reflexivity].
    + destruct b; [|discriminate Hx]. destruct (drain_step (base (xs d)) w) as [[b0 l0]|]; discriminate Hx.
  - destruct (xm_step (dx c) (xs d)) as [[x' l']|] eqn:Hx; [discriminate|]. unfold xm_step in Hx. cbv zeta in Hx.
    rewrite Hm in Hx. destruct (drain_step (base (xs d)) w) as [[b0 l0]|]; discriminate Hx.
  - destruct (xm_step (dx c) (xs d)) as [[x' l']|] eqn:Hx; [discriminate|]. unfold xm_step in Hx. cbv zeta in Hx.
    rewrite Hm in Hx. destruct (fcancel (getf (base (xs d)) j)); discriminate Hx.
  - destruct (xm_step (dx c) (xs d)) as [[x' l']|] eqn:Hx; [discriminate|]. unfold xm_step in Hx. cbv zeta in Hx.
    rewrite Hm in Hx. discriminate Hx.
  - destruct (xm_step (dx c) (xs d)) as [[x' l']|] eqn:Hx; [discriminate|]. unfold xm_step in Hx. cbv zeta in Hx.
    rewrite Hm in Hx. destruct k; [exact I|discriminate Hx].
  - destruct (rdone (rp d)) eqn:Hr; [|reflexivity]. destruct (rp d); discriminate.
  - destruct (xm_step (dx c) (xs d)) as [[x' l']|] eqn:Hx; [discriminate|]. unfold xm_step in Hx. cbv zeta in Hx.
    rewrite Hm in Hx. destruct (Nat.eqb (qunf (getq (base (xs d)) 0)) 0) eqn:He; [discriminate Hx|].
    apply Nat.eqb_neq; assumption.
  - exact I.
Qed.

Lemma d_stuck : forall c x, d_step c 1 x = None ->
  match disp x with
  | DNone | DDone | DDead | DSpin _ => True
  | DGet => qitems (getq (base x) 1) = []
  | DScan _ todo _ => todo = []
  | DSJoin k => match nth_error (ws (base x)) k with Some wt => wdone wt = false | None => True end
  | DSQJoin => qunf (getq (base x) 1) <> 0
  | _ => False
  end.
Proof.
  intros c x H. unfold d_step in H. cbv zeta in H.
  destruct (disp x); auto; destr_all H; try discriminate H; auto.
  apply Nat.eqb_neq; assumption.
Qed.

Lemma dstuck_workersS : forall c n d, DIS c n d ->
  (forall t, In t (dtids d) -> dstep c d t = None) ->
  forall w, In w (ws (dbase d)) -> wp w = WDone.
Proof.
  intros c n d (HC & HN & HRM & HSB & HW & HE & HJ & HM) Hst w Hw.
  destruct HW as (Ho1 & Ho3 & HCH & Hbad & Hfin & Hown).
  destruct HSB as (HQ & HL & HG & HLW & HP).
  assert (HPs : forall kk p, nth_error (ps (dbase d)) kk = Some p ->
             match pp p with PRecv => inbox p = [] | PExit => True | _ => False end).
  { intros kk p Hk. eapply (p_stuck (bcfg (dx c))); eauto.
    assert (Hs : dstep c d (TP (S kk)) = None) by (apply Hst; apply dtid_p; eapply nth_error_some_lt; eauto).
    unfold dstep in Hs. destruct (p_step (bcfg (dx c)) (dbase d) (S kk)) as [[b l]|]; [discriminate Hs|reflexivity]. }
  pose proof Hw as Hw'. apply In_nth_error in Hw'. destruct Hw' as [j Hj].
  assert (Hws : w_step (bcfg (dx c)) (dbase d) j = None).
  { assert (Hs : dstep c d (TW (S j)) = None) by (apply Hst; apply dtid_w; eapply nth_error_some_lt; eauto).
    unfold dstep in Hs. destruct (w_step (bcfg (dx c)) (dbase d) j) as [[b l]|]; [discriminate Hs|reflexivity]. }
  pose proof (w_stuck _ _ _ _ Hj Hws) as Hs.
  pose proof (Hbad w Hw) as Hb. destruct (HLW w Hw) as [Hl1 Hl2].
  assert (Hc : chan_ok (bcfg (dx c)) w (getp (dbase d) (wproc w)) = true).
  { pose proof (HCH w Hw) as Hc. unfold chanS in Hc. apply andb_true_iff in Hc. tauto. }
  pose proof (Ho1 w Hw) as Ho. unfold spawnedb in Ho. unfold w_holds in Hl2.
  destruct (wp w) eqn:Hpc; simpl in Hb; try discriminate Hb; try contradiction; auto.
  - exfalso. simpl in Hl1. rewrite Hs in Hl1. destruct Hl1 as [[b E]|[i [b E]]]; discriminate E.
  - exfalso. unfold chan_ok in Hc. rewrite Hpc in Hc.
    eapply serving_enabled; eauto. eapply HPs. apply getp_nth_error; lia.
  - exfalso. unfold chan_ok in Hc. rewrite Hpc in Hc.
    eapply serving_enabled; eauto. eapply HPs. apply getp_nth_error; lia.
  - exfalso. rewrite (chan_comm _ _ _ Hc) in Hs. discriminate. left. eauto.
  - exfalso. rewrite (chan_comm _ _ _ Hc) in Hs. discriminate. right. auto.
  - exfalso. simpl in Hl1. rewrite Hl1 in Hl2. simpl in Hl2. apply Hs. exact Hl2.
Qed.

Lemma pqs_empty : forall d, LS d -> LW d -> main (dbase d) <> MBegin -> prep (disp (xs d)) = 0 ->
  (forall w, In w (ws (dbase d)) -> wp w = WDone) -> pqs (queues (dbase d)) = [].
Proof.
  intros d (L1 & L2 & L3 & L4 & L5) HLW Hmb Hpr Hwd. specialize (L4 Hmb). rewrite Hpr in L4.
  unfold pqs. apply StepLive.allq_empty. intros q Hq. rewrite skipn_length in Hq.
  unfold StepSafe.dq. rewrite nth_skipn2.
  assert (Hqw : q < length (ws (dbase d))) by lia.
  destruct (nth_error (ws (dbase d)) q) as [w|] eqn:Ew; [|apply nth_error_None in Ew; lia].
  pose proof (nth_error_In _ _ Ew) as Hin. destruct (HLW w Hin) as [A _].
  rewrite (Hwd w Hin) in A. simpl in A. rewrite (L1 q w Ew) in A. exact A.
Qed.

Lemma dstuck_shapeS : forall c n d, dinner c = IStep -> DIS c n d -> WLD d -> Inv4 c n d ->
  (forall t, In t (dtids d) -> dstep c d t = None) ->
  rp d = RDone /\ main (dbase d) = MEnd /\ disp (xs d) = DDone /\
  (forall w, In w (ws (dbase d)) -> wp w = WDone) /\ (forall i, pcx d i + rcnt d i = 0).
Proof.
  intros c n d Hs HD HWL H4 Hst.
  pose proof (dstuck_workersS _ _ _ HD Hst) as Hwd.
  destruct HD as (HC & HN & HRM & HSB & HW & HE & HJ & HM).
  destruct HSB as (HQ & HL & HG & HLW & HP).
  destruct HQ as (HC0 & HS0 & HT0 & HP0 & HC1 & HS1 & HT1 & HP1 & [HJa HJb]).
  destruct HRM as (Hrm1 & Hrm2). pose proof HL as (L1 & L2 & L3 & L4 & L5). destruct HG as (G1 & G2 & G3 & G4).
  pose proof (dm_stuckS c d Hs (Hst TM ltac:(left; reflexivity))) as Hm.
  pose proof (r_stuckS c d Hs (Hst TR ltac:(right; left; reflexivity))) as Hr.
  assert (Hd : d_step (dx c) 1 (xs d) = None).
  { pose proof (Hst TD ltac:(right; right; left; reflexivity)) as Hd. unfold dstep in Hd. rewrite Hs in Hd.
    destruct (d_step (dx c) 1 (xs d)) as [[x' l']|]; [discriminate Hd|reflexivity]. }
  pose proof (d_stuck _ _ Hd) as Hds.
  assert (Hmb : main (dbase d) <> MBegin /\ forall j, main (dbase d) <> MStart j).
  { split; [intros E|intros j E]; rewrite E in Hm; exact Hm. }
  specialize (L4 (proj1 Hmb)).
  assert (Hmh : m_holds (dbase d) = 0).
  { unfold m_holds. destruct (main (dbase d)); try contradiction; reflexivity. }
  assert (Hrn : rp d <> RNone).
  { intros E. apply Hrm1 in E. destruct E as [E|[j E]]; [apply (proj1 Hmb E)|apply (proj2 Hmb j E)]. }
  destruct HJ as [HJ1 HJ2].
  (* the resolver is stuck only in a few program counters *)
  assert (Hrcase : rp d = RDone \/ rp d = RInJoinD \/ rp d = RInQJoin \/ rp d = RQJoin0).
  { destruct (rp d) eqn:Hrp; simpl in HJ2; try contradiction; try congruence; auto.
    - destruct HJ2 as [HJ2 _]. contradiction.
    - destruct HJ2 as (A & B & _). destruct todo as [|j rest]; [contradiction|].
      rewrite (B j) in Hr by (left; reflexivity). discriminate Hr.
    - destruct HJ2 as (_ & _ & A & _). contradiction.
    - specialize (HJb _ _ eq_refl). lia. }
  assert (Hsp : sp1 1 (rp d) = 1) by (destruct Hrcase as [E|[E|[E|E]]]; rewrite E; reflexivity).
  assert (Hq1e : d_past (disp (xs d)) = 1 -> qitems (getq (dbase d) 1) = []).
  { intros Hp. pose proof (HP1 Hp) as Hsh. apply forallb_count in Hsh.
    unfold S1s in HS1. rewrite Hp, Hsp in HS1. destruct (qitems (getq (dbase d) 1)); auto. simpl in Hsh. lia. }
  assert (Hdd : disp (xs d) = DDone).
  { destruct (disp (xs d)) eqn:Hdp; try contradiction; auto.
    - exfalso. assert (E : main (dbase d) = MBegin \/ main (dbase d) = MStart 0) by (apply L5; reflexivity).
      destruct E as [E|E]; [apply (proj1 Hmb E)|apply (proj2 Hmb 0 E)].
    - exfalso. unfold S1s, dbase in HS1. rewrite ?Hdp in HS1. rewrite Hds, Hsp in HS1. simpl in HS1. lia.
    - exfalso. apply (G1 _ _ _ eq_refl). exact Hds.
    - exfalso. apply (G2 i). reflexivity.
    - exfalso. specialize (G4 _ eq_refl). rewrite L2 in G4.
      destruct (nth_error (ws (base (xs d))) k) as [wt|] eqn:Hk; [|apply nth_error_None in Hk; unfold dbase in G4; lia].
      pose proof (Hwd wt (nth_error_In _ _ Hk)) as E. unfold wdone in Hds. rewrite E in Hds. discriminate Hds.
    - exfalso. pose proof (Hq1e ltac:(rewrite ?Hdp; reflexivity)) as E. unfold C1s in HC1. unfold dbase in *.
      rewrite ?Hdp in HC1. rewrite E in HC1. simpl in HC1. apply Hds. exact HC1. }
  rewrite Hdd in *.
  pose proof (Hq1e eq_refl) as Hq1.
  assert (Hu1 : qunf (getq (dbase d) 1) = 0).
  { unfold C1s in HC1. rewrite Hq1, ?Hdd in HC1. simpl in HC1. exact HC1. }
  assert (Hpast0 : r_past0 (rp d) = 1 -> qitems (getq (dbase d) 0) = []).
  { intros Hp. pose proof (HP0 Hp) as Hsh. apply forallb_count in Hsh.
    unfold S0 in HS0. rewrite Hp in HS0. pose proof (shuts_put_le (bcfg (dx c)) (dbase d)) as Hle. simpl in Hle.
    destruct (qitems (getq (dbase d) 0)); auto. simpl in Hsh. lia. }
  assert (Hrd : rp d = RDone).
  { destruct Hrcase as [E|[E|[E|E]]]; auto; exfalso; rewrite E in *.
    - simpl in Hr. discriminate Hr.
    - apply Hr. exact Hu1.
    - pose proof (Hpast0 eq_refl) as H0. unfold C0 in HC0. rewrite E, H0, Hmh in HC0. simpl in HC0.
      apply Hr. exact HC0. }
  pose proof (Hpast0 ltac:(rewrite Hrd; reflexivity)) as Hq0.
  assert (Hu0 : qunf (getq (dbase d) 0) = 0).
  { unfold C0 in HC0. rewrite Hq0, Hmh, Hrd in HC0. simpl in HC0. exact HC0. }
  assert (Hrw : rwait d = []) by (apply HWL; unfold r_in_inner_shutdown; rewrite Hrd; reflexivity).
  assert (Hpq : pqs (queues (dbase d)) = []).
  { apply pqs_empty; auto. apply Hmb. rewrite Hdd. reflexivity. }
  assert (Hcz : forall i, pcx d i + rcnt d i = 0).
  { intros i.
    assert (Z : pcnt d i + rcnt d i = 0).
    { apply (cnt_zero_quiet d i Hq0 Hq1 (fun w Hw => or_intror (Hwd w Hw)) Hrd Hrw).
      intros b j E. rewrite E in Hm. exact Hm. }
    unfold pcx. rewrite Hpq, ?Hdd. simpl. rewrite count_nil. lia. }
  pose proof HC as (C1' & C2 & C3 & C4 & C5 & C6 & C7 & C8 & C9).
  assert (Hend : main (dbase d) = MEnd).
  { destruct (main (dbase d)) eqn:Hmain; try contradiction; auto.
    - specialize (C3 eq_refl). destruct (ops (dbase d)) as [|o t]; [exfalso; exact C3|].
      destruct o as [i|i|i|w b| |]; try contradiction. simpl in C3.
      pose proof (C2 i C3) as Hi. rewrite (i4_len _ _ _ H4) in Hi.
      destruct (HE i Hi) as (_ & E2 & _). exfalso. destruct E2 as [E2|[E2|E2]].
      + unfold getf in Hm. rewrite E2 in Hm. discriminate Hm.
      + contradiction.
      + rewrite Hcz in E2. discriminate E2.
    - destruct k; [|contradiction]. specialize (C5 _ _ eq_refl). lia.
    - rewrite Hrd in Hm. discriminate Hm. }
  repeat split; auto.
Qed.


(* ====================== part 11 ====================== *)

Theorem dep_rest_state_step : forall c n prog d,
  dinner c = IStep -> StepLive.fits (dx c) -> (forall i, xraises (dx c) i = false) ->
  wf_prog n prog -> wf_deps c n -> dreach c (dinit n prog) d -> drest_ok_b c d = true.
Proof.
  intros c n prog d Hs Hfit Hnf Hwf _ Hr. unfold drest_ok_b.
  destruct (denabled c d) as [|t0 ts] eqn:He; [|reflexivity].
  assert (Hnf' : nofail (bcfg (dx c))) by (intros i; apply Hnf).
  pose proof (DIS_reach _ _ _ _ Hs Hfit Hnf' Hwf Hr) as HD.
  pose proof (Inv4_reach _ _ _ _ Hwf Hr) as H4.
  pose proof (WLD_reach _ _ _ _ Hr) as HWL.
  destruct (dstuck_shapeS _ _ _ Hs HD HWL H4 (dstuck_all _ _ He)) as (Hrd & Hend & Hdd & Hwd & Hcz).
  destruct HD as (HC & HN & HRM & HSB & HW & HE & HJ & HM).
  destruct HW as (Ho1 & Ho3 & HCH & Hbad & Hfin & Hown).
  rewrite Hend, Hrd. simpl.
  repeat (apply andb_true_iff; split); auto.
  - apply forallb_forall. intros i Hi. destruct HC as (_ & C2 & _).
    pose proof (C2 i Hi) as Hr'. rewrite (i4_len _ _ _ H4) in Hr'.
    destruct (HE i Hr') as (_ & E2 & _). destruct E2 as [E2|[E2|E2]]; auto; try contradiction.
    rewrite Hcz in E2. discriminate E2.
  - apply forallb_forall. intros p Hp. apply In_nth_error in Hp. destruct Hp as [kk Hkk].
    pose proof (nth_error_some_lt _ _ _ _ Hkk) as Hlt.
    destruct (Hown kk Hlt) as [w [Hw1 Hw2]].
    assert (Hf : wfin w = true) by (unfold wfin; rewrite (Hwd w Hw1); reflexivity).
    pose proof (Hfin w Hw1 Hf) as Ha. rewrite Hw2 in Ha. unfold getp in Ha.
    replace (S kk - 1) with kk in Ha by lia. rewrite (nth_error_nth' _ _ _ _ _ Hkk) in Ha. rewrite Ha. reflexivity.
  - apply forallb_forall. intros w Hw. unfold wdone. rewrite (Hwd w Hw). reflexivity.
Qed.
Print Assumptions dep_rest_state_step.

Theorem resolver_not_dead_step : forall c n prog d,
  dinner c = IStep -> StepLive.fits (dx c) -> (forall i, xraises (dx c) i = false) -> wf_prog n prog ->
  dreach c (dinit n prog) d -> rp d <> RDead.
Proof.
  intros c n prog d Hs Hfit Hnf Hwf Hr.
  assert (Hnf' : nofail (bcfg (dx c))) by (intros i; apply Hnf).
  destruct (DIS_reach _ _ _ _ Hs Hfit Hnf' Hwf Hr) as (_ & _ & (_ & H) & _). exact H.
Qed.
Print Assumptions resolver_not_dead_step.

Theorem dispatcher_not_spinning_step : forall c n prog d,
  dinner c = IStep -> StepLive.fits (dx c) -> (forall i, xraises (dx c) i = false) -> wf_prog n prog ->
  dreach c (dinit n prog) d -> (forall i, disp (xs d) <> DSpin i) /\ disp (xs d) <> DDead.
Proof.
  intros c n prog d Hs Hfit Hnf Hwf Hr.
  assert (Hnf' : nofail (bcfg (dx c))) by (intros i; apply Hnf).
  destruct (DIS_reach _ _ _ _ Hs Hfit Hnf' Hwf Hr) as (_ & _ & _ & (_ & _ & (_ & G2 & G3 & _) & _) & _).
  split; assumption.
Qed.
Print Assumptions dispatcher_not_spinning_step.
