(* C20: facts about the plot-mode model (Model/Plot.v). *)
From Coq Require Import List Bool Arith String.
From EL Require Import Model.Plot.
Import ListNotations.
Local Open Scope string_scope.

(* repeated identical calls: one box for two submitted calls (finding D15) *)
Lemma identical_calls_one_box :
  let calls := [mkPC "f" [AVal 1] []; mkPC "f" [AVal 1] []] in
  match graph calls with Some g => count_boxes g = 1 | None => False end.
Proof. vm_compute. reflexivity. Qed.

(* ... and a later use of the first call's future raises KeyError *)
Lemma displaced_future_keyerror :
  graph [mkPC "f" [AVal 1] []; mkPC "f" [AVal 1] []; mkPC "g" [AFut 1] []] = None.
Proof. vm_compute. reflexivity. Qed.
