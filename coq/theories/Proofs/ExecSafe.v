(* Safety invariants of the block-executor model (Model/Exec.v), for all programs.
   Main results: safe_reach, fidelity, body_needs_running, cancelled_stays,
   one_request_at_a_time, worker_keeps_process.  The inductive invariant is the record [Inv]
   (it includes the auxiliary ops/subm invariant I_sub1, I_sub2, I_len and two
   strengthenings: chan2 and I_ow4). *)
From Coq Require Import List Bool Arith Lia.
From EL Require Import Model.Exec Model.ExecInv.
Import ListNotations.

(* ------------------------------------------------------------------ *)

(* ================= generic list helpers ================= *)
Definition b2n (b : bool) : nat := if b then 1 else 0.

Lemma upd_length : forall A (l : list A) n x, length (upd l n x) = length l.
Proof.
  intros A l; induction l as [|a l IH]; intros n x; simpl; [reflexivity|].
  destruct n as [|n]; simpl; [reflexivity|]. now rewrite IH.
Qed.

Lemma nth_error_upd_same : forall A (l : list A) n x y,
  nth_error l n = Some y -> nth_error (upd l n x) n = Some x.
Proof.
  intros A l; induction l as [|a l IH]; intros n x y H; destruct n as [|n]; simpl in *; try discriminate.
  - reflexivity.
  - eapply IH; eauto.
Qed.

Lemma nth_error_upd_other : forall A (l : list A) n m x,
  n <> m -> nth_error (upd l n x) m = nth_error l m.
Proof.
  intros A l; induction l as [|a l IH]; intros n m x H; destruct n as [|n]; destruct m as [|m]; simpl in *;
    try reflexivity; try lia.
  apply IH; lia.
Qed.

Lemma nth_error_upd_inv : forall A (l : list A) n m x y,
  nth_error (upd l n x) m = Some y ->
  (m = n /\ y = x /\ exists z, nth_error l n = Some z) \/ (m <> n /\ nth_error l m = Some y).
Proof.
  intros A l n m x y H. destruct (Nat.eq_dec m n) as [E|E].
  - subst m. left. split; [reflexivity|].
    destruct (nth_error l n) as [z|] eqn:Hz.
    + rewrite (nth_error_upd_same _ _ _ _ _ Hz) in H. inversion H; subst. split; [reflexivity|]. now exists z.
    + exfalso. apply nth_error_None in Hz.
      assert (Hn : nth_error (upd l n x) n = None) by (apply nth_error_None; rewrite upd_length; exact Hz).
      congruence.
  - right. split; [exact E|]. rewrite nth_error_upd_other in H by lia. exact H.
Qed.

Lemma nth_upd_same : forall A (l : list A) n x d, n < length l -> nth n (upd l n x) d = x.
Proof.
  intros A l; induction l as [|a l IH]; intros n x d H; simpl in *; [lia|].
  destruct n as [|n]; simpl; [reflexivity|]. apply IH; lia.
Qed.

Lemma nth_upd_other : forall A (l : list A) n m x d, n <> m -> nth m (upd l n x) d = nth m l d.
Proof.
  intros A l; induction l as [|a l IH]; intros n m x d H; destruct n as [|n]; destruct m as [|m]; simpl in *;
    try reflexivity; try lia.
  apply IH; lia.
Qed.

Lemma upd_oob : forall A (l : list A) n x, length l <= n -> upd l n x = l.
Proof.
  intros A l; induction l as [|a l IH]; intros n x H; simpl in *; [reflexivity|].
  destruct n as [|n]; [lia|]. f_equal. apply IH; lia.
Qed.

Lemma upd_nil_iff : forall A (l : list A) n x, l <> [] -> upd l n x <> [].
Proof.
  intros A l n x H. destruct l as [|a l]; [congruence|]. destruct n; simpl; discriminate.
Qed.

Lemma nth_error_nth' : forall A (l : list A) n d x, nth_error l n = Some x -> nth n l d = x.
Proof.
  intros A l; induction l as [|a l IH]; intros n d x H; destruct n as [|n]; simpl in *; try discriminate.
  - now inversion H.
  - now apply IH.
Qed.

Lemma nth_error_app_l : forall A (l l' : list A) n x, nth_error l n = Some x -> nth_error (l ++ l') n = Some x.
Proof.
  intros A l l' n x H. rewrite nth_error_app1; [exact H|]. apply nth_error_Some. congruence.
Qed.

Lemma nth_error_snoc_inv : forall A (l : list A) a n x, nth_error (l ++ [a]) n = Some x ->
  (n < length l /\ nth_error l n = Some x) \/ (n = length l /\ x = a).
Proof.
  intros A l a n x H. destruct (Nat.lt_ge_cases n (length l)) as [L|L].
  - left. split; [exact L|]. now rewrite nth_error_app1 in H.
  - right. rewrite nth_error_app2 in H by exact L.
    destruct (n - length l) as [|d] eqn:Hd; simpl in H.
    + inversion H; subst. split; [lia|reflexivity].
    + destruct d; discriminate.
Qed.

(* ---- count ---- *)
Lemma count_cons : forall A (f : A -> bool) a l, count f (a :: l) = b2n (f a) + count f l.
Proof. intros A f a l. unfold count. simpl. destruct (f a); reflexivity. Qed.

Lemma count_nil : forall A (f : A -> bool), count f [] = 0.
Proof. reflexivity. Qed.

Lemma count_app : forall A (f : A -> bool) l1 l2, count f (l1 ++ l2) = count f l1 + count f l2.
Proof.
  intros A f l1 l2. induction l1 as [|a l1 IH]; [reflexivity|].
  simpl app. rewrite !count_cons, IH. lia.
Qed.

Lemma count_upd : forall A (f : A -> bool) l j x y, nth_error l j = Some y ->
  count f (upd l j x) + b2n (f y) = count f l + b2n (f x).
Proof.
  intros A f l; induction l as [|a l IH]; intros j x y H; destruct j as [|j]; simpl in *; try discriminate.
  - inversion H; subst. rewrite !count_cons. lia.
  - rewrite !count_cons. specialize (IH j x y H). lia.
Qed.

Lemma count_ge1 : forall A (f : A -> bool) l j y, nth_error l j = Some y -> f y = true -> 1 <= count f l.
Proof.
  intros A f l; induction l as [|a l IH]; intros j y H Hf; destruct j as [|j]; simpl in *; try discriminate.
  - inversion H; subst. rewrite count_cons, Hf. simpl. lia.
  - rewrite count_cons. specialize (IH j y H Hf). lia.
Qed.

Lemma count_ge2 : forall A (f : A -> bool) l j1 j2 y1 y2, j1 <> j2 ->
  nth_error l j1 = Some y1 -> nth_error l j2 = Some y2 -> f y1 = true -> f y2 = true -> 2 <= count f l.
Proof.
  intros A f l; induction l as [|a l IH]; intros j1 j2 y1 y2 Hne H1 H2 F1 F2;
    destruct j1 as [|j1]; destruct j2 as [|j2]; simpl in *; try discriminate; try lia.
  - inversion H1; subst. rewrite count_cons, F1. pose proof (count_ge1 _ f l j2 y2 H2 F2). simpl. lia.
  - inversion H2; subst. rewrite count_cons, F2. pose proof (count_ge1 _ f l j1 y1 H1 F1). simpl. lia.
  - rewrite count_cons. assert (2 <= count f l) by (eapply (IH j1 j2); eauto). lia.
Qed.

Lemma count_le1_inj : forall A (f : A -> bool) l j1 j2 y1 y2, count f l <= 1 ->
  nth_error l j1 = Some y1 -> nth_error l j2 = Some y2 -> f y1 = true -> f y2 = true -> j1 = j2.
Proof.
  intros A f l j1 j2 y1 y2 Hc H1 H2 F1 F2. destruct (Nat.eq_dec j1 j2) as [E|E]; [exact E|].
  pose proof (count_ge2 _ f l j1 j2 y1 y2 E H1 H2 F1 F2). lia.
Qed.

Lemma count_zero : forall A (f : A -> bool) l, (forall j x, nth_error l j = Some x -> f x = false) -> count f l = 0.
Proof.
  intros A f l; induction l as [|a l IH]; intros H; [reflexivity|].
  rewrite count_cons. rewrite (H 0 a eq_refl). rewrite IH; [reflexivity|].
  intros j x Hj. apply (H (S j) x Hj).
Qed.

Lemma count_ext : forall A (f g : A -> bool) l, (forall x, f x = g x) -> count f l = count g l.
Proof.
  intros A f g l H. induction l as [|a l IH]; [reflexivity|]. rewrite !count_cons, H, IH. reflexivity.
Qed.

Lemma count_split : forall A (f g h : A -> bool) l,
  (forall x, b2n (f x) = b2n (g x) + b2n (h x)) -> count f l = count g l + count h l.
Proof.
  intros A f g h l H. induction l as [|a l IH]; [reflexivity|]. rewrite !count_cons, H, IH. lia.
Qed.

Lemma count_le_length : forall A (f : A -> bool) l, count f l <= length l.
Proof.
  intros A f l. induction l as [|a l IH]; [simpl; unfold count; simpl; lia|].
  rewrite count_cons. simpl length. destruct (f a); simpl; lia.
Qed.

Lemma count_tl : forall A (f : A -> bool) a l, count f (tl (a :: l)) + b2n (f a) = count f (a :: l).
Proof. intros A f a l. simpl tl. rewrite count_cons. lia. Qed.

Lemma count_snoc : forall A (f : A -> bool) l a, count f (l ++ [a]) = count f l + b2n (f a).
Proof. intros A f l a. rewrite count_app, count_cons, count_nil. lia. Qed.

(* mem_nat / existsb *)
Lemma existsb_eqb_In : forall i l, existsb (Nat.eqb i) l = true <-> In i l.
Proof.
  intros i l. rewrite existsb_exists. split.
  - intros [x [Hx He]]. apply Nat.eqb_eq in He. now subst.
  - intros H. exists i. split; [exact H|]. apply Nat.eqb_refl.
Qed.

Lemma existsb_eqb_nIn : forall i l, existsb (Nat.eqb i) l = false <-> ~ In i l.
Proof.
  intros i l. rewrite <- existsb_eqb_In. destruct (existsb (Nat.eqb i) l); split; intros H; congruence.
Qed.

(* ================= model-specific definitions ================= *)
Definition spawnedb (w : wthread) : bool := match wp w with WBegin | WSpawn => false | _ => true end.
Definition procb (k : nat) (w : wthread) : bool := Nat.eqb (wproc w) (S k).
Definition callsb (i : nat) (w : wthread) : bool :=
  match w_call w with Some j => Nat.eqb i j | None => false end.
Definition taskb (i : nat) (it : item) : bool := match it with Task j => Nat.eqb i j | _ => false end.
Definition mdc (m : mpc) (i : nat) : nat :=
  match m with MDrainCancel _ j => if Nat.eqb i j then 1 else 0 | _ => 0 end.
Definition w_run (w : wthread) : option nat :=
  match wp w with
  | WSend i | WRecv i | WSetRes i _
  | WEPoll i | WESend i | WERecv i | WEComm i | WETerm i | WEWait i | WETd i | WESetExc i => Some i
  | _ => None
  end.
Definition runsb (i : nat) (w : wthread) : bool :=
  match w_run w with Some j => Nat.eqb i j | None => false end.
Definition srncb (i : nat) (w : wthread) : bool :=
  match wp w with WSrnc j => Nat.eqb i j | _ => false end.
Definition isrun (f : fstate) : bool := match f with FRunning => true | _ => false end.

(* strengthening of chan_ok: a worker that is past the request/reply exchange never has a
   process that is still executing a call *)
Definition chan2 (w : wthread) (p : proc) : bool :=
  match wp w with
  | WEComm _ | WETerm _ | WEWait _ | WETd _ | WESetExc _
  | WSComm _ | WSTerm _ | WSWait | WSTd | WSQJoin | WDone | WDead => negb (palive p) || p_idle p
  | _ => true
  end.
Definition chanS (c : cfg) (w : wthread) (p : proc) : bool := chan_ok c w p && chan2 w p.

Definition q0 (s : state) : list item := qitems (getq s 0).

Definition wc (s : state) (i : nat) : nat :=
  count (taskb i) (q0 s) + count (callsb i) (ws s) + mdc (main s) i.

Lemma where_count_eq : forall s i, where_count s i = wc s i.
Proof. reflexivity. Qed.

Lemma calls_split : forall i l, count (callsb i) l = count (runsb i) l + count (srncb i) l.
Proof.
  intros i l. apply count_split. intros w. unfold callsb, runsb, srncb, w_call, w_run.
  destruct (wp w); simpl; try reflexivity; destruct (Nat.eqb i _); reflexivity.
Qed.

Record Inv (c : cfg) (n : nat) (s : state) : Prop := mkInv {
  I_len : length (futs s) = n;
  I_q : queues s <> [];
  I_wq : forall j w, nth_error (ws s) j = Some w -> wq w = 0;
  I_nth : nthreads_ok c s = true;
  I_ow1 : forall j w, nth_error (ws s) j = Some w ->
            if spawnedb w then 1 <= wproc w <= length (ps s) else wproc w = 0;
  I_ow2 : count spawnedb (ws s) = length (ps s);
  I_ow3 : forall k, count (procb k) (ws s) <= 1;
  I_ow4 : forall k, k < length (ps s) -> 1 <= count (procb k) (ws s);
  I_chan : forall j w, nth_error (ws s) j = Some w -> chanS c w (getp s (wproc w)) = true;
  I_v1 : forall j w i v, nth_error (ws s) j = Some w -> wp w = WSetRes i v -> i = v;
  I_v2 : forall i v, 1 <= i -> getf s i = FRes v -> v = i;
  I_own1 : forall i, wc s i <= 1;
  I_own2 : forall i, fdone (getf s i) = false -> In i (subm s) -> wc s i = 1;
  I_own3 : forall i, wc s i <> 0 -> In i (subm s);
  I_run : forall i, 1 <= i <= n -> count (runsb i) (ws s) = b2n (isrun (getf s i));
  I_sub1 : NoDup (subm s ++ submits (ops s));
  I_sub2 : forall i, In i (subm s ++ submits (ops s)) -> 1 <= i <= n
}.

(* ================= settle / m_goto / m_norm ================= *)
Lemma settle_spec : forall l cl lk sub acc l' acc' pc,
  settle cl lk sub l acc = (l', acc', pc) ->
  (exists pre, l = pre ++ l') /\ (pc = MOp \/ pc = MEnd).
Proof.
  induction l as [|o t IH]; intros cl lk sub acc l' acc' pc H; simpl in H.
  - inversion H; subst. split; [exists []; reflexivity|now right].
  - assert (Hstay : (l', acc', pc) = (o :: t, acc, MOp) ->
                    (exists pre, o :: t = pre ++ l') /\ (pc = MOp \/ pc = MEnd)).
    { intros E. inversion E; subst. split; [exists []; reflexivity|now left]. }
    assert (Hgo : forall acc2, settle cl lk sub t acc2 = (l', acc', pc) ->
                    (exists pre, o :: t = pre ++ l') /\ (pc = MOp \/ pc = MEnd)).
    { intros acc2 E. destruct (IH _ _ _ _ _ _ _ E) as [[pre Hp] Hpc]. split; [|exact Hpc].
      exists (o :: pre). simpl. now rewrite Hp. }
    destruct o as [i|i|i|w0 c0| |].
    + destruct cl; [eapply Hgo; eauto|apply Hstay; now symmetry].
    + destruct (mem_nat i sub); [apply Hstay; now symmetry|eapply Hgo; eauto].
    + destruct (mem_nat i sub); [apply Hstay; now symmetry|eapply Hgo; eauto].
    + destruct cl; [eapply Hgo; eauto|apply Hstay; now symmetry].
    + destruct (cl || lk); [eapply Hgo; eauto|apply Hstay; now symmetry].
    + destruct cl; [eapply Hgo; eauto|apply Hstay; now symmetry].
Qed.

Lemma m_goto_queues : forall s l x cl, queues (m_goto s l x cl) = queues s.
Proof. intros. unfold m_goto. destruct (settle _ _ _ _ _) as [[l' a'] pc]. reflexivity. Qed.
Lemma m_goto_futs : forall s l x cl, futs (m_goto s l x cl) = futs s.
Proof. intros. unfold m_goto. destruct (settle _ _ _ _ _) as [[l' a'] pc]. reflexivity. Qed.
Lemma m_goto_subm : forall s l x cl, subm (m_goto s l x cl) = subm s.
Proof. intros. unfold m_goto. destruct (settle _ _ _ _ _) as [[l' a'] pc]. reflexivity. Qed.
Lemma m_goto_ws : forall s l x cl, ws (m_goto s l x cl) = ws s.
Proof. intros. unfold m_goto. destruct (settle _ _ _ _ _) as [[l' a'] pc]. reflexivity. Qed.
Lemma m_goto_ps : forall s l x cl, ps (m_goto s l x cl) = ps s.
Proof. intros. unfold m_goto. destruct (settle _ _ _ _ _) as [[l' a'] pc]. reflexivity. Qed.
Lemma m_goto_main : forall s l x cl, main (m_goto s l x cl) = MOp \/ main (m_goto s l x cl) = MEnd.
Proof.
  intros. unfold m_goto. destruct (settle _ _ _ _ _) as [[l' a'] pc] eqn:E.
  apply settle_spec in E. simpl. tauto.
Qed.
Lemma m_goto_ops : forall s l x cl, exists pre, l = pre ++ ops (m_goto s l x cl).
Proof.
  intros. unfold m_goto. destruct (settle _ _ _ _ _) as [[l' a'] pc] eqn:E.
  apply settle_spec in E. simpl. tauto.
Qed.

(* "plain" client program counters: all threads started, not holding a drained task *)
Definition plain (m : mpc) : Prop :=
  match m with MBegin | MStart _ | MDrainCancel _ _ => False | _ => True end.

Lemma plain_mdc : forall m i, plain m -> mdc m i = 0.
Proof. intros m i H. destruct m; simpl in *; tauto. Qed.

Lemma m_goto_plain : forall s l x cl, plain (main (m_goto s l x cl)).
Proof. intros. destruct (m_goto_main s l x cl) as [E|E]; rewrite E; exact I. Qed.

Lemma m_done_queues : forall s x cl, queues (m_done s x cl) = queues s.
Proof. intros. apply m_goto_queues. Qed.
Lemma m_done_futs : forall s x cl, futs (m_done s x cl) = futs s.
Proof. intros. apply m_goto_futs. Qed.
Lemma m_done_subm : forall s x cl, subm (m_done s x cl) = subm s.
Proof. intros. apply m_goto_subm. Qed.
Lemma m_done_ws : forall s x cl, ws (m_done s x cl) = ws s.
Proof. intros. apply m_goto_ws. Qed.
Lemma m_done_ps : forall s x cl, ps (m_done s x cl) = ps s.
Proof. intros. apply m_goto_ps. Qed.
Lemma m_done_plain : forall s x cl, plain (main (m_done s x cl)).
Proof. intros. apply m_goto_plain. Qed.
Lemma m_done_ops : forall s x cl, exists pre, ops s = pre ++ ops (m_done s x cl).
Proof.
  intros. unfold m_done. destruct (m_goto_ops s (tl (ops s)) x cl) as [pre Hp].
  destruct (ops s) as [|o t] eqn:E.
  - exists pre. exact Hp.
  - exists (o :: pre). simpl in *. now rewrite <- Hp.
Qed.

Lemma m_norm_queues : forall c s, queues (m_norm c s) = queues s.
Proof.
  intros c s. unfold m_norm. destruct (main s) as [| | | | | |w k|k| |]; try reflexivity.
  - destruct k; [|reflexivity]. destruct (cur_wait s); [destruct (Nat.eqb _ _); reflexivity|apply m_done_queues].
  - destruct (Nat.eqb _ _); reflexivity.
Qed.
Lemma m_norm_futs : forall c s, futs (m_norm c s) = futs s.
Proof.
  intros c s. unfold m_norm. destruct (main s) as [| | | | | |w k|k| |]; try reflexivity.
  - destruct k; [|reflexivity]. destruct (cur_wait s); [destruct (Nat.eqb _ _); reflexivity|apply m_done_futs].
  - destruct (Nat.eqb _ _); reflexivity.
Qed.
Lemma m_norm_subm : forall c s, subm (m_norm c s) = subm s.
Proof.
  intros c s. unfold m_norm. destruct (main s) as [| | | | | |w k|k| |]; try reflexivity.
  - destruct k; [|reflexivity]. destruct (cur_wait s); [destruct (Nat.eqb _ _); reflexivity|apply m_done_subm].
  - destruct (Nat.eqb _ _); reflexivity.
Qed.
Lemma m_norm_ws : forall c s, ws (m_norm c s) = ws s.
Proof.
  intros c s. unfold m_norm. destruct (main s) as [| | | | | |w k|k| |]; try reflexivity.
  - destruct k; [|reflexivity]. destruct (cur_wait s); [destruct (Nat.eqb _ _); reflexivity|apply m_done_ws].
  - destruct (Nat.eqb _ _); reflexivity.
Qed.
Lemma m_norm_ps : forall c s, ps (m_norm c s) = ps s.
Proof.
  intros c s. unfold m_norm. destruct (main s) as [| | | | | |w k|k| |]; try reflexivity.
  - destruct k; [|reflexivity]. destruct (cur_wait s); [destruct (Nat.eqb _ _); reflexivity|apply m_done_ps].
  - destruct (Nat.eqb _ _); reflexivity.
Qed.
Lemma m_norm_plain : forall c s, plain (main s) -> plain (main (m_norm c s)).
Proof.
  intros c s H. unfold m_norm. destruct (main s) as [| | | | | |w k|k| |] eqn:E; try (rewrite E; exact H).
  - destruct k; [|rewrite E; exact I].
    destruct (cur_wait s); [destruct (Nat.eqb _ _); exact I|apply m_done_plain].
  - destruct (Nat.eqb _ _); [exact I|rewrite E; exact I].
Qed.
Lemma m_norm_ops : forall c s, exists pre, ops s = pre ++ ops (m_norm c s).
Proof.
  intros c s. unfold m_norm.
  assert (Hs : exists pre, ops s = pre ++ ops s) by (exists []; reflexivity).
  destruct (main s) as [| | | | | |w k|k| |]; try exact Hs.
  - destruct k; [|exact Hs]. destruct (cur_wait s); [destruct (Nat.eqb _ _); exact Hs|apply m_done_ops].
  - destruct (Nat.eqb _ _); exact Hs.
Qed.

#[export] Hint Rewrite m_goto_queues m_goto_futs m_goto_subm m_goto_ws m_goto_ps
  m_done_queues m_done_futs m_done_subm m_done_ws m_done_ps
  m_norm_queues m_norm_futs m_norm_subm m_norm_ws m_norm_ps : flds.

(* ================= getf / getq / getp under updates ================= *)
Lemma getq_upd0 : forall (qs : list queue) x d, qs <> [] -> nth 0 (upd qs 0 x) d = x.
Proof. intros qs x d H. destruct qs; [congruence|reflexivity]. Qed.

Lemma submits_app : forall l1 l2, submits (l1 ++ l2) = submits l1 ++ submits l2.
Proof.
  induction l1 as [|o l1 IH]; intros l2; [reflexivity|].
  destruct o; simpl; rewrite IH; reflexivity.
Qed.

Lemma NoDup_app_drop_mid : forall A (a b c : list A), NoDup (a ++ b ++ c) -> NoDup (a ++ c).
Proof.
  intros A a b c. induction b as [|x b IH]; intros H; [exact H|].
  apply IH. simpl in H. eapply NoDup_remove_1; eauto.
Qed.

(* ------------------------------------------------------------------ *)

Ltac inv_split H :=
  destruct H as [Hlen Hq Hwq Hnth Ho1 Ho2 Ho3 Ho4 Hch Hv1 Hv2 Hw1 Hw2 Hw3 Hrun Hs1 Hs2];
  constructor; unfold getp, getf, wc, q0, getq in *;
  cbn [queues futs subm main ops closed ws ps outs] in *; try assumption.

Definition started (m : mpc) : Prop := match m with MBegin | MStart _ => False | _ => True end.

Lemma started_nth : forall c s, started (main s) ->
  nthreads_ok c s = Nat.eqb (length (ws s)) (nworkers c).
Proof. intros c s H. unfold nthreads_ok. destruct (main s); simpl in H; try tauto; reflexivity. Qed.

Lemma plain_started : forall m, plain m -> started m.
Proof. intros m H. destruct m; simpl in *; tauto. Qed.

Lemma inv_control : forall c n s s',
  Inv c n s -> queues s' = queues s -> futs s' = futs s -> subm s' = subm s -> ws s' = ws s -> ps s' = ps s ->
  nthreads_ok c s' = true -> (forall i, mdc (main s') i = mdc (main s) i) ->
  (exists pre, submits (ops s) = pre ++ submits (ops s')) -> Inv c n s'.
Proof.
  intros c n s s' H Eq Ef Es Ew Ep Hn Hm [pre Hpre].
  inv_split H; rewrite ?Eq, ?Ef, ?Es, ?Ew, ?Ep; try assumption.
  - intros i. rewrite Hm. apply Hw1.
  - intros i. rewrite Hm. apply Hw2.
  - intros i. rewrite Hm. apply Hw3.
  - rewrite Hpre in Hs1. eapply NoDup_app_drop_mid; eauto.
  - intros i Hi. apply Hs2. rewrite Hpre. apply in_app_or in Hi. apply in_or_app.
    destruct Hi as [Hi|Hi]; [now left|right]. apply in_or_app. now right.
Qed.

(* ---- K2: a worker thread is started ---- *)
Lemma inv_start : forall c n s k m',
  Inv c n s -> main s = MStart k ->
  nthreads_ok c (mkS (queues s) (futs s) (subm s) m' (ops s) (closed s) (ws s ++ [mkW 0 0 WBegin]) (ps s) (outs s)) = true ->
  (forall i, mdc m' i = 0) ->
  Inv c n (mkS (queues s) (futs s) (subm s) m' (ops s) (closed s) (ws s ++ [mkW 0 0 WBegin]) (ps s) (outs s)).
Proof.
  intros c n s k m' H Hm Hn Hm'.
  inv_split H.
  - intros j w Hj. apply nth_error_snoc_inv in Hj as [[_ Hj]|[_ Hj]]; [exact (Hwq j w Hj)|subst; reflexivity].
  - intros j w Hj. apply nth_error_snoc_inv in Hj as [[_ Hj]|[_ Hj]]; [exact (Ho1 j w Hj)|subst; reflexivity].
  - rewrite count_snoc. simpl. lia.
  - intros k0. rewrite count_snoc. specialize (Ho3 k0). simpl. lia.
  - intros k0 Hk0. rewrite count_snoc. specialize (Ho4 k0 Hk0). lia.
  - intros j w Hj. apply nth_error_snoc_inv in Hj as [[_ Hj]|[_ Hj]]; [exact (Hch j w Hj)|subst; reflexivity].
  - intros j w i v Hj Hp. apply nth_error_snoc_inv in Hj as [[_ Hj]|[_ Hj]]; [exact (Hv1 j w i v Hj Hp)|subst; discriminate].
  - intros i. specialize (Hw1 i). rewrite Hm in Hw1. rewrite count_snoc, Hm'. simpl in *. lia.
  - intros i F Hi. specialize (Hw2 i F Hi). rewrite Hm in Hw2. rewrite count_snoc, Hm'. simpl in *. lia.
  - intros i Hi. apply Hw3. rewrite Hm. rewrite count_snoc, Hm' in Hi. simpl in *. lia.
  - intros i Hi. rewrite count_snoc. rewrite <- (Hrun i Hi). simpl. lia.
Qed.

Lemma nthreads_started : forall c s s', nthreads_ok c s = true -> started (main s) -> started (main s') ->
  ws s' = ws s -> nthreads_ok c s' = true.
Proof.
  intros c s s' H S1 S2 E. rewrite started_nth in H by exact S1. rewrite started_nth by exact S2.
  now rewrite E.
Qed.

(* ---- K3: submit ---- *)
Lemma inv_submit : forall c n s i rest qu,
  Inv c n s -> main s = MOp -> ops s = OSubmit i :: rest ->
  Inv c n (mkS (upd (queues s) 0 (mkQ (q0 s ++ [Task i]) qu)) (futs s) (subm s ++ [i]) MOp rest
               (closed s) (ws s) (ps s) (outs s)).
Proof.
  intros c n s i rest qu H Hm Ho.
  assert (Hn : nthreads_ok c (mkS (upd (queues s) 0 (mkQ (q0 s ++ [Task i]) qu)) (futs s) (subm s ++ [i]) MOp rest
               (closed s) (ws s) (ps s) (outs s)) = true).
  { eapply nthreads_started; [apply (I_nth _ _ _ H)|rewrite Hm; exact I|exact I|reflexivity]. }
  inv_split H.
  all: rewrite ?getq_upd0 by assumption; cbn [qitems].
  all: set (Q := qitems (nth 0 (queues s) {| qitems := []; qunf := 0 |})) in *.
  all: rewrite Ho in Hs1, Hs2; simpl in Hs1, Hs2.
  all: assert (Hni : ~ In i (subm s))
    by (apply NoDup_remove_2 in Hs1; intro Hx; apply Hs1; apply in_or_app; now left).
  all: assert (Hz : count (taskb i) Q + count (callsb i) (ws s) + mdc (main s) i = 0)
    by (destruct (Nat.eq_dec (count (taskb i) Q + count (callsb i) (ws s) + mdc (main s) i) 0) as [E|E];
        [exact E|exfalso; apply Hni, Hw3; exact E]).
  all: rewrite Hm in *; simpl mdc in *.
  - apply upd_nil_iff. exact Hq.
  - intros i0. rewrite count_snoc. simpl. specialize (Hw1 i0).
    destruct (Nat.eqb i0 i) eqn:E; simpl; [apply Nat.eqb_eq in E; subst i0|]; lia.
  - intros i0 F Hi. rewrite count_snoc. simpl.
    destruct (Nat.eqb i0 i) eqn:E; simpl; [apply Nat.eqb_eq in E; subst i0; lia|].
    apply Nat.eqb_neq in E. apply in_app_or in Hi. destruct Hi as [Hi|[Hi|[]]]; [|congruence].
    specialize (Hw2 i0 F Hi). lia.
  - intros i0 Hi. rewrite count_snoc in Hi. simpl in Hi. apply in_or_app.
    destruct (Nat.eqb i0 i) eqn:E; simpl in Hi; [apply Nat.eqb_eq in E; subst i0; right; now left|].
    left. apply Hw3. lia.
  - rewrite <- app_assoc. exact Hs1.
  - intros i0 Hi. rewrite <- app_assoc in Hi. apply Hs2. exact Hi.
Qed.

(* ---- futures updated by Future.cancel ---- *)
Lemma nth_upd_cases : forall A (l : list A) a b x d,
  (a = b /\ b < length l /\ nth a (upd l b x) d = x) \/
  ((a <> b \/ length l <= b) /\ nth a (upd l b x) d = nth a l d).
Proof.
  intros A l a b x d. destruct (Nat.eq_dec a b) as [E|E].
  - subst a. destruct (Nat.lt_ge_cases b (length l)) as [L|L].
    + left. repeat split; [exact L|]. now apply nth_upd_same.
    + right. split; [now right|]. rewrite upd_oob by exact L. reflexivity.
  - right. split; [now left|]. apply nth_upd_other. lia.
Qed.

Lemma cancel_nth : forall (fs : list fstate) i i0,
  let f' := fst (fcancel (nth (i - 1) fs FPending)) in
  let g := nth (i0 - 1) (upd fs (i - 1) f') FPending in
  let g0 := nth (i0 - 1) fs FPending in
  isrun g = isrun g0 /\ (fdone g0 = true -> fdone g = true) /\ (forall v, g = FRes v -> g0 = FRes v) /\
  (i0 - 1 = i - 1 -> i - 1 < length fs -> g0 <> FRunning -> fdone g = true).
Proof.
  intros fs i i0 f' g g0.
  destruct (nth_upd_cases _ fs (i0 - 1) (i - 1) f' FPending) as [(E & L & Hn)|(E & Hn)];
    fold g in Hn; rewrite Hn.
  - unfold f'. rewrite <- E. fold g0. destruct g0; simpl; repeat split; try congruence; try discriminate.
  - fold g0. repeat split; try congruence.
    intros E2 L Hr. destruct E as [E|E]; [congruence|lia].
Qed.

(* ---- K4: cancel by the client ---- *)
Lemma inv_cancel : forall c n s i,
  Inv c n s -> main s = MOp ->
  Inv c n (mkS (queues s) (upd (futs s) (i - 1) (fst (fcancel (nth (i - 1) (futs s) FPending))))
               (subm s) MOp (ops s) (closed s) (ws s) (ps s) (outs s)).
Proof.
  intros c n s i H Hm.
  assert (Hn : nthreads_ok c (mkS (queues s) (upd (futs s) (i - 1) (fst (fcancel (nth (i - 1) (futs s) FPending))))
               (subm s) MOp (ops s) (closed s) (ws s) (ps s) (outs s)) = true).
  { eapply nthreads_started; [apply (I_nth _ _ _ H)|rewrite Hm; exact I|exact I|reflexivity]. }
  inv_split H.
  all: rewrite Hm in *; try assumption.
  - rewrite upd_length. exact Hlen.
  - intros i0 v L E. destruct (cancel_nth (futs s) i i0) as (C1 & C2 & C3 & C4). eauto.
  - intros i0 F Hi. destruct (cancel_nth (futs s) i i0) as (C1 & C2 & C3 & C4). apply Hw2; [|exact Hi].
    destruct (fdone (nth (i0 - 1) (futs s) FPending)); [|reflexivity]. rewrite C2 in F by reflexivity. discriminate.
  - intros i0 L. destruct (cancel_nth (futs s) i i0) as (C1 & C2 & C3 & C4). rewrite C1. now apply Hrun.
Qed.

(* ---- K7: cancel of a drained task ---- *)
Lemma inv_draincancel : forall c n s w j,
  Inv c n s -> main s = MDrainCancel w j ->
  Inv c n (mkS (queues s) (upd (futs s) (j - 1) (fst (fcancel (nth (j - 1) (futs s) FPending))))
               (subm s) (MDrainTd w) (ops s) (closed s) (ws s) (ps s) (outs s)).
Proof.
  intros c n s w j H Hm.
  assert (Hn : nthreads_ok c (mkS (queues s) (upd (futs s) (j - 1) (fst (fcancel (nth (j - 1) (futs s) FPending))))
               (subm s) (MDrainTd w) (ops s) (closed s) (ws s) (ps s) (outs s)) = true).
  { eapply nthreads_started; [apply (I_nth _ _ _ H)|rewrite Hm; exact I|exact I|reflexivity]. }
  inv_split H.
  all: rewrite Hm in *; try assumption.
  - rewrite upd_length. exact Hlen.
  - intros i0 v L E. destruct (cancel_nth (futs s) j i0) as (C1 & C2 & C3 & C4). eauto.
  - intros i0. specialize (Hw1 i0). simpl in *. lia.
  - intros i0 F Hi. destruct (cancel_nth (futs s) j i0) as (C1 & C2 & C3 & C4).
    assert (F0 : fdone (nth (i0 - 1) (futs s) FPending) = false).
    { destruct (fdone (nth (i0 - 1) (futs s) FPending)); [|reflexivity]. rewrite C2 in F by reflexivity. discriminate. }
    specialize (Hw2 i0 F0 Hi). simpl in *.
    destruct (Nat.eqb i0 j) eqn:E; [|lia]. apply Nat.eqb_eq in E. subst i0. exfalso.
    assert (Hr : 1 <= j <= n).
    { apply Hs2. apply in_or_app. left. exact Hi. }
    rewrite C4 in F; [discriminate|reflexivity|lia|].
    intros Hrn. specialize (Hrun j Hr). rewrite Hrn in Hrun. simpl in Hrun.
    rewrite calls_split in Hw2. lia.
  - intros i0 Hi. apply Hw3. simpl in *. lia.
  - intros i0 L. destruct (cancel_nth (futs s) j i0) as (C1 & C2 & C3 & C4). rewrite C1. now apply Hrun.
Qed.

(* ---- K5: a shutdown message is put ---- *)
Lemma inv_putshut : forall c n s b qu m',
  Inv c n s -> plain (main s) -> plain m' ->
  Inv c n (mkS (upd (queues s) 0 (mkQ (q0 s ++ [Shut b]) qu)) (futs s) (subm s) m' (ops s)
               (closed s) (ws s) (ps s) (outs s)).
Proof.
  intros c n s b qu m' H Hm Hm'.
  assert (Hn : nthreads_ok c (mkS (upd (queues s) 0 (mkQ (q0 s ++ [Shut b]) qu)) (futs s) (subm s) m' (ops s)
               (closed s) (ws s) (ps s) (outs s)) = true).
  { eapply nthreads_started; [apply (I_nth _ _ _ H)|now apply plain_started|now apply plain_started|reflexivity]. }
  inv_split H.
  all: rewrite ?getq_upd0 by assumption; cbn [qitems].
  - apply upd_nil_iff. exact Hq.
  - intros i. specialize (Hw1 i). rewrite count_snoc, !plain_mdc in * by assumption. simpl. lia.
  - intros i F Hi. specialize (Hw2 i F Hi). rewrite count_snoc, !plain_mdc in * by assumption. simpl. lia.
  - intros i Hi. apply Hw3. rewrite count_snoc, !plain_mdc in * by assumption. simpl in Hi. lia.
Qed.

(* ---- K6: the client takes an item out of the queue (cancel_items_in_queue) ---- *)
Lemma inv_drainpop : forall c n s w it rest qu,
  Inv c n s -> plain (main s) -> q0 s = it :: rest ->
  Inv c n (mkS (upd (queues s) 0 (mkQ rest qu)) (futs s) (subm s)
               (match it with Task j => MDrainCancel w j | Shut _ => MDrain w end) (ops s)
               (closed s) (ws s) (ps s) (outs s)).
Proof.
  intros c n s w it rest qu H Hm Hq0.
  assert (Hn : nthreads_ok c (mkS (upd (queues s) 0 (mkQ rest qu)) (futs s) (subm s)
               (match it with Task j => MDrainCancel w j | Shut _ => MDrain w end) (ops s)
               (closed s) (ws s) (ps s) (outs s)) = true).
  { eapply nthreads_started; [apply (I_nth _ _ _ H)|now apply plain_started|destruct it; exact I|reflexivity]. }
  unfold q0, getq in Hq0.
  inv_split H.
  all: rewrite ?getq_upd0 by assumption; cbn [qitems].
  all: try rewrite Hq0 in *.
  - apply upd_nil_iff. exact Hq.
  - intros i. specialize (Hw1 i). rewrite count_cons, plain_mdc in Hw1 by assumption.
    destruct it as [j|b]; simpl in *; [destruct (Nat.eqb i j); simpl in *|]; lia.
  - intros i F Hi. specialize (Hw2 i F Hi). rewrite count_cons, plain_mdc in Hw2 by assumption.
    destruct it as [j|b]; simpl in *; [destruct (Nat.eqb i j); simpl in *|]; lia.
  - intros i Hi. apply Hw3. rewrite count_cons, plain_mdc by assumption.
    destruct it as [j|b]; simpl in *; [destruct (Nat.eqb i j); simpl in *|]; lia.
Qed.

(* ---- K8: task_done by the client ---- *)
Lemma inv_draintd : forall c n s m' qu,
  Inv c n s -> plain (main s) \/ (exists w, main s = MDrainTd w) -> plain m' ->
  Inv c n (mkS (upd (queues s) 0 (mkQ (q0 s) qu)) (futs s) (subm s) m' (ops s)
               (closed s) (ws s) (ps s) (outs s)).
Proof.
  intros c n s m' qu H Hm Hm'.
  assert (Hp : plain (main s)) by (destruct Hm as [Hm|[w Hm]]; [exact Hm|rewrite Hm; exact I]).
  assert (Hn : nthreads_ok c (mkS (upd (queues s) 0 (mkQ (q0 s) qu)) (futs s) (subm s) m' (ops s)
               (closed s) (ws s) (ps s) (outs s)) = true).
  { eapply nthreads_started; [apply (I_nth _ _ _ H)|now apply plain_started|now apply plain_started|reflexivity]. }
  inv_split H.
  all: rewrite ?getq_upd0 by assumption; cbn [qitems].
  - apply upd_nil_iff. exact Hq.
  - intros i. specialize (Hw1 i). rewrite !plain_mdc in * by assumption. lia.
  - intros i F Hi. specialize (Hw2 i F Hi). rewrite !plain_mdc in * by assumption. lia.
  - intros i Hi. apply Hw3. rewrite !plain_mdc in * by assumption. lia.
Qed.

(* ---- control-only continuations ---- *)
Lemma started_len : forall c n s, Inv c n s -> started (main s) -> length (ws s) = nworkers c.
Proof.
  intros c n s H Hs. pose proof (I_nth _ _ _ H) as Hn. rewrite started_nth in Hn by exact Hs.
  now apply Nat.eqb_eq.
Qed.

Lemma suffix_submits : forall l l', (exists pre, l = pre ++ l') -> exists pre, submits l = pre ++ submits l'.
Proof. intros l l' [pre Hp]. exists (submits pre). subst l. apply submits_app. Qed.

Lemma inv_goto : forall c n s l x cl,
  Inv c n s -> length (ws s) = nworkers c -> (forall i, mdc (main s) i = 0) ->
  (exists pre, submits (ops s) = pre ++ submits l) -> Inv c n (m_goto s l x cl).
Proof.
  intros c n s l x cl H Hl Hm [pre Hp].
  apply (inv_control c n s); autorewrite with flds; try reflexivity; try assumption.
  - rewrite started_nth by (apply plain_started, m_goto_plain). rewrite m_goto_ws, Hl. apply Nat.eqb_refl.
  - intros i. rewrite plain_mdc by apply m_goto_plain. now rewrite Hm.
  - destruct (suffix_submits _ _ (m_goto_ops s l x cl)) as [pre2 Hp2].
    exists (pre ++ pre2). rewrite Hp, Hp2. now rewrite app_assoc.
Qed.

Lemma submits_tl : forall l, exists pre, submits l = pre ++ submits (tl l).
Proof.
  intros l. destruct l as [|o t]; [exists []; reflexivity|].
  destruct o; simpl; try (exists []; reflexivity). eexists [_]. reflexivity.
Qed.

Lemma inv_done : forall c n s x cl, Inv c n s -> plain (main s) -> Inv c n (m_done s x cl).
Proof.
  intros c n s x cl H Hp. unfold m_done. apply inv_goto; [exact H| | |apply submits_tl].
  - eapply started_len; eauto. now apply plain_started.
  - intros i. now apply plain_mdc.
Qed.

Lemma inv_norm : forall c n s, Inv c n s -> plain (main s) -> Inv c n (m_norm c s).
Proof.
  intros c n s H Hp.
  apply (inv_control c n s); autorewrite with flds; try reflexivity; try assumption.
  - rewrite started_nth by (apply plain_started, m_norm_plain; exact Hp). rewrite m_norm_ws.
    rewrite (started_len c n s H (plain_started _ Hp)). apply Nat.eqb_refl.
  - intros i. rewrite !plain_mdc; [reflexivity|exact Hp|apply m_norm_plain; exact Hp].
  - apply suffix_submits. apply m_norm_ops.
Qed.

Lemma inv_setmain : forall c n s m', Inv c n s -> plain (main s) -> plain m' -> Inv c n (set_main s m').
Proof.
  intros c n s m' H Hp Hp'.
  apply (inv_control c n s); try reflexivity; try assumption.
  - eapply nthreads_started; [apply (I_nth _ _ _ H)|now apply plain_started|now apply plain_started|reflexivity].
  - intros i. simpl. now rewrite !plain_mdc.
  - exists []. reflexivity.
Qed.

Lemma drain_inv : forall c n s w s' l,
  Inv c n s -> plain (main s) -> drain_step s w = Some (s', l) -> Inv c n s'.
Proof.
  intros c n s w s' l H Hp Hd. unfold drain_step in Hd.
  destruct (qitems (getq s 0)) as [|it rest] eqn:E; [discriminate|].
  destruct it as [j|b]; inversion Hd; subst; clear Hd;
    unfold qpop, set_queues, set_main; cbn [queues futs subm main ops closed ws ps outs]; rewrite E; cbn [tl].
  - exact (inv_drainpop c n s w (Task j) rest _ H Hp E).
  - exact (inv_drainpop c n s w (Shut b) rest _ H Hp E).
Qed.

Lemma putshut_inv : forall c n s b m',
  Inv c n s -> plain (main s) -> plain m' ->
  Inv c n (m_norm c (set_main (qput s 0 (Shut b)) m')).
Proof.
  intros c n s b m' H Hp Hp'. apply inv_norm; [|exact Hp'].
  exact (inv_putshut c n s b _ m' H Hp Hp').
Qed.

Ltac fld := cbn [queues futs subm main ops closed ws ps outs].

Lemma m_step_inv : forall c n s s' l, Inv c n s -> m_step c s = Some (s', l) -> Inv c n s'.
Proof.
  intros c n s s' l H Hst. unfold m_step in Hst.
  destruct (main s) as [|k| |w|w j|w|w k|k| |] eqn:Hm.
  - (* MBegin *)
    assert (Hl0 : length (ws s) = 0).
    { pose proof (I_nth _ _ _ H) as Hn. unfold nthreads_ok in Hn. rewrite Hm in Hn. now apply Nat.eqb_eq. }
    destruct (Nat.eqb (nworkers c) 0) eqn:En; inversion Hst; subst; clear Hst.
    + apply Nat.eqb_eq in En. apply inv_goto; [exact H|lia|intros i; rewrite Hm; reflexivity|].
      exists []. rewrite submits_app. simpl. now rewrite app_nil_r.
    + apply Nat.eqb_neq in En.
      apply (inv_control c n s); try reflexivity; try assumption.
      * unfold nthreads_ok. simpl. rewrite Hl0. simpl. apply Nat.ltb_lt. lia.
      * intros i. simpl. rewrite Hm. reflexivity.
      * exists []. reflexivity.
  - (* MStart *)
    assert (Hk : length (ws s) = k /\ k < nworkers c).
    { pose proof (I_nth _ _ _ H) as Hn. unfold nthreads_ok in Hn. rewrite Hm in Hn.
      apply andb_true_iff in Hn. destruct Hn as [Hn1 Hn2]. apply Nat.eqb_eq in Hn1. apply Nat.ltb_lt in Hn2. tauto. }
    destruct Hk as [Hk1 Hk2].
    destruct (Nat.eqb (S k) (nworkers c)) eqn:En; inversion Hst; subst; clear Hst.
    + apply Nat.eqb_eq in En.
      assert (H1 : Inv c n (mkS (queues s) (futs s) (subm s) MOp (ops s) (closed s) (ws s ++ [mkW 0 0 WBegin]) (ps s) (outs s))).
      { apply (inv_start c n s (length (ws s)) MOp H Hm); [|intros i; reflexivity].
        unfold nthreads_ok. fld. rewrite app_length. simpl. apply Nat.eqb_eq. lia. }
      refine (inv_goto c n _ _ [] false H1 _ _ _).
      * fld. rewrite app_length. simpl. lia.
      * intros i. reflexivity.
      * exists []. fld. unfold set_ws. fld. rewrite submits_app. simpl. now rewrite app_nil_r.
    + apply Nat.eqb_neq in En.
      apply (inv_start c n s (length (ws s)) (MStart (S (length (ws s)))) H Hm); [|intros i; reflexivity].
      unfold nthreads_ok. fld. rewrite app_length. simpl length.
      replace (length (ws s) + 1) with (S (length (ws s))) by lia. rewrite Nat.eqb_refl. simpl. apply Nat.ltb_lt. lia.
  - (* MOp *)
    assert (Hp : plain (main s)) by (rewrite Hm; exact I).
    destruct (ops s) as [|o rest] eqn:Ho; [discriminate|].
    destruct o as [i|i|i|w cc| |].
    + (* submit *)
      inversion Hst; subst; clear Hst.
      pose proof (inv_submit c n s i rest (S (qunf (getq s 0))) H Hm Ho) as H1.
      unfold m_done, qput, set_queues. fld. rewrite Ho. cbn [tl].
      refine (inv_goto c n _ rest [XOk] (closed s) H1 _ _ _).
      * fld. eapply started_len; eauto. now apply plain_started.
      * intros i0. reflexivity.
      * exists []. reflexivity.
    + (* cancel *)
      destruct (fcancel (getf s i)) as [f b] eqn:Ef. inversion Hst; subst; clear Hst.
      replace f with (fst (fcancel (getf s i))) by (rewrite Ef; reflexivity).
      apply inv_done; [|simpl; rewrite Hm; exact I].
      unfold set_futs, setf. rewrite Hm. exact (inv_cancel c n s i H Hm).
    + (* result *)
      destruct (fdone (getf s i)); inversion Hst; subst; clear Hst.
      apply inv_done; assumption.
    + (* shutdown *)
      destruct cc.
      * destruct (drain_step s w) as [r|] eqn:Ed.
        -- inversion Hst; subst; clear Hst. eapply drain_inv; eauto.
        -- inversion Hst; subst; clear Hst. apply inv_norm; [|exact I]. apply inv_setmain; [exact H|exact Hp|exact I].
      * destruct (nworkers c) as [|k] eqn:En.
        -- destruct (Nat.eqb (qunf (getq s 0)) 0); [|discriminate]. destruct w; [|discriminate].
           inversion Hst; subst; clear Hst. apply inv_done; assumption.
        -- inversion Hst; subst; clear Hst. apply putshut_inv; [exact H|exact Hp|exact I].
    + (* drop *)
      destruct (nworkers c) as [|k] eqn:En; [discriminate|].
      inversion Hst; subst; clear Hst. apply putshut_inv; [exact H|exact Hp|exact I].
    + (* exit *)
      destruct (nworkers c) as [|k] eqn:En.
      * destruct (Nat.eqb (qunf (getq s 0)) 0); [|discriminate].
        inversion Hst; subst; clear Hst. apply inv_done; assumption.
      * inversion Hst; subst; clear Hst. apply putshut_inv; [exact H|exact Hp|exact I].
  - (* MDrain *)
    assert (Hp : plain (main s)) by (rewrite Hm; exact I).
    destruct (drain_step s w) as [r|] eqn:Ed.
    + inversion Hst; subst; clear Hst. eapply drain_inv; eauto.
    + inversion Hst; subst; clear Hst. apply inv_norm; [|exact I]. apply inv_setmain; [exact H|exact Hp|exact I].
  - (* MDrainCancel *)
    destruct (fcancel (getf s j)) as [f b] eqn:Ef. inversion Hst; subst; clear Hst.
    replace f with (fst (fcancel (getf s j))) by (rewrite Ef; reflexivity).
    exact (inv_draincancel c n s w j H Hm).
  - (* MDrainTd *)
    inversion Hst; subst; clear Hst.
    refine (inv_draintd c n s (MDrain w) _ H _ I). right. now exists w.
  - (* MPutShut *)
    assert (Hp : plain (main s)) by (rewrite Hm; exact I).
    destruct k as [|k']; [discriminate|].
    inversion Hst; subst; clear Hst. apply putshut_inv; [exact H|exact Hp|exact I].
  - (* MJoin *)
    assert (Hp : plain (main s)) by (rewrite Hm; exact I).
    destruct (nth_error (ws s) k) as [wt|]; [|discriminate].
    destruct (wdone wt); [|discriminate].
    destruct (wdead wt); inversion Hst; subst; clear Hst.
    + apply inv_done; assumption.
    + apply inv_norm; [|exact I]. apply inv_setmain; [exact H|exact Hp|exact I].
  - (* MQJoin *)
    assert (Hp : plain (main s)) by (rewrite Hm; exact I).
    destruct (Nat.eqb (qunf (getq s 0)) 0); [|discriminate].
    inversion Hst; subst; clear Hst. apply inv_done; assumption.
  - discriminate.
Qed.

(* ------------------------------------------------------------------ *)

Lemma inv_setp : forall c n s k p',
  Inv c n s ->
  (forall j w, nth_error (ws s) j = Some w -> wproc w - 1 = k - 1 -> k - 1 < length (ps s) -> chanS c w p' = true) ->
  Inv c n (setp s k p').
Proof.
  intros c n s k p' H Hc. unfold setp, set_ps.
  assert (Hn : nthreads_ok c (mkS (queues s) (futs s) (subm s) (main s) (ops s) (closed s) (ws s) (upd (ps s) (k - 1) p') (outs s)) = true)
    by (exact (I_nth _ _ _ H)).
  inv_split H; rewrite ?upd_length; try assumption.
  intros j w Hj.
  destruct (nth_upd_cases _ (ps s) (wproc w - 1) (k - 1) p' {| pp := PExit; inbox := []; outbox := [] |})
    as [(E & L & Hx)|(E & Hx)]; rewrite Hx.
  - eapply Hc; eauto.
  - eapply Hch; eauto.
Qed.

Ltac chan_solve :=
  simpl in *; try discriminate; try assumption; try reflexivity;
  repeat match goal with
  | H : _ && _ = true |- _ => apply andb_true_iff in H; destruct H
  | H : _ || _ = true |- _ => apply orb_true_iff in H; destruct H
  | H : Nat.eqb _ _ = true |- _ => apply Nat.eqb_eq in H; subst
  end; simpl in *; try discriminate; rewrite ?Nat.eqb_refl; simpl; try reflexivity; try assumption.

Ltac chan_open :=
  unfold chanS, chan2, chan_ok, serving, quiet, msgs_eqb, p_idle, palive, reply_of in *; cbn [pp inbox outbox] in *.

Lemma p_step_inv : forall c n s k s' l, Inv c n s -> p_step c s k = Some (s', l) -> Inv c n s'.
Proof.
  intros c n s k s' l H Hst. unfold p_step in Hst.
  destruct (nth_error (ps s) (k - 1)) as [p|] eqn:Hp; [|discriminate].
  destruct (Nat.eqb k 0) eqn:Ek; [discriminate|].
  assert (Hc : forall j w, nth_error (ws s) j = Some w -> wproc w - 1 = k - 1 -> chanS c w p = true).
  { intros j w Hj E. pose proof (I_chan _ _ _ H j w Hj) as Hc. unfold getp in Hc. rewrite E in Hc.
    rewrite (nth_error_nth' _ _ _ _ _ Hp) in Hc. exact Hc. }
  destruct p as [pc ib ob]. cbn [pp inbox outbox] in Hst.
  destruct pc as [| |i|i| |].
  - inversion Hst; subst; clear Hst. apply inv_setp; [exact H|]. intros j w Hj E _. specialize (Hc j w Hj E).
    chan_open. destruct (wp w); chan_solve.
  - destruct ib as [|m t]; [discriminate|].
    destruct m; inversion Hst; subst; clear Hst; (apply inv_setp; [exact H|]); intros j w Hj E _; specialize (Hc j w Hj E);
    chan_open; destruct (wp w); destruct t as [|m2 t]; destruct ob as [|o1 ob]; chan_solve.
  - inversion Hst; subst; clear Hst. apply inv_setp; [exact H|]. intros j w Hj E _. specialize (Hc j w Hj E).
    chan_open; destruct (wp w); destruct ib as [|m1 ib]; destruct ob as [|o1 ob]; chan_solve.
  - inversion Hst; subst; clear Hst. apply inv_setp; [exact H|]. intros j w Hj E _. specialize (Hc j w Hj E).
    chan_open; destruct (wp w); destruct ib as [|m1 ib]; destruct ob as [|o1 ob]; chan_solve; try (destruct (raises c i); chan_solve).
  - inversion Hst; subst; clear Hst. apply inv_setp; [exact H|]. intros j w Hj E _. specialize (Hc j w Hj E).
    chan_open; destruct (wp w); destruct ib as [|m1 ib]; destruct ob as [|o1 ob]; chan_solve.
  - discriminate.
Qed.

(* ------------------------------------------------------------------ *)

Lemma chanS_unspawned : forall c w p, spawnedb w = false -> chanS c w p = true.
Proof.
  intros c w p H. unfold chanS, chan_ok, chan2, spawnedb in *. destruct (wp w); try discriminate; reflexivity.
Qed.

Lemma inv_wmaster : forall c n s j w w' qs' fs' ps',
  Inv c n s -> nth_error (ws s) j = Some w ->
  qs' <> [] -> length fs' = n -> wq w' = 0 ->
  (if spawnedb w' then 1 <= wproc w' <= length ps' else wproc w' = 0) ->
  length (ps s) <= length ps' ->
  length ps' + b2n (spawnedb w) = length (ps s) + b2n (spawnedb w') ->
  (wproc w' = wproc w \/ wproc w' = S (length (ps s))) ->
  (forall k, k < length (ps s) -> (spawnedb w = true -> k <> wproc w - 1) ->
             nth k ps' (mkP PExit [] []) = nth k (ps s) (mkP PExit [] [])) ->
  chanS c w' (nth (wproc w' - 1) ps' (mkP PExit [] [])) = true ->
  (forall i v, wp w' = WSetRes i v -> i = v) ->
  (forall i v, 1 <= i -> nth (i - 1) fs' FPending = FRes v -> v = i) ->
  (forall i, (count (taskb i) (qitems (nth 0 qs' (mkQ [] 0))) + b2n (callsb i w')
                = count (taskb i) (q0 s) + b2n (callsb i w)
              /\ (fdone (getf s i) = true -> fdone (nth (i - 1) fs' FPending) = true))
             \/ (count (taskb i) (qitems (nth 0 qs' (mkQ [] 0))) + b2n (callsb i w') + 1
                = count (taskb i) (q0 s) + b2n (callsb i w)
              /\ fdone (nth (i - 1) fs' FPending) = true)) ->
  (forall i, 1 <= i <= n -> (runsb i w = true -> isrun (getf s i) = true) ->
     b2n (isrun (getf s i)) + b2n (runsb i w') = b2n (isrun (nth (i - 1) fs' FPending)) + b2n (runsb i w)) ->
  Inv c n (mkS qs' fs' (subm s) (main s) (ops s) (closed s) (upd (ws s) j w') ps' (outs s)).
Proof.
  intros c n s j w w' qs' fs' ps' H Hj Mq Mlen Mwq Mo1 Mlp Mo2 Mo3 Mps Mch Mv1 Mv2 Mown Mrun.
  assert (Hn : nthreads_ok c (mkS qs' fs' (subm s) (main s) (ops s) (closed s) (upd (ws s) j w') ps' (outs s)) = true).
  { pose proof (I_nth _ _ _ H) as Hn. unfold nthreads_ok in *. fld. rewrite upd_length. exact Hn. }
  unfold q0, getf, getq in *.
  inv_split H.
  - (* wq *) intros j2 w2 H2. apply nth_error_upd_inv in H2 as [(E1 & E2 & _)|(E1 & E2)]; [subst; exact Mwq|eauto].
  - (* ow1 *) intros j2 w2 H2. apply nth_error_upd_inv in H2 as [(E1 & E2 & _)|(E1 & E2)]; [subst; exact Mo1|].
    specialize (Ho1 j2 w2 E2). destruct (spawnedb w2); [lia|exact Ho1].
  - (* ow2 *) pose proof (count_upd _ spawnedb (ws s) j w' w Hj). lia.
  - (* ow3 *) intros k. pose proof (count_upd _ (procb k) (ws s) j w' w Hj) as Hc. specialize (Ho3 k).
    destruct Mo3 as [E|E].
    + assert (Ep : procb k w' = procb k w) by (unfold procb; now rewrite E). rewrite Ep in Hc. lia.
    + assert (Hz : count (procb (length (ps s))) (ws s) = 0).
      { apply count_zero. intros j2 w2 H2. specialize (Ho1 j2 w2 H2). unfold procb.
        apply Nat.eqb_neq. destruct (spawnedb w2); lia. }
      assert (Ep : procb k w' = Nat.eqb (length (ps s)) k) by (unfold procb; rewrite E; reflexivity).
      rewrite Ep in Hc.
      destruct (Nat.eqb (length (ps s)) k) eqn:Ek.
      * apply Nat.eqb_eq in Ek. subst k. rewrite Hz in Hc. simpl in Hc. lia.
      * simpl in Hc. lia.
  - (* ow4 *) intros k Hk. pose proof (count_upd _ (procb k) (ws s) j w' w Hj) as Hc.
    pose proof (Ho1 j w Hj) as B1.
    destruct (spawnedb w) eqn:Sw; destruct (spawnedb w') eqn:Sw'; simpl in Mo2.
    + destruct Mo3 as [E|E]; [|lia].
      assert (Ep : procb k w' = procb k w) by (unfold procb; now rewrite E). rewrite Ep in Hc.
      assert (Hk' : k < length (ps s)) by lia. specialize (Ho4 k Hk'). lia.
    + lia.
    + destruct Mo3 as [E|E]; [lia|].
      assert (Ep : procb k w' = Nat.eqb (length (ps s)) k) by (unfold procb; rewrite E; reflexivity).
      assert (Ew : procb k w = false) by (unfold procb; rewrite B1; reflexivity).
      rewrite Ep, Ew in Hc. simpl in Hc.
      destruct (Nat.eqb (length (ps s)) k) eqn:Ek; simpl in Hc; [lia|].
      apply Nat.eqb_neq in Ek. assert (Hk' : k < length (ps s)) by lia. specialize (Ho4 k Hk'). lia.
    + destruct Mo3 as [E|E]; [|lia].
      assert (Ep : procb k w' = procb k w) by (unfold procb; now rewrite E). rewrite Ep in Hc.
      assert (Hk' : k < length (ps s)) by lia. specialize (Ho4 k Hk'). lia.
  - (* chan *) intros j2 w2 H2. apply nth_error_upd_inv in H2 as [(E1 & E2 & _)|(E1 & E2)]; [subst; exact Mch|].
    destruct (spawnedb w2) eqn:S2; [|now apply chanS_unspawned].
    pose proof (Ho1 j2 w2 E2) as B2. rewrite S2 in B2.
    rewrite Mps; [eauto|lia|].
    intros Sw Ek. pose proof (Ho1 j w Hj) as B1. rewrite Sw in B1.
    apply E1. apply (count_le1_inj _ (procb (wproc w - 1)) (ws s) j2 j w2 w (Ho3 _) E2 Hj); unfold procb; apply Nat.eqb_eq; lia.
  - (* v1 *) intros j2 w2 i v H2 Hp. apply nth_error_upd_inv in H2 as [(E1 & E2 & _)|(E1 & E2)]; [subst; eauto|eauto].
  - (* own1 *) intros i. pose proof (count_upd _ (callsb i) (ws s) j w' w Hj) as Hc. specialize (Hw1 i).
    destruct (Mown i) as [(A & _)|(A & _)]; lia.
  - (* own2 *) intros i F Hi. pose proof (count_upd _ (callsb i) (ws s) j w' w Hj) as Hc.
    destruct (Mown i) as [(A & Fd)|(A & Fd)]; [|congruence].
    assert (F0 : fdone (nth (i - 1) (futs s) FPending) = false).
    { destruct (fdone (nth (i - 1) (futs s) FPending)); [|reflexivity]. rewrite Fd in F by reflexivity. discriminate. }
    specialize (Hw2 i F0 Hi). lia.
  - (* own3 *) intros i Hi. pose proof (count_upd _ (callsb i) (ws s) j w' w Hj) as Hc. apply Hw3.
    destruct (Mown i) as [(A & _)|(A & _)]; lia.
  - (* run *) intros i Hi. pose proof (count_upd _ (runsb i) (ws s) j w' w Hj) as Hc.
    specialize (Hrun i Hi).
    assert (Hr : runsb i w = true -> isrun (nth (i - 1) (futs s) FPending) = true).
    { intros Hr. pose proof (count_ge1 _ (runsb i) (ws s) j w Hj Hr) as Hg. rewrite Hrun in Hg.
      destruct (isrun _); [reflexivity|simpl in Hg; lia]. }
    specialize (Mrun i Hi Hr). lia.
Qed.

Lemma call_range : forall c n s j w i, Inv c n s -> nth_error (ws s) j = Some w -> w_call w = Some i ->
  1 <= i <= n /\ In i (subm s).
Proof.
  intros c n s j w i H Hj Hc.
  assert (Hb : callsb i w = true) by (unfold callsb; rewrite Hc; apply Nat.eqb_refl).
  pose proof (count_ge1 _ (callsb i) (ws s) j w Hj Hb) as Hg.
  assert (Hi : In i (subm s)) by (apply (I_own3 _ _ _ H); unfold wc; lia).
  split; [|exact Hi]. apply (I_sub2 _ _ _ H). apply in_or_app. now left.
Qed.

Lemma run_call : forall w i, w_run w = Some i -> w_call w = Some i.
Proof. intros w i. unfold w_run, w_call. destruct (wp w); intros E; try discriminate; exact E. Qed.

Lemma call_run_cases : forall w i, w_call w = Some i -> w_run w = None \/ w_run w = Some i.
Proof. intros w i. unfold w_run, w_call. destruct (wp w); intros E; try discriminate; auto. Qed.

Lemma call_spawned : forall w i, w_call w = Some i -> spawnedb w = true.
Proof. intros w i. unfold spawnedb, w_call. destruct (wp w); intros E; try discriminate; reflexivity. Qed.

Lemma run_is_running : forall c n s j w i, Inv c n s -> nth_error (ws s) j = Some w -> w_run w = Some i ->
  getf s i = FRunning.
Proof.
  intros c n s j w i H Hj Hr.
  destruct (call_range c n s j w i H Hj (run_call _ _ Hr)) as [Hi _].
  assert (Hb : runsb i w = true) by (unfold runsb; rewrite Hr; apply Nat.eqb_refl).
  pose proof (count_ge1 _ (runsb i) (ws s) j w Hj Hb) as Hg.
  rewrite (I_run _ _ _ H i Hi) in Hg. destruct (getf s i); simpl in Hg; try lia. reflexivity.
Qed.

(* ---- kind A: only the program counter of the worker (and possibly its process / the
        unfinished-task counter) changes; the call it holds stays the same ---- *)
Lemma inv_wpc : forall c n s j w pc' qs' ps',
  Inv c n s -> nth_error (ws s) j = Some w ->
  spawnedb (mkW 0 (wproc w) pc') = spawnedb w ->
  w_call (mkW 0 (wproc w) pc') = w_call w ->
  w_run (mkW 0 (wproc w) pc') = w_run w ->
  (forall i v, pc' = WSetRes i v -> i = v) ->
  qs' <> [] -> qitems (nth 0 qs' (mkQ [] 0)) = q0 s ->
  length ps' = length (ps s) ->
  (forall k, k < length (ps s) -> (spawnedb w = true -> k <> wproc w - 1) ->
             nth k ps' (mkP PExit [] []) = nth k (ps s) (mkP PExit [] [])) ->
  chanS c (mkW 0 (wproc w) pc') (nth (wproc w - 1) ps' (mkP PExit [] [])) = true ->
  Inv c n (mkS qs' (futs s) (subm s) (main s) (ops s) (closed s) (upd (ws s) j (mkW 0 (wproc w) pc')) ps' (outs s)).
Proof.
  intros c n s j w pc' qs' ps' H Hj Hsp Hca Hru Hv1 Hq Hq0 Hlp Hps Hch.
  apply (inv_wmaster c n s j w); try assumption.
  - apply (I_len _ _ _ H).
  - reflexivity.
  - rewrite Hsp, Hlp. cbn [wproc]. apply (I_ow1 _ _ _ H j w Hj).
  - lia.
  - rewrite Hsp. lia.
  - left. reflexivity.
  - apply (I_v2 _ _ _ H).
  - intros i. left. rewrite Hq0. unfold callsb. rewrite Hca. split; [reflexivity|tauto].
  - intros i Hi _. unfold runsb. rewrite Hru. fold (getf s i). lia.
Qed.

(* ---- kind F: the future of the call held by the worker changes ---- *)
Lemma inv_wfut : forall c n s j w pc' i fs' qs',
  Inv c n s -> nth_error (ws s) j = Some w -> w_call w = Some i ->
  length fs' = length (futs s) ->
  (forall i2, i2 - 1 <> i - 1 -> nth (i2 - 1) fs' FPending = nth (i2 - 1) (futs s) FPending) ->
  spawnedb (mkW 0 (wproc w) pc') = true ->
  (w_call (mkW 0 (wproc w) pc') = Some i \/
   (w_call (mkW 0 (wproc w) pc') = None /\ fdone (nth (i - 1) fs' FPending) = true)) ->
  (fdone (getf s i) = true -> fdone (nth (i - 1) fs' FPending) = true) ->
  ((runsb i w = true -> isrun (getf s i) = true) ->
     b2n (isrun (getf s i)) + b2n (runsb i (mkW 0 (wproc w) pc'))
     = b2n (isrun (nth (i - 1) fs' FPending)) + b2n (runsb i w)) ->
  (forall v, nth (i - 1) fs' FPending = FRes v -> v = i) ->
  (forall i0 v, pc' = WSetRes i0 v -> i0 = v) ->
  qs' <> [] -> qitems (nth 0 qs' (mkQ [] 0)) = q0 s ->
  chanS c (mkW 0 (wproc w) pc') (getp s (wproc w)) = true ->
  Inv c n (mkS qs' fs' (subm s) (main s) (ops s) (closed s) (upd (ws s) j (mkW 0 (wproc w) pc')) (ps s) (outs s)).
Proof.
  intros c n s j w pc' i fs' qs' H Hj Hca Hlf Hoth Hsp Hca' Hmono Hrun Hv2 Hv1 Hq Hq0 Hch.
  destruct (call_range c n s j w i H Hj Hca) as [Hi _].
  pose proof (call_spawned _ _ Hca) as Hsw.
  assert (Hcb : callsb i w = true) by (unfold callsb; rewrite Hca; apply Nat.eqb_refl).
  assert (Hcb2 : forall i2, i2 <> i -> callsb i2 w = false).
  { intros i2 E. unfold callsb. rewrite Hca. now apply Nat.eqb_neq. }
  assert (Hcb2' : forall i2, i2 <> i -> callsb i2 (mkW 0 (wproc w) pc') = false).
  { intros i2 E. unfold callsb. destruct Hca' as [Hc|[Hc _]]; rewrite Hc; [now apply Nat.eqb_neq|reflexivity]. }
  assert (Hrb2 : forall i2, i2 <> i -> runsb i2 w = false).
  { intros i2 E. unfold runsb. destruct (call_run_cases _ _ Hca) as [Hr|Hr]; rewrite Hr; [reflexivity|now apply Nat.eqb_neq]. }
  assert (Hrb2' : forall i2, i2 <> i -> runsb i2 (mkW 0 (wproc w) pc') = false).
  { intros i2 E. unfold runsb. destruct (w_run (mkW 0 (wproc w) pc')) as [i3|] eqn:Hr; [|reflexivity].
    apply run_call in Hr. destruct Hca' as [Hc|[Hc _]]; rewrite Hc in Hr; [|discriminate].
    inversion Hr; subst. now apply Nat.eqb_neq. }
  apply (inv_wmaster c n s j w); try assumption.
  - rewrite Hlf. apply (I_len _ _ _ H).
  - reflexivity.
  - rewrite Hsp. cbn [wproc]. pose proof (I_ow1 _ _ _ H j w Hj) as Ho. now rewrite Hsw in Ho.
  - lia.
  - rewrite Hsp, Hsw. lia.
  - left. reflexivity.
  - intros k _ _. reflexivity.
  - intros i2 v L E. destruct (Nat.eq_dec (i2 - 1) (i - 1)) as [Ei|Ei].
    + assert (i2 = i) by lia. subst i2. now apply Hv2.
    + rewrite Hoth in E by exact Ei. apply (I_v2 _ _ _ H i2 v L E).
  - intros i2. rewrite Hq0. destruct (Nat.eq_dec i2 i) as [Ei|Ei].
    + subst i2. rewrite Hcb. destruct Hca' as [Hc|[Hc Hd]].
      * left. unfold callsb at 1. rewrite Hc, Nat.eqb_refl. split; [reflexivity|exact Hmono].
      * right. unfold callsb at 1. rewrite Hc. simpl. split; [lia|exact Hd].
    + left. rewrite Hcb2, Hcb2' by exact Ei. split; [reflexivity|].
      destruct (Nat.eq_dec (i2 - 1) (i - 1)) as [Ej|Ej].
      * unfold getf in *. rewrite Ej. exact Hmono.
      * rewrite Hoth by exact Ej. unfold getf. tauto.
  - intros i2 L Hr. destruct (Nat.eq_dec i2 i) as [Ei|Ei].
    + subst i2. now apply Hrun.
    + rewrite Hrb2, Hrb2' by exact Ei. rewrite Hoth by lia. unfold getf. lia.
Qed.

(* ---- kind G: the worker takes an item from the queue ---- *)
Lemma inv_wget : forall c n s j w it rest qu,
  Inv c n s -> nth_error (ws s) j = Some w -> wp w = WGet -> q0 s = it :: rest ->
  Inv c n (mkS (upd (queues s) 0 (mkQ rest qu)) (futs s) (subm s) (main s) (ops s) (closed s)
        (upd (ws s) j (mkW 0 (wproc w) (match it with Task i => WSrnc i | Shut b => WSPoll b end)))
        (ps s) (outs s)).
Proof.
  intros c n s j w it rest qu H Hj Hpc Hq0.
  assert (Hsw : spawnedb w = true) by (unfold spawnedb; rewrite Hpc; reflexivity).
  assert (Hsw' : spawnedb (mkW 0 (wproc w) (match it with Task i => WSrnc i | Shut b => WSPoll b end)) = true)
    by (destruct it; reflexivity).
  apply (inv_wmaster c n s j w); try assumption.
  - apply upd_nil_iff. apply (I_q _ _ _ H).
  - apply (I_len _ _ _ H).
  - reflexivity.
  - rewrite Hsw'. cbn [wproc]. pose proof (I_ow1 _ _ _ H j w Hj) as Ho. now rewrite Hsw in Ho.
  - lia.
  - rewrite Hsw, Hsw'. lia.
  - left. reflexivity.
  - intros k _ _. reflexivity.
  - pose proof (I_chan _ _ _ H j w Hj) as Hc. unfold chanS, chan_ok, chan2, getp in *. rewrite Hpc in Hc.
    cbn [wproc wp]. destruct it; exact Hc.
  - intros i v E. destruct it; discriminate.
  - apply (I_v2 _ _ _ H).
  - intros i. left. rewrite getq_upd0 by (apply (I_q _ _ _ H)). cbn [qitems]. rewrite Hq0, count_cons.
    split; [|tauto]. unfold callsb, w_call. rewrite Hpc. cbn [wp]. destruct it; simpl; lia.
  - intros i Hi _. unfold runsb, w_run. rewrite Hpc. cbn [wp]. fold (getf s i). destruct it; simpl; lia.
Qed.

(* ---- kind S: the worker spawns its process ---- *)
Lemma inv_wspawn : forall c n s j w,
  Inv c n s -> nth_error (ws s) j = Some w -> wp w = WSpawn ->
  Inv c n (mkS (queues s) (futs s) (subm s) (main s) (ops s) (closed s)
        (upd (ws s) j (mkW 0 (S (length (ps s))) WGet)) (ps s ++ [mkP PBegin [] []]) (outs s)).
Proof.
  intros c n s j w H Hj Hpc.
  assert (Hsw : spawnedb w = false) by (unfold spawnedb; rewrite Hpc; reflexivity).
  apply (inv_wmaster c n s j w); try assumption.
  - apply (I_q _ _ _ H).
  - apply (I_len _ _ _ H).
  - reflexivity.
  - simpl. rewrite app_length. simpl. lia.
  - rewrite app_length. lia.
  - rewrite Hsw, app_length. simpl. lia.
  - right. reflexivity.
  - intros k L _. now apply app_nth1.
  - cbn [wproc]. rewrite app_nth2 by lia. replace (S (length (ps s)) - 1 - length (ps s)) with 0 by lia. reflexivity.
  - intros i v E. discriminate.
  - apply (I_v2 _ _ _ H).
  - intros i. left. split; [|tauto]. unfold callsb, w_call. rewrite Hpc. reflexivity.
  - intros i Hi _. unfold runsb, w_run. rewrite Hpc. cbn [wp]. fold (getf s i). lia.
Qed.

Lemma msg_eqb_eq : forall a b, msg_eqb a b = true -> a = b.
Proof.
  intros a b H. destruct a; destruct b; simpl in H; try discriminate; try reflexivity;
    apply Nat.eqb_eq in H; now subst.
Qed.

Lemma msgs_eqb_one : forall l m, msgs_eqb l [m] = true -> l = [m].
Proof.
  intros l m H. unfold msgs_eqb in H. destruct l as [|a [|b l]]; simpl in H; try discriminate.
  rewrite andb_true_r in H. apply msg_eqb_eq in H. now subst.
Qed.

Lemma msgs_eqb_nil : forall l, msgs_eqb l [] = true -> l = [].
Proof. intros l H. unfold msgs_eqb in H. destruct l; simpl in H; [reflexivity|discriminate]. Qed.

Lemma serving_out : forall p rq rp m ob, serving p rq rp = true -> outbox p = m :: ob ->
  m = rp /\ ob = [] /\ inbox p = [] /\
  (match rq with MShut => negb (palive p) | _ => p_idle p end) = true.
Proof.
  intros p rq rp m ob H Ho. unfold serving in H.
  apply orb_true_iff in H. destruct H as [H|H].
  - exfalso. apply orb_true_iff in H. destruct H as [H|H];
      apply andb_true_iff in H; destruct H as [_ H]; apply msgs_eqb_nil in H; congruence.
  - apply andb_true_iff in H. destruct H as [H H3]. apply andb_true_iff in H. destruct H as [H1 H2].
    apply msgs_eqb_one in H3. apply msgs_eqb_nil in H2. rewrite Ho in H3. inversion H3; subst. tauto.
Qed.

Lemma srnc_not_running : forall c n s j w i, Inv c n s -> nth_error (ws s) j = Some w -> wp w = WSrnc i ->
  getf s i <> FRunning.
Proof.
  intros c n s j w i H Hj Hpc Hf.
  assert (Hca : w_call w = Some i) by (unfold w_call; rewrite Hpc; reflexivity).
  destruct (call_range c n s j w i H Hj Hca) as [Hi _].
  pose proof (I_run _ _ _ H i Hi) as Hr. rewrite Hf in Hr. simpl in Hr.
  assert (Hs : srncb i w = true) by (unfold srncb; rewrite Hpc; apply Nat.eqb_refl).
  pose proof (count_ge1 _ (srncb i) (ws s) j w Hj Hs) as Hg.
  pose proof (I_own1 _ _ _ H i) as Ho. unfold wc in Ho. rewrite calls_split in Ho. lia.
Qed.

Ltac wnorm :=
  unfold wpc_to, set_w, set_ws, set_futs, setf, qtd, qpop, set_queues, send_to_p, pop_from_p, setp, set_ps; fld.

Ltac chan_case Hc Hpc :=
  unfold chanS, chan_ok, chan2, getp in *; rewrite Hpc in Hc; cbn [wp wproc];
  try reflexivity;
  match goal with
  | |- context [nth ?k (ps ?s) ?d] =>
      let p := fresh "p" in
      let pc := fresh "pc" in let ib := fresh "ib" in let ob := fresh "ob" in
      set (p := nth k (ps s) d) in *; clearbody p; destruct p as [pc ib ob];
      unfold serving, quiet, msgs_eqb, p_idle, palive, reply_of in *; cbn [pp inbox outbox] in *;
      destruct pc; destruct ib as [|? [|? ?]]; destruct ob as [|? [|? ?]]; chan_solve
  end.

Ltac wpc_case H Hj Hpc Hc :=
  wnorm;
  eapply (inv_wpc _ _ _ _ _ _ _ _ H Hj);
  [ unfold spawnedb; rewrite Hpc; reflexivity
  | unfold w_call; rewrite Hpc; reflexivity
  | unfold w_run; rewrite Hpc; reflexivity
  | let E := fresh "E" in intros ? ? E; discriminate E
  | try apply upd_nil_iff; apply (I_q _ _ _ H)
  | rewrite ?getq_upd0 by (apply (I_q _ _ _ H)); reflexivity
  | reflexivity
  | intros; reflexivity
  | chan_case Hc Hpc ].

Ltac wps_case H Hj Hpc Hc :=
  let Ho := fresh "Ho" in
  pose proof (I_ow1 _ _ _ H _ _ Hj) as Ho; unfold spawnedb in Ho; rewrite Hpc in Ho;
  wnorm;
  eapply (inv_wpc _ _ _ _ _ _ _ _ H Hj);
  [ unfold spawnedb; rewrite Hpc; reflexivity
  | unfold w_call; rewrite Hpc; reflexivity
  | unfold w_run; rewrite Hpc; reflexivity
  | idtac
  | try apply upd_nil_iff; apply (I_q _ _ _ H)
  | rewrite ?getq_upd0 by (apply (I_q _ _ _ H)); reflexivity
  | apply upd_length
  | let k := fresh "k" in let L := fresh "L" in let Hk := fresh "Hk" in let Ek := fresh "Ek" in
    intros k L Hk; apply nth_upd_other; intro Ek; apply Hk; [unfold spawnedb; rewrite Hpc; reflexivity|lia]
  | rewrite nth_upd_same by lia ].

Lemma w_step_inv : forall c n s j s' l, Inv c n s -> w_step c s j = Some (s', l) -> Inv c n s'.
Proof.
  intros c n s j s' l H Hst. unfold w_step in Hst.
  destruct (nth_error (ws s) j) as [w|] eqn:Hj; [|discriminate].
  pose proof (I_wq _ _ _ H j w Hj) as Hwq0.
  pose proof (I_chan _ _ _ H j w Hj) as Hc.
  cbv zeta in Hst. unfold wpc_to in Hst. rewrite Hwq0 in Hst.
  destruct (wp w) eqn:Hpc.
  - (* WBegin *) inversion Hst; subst; clear Hst. wpc_case H Hj Hpc Hc.
  - (* WSpawn *) inversion Hst; subst; clear Hst. wnorm.
    exact (inv_wspawn c n s j w H Hj Hpc).
  - (* WGet *)
    destruct (qitems (getq s 0)) as [|it rest] eqn:Hq0; [discriminate|].
    destruct it as [i|b]; inversion Hst; subst; clear Hst; wnorm; rewrite Hq0; cbn [tl].
    + exact (inv_wget c n s j w (Task i) rest _ H Hj Hpc Hq0).
    + exact (inv_wget c n s j w (Shut b) rest _ H Hj Hpc Hq0).
  - (* WSrnc *)
    assert (Hca : w_call w = Some i) by (unfold w_call; rewrite Hpc; reflexivity).
    destruct (call_range c n s j w i H Hj Hca) as [Hi _].
    pose proof (I_len _ _ _ H) as Hlen.
    pose proof (srnc_not_running c n s j w i H Hj Hpc) as Hnr.
    destruct (getf s i) eqn:Hf; inversion Hst; subst; clear Hst; wnorm.
    + (* pending -> running *)
      eapply (inv_wfut _ _ _ _ _ _ i _ _ H Hj Hca).
      * apply upd_length.
      * intros i2 E. apply nth_upd_other. lia.
      * reflexivity.
      * left. reflexivity.
      * rewrite Hf. discriminate.
      * intros _. rewrite Hf, nth_upd_same by lia. unfold runsb, w_run. rewrite Hpc. simpl. rewrite Nat.eqb_refl. reflexivity.
      * intros v. rewrite nth_upd_same by lia. discriminate.
      * intros i0 v E. discriminate E.
      * apply (I_q _ _ _ H).
      * reflexivity.
      * chan_case Hc Hpc.
    + (* running: impossible *) congruence.
    + (* cancelled -> notified *)
      eapply (inv_wfut _ _ _ _ _ _ i _ _ H Hj Hca).
      * apply upd_length.
      * intros i2 E. apply nth_upd_other. lia.
      * reflexivity.
      * right. split; [reflexivity|]. rewrite nth_upd_same by lia. reflexivity.
      * intros _. rewrite nth_upd_same by lia. reflexivity.
      * intros _. rewrite Hf, nth_upd_same by lia. unfold runsb, w_run. rewrite Hpc. reflexivity.
      * intros v. rewrite nth_upd_same by lia. discriminate.
      * intros i0 v E. discriminate E.
      * apply (I_q _ _ _ H).
      * reflexivity.
      * chan_case Hc Hpc.
    + eapply (inv_wfut _ _ _ _ _ _ i (futs s) _ H Hj Hca);
        change (nth (i - 1) (futs s) FPending) with (getf s i); rewrite ?Hf;
        [reflexivity|reflexivity|reflexivity|right; split; reflexivity|reflexivity
        |intros _; unfold runsb, w_run; rewrite Hpc; reflexivity|discriminate
        |intros i0 v E; discriminate E|apply (I_q _ _ _ H)|reflexivity|chan_case Hc Hpc].
    + eapply (inv_wfut _ _ _ _ _ _ i (futs s) _ H Hj Hca);
        change (nth (i - 1) (futs s) FPending) with (getf s i); rewrite ?Hf;
        [reflexivity|reflexivity|reflexivity|right; split; reflexivity|reflexivity
        |intros _; unfold runsb, w_run; rewrite Hpc; reflexivity
        |intros v0 E; inversion E; subst; apply (I_v2 _ _ _ H i v0); [lia|exact Hf]
        |intros i0 v0 E; discriminate E|apply (I_q _ _ _ H)|reflexivity|chan_case Hc Hpc].
    + eapply (inv_wfut _ _ _ _ _ _ i (futs s) _ H Hj Hca);
        change (nth (i - 1) (futs s) FPending) with (getf s i); rewrite ?Hf;
        [reflexivity|reflexivity|reflexivity|right; split; reflexivity|reflexivity
        |intros _; unfold runsb, w_run; rewrite Hpc; reflexivity|discriminate
        |intros i0 v E; discriminate E|apply (I_q _ _ _ H)|reflexivity|chan_case Hc Hpc].
  - (* WCancTd *) inversion Hst; subst; clear Hst. wpc_case H Hj Hpc Hc.
  - (* WSend *) inversion Hst; subst; clear Hst. wps_case H Hj Hpc Hc.
    + intros i0 v0 E. discriminate E.
    + chan_case Hc Hpc.
  - (* WRecv *)
    destruct (outbox (getp s (wproc w))) as [|m ob'] eqn:Hob; [discriminate|].
    assert (Hsv : serving (getp s (wproc w)) (MCall i) (reply_of c i) = true).
    { unfold chanS, chan_ok in Hc. rewrite Hpc in Hc. apply andb_true_iff in Hc. tauto. }
    destruct (serving_out _ _ _ _ _ Hsv Hob) as (Em & Eo & Ei & Eidle).
    destruct m; inversion Hst; subst; clear Hst;
      try (exfalso; unfold reply_of in Em; destruct (raises c i); discriminate Em).
    + (* MRes *) wps_case H Hj Hpc Hc.
      * intros i0 v0 E. inversion E; subst. unfold reply_of in Em. destruct (raises c i0); inversion Em. reflexivity.
      * chan_case Hc Hpc.
    + (* MErr *) wps_case H Hj Hpc Hc.
      * intros i0 v0 E. discriminate E.
      * chan_case Hc Hpc.
  - (* WSetRes *)
    assert (Hca : w_call w = Some i) by (unfold w_call; rewrite Hpc; reflexivity).
    assert (Hru : w_run w = Some i) by (unfold w_run; rewrite Hpc; reflexivity).
    destruct (call_range c n s j w i H Hj Hca) as [Hi _].
    pose proof (I_len _ _ _ H) as Hlen.
    pose proof (run_is_running c n s j w i H Hj Hru) as Hf.
    pose proof (I_v1 _ _ _ H j w i v Hj Hpc) as Hiv.
    rewrite Hf in Hst. inversion Hst; subst; clear Hst; wnorm.
    eapply (inv_wfut _ _ _ _ _ _ v _ _ H Hj Hca).
    + apply upd_length.
    + intros i2 E. apply nth_upd_other. lia.
    + reflexivity.
    + right. split; [reflexivity|]. rewrite nth_upd_same by lia. reflexivity.
    + intros _. rewrite nth_upd_same by lia. reflexivity.
    + intros _. rewrite Hf, nth_upd_same by lia. unfold runsb, w_run. rewrite Hpc. simpl. rewrite Nat.eqb_refl. reflexivity.
    + intros v0. rewrite nth_upd_same by lia. intros E. inversion E. reflexivity.
    + intros i0 v0 E. discriminate E.
    + apply (I_q _ _ _ H).
    + reflexivity.
    + chan_case Hc Hpc.
  - (* WTd *) inversion Hst; subst; clear Hst. wpc_case H Hj Hpc Hc.
  - (* WEPoll *) destruct (palive (getp s (wproc w))) eqn:Hal; inversion Hst; subst; clear Hst; wpc_case H Hj Hpc Hc.
  - (* WESend *) inversion Hst; subst; clear Hst. wps_case H Hj Hpc Hc.
    + intros i0 v0 E. discriminate E.
    + chan_case Hc Hpc.
  - (* WERecv *)
    destruct (outbox (getp s (wproc w))) as [|m ob'] eqn:Hob; [discriminate|].
    inversion Hst; subst; clear Hst. wps_case H Hj Hpc Hc.
    + intros i0 v0 E. discriminate E.
    + chan_case Hc Hpc.
  - (* WEComm *) destruct (palive (getp s (wproc w))) eqn:Hal; [discriminate|]. inversion Hst; subst; clear Hst; wpc_case H Hj Hpc Hc.
  - (* WETerm *) inversion Hst; subst; clear Hst. wpc_case H Hj Hpc Hc.
  - (* WEWait *) destruct (palive (getp s (wproc w))) eqn:Hal; [discriminate|]. inversion Hst; subst; clear Hst; wpc_case H Hj Hpc Hc.
  - (* WETd *) inversion Hst; subst; clear Hst. wpc_case H Hj Hpc Hc.
  - (* WESetExc *)
    assert (Hca : w_call w = Some i) by (unfold w_call; rewrite Hpc; reflexivity).
    assert (Hru : w_run w = Some i) by (unfold w_run; rewrite Hpc; reflexivity).
    destruct (call_range c n s j w i H Hj Hca) as [Hi _].
    pose proof (I_len _ _ _ H) as Hlen.
    pose proof (run_is_running c n s j w i H Hj Hru) as Hf.
    rewrite Hf in Hst. inversion Hst; subst; clear Hst; wnorm.
    eapply (inv_wfut _ _ _ _ _ _ i _ _ H Hj Hca).
    + apply upd_length.
    + intros i2 E. apply nth_upd_other. lia.
    + reflexivity.
    + right. split; [reflexivity|]. rewrite nth_upd_same by lia. reflexivity.
    + intros _. rewrite nth_upd_same by lia. reflexivity.
    + intros _. rewrite Hf, nth_upd_same by lia. unfold runsb, w_run. rewrite Hpc. simpl. rewrite Nat.eqb_refl. reflexivity.
    + intros v0. rewrite nth_upd_same by lia. discriminate.
    + intros i0 v0 E. discriminate E.
    + apply (I_q _ _ _ H).
    + reflexivity.
    + chan_case Hc Hpc.
  - (* WSPoll *) destruct (palive (getp s (wproc w))) eqn:Hal; inversion Hst; subst; clear Hst; wpc_case H Hj Hpc Hc.
  - (* WSSend *) inversion Hst; subst; clear Hst. wps_case H Hj Hpc Hc.
    + intros i0 v0 E. discriminate E.
    + chan_case Hc Hpc.
  - (* WSRecv *)
    destruct (outbox (getp s (wproc w))) as [|m ob'] eqn:Hob; [discriminate|].
    inversion Hst; subst; clear Hst. wps_case H Hj Hpc Hc.
    + intros i0 v0 E. discriminate E.
    + chan_case Hc Hpc.
  - (* WSComm *) destruct (palive (getp s (wproc w))) eqn:Hal; [discriminate|]. inversion Hst; subst; clear Hst; wpc_case H Hj Hpc Hc.
  - (* WSTerm *) inversion Hst; subst; clear Hst. destruct w0; wpc_case H Hj Hpc Hc.
  - (* WSWait *) destruct (palive (getp s (wproc w))) eqn:Hal; [discriminate|]. inversion Hst; subst; clear Hst; wpc_case H Hj Hpc Hc.
  - (* WSTd *) inversion Hst; subst; clear Hst. wpc_case H Hj Hpc Hc.
  - (* WSQJoin *) destruct (Nat.eqb (qunf (getq s 0)) 0); [|discriminate]. inversion Hst; subst; clear Hst; wpc_case H Hj Hpc Hc.
  - discriminate.
  - discriminate.
Qed.

(* ------------------------------------------------------------------ *)

Lemma nth_repeat_pending : forall n k, nth k (repeat FPending n) FPending = FPending.
Proof.
  induction n as [|n IH]; intros k; simpl; destruct k; try reflexivity. apply IH.
Qed.

Lemma inv_init : forall c n prog, wf_prog n prog -> Inv c n (init n prog).
Proof.
  intros c n prog (Hnd & Hrg & Hdrop).
  constructor; unfold init, getf, getp, wc, q0, getq; fld.
  - apply repeat_length.
  - discriminate.
  - intros j w Hj. destruct j; discriminate.
  - reflexivity.
  - intros j w Hj. destruct j; discriminate.
  - reflexivity.
  - intros k. unfold count. simpl. lia.
  - intros k Hk. simpl in Hk. lia.
  - intros j w Hj. destruct j; discriminate.
  - intros j w i v Hj. destruct j; discriminate.
  - intros i v _ E. rewrite nth_repeat_pending in E. discriminate.
  - intros i. simpl. unfold count. simpl. lia.
  - intros i _ [].
  - intros i Hi. exfalso. apply Hi. reflexivity.
  - intros i _. rewrite nth_repeat_pending. reflexivity.
  - exact Hnd.
  - intros i Hi. apply Hrg. exact Hi.
Qed.

Lemma step_inv : forall c n s t s' l, Inv c n s -> step c s t = Some (s', l) -> Inv c n s'.
Proof.
  intros c n s t s' l H Hst. destruct t as [| | |j|k]; simpl in Hst; try discriminate.
  - eapply m_step_inv; eauto.
  - destruct j as [|j]; [discriminate|]. eapply w_step_inv; eauto.
  - eapply p_step_inv; eauto.
Qed.

Lemma reach_inv : forall c n prog s, wf_prog n prog -> reach c (init n prog) s -> Inv c n s.
Proof.
  intros c n prog s Hwf Hr. induction Hr as [|s t s' l Hr IH Hst].
  - now apply inv_init.
  - eapply step_inv; eauto.
Qed.

(* ================= from the Prop invariant to the boolean one ================= *)
Lemma inv_owns_ok : forall c n s, Inv c n s -> owns_ok s = true.
Proof.
  intros c n s H. unfold owns_ok. repeat (apply andb_true_iff; split).
  - apply forallb_forall. intros w Hw. apply In_nth_error in Hw. destruct Hw as [j Hj].
    pose proof (I_ow1 _ _ _ H j w Hj) as Ho. unfold spawnedb in Ho.
    destruct (wp w); try (apply Nat.eqb_eq; exact Ho);
      (apply andb_true_iff; split; [apply Nat.ltb_lt|apply Nat.leb_le]; lia).
  - apply Nat.eqb_eq. exact (I_ow2 _ _ _ H).
  - apply forallb_forall. intros k _. apply Nat.leb_le. exact (I_ow3 _ _ _ H k).
Qed.

Lemma inv_vals_ok : forall c n s, Inv c n s -> vals_ok c s = true.
Proof.
  intros c n s H. unfold vals_ok. apply andb_true_iff; split.
  - apply forallb_forall. intros w Hw. apply In_nth_error in Hw. destruct Hw as [j Hj].
    destruct (wp w) eqn:Hpc; try reflexivity. apply Nat.eqb_eq. eapply (I_v1 _ _ _ H); eauto.
  - apply forallb_forall. intros i Hi. apply in_seq in Hi.
    destruct (getf s i) eqn:Hf; try reflexivity. apply Nat.eqb_eq. apply (I_v2 _ _ _ H i v); [lia|exact Hf].
Qed.

Lemma inv_running_ok : forall c n s, Inv c n s -> running_ok s = true.
Proof.
  intros c n s H. unfold running_ok. apply forallb_forall. intros w Hw.
  apply In_nth_error in Hw. destruct Hw as [j Hj].
  destruct (wp w) eqn:Hpc; try reflexivity;
    (rewrite (run_is_running c n s j w _ H Hj); [reflexivity|unfold w_run; rewrite Hpc; reflexivity]).
Qed.

Lemma inv_own_ok : forall c n s, Inv c n s -> own_ok s = true.
Proof.
  intros c n s H. unfold own_ok. apply forallb_forall. intros i Hi.
  rewrite where_count_eq.
  pose proof (I_own1 _ _ _ H i) as H1. pose proof (I_own2 _ _ _ H i) as H2. pose proof (I_own3 _ _ _ H i) as H3.
  repeat (apply andb_true_iff; split).
  - apply Nat.leb_le. exact H1.
  - destruct (fdone (getf s i)) eqn:F; [reflexivity|]. simpl.
    destruct (existsb (Nat.eqb i) (subm s)) eqn:E; [|reflexivity]. simpl.
    apply Nat.eqb_eq. apply H2; [reflexivity|]. now apply existsb_eqb_In.
  - destruct (existsb (Nat.eqb i) (subm s)) eqn:E; [reflexivity|]. simpl.
    apply Nat.eqb_eq. destruct (Nat.eq_dec (wc s i) 0) as [Z|Z]; [exact Z|].
    exfalso. apply existsb_eqb_nIn in E. apply E. now apply H3.
Qed.

Lemma inv_chan_ok : forall c n s, Inv c n s ->
  forallb (fun w => chan_ok c w (getp s (wproc w))) (ws s) = true.
Proof.
  intros c n s H. apply forallb_forall. intros w Hw. apply In_nth_error in Hw. destruct Hw as [j Hj].
  pose proof (I_chan _ _ _ H j w Hj) as Hc. unfold chanS in Hc. apply andb_true_iff in Hc. tauto.
Qed.

Lemma inv_inv_safe : forall c n s, Inv c n s -> inv_safe c s = true.
Proof.
  intros c n s H. unfold inv_safe.
  rewrite (inv_owns_ok c n s H), (inv_vals_ok c n s H), (inv_running_ok c n s H), (inv_own_ok c n s H),
    (I_nth _ _ _ H), (inv_chan_ok c n s H). reflexivity.
Qed.

Theorem safe_reach : forall c n prog s,
  wf_prog n prog -> reach c (init n prog) s -> inv_safe c s = true.
Proof. intros c n prog s Hwf Hr. eapply inv_inv_safe. eapply reach_inv; eauto. Qed.
Print Assumptions safe_reach.

Theorem fidelity : forall c n prog s i v,
  wf_prog n prog -> reach c (init n prog) s -> 1 <= i <= n -> getf s i = FRes v -> v = i.
Proof.
  intros c n prog s i v Hwf Hr Hi Hf. pose proof (reach_inv c n prog s Hwf Hr) as H.
  apply (I_v2 _ _ _ H i v); [lia|exact Hf].
Qed.
Print Assumptions fidelity.

(* ------------------------------------------------------------------ *)

Ltac destr_all H :=
  repeat match type of H with
  | context [match ?x with _ => _ end] => destruct x eqn:?
  end; try discriminate H.

Definition canc (f : fstate) : Prop := f = FCancelled \/ f = FCancelledN.

Lemma drain_futs : forall s w s' l, drain_step s w = Some (s', l) -> futs s' = futs s /\ ws s' = ws s.
Proof.
  intros s w s' l H. unfold drain_step in H. destr_all H; inversion H; subst; split; reflexivity.
Qed.

Lemma fcancel_canc : forall f f' b, fcancel f = (f', b) -> canc f -> canc f'.
Proof. intros f f' b E [H|H]; subst f; inversion E; subst; [left|right]; reflexivity. Qed.

Lemma m_step_futs : forall c s s' l, m_step c s = Some (s', l) ->
  futs s' = futs s \/ exists i f', futs s' = upd (futs s) (i - 1) f' /\ (canc (getf s i) -> canc f').
Proof.
  intros c s s' l H. unfold m_step in H.
  destruct (main s) eqn:Hm; destr_all H.
  all: try solve [inversion H; subst; clear H; autorewrite with flds; simpl; left; reflexivity].
  all: try solve [inversion H; subst; clear H; left; eapply drain_futs; eauto].
  all: inversion H; subst; clear H; autorewrite with flds; simpl; right.
  - exists i, f. split; [reflexivity|]. eapply fcancel_canc; eauto.
  - exists j, f. split; [reflexivity|]. eapply fcancel_canc; eauto.
Qed.

Lemma w_step_futs : forall c s j s' l, w_step c s j = Some (s', l) ->
  futs s' = futs s \/ exists i f', futs s' = upd (futs s) (i - 1) f' /\ (canc (getf s i) -> canc f').
Proof.
  intros c s j s' l H. unfold w_step in H.
  destruct (nth_error (ws s) j) as [w|] eqn:Hj; [|discriminate].
  cbv zeta in H.
  destruct (wp w) eqn:Hpc; destr_all H.
  all: try solve [inversion H; subst; clear H; simpl; left; reflexivity].
  all: inversion H; subst; clear H; simpl; right.
  all: exists i; eexists; (split; [reflexivity|]).
  all: match goal with Hf : getf _ _ = _ |- _ =>
         let E := fresh "E" in intros [E|E]; rewrite E in Hf; try discriminate Hf end.
  right. reflexivity.
Qed.

Lemma p_step_futs : forall c s k s' l, p_step c s k = Some (s', l) -> futs s' = futs s /\ ws s' = ws s.
Proof.
  intros c s k s' l H. unfold p_step in H. destr_all H; inversion H; subst; split; reflexivity.
Qed.

Theorem cancelled_stays : forall c s t s' l i,
  step c s t = Some (s', l) ->
  (getf s i = FCancelled \/ getf s i = FCancelledN) -> (getf s' i = FCancelled \/ getf s' i = FCancelledN).
Proof.
  intros c s t s' l i Hst Hc.
  assert (Hf : futs s' = futs s \/ exists i0 f', futs s' = upd (futs s) (i0 - 1) f' /\ (canc (getf s i0) -> canc f')).
  { destruct t as [| | |j|k]; simpl in Hst; try discriminate.
    - eapply m_step_futs; eauto.
    - destruct j as [|j]; [discriminate|]. eapply w_step_futs; eauto.
    - left. eapply p_step_futs; eauto. }
  unfold getf in *. destruct Hf as [Hf|(i0 & f' & Hf & Hcc)]; rewrite Hf; [exact Hc|].
  destruct (nth_upd_cases _ (futs s) (i - 1) (i0 - 1) f' FPending) as [(E & L & Hx)|(E & Hx)]; rewrite Hx.
  - apply Hcc. unfold canc. rewrite <- E. exact Hc.
  - exact Hc.
Qed.
Print Assumptions cancelled_stays.



(* ---- the LBody label ---- *)
Lemma drain_label : forall s w s' l i, drain_step s w = Some (s', l) -> l <> LBody i.
Proof. intros s w s' l i H. unfold drain_step in H. destr_all H; inversion H; subst; discriminate. Qed.

Lemma m_step_label : forall c s s' l i, m_step c s = Some (s', l) -> l <> LBody i.
Proof.
  intros c s s' l i H. unfold m_step in H.
  destruct (main s) eqn:Hm; destr_all H.
  all: try solve [inversion H; subst; discriminate].
  all: inversion H; subst; clear H; eapply drain_label; eauto.
Qed.

Lemma w_step_label : forall c s j s' l i, w_step c s j = Some (s', l) -> l <> LBody i.
Proof.
  intros c s j s' l i H. unfold w_step in H.
  destruct (nth_error (ws s) j) as [w|] eqn:Hj; [|discriminate].
  cbv zeta in H.
  destruct (wp w) eqn:Hpc; destr_all H; inversion H; subst; discriminate.
Qed.

Lemma p_step_body : forall c s k s' i, p_step c s k = Some (s', LBody i) ->
  exists p, nth_error (ps s) (k - 1) = Some p /\ k <> 0 /\ pp p = PBody i.
Proof.
  intros c s k s' i H. unfold p_step in H.
  destruct (nth_error (ps s) (k - 1)) as [p|] eqn:Hp; [|discriminate].
  destruct (Nat.eqb k 0) eqn:Ek; [discriminate|]. apply Nat.eqb_neq in Ek.
  destruct (pp p) eqn:Hpp; destr_all H; inversion H; subst.
  exists p. repeat split; assumption.
Qed.

Lemma owner_exists : forall c n s k, Inv c n s -> 1 <= k <= length (ps s) ->
  exists j w, nth_error (ws s) j = Some w /\ wproc w = k.
Proof.
  intros c n s k H Hk.
  assert (Hk' : k - 1 < length (ps s)) by lia.
  pose proof (I_ow4 _ _ _ H (k - 1) Hk') as Hc.
  destruct (count (procb (k - 1)) (ws s)) eqn:Ec; [lia|].
  assert (Hex : forall l, count (procb (k - 1)) l <> 0 -> exists j w, nth_error l j = Some w /\ procb (k - 1) w = true).
  { induction l as [|a l IH]; intros Hl; [exfalso; apply Hl; reflexivity|].
    rewrite count_cons in Hl. destruct (procb (k - 1) a) eqn:Ea.
    - exists 0, a. split; [reflexivity|exact Ea].
    - simpl in Hl. destruct (IH Hl) as (j & w & Hj & Hw). exists (S j), w. split; assumption. }
  destruct (Hex (ws s)) as (j & w & Hj & Hw); [lia|].
  exists j, w. split; [exact Hj|]. unfold procb in Hw. apply Nat.eqb_eq in Hw. lia.
Qed.

Theorem body_needs_running : forall c n prog s t s' i,
  wf_prog n prog -> reach c (init n prog) s -> step c s t = Some (s', LBody i) -> getf s i = FRunning.
Proof.
  intros c n prog s t s' i Hwf Hr Hst. pose proof (reach_inv c n prog s Hwf Hr) as H.
  destruct t as [| | |j|k]; simpl in Hst; try discriminate.
  - exfalso. eapply m_step_label; eauto.
  - destruct j as [|j]; [discriminate|]. exfalso. eapply w_step_label; eauto.
  - destruct (p_step_body _ _ _ _ _ Hst) as (p & Hp & Hk & Hpp).
    assert (Hkl : 1 <= k <= length (ps s)).
    { assert (k - 1 < length (ps s)) by (apply nth_error_Some; congruence). lia. }
    destruct (owner_exists c n s k H Hkl) as (j & w & Hj & Hw).
    pose proof (I_chan _ _ _ H j w Hj) as Hc. rewrite Hw in Hc. unfold getp in Hc.
    rewrite (nth_error_nth' _ _ _ _ _ Hp) in Hc.
    assert (Hrun : w_run w = Some i).
    { unfold chanS, chan_ok, chan2 in Hc. destruct p as [pc ib ob]. simpl in Hpp. subst pc.
      pose proof (I_ow1 _ _ _ H j w Hj) as Ho. unfold spawnedb in Ho.
      unfold w_run. unfold serving, quiet, p_idle, palive in Hc. cbn [pp inbox outbox] in Hc.
      destruct (wp w); try (exfalso; lia); simpl in Hc; try discriminate Hc.
      rewrite andb_true_r, orb_false_r in Hc. apply andb_true_iff in Hc. destruct Hc as [Hc _].
      apply andb_true_iff in Hc. destruct Hc as [Hc _]. apply Nat.eqb_eq in Hc. now subst. }
    eapply run_is_running; eauto.
Qed.
Print Assumptions body_needs_running.


Theorem one_request_at_a_time : forall c n prog s p,
  wf_prog n prog -> reach c (init n prog) s -> In p (ps s) -> length (inbox p) + length (outbox p) <= 1.
Proof.
  intros c n prog s p Hwf Hr Hin. pose proof (reach_inv c n prog s Hwf Hr) as H.
  apply In_nth_error in Hin. destruct Hin as [k0 Hp].
  assert (Hkl : 1 <= S k0 <= length (ps s)).
  { assert (k0 < length (ps s)) by (apply nth_error_Some; congruence). lia. }
  destruct (owner_exists c n s (S k0) H Hkl) as (j & w & Hj & Hw).
  pose proof (I_chan _ _ _ H j w Hj) as Hc. rewrite Hw in Hc. unfold getp in Hc.
  replace (S k0 - 1) with k0 in Hc by lia.
  rewrite (nth_error_nth' _ _ _ _ _ Hp) in Hc.
  pose proof (I_ow1 _ _ _ H j w Hj) as Ho. unfold spawnedb in Ho.
  unfold chanS, chan_ok, chan2, serving, quiet, msgs_eqb in Hc.
  destruct p as [pc ib ob]. cbn [pp inbox outbox] in *.
  destruct ib as [|m1 [|m2 ib]]; destruct ob as [|o1 [|o2 ob]]; simpl; try lia;
    exfalso; destruct (wp w); try lia; simpl in Hc; try discriminate Hc;
    repeat rewrite ?andb_false_r, ?andb_false_l, ?orb_false_r in Hc; simpl in Hc; try discriminate Hc.
Qed.
Print Assumptions one_request_at_a_time.


(* ---- a worker thread keeps its process ---- *)
Lemma drain_ws : forall s w s' l, drain_step s w = Some (s', l) -> ws s' = ws s.
Proof. intros s w s' l H. eapply drain_futs; eauto. Qed.

Lemma m_step_ws : forall c s s' l, m_step c s = Some (s', l) ->
  ws s' = ws s \/ ws s' = ws s ++ [mkW 0 0 WBegin].
Proof.
  intros c s s' l H. unfold m_step in H.
  destruct (main s) eqn:Hm; destr_all H.
  all: try solve [inversion H; subst; clear H; autorewrite with flds; simpl; left; reflexivity].
  all: try solve [inversion H; subst; clear H; autorewrite with flds; simpl; right; reflexivity].
  all: inversion H; subst; clear H; left; eapply drain_ws; eauto.
Qed.

Lemma w_step_ws : forall c s j0 s' l, w_step c s j0 = Some (s', l) ->
  exists w0 k' pc', nth_error (ws s) j0 = Some w0 /\ ws s' = upd (ws s) j0 (mkW (wq w0) k' pc') /\
                    (wp w0 <> WSpawn -> k' = wproc w0).
Proof.
  intros c s j0 s' l H. unfold w_step in H.
  destruct (nth_error (ws s) j0) as [w0|] eqn:Hj; [|discriminate].
  cbv zeta in H.
  destruct (wp w0) eqn:Hpc; destr_all H; inversion H; subst; clear H; simpl;
    eexists w0, _, _; (split; [reflexivity|]); (split; [reflexivity|]); intros Hn; try reflexivity.
  congruence.
Qed.

Lemma worker_keeps_process_gen : forall c s t s' l j w w',
  step c s t = Some (s', l) -> nth_error (ws s) j = Some w -> nth_error (ws s') j = Some w' ->
  wp w <> WSpawn -> wproc w' = wproc w.
Proof.
  intros c s t s' l j w w' Hst Hj Hj' Hns.
  destruct t as [| | |j0|k]; simpl in Hst; try discriminate.
  - destruct (m_step_ws _ _ _ _ Hst) as [E|E]; rewrite E in Hj'.
    + congruence.
    + rewrite (nth_error_app_l _ _ _ _ _ Hj) in Hj'. congruence.
  - destruct j0 as [|j0]; [discriminate|].
    destruct (w_step_ws _ _ _ _ _ Hst) as (w0 & k' & pc' & Hj0 & E & Hk). rewrite E in Hj'.
    apply nth_error_upd_inv in Hj' as [(E1 & E2 & _)|(E1 & E2)].
    + subst j w'. rewrite Hj in Hj0. inversion Hj0; subst w0. simpl. now apply Hk.
    + congruence.
  - destruct (p_step_futs _ _ _ _ _ Hst) as [_ E]. rewrite E in Hj'. congruence.
Qed.

Theorem worker_keeps_process : forall c n prog s t s' l j w w',
  wf_prog n prog -> reach c (init n prog) s ->
  step c s t = Some (s', l) -> nth_error (ws s) j = Some w -> nth_error (ws s') j = Some w' ->
  wproc w <> 0 -> wproc w' = wproc w.
Proof.
  intros c n prog s t s' l j w w' Hwf Hr Hst Hj Hj' Hnz.
  pose proof (reach_inv c n prog s Hwf Hr) as H.
  eapply worker_keeps_process_gen; eauto.
  intros Hpc. pose proof (I_ow1 _ _ _ H j w Hj) as Ho. unfold spawnedb in Ho. rewrite Hpc in Ho. congruence.
Qed.
Print Assumptions worker_keeps_process_gen.
Print Assumptions worker_keeps_process.

(* Without a side condition the statement of worker_keeps_process is false for arbitrary
   (unreachable) states: a worker at WSpawn that already has a process number gets a new one. *)
Lemma worker_keeps_process_needs_side_condition :
  exists c s t s' l j w w',
    step c s t = Some (s', l) /\ nth_error (ws s) j = Some w /\ nth_error (ws s') j = Some w' /\
    wproc w <> 0 /\ wproc w' <> wproc w.
Proof.
  exists (mkC 1 (fun _ => false)),
         (mkS [mkQ [] 0] [] [] MOp [] false [mkW 0 5 WSpawn] [] []), (TW 1).
  eexists _, _, 0, _, _. simpl. repeat split; try reflexivity; simpl; lia.
Qed.
