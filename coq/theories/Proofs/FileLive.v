(* Progress of the file-executor model (Model/FileExec.v) in kill-free runs: whenever every started
   process has exited and the loop thread is between two iterations, (A) every future still
   registered in memory_dict is done or has a complete result file (so the next scan completes it),
   and (B) every call the loop has taken from the queue is done or registered.
   Statement: Model/FileLiveSpec.v (rest_ok), tested on >700 replayed implementation traces.

   Proved exactly as stated (file_progress_at_rest), for every initial directory whose result files
   are complete (leftover .h5in / .h5ready files of any content are allowed; fs_wf is not used).
   Structure: the client loses no call (client_live: CL, from no_late_submit and wf_prog); the
   invariant JInv of kill-free runs (results complete, an exited process has published, a running
   process has its files, every registered key is complete or has a process, the waits of the call
   being prepared, the scan covers memory_dict, every submitted call is pending / done / registered);
   preserved by client steps (jinv_client), process steps (jinv_qstep) and loop-thread steps
   (jinv_fstep) until the loop thread takes a shutdown message (tph: it then terminates the processes
   itself and never returns to the top of the loop); lifted by induction on freach_nk (inv_reach).
   Examples at the end: a non-trivial rest state; the statement fails with a kill and with two
   identical calls in flight (finding D11). *)
From Coq Require Import List Bool Arith Lia.
From EL Require Import Model.Exec Model.ExecInv Model.StepExec Model.FileExec Model.FileSpec Model.FileLiveSpec Proofs.FileSafe.
Import ListNotations.

(* reachability without kills *)
Inductive freach_nk (c : fcfg) : fstateX -> fstateX -> Prop :=
| nk_refl : forall s, freach_nk c s s
| nk_step : forall s s' s'' t l, freach_nk c s s' -> fstep c s' t = Some (s'', l) -> freach_nk c s s''.

Lemma freach_nk_freach : forall c a b, freach_nk c a b -> freach c a b.
Proof.
  intros c a b H. induction H as [s|s s' s'' t l H1 IH H2]; [apply fr_refl|].
  eapply fr_step; [exact IH|]. eapply ft_step; exact H2.
Qed.

(* ------------------------------------------------------------------ *)
(* small facts                                                         *)
(* ------------------------------------------------------------------ *)
Lemma occb_occ : forall i l, occb i l = occ i l.
Proof. intros i l. induction l as [|j l IH]; simpl; [reflexivity|now rewrite IH]. Qed.

Lemma tasksb_tasks : forall l, tasksb l = tasks l.
Proof. induction l as [|[i|w] l IH]; simpl; rewrite ?IH; reflexivity. Qed.

Lemma In_occ : forall i l, In i l -> 1 <= occ i l.
Proof.
  intros i l. induction l as [|j l IH]; simpl; intros H; [contradiction|].
  destruct H as [H|H]; [subst j; rewrite Nat.eqb_refl; lia|specialize (IH H); lia].
Qed.

Lemma assoc_key_In : forall {A} (l : list (key * A)) k a, assoc_key l k = Some a -> In (k, a) l.
Proof.
  intros A l k a. induction l as [|[q b] l IH]; simpl; intros H; [discriminate|].
  destruct (key_eqb k q) eqn:E; [|right; now apply IH].
  apply key_eqb_eq in E. subst q. inversion H; subst. now left.
Qed.

Lemma mem_find_In : forall m d k, mem_find m d = Some k -> In (k, d) m.
Proof.
  intros m d k. induction m as [|[q f] m IH]; simpl; intros H; [discriminate|].
  destruct (Nat.eqb f d) eqn:E; [|right; now apply IH].
  apply Nat.eqb_eq in E. subst f. inversion H; subst. now left.
Qed.

Lemma assoc_key_set : forall {A} (l : list (key * A)) k a w,
  assoc_key (assoc_set l k a) w = if key_eqb w k then Some a else assoc_key l w.
Proof.
  intros A l k a w. induction l as [|[q b] l IH]; simpl; [reflexivity|].
  destruct (key_eqb k q) eqn:E.
  - apply key_eqb_eq in E. subst q. simpl. destruct (key_eqb w k); reflexivity.
  - simpl. rewrite IH. destruct (key_eqb w q) eqn:E2; [|reflexivity].
    destruct (key_eqb w k) eqn:E3; [|reflexivity].
    apply key_eqb_eq in E2. apply key_eqb_eq in E3. subst. rewrite key_eqb_refl in E. discriminate.
Qed.

Lemma upd_nil : forall {A} (l : list A) n x, l <> [] -> upd l n x <> [].
Proof. intros A [|a l] [|n] x H; simpl; congruence. Qed.

(* ------------------------------------------------------------------ *)
(* the client: no call is lost                                         *)
(* ------------------------------------------------------------------ *)
Definition closing (o : op) : bool := match o with OShutdown _ _ | OExit | ODrop => true | _ => false end.
Fixpoint nls (l : list op) : bool :=
  match l with
  | [] => true
  | o :: t => if closing o then negb (existsb is_submit t) else nls t
  end.

Lemma nosub_submits : forall l, existsb is_submit l = false -> submits l = [].
Proof.
  induction l as [|o l IH]; simpl; intros H; [reflexivity|].
  apply orb_false_iff in H. destruct H as [H1 H2]. destruct o; simpl in H1; try discriminate; now apply IH.
Qed.

Lemma nosub_nls : forall l, existsb is_submit l = false -> nls l = true.
Proof.
  induction l as [|o l IH]; simpl; intros H; [reflexivity|].
  apply orb_false_iff in H. destruct H as [H1 H2]. destruct (closing o); [now rewrite H2|now apply IH].
Qed.

Lemma nls_tl : forall l, nls l = true -> nls (tl l) = true.
Proof.
  intros [|o l] H; [reflexivity|]. simpl in *. destruct (closing o); [|exact H].
  apply nosub_nls. now apply negb_true_iff.
Qed.

Lemma nls_init : forall l, ~ In ODrop l -> no_late_submit l = true -> nls l = true.
Proof.
  induction l as [|o l IH]; simpl; intros Hn H; [reflexivity|].
  destruct o; simpl; try exact H; try (apply IH; [tauto|exact H]).
  exfalso. apply Hn. now left.
Qed.

Lemma nls_app_drop : forall l, nls l = true -> nls (l ++ [ODrop]) = true.
Proof.
  induction l as [|o l IH]; simpl; intros H; [reflexivity|].
  destruct (closing o); [|now apply IH]. rewrite existsb_app. simpl. now rewrite orb_false_r.
Qed.

Lemma submits_nil_tl : forall l, submits l = [] -> submits (tl l) = [].
Proof. intros [|o l] H; [reflexivity|]. simpl in *. destruct o; try exact H. discriminate. Qed.

Lemma nls_closing_head : forall o t, nls (o :: t) = true -> closing o = true -> submits (o :: t) = [].
Proof.
  intros o t H Hc. simpl in H. rewrite Hc in H. apply negb_true_iff in H. apply nosub_submits in H.
  destruct o; simpl in *; try discriminate; exact H.
Qed.

Lemma settle_live : forall cl lk sub l acc l' acc' pc,
  settle cl lk sub l acc = (l', acc', pc) -> nls l = true -> (cl = true -> submits l = []) ->
  nls l' = true /\ submits l' = submits l /\ (pc = MOp \/ pc = MEnd).
Proof.
  intros cl lk sub l. induction l as [|o t IH]; intros acc l' acc' pc H Hn Hcl; simpl in H.
  - inversion H; subst. repeat split; auto.
  - assert (Hstop : (o :: t, acc, MOp) = (l', acc', pc) ->
                    nls l' = true /\ submits l' = submits (o :: t) /\ (pc = MOp \/ pc = MEnd)).
    { intros E. inversion E; subst. repeat split; auto. }
    assert (Hgo : forall a, settle cl lk sub t a = (l', acc', pc) -> submits (o :: t) = submits t ->
                    nls l' = true /\ submits l' = submits (o :: t) /\ (pc = MOp \/ pc = MEnd)).
    { intros a E Es. rewrite Es. eapply (IH a); [exact E|apply (nls_tl (o :: t) Hn)|].
      intros Hc. rewrite <- Es. now apply Hcl. }
    destruct o.
    + destruct cl; [specialize (Hcl eq_refl); discriminate Hcl|now apply Hstop].
    + destruct (mem_nat i sub); [now apply Hstop|eapply Hgo; eauto].
    + destruct (mem_nat i sub); [now apply Hstop|eapply Hgo; eauto].
    + destruct cl; [eapply Hgo; eauto|now apply Hstop].
    + destruct (cl || lk); [eapply Hgo; eauto|now apply Hstop].
    + destruct cl; [eapply Hgo; eauto|now apply Hstop].
Qed.

Definition CL (b : state) : Prop :=
  nls (ops b) = true /\ (closed b = true -> submits (ops b) = []) /\
  (match main b with MPutShut _ _ | MJoin _ | MQJoin => submits (ops b) = [] | _ => True end) /\
  queues b <> [].

Lemma CL_goto : forall s l x cl, nls l = true -> (cl = true -> submits l = []) -> queues s <> [] ->
  CL (m_goto s l x cl) /\ futs (m_goto s l x cl) = futs s /\
  forall i, cntb (m_goto s l x cl) i = occ i (submits l) + occ i (tasks (q0 s)).
Proof.
  intros s l x cl Hn Hcl Hq. unfold m_goto.
  destruct (settle cl _ (subm s) l (outs s ++ x)) as [[l' acc'] pc] eqn:E.
  destruct (settle_live _ _ _ _ _ _ _ _ E Hn Hcl) as (H1 & H2 & H3).
  split; [|split; [reflexivity|]].
  - unfold CL. simpl. repeat split; auto.
    + intros Hc. rewrite H2. now apply Hcl.
    + destruct H3 as [H3|H3]; subst pc; exact I.
  - intros i. unfold cntb, q0, getq. simpl. now rewrite H2.
Qed.

Lemma CL_same : forall b b', CL b -> ops b' = ops b -> closed b' = closed b -> main b' = main b ->
  queues b' <> [] -> CL b'.
Proof. intros b b' (H1 & H2 & H3 & H4) E1 E2 E3 Hq. unfold CL. rewrite E1, E2, E3. auto. Qed.

Lemma qput_queues : forall b q it, queues b <> [] -> queues (qput b q it) <> [].
Proof. intros b q it H. unfold qput. simpl. now apply upd_nil. Qed.

Lemma q0_qput_ne : forall b it, queues b <> [] -> q0 (qput b 0 it) = q0 b ++ [it].
Proof. intros b it H. unfold q0, qput, getq, set_queues. simpl. destruct (queues b) as [|q t]; [congruence|reflexivity]. Qed.

Lemma xnorm_live : forall x, CL (base x) ->
  CL (base (xm_norm x)) /\ futs (base (xm_norm x)) = futs (base x) /\
  forall i, cntb (base (xm_norm x)) i = cntb (base x) i.
Proof.
  intros x HC. pose proof HC as (H1 & H2 & H3 & H4). unfold xm_norm.
  assert (Hsame : CL (base x) /\ futs (base x) = futs (base x) /\ forall i, cntb (base x) i = cntb (base x) i)
    by (repeat split; auto).
  destruct (main (base x)) as [|k| |w|w j|w|w k|k| |] eqn:E; try exact Hsame.
  - destruct k as [|k]; [|exact Hsame]. destruct (cur_wait (base x)); simpl.
    + split; [|split; [reflexivity|intros i; reflexivity]]. unfold CL. simpl. auto.
    + destruct (CL_goto (base x) (tl (ops (base x))) (if cur_silent (base x) then [] else [XOk]) true) as (G1 & G2 & G3).
      * now apply nls_tl.
      * intros _. now apply submits_nil_tl.
      * exact H4.
      * unfold m_done. split; [exact G1|split; [exact G2|]]. intros i. rewrite G3. unfold cntb.
        rewrite H3, (submits_nil_tl _ H3). reflexivity.
  - destruct k as [|k]; [exact Hsame|]. simpl.
    split; [|split; [reflexivity|intros i; reflexivity]]. unfold CL. simpl. auto.
Qed.

Lemma putshut_live : forall s w m x,
  base x = set_main (qput s 0 (Shut w)) m -> CL s -> submits (ops s) = [] ->
  CL (base (xm_norm x)) /\ futs (base (xm_norm x)) = futs s /\
  forall i, cntb (base (xm_norm x)) i = cntb s i.
Proof.
  intros s w m x Hx (H1 & H2 & H3 & H4) Hs.
  assert (HC : CL (base x)).
  { rewrite Hx. unfold CL. simpl. repeat split; auto.
    - destruct m; auto.
    - now apply upd_nil. }
  destruct (xnorm_live x HC) as (G1 & G2 & G3). split; [exact G1|split].
  - rewrite G2, Hx. reflexivity.
  - intros i. rewrite G3, Hx. unfold cntb. simpl.
    change (q0 (set_main (qput s 0 (Shut w)) m)) with (q0 (qput s 0 (Shut w))).
    now rewrite tasks_put_shut.
Qed.

Lemma client_live : forall c x x' l,
  CL (base x) -> nocancel (ops (base x)) = true -> main_ok (main (base x)) ->
  xm_step c x = Some (x', l) ->
  CL (base x') /\ futs (base x') = futs (base x) /\ forall i, cntb (base x') i = cntb (base x) i.
Proof.
  intros c x x' l HC Hn Hm Hst. pose proof HC as (H1 & H2 & H3 & H4). unfold xm_step in Hst.
  assert (Hdone : forall s0 o cl, ops s0 = ops (base x) -> futs s0 = futs (base x) -> queues s0 <> [] ->
            (cl = true -> submits (tl (ops (base x))) = []) ->
            (forall i, occ i (submits (tl (ops (base x)))) + occ i (tasks (q0 s0)) = cntb (base x) i) ->
            CL (m_done s0 o cl) /\ futs (m_done s0 o cl) = futs (base x) /\
            forall i, cntb (m_done s0 o cl) i = cntb (base x) i).
  { intros s0 o cl Eo Ef Hq Hcl Hc. unfold m_done. rewrite Eo.
    destruct (CL_goto s0 (tl (ops (base x))) o cl) as (G1 & G2 & G3); auto.
    - now apply nls_tl.
    - split; [exact G1|split; [congruence|]]. intros i. rewrite G3. apply Hc. }
  destruct (main (base x)) as [|k| |w|w j|w|w k|k| |] eqn:Emain; try contradiction.
  - (* MBegin *) inversion Hst; subst; clear Hst. simpl.
    split; [|split; [reflexivity|intros i; reflexivity]]. unfold CL. simpl. auto.
  - (* MStart *) inversion Hst; subst; clear Hst. simpl.
    destruct (CL_goto (base x) (ops (base x) ++ [ODrop]) [] false) as (G1 & G2 & G3); auto.
    + now apply nls_app_drop.
    + intros Hx. discriminate.
    + split; [exact G1|split; [exact G2|]]. intros i. rewrite G3. unfold cntb.
      rewrite submits_app. simpl. now rewrite app_nil_r.
  - (* MOp *)
    destruct (ops (base x)) as [|o rest] eqn:Eops; [discriminate|].
    assert (Hn' : nocancel rest = true /\ op_nocancel o = true).
    { simpl in Hn. apply andb_true_iff in Hn. tauto. }
    destruct o as [i|i|i|w cf| |]; simpl in Hn'; try (destruct Hn' as [_ Hx]; discriminate).
    + (* submit *)
      inversion Hst; subst; clear Hst. simpl.
      assert (Hcl : closed (base x) = false).
      { destruct (closed (base x)); [|reflexivity]. specialize (H2 eq_refl). discriminate H2. }
      rewrite Hcl. apply Hdone; [simpl; exact Eops|reflexivity|simpl; now apply upd_nil|intros Hx; discriminate Hx|].
      intros i0. unfold cntb. rewrite Eops. simpl.
      match goal with |- context [q0 ?s] => change (q0 s) with (q0 (qput (base x) 0 (Task i))) end.
      rewrite (q0_qput_ne _ _ H4), tasks_app, occ_app. simpl. lia.
    + (* result *)
      destruct (fdone (getf (base x) i)); [|discriminate]. inversion Hst; subst; clear Hst. simpl.
      apply Hdone; [exact Eops|reflexivity|exact H4|simpl; exact H2|].
      intros i0. unfold cntb. rewrite Eops. reflexivity.
    + (* shutdown *)
      destruct cf; [destruct Hn' as [_ Hx]; discriminate|].
      inversion Hst; subst; clear Hst. (eapply putshut_live; [simpl; reflexivity|exact HC|]).
      rewrite Eops. apply nls_closing_head; [exact H1|reflexivity].
    + inversion Hst; subst; clear Hst. (eapply putshut_live; [simpl; reflexivity|exact HC|]).
      rewrite Eops. apply nls_closing_head; [exact H1|reflexivity].
    + inversion Hst; subst; clear Hst. (eapply putshut_live; [simpl; reflexivity|exact HC|]).
      rewrite Eops. apply nls_closing_head; [exact H1|reflexivity].
  - (* MPutShut *)
    destruct k as [|k']; [discriminate|]. inversion Hst; subst; clear Hst.
    eapply putshut_live; [simpl; reflexivity|exact HC|exact H3].
  - (* MJoin *)
    destruct (ddone (disp x)); [|discriminate].
    assert (Hq : CL (set_main (base x) MQJoin) /\ futs (set_main (base x) MQJoin) = futs (base x) /\
                 forall i, cntb (set_main (base x) MQJoin) i = cntb (base x) i).
    { split; [|split; [reflexivity|intros i; reflexivity]]. unfold CL. simpl. auto. }
    assert (Hd : CL (m_done (base x) [XRaise] false) /\ futs (m_done (base x) [XRaise] false) = futs (base x) /\
                 forall i, cntb (m_done (base x) [XRaise] false) i = cntb (base x) i).
    { apply Hdone; [reflexivity|reflexivity|exact H4|intros Hx; discriminate Hx|].
      intros i. unfold cntb. now rewrite H3, (submits_nil_tl _ H3). }
    destruct (disp x); inversion Hst; subst; clear Hst; simpl; auto.
  - (* MQJoin *)
    destruct (Nat.eqb (qunf (getq (base x) 0)) 0); [|discriminate]. inversion Hst; subst; clear Hst. simpl.
    apply Hdone; [reflexivity|reflexivity|exact H4|intros _; now apply submits_nil_tl|].
    intros i. unfold cntb. now rewrite H3, (submits_nil_tl _ H3).
  - discriminate.
Qed.

(* ------------------------------------------------------------------ *)
(* the invariant of kill-free runs                                     *)
(* ------------------------------------------------------------------ *)
(* the loop thread has taken a shutdown message: it terminates the processes and ends *)
Definition tph (p : fpcT) : bool :=
  match p with GTerm _ | GTermPoll _ _ | GSTd | GSQJoin | GDone | GDead => true | _ => false end.

Definition in3 : list ds := [DFn; DArgs; DKw].

(* the files of a running process *)
Definition Qf (fs : fsys) (p : fproc) : Prop :=
  match qpc p with
  | QBegin | QOpenIn | QReadIn _ | QDepOpen _ | QDepRead _ | QDepClose _ _ | QBody | QRen1 =>
      fs_get fs (qkey p, EIn) = Some in3
  | QCloseIn ok => ok = true /\ fs_get fs (qkey p, EIn) = Some in3
  | QOpenR | QDsOut => fs_get fs (qkey p, ERdy) = Some in3
  | QCloseR ok => ok = true /\ fs_get fs (qkey p, ERdy) = Some (in3 ++ [DOut])
  | QRen2 => fs_get fs (qkey p, ERdy) = Some (in3 ++ [DOut])
  | QExit => True
  end.

Definition wok (fs : fsys) (pd : list (key * nat)) (ps : list fproc) (w : key) : Prop :=
  complete fs w \/ exists n p, assoc_key pd w = Some n /\ nth_error ps (n - 1) = Some p /\ qkey p = w.
Definition wpoll (fs : fsys) (ps : list fproc) (l : list nat) (w : key) : Prop :=
  complete fs w \/ exists n p, In n l /\ nth_error ps (n - 1) = Some p /\ qkey p = w.

Definition Ll (pc : fpcT) (fs : fsys) (pd : list (key * nat)) (ps : list fproc) : Prop :=
  match pc with
  | GConvRes _ _ _ _ ws | GListdir _ _ ws | GExistsIn _ _ ws | GRemove _ _ ws | GOpenIn _ _ ws =>
      forall w, In w ws -> wok fs pd ps w
  | GDs _ _ ws d => (forall w, In w ws -> wok fs pd ps w) /\ d <> DOut
  | GCloseIn _ _ k ws | GCheck _ k ws => (forall w, In w ws -> wok fs pd ps w) /\ fs_get fs (k, EIn) = Some in3
  | GPoll _ k ws todo kept => (forall w, In w ws -> wpoll fs ps (todo ++ kept) w) /\ fs_get fs (k, EIn) = Some in3
  | GSpawn _ k ws => (forall w, In w ws -> complete fs w) /\ fs_get fs (k, EIn) = Some in3
  | _ => True
  end.

Record JInv (prog : list op) (s : fstateX) : Prop := mkJ {
  J_out : forall k l, fs_get (fsy s) (k, EOut) = Some l -> has_ds DOut l = true;
  J_proc : forall p, In p (fps s) ->
             (qalive p = false -> complete (fsy s) (qkey p)) /\ Forall (complete (fsy s)) (qwaits p) /\ Qf (fsy s) p;
  J_mem : forall e, In e (mem s) -> wok (fsy s) (procd s) (fps s) (fst e);
  J_l : Ll (fpc s) (fsy s) (procd s) (fps s);
  J_scan : scanning (fpc s) = true ->
           forall e, In e (mem s) -> In e (scan_entries (fpc s)) \/ fdone (fut s (snd e)) = true;
  J_B : forall i, In i (submits prog) ->
          1 <= cnt s i \/ fdone (fut s i) = true \/ exists e, In e (mem s) /\ snd e = i;
  J_cl : CL (fbase s)
}.

(* ---------- monotonicity / frame facts ---------- *)
Definition keys_kept (ps ps' : list fproc) : Prop :=
  forall n p, nth_error ps n = Some p -> exists p', nth_error ps' n = Some p' /\ qkey p' = qkey p.

Lemma keys_kept_refl : forall ps, keys_kept ps ps.
Proof. intros ps n p H. eauto. Qed.

Lemma wok_mono : forall fs fs' pd ps ps' w,
  (forall k, complete fs k -> complete fs' k) -> keys_kept ps ps' -> wok fs pd ps w -> wok fs' pd ps' w.
Proof.
  intros fs fs' pd ps ps' w Hc Hk [H|(n & p & H1 & H2 & H3)]; [left; auto|right].
  destruct (Hk _ _ H2) as (p' & G1 & G2). exists n, p'. repeat split; auto. congruence.
Qed.

Lemma wpoll_mono : forall fs fs' ps ps' l w,
  (forall k, complete fs k -> complete fs' k) -> keys_kept ps ps' -> wpoll fs ps l w -> wpoll fs' ps' l w.
Proof.
  intros fs fs' ps ps' l w Hc Hk [H|(n & p & H1 & H2 & H3)]; [left; auto|right].
  destruct (Hk _ _ H2) as (p' & G1 & G2). exists n, p'. repeat split; auto. congruence.
Qed.

Lemma Ll_mono : forall pc fs fs' pd ps ps',
  (forall k, complete fs k -> complete fs' k) -> keys_kept ps ps' ->
  (forall k, preparing pc = Some k -> fs_get fs' (k, EIn) = fs_get fs (k, EIn)) ->
  Ll pc fs pd ps -> Ll pc fs' pd ps'.
Proof.
  intros pc fs fs' pd ps ps' Hc Hk Hp HL.
  destruct pc; simpl in *; auto;
    try (intros w0 Hw0; eapply wok_mono; eauto; fail).
  - destruct HL as [HL1 HL2]. split; [|exact HL2]. intros w0 Hw0. eapply wok_mono; eauto.
  - destruct HL as [HL1 HL2]. split; [|rewrite Hp by reflexivity; exact HL2]. intros w0 Hw0. eapply wok_mono; eauto.
  - destruct HL as [HL1 HL2]. split; [|rewrite Hp by reflexivity; exact HL2]. intros w0 Hw0. eapply wok_mono; eauto.
  - destruct HL as [HL1 HL2]. split; [|rewrite Hp by reflexivity; exact HL2]. intros w0 Hw0. eapply wpoll_mono; eauto.
  - destruct HL as [HL1 HL2]. split; [|rewrite Hp by reflexivity; exact HL2]. intros w0 Hw0. auto.
Qed.

Lemma Qf_frame : forall fs fs' p,
  (qalive p = true -> forall e, fs_get fs' (qkey p, e) = fs_get fs (qkey p, e)) -> Qf fs p -> Qf fs' p.
Proof.
  intros fs fs' p H HQ. unfold Qf, qalive in *. destruct (qpc p); try exact I; rewrite H by reflexivity; exact HQ.
Qed.

Lemma complete_out : forall fs k, complete fs k -> out_complete fs k = true.
Proof. intros fs k (l & E & H). unfold out_complete. now rewrite E. Qed.

(* ---------- one step of a process that finds everything it needs ---------- *)
Lemma q_step_live : forall c s n s' l p,
  q_step c s n = Some (s', l) -> nth_error (fps s) (n - 1) = Some p ->
  Qf (fsy s) p -> Forall (complete (fsy s)) (qwaits p) -> dep_ok (fsy s) p ->
  exists pc', fps s' = upd (fps s) (n - 1) (mkFP (qkey p) (qwaits p) pc') /\
              Qf (fsy s') (mkFP (qkey p) (qwaits p) pc') /\
              (pc' = QExit -> complete (fsy s') (qkey p)).
Proof.
  intros c s n s' l p Hst Hp HQ HW HD. unfold q_step in Hst. rewrite Hp in Hst.
  destruct (Nat.eqb n 0); [discriminate|].
  destruct p as [k w pc]. unfold Qf, dep_ok in *. cbn [qkey qwaits qpc] in *.
  assert (Hin3 : has_ds DFn in3 = true) by reflexivity.
  destruct pc; cbn [qkey qwaits qpc] in *.
  - (* QBegin *) inversion Hst; subst; clear Hst. unfold q_to, fsetp. fld. eexists. split; [reflexivity|].
    split; [exact HQ|discriminate].
  - (* QOpenIn *) rewrite HQ, Hin3 in Hst. inversion Hst; subst; clear Hst. unfold q_to, fsetp. fld.
    eexists. split; [reflexivity|]. split; [exact HQ|discriminate].
  - (* QReadIn *) rewrite HQ in Hst. inversion Hst; subst; clear Hst. unfold q_to, fsetp. fld.
    eexists. split; [reflexivity|]. destruct d; cbn; (split; [auto|discriminate]).
  - (* QCloseIn *) destruct HQ as [Eok HQ]. subst ok. inversion Hst; subst; clear Hst. unfold q_to, fsetp. fld.
    eexists. split; [reflexivity|]. destruct w; cbn; (split; [auto|discriminate]).
  - (* QDepOpen *)
    destruct todo as [|d rest]; [discriminate|]. destruct HD as (dn & E & HF).
    assert (Hc : complete (fsy s) d).
    { rewrite Forall_forall in HW. apply HW. rewrite E. apply in_app_iff. right. now left. }
    destruct Hc as (l0 & E0 & Hl0). rewrite E0, Hl0 in Hst. inversion Hst; subst; clear Hst. unfold q_to, fsetp. fld.
    eexists. split; [reflexivity|]. split; [exact HQ|discriminate].
  - (* QDepRead *)
    destruct todo as [|d rest]; [discriminate|]. inversion Hst; subst; clear Hst. unfold q_to, fsetp. fld.
    eexists. split; [reflexivity|]. split; [exact HQ|discriminate].
  - (* QDepClose *)
    destruct todo as [|d rest]; [discriminate|]. inversion Hst; subst; clear Hst. unfold q_to, fsetp. fld.
    eexists. split; [reflexivity|]. destruct flag; [destruct rest|]; cbn; (split; [auto|discriminate]).
  - (* QBody *) inversion Hst; subst; clear Hst. unfold q_to, fsetp. fld.
    eexists. split; [reflexivity|]. split; [exact HQ|discriminate].
  - (* QRen1 *) rewrite HQ in Hst. inversion Hst; subst; clear Hst. unfold q_to, fsetp. fld.
    eexists. split; [reflexivity|]. cbn. split; [apply fs_get_set_same|discriminate].
  - (* QOpenR *)
    assert (Eh : fs_has (fsy s) (k, ERdy) = true) by (apply fs_has_true; eauto).
    rewrite Eh in Hst. inversion Hst; subst; clear Hst. unfold q_to, fsetp. fld.
    eexists. split; [reflexivity|]. split; [exact HQ|discriminate].
  - (* QDsOut *)
    rewrite HQ in Hst. cbn in Hst. inversion Hst; subst; clear Hst. unfold q_to, fsetp. fld.
    eexists. split; [reflexivity|]. cbn. split; [split; [reflexivity|apply fs_get_set_same]|discriminate].
  - (* QCloseR *) destruct HQ as [Eok HQ]. subst ok. inversion Hst; subst; clear Hst. unfold q_to, fsetp. fld.
    eexists. split; [reflexivity|]. split; [exact HQ|discriminate].
  - (* QRen2 *) rewrite HQ in Hst. inversion Hst; subst; clear Hst. unfold q_to, fsetp. fld.
    eexists. split; [reflexivity|]. split; [exact I|]. intros _. eexists. split; [apply fs_get_set_same|reflexivity].
  - discriminate.
Qed.

(* ---------- what a loop-thread step does to the directory ---------- *)
Lemma f_step_fs_frame : forall c s s' l, f_step c s = Some (s', l) ->
  forall pa, fs_get (fsy s') pa = fs_get (fsy s) pa \/ exists k, preparing (fpc s) = Some k /\ pa = (k, EIn).
Proof.
  intros c s s' l Hst pa. unfold f_step in Hst.
  destruct (fpc s) eqn:Hpc; step_cases Hst; in_cases Hst; inversion Hst; subst; clear Hst;
    unfold after_check, kill_proc, fsetp; goal_cases; rewrite ?fsy_conv, ?fsy_scan_next; fld;
    try (left; reflexivity);
    (destruct (path_eqb pa (k, EIn)) eqn:Epa;
     [apply path_eqb_eq in Epa; right; exists k; split; [reflexivity|exact Epa]
     |left; first [apply fs_get_set_other|apply fs_get_del_other]; intros Ex; subst pa;
      rewrite path_eqb_refl in Epa; discriminate Epa]).
Qed.

(* ---------- client steps ---------- *)
Lemma jinv_client : forall prog s x' l,
  FInv s -> JInv prog s -> xm_step dummy_xcfg (fx s) = Some (x', l) -> JInv prog (set_fx s x').
Proof.
  intros prog s x' l H J Hst.
  destruct (client_live _ _ _ _ (J_cl _ _ J) (I_nc _ H) (I_main _ H) Hst) as (G1 & G2 & G3).
  assert (Ef : forall i, fut (set_fx s x') i = fut s i).
  { intros i. apply fut_eq. unfold fbase. fld. exact G2. }
  assert (Ec : forall i, cnt (set_fx s x') i = cnt s i).
  { intros i. unfold cnt, fbase. fld. now rewrite G3. }
  constructor; fld.
  - apply (J_out _ _ J).
  - apply (J_proc _ _ J).
  - apply (J_mem _ _ J).
  - apply (J_l _ _ J).
  - intros Hs e He. rewrite Ef. apply (J_scan _ _ J Hs e He).
  - intros i Hi. rewrite Ec, Ef. apply (J_B _ _ J i Hi).
  - exact G1.
Qed.

(* ---------- process steps ---------- *)
Lemma jinv_qstep : forall c prog s n s' l,
  FInv s -> JInv prog s -> q_step c s n = Some (s', l) -> JInv prog s'.
Proof.
  intros c prog s n s' l H J Hst.
  pose proof (finv_qstep _ _ _ _ _ H Hst) as H'.
  destruct (q_step_spec _ _ _ _ _ Hst) as (p & pc0 & Hp & Ha & Efx & Epc & Emem & _ & Hfs1 & _ & _).
  pose proof (nth_error_In _ _ Hp) as Hpin.
  destruct (J_proc _ _ J p Hpin) as (_ & HW & HQ).
  destruct (q_step_live _ _ _ _ _ _ Hst Hp HQ HW (I_d _ H p Hpin)) as (pc' & Efps & HQ' & Hex).
  destruct (q_step_frame _ _ _ _ _ Hst) as (_ & _ & _ & Epd).
  assert (Hlen : n - 1 < length (fps s)) by (apply nth_error_Some; congruence).
  assert (Hal : qalive (mkFP (qkey p) (qwaits p) pc') = false -> pc' = QExit).
  { unfold qalive. simpl. destruct pc'; intros Hx; try discriminate Hx; reflexivity. }
  set (np := mkFP (qkey p) (qwaits p) pc') in *.
  assert (Hstab : forall k l0, fs_get (fsy s) (k, EOut) = Some l0 -> fs_get (fsy s') (k, EOut) = Some l0).
  { eapply out_stable; [exact H|]. apply (ft_step c s (TP n) s' l). exact Hst. }
  assert (Hcm : forall k, complete (fsy s) k -> complete (fsy s') k) by (apply complete_stab; exact Hstab).
  assert (Hnth : forall m q, nth_error (fps s') m = Some q ->
            (m = n - 1 /\ q = np) \/ (m <> n - 1 /\ nth_error (fps s) m = Some q)).
  { intros m q Hm. rewrite Efps in Hm. destruct (nth_error_upd _ _ _ _ _ Hm) as [(E1 & E2 & _)|(E1 & E2)]; auto. }
  assert (Hnp : nth_error (fps s') (n - 1) = Some np) by (rewrite Efps; now apply nth_error_upd_same).
  assert (Hkk : keys_kept (fps s) (fps s')).
  { intros m q Hm. destruct (Nat.eq_dec m (n - 1)) as [E|E].
    - subst m. exists np. split; [exact Hnp|]. rewrite Hp in Hm. inversion Hm; subst. reflexivity.
    - exists q. split; [rewrite Efps, nth_error_upd_other; auto|reflexivity]. }
  assert (Hoth : forall m q, m <> n - 1 -> nth_error (fps s) m = Some q -> qalive q = true ->
            forall e, fs_get (fsy s') (qkey q, e) = fs_get (fsy s) (qkey q, e)).
  { intros m q Hm Hq Hqa e. apply Hfs1. simpl. intros E. apply Hm. eapply (I_p1 _ H); eauto. }
  constructor.
  - (* J_out *)
    intros k l0 Hl0. destruct (key_eq_dec k (qkey p)) as [E|E].
    + subst k. destruct (qalive np) eqn:Enp.
      * pose proof (I_p2b _ H' np (nth_error_In _ _ Hnp) Enp) as Hb. simpl in Hb. congruence.
      * destruct (Hex (Hal eq_refl)) as (l1 & E1 & Hl1). congruence.
    + rewrite Hfs1 in Hl0 by (simpl; exact E). apply (J_out _ _ J k l0 Hl0).
  - (* J_proc *)
    intros q Hq. apply In_nth_error in Hq. destruct Hq as (m & Hm). destruct (Hnth _ _ Hm) as [[E1 E2]|[E1 E2]].
    + subst q. split; [|split].
      * intros Hna. apply Hex. now apply Hal.
      * simpl. eapply complete_mono_forall; [exact Hcm|exact HW].
      * exact HQ'.
    + destruct (J_proc _ _ J q (nth_error_In _ _ E2)) as (A1 & A2 & A3). split; [|split].
      * intros Hna. apply Hcm. auto.
      * eapply complete_mono_forall; eauto.
      * eapply Qf_frame; [|exact A3]. intros Hqa e. eapply Hoth; eauto.
  - (* J_mem *)
    rewrite Emem, Epd. intros e He. eapply wok_mono; [exact Hcm|exact Hkk|apply (J_mem _ _ J e He)].
  - (* J_l *)
    rewrite Epc, Epd. eapply Ll_mono; [exact Hcm|exact Hkk| |apply (J_l _ _ J)].
    intros k Hk. apply Hfs1. simpl. intros E.
    destruct (I_r _ H k (preparing_prepL _ _ Hk)) as [Hno _]. apply (Hno p Hpin Ha). now symmetry.
  - (* J_scan *)
    rewrite Epc, Emem. intros Hs e He. rewrite (fut_eq s s') by (unfold fbase; now rewrite Efx).
    apply (J_scan _ _ J Hs e He).
  - (* J_B *)
    intros i Hi. rewrite Emem. rewrite (fut_eq s s') by (unfold fbase; now rewrite Efx).
    replace (cnt s' i) with (cnt s i) by (unfold cnt, fbase; now rewrite Efx, Epc).
    apply (J_B _ _ J i Hi).
  - unfold fbase. rewrite Efx. apply (J_cl _ _ J).
Qed.

(* ---------- general facts about loop-thread steps ---------- *)
Lemma fbase_conv : forall c s i todo pat waits, fbase (conv c s i todo pat waits) = fbase s.
Proof. intros c s i todo pat waits. destruct (conv_spec c s i todo pat waits) as (pc' & E & _). now rewrite E. Qed.

Lemma fbase_scan_next : forall s todo kept, fbase (scan_next s todo kept) = fbase s.
Proof. intros s [|e t] kept; reflexivity. Qed.

Lemma f_step_CL : forall c s s' l, CL (fbase s) -> f_step c s = Some (s', l) -> CL (fbase s').
Proof.
  intros c s s' l HC Hst. pose proof HC as (_ & _ & _ & Hq). unfold f_step in Hst.
  destruct (fpc s) eqn:Hpc; step_cases Hst; in_cases Hst; inversion Hst; subst; clear Hst;
    unfold after_check, kill_proc, fsetp; goal_cases; rewrite ?fbase_conv, ?fbase_scan_next; unfold fbase in *; fld;
    try exact HC;
    (eapply CL_same; [exact HC|reflexivity|reflexivity|reflexivity|]; simpl;
     first [exact Hq | apply upd_nil; exact Hq]).
Qed.

Lemma f_step_fut_mono : forall c s s' l, f_step c s = Some (s', l) ->
  forall i, fdone (fut s i) = true -> fdone (fut s' i) = true.
Proof.
  intros c s s' l Hst i0 Hi. unfold f_step in Hst. unfold fut in *.
  destruct (fpc s) eqn:Hpc; step_cases Hst; in_cases Hst; inversion Hst; subst; clear Hst;
    unfold after_check, kill_proc, fsetp; goal_cases; rewrite ?fbase_conv, ?fbase_scan_next; unfold fbase in *; fld;
    try exact Hi;
    match goal with
    | |- context [setf ?b ?f0 ?v] => destruct (getf_setf_cases b f0 v i0) as [E|E]; rewrite E; [reflexivity|exact Hi]
    end.
Qed.

Lemma conv_spec2 : forall c s i todo pat waits,
  exists pc', conv c s i todo pat waits = set_fpc s pc' /\
    ((pc' = GTd /\ exists pat' j, assoc_key (mem s) (fcanon c i, pat') = Some j)
     \/ (exists pat' w', (pc' = GListdir i (fcanon c i, pat') w' \/ exists d rest, pc' = GConvRes i d rest pat' w') /\
           forall w, In w w' -> In w waits \/ exists f, In (w, f) (mem s))).
Proof.
  intros c s i todo. induction todo as [|d rest IH]; intros pat waits; simpl.
  - destruct (assoc_key (mem s) (fcanon c i, pat)) as [j|] eqn:E.
    + exists GTd. split; [reflexivity|]. left. split; [reflexivity|]. now exists pat, j.
    + exists (GListdir i (fcanon c i, pat) waits). split; [reflexivity|]. right. exists pat, waits.
      split; [now left|]. intros w Hw. now left.
  - destruct (mem_find (mem s) d) as [kd|] eqn:E.
    + destruct (IH (pat ++ [Some (key_tree kd)]) (waits ++ [kd])) as (pc' & E1 & Hc). exists pc'. split; [exact E1|].
      destruct Hc as [Hc|(pat' & w' & Hpc & Hw)]; [now left|right]. exists pat', w'. split; [exact Hpc|].
      intros w Hin. destruct (Hw w Hin) as [Hx|Hx]; [|now right].
      apply in_app_iff in Hx. destruct Hx as [Hx|[Hx|[]]]; [now left|right]. subst w. exists d. now apply mem_find_In.
    + exists (GConvRes i d rest pat waits). split; [reflexivity|]. right. exists pat, waits.
      split; [right; now exists d, rest|]. intros w Hw. now left.
Qed.

Lemma after_check_spec : forall fs pd ps ws w, In w ws -> wok fs pd ps w ->
  wpoll fs ps (flat_map (fun w => match assoc_key pd w with Some p => [p] | None => [] end) ws) w.
Proof.
  intros fs pd ps ws w Hin [H|(n & p & H1 & H2 & H3)]; [now left|right]. exists n, p. split; [|auto].
  apply in_flat_map. exists w. split; [exact Hin|]. rewrite H1. now left.
Qed.

Lemma poll_step : forall fs ps p rest kept w,
  (forall q, In q ps -> qalive q = false -> complete fs (qkey q)) ->
  wpoll fs ps ((p :: rest) ++ kept) w ->
  wpoll fs ps (rest ++ (if qalive (nth (p - 1) ps (mkFP (0, []) [] QExit)) then kept ++ [p] else kept)) w.
Proof.
  intros fs ps p rest kept w Hex [H|(n & q & H1 & H2 & H3)]; [now left|].
  simpl in H1. destruct H1 as [H1|H1].
  - subst n. rewrite (nth_error_nth _ _ _ H2). destruct (qalive q) eqn:Ea.
    + right. exists p, q. repeat split; auto. apply in_app_iff. right. apply in_app_iff. right. now left.
    + left. rewrite <- H3. apply Hex; [eapply nth_error_In; eauto|exact Ea].
  - right. exists n, q. repeat split; auto. apply in_app_iff in H1. apply in_app_iff.
    destruct H1 as [H1|H1]; [now left|right]. destruct (qalive _); [apply in_app_iff; now left|exact H1].
Qed.

Lemma wpoll_nil : forall fs ps w, wpoll fs ps [] w -> complete fs w.
Proof. intros fs ps w [H|(n & q & [] & _)]. exact H. Qed.

(* ---------- master lemma 1: memory_dict, process_dict and processes unchanged ---------- *)
Lemma jinv_m1 : forall prog s s',
  FInv s -> JInv prog s ->
  fps s' = fps s -> mem s' = mem s -> procd s' = procd s ->
  (forall pa, fs_get (fsy s') pa = fs_get (fsy s) pa \/ exists k, preparing (fpc s) = Some k /\ pa = (k, EIn)) ->
  Ll (fpc s') (fsy s') (procd s) (fps s) ->
  (scanning (fpc s') = true ->
   forall e, In e (mem s) -> In e (scan_entries (fpc s')) \/ fdone (fut s' (snd e)) = true) ->
  (forall i, fdone (fut s i) = true -> fdone (fut s' i) = true) ->
  (forall i, 1 <= cnt s i -> 1 <= cnt s' i) ->
  CL (fbase s') ->
  JInv prog s'.
Proof.
  intros prog s s' H J Efps Emem Epd Hfr HL Hsc Hfm Hcnt HC.
  assert (Hout : forall k, fs_get (fsy s') (k, EOut) = fs_get (fsy s) (k, EOut)).
  { intros k. destruct (Hfr (k, EOut)) as [E|(k0 & _ & E)]; [exact E|discriminate E]. }
  assert (Hcm : forall k, complete (fsy s) k -> complete (fsy s') k) by (apply complete_ext; exact Hout).
  constructor; rewrite ?Efps, ?Emem, ?Epd; auto.
  - intros k l0. rewrite Hout. apply (J_out _ _ J).
  - intros p Hp. destruct (J_proc _ _ J p Hp) as (A1 & A2 & A3). split; [|split].
    + intros Hna. apply Hcm. auto.
    + eapply complete_mono_forall; eauto.
    + eapply Qf_frame; [|exact A3]. intros Hpa e. destruct (Hfr (qkey p, e)) as [E|(k0 & Hk0 & E)]; [exact E|].
      exfalso. destruct (I_r _ H k0 (preparing_prepL _ _ Hk0)) as [Hno _]. apply (Hno p Hp Hpa). congruence.
  - intros e He. eapply wok_mono; [exact Hcm|apply keys_kept_refl|apply (J_mem _ _ J e He)].
  - intros i Hi. destruct (J_B _ _ J i Hi) as [B|[B|B]]; auto.
Qed.

(* ---------- master lemma 2: the next entry of a scan, or its end ---------- *)
Lemma jinv_scan_next : forall prog s todo kept,
  FInv s -> JInv prog s -> held (fpc s) = None ->
  (forall e, In e (mem s) -> In e (todo ++ kept) \/ fdone (fut s (snd e)) = true) ->
  incl kept (mem s) ->
  JInv prog (scan_next s todo kept).
Proof.
  intros prog s todo kept H J Hh Hkeep Hinc.
  assert (Hc0 : forall i, cnt s i = cntb (fbase s) i) by (intros i; unfold cnt, hcnt; rewrite Hh; lia).
  destruct (scan_next_cases s todo kept) as [[Et E]|[Et E]]; rewrite E.
  - subst todo. simpl in Hkeep. constructor; fld; simpl.
    + apply (J_out _ _ J).
    + apply (J_proc _ _ J).
    + intros e He. apply (J_mem _ _ J e (Hinc e He)).
    + exact I.
    + intros Hx. discriminate Hx.
    + intros i Hi. unfold cnt, fut, fbase. fld. unfold hcnt. simpl. rewrite Nat.add_0_r.
      destruct (J_B _ _ J i Hi) as [B|[B|(e & He & B)]].
      * left. rewrite Hc0 in B. exact B.
      * right. left. exact B.
      * destruct (Hkeep e He) as [K|K]; [right; right; now exists e|right; left; now rewrite <- B].
    + apply (J_cl _ _ J).
  - apply jinv_m1 with (s := s); fld;
      [exact H|exact J|reflexivity|reflexivity|reflexivity|intros pa; now left|exact I
      |simpl; intros _; exact Hkeep|intros i Hi; exact Hi| |apply (J_cl _ _ J)].
    intros i Hi. rewrite Hc0 in Hi. unfold cnt, fbase in *. fld. lia.
Qed.

(* ---------- master lemma 3: the conversion of the arguments ---------- *)
Lemma jinv_conv : forall c prog s s1 i todo pat waits,
  (forall a b, fcanon c a = fcanon c b -> a = b) ->
  FInv s -> MK c s -> JInv prog s -> scanning (fpc s) = false ->
  fps s1 = fps s -> mem s1 = mem s -> procd s1 = procd s -> fsy s1 = fsy s -> futs (fbase s1) = futs (fbase s) ->
  CL (fbase s1) ->
  1 <= cnt s i ->
  (forall j, cnt s j <= cntb (fbase s1) j + (if Nat.eqb j i then 1 else 0)) ->
  (forall w, In w waits -> wok (fsy s) (procd s) (fps s) w) ->
  JInv prog (conv c s1 i todo pat waits).
Proof.
  intros c prog s s1 i todo pat waits Hinj H [HMK _] J Hsc Efps Emem Epd Efsy Efut HC Hci Hcnt Hw.
  destruct (conv_spec2 c s1 i todo pat waits) as (pc' & E & Hc). rewrite E.
  destruct Hc as [[Epc (pat' & j & Ha)]|(pat' & w' & Hpc & Hw')].
  - exfalso. rewrite Emem in Ha. apply assoc_key_In in Ha.
    assert (Ej : fcanon c i = fcanon c j) by (apply (HMK ((fcanon c i, pat'), j)); apply in_app_iff; now left).
    apply Hinj in Ej. subst j. destruct (I_u2 _ H _ Ha) as [Hz _]. simpl in Hz. lia.
  - assert (Hh : forall j, hcnt pc' j = if Nat.eqb j i then 1 else 0).
    { intros j. destruct Hpc as [Hpc|(d & rest & Hpc)]; subst pc'; reflexivity. }
    assert (HLn : Ll pc' (fsy s) (procd s) (fps s)).
    { assert (Hall : forall w, In w w' -> wok (fsy s) (procd s) (fps s) w).
      { intros w Hin. destruct (Hw' w Hin) as [Hx|(f & Hx)]; [now apply Hw|].
        rewrite Emem in Hx. apply (J_mem _ _ J _ Hx). }
      destruct Hpc as [Hpc|(d & rest & Hpc)]; subst pc'; exact Hall. }
    apply jinv_m1 with (s := s); fld;
      [exact H|exact J|exact Efps|exact Emem|exact Epd|intros pa; left; now rewrite Efsy|now rewrite Efsy| | | |exact HC].
    + intros Hx. destruct Hpc as [Hpc|(d & rest & Hpc)]; subst pc'; discriminate Hx.
    + intros i0 Hi0. rewrite (fut_eq s (set_fpc s1 pc')); [exact Hi0|]. unfold fbase in *. fld. exact Efut.
    + intros j Hj. unfold cnt at 1. unfold fbase in *. fld. rewrite Hh. specialize (Hcnt j). lia.
Qed.

(* ---------- master lemma 4: a new memory_dict entry, possibly with a new process ---------- *)
Lemma jinv_add : forall prog s s' i k,
  FInv s -> JInv prog s -> held (fpc s) = Some i ->
  fx s' = fx s -> fsy s' = fsy s -> mem s' = mem s ++ [(k, i)] -> fpc s' = GTd ->
  (forall p, In p (fps s') ->
     In p (fps s) \/ (qalive p = true /\ Forall (complete (fsy s)) (qwaits p) /\ Qf (fsy s) p)) ->
  (forall e, In e (mem s) -> wok (fsy s) (procd s) (fps s) (fst e) -> wok (fsy s) (procd s') (fps s') (fst e)) ->
  wok (fsy s) (procd s') (fps s') k ->
  JInv prog s'.
Proof.
  intros prog s s' i k H J Hh Efx Efsy Emem Epc Hps Hwk Hk.
  assert (Eb : fbase s' = fbase s) by (unfold fbase; now rewrite Efx).
  assert (Ef : forall j, fut s' j = fut s j) by (intros j; unfold fut; now rewrite Eb).
  constructor; rewrite ?Efsy, ?Emem, ?Epc, ?Eb.
  - apply (J_out _ _ J).
  - intros p Hp. destruct (Hps p Hp) as [Hp'|(A1 & A2 & A3)]; [apply (J_proc _ _ J p Hp')|].
    split; [intros Hx; rewrite A1 in Hx; discriminate Hx|split; assumption].
  - intros e He. apply in_app_iff in He. destruct He as [He|[He|[]]].
    + apply Hwk; [exact He|apply (J_mem _ _ J e He)].
    + subst e. exact Hk.
  - exact I.
  - intros Hx. discriminate Hx.
  - intros j Hj. rewrite Ef. unfold cnt. rewrite Eb, Epc. unfold hcnt at 1. simpl. rewrite Nat.add_0_r.
    destruct (Nat.eq_dec j i) as [E|E].
    + subst j. right. right. exists (k, i). split; [apply in_app_iff; right; now left|reflexivity].
    + destruct (J_B _ _ J j Hj) as [B|[B|(e & He & B)]].
      * left. unfold cnt, hcnt in B. rewrite Hh in B. apply Nat.eqb_neq in E. rewrite E in B. lia.
      * right. left. exact B.
      * right. right. exists e. split; [apply in_app_iff; now left|exact B].
  - apply (J_cl _ _ J).
Qed.

(* ---------- loop-thread steps ---------- *)
Lemma tph_fstep : forall c s s' l, tph (fpc s) = true -> f_step c s = Some (s', l) -> tph (fpc s') = true.
Proof.
  intros c s s' l Ht Hst. unfold f_step in Hst.
  destruct (fpc s) eqn:Hpc; try discriminate Ht; step_cases Hst; inversion Hst; subst; clear Hst;
    unfold kill_proc, fsetp; fld; goal_cases; try reflexivity; rewrite Hpc; reflexivity.
Qed.

Lemma scan_keep : forall {A} (m : list A) (x : A) todo kept (P : A -> Prop),
  (forall e, In e m -> In e (x :: todo ++ kept) \/ P e) ->
  forall e, In e m -> In e (todo ++ (kept ++ [x])) \/ P e.
Proof.
  intros A m x todo kept P Hk e He. destruct (Hk e He) as [[X|X]|X]; [left|left|now right].
  - subst e. rewrite !in_app_iff. right. right. now left.
  - apply in_app_iff in X. rewrite !in_app_iff. tauto.
Qed.

Lemma scan_keep_incl : forall {A} (m : list A) (x : A) todo kept,
  incl (x :: todo ++ kept) m -> incl (kept ++ [x]) m.
Proof.
  intros A m x todo kept Hi e He. apply Hi. apply in_app_iff in He. destruct He as [He|[He|[]]].
  - right. apply in_app_iff. now right.
  - now left.
Qed.

Ltac cntT Hpc :=
  let i0 := fresh "i" in let Hi0 := fresh "Hi" in
  intros i0 Hi0; unfold cnt, fbase in *; fld; rewrite ?cntb_qtd; rewrite Hpc in Hi0;
  unfold hcnt in *; cbn [held] in *; lia.

Ltac m1T s H J Hfr Hfm HC' :=
  right; apply jinv_m1 with (s := s);
  [exact H|exact J|reflexivity|reflexivity|reflexivity
  |match goal with Hpc : fpc s = _ |- _ => rewrite Hpc end; exact Hfr| | |exact Hfm| |exact HC'].

Lemma jinv_fstep : forall c prog s s' l,
  (forall a b, fcanon c a = fcanon c b -> a = b) ->
  FInv s -> MK c s -> JInv prog s -> f_step c s = Some (s', l) -> tph (fpc s') = true \/ JInv prog s'.
Proof.
  intros c prog s s' l Hinj H HMK J Hst.
  destruct (tph (fpc s)) eqn:Et; [left; eapply tph_fstep; eauto|].
  pose proof (finv_fstep _ _ _ _ H Hst) as H'.
  pose proof (f_step_fs_frame _ _ _ _ Hst) as Hfr.
  pose proof (f_step_CL _ _ _ _ (J_cl _ _ J) Hst) as HC'.
  pose proof (f_step_fut_mono _ _ _ _ Hst) as Hfm.
  assert (Hout : forall k, fs_get (fsy s') (k, EOut) = fs_get (fsy s) (k, EOut)).
  { intros k. destruct (Hfr (k, EOut)) as [E|(k0 & _ & E)]; [exact E|discriminate E]. }
  assert (Hcm : forall k, complete (fsy s) k -> complete (fsy s') k) by (apply complete_ext; exact Hout).
  assert (Hwok : forall w, wok (fsy s) (procd s) (fps s) w -> wok (fsy s') (procd s) (fps s) w).
  { intros w. apply wok_mono; [exact Hcm|apply keys_kept_refl]. }
  assert (Hdead : fpc s' <> GDead).
  { intros E. pose proof (I_l _ H') as X. rewrite E in X. exact X. }
  pose proof (I_l _ H) as HL. pose proof (J_l _ _ J) as JL. pose proof (I_scan _ H) as Hscan.
  pose proof (J_scan _ _ J) as JS.
  unfold f_step in Hst.
  destruct (fpc s) as [ | |i d rest pat waits|i k waits|i k waits|i k waits|i k waits|i k waits d|ok i k waits
                       |i k waits|i k waits todo kept|i k waits| |todo kept|k f todo kept|k f todo kept
                       |k f todo kept|flag k f todo kept|k f todo kept|todo|p todo| | | | ] eqn:Hpc;
    simpl in HL, JL; try discriminate Et.
  - (* GNone *)
    destruct (disp (fx s)); try discriminate. inversion Hst; subst; clear Hst.
    m1T s H J Hfr Hfm HC'; [exact I|intros Hx; discriminate Hx|cntT Hpc].
  - (* GGet *)
    destruct (qitems (getq (fbase s) 0)) as [|it l0] eqn:Eq.
    + inversion Hst; subst; clear Hst. right. apply jinv_scan_next; [exact H|exact J|rewrite Hpc; reflexivity| |apply incl_nil_l].
      intros e He. left. rewrite app_nil_r. exact He.
    + destruct it as [i|w]; inversion Hst; subst; clear Hst.
      * right. rewrite fbase_conv in HC'.
        apply jinv_conv with (s := s);
          [exact Hinj|exact H|exact HMK|exact J|rewrite Hpc; reflexivity|reflexivity|reflexivity|reflexivity
          |reflexivity|reflexivity|exact HC'| | |intros w0 []].
        -- unfold cnt. pose proof (cntb_qpop_task (fbase s) i l0 i Eq) as X. rewrite Nat.eqb_refl in X. lia.
        -- intros j. unfold cnt. rewrite Hpc. unfold hcnt. simpl.
           pose proof (cntb_qpop_task (fbase s) i l0 j Eq) as X. unfold fbase in *. fld. lia.
      * left. fld. destruct (map snd (procd s)); reflexivity.
  - (* GConvRes *)
    destruct (getf (fbase s) d) eqn:Ef; try discriminate; inversion Hst; subst; clear Hst;
      try (exfalso; apply Hdead; reflexivity).
    right. apply jinv_conv with (s := s);
      [exact Hinj|exact H|exact HMK|exact J|rewrite Hpc; reflexivity|reflexivity|reflexivity|reflexivity
      |reflexivity|reflexivity|apply (J_cl _ _ J)| | |exact JL].
    + unfold cnt. rewrite Hpc. unfold hcnt. simpl. rewrite Nat.eqb_refl. lia.
    + intros j. unfold cnt. rewrite Hpc. unfold hcnt. simpl. lia.
  - (* GListdir *)
    destruct (I_r _ H k) as [Hno Hne]; [rewrite Hpc; reflexivity|].
    destruct (fs_has (fsy s) (k, EOut)) eqn:Eh; inversion Hst; subst; clear Hst.
    + right. rewrite (assoc_set_fresh _ _ _ Hne).
      apply jinv_add with (s := s) (i := i) (k := k); fld;
        [exact H|exact J|rewrite Hpc; reflexivity|reflexivity|reflexivity|reflexivity|reflexivity
        |intros p Hp; now left|intros e He Hw; exact Hw|].
      left. apply fs_has_true in Eh. destruct Eh as (l1 & El1). exists l1. split; [exact El1|apply (J_out _ _ J k l1 El1)].
    + m1T s H J Hfr Hfm HC'; [|intros Hx; discriminate Hx|cntT Hpc].
      fld. simpl. intros w Hw. apply Hwok. now apply JL.
  - (* GExistsIn *)
    inversion Hst; subst; clear Hst.
    destruct (fs_has (fsy s) (k, EIn)) eqn:Eh;
      (m1T s H J Hfr Hfm HC'; [|intros Hx; discriminate Hx|cntT Hpc]);
      fld; simpl; intros w Hw; apply Hwok; now apply JL.
  - (* GRemove *)
    rewrite HL in Hst. inversion Hst; subst; clear Hst.
    m1T s H J Hfr Hfm HC'; [|intros Hx; discriminate Hx|cntT Hpc].
    simpl. intros w Hw. apply Hwok. now apply JL.
  - (* GOpenIn *)
    assert (Eh : fs_has (fsy s) (k, EIn) = false) by now apply fs_has_false.
    rewrite Eh in Hst. inversion Hst; subst; clear Hst.
    m1T s H J Hfr Hfm HC'; [|intros Hx; discriminate Hx|cntT Hpc].
    simpl. split; [|discriminate]. intros w Hw. apply Hwok. now apply JL.
  - (* GDs *)
    rewrite HL in Hst. destruct JL as [JL1 JL2].
    destruct d; simpl in Hst; [| | |exfalso; now apply JL2]; inversion Hst; subst; clear Hst;
      (m1T s H J Hfr Hfm HC'; [|intros Hx; discriminate Hx|cntT Hpc]); simpl.
    + split; [|discriminate]. intros w Hw. apply Hwok. now apply JL1.
    + split; [|discriminate]. intros w Hw. apply Hwok. now apply JL1.
    + split; [|apply fs_get_set_same]. intros w Hw. apply Hwok. now apply JL1.
  - (* GCloseIn *)
    destruct HL as [Eok Eh]. subst ok. inversion Hst; subst; clear Hst. destruct JL as [JL1 JL2].
    m1T s H J Hfr Hfm HC'; [|intros Hx; discriminate Hx|cntT Hpc].
    simpl. split; [|exact JL2]. intros w Hw. apply Hwok. now apply JL1.
  - (* GCheck *)
    rewrite HL in Hst. inversion Hst; subst; clear Hst. destruct JL as [JL1 JL2]. unfold after_check in *.
    match goal with |- context [flat_map ?f ?l0] => destruct (flat_map f l0) eqn:Epl end;
      (m1T s H J Hfr Hfm HC'; [|intros Hx; discriminate Hx|cntT Hpc]); simpl; (split; [|exact JL2]); intros w Hw.
    + apply (wpoll_nil (fsy s) (fps s)). rewrite <- Epl. apply after_check_spec; [exact Hw|now apply JL1].
    + rewrite app_nil_r. rewrite <- Epl. apply after_check_spec; [exact Hw|now apply JL1].
  - (* GPoll *)
    destruct JL as [JL1 JL2]. destruct todo as [|p rest]; [discriminate|].
    assert (Hps : forall w, In w waits ->
              wpoll (fsy s) (fps s) (rest ++ (if qalive (fgetp s p) then kept ++ [p] else kept)) w).
    { intros w Hw. unfold fgetp. apply poll_step; [|now apply JL1].
      intros q Hq Hqa. now apply (J_proc _ _ J q Hq). }
    set (kept' := if qalive (fgetp s p) then kept ++ [p] else kept) in *.
    destruct rest as [|r rest']; inversion Hst; subst; clear Hst.
    + simpl in Hps. destruct kept' as [|n0 kept''];
        (m1T s H J Hfr Hfm HC'; [|intros Hx; discriminate Hx|cntT Hpc]); simpl; (split; [|exact JL2]); intros w Hw.
      * apply (wpoll_nil (fsy s) (fps s)). now apply Hps.
      * rewrite app_nil_r. now apply Hps.
    + m1T s H J Hfr Hfm HC'; [|intros Hx; discriminate Hx|cntT Hpc]. simpl. split; [exact Hps|exact JL2].
  - (* GSpawn *)
    destruct (I_r _ H k) as [Hno Hne]; [rewrite Hpc; reflexivity|]. destruct JL as [JL1 JL2].
    inversion Hst; subst; clear Hst. right. rewrite (assoc_set_fresh _ _ _ Hne).
    apply jinv_add with (s := s) (i := i) (k := k); fld;
      [exact H|exact J|rewrite Hpc; reflexivity|reflexivity|reflexivity|reflexivity|reflexivity| | |].
    + intros p Hp. apply in_app_iff in Hp. destruct Hp as [Hp|[Hp|[]]]; [now left|right]. subst p.
      split; [reflexivity|]. split; [apply Forall_forall; exact JL1|exact JL2].
    + intros e He [Hc|(n0 & p0 & A1 & A2 & A3)]; [now left|right]. exists n0, p0. split; [|split; [|exact A3]].
      * rewrite assoc_key_set. rewrite (proj2 (key_eqb_neq _ _) (Hne e He)). exact A1.
      * rewrite nth_error_app1; [exact A2|]. apply nth_error_Some. congruence.
    + right. exists (S (length (fps s))), (mkFP k waits QBegin). split; [|split; [|reflexivity]].
      * rewrite assoc_key_set, key_eqb_refl. reflexivity.
      * replace (S (length (fps s)) - 1) with (length (fps s)) by lia.
        rewrite nth_error_app2 by lia. rewrite Nat.sub_diag. reflexivity.
  - (* GTd *)
    inversion Hst; subst; clear Hst.
    m1T s H J Hfr Hfm HC'; [exact I|intros Hx; discriminate Hx|cntT Hpc].
  - (* GScan *)
    destruct todo as [|[k f] rest]; [discriminate|]. simpl in JS. specialize (JS eq_refl). simpl in Hscan.
    destruct (fdone (getf (fbase s) f)) eqn:Ed; inversion Hst; subst; clear Hst.
    + right. apply jinv_scan_next; [exact H|exact J|rewrite Hpc; reflexivity| |].
      * intros e He. destruct (JS e He) as [[X|X]|X]; [right; subst e; exact Ed|now left|now right].
      * intros e He. apply Hscan. right. apply in_app_iff. now right.
    + m1T s H J Hfr Hfm HC'; [exact I|simpl; intros _; exact JS|cntT Hpc].
  - (* GExistsOut *)
    simpl in JS. specialize (JS eq_refl). simpl in Hscan.
    destruct (fs_has (fsy s) (k, EOut)) eqn:Eh; inversion Hst; subst; clear Hst.
    + m1T s H J Hfr Hfm HC'; [exact I|simpl; intros _; exact JS|cntT Hpc].
    + right. apply jinv_scan_next; [exact H|exact J|rewrite Hpc; reflexivity| |].
      * apply scan_keep. exact JS.
      * eapply scan_keep_incl. exact Hscan.
  - (* GOpenOut *)
    simpl in JS. specialize (JS eq_refl). destruct HL as [Eh Hnd].
    destruct (fs_get (fsy s) (k, EOut)) as [l1|] eqn:Eg.
    + inversion Hst; subst; clear Hst.
      destruct (has_ds DOut l1); (m1T s H J Hfr Hfm HC'; [exact I|simpl; intros _; exact JS|cntT Hpc]).
    + apply fs_has_true in Eh. destruct Eh as (l1 & El). congruence.
  - (* GReadOut *)
    simpl in JS. specialize (JS eq_refl). inversion Hst; subst; clear Hst.
    m1T s H J Hfr Hfm HC'; [exact I|simpl; intros _; exact JS|cntT Hpc].
  - (* GCloseOut *)
    simpl in JS. specialize (JS eq_refl). simpl in Hscan. destruct flag; inversion Hst; subst; clear Hst.
    + m1T s H J Hfr Hfm HC'; [exact I|simpl; intros _; exact JS|cntT Hpc].
    + right. apply jinv_scan_next; [exact H|exact J|rewrite Hpc; reflexivity| |].
      * apply scan_keep. exact JS.
      * eapply scan_keep_incl. exact Hscan.
  - (* GSetRes *)
    simpl in JS. specialize (JS eq_refl). simpl in Hscan. destruct HL as [Eh Hnd]. unfold fut in Hnd.
    assert (Hgo : forall v, JInv prog (scan_next (set_fbase s (set_futs (fbase s) (setf (fbase s) f (FRes v)))) todo (kept ++ [(k, f)]))).
    { intros v. rewrite <- (scan_next_set_fpc _ (GScan ((k, f) :: todo) kept)).
      set (s2 := set_fpc (set_fbase s (set_futs (fbase s) (setf (fbase s) f (FRes v)))) (GScan ((k, f) :: todo) kept)).
      assert (Hm2 : forall i0, fdone (fut s i0) = true -> fdone (fut s2 i0) = true).
      { intros i0 Hi0. unfold fut, s2, fbase in *. fld.
        destruct (getf_setf_cases (base (fx s)) f (FRes v) i0) as [E|E]; rewrite E; [reflexivity|exact Hi0]. }
      assert (H2 : FInv s2) by (eapply finv_setres with (s := s) (v := v); eauto).
      assert (J2 : JInv prog s2).
      { apply jinv_m1 with (s := s);
          [exact H|exact J|reflexivity|reflexivity|reflexivity|intros pa; now left|exact I| |exact Hm2| |].
        - simpl. intros _ e He. destruct (JS e He) as [X|X]; [now left|right; now apply Hm2].
        - intros i0 Hi0. unfold cnt, s2, fbase in *. fld. rewrite Hpc in Hi0. exact Hi0.
        - eapply CL_same; [apply (J_cl _ _ J)|reflexivity|reflexivity|reflexivity|]. apply (J_cl _ _ J). }
      apply jinv_scan_next; [exact H2|exact J2|reflexivity| |].
      - apply scan_keep. intros e He. destruct (JS e He) as [X|X]; [now left|right; now apply Hm2].
      - eapply scan_keep_incl. exact Hscan. }
    right. destruct (getf (fbase s) f) eqn:Ef; try discriminate Hnd; inversion Hst; subst; clear Hst; apply Hgo.
Qed.

(* ------------------------------------------------------------------ *)
(* the invariant in every state of a kill-free run                     *)
(* ------------------------------------------------------------------ *)
Definition Inv (c : fcfg) (prog : list op) (s : fstateX) : Prop :=
  FInv s /\ MK c s /\ (tph (fpc s) = true \/ JInv prog s).

Lemma fs_get_In : forall fs p l, fs_get fs p = Some l -> In (p, l) fs.
Proof.
  induction fs as [|[q c0] fs IH]; intros p l H; simpl in H; [discriminate|].
  destruct (path_eqb p q) eqn:E; [|right; now apply IH].
  apply path_eqb_eq in E. subst q. inversion H; subst. now left.
Qed.

Lemma jinv_init : forall n prog fs0,
  wf_prog n prog -> no_late_submit prog = true -> fs_outs_complete fs0 = true -> JInv prog (finit n prog fs0).
Proof.
  intros n prog fs0 (Hnd & Hrange & Hdrop) Hnl Hfs. constructor; simpl.
  - intros k l Hl. apply fs_get_In in Hl. unfold fs_outs_complete in Hfs.
    rewrite forallb_forall in Hfs. apply (Hfs _ Hl).
  - intros p [].
  - intros e [].
  - exact I.
  - intros Hx. discriminate Hx.
  - intros i Hi. left. apply In_occ in Hi. unfold cnt, cntb, hcnt, finit, q0. simpl. lia.
  - unfold CL. simpl. repeat split; auto.
    + now apply nls_init.
    + intros Hx. discriminate Hx.
    + discriminate.
Qed.

Lemma inv_step : forall c prog s t s' l,
  (forall a b, fcanon c a = fcanon c b -> a = b) ->
  Inv c prog s -> fstep c s t = Some (s', l) -> Inv c prog s'.
Proof.
  intros c prog s t s' l Hinj (H & HMK & HJ) Hst.
  assert (Ht : ftrans c s s') by (eapply ft_step; exact Hst).
  split; [eapply finv_ftrans; eauto|]. split; [eapply MK_ftrans; eauto|].
  destruct t as [| | |j|k]; simpl in Hst; try discriminate.
  - destruct (xm_step dummy_xcfg (fx s)) as [[x l0]|] eqn:E; [|discriminate]. inversion Hst; subst; clear Hst.
    destruct HJ as [HJ|HJ]; [left; exact HJ|right; eapply jinv_client; eauto].
  - destruct HJ as [HJ|HJ]; [left; eapply tph_fstep; eauto|eapply jinv_fstep; eauto].
  - destruct (q_step_frame _ _ _ _ _ Hst) as (_ & E1 & _ & _).
    destruct HJ as [HJ|HJ]; [left; now rewrite E1|right; eapply jinv_qstep; eauto].
Qed.

Lemma inv_reach : forall c n prog fs0 s,
  nocancel prog = true -> wf_prog n prog -> no_late_submit prog = true ->
  (forall i j, fcanon c i = fcanon c j -> i = j) -> fs_outs_complete fs0 = true ->
  freach_nk c (finit n prog fs0) s -> Inv c prog s.
Proof.
  intros c n prog fs0 s Hnc Hwf Hnl Hinj Hfs Hr. remember (finit n prog fs0) as s0 eqn:E.
  induction Hr as [s|s s' s'' t l Hr IH Hst].
  - subst s. split; [apply finv_init; [exact Hnc|eapply wf_prog_subm_wf; eauto]|]. split.
    + unfold MK, MKc, finit. simpl. split; [intros e []|exact I].
    + right. now apply jinv_init.
  - eapply inv_step; eauto.
Qed.

(* MAIN THEOREM *)
Theorem file_progress_at_rest : forall c n prog fs0 s,
  nocancel prog = true -> wf_prog n prog -> no_late_submit prog = true ->
  (forall i j, fcanon c i = fcanon c j -> i = j) ->
  fs_wf fs0 -> fs_outs_complete fs0 = true ->
  freach_nk c (finit n prog fs0) s ->
  rest_ok prog s = true.
Proof.
  intros c n prog fs0 s Hnc Hwf Hnl Hinj _ Hfs Hr.
  destruct (inv_reach _ _ _ _ _ Hnc Hwf Hnl Hinj Hfs Hr) as (H & _ & HJ).
  unfold rest_ok. destruct (procs_exited s && loop_between s) eqn:E; [|reflexivity]. simpl.
  apply andb_true_iff in E. destruct E as [Hex Hlb].
  unfold loop_between in Hlb. destruct (fpc s) eqn:Hpc; try discriminate Hlb.
  destruct HJ as [HJ|J]; [discriminate HJ|].
  unfold procs_exited in Hex. rewrite forallb_forall in Hex.
  apply andb_true_iff. split.
  - (* A *)
    unfold rest_A. apply forallb_forall. intros e He. apply orb_true_iff. right. apply complete_out.
    destruct (J_mem _ _ J e He) as [Hc|(m & p & _ & Hm & Hk)]; [exact Hc|].
    pose proof (nth_error_In _ _ Hm) as Hp. rewrite <- Hk. apply (J_proc _ _ J p Hp).
    specialize (Hex p Hp). now apply negb_true_iff.
  - (* B *)
    unfold rest_B. apply forallb_forall. intros i Hi.
    destruct (J_B _ _ J i Hi) as [B|[B|(e & He & B)]].
    + apply orb_true_iff. left. apply orb_true_iff. left. apply negb_true_iff. unfold taken.
      rewrite tasksb_tasks.
      rewrite (occb_occ i (tasks (qitems (getq (fbase s) 0)))), (occb_occ i (submits (ops (fbase s)))). apply Nat.eqb_neq.
      unfold cnt, hcnt in B. rewrite Hpc in B. cbn [held] in B. unfold cntb, q0 in B. lia.
    + apply orb_true_iff. left. apply orb_true_iff. right. exact B.
    + apply orb_true_iff. right. apply existsb_exists. exists e. split; [exact He|now apply Nat.eqb_eq].
Qed.

Print Assumptions file_progress_at_rest.

(* ------------------------------------------------------------------ *)
(* examples                                                            *)
(* ------------------------------------------------------------------ *)
Lemma freach_nk_front : forall c s t l s1 s', fstep c s t = Some (s1, l) -> freach_nk c s1 s' -> freach_nk c s s'.
Proof.
  intros c s t l s1 s' Ht Hr. induction Hr as [s1|s1 s2 s3 t' l' H1 IH H2].
  - eapply nk_step; [apply nk_refl|exact Ht].
  - eapply nk_step; [apply IH; exact Ht|exact H2].
Qed.

Lemma frun_reach_nk : forall c l s s', frun c l s = Some s' -> freach_nk c s s'.
Proof.
  intros c l. induction l as [|t r IH]; intros s s' H; simpl in H.
  - inversion H; subst. apply nk_refl.
  - destruct (fstep c s t) as [[s1 l1]|] eqn:E; [|discriminate].
    eapply freach_nk_front; [exact E|apply IH; exact H].
Qed.

(* (1) the premises are satisfiable and rest states are not trivial: one call, its process has run to
   the end, the loop thread is between two iterations and has not yet looked at the result file *)
Definition ex_cfg : fcfg := mkFC (fun _ => []) (fun i => i).
Definition ex_prog : list op := [OSubmit 1].
Definition ex_sched : list tid := rp 3 TM ++ rp 12 TD ++ rp 12 (TP 1).
Definition ex_state : fstateX := run_or ex_cfg ex_sched (finit 1 ex_prog []).

Example rest_state_nontrivial :
  nocancel ex_prog = true /\ wf_prog 1 ex_prog /\ no_late_submit ex_prog = true /\
  (forall i j, fcanon ex_cfg i = fcanon ex_cfg j -> i = j) /\ fs_wf [] /\ fs_outs_complete [] = true /\
  freach_nk ex_cfg (finit 1 ex_prog []) ex_state /\
  procs_exited ex_state && loop_between ex_state = true /\
  length (fps ex_state) = 1 /\
  existsb (fun e => negb (fdone (getf (fbase ex_state) (snd e))) && out_complete (fsy ex_state) (fst e))
          (mem ex_state) = true /\
  rest_ok ex_prog ex_state = true.
Proof.
  split; [reflexivity|]. split; [|split; [reflexivity|split; [|split; [constructor|split; [reflexivity|]]]]].
  - split; [|split].
    + constructor; [intros []|constructor].
    + intros i [Hi|[]]. subst i. lia.
    + intros [Hx|[]]. discriminate Hx.
  - intros i j Hij. exact Hij.
  - split; [|split; [|split; [|split]]]; try (vm_compute; reflexivity).
    apply frun_reach_nk with (l := ex_sched). vm_compute. reflexivity.
Qed.

(* (2a) with a kill the statement fails: the process of the only call is killed before it has written
   anything; the future stays registered, never done, with no result file *)
Definition exk_state : fstateX := kill_proc (run_or ex_cfg (rp 3 TM ++ rp 12 TD ++ rp 3 (TP 1)) (finit 1 ex_prog [])) 1.

Example progress_needs_no_kill :
  freach ex_cfg (finit 1 ex_prog []) exk_state /\
  procs_exited exk_state && loop_between exk_state = true /\ rest_ok ex_prog exk_state = false.
Proof.
  split; [|split; vm_compute; reflexivity].
  eapply fr_step; [|apply ft_kill].
  apply frun_reach with (l := rp 3 TM ++ rp 12 TD ++ rp 3 (TP 1)). vm_compute. reflexivity.
Qed.

(* (2b) with two identical calls in flight the statement fails: the second call finds its key in
   memory_dict and is dropped (finding D11): taken from the queue, never done, not registered *)
Definition exd_cfg : fcfg := mkFC (fun _ => []) (fun _ => 1).
Definition exd_prog : list op := [OSubmit 1; OSubmit 2].
Definition exd_sched : list tid := rp 4 TM ++ rp 12 TD ++ rp 12 (TP 1) ++ rp 2 TD.
Definition exd_state : fstateX := run_or exd_cfg exd_sched (finit 2 exd_prog []).

Example progress_needs_distinct_calls :
  nocancel exd_prog = true /\ wf_prog 2 exd_prog /\ no_late_submit exd_prog = true /\
  freach_nk exd_cfg (finit 2 exd_prog []) exd_state /\
  procs_exited exd_state && loop_between exd_state = true /\
  rest_A exd_state = true /\ rest_B exd_prog exd_state = false /\ rest_ok exd_prog exd_state = false.
Proof.
  split; [reflexivity|]. split; [|split; [reflexivity|]].
  - split; [|split].
    + constructor; [intros [Hx|[]]; discriminate Hx|]. constructor; [intros []|constructor].
    + intros i [Hi|[Hi|[]]]; subst i; lia.
    + intros [Hx|[Hx|[]]]; discriminate Hx.
  - split; [|split; [|split; [|split]]]; try (vm_compute; reflexivity).
    apply frun_reach_nk with (l := exd_sched). vm_compute. reflexivity.
Qed.

(* (1') the same with leftover files of an earlier session in the directory: a stale .h5in and a
   stale .h5ready of the same key, both already holding an output dataset *)
Definition exl_fs : fsys := [(((1, []), EIn), [DOut]); (((1, []), ERdy), [DOut])].
Definition exl_state : fstateX := run_or ex_cfg (rp 3 TM ++ rp 13 TD ++ rp 12 (TP 1)) (finit 1 ex_prog exl_fs).

Example rest_state_leftover_files :
  fs_wf exl_fs /\ fs_outs_complete exl_fs = true /\
  freach_nk ex_cfg (finit 1 ex_prog exl_fs) exl_state /\
  procs_exited exl_state && loop_between exl_state = true /\
  existsb (fun e => negb (fdone (getf (fbase exl_state) (snd e))) && out_complete (fsy exl_state) (fst e))
          (mem exl_state) = true /\
  rest_ok ex_prog exl_state = true.
Proof.
  split; [|split; [reflexivity|split; [|split; [|split]]]]; try (vm_compute; reflexivity).
  - unfold fs_wf, exl_fs. simpl. constructor; [intros [Hx|[]]; discriminate Hx|]. constructor; [intros []|constructor].
  - apply frun_reach_nk with (l := rp 3 TM ++ rp 13 TD ++ rp 12 (TP 1)). vm_compute. reflexivity.
Qed.

Print Assumptions rest_state_nontrivial.
Print Assumptions rest_state_leftover_files.
Print Assumptions progress_needs_no_kill.
Print Assumptions progress_needs_distinct_calls.
