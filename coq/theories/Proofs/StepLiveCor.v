(* Readable corollaries of Proofs/StepLive.v (per-call-process executor model). *)
From Coq Require Import List Bool Arith.
From EL Require Import Model.Exec Model.ExecInv Model.StepExec Model.LiveSpec.
From EL Require Import Proofs.StepSafe Proofs.StepLive.
Import ListNotations.

Lemma forallb_In' {A} (f : A -> bool) l : forallb f l = true -> forall x, In x l -> f x = true.
Proof. intros H x Hx. rewrite forallb_forall in H. auto. Qed.

(* a state of the per-call executor in which nothing can take a step is a proper rest state *)
Theorem step_rest : forall c n prog x,
  xnofail c -> fits c -> wf_prog n prog -> xreach c (xinit n prog) x ->
  xenabled c x = [] ->
  main (base x) = MEnd
  /\ (forall i, In i (subm (base x)) -> fdone (getf (base x) i) = true)
  /\ (forall p, In p (ps (base x)) -> palive p = false)
  /\ (forall w, In w (ws (base x)) -> wdone w = true)
  /\ disp x = DDone.
Proof.
  intros c n prog x Hnf Hfit Hwf Hr Hen.
  pose proof (step_rest_state c n prog x Hnf Hfit Hwf Hr) as H.
  unfold rest_ok_b in H. rewrite Hen in H.
  repeat rewrite andb_true_iff in H. destruct H as [[[[Hm Hf] Hp] Hw] Hd].
  repeat split.
  - destruct (main (base x)); try discriminate Hm; reflexivity.
  - apply forallb_In'. exact Hf.
  - intros p Hpi. pose proof (forallb_In' _ _ Hp p Hpi) as Hx. cbv beta in Hx.
    destruct (palive p); [simpl in Hx; discriminate Hx | reflexivity].
  - apply forallb_In'. exact Hw.
  - destruct (disp x); try discriminate Hd; reflexivity.
Qed.

(* while the dispatcher is in a pass of its wait loop that cannot free a slot, somebody else can
   move: it never spins alone *)
Theorem dispatcher_never_spins_alone : forall c n prog x,
  wf_prog n prog -> xreach c (xinit n prog) x ->
  d_polling x = true -> exists t, t <> TD /\ In t (xenabled c x).
Proof.
  intros c n prog x Hwf Hr Hp.
  pose proof (scan_not_alone c n prog x Hwf Hr) as H.
  unfold scan_not_alone_b in H. rewrite Hp in H. simpl in H.
  apply existsb_exists in H. destruct H as [t [Hin Ht]].
  exists t. split; [|exact Hin].
  intros E. subst t. simpl in Ht. discriminate Ht.
Qed.
