(* Readable corollaries of Proofs/DepLive.v (resolver in front of a block-allocation executor). *)
From Coq Require Import List Bool Arith.
From EL Require Import Model.Exec Model.ExecInv Model.StepExec Model.DepExec Model.LiveSpec.
From EL Require Import Proofs.DepSafe Proofs.DepLive Proofs.DepLiveStep.
From EL Require Proofs.StepLive.
Import ListNotations.

Lemma forallb_In {A} (f : A -> bool) l : forallb f l = true -> forall x, In x l -> f x = true.
Proof. intros H x Hx. rewrite forallb_forall in H. auto. Qed.

(* a state of the resolver system in which nothing can take a step is a proper rest state *)
Theorem dep_rest : forall c n prog d k,
  dinner c = IBlock k -> 1 <= k -> (forall i, xraises (dx c) i = false) ->
  wf_prog n prog -> wf_deps c n -> dreach c (dinit n prog) d ->
  denabled c d = [] ->
  main (dbase d) = MEnd
  /\ (forall i, In i (subm (dbase d)) -> fdone (getf (dbase d) i) = true)
  /\ (forall p, In p (ps (dbase d)) -> palive p = false)
  /\ (forall w, In w (ws (dbase d)) -> wdone w = true)
  /\ rp d = RDone.
Proof.
  intros c n prog d k Hi Hk Hnf Hwf Hwd Hr Hen.
  pose proof (dep_rest_state_block c n prog d k Hi Hk Hnf Hwf Hwd Hr) as H.
  unfold drest_ok_b in H. rewrite Hen in H.
  repeat rewrite andb_true_iff in H. destruct H as [[[[Hm Hf] Hp] Hw] Hrp].
  repeat split.
  - destruct (main (dbase d)); try discriminate Hm; reflexivity.
  - apply forallb_In. exact Hf.
  - intros p Hpi. pose proof (forallb_In _ _ Hp p Hpi) as Hx. cbv beta in Hx. destruct (palive p); [simpl in Hx; discriminate Hx | reflexivity].
  - apply forallb_In. exact Hw.
  - destruct (rp d); try discriminate Hrp; reflexivity.
Qed.

(* once the resolver has begun to shut the inner executor down, no call is left on its wait list *)
Theorem wait_list_empty_at_inner_shutdown : forall c n prog d,
  wf_prog n prog -> dreach c (dinit n prog) d -> r_in_inner_shutdown d = true -> rwait d = [].
Proof.
  intros c n prog d Hwf Hr Hs. pose proof (wait_list_drained c n prog d Hwf Hr) as H.
  unfold wait_list_drained_b in H. rewrite Hs in H. simpl in H. destruct (rwait d); [reflexivity | discriminate H].
Qed.

(* the same for the resolver in front of the per-call-process executor (requests that fit) *)
Theorem dep_rest_step : forall c n prog d,
  dinner c = IStep -> StepLive.fits (dx c) -> (forall i, xraises (dx c) i = false) ->
  wf_prog n prog -> wf_deps c n -> dreach c (dinit n prog) d ->
  denabled c d = [] ->
  main (dbase d) = MEnd
  /\ (forall i, In i (subm (dbase d)) -> fdone (getf (dbase d) i) = true)
  /\ (forall p, In p (ps (dbase d)) -> palive p = false)
  /\ (forall w, In w (ws (dbase d)) -> wdone w = true)
  /\ rp d = RDone.
Proof.
  intros c n prog d Hi Hfit Hnf Hwf Hwd Hr Hen.
  pose proof (dep_rest_state_step c n prog d Hi Hfit Hnf Hwf Hwd Hr) as H.
  unfold drest_ok_b in H. rewrite Hen in H.
  repeat rewrite andb_true_iff in H. destruct H as [[[[Hm Hf] Hp] Hw] Hrp].
  repeat split.
  - destruct (main (dbase d)); try discriminate Hm; reflexivity.
  - apply forallb_In. exact Hf.
  - intros p Hpi. pose proof (forallb_In _ _ Hp p Hpi) as Hx. cbv beta in Hx. destruct (palive p); [simpl in Hx; discriminate Hx | reflexivity].
  - apply forallb_In. exact Hw.
  - destruct (rp d); try discriminate Hrp; reflexivity.
Qed.
