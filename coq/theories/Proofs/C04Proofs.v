(* C04: the exception reported to the parent is the one the worker raised. *)
From Coq Require Import ZArith String List Bool.
From EL Require Import Base.Dec Base.PyLib Model.Worker Gen.Communication Gen.WorkerSerial.
Import ListNotations.
Local Open Scope string_scope.

(* parent side of one call: what receive_dict returns / raises for the worker's reply *)
Lemma receive_ok self v : receive_dict (reply_ok v) self = Ok v.
Proof. reflexivity. Qed.

Lemma receive_err self cls : receive_dict (reply_err cls) self = Err cls.
Proof. reflexivity. Qed.

(* worker and parent composed: for every function semantics, memory and call request, the
   parent obtains exactly the outcome of the call — the value, or an exception of the same class *)
Lemma roundtrip apply mem f a k self :
  (match wstep_serial apply mem (to_py (RCall f a k)) with
   | Ok (VTuple [_; VList [rep]; _]) => receive_dict rep self
   | _ => Err "ModelError"
   end) = apply mem (to_py (RCall f a k)).
Proof.
  unfold wstep_serial. cbn. destruct (apply mem _) as [v|e]; reflexivity.
Qed.
