(* A progress measure for the dependency-resolver model (Model/DepExec.v) in front of the
   per-call-process executor (dinner c = IStep): every step of every thread strictly decreases the
   natural number [dmuS c n d], except a fruitless poll of the resolver R (r_polling c d = true,
   the predicate of Proofs/DepMeasure.v, unchanged) and a fruitless pass of the dispatcher D
   over its table (d_polling (xs d) = true, Model/LiveSpec.v).  No nofail hypothesis.
   Main result: dstep_decreases_step (last theorem of the file).

     dmuS c n d = dmu c n d                                   (the measure of DepMeasure.v, unchanged)
                + XB n (dbase d)                              (additional weights, below)
                + DEL n * rcount (rp d) (rwait d)             (calls held by the resolver)
                + sfund c n (rp d)                            (the inner shutdown message still to be put)
                + drank n (launched (xs d)) (disp (xs d))     (the dispatcher's pc, StepLive.v)
                + epot n (futs (dbase d)) (disp (xs d)) (active (xs d))   (its table, StepLive.v)

   XB adds, on top of the weights of dmu: for a call on queue 1 (the dispatcher's input) the cost
   xT1 of the launch sequence of D, for the shutdown message on queue 1 the cost xS1 of the joins,
   BB n for a call on a private queue (index >= 2) and for a worker thread whose call may still
   make its future done (StepLive.wpre), DEL n for every call not yet forwarded (OSubmit in the
   program, Task on queue 0; those held by R are counted by rcount), BB n for every OCancel of
   the program and for the client's pc MDrainCancel.  A "done" event raises the dispatcher's table
   potential by at most BB n (epot_bound); it is paid by the thread that causes it.

   Invariants: SI (bounds, proved here for dreach with dinner c = IStep), CI of
   Proofs/DepCeiling.v (private queues start at index 2, the todo/kept lists of a pass are
   sub-lists of the table), Inv4 / RI of Proofs/DepSafe.v, rsd of Proofs/DepMeasure.v. *)
From Coq Require Import List Bool Arith Lia.
From EL Require Import Model.Exec Model.ExecInv Model.StepExec Model.DepExec Model.LiveSpec.
From EL Require Import Proofs.DepSafe Proofs.Fidelity Proofs.DepCeiling.
From EL Require Import Proofs.ExecSafe Proofs.StepSafe Proofs.StepLive Proofs.DepMeasure.
Import ListNotations.

(* ------------------------------------------------------------------ *)

(* ------------------------------------------------------------------ *)
(* ================= the additional weights for the per-call inner executor ================= *)
(* a call on the dispatcher's queue (queue 1) pays for the whole launch sequence of D *)
Definition xT1 (n : nat) : nat := 2 * NN n + BB n + 28.
(* the shutdown message on the dispatcher's queue pays for the joins *)
Definition xS1 (n : nat) : nat := NN n + 5.
(* a call that has not been forwarded yet: its task on queue 1, and two "done" events
   (failing it in the resolver, cancelling it in the drain of the client) *)
Definition DEL (n : nat) : nat := xT1 n + 2 * BB n.

Definition xqw (n : nat) (q : nat) (it : item) : nat :=
  match q, it with
  | 0, Task _ => DEL n
  | 1, Task _ => xT1 n
  | 1, Shut _ => xS1 n
  | S (S _), Task _ => BB n
  | _, _ => 0
  end.
Definition xwt (n : nat) (w : wthread) : nat := if wpre (wp w) then BB n else 0.
Definition xopw (n : nat) (o : op) : nat :=
  match o with OSubmit _ => DEL n | OCancel _ => BB n | _ => 0 end.
Definition xmr (n : nat) (pc : mpc) : nat := match pc with MDrainCancel _ _ => BB n | _ => 0 end.

Definition XB (n : nat) (s : state) : nat :=
  qwi (xqw n) 0 (queues s) + sumf (xwt n) (ws s) + sumf (xopw n) (ops s) + xmr n (main s).

Lemma xb_qput : forall n s q it, XB n (qput s q it) <= XB n s + xqw n q it.
Proof.
  intros n s q it. unfold XB, qput, set_queues, getq. fld.
  destruct (nth_error (queues s) q) as [old|] eqn:Hn.
  - rewrite (nth_some _ _ _ (mkQ [] 0) _ Hn).
    pose proof (qwi_upd (xqw n) (queues s) 0 q (mkQ (qitems old ++ [it]) (S (qunf old))) old Hn) as Hq.
    cbn [qitems Nat.add] in Hq. rewrite sumf_app in Hq. cbn [sumf] in Hq. lia.
  - rewrite (upd_none _ _ _ _ Hn). lia.
Qed.

Lemma xb_qput_eq : forall n s q it, q < length (queues s) -> XB n (qput s q it) = XB n s + xqw n q it.
Proof.
  intros n s q it Hl. unfold XB, qput, set_queues, getq. fld.
  destruct (nth_error (queues s) q) as [old|] eqn:Hn.
  - rewrite (nth_some _ _ _ (mkQ [] 0) _ Hn).
    pose proof (qwi_upd (xqw n) (queues s) 0 q (mkQ (qitems old ++ [it]) (S (qunf old))) old Hn) as Hq.
    cbn [qitems Nat.add] in Hq. rewrite sumf_app in Hq. cbn [sumf] in Hq. lia.
  - apply nth_error_None in Hn. lia.
Qed.

Lemma xb_qpop : forall n s q it r, qitems (getq s q) = it :: r -> XB n (qpop s q) + xqw n q it = XB n s.
Proof.
  intros n s q it r Hq. unfold XB, qpop, set_queues. fld. unfold getq in *.
  destruct (nth_error (queues s) q) as [old|] eqn:Hn.
  - rewrite (nth_some _ _ _ (mkQ [] 0) _ Hn) in *.
    pose proof (qwi_upd (xqw n) (queues s) 0 q (mkQ (tl (qitems old)) (qunf old)) old Hn) as Hw.
    cbn [qitems Nat.add] in Hw. rewrite Hq in *. cbn [tl sumf] in *. lia.
  - rewrite (nth_none _ _ _ (mkQ [] 0) Hn) in Hq. discriminate.
Qed.

Lemma xb_qtd : forall n s q, XB n (qtd s q) = XB n s.
Proof.
  intros n s q. unfold XB, qtd, set_queues, getq. fld.
  destruct (nth_error (queues s) q) as [old|] eqn:Hn.
  - rewrite (nth_some _ _ _ (mkQ [] 0) _ Hn).
    pose proof (qwi_upd (xqw n) (queues s) 0 q (mkQ (qitems old) (pred (qunf old))) old Hn) as Hw.
    cbn [qitems] in Hw. lia.
  - rewrite (upd_none _ _ _ _ Hn). reflexivity.
Qed.

Lemma xb_set_futs : forall n s x, XB n (set_futs s x) = XB n s.
Proof. reflexivity. Qed.
Lemma xb_set_main : forall n s x, XB n (set_main s x) + xmr n (main s) = XB n s + xmr n x.
Proof. intros. unfold XB. cbn [set_main queues ws ops main]. lia. Qed.
Lemma xb_setp : forall n s k p', XB n (setp s k p') = XB n s.
Proof. reflexivity. Qed.
Lemma xb_send_to_p : forall n s k m, XB n (send_to_p s k m) = XB n s.
Proof. reflexivity. Qed.
Lemma xb_pop_from_p : forall n s k, XB n (pop_from_p s k) = XB n s.
Proof. reflexivity. Qed.
Lemma xb_set_w : forall n s j w w',
  nth_error (ws s) j = Some w -> XB n (set_w s j w') + xwt n w = XB n s + xwt n w'.
Proof.
  intros n s j w w' Hn. unfold XB, set_w. simpl.
  pose proof (sumf_upd _ (xwt n) (ws s) j w' w Hn) as Hs. lia.
Qed.
Definition xwr (n : nat) (pc : wpc) : nat := if wpre pc then BB n else 0.
Lemma xb_wpc_to : forall n s j w pc,
  nth_error (ws s) j = Some w -> XB n (wpc_to s j w pc) + xwr n (wp w) = XB n s + xwr n pc.
Proof.
  intros n s j w pc Hn. unfold wpc_to. pose proof (xb_set_w n s j w (mkW (wq w) (wproc w) pc) Hn) as Hs.
  unfold xwt in Hs. cbn [wp] in Hs. exact Hs.
Qed.
Lemma xb_add_p : forall n s p, XB n (set_ps s (ps s ++ [p])) = XB n s.
Proof. reflexivity. Qed.
Lemma xb_add_w : forall n s w, XB n (set_ws s (ws s ++ [w])) = XB n s + xwt n w.
Proof. intros. unfold XB. cbn [set_ws queues ws ops main]. rewrite sumf_app. cbn [sumf]. lia. Qed.
Lemma xb_addq : forall n s, XB n (set_queues s (queues s ++ [mkQ [] 0])) = XB n s.
Proof. intros. unfold XB, set_queues. fld. now rewrite qwi_snoc. Qed.

Lemma xqw_task_ge : forall n q i, 1 <= q -> BB n <= xqw n q (Task i).
Proof. intros n q i H. destruct q as [|[|q]]; [lia| |]; unfold xqw, xT1; lia. Qed.

(* ---- a step of a worker thread ---- *)
Lemma w_step_x : forall n c s j s' l w,
  w_step c s j = Some (s', l) -> nth_error (ws s) j = Some w -> 1 <= wq w ->
  XB n s' <= XB n s /\ (fsame s s' \/ XB n s' + BB n <= XB n s).
Proof.
  intros n c s j s' l w Hst Hn Hq1. unfold w_step in Hst. rewrite Hn in Hst. cbv zeta in Hst.
  assert (Hgen : forall s1 pc, nth_error (ws s1) j = Some w -> XB n s1 = XB n s -> futs s1 = futs s ->
            xwr n pc <= xwr n (wp w) ->
            XB n (wpc_to s1 j w pc) <= XB n s /\ (fsame s (wpc_to s1 j w pc) \/ XB n (wpc_to s1 j w pc) + BB n <= XB n s)).
  { intros s1 pc Hn1 E Ef Hr. pose proof (xb_wpc_to n s1 j w pc Hn1). split; [lia|left; now apply fsame_refl]. }
  (* the future keeps its done-ness *)
  assert (Hfs : forall i f pc, fdone f = fdone (getf s i) -> xwr n pc <= xwr n (wp w) ->
            XB n (wpc_to (set_futs s (setf s i f)) j w pc) <= XB n s /\
            (fsame s (wpc_to (set_futs s (setf s i f)) j w pc) \/ XB n (wpc_to (set_futs s (setf s i f)) j w pc) + BB n <= XB n s)).
  { intros i f pc Hd Hr. pose proof (xb_wpc_to n (set_futs s (setf s i f)) j w pc Hn) as Hw. rewrite xb_set_futs in Hw.
    split; [lia|]. left. intros i0. apply (fsame_setf s i f Hd i0). }
  (* the future becomes done *)
  assert (Hfd : forall x pc, xwr n pc + BB n <= xwr n (wp w) ->
            XB n (wpc_to (set_futs s x) j w pc) <= XB n s /\
            (fsame s (wpc_to (set_futs s x) j w pc) \/ XB n (wpc_to (set_futs s x) j w pc) + BB n <= XB n s)).
  { intros x pc Hr. pose proof (xb_wpc_to n (set_futs s x) j w pc Hn) as Hw. rewrite xb_set_futs in Hw.
    split; [lia|right; lia]. }
  unfold xwr in *.
  destruct (wp w) as [ | | |i| |i|i|i v| |i|i|i|i|i|i|i|i|b|b|b|b|b| | | | | ] eqn:Hpc; simpl wpre in *.
  - (* WBegin *) inversion Hst; subst; clear Hst. apply Hgen; auto.
  - (* WSpawn *)
    inversion Hst; subst; clear Hst.
    pose proof (xb_set_w n (set_ps s (ps s ++ [mkP PBegin [] []])) j w (mkW (wq w) (S (length (ps s))) WGet) Hn) as Hw.
    rewrite xb_add_p in Hw. unfold xwt in Hw. rewrite Hpc in Hw. simpl in Hw.
    split; [lia|left; now apply fsame_refl].
  - (* WGet *)
    destruct (qitems (getq s (wq w))) as [|it r] eqn:Hq; [discriminate|].
    pose proof (xb_qpop n s (wq w) it r Hq) as Hp.
    destruct it as [i|b]; inversion Hst; subst; clear Hst.
    + pose proof (xb_wpc_to n (qpop s (wq w)) j w (WSrnc i) Hn) as Hw.
      rewrite Hpc in Hw. unfold xwr in Hw. cbn [wpre] in Hw. pose proof (xqw_task_ge n (wq w) i Hq1).
      split; [lia|left; now apply fsame_refl].
    + pose proof (xb_wpc_to n (qpop s (wq w)) j w (WSPoll b) Hn) as Hw.
      rewrite Hpc in Hw. unfold xwr in Hw. cbn [wpre] in Hw. split; [lia|left; now apply fsame_refl].
  - (* WSrnc *)
    destruct (getf s i) eqn:Hf; inversion Hst; subst; clear Hst;
      first [apply Hfs; [rewrite Hf; reflexivity|simpl; lia] | apply Hgen; auto; simpl; lia].
  - (* WCancTd *) inversion Hst; subst; clear Hst. apply Hgen; auto. apply xb_qtd.
  - (* WSend *) inversion Hst; subst; clear Hst. apply Hgen; auto.
  - (* WRecv *)
    destruct (outbox (getp s (wproc w))) as [|m r]; [discriminate|].
    destruct m; inversion Hst; subst; clear Hst; apply Hgen; auto; simpl; lia.
  - (* WSetRes *)
    destruct (getf s i); inversion Hst; subst; clear Hst;
      first [apply Hfd; simpl; lia | apply Hgen; auto; simpl; lia].
  - (* WTd *) inversion Hst; subst; clear Hst. apply Hgen; auto. apply xb_qtd.
  - (* WEPoll *)
    destruct (palive (getp s (wproc w))); inversion Hst; subst; clear Hst; apply Hgen; auto.
  - (* WESend *) inversion Hst; subst; clear Hst. apply Hgen; auto.
  - (* WERecv *)
    destruct (outbox (getp s (wproc w))) as [|m r]; [discriminate|].
    inversion Hst; subst; clear Hst. apply Hgen; auto.
  - (* WEComm *)
    destruct (palive (getp s (wproc w))); [discriminate|].
    inversion Hst; subst; clear Hst. apply Hgen; auto.
  - (* WETerm *) inversion Hst; subst; clear Hst. apply Hgen; auto.
  - (* WEWait *)
    destruct (palive (getp s (wproc w))); [discriminate|].
    inversion Hst; subst; clear Hst. apply Hgen; auto.
  - (* WETd *) inversion Hst; subst; clear Hst. apply Hgen; auto. apply xb_qtd.
  - (* WESetExc *)
    destruct (getf s i); inversion Hst; subst; clear Hst;
      first [apply Hfd; simpl; lia | apply Hgen; auto; simpl; lia].
  - (* WSPoll *)
    destruct (palive (getp s (wproc w))); inversion Hst; subst; clear Hst; apply Hgen; auto.
  - (* WSSend *) inversion Hst; subst; clear Hst. apply Hgen; auto.
  - (* WSRecv *)
    destruct (outbox (getp s (wproc w))) as [|m r]; [discriminate|].
    inversion Hst; subst; clear Hst. apply Hgen; auto.
  - (* WSComm *)
    destruct (palive (getp s (wproc w))); [discriminate|].
    inversion Hst; subst; clear Hst. apply Hgen; auto.
  - (* WSTerm *) inversion Hst; subst; clear Hst. apply Hgen; auto. destruct b; simpl; lia.
  - (* WSWait *)
    destruct (palive (getp s (wproc w))); [discriminate|].
    inversion Hst; subst; clear Hst. apply Hgen; auto.
  - (* WSTd *) inversion Hst; subst; clear Hst. apply Hgen; auto. apply xb_qtd.
  - (* WSQJoin *)
    destruct (Nat.eqb (qunf (getq s (wq w))) 0); [|discriminate].
    inversion Hst; subst; clear Hst. apply Hgen; auto.
  - discriminate.
  - discriminate.
Qed.

(* ------------------------------------------------------------------ *)

(* ================= bounds for the per-call inner executor ================= *)
Definition c1 (s : state) : nat := count is_task (qitems (getq s 1)).

Lemma c1_put1 : forall s it, c1 (qput s 1 it) <= c1 s + b2n (is_task it).
Proof.
  intros s it. unfold c1, qput, set_queues, getq. fld.
  destruct (nth_error (queues s) 1) as [old|] eqn:Hn.
  - rewrite nth_upd_same by (apply nth_error_Some; congruence). cbn [qitems]. rewrite count_snoc. lia.
  - rewrite (upd_none _ _ _ _ Hn). lia.
Qed.
Lemma c1_put_other : forall s q it, q <> 1 -> c1 (qput s q it) = c1 s.
Proof. intros s q it H. unfold c1, qput, set_queues, getq. fld. rewrite nth_upd_other by exact H. reflexivity. Qed.
Lemma c1_pop_other : forall s q, q <> 1 -> c1 (qpop s q) = c1 s.
Proof. intros s q H. unfold c1, qpop, set_queues, getq. fld. rewrite nth_upd_other by exact H. reflexivity. Qed.
Lemma c1_td : forall s q, c1 (qtd s q) = c1 s.
Proof. intros s q. unfold c1, qtd, set_queues, getq. fld. change (mkQ [] 0) with dq. rewrite qtd_items. reflexivity. Qed.
Lemma c1_futs : forall s f, c1 (set_futs s f) = c1 s.
Proof. reflexivity. Qed.
Lemma c1_pop1 : forall s it r, qitems (getq s 1) = it :: r -> c1 (qpop s 1) + b2n (is_task it) = c1 s.
Proof.
  intros s it r H. unfold c1, qpop, set_queues, getq in *. fld.
  destruct (nth_error (queues s) 1) as [old|] eqn:Hn.
  - rewrite nth_upd_same by (apply nth_error_Some; congruence). cbn [qitems]. rewrite H. cbn [tl]. rewrite count_cons. lia.
  - rewrite (nth_none _ _ _ (mkQ [] 0) Hn) in H. discriminate.
Qed.
Lemma c1_snoc : forall s, c1 (set_queues s (queues s ++ [mkQ [] 0])) = c1 s.
Proof. intros s. unfold c1, getq, set_queues. fld. destruct (queues s) as [|a [|b t]]; reflexivity. Qed.
Lemma cq0_snoc : forall s, cq0 (set_queues s (queues s ++ [mkQ [] 0])) = cq0 s.
Proof. intros s. unfold cq0, getq, set_queues. fld. destruct (queues s) as [|a t]; reflexivity. Qed.
Lemma cq0_put_other : forall s q it, q <> 0 -> cq0 (qput s q it) = cq0 s.
Proof. intros s q it H. unfold cq0, qput, set_queues, getq. fld. rewrite nth_upd_other by exact H. reflexivity. Qed.
Lemma cq0_pop_other : forall s q, q <> 0 -> cq0 (qpop s q) = cq0 s.
Proof. intros s q H. unfold cq0, qpop, set_queues, getq. fld. rewrite nth_upd_other by exact H. reflexivity. Qed.

Record SI (c : dcfg) (n : nat) (d : dstate) : Prop := mkSI {
  S_ops : inshut (main (dbase d)) -> ops (dbase d) <> [];
  S_rn : ~ started (main (dbase d)) -> rp d = RNone;
  S_d0 : main (dbase d) = MBegin \/ main (dbase d) = MStart 0 -> disp (xs d) = DNone;
  S_act : length (active (xs d)) <= length (ws (dbase d));
  S_la : launched (xs d) = length (ws (dbase d));
  S_jo : forall k, disp (xs d) = DSJoin k -> k < launched (xs d);
  S_tot : length (ws (dbase d)) + c1 (dbase d) + prep (disp (xs d)) + rcount (rp d) (rwait d) + cq0 (dbase d)
          + length (submits (ops (dbase d))) <= n
}.

Lemma si_init : forall c n prog, wf_prog n prog -> SI c n (dinit n prog).
Proof.
  intros c n prog (Hnd & Hrg & _). constructor; unfold dinit, dbase, xinit, init; simpl.
  - tauto.
  - reflexivity.
  - reflexivity.
  - lia.
  - reflexivity.
  - intros k E. discriminate E.
  - unfold c1, cq0, count. simpl.
    assert (Hin : incl (submits prog) (seq 1 n)) by (intros i Hi; apply in_seq; specialize (Hrg i Hi); lia).
    pose proof (NoDup_incl_length Hnd Hin) as Hl. rewrite seq_length in Hl. lia.
Qed.

(* ---- the resolver ---- *)
Lemma r_step_cnt1 : forall c d d' l, r_step c d = Some (d', l) -> queues (dbase d) <> [] ->
  rcount (rp d') (rwait d') + cq0 (dbase d') + c1 (dbase d') <= rcount (rp d) (rwait d) + cq0 (dbase d) + c1 (dbase d).
Proof.
  intros c d d' l H Hne. unfold r_step in H. cbv zeta in H.
  destruct (rp d) eqn:Hr; destr_all H; inversion H; subst; clear H;
    rewrite ?dbase_kont, ?dbase_scan_next, ?dbase_start_pass, ?dbase_aid; rcnt_tac;
    unfold set_dbase, set_xs, set_rp, set_base in *; cbn [xs rp rwait base dbase] in *;
    try match goal with Hq : qitems (getq _ 0) = _ :: _ |- _ => pose proof (cq0_pop _ _ _ Hq Hne) as Hpop; simpl in Hpop end;
    unfold dbase in *; cbn [xs base] in *;
    repeat match goal with |- context [c1 (qput ?s 1 ?it)] =>
      let Hc := fresh "Hc" in pose proof (c1_put1 s it) as Hc; simpl b2n in Hc; generalize dependent (c1 (qput s 1 it)); intros end;
    rewrite ?cq0_put1, ?cq0_td, ?cq0_futs, ?c1_td, ?c1_futs, ?(c1_pop_other _ 0) by lia;
    simpl rcount in *; simpl kcount in *; rewrite ?app_length in *; simpl length in *; try lia.
Qed.

Lemma aid_xs : forall d i deps k, xs (after_inputs_done d i deps k) = xs d.
Proof. intros d i deps k. unfold after_inputs_done. destruct deps; reflexivity. Qed.

Lemma r_step_disp : forall c d d' l, r_step c d = Some (d', l) ->
  disp (xs d') = disp (xs d) /\ active (xs d') = active (xs d) /\ launched (xs d') = launched (xs d).
Proof.
  intros c d d' l H. unfold r_step in H. cbv zeta in H.
  destruct (rp d); destr_all H; inversion H; subst; clear H;
    rewrite ?kont_xs, ?scan_next_xs, ?(proj1 (start_pass_xs _ _ _)), ?aid_xs;
    unfold set_dbase, set_xs, set_rp, set_base; cbn [xs disp active launched];
    repeat split; try reflexivity; congruence.
Qed.

Lemma si_r : forall c n d d' l, SI c n d -> queues (dbase d) <> [] -> r_step c d = Some (d', l) -> SI c n d'.
Proof.
  intros c n d d' l [S1 S2 S3 S4 S5 S6 S7] Hne H.
  destruct (r_step_ctl _ _ _ _ H) as ((Em & Eo & Es & Ec & Eu) & Ew & Ep & El).
  pose proof (r_step_cnt1 _ _ _ _ H Hne) as Hc.
  assert (Hrn : ~ started (main (dbase d)) -> False).
  { intros Hn. specialize (S2 Hn). unfold r_step in H. rewrite S2 in H. discriminate H. }
  pose proof (r_step_disp _ _ _ _ H) as Ex.
  destruct Ex as (Ed & Ea & Ela).
  constructor; rewrite ?Em, ?Eo, ?Ew, ?Ed, ?Ea, ?Ela; try assumption.
  - intros Hn. exfalso. now apply Hrn.
  - lia.
Qed.

(* ---- worker threads and processes ---- *)
Lemma si_w : forall c n d j b l, SI c n d -> w_step (bcfg (dx c)) (dbase d) j = Some (b, l) -> SI c n (set_dbase d b).
Proof.
  intros c n d j b l [S1 S2 S3 S4 S5 S6 S7] H.
  destruct (nth_error (ws (dbase d)) j) as [w|] eqn:Hj;
    [|unfold w_step in H; rewrite Hj in H; discriminate].
  destruct (w_step_fx _ _ _ _ _ w H Hj) as ((Em & Eo & Es & Ec & Eu) & El & _ & _ & w' & Ews & _ & _).
  destruct (w_step_eff _ _ _ _ _ w H Hj) as (_ & _ & Hq & _).
  pose proof (Hq 0) as Hq0. pose proof (Hq 1) as Hq1.
  constructor; unfold set_dbase, set_xs, set_base, dbase, c1, cq0, getq in *; cbn [xs base rp rwait disp active launched] in *;
    rewrite ?Em, ?Eo, ?Ews, ?upd_length; try assumption.
  unfold dq in *. lia.
Qed.

Lemma si_p : forall c n d k b l, SI c n d -> p_step (bcfg (dx c)) (dbase d) k = Some (b, l) -> SI c n (set_dbase d b).
Proof.
  intros c n d k b l [S1 S2 S3 S4 S5 S6 S7] H. destruct (p_step_eff _ _ _ _ _ H) as (p & p' & _ & _ & Eb & _). subst b.
  constructor; assumption.
Qed.

(* ------------------------------------------------------------------ *)

Lemma c1_set_ws : forall s x, c1 (set_ws s x) = c1 s.
Proof. reflexivity. Qed.
Lemma cq0_set_ws : forall s x, cq0 (set_ws s x) = cq0 s.
Proof. reflexivity. Qed.
Lemma c1_set_main : forall s x, c1 (set_main s x) = c1 s.
Proof. reflexivity. Qed.
Lemma cq0_set_main : forall s x, cq0 (set_main s x) = cq0 s.
Proof. reflexivity. Qed.

Ltac sid := unfold set_xs, set_disp, set_base, dbase in *; cbn [xs base disp active launched rp rwait] in *.
Ltac sic := cbn [main ops ws qpop qput qtd set_queues set_ws set_main set_futs].

(* ---- the dispatcher (serving queue 1) ---- *)
Lemma si_d : forall c n d x' l, SI c n d -> CI (dx c) (xs d) ->
  d_step (dx c) 1 (xs d) = Some (x', l) -> SI c n (set_xs d x').
Proof.
  intros c n d x' l [S1 S2 S3 S4 S5 S6 S7] HC Hst. unfold d_step in Hst. cbv zeta in Hst.
  pose proof (C_len _ _ HC) as Hlen. pose proof (C_scan _ _ HC) as Hscan.
  assert (HS3 : forall dd, disp (xs d) <> DNone -> main (base (xs d)) = MBegin \/ main (base (xs d)) = MStart 0 -> dd = DNone).
  { intros dd Hn Hm. exfalso. apply Hn. apply S3. exact Hm. }
  sid.
  destruct (disp (xs d)) as [| | |i|i|i todo kept|i|i| |k| | | |] eqn:Hd; try discriminate; simpl prep in *.
  - (* DBegin *) inversion Hst; subst; clear Hst. constructor; sid; try assumption.
    + intros Hm; apply S3 in Hm; discriminate Hm.
    + intros k E. discriminate E.
  - (* DGet *)
    destruct (qitems (getq (base (xs d)) 1)) as [|it rest] eqn:Hq1; [discriminate|].
    pose proof (c1_pop1 _ _ _ Hq1) as Hp.
    destruct it as [i|w]; inversion Hst; subst; clear Hst.
    + constructor; sid; rewrite ?c1_snoc, ?cq0_snoc, ?(cq0_pop_other _ 1) by lia; sic; try assumption.
      * intros Hm; apply S3 in Hm; discriminate Hm.
      * intros k E. discriminate E.
      * simpl in *. lia.
    + constructor; sid; rewrite ?(cq0_pop_other _ 1) by lia; sic; try assumption.
      * intros Hm; apply S3 in Hm; discriminate Hm.
      * intros k E. destruct w; [destruct (Nat.eqb (launched (xs d)) 0) eqn:El|]; try discriminate E.
        inversion E; subst. apply Nat.eqb_neq in El. lia.
      * simpl in *. destruct w; [destruct (Nat.eqb (launched (xs d)) 0)|]; simpl; lia.
  - (* DPutTask *) inversion Hst; subst; clear Hst. specialize (Hlen eq_refl).
    constructor; sid; rewrite ?c1_put_other, ?cq0_put_other by lia; sic; try assumption.
    + intros Hm; apply S3 in Hm; discriminate Hm.
    + intros k E. discriminate E.
  - (* DPutShut *) inversion Hst; subst; clear Hst. specialize (Hlen eq_refl).
    match goal with |- SI c n (mkD (after_puts ?C ?X ?I) _ _) => destruct (after_puts_cases C X I) as (Eb & Ea & El & Edc);
      assert (Hp : prep (disp (after_puts C X I)) = 1) by (destruct Edc as [E|[[a0 E]|E]]; rewrite E; reflexivity);
      assert (Hnj : forall k, disp (after_puts C X I) <> DSJoin k)
        by (intros k E0; destruct Edc as [E|[[a0 E]|E]]; rewrite E in E0; discriminate);
      assert (Hnn : disp (after_puts C X I) <> DNone)
        by (intros E0; destruct Edc as [E|[[a0 E]|E]]; rewrite E in E0; discriminate) end.
    constructor; sid; try (intros k E0; exfalso; exact (Hnj k E0)); rewrite ?Eb, ?Ea, ?El, ?Hp; sid;
      rewrite ?c1_put_other, ?cq0_put_other by lia; sic; try assumption.
    intros Hm. apply S3 in Hm. discriminate Hm.
  - (* DScan *)
    destruct todo as [|[f sl] rest]; [discriminate|].
    destruct (Hscan i _ _ eq_refl) as (_ & Hlen2 & _).
    destruct rest as [|e rest']; inversion Hst; subst; clear Hst.
    + match goal with |- SI c n (mkD (after_puts ?C ?X ?I) _ _) => destruct (after_puts_cases C X I) as (Eb & Ea & El & Edc);
        assert (Hp : prep (disp (after_puts C X I)) = 1) by (destruct Edc as [E|[[a0 E]|E]]; rewrite E; reflexivity);
        assert (Hnj : forall k, disp (after_puts C X I) <> DSJoin k)
          by (intros k E0; destruct Edc as [E|[[a0 E]|E]]; rewrite E in E0; discriminate);
        assert (Hnn : disp (after_puts C X I) <> DNone)
          by (intros E0; destruct Edc as [E|[[a0 E]|E]]; rewrite E in E0; discriminate) end.
      constructor; sid; try (intros k E0; exfalso; exact (Hnj k E0)); rewrite ?Eb, ?Ea, ?El, ?Hp; sid; try assumption.
      * intros Hm. exfalso. apply Hnn. apply S3 in Hm. discriminate Hm.
      * rewrite app_length in Hlen2. simpl in Hlen2.
        destruct (fdone (getf (base (xs d)) f)); [|rewrite app_length; simpl]; lia.
    + constructor; sid; try assumption.
      * intros Hm. apply S3 in Hm. discriminate Hm.
      * intros k E. discriminate E.
  - (* DStart *) inversion Hst; subst; clear Hst.
    constructor; sid; rewrite ?c1_set_ws, ?cq0_set_ws; sic; rewrite ?app_length; simpl length; simpl prep; try lia; try assumption.
    + intros Hm. apply S3 in Hm. discriminate Hm.
    + intros k E; discriminate E.
  - (* DTd *) inversion Hst; subst; clear Hst.
    constructor; sid; rewrite ?c1_td, ?cq0_td; sic; try assumption.
    + intros Hm. apply S3 in Hm. discriminate Hm.
    + intros k E. discriminate E.
  - (* DSJoin *)
    destruct (nth_error (ws (base (xs d))) k) as [wt|] eqn:Hk; [|discriminate].
    destruct (wdone wt); [|discriminate]. specialize (S6 k eq_refl).
    destruct (wdead wt); [|destruct (Nat.eqb (S k) (launched (xs d))) eqn:El]; inversion Hst; subst; clear Hst;
      constructor; sid; try assumption; try (intros Hm; apply S3 in Hm; discriminate Hm); intros k0 E; try discriminate E.
    inversion E; subst. apply Nat.eqb_neq in El. lia.
  - (* DSTd *) inversion Hst; subst; clear Hst.
    constructor; sid; rewrite ?c1_td, ?cq0_td; sic; try assumption.
    + intros Hm. apply S3 in Hm. discriminate Hm.
    + intros k E. discriminate E.
  - (* DSQJoin *)
    destruct (Nat.eqb (qunf (getq (base (xs d)) 1)) 0); [|discriminate]. inversion Hst; subst; clear Hst.
    constructor; sid; try assumption.
    + intros Hm. apply S3 in Hm. discriminate Hm.
    + intros k E. discriminate E.
Qed.

(* ------------------------------------------------------------------ *)

(* ---- the client: counts ---- *)
Lemma cq0_goto : forall s l x cl, cq0 (m_goto s l x cl) = cq0 s.
Proof. intros. unfold cq0. now rewrite m_goto_queues_getq. Qed.
Lemma c1_goto : forall s l x cl, c1 (m_goto s l x cl) = c1 s.
Proof. intros. unfold c1. now rewrite m_goto_queues_getq. Qed.
Lemma cq0_put0 : forall s it, queues s <> [] -> cq0 (qput s 0 it) = cq0 s + b2n (is_task it).
Proof.
  intros s it Hne. unfold cq0, qput, set_queues, getq. fld. rewrite getq_upd0 by exact Hne. cbn [qitems].
  now rewrite count_snoc.
Qed.
Lemma goto_submits : forall s l x cl, length (submits (ops (m_goto s l x cl))) <= length (submits l).
Proof. intros. apply submits_len_suffix. apply m_goto_ops. Qed.
Lemma submits_tl : forall l, length (submits (tl l)) <= length (submits l).
Proof. intros l. apply submits_len_suffix. destruct l as [|o t]; [exists []; reflexivity|exists [o]; reflexivity]. Qed.

Lemma cR_cnt : forall d0 s s', cR d0 s s' -> queues s <> [] ->
  cq0 s' + length (submits (ops s')) <= cq0 s + length (submits (ops s)).
Proof.
  intros d0 s s' HR Hne.
  destruct HR; rewrite ?cq0_goto; rewrite ?cq0_set_main.
  - cbn [ops set_main]. lia.
  - pose proof (goto_submits s (ops s ++ [ODrop]) [] false) as Hs. rewrite submits_app, app_length in Hs. simpl in Hs. lia.
  - pose proof (goto_submits (submit_state s i) t [XOk] (closed s)) as Hs.
    change (cq0 (submit_state s i)) with (cq0 (qput s 0 (Task i))). rewrite cq0_put0 by exact Hne.
    rewrite H0. simpl. lia.
  - pose proof (goto_submits (set_futs s (setf s i f)) t [XBool b] (closed s)) as Hs. rewrite cq0_futs, H0. simpl. lia.
  - pose proof (goto_submits s t [result_outcome (getf s i)] (closed s)) as Hs. rewrite H0. simpl. lia.
  - pose proof (cq0_pop _ _ _ H0 Hne) as Hp. cbn [ops set_main qpop set_queues]. lia.
  - pose proof (cq0_pop _ _ _ H0 Hne) as Hp. cbn [ops set_main qpop set_queues]. lia.
  - cbn [ops set_main]. lia.
  - rewrite cq0_put0 by exact Hne. cbn [ops set_main qput set_queues b2n is_task]. lia.
  - pose proof (goto_submits (qput s 0 (Shut w)) (tl (ops s)) (if cur_silent s then [] else [XOk]) true) as Hs.
    pose proof (submits_tl (ops s)). rewrite cq0_put0 by exact Hne. simpl b2n. lia.
  - rewrite cq0_put0 by exact Hne. cbn [ops set_main qput set_queues b2n is_task]. lia.
  - rewrite cq0_futs. cbn [ops set_main set_futs]. lia.
  - rewrite cq0_td. cbn [ops set_main qtd set_queues]. lia.
  - pose proof (goto_submits s (tl (ops s)) [XRaise] false) as Hs. pose proof (submits_tl (ops s)). lia.
  - cbn [ops set_main]. lia.
  - pose proof (goto_submits s (tl (ops s)) (if cur_silent s then [] else [XOk]) true) as Hs. pose proof (submits_tl (ops s)). lia.
Qed.

(* ---- the client: the additional weights ---- *)
Lemma xb_m_goto : forall n s l x cl,
  XB n (m_goto s l x cl) + sumf (xopw n) (ops s) + xmr n (main s) <= XB n s + sumf (xopw n) l.
Proof.
  intros n s l x cl. unfold XB. rewrite m_goto_queues, m_goto_ws.
  destruct (m_goto_ops s l x cl) as [pre E]. pose proof (f_equal (sumf (xopw n)) E) as E2. rewrite sumf_app in E2.
  destruct (m_goto_main s l x cl) as [Em|Em]; rewrite Em; simpl xmr; lia.
Qed.

Lemma xopw_tl : forall n l, sumf (xopw n) (tl l) <= sumf (xopw n) l.
Proof. intros n l. destruct l; simpl; lia. Qed.

Lemma DEL_ge : forall n, BB n <= DEL n.
Proof. intros n. unfold DEL. lia. Qed.

Lemma cR_xb : forall n d0 s s', cR d0 s s' ->
  XB n s' <= XB n s /\ (fsame s s' \/ XB n s' + BB n <= XB n s).
Proof.
  intros n d0 s s' HR. pose proof (DEL_ge n) as HD.
  destruct HR.
  - pose proof (xb_set_main n s (MStart 0)) as Hm. rewrite H in Hm. simpl in Hm. split; [lia|left; now apply fsame_refl].
  - pose proof (xb_m_goto n s (ops s ++ [ODrop]) [] false) as Hm. rewrite H, sumf_app in Hm. simpl in Hm.
    split; [lia|left; apply fsame_refl; apply m_goto_futs].
  - pose proof (xb_m_goto n (submit_state s i) t [XOk] (closed s)) as Hm.
    pose proof (xb_qput n s 0 (Task i)) as Hsb. change (XB n (qput s 0 (Task i))) with (XB n (submit_state s i)) in Hsb.
    unfold submit_state in Hm at 2 3. cbn [ops main] in Hm. rewrite H, H0 in Hm. simpl in Hm, Hsb.
    split; [lia|left; apply fsame_refl; rewrite m_goto_futs; reflexivity].
  - pose proof (xb_m_goto n (set_futs s (setf s i f)) t [XBool b] (closed s)) as Hm.
    rewrite xb_set_futs in Hm. cbn [ops main set_futs] in Hm. rewrite H, H0 in Hm. simpl in Hm. split; [lia|right; lia].
  - pose proof (xb_m_goto n s t [result_outcome (getf s i)] (closed s)) as Hm.
    rewrite H, H0 in Hm. simpl in Hm. split; [lia|left; apply fsame_refl; apply m_goto_futs].
  - pose proof (xb_qpop n s 0 _ _ H0) as Hp. pose proof (xb_set_main n (qpop s 0) (MDrainCancel w j)) as Hm.
    cbn [main qpop set_queues] in Hm. simpl in Hp. simpl xmr in Hm at 2.
    destruct H as [E|[E _]]; rewrite E in Hm; simpl in Hm; (split; [lia|left; now apply fsame_refl]).
  - pose proof (xb_qpop n s 0 _ _ H0) as Hp. pose proof (xb_set_main n (qpop s 0) (MDrain w)) as Hm.
    cbn [main qpop set_queues] in Hm. simpl in Hp. simpl xmr in Hm at 2.
    destruct H as [E|[E _]]; rewrite E in Hm; simpl in Hm; (split; [lia|left; now apply fsame_refl]).
  - pose proof (xb_set_main n s (MPutShut w 1)) as Hm. simpl xmr in Hm at 2.
    destruct H as [E|[E _]]; rewrite E in Hm; simpl in Hm; (split; [lia|left; now apply fsame_refl]).
  - pose proof (xb_qput n s 0 (Shut w)) as Hp. pose proof (xb_set_main n (qput s 0 (Shut w)) (MJoin 0)) as Hm.
    cbn [main qput set_queues] in Hm. simpl in Hp. simpl xmr in Hm at 2.
    destruct H as [[E _]|E]; rewrite E in Hm; simpl in Hm; (split; [lia|left; now apply fsame_refl]).
  - pose proof (xb_qput n s 0 (Shut w)) as Hp.
    pose proof (xb_m_goto n (qput s 0 (Shut w)) (tl (ops s)) (if cur_silent s then [] else [XOk]) true) as Hm.
    cbn [main ops qput set_queues] in Hm. simpl in Hp. pose proof (xopw_tl n (ops s)) as Ht.
    split; [lia|left; apply fsame_refl; rewrite m_goto_futs; reflexivity].
  - pose proof (xb_qput n s 0 (Shut w)) as Hp.
    pose proof (xb_set_main n (qput s 0 (Shut w)) (MPutShut w (S k))) as Hm.
    cbn [main qput set_queues] in Hm. simpl in Hp. rewrite H in Hm. simpl xmr in Hm.
    split; [lia|left; now apply fsame_refl].
  - pose proof (xb_set_main n (set_futs s (setf s j f)) (MDrainTd w)) as Hm.
    rewrite xb_set_futs in Hm. cbn [main set_futs] in Hm. rewrite H in Hm. simpl in Hm. split; [lia|right; lia].
  - pose proof (xb_set_main n (qtd s 0) (MDrain w)) as Hm. rewrite xb_qtd in Hm.
    cbn [main qtd set_queues] in Hm. rewrite H in Hm. simpl in Hm. split; [lia|left; now apply fsame_refl].
  - pose proof (xb_m_goto n s (tl (ops s)) [XRaise] false) as Hm. pose proof (xopw_tl n (ops s)) as Ht.
    split; [lia|left; apply fsame_refl; apply m_goto_futs].
  - pose proof (xb_set_main n s MQJoin) as Hm. rewrite H in Hm. simpl in Hm. split; [lia|left; now apply fsame_refl].
  - pose proof (xb_m_goto n s (tl (ops s)) (if cur_silent s then [] else [XOk]) true) as Hm. pose proof (xopw_tl n (ops s)) as Ht.
    split; [lia|left; apply fsame_refl; apply m_goto_futs].
Qed.

(* ---- the client: the invariant ---- *)
Lemma cR_main : forall d0 s s', cR d0 s s' -> main s <> MBegin -> (forall k, main s' <> MStart k) /\ main s' <> MBegin.
Proof.
  intros d0 s s' HR Hnb.
  destruct HR; cbn [main set_main]; try (split; [intros k0 E|intros E]; discriminate E); try congruence;
    try (match goal with |- context [m_goto ?s0 ?l0 ?x0 ?c0] => destruct (m_goto_main s0 l0 x0 c0) as [E2|E2]; rewrite E2 end;
         split; [intros k0 E|intros E]; discriminate E).
  all: match goal with |- context [m_goto ?s0 ?l0 ?x0 ?c0] => destruct (m_goto_main s0 l0 x0 c0) as [E2|E2]; rewrite E2 end.
  all: split; [intros k9 E|intros E]; discriminate E.
Qed.

Lemma cR_ops : forall d0 s s', cR d0 s s' -> (inshut (main s) -> ops s <> []) -> inshut (main s') -> ops s' <> [].
Proof.
  intros d0 s s' HR M1.
  destruct HR; cbn [main ops set_main qpop qput qtd set_queues set_futs inshut];
    try (intros Hi; exfalso; exact (goto_not_inshut _ _ _ _ Hi));
    try (intros _; apply M1; rewrite H; exact I);
    try (intros Hi; now destruct Hi).
  - intros _. destruct H as [E|[E [t Ho]]]; [apply M1; rewrite E; exact I|rewrite Ho; discriminate].
  - intros _. destruct H as [E|[E [t Ho]]]; [apply M1; rewrite E; exact I|rewrite Ho; discriminate].
  - intros _. destruct H as [E|[E [t Ho]]]; [apply M1; rewrite E; exact I|rewrite Ho; discriminate].
  - intros _. destruct H as [[E Ho]|E]; [|apply M1; rewrite E; exact I].
    destruct Ho as [[t Ho]|[[_ [t Ho]]|[_ [t Ho]]]]; rewrite Ho; discriminate.
Qed.

Lemma cR_started : forall d0 s s', cR d0 s s' -> main s <> MBegin -> started (main s').
Proof.
  intros d0 s s' HR Hnb. destruct HR; cbn [main set_main]; try exact I; try congruence; try (apply plain_started, m_goto_plain).
Qed.

Lemma si_m : forall c n d d' l, dinner c = IStep -> SI c n d -> queues (dbase d) <> [] ->
  dm_step c d = Some (d', l) -> SI c n d'.
Proof.
  intros c n d d' l Hin HS Hne H. pose proof HS as [S1 S2 S3 S4 S5 S6 S7].
  unfold dm_step in H. cbv zeta in H. rewrite Hin in H.
  assert (Hxm : main (dbase d) <> MBegin -> (forall k, main (dbase d) <> MStart k) ->
                match xm_step (dx c) (xs d) with Some (x', l0) => Some (set_xs d x', l0) | None => None end = Some (d', l) ->
                SI c n d').
  { intros N1 N2 Hx. destruct (xm_step (dx c) (xs d)) as [[x' l0]|] eqn:Ex; [|discriminate]. inversion Hx; subst; clear Hx.
    destruct (xm_step_cR _ _ _ _ Ex) as (HR & Ea & Ela & Ed).
    destruct (xm_step_eff _ _ _ _ Ex) as ((Ews & _ & Elq & Hoth) & _ & _).
    assert (Ed' : disp x' = disp (xs d)).
    { rewrite Ed. unfold dbase in N2. destruct (main (base (xs d))); try reflexivity. exfalso. eapply N2; reflexivity. }
    destruct (cR_main _ _ _ HR N1) as (Hns & Hnb).
    pose proof (cR_cnt _ _ _ HR Hne) as Hc.
    assert (Ec1 : c1 (base x') = c1 (base (xs d))).
    { unfold c1, getq. change (mkQ [] 0) with dq. rewrite Hoth by lia. reflexivity. }
    constructor; unfold dbase, set_xs in *; cbn [xs rp rwait] in *; rewrite ?Ed', ?Ea, ?Ela, ?Ews, ?Ec1; try assumption.
    - eapply cR_ops; eauto.
    - intros Hn. exfalso. apply Hn. eapply cR_started; eauto.
    - intros [E|E]; exfalso; [exact (Hnb E)|exact (Hns 0 E)].
    - lia. }
  unfold dbase in *.
  destruct (main (base (xs d))) as [|k| |w|w j|w|w k|k| |] eqn:Hm;
    try (apply Hxm; [discriminate|intros; discriminate|exact H]).
  - (* MBegin *)
    inversion H; subst; clear H.
    constructor; unfold set_dbase in *; sid; rewrite ?c1_set_main, ?cq0_set_main, ?c1_snoc, ?cq0_snoc; sic; try assumption.
    intros _. apply S3. now left.
  - (* MStart *)
    destruct k as [|k]; inversion H; subst; clear H.
    + (* the dispatcher is started *)
      assert (Hd0 : disp (xs d) = DNone) by (apply S3; now right). rewrite Hd0 in *.
      constructor; unfold set_dbase in *; sid; rewrite ?c1_set_main, ?cq0_set_main; sic; try assumption.
      * intros [E|E]; discriminate E.
      * intros k E. discriminate E.
    + (* the resolver is started *)
      assert (Hrn : rp d = RNone) by (apply S2; simpl; tauto).
      constructor; unfold set_dbase in *; sid; rewrite ?c1_goto, ?cq0_goto, ?m_goto_ws; try assumption.
      * intros Hi. exfalso. exact (goto_not_inshut _ _ _ _ Hi).
      * intros Hn. exfalso. apply Hn. apply plain_started, m_goto_plain.
      * intros [E|E]; destruct (m_goto_main (base (xs d)) (ops (base (xs d)) ++ [ODrop]) [] false) as [E2|E2];
          rewrite E2 in E; discriminate E.
      * rewrite Hrn in S7. simpl rcount in *.
        pose proof (goto_submits (base (xs d)) (ops (base (xs d)) ++ [ODrop]) [] false) as Hs.
        rewrite submits_app, app_length in Hs. simpl in Hs. lia.
  - (* MJoin *)
    destruct (rdone (rp d)) eqn:Hrd; [|discriminate].
    assert (Hops : ops (base (xs d)) <> []) by (apply S1; exact I).
    destruct (rp d) eqn:Hr; simpl in Hrd; try discriminate Hrd; inversion H; subst; clear H.
    + constructor; unfold set_dbase in *; sid; rewrite ?c1_set_main, ?cq0_set_main; sic; try assumption.
      * simpl. tauto.
      * intros [E|E]; discriminate E.
      * rewrite Hr. exact S7.
    + constructor; unfold set_dbase in *; sid; unfold m_done; rewrite ?c1_goto, ?cq0_goto, ?m_goto_ws; try assumption.
      * intros Hi. exfalso. exact (goto_not_inshut _ _ _ _ Hi).
      * intros Hn. exfalso. apply Hn. apply plain_started, m_goto_plain.
      * intros [E|E]; destruct (m_goto_main (base (xs d)) (tl (ops (base (xs d)))) [XRaise] false) as [E2|E2];
          rewrite E2 in E; discriminate E.
      * rewrite Hr.
        pose proof (goto_submits (base (xs d)) (tl (ops (base (xs d)))) [XRaise] false) as Hs.
        pose proof (submits_tl (ops (base (xs d)))). lia.
Qed.

Lemma si_step : forall c n d t d' l, dinner c = IStep -> SI c n d -> CI (dx c) (xs d) -> queues (dbase d) <> [] ->
  dstep c d t = Some (d', l) -> SI c n d'.
Proof.
  intros c n d t d' l Hin HS HC Hne Hst. destruct t as [| | |j|k]; simpl in Hst.
  - eapply si_m; eauto.
  - eapply si_r; eauto.
  - rewrite Hin in Hst. destruct (d_step (dx c) 1 (xs d)) as [[x' l0]|] eqn:E; [|discriminate].
    inversion Hst; subst. eapply si_d; eauto.
  - destruct j as [|j]; [discriminate|].
    destruct (w_step (bcfg (dx c)) (dbase d) j) as [[b l0]|] eqn:E; [|discriminate].
    inversion Hst; subst. eapply si_w; eauto.
  - destruct (p_step (bcfg (dx c)) (dbase d) k) as [[b l0]|] eqn:E; [|discriminate].
    inversion Hst; subst. eapply si_p; eauto.
Qed.

Lemma inv4_qne : forall c n d, Inv4 c n d -> queues (dbase d) <> [].
Proof.
  intros c n d ((_ & _ & _ & _ & (HL1 & _) & _) & _) E. rewrite E in HL1. simpl in HL1. lia.
Qed.

Lemma si_reach : forall c n prog d, dinner c = IStep -> wf_prog n prog -> dreach c (dinit n prog) d -> SI c n d.
Proof.
  intros c n prog d Hin Hwf Hr. induction Hr as [|d t d' l Hr IH Hst].
  - now apply si_init.
  - eapply si_step; [exact Hin|exact IH|eapply CI_dreach; eauto| |exact Hst].
    eapply inv4_qne. eapply Inv4_reach; eauto.
Qed.

(* ------------------------------------------------------------------ *)

(* ================= the measure ================= *)
(* the shutdown message of the inner executor is still to be put by the resolver *)
Definition sfund (c : dcfg) (n : nat) (r : rpc) : nat :=
  match r with
  | RInPut _ k => k * xS1 n
  | RInJoin _ | RInJoinD | RInQJoin | RTd0 | RQJoin0 | RDone | RDead => 0
  | _ => nwk c * xS1 n
  end.

Definition RX (c : dcfg) (n : nat) (d : dstate) : nat :=
  XB n (dbase d) + DEL n * rcount (rp d) (rwait d) + sfund c n (rp d).

Definition dmuS (c : dcfg) (n : nat) (d : dstate) : nat :=
  dmu c n d + RX c n d
  + drank n (launched (xs d)) (disp (xs d)) + epot n (futs (dbase d)) (disp (xs d)) (active (xs d)).

Lemma sfund_start_pass : forall c n d a, sfund c n (rp (start_pass c d a)) <= nwk c * xS1 n.
Proof.
  intros c n d a. unfold start_pass. destruct (rwait d) as [|[j dj] rest]; [|simpl; lia].
  destruct a; [simpl; lia|]. rewrite inner_shut_start_eq. simpl. lia.
Qed.
Lemma sfund_scan_next : forall c n d pre post n0 a, sfund c n (rp (scan_next c d pre post n0 a)) <= nwk c * xS1 n.
Proof.
  intros c n d pre post n0 a. unfold scan_next. destruct post as [|[j dj] rest]; [|simpl; lia].
  destruct a; destruct (Nat.eqb (length pre) n0); try (simpl; lia). apply sfund_start_pass.
Qed.
Lemma sfund_kont : forall c n d k, sfund c n (rp (kont c d k)) <= nwk c * xS1 n.
Proof. intros c n d k. destruct k; [simpl; lia|apply sfund_scan_next]. Qed.
Lemma sfund_aid : forall c n d i deps k, sfund c n (rp (after_inputs_done d i deps k)) = nwk c * xS1 n.
Proof. intros c n d i deps k. unfold after_inputs_done. destruct deps; reflexivity. Qed.

Ltac rx_tac n :=
  repeat match goal with
  | |- context [rcount (rp (kont ?c ?d ?k)) (rwait (kont ?c ?d ?k))] =>
      let H := fresh "Hk" in let H2 := fresh "Hs" in
      pose proof (Nat.mul_le_mono_l _ _ (DEL n) (kont_cnt c d k)) as H; pose proof (sfund_kont c n d k) as H2;
      generalize dependent (rcount (rp (kont c d k)) (rwait (kont c d k)));
      generalize dependent (sfund c n (rp (kont c d k))); intros
  | |- context [rcount (rp (scan_next ?c ?d ?p ?q ?m ?a)) (rwait (scan_next ?c ?d ?p ?q ?m ?a))] =>
      let H := fresh "Hk" in let H2 := fresh "Hs" in
      pose proof (Nat.mul_le_mono_l _ _ (DEL n) (scan_next_cnt c d p q m a)) as H; pose proof (sfund_scan_next c n d p q m a) as H2;
      generalize dependent (rcount (rp (scan_next c d p q m a)) (rwait (scan_next c d p q m a)));
      generalize dependent (sfund c n (rp (scan_next c d p q m a))); intros
  | |- context [rcount (rp (start_pass ?c ?d ?a)) (rwait (start_pass ?c ?d ?a))] =>
      let H := fresh "Hk" in let H2 := fresh "Hs" in
      pose proof (Nat.mul_le_mono_l _ _ (DEL n) (start_pass_cnt c d a)) as H; pose proof (sfund_start_pass c n d a) as H2;
      generalize dependent (rcount (rp (start_pass c d a)) (rwait (start_pass c d a)));
      generalize dependent (sfund c n (rp (start_pass c d a))); intros
  | |- context [rcount (rp (after_inputs_done ?d ?i ?l ?k)) (rwait (after_inputs_done ?d ?i ?l ?k))] =>
      rewrite (proj2 (after_inputs_done_cnt d i l k))
  | |- context [sfund ?c n (rp (after_inputs_done ?d ?i ?l ?k))] => rewrite (sfund_aid c n d i l k)
  end.

Lemma xS1_le : forall n, xS1 n <= DEL n.
Proof. intros n. unfold DEL, xT1, xS1. lia. Qed.

(* ---- a step of the resolver: the additional part ---- *)
Lemma r_step_x : forall c n d d' l, dinner c = IStep -> r_step c d = Some (d', l) ->
  RX c n d' <= RX c n d /\ (fsame (dbase d) (dbase d') \/ RX c n d' + BB n <= RX c n d).
Proof.
  intros c n d d' l Hin H. unfold RX. unfold r_step in H. cbv zeta in H. rewrite ?Hin in H.
  assert (Hnw : nwk c = 1) by (unfold nwk; now rewrite Hin).
  assert (HD : DEL n = xT1 n + 2 * BB n) by reflexivity.
  destruct (rp d) eqn:Hr; destr_all H; inversion H; subst; clear H;
    rewrite ?dbase_kont, ?dbase_scan_next, ?dbase_start_pass, ?dbase_aid; rx_tac n;
    unfold set_dbase, set_xs, set_rp, set_base in *; cbn [xs rp rwait base dbase] in *;
    try match goal with Hq : qitems (getq _ 0) = _ :: _ |- _ => pose proof (xb_qpop n _ _ _ _ Hq) as Hpop; simpl xqw in Hpop end;
    unfold dbase in *; cbn [xs base] in *;
    repeat match goal with |- context [XB n (qput ?s ?q ?it)] =>
      let Hc := fresh "Hc" in pose proof (xb_qput n s q it) as Hc; simpl xqw in Hc; generalize dependent (XB n (qput s q it)); intros end;
    rewrite ?xb_qtd, ?xb_set_futs;
    simpl rcount in *; simpl kcount in *; cbn [sfund] in *; rewrite ?app_length in *; simpl length in *; rewrite ?Hnw in *.
  all: try (split; [lia|first [left; apply fsame_refl; reflexivity
                             | left; apply fsame_setf; match goal with Hf : getf _ _ = _ |- _ => rewrite Hf end; reflexivity
                             | right; lia]]).
Qed.

(* ---- a step of the resolver: the part of the measure shared with the block-allocation case
   (the proof of r_step_dec of DepMeasure.v, with the bound on the number of calls as a hypothesis) ---- *)
Lemma r_step_decS : forall c n d d' l,
  dinner c = IStep ->
  rcount (rp d) (rwait d) + count is_task (qitems (getq (dbase d) 0)) + length (submits (ops (dbase d))) <= n ->
  RI c d -> RP (rng n) d -> rsd (dbase d) (rp d) ->
  r_step c d = Some (d', l) -> r_polling c d = false -> dmu c n d' < dmu c n d.
Proof.
  intros c n d d' l Hin0 Hcnt HRI HRP Hsd Hst Hpoll.
  assert (Hdm : forall j, fdone (getf (dbase d) j) = true -> fdone (getf (dbase d') j) = true)
    by (intros j; apply (done_monotone c d TR d' l j); exact Hst).
  destruct HRI as [Hwl HRr]. destruct HRP as [Hrl HRp].
  assert (HT1 : T1 = 20) by reflexivity.
  unfold dmu. unfold r_step in Hst. cbv zeta in Hst. unfold r_polling in Hpoll.
  destruct (rp d) as [| | |i todo alld|i todo k|i k|i k|i k| |pre cur deps todo alld post n0 a|a|w k|k| | | | | |] eqn:Hr;
    try discriminate Hst.
  - (* RBegin *) inversion Hst; subst; clear Hst. dsimp. cbn [rmf]. lia.
  - (* RPoll *)
    destruct (qitems (getq (dbase d) 0)) as [|it rest] eqn:Hq0.
    + inversion Hst; subst; clear Hst. rewrite dbase_start_pass.
      pose proof (rmf_start_pass c n (dbase d) d ASleepPoll) as Hs. cbn [abonus qbsc] in Hs.
      unfold q0ne in Hs. rewrite Hq0 in Hs. cbn [is_nil negb] in Hs. cbn [rmf]. lia.
    + pose proof (dbm_qpop c n (dbase d) 0 it rest Hq0) as Hp.
      assert (Hsm : smono (dbase d) (qpop (dbase d) 0)).
      { split; [intros j Hj; exact Hj|]. intros _. unfold q0ne. rewrite Hq0. reflexivity. }
      destruct it as [i|w0].
      * (* a call *)
        simpl wqw in Hp. unfold W0T in Hp.
        destruct (ddeps c i) as [|j0 l0] eqn:Hdeps; inversion Hst; subst; clear Hst;
          unfold set_rp, set_dbase, set_xs, set_base, dbase in *; cbn [xs base rp rwait] in *.
        -- pose proof (sumT_mono c n _ _ (rwait d) Hsm). unfold Lof in Hp. rewrite Hdeps in Hp.
           cbn [rmf kpot length] in *. lia.
        -- pose proof (sumT_mono c n _ _ (rwait d) Hsm). cbn [rmf kpot] in *. unfold Lof in *. rewrite Hdeps in *.
           cbn [length] in *. lia.
      * (* the shutdown message *)
        inversion Hst; subst; clear Hst. rewrite dbase_start_pass.
        unfold set_dbase, set_xs, set_base, dbase in *; cbn [xs base] in *.
        match goal with |- context [start_pass c ?D (AShut w0)] =>
          pose proof (rmf_start_pass c n (qpop (base (xs d)) 0) D (AShut w0)) as Hs end.
        cbn [rwait abonus qbsc] in Hs. pose proof (sumT_mono c n _ _ (rwait d) Hsm).
        simpl wqw in Hp. unfold W0S in Hp. cbn [rmf]. lia.
  - (* RCheck *)
    destruct todo as [|j rest]; [discriminate|].
    destruct rest as [|j2 rest2].
    + destruct (alld && fdone (getf (dbase d) j)); inversion Hst; subst; clear Hst.
      * rewrite dbase_aid. pose proof (rmf_aid c n (dbase d) d i (ddeps c i) KTd) as Ha.
        cbn [rmf kpot length] in *. unfold Lof. lia.
      * dsimp. cbn [rmf length]. rewrite sumf_app. cbn [sumf].
        pose proof (epT_le c n (base (xs d)) (i, ddeps c i)) as He. unfold epK, Ld in He. cbn [snd] in He.
        unfold Lof. lia.
    + inversion Hst; subst; clear Hst. dsimp. cbn [rmf length]. lia.
  - (* RRes *)
    destruct todo as [|j rest]; [discriminate|].
    destruct (fdone (getf (dbase d) j)); [|discriminate].
    destruct (fok (getf (dbase d) j)); [destruct rest|]; inversion Hst; subst; clear Hst; dsimp; cbn [rmf length]; lia.
  - (* RFwd *)
    inversion Hst; subst; clear Hst. rewrite dbase_kont.
    assert (HBk : forall pre post n0 a, k = KScan pre post n0 a -> sumf (fun e => Ld e + 2) pre + 1 <= Cmax c n).
    { intros pre post n0 a E. subst k. simpl in HRr, HRp, Hcnt. apply wf_bound; [tauto|tauto|lia]. }
    pose proof (dbm_qput c n (dbase d) 1 (Task i)) as Hp. simpl wqw in Hp.
    match goal with |- context [kont c ?D k] =>
      pose proof (rmf_kont c n (qput (dbase d) 1 (Task i)) D k HBk) as Hk end.
    assert (Hsm : smono (dbase d) (qput (dbase d) 1 (Task i))).
    { split; [intros j Hj; exact Hj|rewrite q0ne_put1; tauto]. }
    pose proof (kpot_mono c n _ _ k (rwait d) Hsm). dsimp. cbn [rmf]. lia.
  - (* RFailSrnc *)
    assert (HBk : forall pre post n0 a, k = KScan pre post n0 a -> sumf (fun e => Ld e + 2) pre + 1 <= Cmax c n).
    { intros pre post n0 a E. subst k. simpl in HRr, HRp, Hcnt. apply wf_bound; [tauto|tauto|lia]. }
    destruct (getf (dbase d) i) eqn:Hf; inversion Hst; subst; clear Hst.
    all: try (dsimp; cbn [rmf]; lia).
    + (* pending -> running *)
      assert (Hsm : smono (dbase d) (set_futs (dbase d) (setf (dbase d) i FRunning))).
      { split; [intros j Hj; exact (Hdm j Hj)|tauto]. }
      pose proof (kpot_mono c n _ _ k (rwait d) Hsm). dsimp. cbn [rmf]. rewrite dbm_set_futs. lia.
    + (* cancelled -> notified *)
      rewrite dbase_kont in *.
      assert (Hsm : smono (dbase d) (set_futs (dbase d) (setf (dbase d) i FCancelledN))).
      { split; [intros j Hj; exact (Hdm j Hj)|tauto]. }
      match goal with |- context [kont c ?D k] =>
        pose proof (rmf_kont c n (set_futs (dbase d) (setf (dbase d) i FCancelledN)) D k HBk) as Hk end.
      pose proof (kpot_mono c n _ _ k (rwait d) Hsm). dsimp. cbn [rmf]. rewrite dbm_set_futs. lia.
  - (* RFailSet *)
    assert (HBk : forall pre post n0 a, k = KScan pre post n0 a -> sumf (fun e => Ld e + 2) pre + 1 <= Cmax c n).
    { intros pre post n0 a E. subst k. simpl in HRr, HRp, Hcnt. apply wf_bound; [tauto|tauto|lia]. }
    destruct (getf (dbase d) i) eqn:Hf; inversion Hst; subst; clear Hst.
    all: try (dsimp; cbn [rmf]; lia).
    + rewrite dbase_kont in *.
      assert (Hsm : smono (dbase d) (set_futs (dbase d) (setf (dbase d) i FExc)))
        by (split; [intros j Hj; exact (Hdm j Hj)|tauto]).
      match goal with |- context [kont c ?D k] =>
        pose proof (rmf_kont c n (set_futs (dbase d) (setf (dbase d) i FExc)) D k HBk) as Hk end.
      pose proof (kpot_mono c n _ _ k (rwait d) Hsm). dsimp. cbn [rmf]. rewrite dbm_set_futs. lia.
    + rewrite dbase_kont in *.
      assert (Hsm : smono (dbase d) (set_futs (dbase d) (setf (dbase d) i FExc)))
        by (split; [intros j Hj; exact (Hdm j Hj)|tauto]).
      match goal with |- context [kont c ?D k] =>
        pose proof (rmf_kont c n (set_futs (dbase d) (setf (dbase d) i FExc)) D k HBk) as Hk end.
      pose proof (kpot_mono c n _ _ k (rwait d) Hsm). dsimp. cbn [rmf]. rewrite dbm_set_futs. lia.
  - (* RTd *)
    inversion Hst; subst; clear Hst.
    assert (Hsm : smono (dbase d) (qtd (dbase d) 0)) by (split; [intros j Hj; exact Hj|rewrite q0ne_td; tauto]).
    pose proof (sumT_mono c n _ _ (rwait d) Hsm). dsimp. cbn [rmf]. rewrite dbm_qtd. lia.
  - (* RScan *)
    destruct todo as [|j rest]; [discriminate|].
    simpl in HRr, HRp, Hcnt. destruct HRr as (Hwpre & Hdeps & Hwpost). destruct HRp as (Hrpre & Hrcur & Hrpost).
    simpl in Hsd. destruct Hsd as (p' & Edeps & Hpd).
    assert (F1 : rdy (dbase d) (cur, deps) = true -> fdone (getf (dbase d) j) = true).
    { intros Hr1. unfold rdy in Hr1. cbn [snd] in Hr1. rewrite forallb_forall in Hr1. apply Hr1.
      rewrite Edeps. apply in_or_app. right. now left. }
    pose proof (Pe_lt_Ke c n (Ld (cur, deps))) as HPK.
    destruct rest as [|j2 rest2].
    + destruct (alld && fdone (getf (dbase d) j)) eqn:Eal; inversion Hst; subst; clear Hst.
      * (* all inputs done: forward *)
        apply andb_true_iff in Eal. destruct Eal as [Ea Eb]. subst alld.
        assert (Hrdy : rdy (dbase d) (cur, ddeps c cur) = true).
        { unfold rdy. cbn [snd]. apply forallb_forall. intros j0 Hj0. rewrite Edeps in Hj0.
          apply in_app_or in Hj0. destruct Hj0 as [Hj0|[Hj0|[]]]; [now apply Hpd|subst j0; exact Eb]. }
        rewrite dbase_aid.
        pose proof (rmf_aid c n (dbase d) d cur (ddeps c cur) (KScan pre post n0 a)) as Ha.
        cbn [rmf kpot] in *. unfold curpot. rewrite Hrdy. cbn [andb length]. unfold Pe', Ld in *. cbn [snd] in *. lia.
      * (* keep the call parked *)
        cbn [kont]. rewrite dbase_scan_next.
        assert (HB : sumf (fun e => Ld e + 2) (pre ++ [(cur, ddeps c cur)]) + 1 <= Cmax c n).
        { apply wf_bound.
          - apply wfl_app; [exact Hwpre|]. intros e [E|[]]. subst e. reflexivity.
          - intros e He. apply in_app_or in He. destruct He as [He|[He|[]]]; [now apply Hrpre|subst e; exact Hrcur].
          - rewrite app_length. simpl. lia. }
        pose proof (rmf_scan_next c n (dbase d) d (pre ++ [(cur, ddeps c cur)]) post n0 a HB) as Hs.
        rewrite sumf_app, app_length in Hs. cbn [sumf length] in Hs. unfold epK in Hs at 2.
        cbn [rmf]. unfold curpot.
        assert (Hnr : alld && rdy (dbase d) (cur, ddeps c cur) = false).
        { destruct alld; [|reflexivity]. simpl in Eal. simpl.
          destruct (rdy (dbase d) (cur, ddeps c cur)) eqn:E; [|reflexivity]. rewrite (F1 eq_refl) in Eal. discriminate. }
        rewrite Hnr. cbn [length]. replace (length pre + 1 + length post) with (length pre + 1 + length post) in Hs by lia. lia.
    + inversion Hst; subst; clear Hst. dsimp. cbn [rmf]. unfold curpot. cbn [length].
      destruct (alld && rdy (base (xs d)) (cur, ddeps c cur)) eqn:E1.
      * apply andb_true_iff in E1. destruct E1 as [Ea Er]. rewrite Ea. rewrite (F1 Er). cbn [andb]. rewrite Er. lia.
      * destruct ((alld && fdone (getf (base (xs d)) j)) && rdy (base (xs d)) (cur, ddeps c cur)); lia.
  - (* RSleep: not a fruitless poll *)
    simpl in Hcnt.
    assert (HB : sumf (fun e => Ld e + 2) (rwait d) + 1 <= Cmax c n) by (apply wf_bound; [exact Hwl|exact Hrl|lia]).
    pose proof (sumT_le c n (dbase d) (rwait d)) as Hle.
    destruct a as [|w0]; inversion Hst; subst; clear Hst.
    + dsimp. cbn [rmf abonus qbsl]. unfold q0ne.
      destruct (existsb (rdy (base (xs d))) (rwait d)) eqn:Eex.
      * pose proof (sumT_ready c n _ _ Eex). destruct (negb (is_nil (qitems (getq (base (xs d)) 0)))); lia.
      * simpl in Hpoll. rewrite Hpoll. simpl. lia.
    + rewrite dbase_start_pass. pose proof (rmf_start_pass c n (dbase d) d (AShut w0)) as Hs.
      cbn [rmf abonus qbsl qbsc] in *.
      destruct (existsb (rdy (dbase d)) (rwait d)) eqn:Eex.
      * pose proof (sumT_ready c n _ _ Eex). lia.
      * simpl in Hpoll. apply negb_false_iff in Hpoll. destruct (rwait d) as [|e rw] eqn:Erw; [|discriminate Hpoll].
        unfold start_pass. rewrite Erw, inner_shut_start_eq. cbn [set_rp rp rwait rmf sumf]. unfold SHc. lia.
  - (* RInPut *)
    destruct k as [|k']; [discriminate|].
    pose proof (dbm_qput c n (dbase d) 1 (Shut w)) as Hp. simpl wqw in Hp.
    destruct k' as [|k''].
    + destruct w.
      * destruct (dinner c) as [n1|] eqn:Hin.
        -- destruct (Nat.eqb n1 0); inversion Hst; subst; clear Hst; dsimp; cbn [rmf]; unfold nwk; rewrite Hin; lia.
        -- inversion Hst; subst; clear Hst; dsimp; cbn [rmf]. lia.
      * inversion Hst; subst; clear Hst. dsimp. cbn [rmf]. lia.
    + inversion Hst; subst; clear Hst. dsimp. cbn [rmf]. lia.
  - (* RInJoin *)
    destruct (nth_error (ws (dbase d)) k) as [wt|] eqn:Hk; [|discriminate].
    assert (Hkl : k < length (ws (dbase d))) by (apply nth_error_Some; congruence).
    destruct (wdone wt); [|discriminate].
    destruct (wdead wt).
    + inversion Hst; subst; clear Hst. dsimp. cbn [rmf]. lia.
    + rewrite Hin0 in Hst. discriminate Hst.
  - (* RInJoinD *)
    destruct (ddone (disp (xs d))); [|discriminate].
    destruct (disp (xs d)); inversion Hst; subst; clear Hst; dsimp; cbn [rmf]; lia.
  - (* RInQJoin *)
    destruct (Nat.eqb (qunf (getq (dbase d) 1)) 0); [|discriminate]. inversion Hst; subst; clear Hst. dsimp. cbn [rmf]. lia.
  - (* RTd0 *) inversion Hst; subst; clear Hst. dsimp. cbn [rmf]. rewrite dbm_qtd. lia.
  - (* RQJoin0 *)
    destruct (Nat.eqb (qunf (getq (dbase d) 0)) 0); [|discriminate]. inversion Hst; subst; clear Hst. dsimp. cbn [rmf]. lia.
Qed.

(* ------------------------------------------------------------------ *)

(* ================= the dispatcher ================= *)
Definition DMU (c : dcfg) (n : nat) (x : xstate) : nat :=
  dbm c n (base x) + XB n (base x) + drank n (launched x) (disp x) + epot n (futs (base x)) (disp x) (active x).

Lemma wqw_hi : forall c n q it, 1 <= q -> wqw c n q it = 20.
Proof. intros c n q it H. destruct q; [lia|reflexivity]. Qed.
Lemma xqw_hi_task : forall n q i, 2 <= q -> xqw n q (Task i) = BB n.
Proof. intros n q i H. destruct q as [|[|q]]; try lia. reflexivity. Qed.
Lemma xqw_hi_shut : forall n q w, 2 <= q -> xqw n q (Shut w) = 0.
Proof. intros n q w H. destruct q as [|[|q]]; try lia. reflexivity. Qed.

Lemma d_step_DMU : forall c n cx x x' l,
  d_step cx 1 x = Some (x', l) -> d_polling x = false ->
  (prep (disp x) = 1 -> 3 <= length (queues (base x))) ->
  (forall i0 todo kept, disp x = DScan i0 todo kept -> sub_of (kept ++ todo) (active x)) ->
  length (active x) <= n -> launched x <= n ->
  (forall k, disp x = DSJoin k -> k < launched x) ->
  DMU c n x' < DMU c n x.
Proof.
  intros c n cx x x' l Hst Hpoll Hlen Hscan Hact Hla Hjo. unfold d_step in Hst. cbv zeta in Hst.
  pose proof (NN_ge2 n) as HN2. pose proof (NN_gt n) as HNn.
  assert (HT : xT1 n = 2 * NN n + BB n + 28) by reflexivity.
  assert (HS : xS1 n = NN n + 5) by reflexivity.
  unfold DMU.
  destruct (disp x) as [| | |i|i|i todo kept|i|i| |k| | | |] eqn:Hd; try discriminate; simpl prep in *.
  - (* DBegin *) inversion Hst; subst; clear Hst. unfold set_disp. xfld. simpl. lia.
  - (* DGet *)
    destruct (qitems (getq (base x) 1)) as [|it rest] eqn:Hq1; [discriminate|].
    pose proof (dbm_qpop c n (base x) 1 it rest Hq1) as Hp. rewrite wqw_hi in Hp by lia.
    pose proof (xb_qpop n (base x) 1 it rest Hq1) as Hxp.
    destruct it as [i|w]; inversion Hst; subst; clear Hst; xfld.
    + match goal with |- dbm c n ?S + _ + _ + _ < _ =>
        assert (Hb1 : dbm c n S = dbm c n (qpop (base x) 1)) by (apply (dbm_addq c n (qpop (base x) 1)));
        assert (Hb2 : XB n S = XB n (qpop (base x) 1)) by (apply (xb_addq n (qpop (base x) 1)));
        change (futs S) with (futs (base x)) end.
      rewrite Hb1, Hb2. simpl xqw in Hxp. simpl drank. simpl epot. lia.
    + simpl xqw in Hxp.
      assert (Hr : drank n (launched x) (if w then if Nat.eqb (launched x) 0 then DSTd else DSJoin 0 else DSTd) <= launched x + 3)
        by (destruct w; [destruct (Nat.eqb (launched x) 0)|]; simpl; lia).
      rewrite (epot_noscan n (futs (qpop (base x) 1)) (if w then if Nat.eqb (launched x) 0 then DSTd else DSJoin 0 else DSTd))
        by (intros i0 t0 k0; destruct w; [destruct (Nat.eqb (launched x) 0)|]; discriminate).
      simpl epot. simpl drank at 2. change (futs (qpop (base x) 1)) with (futs (base x)). lia.
  - (* DPutTask *) inversion Hst; subst; clear Hst. xfld. specialize (Hlen eq_refl).
    pose proof (dbm_qput c n (base x) (length (queues (base x)) - 1) (Task i)) as Hp. rewrite wqw_hi in Hp by lia.
    pose proof (xb_qput n (base x) (length (queues (base x)) - 1) (Task i)) as Hxp. rewrite xqw_hi_task in Hxp by lia.
    simpl drank. simpl epot.
    change (futs (qput (base x) (length (queues (base x)) - 1) (Task i))) with (futs (base x)). lia.
  - (* DPutShut *) inversion Hst; subst; clear Hst. specialize (Hlen eq_refl).
    pose proof (dbm_qput c n (base x) (length (queues (base x)) - 1) (Shut true)) as Hp. rewrite wqw_hi in Hp by lia.
    pose proof (xb_qput n (base x) (length (queues (base x)) - 1) (Shut true)) as Hxp. rewrite xqw_hi_shut in Hxp by lia.
    destruct (after_puts_cases cx (set_base x (qput (base x) (length (queues (base x)) - 1) (Shut true))) i) as (Eb & Ea & El & Edc).
    rewrite Eb, Ea, El.
    destruct Edc as [E|[[a0 E]|E]]; rewrite E; unfold set_base; xfld;
      change (futs (qput (base x) (length (queues (base x)) - 1) (Shut true))) with (futs (base x)); simpl; try lia.
    (* a new pass: todo = active *)
    unfold after_puts in E. unfold set_base in E. cbn [active] in E.
    destruct (must_wait cx (active x) i); [|discriminate E].
    destruct (active x) eqn:Ea0; simpl in E; [discriminate E|]. inversion E; subst a0. simpl. lia.
  - (* DScan *)
    destruct todo as [|[f sl] rest]; [discriminate|].
    destruct (Hscan i _ _ eq_refl) as (_ & Hlen2 & _). rewrite app_length in Hlen2. simpl in Hlen2.
    unfold d_polling in Hpoll. rewrite Hd in Hpoll.
    change (fdone (getf (base x) f)) with (edone (futs (base x)) (f, sl)) in Hst.
    assert (Hpoll' : forallb (fun e => negb (edone (futs (base x)) e)) (kept ++ (f, sl) :: rest) = false) by exact Hpoll.
    clear Hpoll. rewrite forallb_app in Hpoll'. simpl in Hpoll'.
    pose proof (kept_L1 n (futs (base x)) kept) as L1.
    destruct rest as [|e rest']; inversion Hst; subst; clear Hst.
    + (* end of the pass *)
      match goal with |- dbm c n (base (after_puts cx ?X i)) + _ + _ + _ < _ =>
        destruct (after_puts_cases cx X i) as (Eb & Ea & El & Edc); rewrite Eb, Ea, El;
        assert (Hsc : forall a0, disp (after_puts cx X i) = DScan i a0 [] -> a0 = active X) end.
      { intros a0 E. unfold after_puts in E. destruct (must_wait cx _ i); [|discriminate E].
        match type of E with context [match ?a with [] => _ | _ => _ end] => destruct a eqn:Ea0 end;
          simpl in E; [discriminate E|]. inversion E. reflexivity. }
      xfld.
      destruct (edone (futs (base x)) (f, sl)) eqn:Ed.
      * (* the last entry is dropped *)
        assert (He : ect n (futs (base x)) (f, sl) = NN n) by (unfold ect, ct; now rewrite Ed).
        destruct Edc as [E|[[a0 E]|E]]; rewrite E; try (specialize (Hsc a0 E); subst a0); xfld; simpl; rewrite ?He; lia.
      * assert (He : ect n (futs (base x)) (f, sl) = 2) by (unfold ect, ct; now rewrite Ed).
        simpl in Hpoll'. rewrite andb_true_r in Hpoll'.
        pose proof (kept_L2 n (futs (base x)) kept Hpoll') as L2.
        destruct Edc as [E|[[a0 E]|E]]; rewrite E; try (specialize (Hsc a0 E); subst a0); xfld; simpl;
          rewrite ?sumf_app; simpl; rewrite ?He; lia.
    + (* inside the pass *)
      unfold set_disp. xfld. simpl.
      destruct (edone (futs (base x)) (f, sl)) eqn:Ed.
      * pose proof (ect_ge1 n (futs (base x)) (f, sl)). lia.
      * assert (He : ect n (futs (base x)) (f, sl) = 2) by (unfold ect, ct; now rewrite Ed).
        assert (Hk : eck n (futs (base x)) (f, sl) = 1) by (unfold eck, ck; now rewrite Ed).
        rewrite sumf_app. simpl. rewrite He, Hk. lia.
  - (* DStart *) inversion Hst; subst; clear Hst. xfld.
    pose proof (dbm_add_w c n (base x) (mkW (length (queues (base x)) - 1) 0 WBegin)) as Hb.
    pose proof (xb_add_w n (base x) (mkW (length (queues (base x)) - 1) 0 WBegin)) as Hxb.
    unfold xwt in Hxb. simpl in Hb, Hxb. simpl. rewrite sumf_app. simpl.
    pose proof (ect_le n (futs (base x)) (i, xslots cx i)). unfold set_ws in *. fld. lia.
  - (* DTd *) inversion Hst; subst; clear Hst. xfld. rewrite dbm_qtd, xb_qtd. simpl.
    change (futs (qtd (base x) 1)) with (futs (base x)). lia.
  - (* DSJoin *)
    destruct (nth_error (ws (base x)) k) as [wt|] eqn:Hk; [|discriminate].
    destruct (wdone wt); [|discriminate]. specialize (Hjo k eq_refl).
    destruct (wdead wt); [|destruct (Nat.eqb (S k) (launched x)) eqn:El]; inversion Hst; subst; clear Hst;
      unfold set_disp; xfld; simpl; try lia.
  - (* DSTd *) inversion Hst; subst; clear Hst. xfld. rewrite dbm_qtd, xb_qtd. simpl.
    change (futs (qtd (base x) 1)) with (futs (base x)). lia.
  - (* DSQJoin *)
    destruct (Nat.eqb (qunf (getq (base x) 1)) 0); [|discriminate]. inversion Hst; subst; clear Hst.
    unfold set_disp. xfld. simpl. lia.
Qed.

(* ------------------------------------------------------------------ *)

(* a step of another thread changes the dispatcher's table potential by at most BB n, and
   not at all if no future becomes done *)
Lemma epot_other : forall n s s' dp act, elen dp act <= n ->
  epot n (futs s') dp act <= epot n (futs s) dp act + BB n /\
  (fsame s s' -> epot n (futs s') dp act = epot n (futs s) dp act).
Proof.
  intros n s s' dp act Hel. split.
  - pose proof (epot_bound n (futs s) (futs s') dp act) as Hb. pose proof (BB_bound n _ Hel). lia.
  - intros Hf. apply epot_same. intros i. apply (Hf i).
Qed.

(* the dispatcher does not touch the outer queue *)
Lemma d_step_q0 : forall cx x x' l, d_step cx 1 x = Some (x', l) ->
  (prep (disp x) = 1 -> 3 <= length (queues (base x))) ->
  qitems (getq (base x') 0) = qitems (getq (base x) 0) /\ futs (base x') = futs (base x).
Proof.
  intros cx x x' l Hst Hlen. unfold d_step in Hst. cbv zeta in Hst.
  destruct (disp x) as [| | |i|i|i todo kept|i|i| |k| | | |] eqn:Hd; try discriminate; simpl prep in *.
  - inversion Hst; subst; clear Hst. split; reflexivity.
  - destruct (qitems (getq (base x) 1)) as [|it rest] eqn:Hq1; [discriminate|].
    destruct it as [i|w]; inversion Hst; subst; clear Hst; xfld; (split; [|reflexivity]).
    + unfold getq, qpop, set_queues. fld. destruct (queues (base x)) as [|a [|b t]]; reflexivity.
    + unfold getq, qpop, set_queues. fld. rewrite nth_upd_other by lia. reflexivity.
  - inversion Hst; subst; clear Hst. xfld. split; [|reflexivity]. specialize (Hlen eq_refl).
    unfold getq, qput, set_queues. fld. rewrite nth_upd_other by lia. reflexivity.
  - inversion Hst; subst; clear Hst. specialize (Hlen eq_refl).
    destruct (after_puts_cases cx (set_base x (qput (base x) (length (queues (base x)) - 1) (Shut true))) i) as (Eb & _).
    rewrite Eb. unfold set_base. xfld. split; [|reflexivity].
    unfold getq, qput, set_queues. fld. rewrite nth_upd_other by lia. reflexivity.
  - destruct todo as [|[f sl] rest]; [discriminate|].
    destruct rest as [|e rest']; inversion Hst; subst; clear Hst.
    + match goal with |- context [after_puts cx ?X i] => destruct (after_puts_cases cx X i) as (Eb & _) end.
      rewrite Eb. split; reflexivity.
    + split; reflexivity.
  - inversion Hst; subst; clear Hst. split; reflexivity.
  - inversion Hst; subst; clear Hst. xfld. split; [|reflexivity].
    unfold getq, qtd, set_queues. fld. rewrite nth_upd_other by lia. reflexivity.
  - destruct (nth_error (ws (base x)) k) as [wt|] eqn:Hk; [|discriminate].
    destruct (wdone wt); [|discriminate].
    destruct (wdead wt); [|destruct (Nat.eqb (S k) (launched x))]; inversion Hst; subst; clear Hst; split; reflexivity.
  - inversion Hst; subst; clear Hst. xfld. split; [|reflexivity].
    unfold getq, qtd, set_queues. fld. rewrite nth_upd_other by lia. reflexivity.
  - destruct (Nat.eqb (qunf (getq (base x) 1)) 0); [|discriminate]. inversion Hst; subst; clear Hst. split; reflexivity.
Qed.

(* ================= the client ================= *)
Lemma dm_step_decS : forall c n d d' l,
  dinner c = IStep -> SI c n d -> queues (dbase d) <> [] ->
  elen (disp (xs d)) (active (xs d)) <= n ->
  dm_step c d = Some (d', l) -> dmuS c n d' < dmuS c n d.
Proof.
  intros c n d d' l Hin HS Hne Hel H. pose proof HS as [S1 S2 S3 S4 S5 S6 S7].
  assert (Hnw : nwk c = 1) by (unfold nwk; now rewrite Hin).
  assert (Hdm : forall j, fdone (getf (dbase d) j) = true -> fdone (getf (dbase d') j) = true)
    by (intros j; apply (done_monotone c d TM d' l j); exact H).
  unfold dmuS, dmu, RX. unfold dm_step in H. cbv zeta in H. rewrite Hin in H.
  assert (Hxm : (forall k, main (dbase d) <> MStart k) ->
                match xm_step (dx c) (xs d) with Some (x', l0) => Some (set_xs d x', l0) | None => None end = Some (d', l) ->
                dbm c n (dbase d') + rmf c n (dbase d') (rp d') (rwait d')
                + (XB n (dbase d') + DEL n * rcount (rp d') (rwait d') + sfund c n (rp d'))
                + drank n (launched (xs d')) (disp (xs d')) + epot n (futs (dbase d')) (disp (xs d')) (active (xs d'))
                < dbm c n (dbase d) + rmf c n (dbase d) (rp d) (rwait d)
                + (XB n (dbase d) + DEL n * rcount (rp d) (rwait d) + sfund c n (rp d))
                + drank n (launched (xs d)) (disp (xs d)) + epot n (futs (dbase d)) (disp (xs d)) (active (xs d))).
  { intros N2 Hx. destruct (xm_step (dx c) (xs d)) as [[x' l0]|] eqn:Ex; [|discriminate]. inversion Hx; subst; clear Hx.
    destruct (xm_step_cR _ _ _ _ Ex) as (HR & Ea & Ela & Ed).
    assert (Ed' : disp x' = disp (xs d)).
    { rewrite Ed. unfold dbase in N2. destruct (main (base (xs d))); try reflexivity. exfalso. eapply N2; reflexivity. }
    destruct (cR_dec_d c n _ _ _ HR Hne S1) as (Hlt & Hq).
    destruct (cR_xb n _ _ _ HR) as (Hxle & Hxf).
    unfold dbase, set_xs in *. cbn [xs rp rwait] in *. rewrite Ed', Ea, Ela.
    destruct (epot_other n (base (xs d)) (base x') (disp (xs d)) (active (xs d)) Hel) as (Hb & Hs).
    assert (Hrm : rmf c n (base x') (rp d) (rwait d) <= rmf c n (base (xs d)) (rp d) (rwait d)
                  \/ (rmf c n (base x') (rp d) (rwait d) <= rmf c n (base (xs d)) (rp d) (rwait d) + Cmax c n + 2
                      /\ dbm c n (base x') + Cmax c n + 2 < dbm c n (base (xs d)))).
    { destruct Hq as [Hq|Hq].
      - left. exact (rmf_mono c n (base (xs d)) (base x') (rp d) (rwait d) (conj Hdm Hq)).
      - right. split; [exact (rmf_q0 c n (base (xs d)) (base x') (rp d) (rwait d) Hdm)|exact Hq]. }
    destruct Hxf as [Hxf|Hxf]; [rewrite (Hs Hxf)|]; destruct Hrm as [Hrm|[Hrm Hrm2]]; lia. }
  unfold dbase in *.
  destruct (main (base (xs d))) as [|k| |w|w j|w|w k|k| |] eqn:Hm;
    try (apply Hxm; [intros; discriminate|exact H]).
  - (* MBegin *)
    inversion H; subst; clear H. unfold set_dbase, set_xs, set_base. cbn [xs base rp rwait disp active launched].
    pose proof (dbm_set_main c n (set_queues (base (xs d)) (queues (base (xs d)) ++ [mkQ [] 0])) (MStart 0)) as Hmm.
    rewrite dbm_addq in Hmm. cbn [main set_queues] in Hmm. rewrite Hm in Hmm.
    pose proof (xb_set_main n (set_queues (base (xs d)) (queues (base (xs d)) ++ [mkQ [] 0])) (MStart 0)) as Hxm2.
    rewrite xb_addq in Hxm2. cbn [main set_queues] in Hxm2. rewrite Hm in Hxm2.
    assert (Hsm : smono (base (xs d)) (set_main (set_queues (base (xs d)) (queues (base (xs d)) ++ [mkQ [] 0])) (MStart 0))).
    { split; [intros j Hj; exact Hj|].
      unfold q0ne. change (getq (set_main ?s0 ?m) 0) with (getq s0 0). rewrite (getq0_snoc _ Hne). tauto. }
    pose proof (rmf_mono c n _ _ (rp d) (rwait d) Hsm).
    change (futs (set_main (set_queues (base (xs d)) (queues (base (xs d)) ++ [mkQ [] 0])) (MStart 0))) with (futs (base (xs d))).
    simpl in Hmm, Hxm2. lia.
  - (* MStart *)
    destruct k as [|k]; inversion H; subst; clear H.
    + (* the dispatcher is started *)
      assert (Hd0 : disp (xs d) = DNone) by (apply S3; now right). rewrite Hd0 in *.
      unfold set_xs. cbn [xs base rp rwait disp active launched].
      pose proof (dbm_set_main c n (base (xs d)) (MStart 1)) as Hmm. rewrite Hm in Hmm. simpl in Hmm.
      pose proof (xb_set_main n (base (xs d)) (MStart 1)) as Hxm2. rewrite Hm in Hxm2. simpl in Hxm2.
      assert (Hsm : smono (base (xs d)) (set_main (base (xs d)) (MStart 1))) by (split; [intros j Hj; exact Hj|tauto]).
      pose proof (rmf_mono c n _ _ (rp d) (rwait d) Hsm).
      change (futs (set_main (base (xs d)) (MStart 1))) with (futs (base (xs d))). simpl drank. simpl epot.
      rewrite Hnw in Hmm. lia.
    + (* the resolver is started *)
      assert (Hrn : rp d = RNone) by (apply S2; simpl; tauto).
      unfold set_base. cbn [xs base rp rwait disp active launched]. rewrite Hrn.
      pose proof (dbm_m_goto c n (base (xs d)) (ops (base (xs d)) ++ [ODrop]) [] false) as Hmm.
      rewrite Hm, sumf_app in Hmm. simpl in Hmm.
      pose proof (xb_m_goto n (base (xs d)) (ops (base (xs d)) ++ [ODrop]) [] false) as Hxm2.
      rewrite Hm, sumf_app in Hxm2. simpl in Hxm2.
      assert (Hsm : smono (base (xs d)) (m_goto (base (xs d)) (ops (base (xs d)) ++ [ODrop]) [] false)).
      { split; [intros j Hj; unfold getf in *; rewrite m_goto_futs; exact Hj|rewrite q0ne_goto; tauto]. }
      pose proof (sumT_mono c n _ _ (rwait d) Hsm). rewrite m_goto_futs. cbn [rmf rcount sfund]. lia.
  - (* MJoin *)
    destruct (rdone (rp d)) eqn:Hrd; [|discriminate].
    assert (Hops : ops (base (xs d)) <> []) by (apply S1; exact I).
    destruct (rp d) eqn:Hr; simpl in Hrd; try discriminate Hrd; inversion H; subst; clear H;
      unfold set_dbase, set_xs, set_base; cbn [xs base rp rwait disp active launched]; rewrite Hr.
    + pose proof (dbm_set_main c n (base (xs d)) MQJoin) as Hmm. rewrite Hm in Hmm. simpl in Hmm.
      pose proof (xb_set_main n (base (xs d)) MQJoin) as Hxm2. rewrite Hm in Hxm2. simpl in Hxm2.
      change (futs (set_main (base (xs d)) MQJoin)) with (futs (base (xs d))). cbn [rmf]. lia.
    + unfold m_done. pose proof (dbm_m_goto c n (base (xs d)) (tl (ops (base (xs d)))) [XRaise] false) as Hmm.
      pose proof (sumf_tl_opw c n _ Hops). rewrite Hm in Hmm. simpl in Hmm.
      pose proof (xb_m_goto n (base (xs d)) (tl (ops (base (xs d)))) [XRaise] false) as Hxm2.
      pose proof (xopw_tl n (ops (base (xs d)))). rewrite Hm in Hxm2. simpl in Hxm2.
      rewrite m_goto_futs. cbn [rmf]. lia.
Qed.

(* ------------------------------------------------------------------ *)

Theorem dstep_decreases_step : forall c n prog d t d' l,
  dinner c = IStep ->
  wf_prog n prog -> wf_deps c n -> dreach c (dinit n prog) d -> dstep c d t = Some (d', l) ->
  (t = TR -> r_polling c d = false) -> (t = TD -> d_polling (xs d) = false) ->
  dmuS c n d' < dmuS c n d.
Proof.
  intros c n prog d t d' l Hin Hwf Hwd Hr Hst HpR HpD.
  pose proof (si_reach c n prog d Hin Hwf Hr) as HS.
  pose proof (CI_dreach c n prog d Hin Hwf Hr) as HC.
  pose proof (RI_reach c n prog d Hr) as HRI.
  pose proof (Inv4_reach c n prog d Hwf Hr) as HI4.
  pose proof (inv4_qne c n d HI4) as Hne.
  destruct HI4 as (HSTR & _).
  destruct HSTR as (_ & HWP & _ & _ & _ & HRP).
  pose proof (rsd_reach c n prog d Hr) as Hsd.
  assert (Hdm : forall j, fdone (getf (dbase d) j) = true -> fdone (getf (dbase d') j) = true)
    by (intros j; apply (done_monotone c d t d' l j); exact Hst).
  pose proof (S_tot _ _ _ HS) as Htot. pose proof (S_act _ _ _ HS) as Hact. pose proof (S_la _ _ _ HS) as Hla.
  assert (Hel : elen (disp (xs d)) (active (xs d)) <= n).
  { unfold elen. destruct (disp (xs d)) eqn:Hd; try lia.
    destruct (C_scan _ _ HC _ _ _ Hd) as (_ & Hl2 & _). rewrite app_length in Hl2. lia. }
  destruct t as [| | |j|k]; simpl in Hst.
  - (* the client *) eapply dm_step_decS; eauto.
  - (* the resolver *)
    assert (Hcnt : rcount (rp d) (rwait d) + count is_task (qitems (getq (dbase d) 0)) + length (submits (ops (dbase d))) <= n)
      by (unfold cq0 in Htot; lia).
    pose proof (r_step_decS c n d d' l Hin Hcnt HRI HRP Hsd Hst (HpR eq_refl)) as Hlt.
    destruct (r_step_x c n d d' l Hin Hst) as (Hxle & Hxf).
    destruct (r_step_disp _ _ _ _ Hst) as (Ed & Ea & Ela).
    destruct (epot_other n (dbase d) (dbase d') (disp (xs d)) (active (xs d)) Hel) as (Hb & Hs).
    unfold dmuS. rewrite Ed, Ea, Ela.
    destruct Hxf as [Hxf|Hxf]; [rewrite (Hs Hxf)|]; lia.
  - (* the dispatcher *)
    rewrite Hin in Hst. destruct (d_step (dx c) 1 (xs d)) as [[x' l0]|] eqn:E; [|discriminate]. inversion Hst; subst; clear Hst.
    pose proof (d_step_DMU c n (dx c) (xs d) x' l E (HpD eq_refl) (C_len _ _ HC) (C_scan _ _ HC)) as Hlt.
    assert (Hlt' : DMU c n x' < DMU c n (xs d)) by (apply Hlt; [lia|lia|exact (S_jo _ _ _ HS)]).
    destruct (d_step_q0 _ _ _ _ E (C_len _ _ HC)) as (Eq0 & Ef).
    assert (Hsm : smono (dbase d) (base x')).
    { split; [exact Hdm|]. unfold q0ne, dbase. rewrite Eq0. tauto. }
    pose proof (rmf_mono c n _ _ (rp d) (rwait d) Hsm) as Hrm.
    unfold dmuS, dmu, RX, DMU, set_xs, dbase in *. cbn [xs rp rwait] in *. lia.
  - (* a worker thread *)
    destruct j as [|j]; [discriminate|].
    destruct (w_step (bcfg (dx c)) (dbase d) j) as [[b l0]|] eqn:E; [|discriminate]. inversion Hst; subst; clear Hst.
    destruct (nth_error (ws (dbase d)) j) as [w|] eqn:Hj;
      [|unfold w_step in E; rewrite Hj in E; discriminate].
    destruct (w_step_fx _ _ _ _ _ w E Hj) as (_ & _ & Hoth & _).
    destruct (HWP w (nth_error_In _ _ Hj)) as [Hq1 _].
    pose proof (dw_step_dec c n _ _ _ _ _ E) as Hlt.
    destruct (w_step_x n _ _ _ _ _ w E Hj Hq1) as (Hxle & Hxf).
    assert (Hsm : smono (dbase d) b).
    { split; [exact Hdm|]. unfold q0ne, getq. change (mkQ [] 0) with dq. rewrite Hoth by lia. tauto. }
    pose proof (rmf_mono c n _ _ (rp d) (rwait d) Hsm) as Hrm.
    destruct (epot_other n (dbase d) b (disp (xs d)) (active (xs d)) Hel) as (Hb & Hs).
    unfold dmuS, dmu, RX, set_dbase, set_xs, set_base, dbase in *. cbn [xs base rp rwait disp active launched] in *.
    destruct Hxf as [Hxf|Hxf]; [rewrite (Hs Hxf)|]; lia.
  - (* a worker process *)
    destruct (p_step (bcfg (dx c)) (dbase d) k) as [[b l0]|] eqn:E; [|discriminate]. inversion Hst; subst; clear Hst.
    pose proof (dp_step_dec c n _ _ _ _ _ E) as Hlt.
    destruct (p_step_eff _ _ _ _ _ E) as (p & p' & _ & _ & Eb & _).
    assert (Hsm : smono (dbase d) b) by (split; [exact Hdm|subst b; tauto]).
    pose proof (rmf_mono c n _ _ (rp d) (rwait d) Hsm) as Hrm.
    assert (Ex : XB n b = XB n (dbase d)) by (subst b; apply xb_setp).
    assert (Ef : futs b = futs (dbase d)) by (subst b; reflexivity).
    unfold dmuS, dmu, RX, set_dbase, set_xs, set_base, dbase in *. cbn [xs base rp rwait disp active launched] in *.
    rewrite Ef. lia.
Qed.
Print Assumptions dstep_decreases_step.
