(* Termination measure of the block-executor model (Model/Exec.v): every step of the client,
   of a worker thread or of a worker process strictly decreases the natural number [mu c s];
   hence every schedule is finite and the length of any run is bounded by the measure of its
   first state. *)
From Coq Require Import List Bool Arith Lia.
From EL Require Import Model.Exec Model.ExecInv.
Import ListNotations.

Local Arguments Nat.mul : simpl never.

(* ---------- generic list helpers ---------- *)
Fixpoint sumf {A} (f : A -> nat) (l : list A) : nat :=
  match l with
  | [] => 0
  | a :: t => f a + sumf f t
  end.

Lemma sumf_app : forall A (f : A -> nat) l1 l2, sumf f (l1 ++ l2) = sumf f l1 + sumf f l2.
Proof.
  intros A f l1 l2. induction l1 as [|a t IH]; simpl; [reflexivity|]. rewrite IH. lia.
Qed.

Lemma sumf_upd : forall A (f : A -> nat) l j x y,
  nth_error l j = Some y -> sumf f (upd l j x) + f y = sumf f l + f x.
Proof.
  intros A f l. induction l as [|a t IH]; intros j x y Hn.
  - destruct j; discriminate.
  - destruct j as [|j'].
    + simpl in Hn. inversion Hn; subst. simpl. lia.
    + simpl in Hn. simpl. specialize (IH j' x y Hn). lia.
Qed.

Lemma upd_none : forall A (l : list A) j x, nth_error l j = None -> upd l j x = l.
Proof.
  intros A l. induction l as [|a t IH]; intros j x Hn.
  - reflexivity.
  - destruct j as [|j'].
    + discriminate.
    + simpl in Hn. simpl. rewrite (IH j' x Hn). reflexivity.
Qed.

Lemma nth_some : forall A (l : list A) j d y, nth_error l j = Some y -> nth j l d = y.
Proof.
  intros A l. induction l as [|a t IH]; intros j d y Hn.
  - destruct j; discriminate.
  - destruct j as [|j'].
    + simpl in Hn. inversion Hn. reflexivity.
    + simpl in Hn. simpl. apply IH. exact Hn.
Qed.

Lemma nth_none : forall A (l : list A) j d, nth_error l j = None -> nth j l d = d.
Proof.
  intros A l. induction l as [|a t IH]; intros j d Hn.
  - destruct j; reflexivity.
  - destruct j as [|j'].
    + discriminate.
    + simpl in Hn. simpl. apply IH. exact Hn.
Qed.

(* ---------- the measure ---------- *)

(* weight of one operation still to be interpreted *)
Fixpoint opsw (n : nat) (l : list op) : nat :=
  match l with
  | [] => 0
  | _ :: t => 22 * n + 31 + opsw n t
  end.

Lemma opsw_app1 : forall n l o, opsw n (l ++ [o]) = opsw n l + (22 * n + 31).
Proof.
  intros n l o. induction l as [|a t IH]; simpl; [lia|]. rewrite IH. lia.
Qed.

(* rank of the client inside the current operation *)
Definition mrank (n : nat) (pc : mpc) : nat :=
  match pc with
  | MBegin => 48 * n + 70
  | MStart k => 44 * n + 65 + 4 * (n - k)
  | MOp => 22 * n + 30
  | MDrain _ => 22 * n + 4
  | MDrainCancel _ _ => 22 * n + 6
  | MDrainTd _ => 22 * n + 5
  | MPutShut _ k => 21 * k + n + 3
  | MJoin k => (n - k) + 1
  | MQJoin => 1
  | MEnd => 0
  end.

(* points left in the handling of the worker's current item *)
Definition wrank (pc : wpc) : nat :=
  match pc with
  | WBegin => 3
  | WSpawn => 2
  | WGet => 0
  | WSrnc _ => 18
  | WCancTd => 1
  | WSend _ => 17
  | WRecv _ => 13
  | WSetRes _ _ => 12
  | WTd => 1
  | WEPoll _ => 11
  | WESend _ => 10
  | WERecv _ => 6
  | WEComm _ => 5
  | WETerm _ => 4
  | WEWait _ => 3
  | WETd _ => 2
  | WESetExc _ => 1
  | WSPoll _ => 11
  | WSSend _ => 10
  | WSRecv _ => 6
  | WSComm _ => 5
  | WSTerm _ => 4
  | WSWait => 3
  | WSTd => 2
  | WSQJoin => 1
  | WDone => 0
  | WDead => 0
  end.

Definition pprank (pc : ppc) : nat :=
  match pc with
  | PBegin => 1
  | PRecv => 0
  | PBody _ => 2
  | PSend _ => 1
  | PAck => 1
  | PExit => 0
  end.

Definition prank (p : proc) : nat := pprank (pp p) + 3 * length (inbox p).
Definition qlen (q : queue) : nat := length (qitems q).
Definition wtr (w : wthread) : nat := wrank (wp w).

Definition mu (c : cfg) (s : state) : nat :=
  opsw (nworkers c) (ops s) + mrank (nworkers c) (main s)
  + 20 * sumf qlen (queues s) + sumf wtr (ws s) + sumf prank (ps s).

(* side condition: the counters of the start-up and join loops are in range *)
Definition mpc_ok (c : cfg) (s : state) : Prop :=
  match main s with
  | MStart k => k < nworkers c
  | MJoin k => k < nworkers c
  | _ => True
  end.

(* ---------- effect of the state helpers on the measure ---------- *)

Lemma mu_set_futs : forall c s x, mu c (set_futs s x) = mu c s.
Proof. intros c s x. reflexivity. Qed.

Lemma mu_set_main : forall c s x,
  mu c (set_main s x) + mrank (nworkers c) (main s) = mu c s + mrank (nworkers c) x.
Proof. intros c s x. unfold mu. simpl. lia. Qed.

Lemma mu_qput : forall c s q it, mu c (qput s q it) <= mu c s + 20.
Proof.
  intros c s q it. unfold mu, qput, getq. simpl.
  destruct (nth_error (queues s) q) as [qu|] eqn:Hn.
  - rewrite (nth_some _ _ _ (mkQ [] 0) _ Hn).
    pose proof (sumf_upd _ qlen (queues s) q (mkQ (qitems qu ++ [it]) (S (qunf qu))) qu Hn) as Hs.
    assert (Hl : qlen (mkQ (qitems qu ++ [it]) (S (qunf qu))) = qlen qu + 1).
    { unfold qlen. simpl. rewrite app_length. simpl. reflexivity. }
    lia.
  - rewrite (upd_none _ _ _ _ Hn). lia.
Qed.

Lemma mu_qpop : forall c s q it r,
  qitems (getq s q) = it :: r -> mu c (qpop s q) + 20 = mu c s.
Proof.
  intros c s q it r Hq. unfold mu, qpop. unfold getq in *. simpl.
  destruct (nth_error (queues s) q) as [qu|] eqn:Hn.
  - rewrite (nth_some _ _ _ (mkQ [] 0) _ Hn) in *.
    pose proof (sumf_upd _ qlen (queues s) q (mkQ (tl (qitems qu)) (qunf qu)) qu Hn) as Hs.
    assert (Hl : qlen qu = qlen (mkQ (tl (qitems qu)) (qunf qu)) + 1).
    { unfold qlen. simpl. rewrite Hq. simpl. lia. }
    lia.
  - rewrite (nth_none _ _ _ (mkQ [] 0) Hn) in Hq. simpl in Hq. discriminate.
Qed.

Lemma mu_qtd : forall c s q, mu c (qtd s q) = mu c s.
Proof.
  intros c s q. unfold mu, qtd, getq. simpl.
  destruct (nth_error (queues s) q) as [qu|] eqn:Hn.
  - rewrite (nth_some _ _ _ (mkQ [] 0) _ Hn).
    pose proof (sumf_upd _ qlen (queues s) q (mkQ (qitems qu) (pred (qunf qu))) qu Hn) as Hs.
    assert (Hl : qlen (mkQ (qitems qu) (pred (qunf qu))) = qlen qu) by reflexivity.
    lia.
  - rewrite (upd_none _ _ _ _ Hn). lia.
Qed.

Lemma mu_setp : forall c s k p p',
  nth_error (ps s) (k - 1) = Some p -> mu c (setp s k p') + prank p = mu c s + prank p'.
Proof.
  intros c s k p p' Hn. unfold mu, setp. simpl.
  pose proof (sumf_upd _ prank (ps s) (k - 1) p' p Hn) as Hs. lia.
Qed.

Lemma mu_setp_none : forall c s k p',
  nth_error (ps s) (k - 1) = None -> mu c (setp s k p') = mu c s.
Proof.
  intros c s k p' Hn. unfold mu, setp. simpl. rewrite (upd_none _ _ _ _ Hn). reflexivity.
Qed.

Lemma mu_send_to_p : forall c s k m, mu c (send_to_p s k m) <= mu c s + 3.
Proof.
  intros c s k m. unfold send_to_p, getp.
  destruct (nth_error (ps s) (k - 1)) as [p|] eqn:Hn.
  - rewrite (nth_some _ _ _ (mkP PExit [] []) _ Hn).
    pose proof (mu_setp c s k p (mkP (pp p) (inbox p ++ [m]) (outbox p)) Hn) as Hs.
    assert (Hl : prank (mkP (pp p) (inbox p ++ [m]) (outbox p)) = prank p + 3).
    { unfold prank. simpl. rewrite app_length. simpl. lia. }
    lia.
  - rewrite mu_setp_none by exact Hn. lia.
Qed.

Lemma mu_pop_from_p : forall c s k, mu c (pop_from_p s k) = mu c s.
Proof.
  intros c s k. unfold pop_from_p, getp.
  destruct (nth_error (ps s) (k - 1)) as [p|] eqn:Hn.
  - rewrite (nth_some _ _ _ (mkP PExit [] []) _ Hn).
    pose proof (mu_setp c s k p (mkP (pp p) (inbox p) (tl (outbox p))) Hn) as Hs.
    assert (Hl : prank (mkP (pp p) (inbox p) (tl (outbox p))) = prank p) by reflexivity.
    lia.
  - rewrite mu_setp_none by exact Hn. reflexivity.
Qed.

Lemma mu_set_w : forall c s j w w',
  nth_error (ws s) j = Some w -> mu c (set_w s j w') + wrank (wp w) = mu c s + wrank (wp w').
Proof.
  intros c s j w w' Hn. unfold mu, set_w. simpl.
  pose proof (sumf_upd _ wtr (ws s) j w' w Hn) as Hs.
  change (wtr w) with (wrank (wp w)) in Hs. change (wtr w') with (wrank (wp w')) in Hs. lia.
Qed.

Lemma mu_wpc_to : forall c s j w pc,
  nth_error (ws s) j = Some w -> mu c (wpc_to s j w pc) + wrank (wp w) = mu c s + wrank pc.
Proof.
  intros c s j w pc Hn. unfold wpc_to.
  pose proof (mu_set_w c s j w (mkW (wq w) (wproc w) pc) Hn) as Hs. simpl in Hs. exact Hs.
Qed.

Lemma mu_add_p : forall c s p, mu c (set_ps s (ps s ++ [p])) = mu c s + prank p.
Proof.
  intros c s p. unfold mu. simpl. rewrite sumf_app. simpl. lia.
Qed.

Lemma mu_add_w : forall c s w, mu c (set_ws s (ws s ++ [w])) = mu c s + wrank (wp w).
Proof.
  intros c s w. unfold mu. simpl. rewrite sumf_app. simpl. change (wtr w) with (wrank (wp w)). lia.
Qed.

(* ---------- the client's bookkeeping: settle / m_goto / m_done / m_norm ---------- *)

Lemma settle_le : forall n cl lk sub l acc l' acc' pc,
  settle cl lk sub l acc = (l', acc', pc) ->
  opsw n l' + mrank n pc <= opsw n l + (22 * n + 30).
Proof.
  intros n cl lk sub l. induction l as [|o t IH]; intros acc l' acc' pc Hs.
  - simpl in Hs. inversion Hs; subst. simpl. lia.
  - assert (Hstop : (l', acc', pc) = (o :: t, acc, MOp) ->
                    opsw n l' + mrank n pc <= opsw n (o :: t) + (22 * n + 30)).
    { intros He. inversion He; subst. simpl. lia. }
    assert (Hgo : forall a, settle cl lk sub t a = (l', acc', pc) ->
                    opsw n l' + mrank n pc <= opsw n (o :: t) + (22 * n + 30)).
    { intros a Ha. specialize (IH a l' acc' pc Ha). simpl. lia. }
    simpl in Hs. destruct o as [i|i|i|w cc| |].
    + destruct cl; [eapply Hgo; exact Hs | apply Hstop; symmetry; exact Hs].
    + destruct (mem_nat i sub); [apply Hstop; symmetry; exact Hs | eapply Hgo; exact Hs].
    + destruct (mem_nat i sub); [apply Hstop; symmetry; exact Hs | eapply Hgo; exact Hs].
    + destruct cl; [eapply Hgo; exact Hs | apply Hstop; symmetry; exact Hs].
    + destruct (cl || lk); [eapply Hgo; exact Hs | apply Hstop; symmetry; exact Hs].
    + destruct cl; [eapply Hgo; exact Hs | apply Hstop; symmetry; exact Hs].
Qed.

Lemma settle_pc : forall cl lk sub l acc l' acc' pc,
  settle cl lk sub l acc = (l', acc', pc) -> pc = MOp \/ pc = MEnd.
Proof.
  intros cl lk sub l. induction l as [|o t IH]; intros acc l' acc' pc Hs.
  - simpl in Hs. inversion Hs; subst. right. reflexivity.
  - assert (Hstop : (l', acc', pc) = (o :: t, acc, MOp) -> pc = MOp \/ pc = MEnd).
    { intros He. inversion He; subst. left. reflexivity. }
    simpl in Hs. destruct o as [i|i|i|w cc| |].
    + destruct cl; [eapply IH; exact Hs | apply Hstop; symmetry; exact Hs].
    + destruct (mem_nat i sub); [apply Hstop; symmetry; exact Hs | eapply IH; exact Hs].
    + destruct (mem_nat i sub); [apply Hstop; symmetry; exact Hs | eapply IH; exact Hs].
    + destruct cl; [eapply IH; exact Hs | apply Hstop; symmetry; exact Hs].
    + destruct (cl || lk); [eapply IH; exact Hs | apply Hstop; symmetry; exact Hs].
    + destruct cl; [eapply IH; exact Hs | apply Hstop; symmetry; exact Hs].
Qed.

Lemma mu_m_goto : forall c s l x cl,
  mu c (m_goto s l x cl) + opsw (nworkers c) (ops s) + mrank (nworkers c) (main s)
  <= mu c s + opsw (nworkers c) l + (22 * nworkers c + 30).
Proof.
  intros c s l x cl. unfold m_goto.
  destruct (settle cl (existsb (fun y => match y with XRaise => true | _ => false end) (outs s ++ x) && negb cl)
                   (subm s) l (outs s ++ x)) as [[l' acc'] pc] eqn:Hs.
  pose proof (settle_le (nworkers c) _ _ _ _ _ _ _ _ Hs) as Hle.
  unfold mu. simpl. lia.
Qed.

Lemma main_m_goto : forall s l x cl, main (m_goto s l x cl) = MOp \/ main (m_goto s l x cl) = MEnd.
Proof.
  intros s l x cl. unfold m_goto.
  destruct (settle cl (existsb (fun y => match y with XRaise => true | _ => false end) (outs s ++ x) && negb cl)
                   (subm s) l (outs s ++ x)) as [[l' acc'] pc] eqn:Hs.
  simpl. eapply settle_pc. exact Hs.
Qed.

Lemma mu_m_done : forall c s x cl,
  mu c (m_done s x cl) + mrank (nworkers c) (main s) <= mu c s.
Proof.
  intros c s x cl. unfold m_done.
  pose proof (mu_m_goto c s (tl (ops s)) x cl) as Hg.
  destruct (ops s) as [|o t] eqn:Ho.
  - (* nothing left: settle [] gives MEnd *)
    clear Hg. unfold m_goto. simpl. unfold mu. simpl. rewrite Ho. simpl. lia.
  - simpl in Hg. simpl. lia.
Qed.

Lemma mu_m_norm : forall c s, mu c (m_norm c s) <= mu c s.
Proof.
  intros c s. unfold m_norm.
  destruct (main s) as [|k|  |w|w j|w|w k|k| |] eqn:Hm; try lia.
  - destruct k as [|k']; [|lia].
    destruct (cur_wait s).
    + destruct (Nat.eqb (nworkers c) 0).
      * pose proof (mu_set_main c s MQJoin) as Hs. rewrite Hm in Hs. simpl in Hs. lia.
      * pose proof (mu_set_main c s (MJoin 0)) as Hs. rewrite Hm in Hs. simpl in Hs. lia.
    + pose proof (mu_m_done c s (if cur_silent s then [] else [XOk]) true) as Hd. lia.
  - destruct (Nat.eqb k (nworkers c)); [|lia].
    pose proof (mu_set_main c s MQJoin) as Hs. rewrite Hm in Hs. simpl in Hs. lia.
Qed.

(* ---------- the client ---------- *)

Lemma drain_step_dec : forall c s w s' l,
  drain_step s w = Some (s', l) ->
  mu c s' + 20 + mrank (nworkers c) (main s) <= mu c s + (22 * nworkers c + 6).
Proof.
  intros c s w s' l Hd. unfold drain_step in Hd.
  destruct (qitems (getq s 0)) as [|it r] eqn:Hq; [discriminate|].
  pose proof (mu_qpop c s 0 it r Hq) as Hp.
  destruct it as [j|b]; inversion Hd; subst; clear Hd.
  - pose proof (mu_set_main c (qpop s 0) (MDrainCancel w j)) as Hs. simpl in Hs. simpl. lia.
  - pose proof (mu_set_main c (qpop s 0) (MDrain w)) as Hs. simpl in Hs. simpl. lia.
Qed.

(* put one shutdown message and go to MPutShut w k *)
Lemma putshut_dec : forall c s w b k,
  mu c (m_norm c (set_main (qput s 0 (Shut b)) (MPutShut w k))) + mrank (nworkers c) (main s)
  <= mu c s + 20 + (21 * k + nworkers c + 3).
Proof.
  intros c s w b k.
  pose proof (mu_m_norm c (set_main (qput s 0 (Shut b)) (MPutShut w k))) as Hn.
  pose proof (mu_set_main c (qput s 0 (Shut b)) (MPutShut w k)) as Hs.
  pose proof (mu_qput c s 0 (Shut b)) as Hq.
  simpl in Hs. lia.
Qed.

Lemma drained_dec : forall c s w,
  mu c (m_norm c (set_main s (MPutShut w (nworkers c)))) + mrank (nworkers c) (main s)
  <= mu c s + (22 * nworkers c + 3).
Proof.
  intros c s w.
  pose proof (mu_m_norm c (set_main s (MPutShut w (nworkers c)))) as Hn.
  pose proof (mu_set_main c s (MPutShut w (nworkers c))) as Hs.
  simpl in Hs. lia.
Qed.

Lemma submit_dec : forall c s i cl,
  let s1 := qput s 0 (Task i) in
  let s2 := mkS (queues s1) (futs s1) (subm s1 ++ [i]) (main s1) (ops s1) (closed s1) (ws s1) (ps s1) (outs s1) in
  mu c (m_done s2 [XOk] cl) + mrank (nworkers c) (main s) <= mu c s + 20.
Proof.
  intros c s i cl s1 s2.
  pose proof (mu_m_done c s2 [XOk] cl) as Hd.
  pose proof (mu_qput c s 0 (Task i)) as Hq.
  change (mu c s2) with (mu c (qput s 0 (Task i))) in Hd.
  change (main s2) with (main s) in Hd. lia.
Qed.

Lemma m_step_dec : forall c s s' l,
  mpc_ok c s -> m_step c s = Some (s', l) -> mu c s' < mu c s.
Proof.
  intros c s s' l Hok Hst. unfold m_step in Hst. unfold mpc_ok in Hok.
  destruct (main s) as [|k|  |w|w j|w|w k|k| |] eqn:Hm.
  - (* MBegin *)
    destruct (Nat.eqb (nworkers c) 0); inversion Hst; subst; clear Hst.
    + pose proof (mu_m_goto c s (ops s ++ [ODrop]) [] false) as Hg.
      rewrite opsw_app1 in Hg. rewrite Hm in Hg. simpl in Hg. lia.
    + pose proof (mu_set_main c s (MStart 0)) as Hs. rewrite Hm in Hs. simpl in Hs. lia.
  - (* MStart k *)
    pose proof (mu_add_w c s (mkW 0 0 WBegin)) as Ha. simpl in Ha.
    destruct (Nat.eqb (S k) (nworkers c)); inversion Hst; subst; clear Hst.
    + pose proof (mu_m_goto c (set_ws s (ws s ++ [mkW 0 0 WBegin]))
                    (ops (set_ws s (ws s ++ [mkW 0 0 WBegin])) ++ [ODrop]) [] false) as Hg.
      rewrite opsw_app1 in Hg. simpl in Hg. rewrite Hm in Hg. simpl in Hg. simpl. lia.
    + pose proof (mu_set_main c (set_ws s (ws s ++ [mkW 0 0 WBegin])) (MStart (S k))) as Hs.
      simpl in Hs. rewrite Hm in Hs. simpl in Hs. lia.
  - (* MOp *)
    destruct (ops s) as [|o t] eqn:Ho; [discriminate|].
    destruct o as [i|i|i|w cc| |].
    + (* submit *)
      inversion Hst; subst; clear Hst.
      pose proof (submit_dec c s i (closed s)) as Hd. cbv zeta in Hd.
      rewrite Hm in Hd. simpl mrank in Hd.
      match type of Hd with ?a + _ <= _ => match goal with |- ?b < _ => change b with a end end.
      lia.
    + (* cancel *)
      destruct (fcancel (getf s i)) as [f b]. inversion Hst; subst; clear Hst.
      pose proof (mu_m_done c (set_futs s (setf s i f)) [XBool b] (closed s)) as Hd.
      simpl in Hd. rewrite Hm in Hd. simpl in Hd. rewrite mu_set_futs in Hd. lia.
    + (* result *)
      destruct (fdone (getf s i)); [|discriminate]. inversion Hst; subst; clear Hst.
      pose proof (mu_m_done c s [result_outcome (getf s i)] (closed s)) as Hd.
      rewrite Hm in Hd. simpl in Hd. lia.
    + (* shutdown *)
      destruct cc.
      * destruct (drain_step s w) as [r|] eqn:Hdr.
        -- inversion Hst; subst; clear Hst.
           pose proof (drain_step_dec c s w s' l Hdr) as Hd. rewrite Hm in Hd. simpl in Hd. lia.
        -- inversion Hst; subst; clear Hst.
           pose proof (drained_dec c s w) as Hd. rewrite Hm in Hd. simpl in Hd. lia.
      * destruct (nworkers c) as [|k] eqn:Hn.
        -- destruct (Nat.eqb (qunf (getq s 0)) 0); [|discriminate].
           destruct w; [|discriminate]. inversion Hst; subst; clear Hst.
           pose proof (mu_m_done c s [XOk] true) as Hd.
           rewrite Hm in Hd. simpl in Hd. lia.
        -- inversion Hst; subst; clear Hst.
           pose proof (putshut_dec c s w w k) as Hd. rewrite Hm, Hn in Hd. simpl in Hd. lia.
    + (* drop *)
      destruct (nworkers c) as [|k] eqn:Hn; [discriminate|].
      inversion Hst; subst; clear Hst.
      pose proof (putshut_dec c s false false k) as Hd. rewrite Hm, Hn in Hd. simpl in Hd. lia.
    + (* exit *)
      destruct (nworkers c) as [|k] eqn:Hn.
      * destruct (Nat.eqb (qunf (getq s 0)) 0); [|discriminate].
        inversion Hst; subst; clear Hst.
        pose proof (mu_m_done c s [XOk] true) as Hd.
        rewrite Hm in Hd. simpl in Hd. lia.
      * inversion Hst; subst; clear Hst.
        pose proof (putshut_dec c s true true k) as Hd. rewrite Hm, Hn in Hd. simpl in Hd. lia.
  - (* MDrain *)
    destruct (drain_step s w) as [r|] eqn:Hdr.
    + inversion Hst; subst; clear Hst.
      pose proof (drain_step_dec c s w s' l Hdr) as Hd. rewrite Hm in Hd. simpl in Hd. lia.
    + inversion Hst; subst; clear Hst.
      pose proof (drained_dec c s w) as Hd. rewrite Hm in Hd. simpl in Hd. lia.
  - (* MDrainCancel *)
    destruct (fcancel (getf s j)) as [f b]. inversion Hst; subst; clear Hst.
    pose proof (mu_set_main c (set_futs s (setf s j f)) (MDrainTd w)) as Hs.
    rewrite mu_set_futs in Hs. simpl in Hs. rewrite Hm in Hs. simpl in Hs. lia.
  - (* MDrainTd *)
    inversion Hst; subst; clear Hst.
    pose proof (mu_set_main c (qtd s 0) (MDrain w)) as Hs.
    rewrite mu_qtd in Hs. simpl in Hs. rewrite Hm in Hs. simpl in Hs. lia.
  - (* MPutShut *)
    destruct k as [|k']; [discriminate|]. inversion Hst; subst; clear Hst.
    pose proof (putshut_dec c s w w k') as Hd. rewrite Hm in Hd. simpl in Hd. lia.
  - (* MJoin *)
    destruct (nth_error (ws s) k) as [wt|]; [|discriminate].
    destruct (wdone wt); [|discriminate].
    destruct (wdead wt); inversion Hst; subst; clear Hst.
    + pose proof (mu_m_done c s [XRaise] false) as Hd. rewrite Hm in Hd. simpl in Hd. lia.
    + pose proof (mu_m_norm c (set_main s (MJoin (S k)))) as Hn.
      pose proof (mu_set_main c s (MJoin (S k))) as Hs. rewrite Hm in Hs. simpl in Hs. lia.
  - (* MQJoin *)
    destruct (Nat.eqb (qunf (getq s 0)) 0); [|discriminate]. inversion Hst; subst; clear Hst.
    pose proof (mu_m_done c s (if cur_silent s then [] else [XOk]) true) as Hd.
    rewrite Hm in Hd. simpl in Hd. lia.
  - discriminate.
Qed.

(* ---------- worker threads ---------- *)

(* the worker moves to [pc] in a state [s1] of the same measure (up to [d] more points) *)
Lemma w_move : forall c s s1 j w pc d,
  nth_error (ws s1) j = Some w -> mu c s1 <= mu c s + d -> wrank pc + d < wrank (wp w) ->
  mu c (wpc_to s1 j w pc) < mu c s.
Proof.
  intros c s s1 j w pc d Hn Hle Hr.
  pose proof (mu_wpc_to c s1 j w pc Hn) as Hw. lia.
Qed.

Lemma w_step_dec : forall c s j s' l,
  w_step c s j = Some (s', l) -> mu c s' < mu c s.
Proof.
  intros c s j s' l Hst. unfold w_step in Hst.
  destruct (nth_error (ws s) j) as [w|] eqn:Hn; [|discriminate].
  assert (Hsame : forall pc, wrank pc < wrank (wp w) -> mu c (wpc_to s j w pc) < mu c s).
  { intros pc Hr. apply (w_move c s s j w pc 0); [exact Hn | lia | lia]. }
  assert (Hfut : forall x pc, wrank pc < wrank (wp w) -> mu c (wpc_to (set_futs s x) j w pc) < mu c s).
  { intros x pc Hr. apply (w_move c s (set_futs s x) j w pc 0); [exact Hn | rewrite mu_set_futs; lia | lia]. }
  assert (Htd : forall q pc, wrank pc < wrank (wp w) -> mu c (wpc_to (qtd s q) j w pc) < mu c s).
  { intros q pc Hr. apply (w_move c s (qtd s q) j w pc 0); [exact Hn | rewrite mu_qtd; lia | lia]. }
  assert (Hsend : forall k m pc, wrank pc + 3 < wrank (wp w) -> mu c (wpc_to (send_to_p s k m) j w pc) < mu c s).
  { intros k m pc Hr. apply (w_move c s (send_to_p s k m) j w pc 3); [exact Hn | apply mu_send_to_p | lia]. }
  assert (Hpop : forall k pc, wrank pc < wrank (wp w) -> mu c (wpc_to (pop_from_p s k) j w pc) < mu c s).
  { intros k pc Hr. apply (w_move c s (pop_from_p s k) j w pc 0); [exact Hn | rewrite mu_pop_from_p; lia | lia]. }
  destruct (wp w) as [ | | |i| |i|i|i v| |i|i|i|i|i|i|i|i|b|b|b|b|b| | | | | ] eqn:Hpc; simpl wrank in *.
  - (* WBegin *) inversion Hst; subst; clear Hst. apply Hsame. simpl. lia.
  - (* WSpawn *)
    inversion Hst; subst; clear Hst.
    pose proof (mu_set_w c (set_ps s (ps s ++ [mkP PBegin [] []])) j w
                  (mkW (wq w) (S (length (ps s))) WGet) Hn) as Hw.
    rewrite mu_add_p in Hw. rewrite Hpc in Hw. unfold prank in Hw. simpl in Hw. lia.
  - (* WGet *)
    destruct (qitems (getq s (wq w))) as [|it r] eqn:Hq; [discriminate|].
    pose proof (mu_qpop c s (wq w) it r Hq) as Hp.
    destruct it as [i|b]; inversion Hst; subst; clear Hst.
    + pose proof (mu_wpc_to c (qpop s (wq w)) j w (WSrnc i) Hn) as Hw.
      rewrite Hpc in Hw. simpl in Hw. lia.
    + pose proof (mu_wpc_to c (qpop s (wq w)) j w (WSPoll b) Hn) as Hw.
      rewrite Hpc in Hw. simpl in Hw. lia.
  - (* WSrnc *)
    destruct (getf s i); inversion Hst; subst; clear Hst;
      first [apply Hfut; simpl; lia | apply Hsame; simpl; lia].
  - (* WCancTd *) inversion Hst; subst; clear Hst. apply Htd. simpl. lia.
  - (* WSend *) inversion Hst; subst; clear Hst. apply Hsend. simpl. lia.
  - (* WRecv *)
    destruct (outbox (getp s (wproc w))) as [|m r]; [discriminate|].
    destruct m; inversion Hst; subst; clear Hst; apply Hpop; simpl; lia.
  - (* WSetRes *)
    destruct (getf s i); inversion Hst; subst; clear Hst;
      first [apply Hfut; simpl; lia | apply Hsame; simpl; lia].
  - (* WTd *) inversion Hst; subst; clear Hst. apply Htd. simpl. lia.
  - (* WEPoll *)
    destruct (palive (getp s (wproc w))); inversion Hst; subst; clear Hst; apply Hsame; simpl; lia.
  - (* WESend *) inversion Hst; subst; clear Hst. apply Hsend. simpl. lia.
  - (* WERecv *)
    destruct (outbox (getp s (wproc w))) as [|m r]; [discriminate|].
    inversion Hst; subst; clear Hst. apply Hpop. simpl. lia.
  - (* WEComm *)
    destruct (palive (getp s (wproc w))); [discriminate|].
    inversion Hst; subst; clear Hst. apply Hsame. simpl. lia.
  - (* WETerm *) inversion Hst; subst; clear Hst. apply Hsame. simpl. lia.
  - (* WEWait *)
    destruct (palive (getp s (wproc w))); [discriminate|].
    inversion Hst; subst; clear Hst. apply Hsame. simpl. lia.
  - (* WETd *) inversion Hst; subst; clear Hst. apply Htd. simpl. lia.
  - (* WESetExc *)
    destruct (getf s i); inversion Hst; subst; clear Hst;
      first [apply Hfut; simpl; lia | apply Hsame; simpl; lia].
  - (* WSPoll *)
    destruct (palive (getp s (wproc w))); inversion Hst; subst; clear Hst; apply Hsame; simpl; lia.
  - (* WSSend *) inversion Hst; subst; clear Hst. apply Hsend. simpl. lia.
  - (* WSRecv *)
    destruct (outbox (getp s (wproc w))) as [|m r]; [discriminate|].
    inversion Hst; subst; clear Hst. apply Hpop. simpl. lia.
  - (* WSComm *)
    destruct (palive (getp s (wproc w))); [discriminate|].
    inversion Hst; subst; clear Hst. apply Hsame. simpl. lia.
  - (* WSTerm *)
    inversion Hst; subst; clear Hst. apply Hsame. destruct b; simpl; lia.
  - (* WSWait *)
    destruct (palive (getp s (wproc w))); [discriminate|].
    inversion Hst; subst; clear Hst. apply Hsame. simpl. lia.
  - (* WSTd *) inversion Hst; subst; clear Hst. apply Htd. simpl. lia.
  - (* WSQJoin *)
    destruct (Nat.eqb (qunf (getq s (wq w))) 0); [|discriminate].
    inversion Hst; subst; clear Hst. apply Hsame. simpl. lia.
  - discriminate.
  - discriminate.
Qed.

(* ---------- worker processes ---------- *)

Lemma p_step_dec : forall c s k s' l,
  p_step c s k = Some (s', l) -> mu c s' < mu c s.
Proof.
  intros c s k s' l Hst. unfold p_step in Hst.
  destruct (nth_error (ps s) (k - 1)) as [p|] eqn:Hn; [|discriminate].
  destruct (Nat.eqb k 0); [discriminate|].
  assert (Hmove : forall p', prank p' < prank p -> mu c (setp s k p') < mu c s).
  { intros p' Hr. pose proof (mu_setp c s k p p' Hn) as Hs. lia. }
  destruct (pp p) as [ | |i|i| | ] eqn:Hpp.
  - inversion Hst; subst; clear Hst. apply Hmove. unfold prank. rewrite Hpp. simpl. lia.
  - destruct (inbox p) as [|m t] eqn:Hin; [discriminate|].
    destruct m; inversion Hst; subst; clear Hst; apply Hmove; unfold prank; rewrite Hpp, Hin; simpl; lia.
  - inversion Hst; subst; clear Hst. apply Hmove. unfold prank. rewrite Hpp. simpl. lia.
  - inversion Hst; subst; clear Hst. apply Hmove. unfold prank. rewrite Hpp. simpl. lia.
  - inversion Hst; subst; clear Hst. apply Hmove. unfold prank. rewrite Hpp. simpl. lia.
  - discriminate.
Qed.

(* ---------- every step decreases the measure ---------- *)

Theorem step_decreases : forall c s t s' l,
  mpc_ok c s -> step c s t = Some (s', l) -> mu c s' < mu c s.
Proof.
  intros c s t s' l Hok Hst. destruct t as [| | |j|k]; simpl in Hst.
  - eapply m_step_dec; [exact Hok | exact Hst].
  - discriminate.
  - discriminate.
  - destruct j as [|j']; [discriminate|]. eapply w_step_dec. exact Hst.
  - eapply p_step_dec. exact Hst.
Qed.

(* ---------- the side condition is preserved ---------- *)

Lemma mpc_ok_end : forall c s, main s = MOp \/ main s = MEnd -> mpc_ok c s.
Proof.
  intros c s [Hm|Hm]; unfold mpc_ok; rewrite Hm; exact I.
Qed.

Lemma mpc_ok_m_goto : forall c s l x cl, mpc_ok c (m_goto s l x cl).
Proof. intros c s l x cl. apply mpc_ok_end. apply main_m_goto. Qed.

Lemma mpc_ok_m_done : forall c s x cl, mpc_ok c (m_done s x cl).
Proof. intros c s x cl. unfold m_done. apply mpc_ok_m_goto. Qed.

Lemma mpc_ok_m_norm : forall c s,
  (forall k, main s = MStart k -> k < nworkers c) ->
  (forall k, main s = MJoin k -> k <= nworkers c) ->
  mpc_ok c (m_norm c s).
Proof.
  intros c s Hstart Hjoin. unfold m_norm.
  destruct (main s) as [|k|  |w|w j|w|w k|k| |] eqn:Hm;
    try (unfold mpc_ok; rewrite Hm; exact I).
  - unfold mpc_ok. rewrite Hm. apply Hstart. reflexivity.
  - destruct k as [|k']; [|unfold mpc_ok; rewrite Hm; exact I].
    destruct (cur_wait s).
    + destruct (Nat.eqb (nworkers c) 0) eqn:He.
      * unfold mpc_ok. simpl. exact I.
      * unfold mpc_ok. simpl. apply Nat.eqb_neq in He. lia.
    + apply mpc_ok_m_done.
  - destruct (Nat.eqb k (nworkers c)) eqn:He.
    + unfold mpc_ok. simpl. exact I.
    + unfold mpc_ok. rewrite Hm. apply Nat.eqb_neq in He. specialize (Hjoin k eq_refl). lia.
Qed.

Lemma mpc_ok_putshut : forall c s w k, mpc_ok c (m_norm c (set_main s (MPutShut w k))).
Proof.
  intros c s w k. apply mpc_ok_m_norm; simpl.
  - intros k0 He. discriminate.
  - intros k0 He. discriminate.
Qed.

Lemma drain_step_ok : forall c s w s' l, drain_step s w = Some (s', l) -> mpc_ok c s'.
Proof.
  intros c s w s' l Hd. unfold drain_step in Hd.
  destruct (qitems (getq s 0)) as [|it r]; [discriminate|].
  destruct it as [j|b]; inversion Hd; subst; clear Hd; unfold mpc_ok; simpl; exact I.
Qed.

Lemma m_step_ok : forall c s s' l,
  mpc_ok c s -> m_step c s = Some (s', l) -> mpc_ok c s'.
Proof.
  intros c s s' l Hok Hst. unfold m_step in Hst. unfold mpc_ok in Hok.
  destruct (main s) as [|k|  |w|w j|w|w k|k| |] eqn:Hm.
  - destruct (Nat.eqb (nworkers c) 0) eqn:He; inversion Hst; subst; clear Hst.
    + apply mpc_ok_m_goto.
    + unfold mpc_ok. simpl. apply Nat.eqb_neq in He. lia.
  - destruct (Nat.eqb (S k) (nworkers c)) eqn:He; inversion Hst; subst; clear Hst.
    + apply mpc_ok_m_goto.
    + unfold mpc_ok. simpl. apply Nat.eqb_neq in He. lia.
  - destruct (ops s) as [|o t] eqn:Ho; [discriminate|].
    destruct o as [i|i|i|w cc| |].
    + inversion Hst; subst; clear Hst. apply mpc_ok_m_done.
    + destruct (fcancel (getf s i)) as [f b]. inversion Hst; subst; clear Hst. apply mpc_ok_m_done.
    + destruct (fdone (getf s i)); [|discriminate]. inversion Hst; subst; clear Hst. apply mpc_ok_m_done.
    + destruct cc.
      * destruct (drain_step s w) as [r|] eqn:Hdr.
        -- inversion Hst; subst; clear Hst. eapply drain_step_ok. exact Hdr.
        -- inversion Hst; subst; clear Hst. apply mpc_ok_putshut.
      * destruct (nworkers c) as [|k] eqn:Hn.
        -- destruct (Nat.eqb (qunf (getq s 0)) 0); [|discriminate].
           destruct w; [|discriminate]. inversion Hst; subst; clear Hst. apply mpc_ok_m_done.
        -- inversion Hst; subst; clear Hst. apply mpc_ok_putshut.
    + destruct (nworkers c) as [|k] eqn:Hn; [discriminate|].
      inversion Hst; subst; clear Hst. apply mpc_ok_putshut.
    + destruct (nworkers c) as [|k] eqn:Hn.
      * destruct (Nat.eqb (qunf (getq s 0)) 0); [|discriminate].
        inversion Hst; subst; clear Hst. apply mpc_ok_m_done.
      * inversion Hst; subst; clear Hst. apply mpc_ok_putshut.
  - destruct (drain_step s w) as [r|] eqn:Hdr.
    + inversion Hst; subst; clear Hst. eapply drain_step_ok. exact Hdr.
    + inversion Hst; subst; clear Hst. apply mpc_ok_putshut.
  - destruct (fcancel (getf s j)) as [f b]. inversion Hst; subst; clear Hst.
    unfold mpc_ok. simpl. exact I.
  - inversion Hst; subst; clear Hst. unfold mpc_ok. simpl. exact I.
  - destruct k as [|k']; [discriminate|]. inversion Hst; subst; clear Hst. apply mpc_ok_putshut.
  - destruct (nth_error (ws s) k) as [wt|]; [|discriminate].
    destruct (wdone wt); [|discriminate].
    destruct (wdead wt); inversion Hst; subst; clear Hst.
    + apply mpc_ok_m_done.
    + apply mpc_ok_m_norm; simpl.
      * intros k0 He. discriminate.
      * intros k0 He. inversion He; subst. lia.
  - destruct (Nat.eqb (qunf (getq s 0)) 0); [|discriminate]. inversion Hst; subst; clear Hst.
    apply mpc_ok_m_done.
  - discriminate.
Qed.

Lemma main_set_w : forall s j w, main (set_w s j w) = main s.
Proof. intros s j w. reflexivity. Qed.

Lemma w_step_main : forall c s j s' l, w_step c s j = Some (s', l) -> main s' = main s.
Proof.
  intros c s j s' l Hst. unfold w_step in Hst.
  destruct (nth_error (ws s) j) as [w|]; [|discriminate].
  destruct (wp w);
    repeat match type of Hst with
           | Some _ = Some _ => inversion Hst; subst; clear Hst; reflexivity
           | None = Some _ => discriminate
           | context [match ?x with _ => _ end] => destruct x
           end.
Qed.

Lemma p_step_main : forall c s k s' l, p_step c s k = Some (s', l) -> main s' = main s.
Proof.
  intros c s k s' l Hst. unfold p_step in Hst.
  destruct (nth_error (ps s) (k - 1)) as [p|]; [|discriminate].
  destruct (Nat.eqb k 0); [discriminate|].
  destruct (pp p);
    repeat match type of Hst with
           | Some _ = Some _ => inversion Hst; subst; clear Hst; reflexivity
           | None = Some _ => discriminate
           | context [match ?x with _ => _ end] => destruct x
           end.
Qed.

Theorem step_mpc_ok : forall c s t s' l,
  mpc_ok c s -> step c s t = Some (s', l) -> mpc_ok c s'.
Proof.
  intros c s t s' l Hok Hst. destruct t as [| | |j|k]; simpl in Hst.
  - eapply m_step_ok; [exact Hok | exact Hst].
  - discriminate.
  - discriminate.
  - destruct j as [|j']; [discriminate|].
    unfold mpc_ok in *. rewrite (w_step_main _ _ _ _ _ Hst). exact Hok.
  - unfold mpc_ok in *. rewrite (p_step_main _ _ _ _ _ Hst). exact Hok.
Qed.

Lemma mpc_ok_init : forall c n prog, mpc_ok c (init n prog).
Proof. intros c n prog. unfold mpc_ok. simpl. exact I. Qed.

Theorem reach_mpc_ok : forall c n prog s, reach c (init n prog) s -> mpc_ok c s.
Proof.
  intros c n prog s Hr. induction Hr as [|s t s' l Hr IH Hst].
  - apply mpc_ok_init.
  - eapply step_mpc_ok; [exact IH | exact Hst].
Qed.

Theorem reach_step_decreases : forall c n prog s t s' l,
  reach c (init n prog) s -> step c s t = Some (s', l) -> mu c s' < mu c s.
Proof.
  intros c n prog s t s' l Hr Hst.
  eapply step_decreases; [eapply reach_mpc_ok; exact Hr | exact Hst].
Qed.

(* ---------- every run is finite: its length is bounded by the measure ---------- *)

Lemma run_cons : forall c n rest s,
  run c (n :: rest) s =
  match enabled c s with
  | [] => (s, [])
  | e :: es =>
      let t := nth (n mod length (e :: es)) (e :: es) e in
      match step c s t with
      | Some (s', l) => let '(sf, tr) := run c rest s' in (sf, (t, l) :: tr)
      | None => (s, [])
      end
  end.
Proof. intros c n rest s. reflexivity. Qed.

Theorem run_length_bounded : forall c sched s,
  mpc_ok c s -> length (snd (run c sched s)) <= mu c s.
Proof.
  intros c sched. induction sched as [|n rest IH]; intros s Hok.
  - simpl. lia.
  - rewrite run_cons. destruct (enabled c s) as [|e es]; [simpl; lia|].
    cbv zeta. remember (nth (n mod length (e :: es)) (e :: es) e) as t eqn:Ht. clear Ht.
    destruct (step c s t) as [[s' l]|] eqn:Hst; [|simpl; lia].
    pose proof (step_decreases _ _ _ _ _ Hok Hst) as Hdec.
    pose proof (step_mpc_ok _ _ _ _ _ Hok Hst) as Hok'.
    specialize (IH s' Hok').
    destruct (run c rest s') as [sf tr]. simpl in IH. simpl. lia.
Qed.

Theorem reach_run_length_bounded : forall c n prog sched s,
  reach c (init n prog) s -> length (snd (run c sched s)) <= mu c s.
Proof.
  intros c n prog sched s Hr. apply run_length_bounded. eapply reach_mpc_ok. exact Hr.
Qed.

(* the bound for a whole execution, in closed form *)
Theorem init_run_length_bounded : forall c n prog sched,
  length (snd (run c sched (init n prog)))
  <= length prog * (22 * nworkers c + 31) + 48 * nworkers c + 70.
Proof.
  intros c n prog sched.
  pose proof (run_length_bounded c sched (init n prog) (mpc_ok_init c n prog)) as Hb.
  assert (Hmu : mu c (init n prog) = length prog * (22 * nworkers c + 31) + 48 * nworkers c + 70).
  { unfold mu. simpl.
    assert (Ho : forall l, opsw (nworkers c) l = length l * (22 * nworkers c + 31)).
    { intros l. induction l as [|o t IHl]; [reflexivity|].
      simpl length. rewrite Nat.mul_succ_l. simpl opsw. rewrite IHl. lia. }
    rewrite Ho. lia. }
  lia.
Qed.

Print Assumptions step_decreases.
Print Assumptions step_mpc_ok.
Print Assumptions reach_step_decreases.
Print Assumptions run_length_bounded.
Print Assumptions reach_run_length_bounded.
Print Assumptions init_run_length_bounded.
