(* C17: the serial worker loop answers every request sequence as the specification says. *)
From Coq Require Import ZArith String List Bool.
From EL Require Import Base.Dec Base.PyLib Base.Tac Model.Worker Gen.WorkerSerial.
Import ListNotations.
Local Open Scope string_scope.
Local Open Scope list_scope.

Section S.
  Variable apply : pyval -> pyval -> res pyval.

  Lemma step_shutdown mem w :
    wstep_serial apply mem (to_py (RShutdown w)) = Ok (VTuple [mem; VList [ack]; VBool true]).
  Proof. reflexivity. Qed.

  Lemma step_call mem f a k :
    wstep_serial apply mem (to_py (RCall f a k))
    = Ok (VTuple [mem; VList [reply_of_call apply mem (RCall f a k)]; VBool false]).
  Proof.
    unfold wstep_serial, reply_of_call. cbn.
    destruct (apply mem _) as [v|e]; reflexivity.
  Qed.

  Lemma step_init mem f :
    wstep_serial apply mem (to_py (RInit f))
    = match apply VNone (to_py (RInit f)) with
      | Ok m => Ok (VTuple [m; VList []; VBool false])
      | Err e => Err e
      end.
  Proof.
    unfold wstep_serial. cbn. destruct (apply VNone _) as [v|e]; reflexivity.
  Qed.

  Lemma step_junk mem :
    wstep_serial apply mem (to_py RJunk) = Ok (VTuple [mem; VList []; VBool false]).
  Proof. reflexivity. Qed.

  Theorem reply_trace reqs : forall mem,
    inits_ok apply reqs ->
    run (wstep_serial apply) mem (List.map to_py reqs)
    = Ok (spec_replies apply mem reqs, List.existsb is_shutdown reqs).
  Proof.
    induction reqs as [|r t IH]; intros mem Hi; [reflexivity|].
    destruct r as [f a k|f|w|].
    - cbn [List.map run]. rewrite step_call. cbn [bind unpack_step]. cbv iota.
      rewrite IH by exact Hi. reflexivity.
    - cbn [List.map run]. rewrite step_init. destruct Hi as [[m Hm] Hi]. cbn [spec_replies].
      rewrite Hm. cbn [bind unpack_step]. cbv iota. rewrite IH by exact Hi. reflexivity.
    - cbn [List.map run]. rewrite step_shutdown. reflexivity.
    - cbn [List.map run]. rewrite step_junk. cbn [bind unpack_step]. cbv iota.
      rewrite IH by exact Hi. reflexivity.
  Qed.

  (* exactly one reply per reply-bearing request that is served, none for inits *)
  Lemma spec_length reqs : forall mem,
    inits_ok apply reqs ->
    List.length (spec_replies apply mem reqs)
    = List.length (List.filter bears_reply (served reqs)).
  Proof.
    induction reqs as [|r t IH]; intros mem Hi; [reflexivity|].
    destruct r as [f a k|f|w|]; cbn [spec_replies served is_shutdown List.filter bears_reply List.length].
    - f_equal. apply IH. exact Hi.
    - destruct Hi as [[m Hm] Hi]. rewrite Hm. apply IH. exact Hi.
    - reflexivity.
    - apply IH. exact Hi.
  Qed.

  (* the worker keeps serving after a failed call: the replies to what follows are unchanged *)
  Lemma serves_after_error mem f a k e t :
    apply mem (to_py (RCall f a k)) = Err e ->
    spec_replies apply mem (RCall f a k :: t) = reply_err e :: spec_replies apply mem t.
  Proof. intros H. cbn [spec_replies]. unfold reply_of_call. rewrite H. reflexivity. Qed.

  (* a call never changes the worker's memory; only an init request does *)
  Lemma call_keeps_memory mem f a k :
    exists r, wstep_serial apply mem (to_py (RCall f a k)) = Ok (VTuple [mem; r; VBool false]).
  Proof. rewrite step_call. eexists. reflexivity. Qed.
End S.
