(* Resource ceiling (C07) and one-call-per-process for the per-call-process executor model
   (Model/StepExec.v).  Main results: step_ceiling_cores, step_ceiling_workers,
   step_at_most_one_call, step_one_call_per_process.  The inductive invariants are the
   records [XInv] (state) and [TInv] (state + history of labels).  Generic list lemmas, the
   channel tactics and the client-side helper lemmas are reused from Proofs/ExecSafe.v. *)
From Coq Require Import List Bool Arith Lia.
From EL Require Import Model.Exec Model.ExecInv Model.StepExec Proofs.ExecSafe.
Import ListNotations.

(* ------------------------------------------------------------------ *)

Inductive xreach (c : xcfg) (x0 : xstate) : xstate -> Prop :=
| xreach_init : xreach c x0 x0
| xreach_step : forall x t x' l, xreach c x0 x -> xstep c x t = Some (x', l) -> xreach c x0 x'.

(* ================= queues ================= *)
Definition dq : queue := mkQ [] 0.
Definition allq (qs : list queue) : list item := flat_map qitems qs.

Lemma allq_upd_split : forall (qs : list queue) q old new, nth_error qs q = Some old ->
  exists l1 l2, allq qs = l1 ++ qitems old ++ l2 /\ allq (upd qs q new) = l1 ++ qitems new ++ l2.
Proof.
  induction qs as [|a qs IH]; intros q old new H; destruct q as [|q]; simpl in H; try discriminate.
  - inversion H; subst. exists [], (allq qs). split; reflexivity.
  - destruct (IH q old new H) as (l1 & l2 & E1 & E2).
    exists (qitems a ++ l1), l2. unfold allq in *. simpl. rewrite E1, E2, <- !app_assoc. split; reflexivity.
Qed.

Lemma nth_items_range : forall (qs : list queue) q it rest,
  qitems (nth q qs dq) = it :: rest -> nth_error qs q = Some (nth q qs dq).
Proof.
  intros qs q it rest H. destruct (nth_error qs q) as [y|] eqn:E.
  - f_equal. symmetry. now apply nth_error_nth'.
  - apply nth_error_None in E. rewrite nth_overflow in H by exact E. discriminate.
Qed.

Lemma count_qput : forall f (qs : list queue) q it u, q < length qs ->
  count f (allq (upd qs q (mkQ (qitems (nth q qs dq) ++ [it]) u))) = count f (allq qs) + b2n (f it).
Proof.
  intros f qs q it u L.
  destruct (nth_error qs q) as [old|] eqn:E; [|apply nth_error_None in E; lia].
  destruct (allq_upd_split qs q old (mkQ (qitems (nth q qs dq) ++ [it]) u) E) as (l1 & l2 & E1 & E2).
  rewrite E1, E2. rewrite (nth_error_nth' _ _ _ _ _ E). simpl. rewrite !count_app, count_cons, count_nil. lia.
Qed.

Lemma count_qpop : forall f (qs : list queue) q it rest u, qitems (nth q qs dq) = it :: rest ->
  count f (allq (upd qs q (mkQ rest u))) + b2n (f it) = count f (allq qs).
Proof.
  intros f qs q it rest u H. pose proof (nth_items_range _ _ _ _ H) as E.
  destruct (allq_upd_split qs q _ (mkQ rest u) E) as (l1 & l2 & E1 & E2).
  rewrite E1, E2, H. simpl. repeat rewrite ?count_app, ?count_cons. lia.
Qed.

Lemma allq_qtd : forall (qs : list queue) q u,
  allq (upd qs q (mkQ (qitems (nth q qs dq)) u)) = allq qs.
Proof.
  intros qs q u. destruct (nth_error qs q) as [old|] eqn:E.
  - destruct (allq_upd_split qs q old (mkQ (qitems (nth q qs dq)) u) E) as (l1 & l2 & E1 & E2).
    rewrite E1, E2. rewrite (nth_error_nth' _ _ _ _ _ E). reflexivity.
  - apply nth_error_None in E. now rewrite upd_oob.
Qed.

Lemma allq_snoc : forall qs, allq (qs ++ [mkQ [] 0]) = allq qs.
Proof. intros qs. unfold allq. rewrite flat_map_app. simpl. now rewrite app_nil_r. Qed.

(* ================= definitions for the invariant ================= *)
Definition dhold (d : dpc) (i : nat) : nat :=
  match d with DPutTask j => if Nat.eqb i j then 1 else 0 | _ => 0 end.
Definition prep (d : dpc) : nat :=
  match d with DPutTask _ | DPutShut _ | DScan _ _ _ | DSpin _ | DStart _ => 1 | _ => 0 end.

Definition dcall (d : dpc) : option nat :=
  match d with DPutTask i | DPutShut i | DScan i _ _ | DSpin i | DStart i => Some i | _ => None end.

Definition gcf (qs : list queue) (wl : list wthread) (m : mpc) (d : dpc) (i : nat) : nat :=
  count (taskb i) (allq qs) + count (callsb i) wl + mdc m i + dhold d i.

(* a worker thread holds call i, or will take it from its private queue *)
Definition lh (qs : list queue) (wl : list wthread) (i : nat) : Prop :=
  exists j w, nth_error wl j = Some w /\ (w_call w = Some i \/ In (Task i) (qitems (nth (wq w) qs dq))).

Definition nth_f (fs : list fstate) (i : nat) : fstate := nth (i - 1) fs FPending.

Definition Kinv (qs : list queue) (wl : list wthread) (fs : list fstate) (act : list (nat * nat)) (d : dpc) : Prop :=
  forall i, lh qs wl i -> fdone (nth_f fs i) = false ->
    In i (map fst act) /\ (forall i0 todo kept, d = DScan i0 todo kept -> In i (map fst (kept ++ todo))).

Definition cap (c : xcfg) (act : list (nat * nat)) : Prop :=
  match xmax_cores c with
  | Some m => sum_slots act <= m
  | None => match xmax_workers c with Some m => length act <= m | None => True end
  end.

Definition sub_of (l act : list (nat * nat)) : Prop :=
  sum_slots l <= sum_slots act /\ length l <= length act /\ (forall e, In e l -> In e act).

Record XInv (c : xcfg) (n : nat) (x : xstate) : Prop := mkXInv {
  X_len : length (futs (base x)) = n;
  X_wq : forall j w, nth_error (ws (base x)) j = Some w -> wq w = S j;
  X_lq : length (queues (base x)) = S (length (ws (base x))) + prep (disp x);
  X_pq : forall i0, In (Task i0) (qitems (nth (length (queues (base x)) - 1) (queues (base x)) dq)) ->
           prep (disp x) = 1 -> dcall (disp x) = Some i0;
  X_dn : started (main (base x)) \/ disp x = DNone;
  X_ow1 : forall j w, nth_error (ws (base x)) j = Some w ->
            if spawnedb w then 1 <= wproc w <= length (ps (base x)) else wproc w = 0;
  X_ow2 : count spawnedb (ws (base x)) = length (ps (base x));
  X_ow3 : forall k, count (procb k) (ws (base x)) <= 1;
  X_ow4 : forall k, k < length (ps (base x)) -> 1 <= count (procb k) (ws (base x));
  X_chan : forall j w, nth_error (ws (base x)) j = Some w ->
            chanS (bcfg c) w (nth (wproc w - 1) (ps (base x)) (mkP PExit [] [])) = true;
  X_own1 : forall i, gcf (queues (base x)) (ws (base x)) (main (base x)) (disp x) i <= 1;
  X_own3 : forall i, gcf (queues (base x)) (ws (base x)) (main (base x)) (disp x) i <> 0 -> In i (subm (base x));
  X_run : forall i, 1 <= i <= n -> count (runsb i) (ws (base x)) = b2n (isrun (nth_f (futs (base x)) i));
  X_sub1 : NoDup (subm (base x) ++ submits (ops (base x)));
  X_sub2 : forall i, In i (subm (base x) ++ submits (ops (base x))) -> 1 <= i <= n;
  X_K : Kinv (queues (base x)) (ws (base x)) (futs (base x)) (active x) (disp x);
  X_K3 : forall i sl, In (i, sl) (active x) -> sl = xslots c i;
  X_cap : cap c (active x);
  X_start : forall i, disp x = DStart i -> must_wait c (active x) i = false;
  X_scan : forall i0 todo kept, disp x = DScan i0 todo kept -> sub_of (kept ++ todo) (active x)
}.

Ltac xinv_split H :=
  destruct H as [Hlen Hwq Hlq Hpq Hdn Ho1 Ho2 Ho3 Ho4 Hch Hw1 Hw3 Hrun Hs1 Hs2 HK HK3 Hcap Hstart Hscan];
  constructor; cbn [base disp active launched queues futs subm main ops closed ws ps outs] in *; try assumption.

Lemma xinv_init : forall c n prog, wf_prog n prog -> XInv c n (xinit n prog).
Proof.
  intros c n prog (Hnd & Hrg & Hdrop).
  constructor; unfold xinit, init; cbn [base disp active launched queues futs subm main ops closed ws ps outs].
  - apply repeat_length.
  - intros j w Hj. destruct j; discriminate.
  - reflexivity.
  - intros i0 _ E. discriminate.
  - now right.
  - intros j w Hj. destruct j; discriminate.
  - reflexivity.
  - intros k. unfold count. simpl. lia.
  - intros k Hk. simpl in Hk. lia.
  - intros j w Hj. destruct j; discriminate.
  - intros i. unfold gcf, count. simpl. lia.
  - intros i Hi. exfalso. apply Hi. reflexivity.
  - intros i _. unfold nth_f. rewrite nth_repeat_pending. reflexivity.
  - exact Hnd.
  - intros i Hi. apply Hrg. exact Hi.
  - intros i (j & w & Hj & _). destruct j; discriminate.
  - intros i sl [].
  - unfold cap. destruct (xmax_cores c); [simpl; lia|]. destruct (xmax_workers c); [simpl; lia|exact I].
  - intros i E. discriminate.
  - intros i0 todo kept E. discriminate.
Qed.

(* ------------------------------------------------------------------ *)

Ltac xfld := cbn [base disp active launched queues futs subm main ops closed ws ps outs].

Lemma Kinv_mono : forall qs wl fs qs' wl' fs' act d,
  Kinv qs wl fs act d ->
  (forall i, lh qs' wl' i -> lh qs wl i) ->
  (forall i, fdone (nth_f fs i) = true -> fdone (nth_f fs' i) = true) ->
  Kinv qs' wl' fs' act d.
Proof.
  intros qs wl fs qs' wl' fs' act d HK Hl Hf i Hi Hd. apply HK; [now apply Hl|].
  destruct (fdone (nth_f fs i)) eqn:E; [|reflexivity]. rewrite (Hf i E) in Hd. discriminate.
Qed.

(* ================= process steps ================= *)
Lemma xinv_setp : forall c n x k p',
  XInv c n x ->
  (forall j w, nth_error (ws (base x)) j = Some w -> wproc w - 1 = k - 1 -> k - 1 < length (ps (base x)) ->
               chanS (bcfg c) w p' = true) ->
  XInv c n (set_base x (setp (base x) k p')).
Proof.
  intros c n x k p' H Hc. unfold set_base, setp, set_ps.
  xinv_split H; rewrite ?upd_length; try assumption.
  intros j w Hj.
  destruct (nth_upd_cases _ (ps (base x)) (wproc w - 1) (k - 1) p' {| pp := PExit; inbox := []; outbox := [] |})
    as [(E & L & Hx)|(E & Hx)]; rewrite Hx.
  - eapply Hc; eauto.
  - eapply Hch; eauto.
Qed.

Lemma xp_step_inv : forall c n x k b l, XInv c n x -> p_step (bcfg c) (base x) k = Some (b, l) ->
  XInv c n (set_base x b).
Proof.
  intros c n x k s' l H Hst. unfold p_step in Hst.
  destruct (nth_error (ps (base x)) (k - 1)) as [p|] eqn:Hp; [|discriminate].
  destruct (Nat.eqb k 0) eqn:Ek; [discriminate|].
  assert (Hc : forall j w, nth_error (ws (base x)) j = Some w -> wproc w - 1 = k - 1 -> chanS (bcfg c) w p = true).
  { intros j w Hj E. pose proof (X_chan _ _ _ H j w Hj) as Hc. rewrite E in Hc.
    rewrite (nth_error_nth' _ _ _ _ _ Hp) in Hc. exact Hc. }
  destruct p as [pc ib ob]. cbn [pp inbox outbox] in Hst.
  destruct pc as [| |i|i| |].
  - inversion Hst; subst; clear Hst. apply xinv_setp; [exact H|]. intros j w Hj E _. specialize (Hc j w Hj E).
    chan_open. destruct (wp w); chan_solve.
  - destruct ib as [|m t]; [discriminate|].
    destruct m; inversion Hst; subst; clear Hst; (apply xinv_setp; [exact H|]); intros j w Hj E _; specialize (Hc j w Hj E);
    chan_open; destruct (wp w); destruct t as [|m2 t]; destruct ob as [|o1 ob]; chan_solve.
  - inversion Hst; subst; clear Hst. apply xinv_setp; [exact H|]. intros j w Hj E _. specialize (Hc j w Hj E).
    chan_open; destruct (wp w); destruct ib as [|m1 ib]; destruct ob as [|o1 ob]; chan_solve.
  - inversion Hst; subst; clear Hst. apply xinv_setp; [exact H|]. intros j w Hj E _. specialize (Hc j w Hj E).
    chan_open; destruct (wp w); destruct ib as [|m1 ib]; destruct ob as [|o1 ob]; chan_solve;
      try (destruct (xraises c i); chan_solve).
  - inversion Hst; subst; clear Hst. apply xinv_setp; [exact H|]. intros j w Hj E _. specialize (Hc j w Hj E).
    chan_open; destruct (wp w); destruct ib as [|m1 ib]; destruct ob as [|o1 ob]; chan_solve.
  - discriminate.
Qed.

(* ================= worker steps ================= *)
Lemma xinv_wmaster : forall c n x j w w' qs' fs' ps',
  XInv c n x -> nth_error (ws (base x)) j = Some w ->
  length qs' = length (queues (base x)) -> length fs' = n -> wq w' = wq w ->
  (if spawnedb w' then 1 <= wproc w' <= length ps' else wproc w' = 0) ->
  length (ps (base x)) <= length ps' ->
  length ps' + b2n (spawnedb w) = length (ps (base x)) + b2n (spawnedb w') ->
  (wproc w' = wproc w \/ wproc w' = S (length (ps (base x)))) ->
  (forall k, k < length (ps (base x)) -> (spawnedb w = true -> k <> wproc w - 1) ->
             nth k ps' (mkP PExit [] []) = nth k (ps (base x)) (mkP PExit [] [])) ->
  chanS (bcfg c) w' (nth (wproc w' - 1) ps' (mkP PExit [] [])) = true ->
  (forall i, count (taskb i) (allq qs') + b2n (callsb i w')
             <= count (taskb i) (allq (queues (base x))) + b2n (callsb i w)) ->
  (forall i, 1 <= i <= n -> (runsb i w = true -> isrun (nth_f (futs (base x)) i) = true) ->
     b2n (isrun (nth_f (futs (base x)) i)) + b2n (runsb i w') = b2n (isrun (nth_f fs' i)) + b2n (runsb i w)) ->
  (forall q i, In (Task i) (qitems (nth q qs' dq)) -> In (Task i) (qitems (nth q (queues (base x)) dq))) ->
  (forall i, w_call w' = Some i ->
             w_call w = Some i \/ In (Task i) (qitems (nth (wq w) (queues (base x)) dq))) ->
  (forall i, fdone (nth_f (futs (base x)) i) = true -> fdone (nth_f fs' i) = true) ->
  XInv c n (mkX (mkS qs' fs' (subm (base x)) (main (base x)) (ops (base x)) (closed (base x))
                     (upd (ws (base x)) j w') ps' (outs (base x))) (disp x) (active x) (launched x)).
Proof.
  intros c n x j w w' qs' fs' ps' H Hj Mlq Mlen Mwq Mo1 Mlp Mo2 Mo3 Mps Mch Mown Mrun MKq MKc MKf.
  xinv_split H.
  - (* wq *) intros j2 w2 H2. apply nth_error_upd_inv in H2 as [(E1 & E2 & _)|(E1 & E2)]; [subst; rewrite Mwq; eauto|eauto].
  - (* lq *) rewrite Mlq, upd_length. exact Hlq.
  - (* pq *) rewrite Mlq. intros i0 Hin Hpr. apply Hpq; [now apply MKq|exact Hpr].
  - (* ow1 *) intros j2 w2 H2. apply nth_error_upd_inv in H2 as [(E1 & E2 & _)|(E1 & E2)]; [subst; exact Mo1|].
    specialize (Ho1 j2 w2 E2). destruct (spawnedb w2); [lia|exact Ho1].
  - (* ow2 *) pose proof (count_upd _ spawnedb (ws (base x)) j w' w Hj). lia.
  - (* ow3 *) intros k. pose proof (count_upd _ (procb k) (ws (base x)) j w' w Hj) as Hc. specialize (Ho3 k).
    destruct Mo3 as [E|E].
    + assert (Ep : procb k w' = procb k w) by (unfold procb; now rewrite E). rewrite Ep in Hc. lia.
    + assert (Hz : count (procb (length (ps (base x)))) (ws (base x)) = 0).
      { apply count_zero. intros j2 w2 H2. specialize (Ho1 j2 w2 H2). unfold procb.
        apply Nat.eqb_neq. destruct (spawnedb w2); lia. }
      assert (Ep : procb k w' = Nat.eqb (length (ps (base x))) k) by (unfold procb; rewrite E; reflexivity).
      rewrite Ep in Hc.
      destruct (Nat.eqb (length (ps (base x))) k) eqn:Ek.
      * apply Nat.eqb_eq in Ek. subst k. rewrite Hz in Hc. simpl in Hc. lia.
      * simpl in Hc. lia.
  - (* ow4 *) intros k Hk. pose proof (count_upd _ (procb k) (ws (base x)) j w' w Hj) as Hc.
    pose proof (Ho1 j w Hj) as B1.
    destruct (spawnedb w) eqn:Sw; destruct (spawnedb w') eqn:Sw'; simpl in Mo2.
    + destruct Mo3 as [E|E]; [|lia].
      assert (Ep : procb k w' = procb k w) by (unfold procb; now rewrite E). rewrite Ep in Hc.
      assert (Hk' : k < length (ps (base x))) by lia. specialize (Ho4 k Hk'). lia.
    + lia.
    + destruct Mo3 as [E|E]; [lia|].
      assert (Ep : procb k w' = Nat.eqb (length (ps (base x))) k) by (unfold procb; rewrite E; reflexivity).
      assert (Ew : procb k w = false) by (unfold procb; rewrite B1; reflexivity).
      rewrite Ep, Ew in Hc. simpl in Hc.
      destruct (Nat.eqb (length (ps (base x))) k) eqn:Ek; simpl in Hc; [lia|].
      apply Nat.eqb_neq in Ek. assert (Hk' : k < length (ps (base x))) by lia. specialize (Ho4 k Hk'). lia.
    + destruct Mo3 as [E|E]; [|lia].
      assert (Ep : procb k w' = procb k w) by (unfold procb; now rewrite E). rewrite Ep in Hc.
      assert (Hk' : k < length (ps (base x))) by lia. specialize (Ho4 k Hk'). lia.
  - (* chan *) intros j2 w2 H2. apply nth_error_upd_inv in H2 as [(E1 & E2 & _)|(E1 & E2)]; [subst; exact Mch|].
    destruct (spawnedb w2) eqn:S2; [|now apply chanS_unspawned].
    pose proof (Ho1 j2 w2 E2) as B2. rewrite S2 in B2.
    rewrite Mps; [eauto|lia|].
    intros Sw Ek. pose proof (Ho1 j w Hj) as B1. rewrite Sw in B1.
    apply E1. apply (count_le1_inj _ (procb (wproc w - 1)) (ws (base x)) j2 j w2 w (Ho3 _) E2 Hj); unfold procb; apply Nat.eqb_eq; lia.
  - (* own1 *) intros i. pose proof (count_upd _ (callsb i) (ws (base x)) j w' w Hj) as Hc. specialize (Hw1 i).
    specialize (Mown i). unfold gcf in *. lia.
  - (* own3 *) intros i Hi. pose proof (count_upd _ (callsb i) (ws (base x)) j w' w Hj) as Hc. apply Hw3.
    specialize (Mown i). unfold gcf in *. lia.
  - (* run *) intros i Hi. pose proof (count_upd _ (runsb i) (ws (base x)) j w' w Hj) as Hc.
    specialize (Hrun i Hi).
    assert (Hr : runsb i w = true -> isrun (nth_f (futs (base x)) i) = true).
    { intros Hr. pose proof (count_ge1 _ (runsb i) (ws (base x)) j w Hj Hr) as Hg. rewrite Hrun in Hg.
      destruct (isrun _); [reflexivity|simpl in Hg; lia]. }
    specialize (Mrun i Hi Hr). lia.
  - (* K *) eapply Kinv_mono; [exact HK| |exact MKf].
    intros i (j2 & w2 & H2 & Hc).
    apply nth_error_upd_inv in H2 as [(E1 & E2 & _)|(E1 & E2)].
    + subst j2 w2. destruct Hc as [Hc|Hc].
      * destruct (MKc i Hc) as [Hc'|Hc']; exists j, w; (split; [exact Hj|]); [now left|now right].
      * exists j, w. split; [exact Hj|]. right. rewrite Mwq in Hc. now apply MKq.
    + exists j2, w2. split; [exact E2|]. destruct Hc as [Hc|Hc]; [now left|right; now apply MKq].
Qed.

Lemma xcall_range : forall c n x j w i, XInv c n x -> nth_error (ws (base x)) j = Some w -> w_call w = Some i ->
  1 <= i <= n.
Proof.
  intros c n x j w i H Hj Hc.
  assert (Hb : callsb i w = true) by (unfold callsb; rewrite Hc; apply Nat.eqb_refl).
  pose proof (count_ge1 _ (callsb i) (ws (base x)) j w Hj Hb) as Hg.
  assert (Hi : In i (subm (base x))) by (apply (X_own3 _ _ _ H); unfold gcf; lia).
  apply (X_sub2 _ _ _ H). apply in_or_app. now left.
Qed.

Lemma xrun_is_running : forall c n x j w i, XInv c n x -> nth_error (ws (base x)) j = Some w -> w_run w = Some i ->
  getf (base x) i = FRunning.
Proof.
  intros c n x j w i H Hj Hr.
  pose proof (xcall_range c n x j w i H Hj (run_call _ _ Hr)) as Hi.
  assert (Hb : runsb i w = true) by (unfold runsb; rewrite Hr; apply Nat.eqb_refl).
  pose proof (count_ge1 _ (runsb i) (ws (base x)) j w Hj Hb) as Hg.
  rewrite (X_run _ _ _ H i Hi) in Hg. unfold nth_f in Hg. unfold getf.
  destruct (nth (i - 1) (futs (base x)) FPending); simpl in Hg; try lia. reflexivity.
Qed.

Lemma xsrnc_not_running : forall c n x j w i, XInv c n x -> nth_error (ws (base x)) j = Some w -> wp w = WSrnc i ->
  getf (base x) i <> FRunning.
Proof.
  intros c n x j w i H Hj Hpc Hf.
  assert (Hca : w_call w = Some i) by (unfold w_call; rewrite Hpc; reflexivity).
  pose proof (xcall_range c n x j w i H Hj Hca) as Hi.
  pose proof (X_run _ _ _ H i Hi) as Hr. unfold nth_f in Hr. unfold getf in Hf. rewrite Hf in Hr. simpl in Hr.
  assert (Hs : srncb i w = true) by (unfold srncb; rewrite Hpc; apply Nat.eqb_refl).
  pose proof (count_ge1 _ (srncb i) (ws (base x)) j w Hj Hs) as Hg.
  pose proof (X_own1 _ _ _ H i) as Ho. unfold gcf in Ho. rewrite calls_split in Ho. lia.
Qed.

Lemma qtd_items : forall (qs : list queue) q0 u q,
  qitems (nth q (upd qs q0 (mkQ (qitems (nth q0 qs dq)) u)) dq) = qitems (nth q qs dq).
Proof.
  intros qs q0 u q.
  destruct (nth_upd_cases _ qs q q0 (mkQ (qitems (nth q0 qs dq)) u) dq) as [(E & L & Hx)|(E & Hx)]; rewrite Hx.
  - subst q. reflexivity.
  - reflexivity.
Qed.

(* ---- kind A ---- *)
Lemma xinv_wpc : forall c n x j w pc' qs' ps',
  XInv c n x -> nth_error (ws (base x)) j = Some w ->
  spawnedb (mkW (wq w) (wproc w) pc') = spawnedb w ->
  w_call (mkW (wq w) (wproc w) pc') = w_call w ->
  w_run (mkW (wq w) (wproc w) pc') = w_run w ->
  length qs' = length (queues (base x)) ->
  allq qs' = allq (queues (base x)) ->
  (forall q, qitems (nth q qs' dq) = qitems (nth q (queues (base x)) dq)) ->
  length ps' = length (ps (base x)) ->
  (forall k, k < length (ps (base x)) -> (spawnedb w = true -> k <> wproc w - 1) ->
             nth k ps' (mkP PExit [] []) = nth k (ps (base x)) (mkP PExit [] [])) ->
  chanS (bcfg c) (mkW (wq w) (wproc w) pc') (nth (wproc w - 1) ps' (mkP PExit [] [])) = true ->
  XInv c n (mkX (mkS qs' (futs (base x)) (subm (base x)) (main (base x)) (ops (base x)) (closed (base x))
                     (upd (ws (base x)) j (mkW (wq w) (wproc w) pc')) ps' (outs (base x)))
                (disp x) (active x) (launched x)).
Proof.
  intros c n x j w pc' qs' ps' H Hj Hsp Hca Hru Hlq Haq Hqi Hlp Hps Hch.
  apply (xinv_wmaster c n x j w); try assumption.
  - apply (X_len _ _ _ H).
  - reflexivity.
  - rewrite Hsp, Hlp. cbn [wproc]. apply (X_ow1 _ _ _ H j w Hj).
  - lia.
  - rewrite Hsp. lia.
  - left. reflexivity.
  - intros i. rewrite Haq. unfold callsb. rewrite Hca. lia.
  - intros i Hi _. unfold runsb. rewrite Hru. lia.
  - intros q i. rewrite Hqi. tauto.
  - intros i. rewrite Hca. now left.
  - tauto.
Qed.

(* ---- kind F ---- *)
Lemma xinv_wfut : forall c n x j w pc' i fs' qs',
  XInv c n x -> nth_error (ws (base x)) j = Some w -> w_call w = Some i ->
  length fs' = length (futs (base x)) ->
  (forall i2, i2 - 1 <> i - 1 -> nth (i2 - 1) fs' FPending = nth (i2 - 1) (futs (base x)) FPending) ->
  spawnedb (mkW (wq w) (wproc w) pc') = true ->
  (w_call (mkW (wq w) (wproc w) pc') = Some i \/ w_call (mkW (wq w) (wproc w) pc') = None) ->
  (fdone (getf (base x) i) = true -> fdone (nth (i - 1) fs' FPending) = true) ->
  ((runsb i w = true -> isrun (getf (base x) i) = true) ->
     b2n (isrun (getf (base x) i)) + b2n (runsb i (mkW (wq w) (wproc w) pc'))
     = b2n (isrun (nth (i - 1) fs' FPending)) + b2n (runsb i w)) ->
  length qs' = length (queues (base x)) ->
  allq qs' = allq (queues (base x)) ->
  (forall q, qitems (nth q qs' dq) = qitems (nth q (queues (base x)) dq)) ->
  chanS (bcfg c) (mkW (wq w) (wproc w) pc') (getp (base x) (wproc w)) = true ->
  XInv c n (mkX (mkS qs' fs' (subm (base x)) (main (base x)) (ops (base x)) (closed (base x))
                     (upd (ws (base x)) j (mkW (wq w) (wproc w) pc')) (ps (base x)) (outs (base x)))
                (disp x) (active x) (launched x)).
Proof.
  intros c n x j w pc' i fs' qs' H Hj Hca Hlf Hoth Hsp Hca' Hmono Hrun Hlq Haq Hqi Hch.
  pose proof (xcall_range c n x j w i H Hj Hca) as Hi.
  pose proof (call_spawned _ _ Hca) as Hsw.
  assert (Hcb : callsb i w = true) by (unfold callsb; rewrite Hca; apply Nat.eqb_refl).
  assert (Hcb2 : forall i2, i2 <> i -> callsb i2 w = false).
  { intros i2 E. unfold callsb. rewrite Hca. now apply Nat.eqb_neq. }
  assert (Hcb2' : forall i2, i2 <> i -> callsb i2 (mkW (wq w) (wproc w) pc') = false).
  { intros i2 E. unfold callsb. destruct Hca' as [Hc|Hc]; rewrite Hc; [now apply Nat.eqb_neq|reflexivity]. }
  assert (Hrb2 : forall i2, i2 <> i -> runsb i2 w = false).
  { intros i2 E. unfold runsb. destruct (call_run_cases _ _ Hca) as [Hr|Hr]; rewrite Hr; [reflexivity|now apply Nat.eqb_neq]. }
  assert (Hrb2' : forall i2, i2 <> i -> runsb i2 (mkW (wq w) (wproc w) pc') = false).
  { intros i2 E. unfold runsb. destruct (w_run (mkW (wq w) (wproc w) pc')) as [i3|] eqn:Hr; [|reflexivity].
    apply run_call in Hr. destruct Hca' as [Hc|Hc]; rewrite Hc in Hr; [|discriminate].
    inversion Hr; subst. now apply Nat.eqb_neq. }
  apply (xinv_wmaster c n x j w); try assumption.
  - rewrite Hlf. apply (X_len _ _ _ H).
  - reflexivity.
  - rewrite Hsp. cbn [wproc]. pose proof (X_ow1 _ _ _ H j w Hj) as Ho. now rewrite Hsw in Ho.
  - lia.
  - rewrite Hsp, Hsw. lia.
  - left. reflexivity.
  - intros k _ _. reflexivity.
  - intros i2. rewrite Haq. destruct (Nat.eq_dec i2 i) as [Ei|Ei].
    + subst i2. rewrite Hcb. destruct (callsb i {| wq := wq w; wproc := wproc w; wp := pc' |}); cbn [b2n]; lia.
    + rewrite Hcb2, Hcb2' by exact Ei. lia.
  - intros i2 L Hr. unfold nth_f in *. destruct (Nat.eq_dec i2 i) as [Ei|Ei].
    + subst i2. now apply Hrun.
    + rewrite Hrb2, Hrb2' by exact Ei. rewrite Hoth by lia. lia.
  - intros q i2. rewrite Hqi. tauto.
  - intros i2 Hc2. left. destruct Hca' as [Hc|Hc]; rewrite Hc in Hc2; [|discriminate]. congruence.
  - intros i2 Hd. unfold nth_f in *. destruct (Nat.eq_dec (i2 - 1) (i - 1)) as [Ej|Ej].
    + rewrite Ej in *. now apply Hmono.
    + rewrite Hoth by exact Ej. exact Hd.
Qed.

(* ---- kind G ---- *)
Lemma xinv_wget : forall c n x j w it rest qu,
  XInv c n x -> nth_error (ws (base x)) j = Some w -> wp w = WGet ->
  qitems (nth (wq w) (queues (base x)) dq) = it :: rest ->
  XInv c n (mkX (mkS (upd (queues (base x)) (wq w) (mkQ rest qu)) (futs (base x)) (subm (base x)) (main (base x))
                     (ops (base x)) (closed (base x))
                     (upd (ws (base x)) j (mkW (wq w) (wproc w) (match it with Task i => WSrnc i | Shut b => WSPoll b end)))
                     (ps (base x)) (outs (base x)))
                (disp x) (active x) (launched x)).
Proof.
  intros c n x j w it rest qu H Hj Hpc Hq0.
  assert (Hsw : spawnedb w = true) by (unfold spawnedb; rewrite Hpc; reflexivity).
  assert (Hsw' : spawnedb (mkW (wq w) (wproc w) (match it with Task i => WSrnc i | Shut b => WSPoll b end)) = true)
    by (destruct it; reflexivity).
  apply (xinv_wmaster c n x j w); try assumption.
  - apply upd_length.
  - apply (X_len _ _ _ H).
  - reflexivity.
  - rewrite Hsw'. cbn [wproc]. pose proof (X_ow1 _ _ _ H j w Hj) as Ho. now rewrite Hsw in Ho.
  - lia.
  - rewrite Hsw, Hsw'. lia.
  - left. reflexivity.
  - intros k _ _. reflexivity.
  - pose proof (X_chan _ _ _ H j w Hj) as Hc. unfold chanS, chan_ok, chan2 in *. rewrite Hpc in Hc.
    cbn [wproc wp]. destruct it; exact Hc.
  - intros i. pose proof (count_qpop (taskb i) _ _ _ _ qu Hq0) as Hc.
    unfold callsb, w_call. rewrite Hpc. cbn [wp]. destruct it; simpl in *; lia.
  - intros i Hi _. unfold runsb, w_run. rewrite Hpc. cbn [wp]. destruct it; simpl; lia.
  - intros q i Hin.
    destruct (nth_upd_cases _ (queues (base x)) q (wq w) (mkQ rest qu) dq) as [(E & L & Hx)|(E & Hx)];
      rewrite Hx in Hin.
    + subst q. rewrite Hq0. right. exact Hin.
    + exact Hin.
  - intros i Hc. right. rewrite Hq0. unfold w_call in Hc. cbn [wp] in Hc.
    destruct it; inversion Hc; subst. now left.
  - tauto.
Qed.

(* ---- kind S ---- *)
Lemma xinv_wspawn : forall c n x j w,
  XInv c n x -> nth_error (ws (base x)) j = Some w -> wp w = WSpawn ->
  XInv c n (mkX (mkS (queues (base x)) (futs (base x)) (subm (base x)) (main (base x)) (ops (base x)) (closed (base x))
                     (upd (ws (base x)) j (mkW (wq w) (S (length (ps (base x)))) WGet))
                     (ps (base x) ++ [mkP PBegin [] []]) (outs (base x)))
                (disp x) (active x) (launched x)).
Proof.
  intros c n x j w H Hj Hpc.
  assert (Hsw : spawnedb w = false) by (unfold spawnedb; rewrite Hpc; reflexivity).
  apply (xinv_wmaster c n x j w); try assumption.
  - reflexivity.
  - apply (X_len _ _ _ H).
  - reflexivity.
  - simpl. rewrite app_length. simpl. lia.
  - rewrite app_length. lia.
  - rewrite Hsw, app_length. simpl. lia.
  - right. reflexivity.
  - intros k L _. now apply app_nth1.
  - cbn [wproc]. rewrite app_nth2 by lia. replace (S (length (ps (base x))) - 1 - length (ps (base x))) with 0 by lia. reflexivity.
  - intros i. unfold callsb, w_call. rewrite Hpc. simpl. lia.
  - intros i Hi _. unfold runsb, w_run. rewrite Hpc. cbn [wp]. lia.
  - tauto.
  - intros i Hc. discriminate Hc.
  - tauto.
Qed.

Ltac xwnorm := unfold set_base; wnorm; unfold getq.

Ltac xchan_case Hc Hpc :=
  unfold chanS, chan_ok, chan2, getp in *; rewrite Hpc in Hc; cbn [wp wproc];
  try reflexivity;
  match goal with
  | |- context [nth ?k (ps ?s) ?d] =>
      let p := fresh "p" in
      let pc := fresh "pc" in let ib := fresh "ib" in let ob := fresh "ob" in
      set (p := nth k (ps s) d) in *; clearbody p; destruct p as [pc ib ob];
      unfold serving, quiet, msgs_eqb, p_idle, palive, reply_of in *; cbn [pp inbox outbox] in *;
      destruct pc; destruct ib as [|? [|? ?]]; destruct ob as [|? [|? ?]]; chan_solve
  end.

Ltac xwpc_case H Hj Hpc Hc :=
  xwnorm;
  eapply (xinv_wpc _ _ _ _ _ _ _ _ H Hj);
  [ unfold spawnedb; rewrite Hpc; reflexivity
  | unfold w_call; rewrite Hpc; reflexivity
  | unfold w_run; rewrite Hpc; reflexivity
  | first [reflexivity | apply upd_length]
  | first [reflexivity | apply allq_qtd]
  | intros; first [reflexivity | apply qtd_items]
  | reflexivity
  | intros; reflexivity
  | xchan_case Hc Hpc ].

Ltac xwps_case H Hj Hpc Hc :=
  let Ho := fresh "Ho" in
  pose proof (X_ow1 _ _ _ H _ _ Hj) as Ho; unfold spawnedb in Ho; rewrite Hpc in Ho;
  xwnorm;
  eapply (xinv_wpc _ _ _ _ _ _ _ _ H Hj);
  [ unfold spawnedb; rewrite Hpc; reflexivity
  | unfold w_call; rewrite Hpc; reflexivity
  | unfold w_run; rewrite Hpc; reflexivity
  | reflexivity
  | reflexivity
  | intros; reflexivity
  | apply upd_length
  | let k := fresh "k" in let L := fresh "L" in let Hk := fresh "Hk" in let Ek := fresh "Ek" in
    intros k L Hk; apply nth_upd_other; intro Ek; apply Hk; [unfold spawnedb; rewrite Hpc; reflexivity|lia]
  | rewrite nth_upd_same by lia; xchan_case Hc Hpc ].

Lemma xw_step_inv : forall c n x j b l, XInv c n x -> w_step (bcfg c) (base x) j = Some (b, l) ->
  XInv c n (set_base x b).
Proof.
  intros c n x j s' l H Hst. unfold w_step in Hst.
  destruct (nth_error (ws (base x)) j) as [w|] eqn:Hj; [|discriminate].
  pose proof (X_chan _ _ _ H j w Hj) as Hc.
  cbv zeta in Hst. unfold wpc_to in Hst.
  destruct (wp w) eqn:Hpc.
  - (* WBegin *) inversion Hst; subst; clear Hst. xwpc_case H Hj Hpc Hc.
  - (* WSpawn *) inversion Hst; subst; clear Hst. xwnorm.
    exact (xinv_wspawn c n x j w H Hj Hpc).
  - (* WGet *)
    destruct (qitems (getq (base x) (wq w))) as [|it rest] eqn:Hq0; [discriminate|].
    destruct it as [i|b]; inversion Hst; subst; clear Hst; xwnorm; unfold getq in Hq0; rewrite Hq0; cbn [tl].
    + exact (xinv_wget c n x j w (Task i) rest _ H Hj Hpc Hq0).
    + exact (xinv_wget c n x j w (Shut b) rest _ H Hj Hpc Hq0).
  - (* WSrnc *)
    assert (Hca : w_call w = Some i) by (unfold w_call; rewrite Hpc; reflexivity).
    pose proof (xcall_range c n x j w i H Hj Hca) as Hi.
    pose proof (X_len _ _ _ H) as Hlen.
    pose proof (xsrnc_not_running c n x j w i H Hj Hpc) as Hnr.
    destruct (getf (base x) i) eqn:Hf; inversion Hst; subst; clear Hst; xwnorm.
    + (* pending -> running *)
      eapply (xinv_wfut _ _ _ _ _ _ i _ _ H Hj Hca).
      * apply upd_length.
      * intros i2 E. apply nth_upd_other. lia.
      * reflexivity.
      * left. reflexivity.
      * rewrite Hf. discriminate.
      * intros _. rewrite Hf, nth_upd_same by lia. unfold runsb, w_run. rewrite Hpc. simpl. rewrite Nat.eqb_refl. reflexivity.
      * reflexivity.
      * reflexivity.
      * intros; reflexivity.
      * xchan_case Hc Hpc.
    + (* running: impossible *) congruence.
    + (* cancelled -> notified *)
      eapply (xinv_wfut _ _ _ _ _ _ i _ _ H Hj Hca).
      * apply upd_length.
      * intros i2 E. apply nth_upd_other. lia.
      * reflexivity.
      * right. reflexivity.
      * intros _. rewrite nth_upd_same by lia. reflexivity.
      * intros _. rewrite Hf, nth_upd_same by lia. unfold runsb, w_run. rewrite Hpc. reflexivity.
      * reflexivity.
      * reflexivity.
      * intros; reflexivity.
      * xchan_case Hc Hpc.
    + eapply (xinv_wfut _ _ _ _ _ _ i (futs (base x)) _ H Hj Hca);
        change (nth (i - 1) (futs (base x)) FPending) with (getf (base x) i); rewrite ?Hf;
        [reflexivity|reflexivity|reflexivity|right; reflexivity|reflexivity
        |intros _; unfold runsb, w_run; rewrite Hpc; reflexivity
        |reflexivity|reflexivity|intros; reflexivity|xchan_case Hc Hpc].
    + eapply (xinv_wfut _ _ _ _ _ _ i (futs (base x)) _ H Hj Hca);
        change (nth (i - 1) (futs (base x)) FPending) with (getf (base x) i); rewrite ?Hf;
        [reflexivity|reflexivity|reflexivity|right; reflexivity|reflexivity
        |intros _; unfold runsb, w_run; rewrite Hpc; reflexivity
        |reflexivity|reflexivity|intros; reflexivity|xchan_case Hc Hpc].
    + eapply (xinv_wfut _ _ _ _ _ _ i (futs (base x)) _ H Hj Hca);
        change (nth (i - 1) (futs (base x)) FPending) with (getf (base x) i); rewrite ?Hf;
        [reflexivity|reflexivity|reflexivity|right; reflexivity|reflexivity
        |intros _; unfold runsb, w_run; rewrite Hpc; reflexivity
        |reflexivity|reflexivity|intros; reflexivity|xchan_case Hc Hpc].
  - (* WCancTd *) inversion Hst; subst; clear Hst. xwpc_case H Hj Hpc Hc.
  - (* WSend *) inversion Hst; subst; clear Hst. xwps_case H Hj Hpc Hc.
  - (* WRecv *)
    destruct (outbox (getp (base x) (wproc w))) as [|m ob'] eqn:Hob; [discriminate|].
    assert (Hsv : serving (getp (base x) (wproc w)) (MCall i) (reply_of (bcfg c) i) = true).
    { unfold chanS, chan_ok in Hc. rewrite Hpc in Hc. apply andb_true_iff in Hc. tauto. }
    destruct (serving_out _ _ _ _ _ Hsv Hob) as (Em & Eo & Ei & Eidle).
    destruct m; inversion Hst; subst; clear Hst;
      try (exfalso; unfold reply_of in Em; destruct (raises (bcfg c) i); discriminate Em).
    + (* MRes *) xwps_case H Hj Hpc Hc.
    + (* MErr *) xwps_case H Hj Hpc Hc.
  - (* WSetRes *)
    assert (Hca : w_call w = Some i) by (unfold w_call; rewrite Hpc; reflexivity).
    assert (Hru : w_run w = Some i) by (unfold w_run; rewrite Hpc; reflexivity).
    pose proof (xcall_range c n x j w i H Hj Hca) as Hi.
    pose proof (X_len _ _ _ H) as Hlen.
    pose proof (xrun_is_running c n x j w i H Hj Hru) as Hf.
    rewrite Hf in Hst. inversion Hst; subst; clear Hst; xwnorm.
    eapply (xinv_wfut _ _ _ _ _ _ i _ _ H Hj Hca).
    + apply upd_length.
    + intros i2 E. apply nth_upd_other. lia.
    + reflexivity.
    + right. reflexivity.
    + intros _. rewrite nth_upd_same by lia. reflexivity.
    + intros _. rewrite Hf, nth_upd_same by lia. unfold runsb, w_run. rewrite Hpc. simpl. rewrite Nat.eqb_refl. reflexivity.
    + first [reflexivity | apply upd_length].
    + first [reflexivity | apply allq_qtd].
    + intros; first [reflexivity | apply qtd_items].
    + xchan_case Hc Hpc.
  - (* WTd *) inversion Hst; subst; clear Hst. xwpc_case H Hj Hpc Hc.
  - (* WEPoll *) destruct (palive (getp (base x) (wproc w))) eqn:Hal; inversion Hst; subst; clear Hst; xwpc_case H Hj Hpc Hc.
  - (* WESend *) inversion Hst; subst; clear Hst. xwps_case H Hj Hpc Hc.
  - (* WERecv *)
    destruct (outbox (getp (base x) (wproc w))) as [|m ob'] eqn:Hob; [discriminate|].
    inversion Hst; subst; clear Hst. xwps_case H Hj Hpc Hc.
  - (* WEComm *) destruct (palive (getp (base x) (wproc w))) eqn:Hal; [discriminate|]. inversion Hst; subst; clear Hst; xwpc_case H Hj Hpc Hc.
  - (* WETerm *) inversion Hst; subst; clear Hst. xwpc_case H Hj Hpc Hc.
  - (* WEWait *) destruct (palive (getp (base x) (wproc w))) eqn:Hal; [discriminate|]. inversion Hst; subst; clear Hst; xwpc_case H Hj Hpc Hc.
  - (* WETd *) inversion Hst; subst; clear Hst. xwpc_case H Hj Hpc Hc.
  - (* WESetExc *)
    assert (Hca : w_call w = Some i) by (unfold w_call; rewrite Hpc; reflexivity).
    assert (Hru : w_run w = Some i) by (unfold w_run; rewrite Hpc; reflexivity).
    pose proof (xcall_range c n x j w i H Hj Hca) as Hi.
    pose proof (X_len _ _ _ H) as Hlen.
    pose proof (xrun_is_running c n x j w i H Hj Hru) as Hf.
    rewrite Hf in Hst. inversion Hst; subst; clear Hst; xwnorm.
    eapply (xinv_wfut _ _ _ _ _ _ i _ _ H Hj Hca).
    + apply upd_length.
    + intros i2 E. apply nth_upd_other. lia.
    + reflexivity.
    + right. reflexivity.
    + intros _. rewrite nth_upd_same by lia. reflexivity.
    + intros _. rewrite Hf, nth_upd_same by lia. unfold runsb, w_run. rewrite Hpc. simpl. rewrite Nat.eqb_refl. reflexivity.
    + reflexivity.
    + reflexivity.
    + intros; reflexivity.
    + xchan_case Hc Hpc.
  - (* WSPoll *) destruct (palive (getp (base x) (wproc w))) eqn:Hal; inversion Hst; subst; clear Hst; xwpc_case H Hj Hpc Hc.
  - (* WSSend *) inversion Hst; subst; clear Hst. xwps_case H Hj Hpc Hc.
  - (* WSRecv *)
    destruct (outbox (getp (base x) (wproc w))) as [|m ob'] eqn:Hob; [discriminate|].
    inversion Hst; subst; clear Hst. xwps_case H Hj Hpc Hc.
  - (* WSComm *) destruct (palive (getp (base x) (wproc w))) eqn:Hal; [discriminate|]. inversion Hst; subst; clear Hst; xwpc_case H Hj Hpc Hc.
  - (* WSTerm *) inversion Hst; subst; clear Hst. destruct w0; xwpc_case H Hj Hpc Hc.
  - (* WSWait *) destruct (palive (getp (base x) (wproc w))) eqn:Hal; [discriminate|]. inversion Hst; subst; clear Hst; xwpc_case H Hj Hpc Hc.
  - (* WSTd *) inversion Hst; subst; clear Hst. xwpc_case H Hj Hpc Hc.
  - (* WSQJoin *) destruct (Nat.eqb (qunf (getq (base x) (wq w))) 0); [|discriminate]. inversion Hst; subst; clear Hst; xwpc_case H Hj Hpc Hc.
  - discriminate.
  - discriminate.
Qed.

(* ------------------------------------------------------------------ *)

(* queues, client pc and dispatcher pc change; threads, processes, futures stay *)
Lemma xinv_qmd : forall c n x qs' m' d' l',
  XInv c n x ->
  length qs' = S (length (ws (base x))) + prep d' ->
  (forall i0, In (Task i0) (qitems (nth (length qs' - 1) qs' dq)) -> prep d' = 1 -> dcall d' = Some i0) ->
  (started m' \/ d' = DNone) ->
  (forall i, gcf qs' (ws (base x)) m' d' i <= gcf (queues (base x)) (ws (base x)) (main (base x)) (disp x) i) ->
  Kinv qs' (ws (base x)) (futs (base x)) (active x) d' ->
  (forall i, d' = DStart i -> must_wait c (active x) i = false) ->
  (forall i0 todo kept, d' = DScan i0 todo kept -> sub_of (kept ++ todo) (active x)) ->
  XInv c n (mkX (mkS qs' (futs (base x)) (subm (base x)) m' (ops (base x)) (closed (base x))
                     (ws (base x)) (ps (base x)) (outs (base x))) d' (active x) l').
Proof.
  intros c n x qs' m' d' l' H Hlq' Hpq' Hdn' Hg HK' Hst' Hsc'.
  xinv_split H.
  - intros i. specialize (Hg i). specialize (Hw1 i). lia.
  - intros i Hi. apply Hw3. specialize (Hg i). lia.
Qed.

Lemma Kinv_noscan0 : forall qs wl fs act d d',
  Kinv qs wl fs act d -> (forall i0 todo kept, d' <> DScan i0 todo kept) -> Kinv qs wl fs act d'.
Proof.
  intros qs wl fs act d d' HK Hn i Hi Hd. destruct (HK i Hi Hd) as [H1 _]. split; [exact H1|].
  intros i0 todo kept E. exfalso. eapply Hn; eauto.
Qed.

Lemma xinv_control : forall c n x x',
  XInv c n x ->
  queues (base x') = queues (base x) -> futs (base x') = futs (base x) -> subm (base x') = subm (base x) ->
  ws (base x') = ws (base x) -> ps (base x') = ps (base x) ->
  (disp x' = disp x \/ (disp x = DNone /\ disp x' = DBegin)) -> active x' = active x ->
  (started (main (base x')) \/ disp x' = DNone) ->
  (forall i, mdc (main (base x')) i = mdc (main (base x)) i) ->
  (exists pre, submits (ops (base x)) = pre ++ submits (ops (base x'))) -> XInv c n x'.
Proof.
  intros c n x x' H Eq Ef Es Ew Ep Ed Ea Hdn' Hm [pre Hpre].
  destruct H as [Hlen Hwq Hlq Hpq Hdn Ho1 Ho2 Ho3 Ho4 Hch Hw1 Hw3 Hrun Hs1 Hs2 HK HK3 Hcap Hstart Hscan].
  assert (Epr : prep (disp x') = prep (disp x)) by (destruct Ed as [Ed|[Ed1 Ed2]]; [now rewrite Ed|now rewrite Ed1, Ed2]).
  assert (Edh : forall i, dhold (disp x') i = dhold (disp x) i)
    by (intros i; destruct Ed as [Ed|[Ed1 Ed2]]; [now rewrite Ed|now rewrite Ed1, Ed2]).
  constructor; rewrite ?Eq, ?Ef, ?Es, ?Ew, ?Ep, ?Ea, ?Epr; try assumption.
  - intros i0 Hin Hpr. destruct Ed as [Ed|[Ed1 Ed2]]; [rewrite Ed; now apply Hpq|].
    rewrite Ed1 in Hpr. discriminate.
  - intros i. unfold gcf in *. rewrite Hm, Edh. apply Hw1.
  - intros i. unfold gcf in *. rewrite Hm, Edh. apply Hw3.
  - rewrite Hpre in Hs1. eapply NoDup_app_drop_mid; eauto.
  - intros i Hi. apply Hs2. rewrite Hpre. apply in_app_or in Hi. apply in_or_app.
    destruct Hi as [Hi|Hi]; [now left|right]. apply in_or_app. now right.
  - destruct Ed as [Ed|[Ed1 Ed2]]; [now rewrite Ed|].
    eapply Kinv_noscan0; [exact HK|]. rewrite Ed2. intros; discriminate.
  - destruct Ed as [Ed|[Ed1 Ed2]]; [now rewrite Ed|]. rewrite Ed2. intros i E. discriminate.
  - destruct Ed as [Ed|[Ed1 Ed2]]; [now rewrite Ed|]. rewrite Ed2. intros i0 todo kept E. discriminate.
Qed.

(* ---- lh / Kinv helpers ---- *)
Lemma lh_upd_other : forall qs wl q new i,
  (forall j w, nth_error wl j = Some w -> wq w <> q) -> lh (upd qs q new) wl i -> lh qs wl i.
Proof.
  intros qs wl q new i Hne (j & w & Hj & Hc). exists j, w. split; [exact Hj|].
  destruct Hc as [Hc|Hc]; [now left|right].
  rewrite nth_upd_other in Hc; [exact Hc|]. intro E. apply (Hne j w Hj). now symmetry.
Qed.

Lemma lh_snoc : forall qs wl e i,
  (forall j w, nth_error wl j = Some w -> wq w < length qs) -> lh (qs ++ [e]) wl i -> lh qs wl i.
Proof.
  intros qs wl e i Hlt (j & w & Hj & Hc). exists j, w. split; [exact Hj|].
  destruct Hc as [Hc|Hc]; [now left|right].
  rewrite app_nth1 in Hc; [exact Hc|]. eapply Hlt; eauto.
Qed.

Lemma Kinv_noscan : forall qs wl fs act d d',
  Kinv qs wl fs act d -> (forall i0 todo kept, d' <> DScan i0 todo kept) -> Kinv qs wl fs act d'.
Proof.
  intros qs wl fs act d d' HK Hn i Hi Hd. destruct (HK i Hi Hd) as [H1 _]. split; [exact H1|].
  intros i0 todo kept E. exfalso. eapply Hn; eauto.
Qed.

Lemma Kinv_scan_start : forall qs wl fs act d i0,
  Kinv qs wl fs act d -> Kinv qs wl fs act (DScan i0 act []).
Proof.
  intros qs wl fs act d i0 HK i Hi Hd. destruct (HK i Hi Hd) as [H1 _]. split; [exact H1|].
  intros i1 todo kept E. inversion E; subst. exact H1.
Qed.

Lemma Kinv_scan_step : forall qs wl fs act i0 f sl rest kept,
  Kinv qs wl fs act (DScan i0 ((f, sl) :: rest) kept) ->
  Kinv qs wl fs act (DScan i0 rest (if fdone (nth_f fs f) then kept else kept ++ [(f, sl)])).
Proof.
  intros qs wl fs act i0 f sl rest kept HK i Hi Hd. destruct (HK i Hi Hd) as [H1 H2]. split; [exact H1|].
  intros i1 todo kept' E. inversion E; subst. specialize (H2 _ _ _ eq_refl).
  rewrite map_app in *. apply in_app_or in H2. apply in_or_app. simpl in H2.
  destruct H2 as [H2|[H2|H2]].
  - left. destruct (fdone (nth_f fs f)); [exact H2|]. rewrite map_app. apply in_or_app. now left.
  - subst f. rewrite Hd. left. rewrite map_app. apply in_or_app. right. now left.
  - now right.
Qed.

Lemma wq_facts : forall c n x j w, XInv c n x -> nth_error (ws (base x)) j = Some w ->
  wq w <> 0 /\ wq w < length (queues (base x)) /\ (prep (disp x) = 1 -> wq w <> length (queues (base x)) - 1).
Proof.
  intros c n x j w H Hj. pose proof (X_wq _ _ _ H j w Hj) as E. pose proof (X_lq _ _ _ H) as L.
  assert (j < length (ws (base x))) by (apply nth_error_Some; congruence). lia.
Qed.

Lemma Kinv_upd_q : forall c n x q new d',
  XInv c n x -> (q = 0 \/ (prep (disp x) = 1 /\ q = length (queues (base x)) - 1)) ->
  Kinv (queues (base x)) (ws (base x)) (futs (base x)) (active x) d' ->
  Kinv (upd (queues (base x)) q new) (ws (base x)) (futs (base x)) (active x) d'.
Proof.
  intros c n x q new d' H Hq HK. eapply Kinv_mono; [exact HK| |tauto].
  intros i. apply lh_upd_other. intros j w Hj. destruct (wq_facts c n x j w H Hj) as (F1 & F2 & F3).
  destruct Hq as [Hq|[Hp Hq]]; subst q; auto.
Qed.

Lemma q0_range : forall c n x, XInv c n x -> 0 < length (queues (base x)).
Proof. intros c n x H. pose proof (X_lq _ _ _ H). lia. Qed.

Lemma pq_upd0 : forall c n x new, XInv c n x ->
  forall i0, In (Task i0) (qitems (nth (length (upd (queues (base x)) 0 new) - 1) (upd (queues (base x)) 0 new) dq)) ->
  prep (disp x) = 1 -> dcall (disp x) = Some i0.
Proof.
  intros c n x new H i0 Hin Hpr. pose proof (X_lq _ _ _ H) as L. rewrite upd_length in Hin.
  rewrite nth_upd_other in Hin by lia. now apply (X_pq _ _ _ H).
Qed.

(* ================= the client ================= *)
Lemma xinv_putshut : forall c n x b u m',
  XInv c n x -> plain (main (base x)) -> plain m' ->
  XInv c n (mkX (mkS (upd (queues (base x)) 0 (mkQ (qitems (nth 0 (queues (base x)) dq) ++ [Shut b]) u))
                     (futs (base x)) (subm (base x)) m' (ops (base x)) (closed (base x))
                     (ws (base x)) (ps (base x)) (outs (base x))) (disp x) (active x) (launched x)).
Proof.
  intros c n x b u m' H Hp Hp'. apply xinv_qmd; try assumption.
  - rewrite upd_length. apply (X_lq _ _ _ H).
  - eapply pq_upd0; eauto.
  - left. now apply plain_started.
  - intros i. unfold gcf. rewrite count_qput by (eapply q0_range; eauto). rewrite !plain_mdc by assumption. simpl. lia.
  - eapply Kinv_upd_q; eauto. apply (X_K _ _ _ H).
  - apply (X_start _ _ _ H).
  - apply (X_scan _ _ _ H).
Qed.

Lemma xinv_drainpop : forall c n x w it rest u,
  XInv c n x -> plain (main (base x)) -> qitems (nth 0 (queues (base x)) dq) = it :: rest ->
  XInv c n (mkX (mkS (upd (queues (base x)) 0 (mkQ rest u))
                     (futs (base x)) (subm (base x))
                     (match it with Task j => MDrainCancel w j | Shut _ => MDrain w end)
                     (ops (base x)) (closed (base x))
                     (ws (base x)) (ps (base x)) (outs (base x))) (disp x) (active x) (launched x)).
Proof.
  intros c n x w it rest u H Hp Hq0. apply xinv_qmd; try assumption.
  - rewrite upd_length. apply (X_lq _ _ _ H).
  - eapply pq_upd0; eauto.
  - left. destruct it; exact I.
  - intros i. unfold gcf. pose proof (count_qpop (taskb i) _ _ _ _ u Hq0) as Hc.
    rewrite (plain_mdc _ _ Hp). destruct it as [j|b]; simpl in *; [destruct (Nat.eqb i j); simpl in *|]; lia.
  - eapply Kinv_upd_q; eauto. apply (X_K _ _ _ H).
  - apply (X_start _ _ _ H).
  - apply (X_scan _ _ _ H).
Qed.

Lemma xinv_draintd : forall c n x u m',
  XInv c n x -> plain (main (base x)) -> plain m' ->
  XInv c n (mkX (mkS (upd (queues (base x)) 0 (mkQ (qitems (nth 0 (queues (base x)) dq)) u))
                     (futs (base x)) (subm (base x)) m' (ops (base x)) (closed (base x))
                     (ws (base x)) (ps (base x)) (outs (base x))) (disp x) (active x) (launched x)).
Proof.
  intros c n x u m' H Hp Hp'. apply xinv_qmd; try assumption.
  - rewrite upd_length. apply (X_lq _ _ _ H).
  - eapply pq_upd0; eauto.
  - left. now apply plain_started.
  - intros i. unfold gcf. rewrite allq_qtd. rewrite !plain_mdc by assumption. lia.
  - eapply Kinv_upd_q; eauto. apply (X_K _ _ _ H).
  - apply (X_start _ _ _ H).
  - apply (X_scan _ _ _ H).
Qed.

Lemma xinv_futs : forall c n x fs' m',
  XInv c n x -> length fs' = length (futs (base x)) ->
  (forall i, isrun (nth_f fs' i) = isrun (nth_f (futs (base x)) i)) ->
  (forall i, fdone (nth_f (futs (base x)) i) = true -> fdone (nth_f fs' i) = true) ->
  (started m' \/ disp x = DNone) ->
  (forall i, mdc m' i <= mdc (main (base x)) i) ->
  XInv c n (mkX (mkS (queues (base x)) fs' (subm (base x)) m' (ops (base x)) (closed (base x))
                     (ws (base x)) (ps (base x)) (outs (base x))) (disp x) (active x) (launched x)).
Proof.
  intros c n x fs' m' H Hl Hr Hd Hdn' Hm.
  xinv_split H.
  - congruence.
  - intros i. unfold gcf in *. specialize (Hw1 i). specialize (Hm i). lia.
  - intros i Hi. apply Hw3. unfold gcf in *. specialize (Hm i). lia.
  - intros i Hi. rewrite Hr. now apply Hrun.
  - eapply Kinv_mono; [exact HK|tauto|exact Hd].
Qed.

Lemma xinv_cancel_futs : forall c n x i m',
  XInv c n x -> (started m' \/ disp x = DNone) -> (forall i0, mdc m' i0 <= mdc (main (base x)) i0) ->
  XInv c n (mkX (mkS (queues (base x)) (upd (futs (base x)) (i - 1) (fst (fcancel (nth (i - 1) (futs (base x)) FPending))))
                     (subm (base x)) m' (ops (base x)) (closed (base x))
                     (ws (base x)) (ps (base x)) (outs (base x))) (disp x) (active x) (launched x)).
Proof.
  intros c n x i m' H Hdn' Hm. apply xinv_futs; try assumption.
  - apply upd_length.
  - intros i0. unfold nth_f. destruct (cancel_nth (futs (base x)) i i0) as (C1 & C2 & C3 & C4). exact C1.
  - intros i0. unfold nth_f. destruct (cancel_nth (futs (base x)) i i0) as (C1 & C2 & C3 & C4). exact C2.
Qed.

Lemma xinv_submit : forall c n x i rest u,
  XInv c n x -> main (base x) = MOp -> ops (base x) = OSubmit i :: rest ->
  XInv c n (mkX (mkS (upd (queues (base x)) 0 (mkQ (qitems (nth 0 (queues (base x)) dq) ++ [Task i]) u))
                     (futs (base x)) (subm (base x) ++ [i]) MOp rest (closed (base x))
                     (ws (base x)) (ps (base x)) (outs (base x))) (disp x) (active x) (launched x)).
Proof.
  intros c n x i rest u H Hm Ho.
  pose proof (q0_range c n x H) as Hq0.
  pose proof (Kinv_upd_q c n x 0 (mkQ (qitems (nth 0 (queues (base x)) dq) ++ [Task i]) u) (disp x) H (or_introl eq_refl) (X_K _ _ _ H)) as HK'.
  xinv_split H.
  all: rewrite Ho in Hs1, Hs2; simpl in Hs1, Hs2.
  all: assert (Hni : ~ In i (subm (base x)))
    by (apply NoDup_remove_2 in Hs1; intro Hx; apply Hs1; apply in_or_app; now left).
  all: assert (Hz : gcf (queues (base x)) (ws (base x)) (main (base x)) (disp x) i = 0)
    by (destruct (Nat.eq_dec (gcf (queues (base x)) (ws (base x)) (main (base x)) (disp x) i) 0) as [E|E];
        [exact E|exfalso; apply Hni, Hw3; exact E]).
  all: rewrite Hm in *.
  - rewrite upd_length. exact Hlq.
  - intros i0 Hin Hpr. rewrite upd_length in Hin. rewrite nth_upd_other in Hin by lia. now apply Hpq.
  - left. exact I.
  - intros i0. unfold gcf in *. rewrite count_qput by exact Hq0. simpl. specialize (Hw1 i0).
    destruct (Nat.eqb i0 i) eqn:E; simpl; [apply Nat.eqb_eq in E; subst i0|]; lia.
  - intros i0 Hi. unfold gcf in *. rewrite count_qput in Hi by exact Hq0. simpl in Hi. apply in_or_app.
    destruct (Nat.eqb i0 i) eqn:E; simpl in Hi; [apply Nat.eqb_eq in E; subst i0; right; now left|].
    left. apply Hw3. lia.
  - rewrite <- app_assoc. exact Hs1.
  - intros i0 Hi. rewrite <- app_assoc in Hi. apply Hs2. exact Hi.
Qed.

Lemma xinv_goto : forall c n x l xo cl d',
  XInv c n x -> (forall i, mdc (main (base x)) i = 0) ->
  (exists pre, submits (ops (base x)) = pre ++ submits l) ->
  d' = disp x \/ (disp x = DNone /\ d' = DBegin) ->
  XInv c n (mkX (m_goto (base x) l xo cl) d' (active x) (launched x)).
Proof.
  intros c n x l xo cl d' H Hm [pre Hp] Hd.
  apply (xinv_control c n x); xfld; autorewrite with flds; try reflexivity; try assumption.
  - left. apply plain_started, m_goto_plain.
  - intros i. rewrite plain_mdc by apply m_goto_plain. now rewrite Hm.
  - destruct (suffix_submits _ _ (m_goto_ops (base x) l xo cl)) as [pre2 Hp2].
    exists (pre ++ pre2). rewrite Hp, Hp2. now rewrite app_assoc.
Qed.

Lemma xinv_done : forall c n x xo cl, XInv c n x -> plain (main (base x)) ->
  XInv c n (set_base x (m_done (base x) xo cl)).
Proof.
  intros c n x xo cl H Hp. unfold set_base, m_done.
  apply xinv_goto; [exact H|intros i; now apply plain_mdc|apply submits_tl|now left].
Qed.

Lemma xinv_setmain : forall c n x m', XInv c n x -> plain (main (base x)) -> plain m' ->
  XInv c n (set_base x (set_main (base x) m')).
Proof.
  intros c n x m' H Hp Hp'.
  apply (xinv_control c n x); try reflexivity; try assumption.
  - now left.
  - left. simpl. now apply plain_started.
  - intros i. simpl. now rewrite !plain_mdc.
  - exists []. reflexivity.
Qed.

Lemma set_base_base : forall x, set_base x (base x) = x.
Proof. intros [b d a l]. reflexivity. Qed.

Lemma xinv_xnorm : forall c n x, XInv c n x -> plain (main (base x)) -> XInv c n (xm_norm x).
Proof.
  intros c n x H Hp. unfold xm_norm.
  destruct (main (base x)) as [| | | | | |w k|k| |] eqn:E; try exact H.
  - destruct k; [|exact H]. destruct (cur_wait (base x)).
    + apply xinv_setmain; [exact H|rewrite E; exact I|exact I].
    + apply xinv_done; [exact H|rewrite E; exact I].
  - destruct k; [exact H|]. apply xinv_setmain; [exact H|rewrite E; exact I|exact I].
Qed.

Lemma xdrain_inv : forall c n x w b l,
  XInv c n x -> plain (main (base x)) -> drain_step (base x) w = Some (b, l) -> XInv c n (set_base x b).
Proof.
  intros c n x w b l H Hp Hd. unfold drain_step in Hd.
  destruct (qitems (getq (base x) 0)) as [|it rest] eqn:E; [discriminate|].
  destruct it as [j|b0]; inversion Hd; subst; clear Hd;
    unfold set_base, qpop, set_queues, set_main; fld; rewrite E; cbn [tl]; unfold getq in *.
  - exact (xinv_drainpop c n x w (Task j) rest _ H Hp E).
  - exact (xinv_drainpop c n x w (Shut b0) rest _ H Hp E).
Qed.

Lemma xputshut_inv : forall c n x b m',
  XInv c n x -> plain (main (base x)) -> plain m' ->
  XInv c n (xm_norm (set_base x (set_main (qput (base x) 0 (Shut b)) m'))).
Proof.
  intros c n x b m' H Hp Hp'. apply xinv_xnorm; [|exact Hp'].
  exact (xinv_putshut c n x b _ m' H Hp Hp').
Qed.

Lemma xm_step_inv : forall c n x x' l, XInv c n x -> xm_step c x = Some (x', l) -> XInv c n x'.
Proof.
  intros c n x x' l H Hst. unfold xm_step in Hst. cbv zeta in Hst.
  destruct (main (base x)) as [|k| |w|w j|w|w k|k| |] eqn:Hm.
  - (* MBegin *) inversion Hst; subst; clear Hst.
    apply (xinv_control c n x); try reflexivity; try assumption.
    + now left.
    + xfld. destruct (X_dn _ _ _ H) as [Hd|Hd]; [rewrite Hm in Hd; destruct Hd|now right].
    + intros i. simpl. rewrite Hm. reflexivity.
    + exists []. reflexivity.
  - (* MStart *) inversion Hst; subst; clear Hst.
    apply xinv_goto; [exact H|intros i; rewrite Hm; reflexivity| |].
    + exists []. rewrite submits_app. simpl. now rewrite app_nil_r.
    + right. split; [|reflexivity]. destruct (X_dn _ _ _ H) as [Hd|Hd]; [rewrite Hm in Hd; destruct Hd|exact Hd].
  - (* MOp *)
    assert (Hp : plain (main (base x))) by (rewrite Hm; exact I).
    destruct (ops (base x)) as [|o rest] eqn:Ho; [discriminate|].
    destruct o as [i|i|i|w cc| |].
    + (* submit *)
      inversion Hst; subst; clear Hst.
      pose proof (xinv_submit c n x i rest (S (qunf (getq (base x) 0))) H Hm Ho) as H1.
      unfold set_base, m_done, qput, set_queues. fld. rewrite Ho. cbn [tl].
      refine (xinv_goto c n _ rest [XOk] (closed (base x)) _ H1 _ _ _).
      * intros i0. reflexivity.
      * exists []. reflexivity.
      * now left.
    + (* cancel *)
      destruct (fcancel (getf (base x) i)) as [f b] eqn:Ef. inversion Hst; subst; clear Hst.
      replace f with (fst (fcancel (getf (base x) i))) by (rewrite Ef; reflexivity).
      assert (H1 : XInv c n (set_base x (set_futs (base x) (setf (base x) i (fst (fcancel (getf (base x) i))))))).
      { unfold set_base, set_futs, setf, getf.
        apply (xinv_cancel_futs c n x i (main (base x)) H); [left; now apply plain_started|intros; lia]. }
      exact (xinv_done c n _ _ _ H1 Hp).
    + (* result *)
      destruct (fdone (getf (base x) i)); inversion Hst; subst; clear Hst.
      apply xinv_done; assumption.
    + (* shutdown *)
      destruct cc.
      * destruct (drain_step (base x) w) as [[b0 l0]|] eqn:Ed.
        -- inversion Hst; subst; clear Hst. eapply xdrain_inv; eauto.
        -- inversion Hst; subst; clear Hst. apply xinv_xnorm; [|exact I]. apply xinv_setmain; [exact H|exact Hp|exact I].
      * inversion Hst; subst; clear Hst. apply xputshut_inv; [exact H|exact Hp|exact I].
    + (* drop *) inversion Hst; subst; clear Hst. apply xputshut_inv; [exact H|exact Hp|exact I].
    + (* exit *) inversion Hst; subst; clear Hst. apply xputshut_inv; [exact H|exact Hp|exact I].
  - (* MDrain *)
    assert (Hp : plain (main (base x))) by (rewrite Hm; exact I).
    destruct (drain_step (base x) w) as [[b0 l0]|] eqn:Ed.
    + inversion Hst; subst; clear Hst. eapply xdrain_inv; eauto.
    + inversion Hst; subst; clear Hst. apply xinv_xnorm; [|exact I]. apply xinv_setmain; [exact H|exact Hp|exact I].
  - (* MDrainCancel *)
    destruct (fcancel (getf (base x) j)) as [f b] eqn:Ef. inversion Hst; subst; clear Hst.
    replace f with (fst (fcancel (getf (base x) j))) by (rewrite Ef; reflexivity).
    unfold set_base, set_main, set_futs, setf, getf. fld.
    apply (xinv_cancel_futs c n x j (MDrainTd w) H); [left; exact I|intros; simpl; lia].
  - (* MDrainTd *)
    inversion Hst; subst; clear Hst.
    unfold set_base, set_main, qtd, set_queues, getq. fld.
    refine (xinv_draintd c n x _ (MDrain w) H _ I). rewrite Hm. exact I.
  - (* MPutShut *)
    assert (Hp : plain (main (base x))) by (rewrite Hm; exact I).
    destruct k as [|k']; [discriminate|].
    inversion Hst; subst; clear Hst. apply xputshut_inv; [exact H|exact Hp|exact I].
  - (* MJoin *)
    assert (Hp : plain (main (base x))) by (rewrite Hm; exact I).
    destruct (ddone (disp x)); [|discriminate].
    destruct (disp x); inversion Hst; subst; clear Hst;
      first [apply xinv_done; assumption | apply xinv_setmain; [exact H|exact Hp|exact I]].
  - (* MQJoin *)
    assert (Hp : plain (main (base x))) by (rewrite Hm; exact I).
    destruct (Nat.eqb (qunf (getq (base x) 0)) 0); [|discriminate].
    inversion Hst; subst; clear Hst. apply xinv_done; assumption.
  - discriminate.
Qed.

(* ------------------------------------------------------------------ *)

Lemma sum_slots_app : forall a b, sum_slots (a ++ b) = sum_slots a + sum_slots b.
Proof. induction a as [|e a IH]; intros b; simpl; [reflexivity|]. rewrite IH. lia. Qed.

Lemma sub_of_refl : forall l, sub_of l l.
Proof. intros l. unfold sub_of. repeat split; auto. Qed.

Lemma sub_of_step : forall kept e rest act (d : bool),
  sub_of (kept ++ e :: rest) act -> sub_of ((if d then kept else kept ++ [e]) ++ rest) act.
Proof.
  intros kept e rest act d H. destruct d.
  - destruct H as (H1 & H2 & H3). rewrite sum_slots_app, app_length in *. simpl in *.
    unfold sub_of. rewrite sum_slots_app, app_length. repeat split; try lia.
    intros e0 Hi. apply H3. apply in_app_or in Hi. apply in_or_app.
    destruct Hi as [Hi|Hi]; [now left|right; now right].
  - rewrite <- app_assoc. exact H.
Qed.

Lemma cap_sub : forall c l act, cap c act -> sub_of l act -> cap c l.
Proof.
  intros c l act Hc (H1 & H2 & _). unfold cap in *.
  destruct (xmax_cores c); [lia|]. destruct (xmax_workers c); [lia|exact I].
Qed.

Lemma cap_start : forall c act i, cap c act -> must_wait c act i = false -> cap c (act ++ [(i, xslots c i)]).
Proof.
  intros c act i Hc Hm. unfold cap, must_wait in *.
  destruct (xmax_cores c).
  - apply Nat.ltb_ge in Hm. rewrite sum_slots_app. simpl. lia.
  - destruct (xmax_workers c); [|exact I]. apply Nat.ltb_ge in Hm. rewrite app_length. simpl. lia.
Qed.

Definition K1 (qs : list queue) (wl : list wthread) (fs : list fstate) (act : list (nat * nat)) : Prop :=
  forall i, lh qs wl i -> fdone (nth_f fs i) = false -> In i (map fst act).

Lemma Kinv_K1 : forall qs wl fs act d, Kinv qs wl fs act d -> K1 qs wl fs act.
Proof. intros qs wl fs act d HK i Hi Hd. now destruct (HK i Hi Hd). Qed.

Lemma K1_Kinv_noscan : forall qs wl fs act d,
  K1 qs wl fs act -> (forall i0 todo kept, d <> DScan i0 todo kept) -> Kinv qs wl fs act d.
Proof.
  intros qs wl fs act d HK Hn i Hi Hd. split; [now apply HK|].
  intros i0 todo kept E. exfalso. eapply Hn; eauto.
Qed.

Lemma K1_Kinv_start : forall qs wl fs act i0, K1 qs wl fs act -> Kinv qs wl fs act (DScan i0 act []).
Proof.
  intros qs wl fs act i0 HK i Hi Hd. split; [now apply HK|].
  intros i1 todo kept E. inversion E; subst. now apply HK.
Qed.

(* dispatcher pc and the active table change; the base state stays *)
Lemma xinv_act : forall c n x d' act' l',
  XInv c n x -> prep d' = prep (disp x) ->
  (prep d' = 1 -> dcall d' = dcall (disp x)) ->
  (started (main (base x)) \/ d' = DNone) ->
  (forall i, dhold d' i <= dhold (disp x) i) ->
  Kinv (queues (base x)) (ws (base x)) (futs (base x)) act' d' ->
  (forall i sl, In (i, sl) act' -> sl = xslots c i) ->
  cap c act' ->
  (forall i, d' = DStart i -> must_wait c act' i = false) ->
  (forall i0 todo kept, d' = DScan i0 todo kept -> sub_of (kept ++ todo) act') ->
  XInv c n (mkX (base x) d' act' l').
Proof.
  intros c n x d' act' l' H Hpr Hdc Hdn' Hdh HK' HK3' Hcap' Hst' Hsc'.
  xinv_split H.
  - rewrite Hpr. exact Hlq.
  - intros i0 Hin Hp1. rewrite Hdc by exact Hp1. apply Hpq; [exact Hin|]. now rewrite <- Hpr.
  - intros i. unfold gcf in *. specialize (Hw1 i). specialize (Hdh i). lia.
  - intros i Hi. apply Hw3. unfold gcf in *. specialize (Hdh i). lia.
Qed.

Lemma xinv_after_puts : forall c n x dany act' l' i,
  XInv c n x -> prep (disp x) = 1 -> dcall (disp x) = Some i -> (forall i0, dhold (disp x) i0 = 0) ->
  K1 (queues (base x)) (ws (base x)) (futs (base x)) act' ->
  (forall i0 sl, In (i0, sl) act' -> sl = xslots c i0) ->
  cap c act' ->
  XInv c n (after_puts c (mkX (base x) dany act' l') i).
Proof.
  intros c n x dany act' l' i H Hpr Hdc Hdh HK HK3 Hcap.
  assert (Hs : started (main (base x))).
  { destruct (X_dn _ _ _ H) as [Hs|Hs]; [exact Hs|]. rewrite Hs in Hpr. discriminate. }
  unfold after_puts, set_disp. xfld.
  destruct (must_wait c act' i) eqn:Hm.
  - destruct act' as [|e act2] eqn:Ea.
    + apply xinv_act; try assumption; try (now left); try (intros; discriminate).
      * now rewrite Hpr.
      * intros _. now rewrite Hdc.
      * intros i0. rewrite Hdh. simpl. lia.
      * apply K1_Kinv_noscan; [exact HK|intros; discriminate].
    + rewrite <- Ea in *. apply xinv_act; try assumption; try (now left); try (intros; discriminate).
      * now rewrite Hpr.
      * intros _. now rewrite Hdc.
      * intros i0. rewrite Hdh. simpl. lia.
      * now apply K1_Kinv_start.
      * intros i0 todo kept E. inversion E; subst. simpl. apply sub_of_refl.
  - apply xinv_act; try assumption; try (now left); try (intros; discriminate).
    + now rewrite Hpr.
    + intros _. now rewrite Hdc.
    + intros i0. rewrite Hdh. simpl. lia.
    + apply K1_Kinv_noscan; [exact HK|intros; discriminate].
    + intros i0 E. inversion E; subst. exact Hm.
Qed.

Lemma xinv_dstart : forall c n x i,
  XInv c n x -> disp x = DStart i ->
  XInv c n (mkX (set_ws (base x) (ws (base x) ++ [mkW (length (queues (base x)) - 1) 0 WBegin])) DTd
                (active x ++ [(i, xslots c i)]) (S (launched x))).
Proof.
  intros c n x i H Hd. unfold set_ws.
  pose proof (cap_start c (active x) i (X_cap _ _ _ H) (X_start _ _ _ H i Hd)) as Hcap'.
  xinv_split H; rewrite Hd in *; simpl prep in *.
  - intros j w Hj. apply nth_error_snoc_inv in Hj as [[_ Hj]|[Hj1 Hj2]]; [eauto|]. subst. simpl. lia.
  - rewrite app_length. simpl. lia.
  - intros i0 _ E. discriminate.
  - left. destruct Hdn as [Hdn|Hdn]; [exact Hdn|discriminate].
  - intros j w Hj. apply nth_error_snoc_inv in Hj as [[_ Hj]|[_ Hj]]; [exact (Ho1 j w Hj)|subst; reflexivity].
  - rewrite count_snoc. simpl. lia.
  - intros k0. rewrite count_snoc. specialize (Ho3 k0). simpl. lia.
  - intros k0 Hk0. rewrite count_snoc. specialize (Ho4 k0 Hk0). lia.
  - intros j w Hj. apply nth_error_snoc_inv in Hj as [[_ Hj]|[_ Hj]]; [exact (Hch j w Hj)|subst; reflexivity].
  - intros i0. unfold gcf in *. rewrite count_snoc. specialize (Hw1 i0). simpl in *. lia.
  - intros i0 Hi. apply Hw3. unfold gcf in *. rewrite count_snoc in Hi. simpl in *. lia.
  - intros i0 Hi. rewrite count_snoc. rewrite <- (Hrun i0 Hi). simpl. lia.
  - intros i0 (j & w & Hj & Hc) Hdone. split; [|intros i1 todo kept E; discriminate].
    rewrite map_app. apply in_or_app.
    apply nth_error_snoc_inv in Hj as [[_ Hj]|[_ Hj]].
    + left. destruct (HK i0) as [H1 _]; [exists j, w; split; assumption|exact Hdone|exact H1].
    + right. subst w. simpl in Hc. destruct Hc as [Hc|Hc]; [discriminate|].
      specialize (Hpq i0 Hc eq_refl). simpl in Hpq. inversion Hpq. now left.
  - intros i0 sl Hi. apply in_app_or in Hi. destruct Hi as [Hi|[Hi|[]]]; [eauto|]. now inversion Hi.
  - intros i0 E. discriminate.
  - intros i0 todo kept E. discriminate.
Qed.

Lemma xinv_disp_simple : forall c n x d',
  XInv c n x -> disp x <> DNone -> prep (disp x) = 0 -> prep d' = 0 -> (forall i, dhold d' i = 0) ->
  (forall i, d' <> DStart i) -> (forall i0 todo kept, d' <> DScan i0 todo kept) ->
  XInv c n (set_disp x d').
Proof.
  intros c n x d' H Hne Hp Hp' Hdh Hns Hnsc. unfold set_disp.
  apply xinv_act; try assumption.
  - congruence.
  - intros E. congruence.
  - destruct (X_dn _ _ _ H) as [Hs|Hs]; [now left|contradiction].
  - intros i. rewrite Hdh. lia.
  - eapply Kinv_noscan; [apply (X_K _ _ _ H)|exact Hnsc].
  - apply (X_K3 _ _ _ H).
  - apply (X_cap _ _ _ H).
  - intros i E. exfalso. eapply Hns; eauto.
  - intros i0 todo kept E. exfalso. eapply Hnsc; eauto.
Qed.

Lemma xinv_dq0 : forall c n x new d',
  XInv c n x -> disp x <> DNone -> prep (disp x) = 0 -> prep d' = 0 -> (forall i, dhold d' i = 0) ->
  (forall i, d' <> DStart i) -> (forall i0 todo kept, d' <> DScan i0 todo kept) ->
  (forall i, count (taskb i) (allq (upd (queues (base x)) 0 new)) <= count (taskb i) (allq (queues (base x)))) ->
  XInv c n (mkX (mkS (upd (queues (base x)) 0 new) (futs (base x)) (subm (base x)) (main (base x)) (ops (base x))
                     (closed (base x)) (ws (base x)) (ps (base x)) (outs (base x))) d' (active x) (launched x)).
Proof.
  intros c n x new d' H Hne Hp Hp' Hdh Hns Hnsc Hcnt.
  apply xinv_qmd; try assumption.
  - rewrite upd_length, Hp'. pose proof (X_lq _ _ _ H). lia.
  - intros i0 _ E. congruence.
  - destruct (X_dn _ _ _ H) as [Hs|Hs]; [now left|contradiction].
  - intros i. unfold gcf. rewrite Hdh. specialize (Hcnt i). lia.
  - eapply Kinv_upd_q; eauto. eapply Kinv_noscan; [apply (X_K _ _ _ H)|exact Hnsc].
  - intros i E. exfalso. eapply Hns; eauto.
  - intros i0 todo kept E. exfalso. eapply Hnsc; eauto.
Qed.

Lemma xd_step_inv : forall c n x x' l, XInv c n x -> d_step c 0 x = Some (x', l) -> XInv c n x'.
Proof.
  intros c n x x' l H Hst. unfold d_step in Hst. cbv zeta in Hst.
  pose proof (X_lq _ _ _ H) as Hlq.
  destruct (disp x) as [| | |i|i|i todo kept|i|i| |k| | | |] eqn:Hd; try discriminate.
  - (* DBegin *) inversion Hst; subst; clear Hst.
    apply xinv_disp_simple; try assumption; try (rewrite Hd); try reflexivity; try discriminate; intros; discriminate.
  - (* DGet *)
    destruct (qitems (getq (base x) 0)) as [|it rest] eqn:Hq0; [discriminate|]. unfold getq in Hq0.
    destruct it as [i|w]; inversion Hst; subst; clear Hst; unfold qpop, set_queues, getq; fld; rewrite Hq0; cbn [tl].
    + (* a task: new private queue *)
      apply xinv_qmd; try assumption.
      * rewrite app_length, upd_length. simpl in *. lia.
      * intros i0 Hin _. exfalso. rewrite app_length in Hin. simpl in Hin.
        rewrite app_nth2 in Hin by lia.
        replace (length (upd (queues (base x)) 0 (mkQ rest (qunf (nth 0 (queues (base x)) (mkQ [] 0))))) + 1 - 1
                 - length (upd (queues (base x)) 0 (mkQ rest (qunf (nth 0 (queues (base x)) (mkQ [] 0)))))) with 0 in Hin by lia.
        simpl in Hin. exact Hin.
      * destruct (X_dn _ _ _ H) as [Hs|Hs]; [now left|congruence].
      * intros i0. unfold gcf. rewrite allq_snoc, Hd.
        pose proof (count_qpop (taskb i0) _ _ _ _ (qunf (nth 0 (queues (base x)) (mkQ [] 0))) Hq0) as Hc.
        simpl in *. destruct (Nat.eqb i0 i); simpl in *; lia.
      * eapply Kinv_noscan; [|intros; discriminate].
        eapply Kinv_mono; [apply (X_K _ _ _ H)| |tauto].
        intros i0 Hl. apply lh_snoc in Hl.
        -- eapply lh_upd_other; [|exact Hl]. intros j w Hj. destruct (wq_facts c n x j w H Hj) as (F1 & _). exact F1.
        -- intros j w Hj. rewrite upd_length. destruct (wq_facts c n x j w H Hj) as (_ & F2 & _). exact F2.
      * intros i0 E. discriminate.
      * intros i0 todo kept E. discriminate.
    + (* the shutdown message *)
      apply xinv_dq0; try assumption; try (rewrite Hd); try reflexivity; try discriminate.
      * destruct w; [destruct (Nat.eqb (launched x) 0)|]; reflexivity.
      * intros i0. destruct w; [destruct (Nat.eqb (launched x) 0)|]; reflexivity.
      * intros i0. destruct w; [destruct (Nat.eqb (launched x) 0)|]; discriminate.
      * intros i0 todo kept. destruct w; [destruct (Nat.eqb (launched x) 0)|]; discriminate.
      * intros i0. pose proof (count_qpop (taskb i0) _ _ _ _ (qunf (nth 0 (queues (base x)) (mkQ [] 0))) Hq0) as Hc.
        simpl in Hc. lia.
  - (* DPutTask *)
    inversion Hst; subst; clear Hst. unfold qput, set_queues, getq. fld.
    assert (Hs : started (main (base x))) by (destruct (X_dn _ _ _ H) as [Hs|Hs]; [exact Hs|congruence]).
    simpl in Hlq.
    apply xinv_qmd; try assumption.
    + rewrite upd_length. simpl. lia.
    + intros i0 Hin _. rewrite upd_length in Hin. rewrite nth_upd_same in Hin by lia. simpl in Hin.
      apply in_app_or in Hin. destruct Hin as [Hin|[Hin|[]]].
      * pose proof (X_pq _ _ _ H i0 Hin) as Hq. rewrite Hd in Hq. simpl in Hq. now apply Hq.
      * inversion Hin. reflexivity.
    + now left.
    + intros i0. unfold gcf. rewrite Hd. rewrite count_qput by lia. simpl. destruct (Nat.eqb i0 i); simpl; lia.
    + eapply Kinv_upd_q; eauto.
      * right. rewrite Hd. split; reflexivity.
      * eapply Kinv_noscan; [apply (X_K _ _ _ H)|intros; discriminate].
    + intros i0 E. discriminate.
    + intros i0 todo kept E. discriminate.
  - (* DPutShut *)
    inversion Hst; subst; clear Hst.
    assert (Hs : started (main (base x))) by (destruct (X_dn _ _ _ H) as [Hs|Hs]; [exact Hs|congruence]).
    simpl in Hlq.
    assert (H1 : XInv c n (mkX (mkS (upd (queues (base x)) (length (queues (base x)) - 1)
                                     (mkQ (qitems (nth (length (queues (base x)) - 1) (queues (base x)) dq) ++ [Shut true])
                                          (S (qunf (nth (length (queues (base x)) - 1) (queues (base x)) dq)))))
                          (futs (base x)) (subm (base x)) (main (base x)) (ops (base x))
                          (closed (base x)) (ws (base x)) (ps (base x)) (outs (base x))) (DPutShut i) (active x) (launched x))).
    { apply xinv_qmd; try assumption.
      + rewrite upd_length. simpl. lia.
      + intros i0 Hin _. rewrite upd_length in Hin. rewrite nth_upd_same in Hin by lia. simpl in Hin.
        apply in_app_or in Hin. destruct Hin as [Hin|[Hin|[]]]; [|discriminate].
        pose proof (X_pq _ _ _ H i0 Hin) as Hq. rewrite Hd in Hq. simpl in Hq. now apply Hq.
      + now left.
      + intros i0. unfold gcf. rewrite Hd. rewrite count_qput by lia. simpl. lia.
      + eapply Kinv_upd_q; eauto.
        * right. rewrite Hd. split; reflexivity.
        * eapply Kinv_noscan; [apply (X_K _ _ _ H)|intros; discriminate].
      + intros i0 E. discriminate.
      + intros i0 todo kept E. discriminate. }
    refine (xinv_after_puts c n _ (disp x) (active x) (launched x) i H1 eq_refl eq_refl _ _ _ _).
    + intros i0. reflexivity.
    + eapply Kinv_K1. apply (X_K _ _ _ H1).
    + apply (X_K3 _ _ _ H).
    + apply (X_cap _ _ _ H).
  - (* DScan *)
    assert (Hs : started (main (base x))) by (destruct (X_dn _ _ _ H) as [Hs|Hs]; [exact Hs|congruence]).
    destruct todo as [|[f sl] rest]; [discriminate|].
    pose proof (X_K _ _ _ H) as HK. rewrite Hd in HK. apply Kinv_scan_step in HK.
    pose proof (X_scan _ _ _ H i _ _ Hd) as Hsub.
    apply (sub_of_step kept (f, sl) rest (active x) (fdone (nth_f (futs (base x)) f))) in Hsub.
    change (getf (base x) f) with (nth_f (futs (base x)) f) in Hst.
    destruct rest as [|e rest']; inversion Hst; subst; clear Hst.
    + (* end of the pass *)
      rewrite app_nil_r in Hsub.
      refine (xinv_after_puts c n x (disp x) _ (launched x) i H _ _ _ _ _ _).
      * rewrite Hd. reflexivity.
      * rewrite Hd. reflexivity.
      * intros i0. rewrite Hd. reflexivity.
      * intros i0 Hi Hdn. destruct (HK i0 Hi Hdn) as [_ H2]. specialize (H2 _ _ _ eq_refl).
        rewrite app_nil_r in H2. exact H2.
      * intros i0 sl0 Hin. apply (X_K3 _ _ _ H). destruct Hsub as (_ & _ & H3). now apply H3.
      * eapply cap_sub; [apply (X_cap _ _ _ H)|exact Hsub].
    + unfold set_disp. apply xinv_act; try assumption.
      * rewrite Hd. reflexivity.
      * rewrite Hd. reflexivity.
      * now left.
      * intros i0. rewrite Hd. simpl. lia.
      * apply (X_K3 _ _ _ H).
      * apply (X_cap _ _ _ H).
      * intros i0 E. discriminate.
      * intros i0 todo kept0 E. inversion E; subst. exact Hsub.
  - (* DStart *) inversion Hst; subst; clear Hst. exact (xinv_dstart c n x i H Hd).
  - (* DTd *) inversion Hst; subst; clear Hst. unfold qtd, set_queues, getq. fld.
    apply xinv_dq0; try assumption; try (rewrite Hd); try reflexivity; try discriminate; try (intros; discriminate).
    intros i0. rewrite allq_qtd. lia.
  - (* DSJoin *)
    destruct (nth_error (ws (base x)) k) as [wt|]; [|discriminate].
    destruct (wdone wt); [|discriminate].
    destruct (wdead wt); [|destruct (Nat.eqb (S k) (launched x))]; inversion Hst; subst; clear Hst;
      apply xinv_disp_simple; try assumption; try (rewrite Hd); try reflexivity; try discriminate; intros; discriminate.
  - (* DSTd *) inversion Hst; subst; clear Hst. unfold qtd, set_queues, getq. fld.
    apply xinv_dq0; try assumption; try (rewrite Hd); try reflexivity; try discriminate; try (intros; discriminate).
    intros i0. rewrite allq_qtd. lia.
  - (* DSQJoin *)
    destruct (Nat.eqb (qunf (getq (base x) 0)) 0); [|discriminate]. inversion Hst; subst; clear Hst.
    apply xinv_disp_simple; try assumption; try (rewrite Hd); try reflexivity; try discriminate; intros; discriminate.
Qed.

(* ------------------------------------------------------------------ *)

Lemma xstep_inv : forall c n x t x' l, XInv c n x -> xstep c x t = Some (x', l) -> XInv c n x'.
Proof.
  intros c n x t x' l H Hst. destruct t as [| | |j|k]; simpl in Hst; try discriminate.
  - eapply xm_step_inv; eauto.
  - eapply xd_step_inv; eauto.
  - destruct j as [|j]; [discriminate|].
    destruct (w_step (bcfg c) (base x) j) as [[b l0]|] eqn:E; [|discriminate].
    inversion Hst; subst. eapply xw_step_inv; eauto.
  - destruct (p_step (bcfg c) (base x) k) as [[b l0]|] eqn:E; [|discriminate].
    inversion Hst; subst. eapply xp_step_inv; eauto.
Qed.

Lemma xreach_inv : forall c n prog x, wf_prog n prog -> xreach c (xinit n prog) x -> XInv c n x.
Proof.
  intros c n prog x Hwf Hr. induction Hr as [|x t x' l Hr IH Hst].
  - now apply xinv_init.
  - eapply xstep_inv; eauto.
Qed.

(* ---- executing processes and their owners ---- *)
Definition pexec (p : proc) : list nat := match pp p with PBody i | PSend i => [i] | _ => [] end.

Lemma executing_eq : forall x, executing x = flat_map pexec (ps (base x)).
Proof. reflexivity. Qed.

Lemma xowner_exists : forall c n x k, XInv c n x -> k < length (ps (base x)) ->
  exists j w, nth_error (ws (base x)) j = Some w /\ wproc w = S k.
Proof.
  intros c n x k H Hk.
  pose proof (X_ow4 _ _ _ H k Hk) as Hc.
  assert (Hex : forall l, count (procb k) l <> 0 -> exists j w, nth_error l j = Some w /\ procb k w = true).
  { induction l as [|a l IH]; intros Hl; [exfalso; apply Hl; reflexivity|].
    rewrite count_cons in Hl. destruct (procb k a) eqn:Ea.
    - exists 0, a. split; [reflexivity|exact Ea].
    - simpl in Hl. destruct (IH Hl) as (j & w & Hj & Hw). exists (S j), w. split; assumption. }
  destruct (Hex (ws (base x))) as (j & w & Hj & Hw); [lia|].
  exists j, w. split; [exact Hj|]. unfold procb in Hw. now apply Nat.eqb_eq in Hw.
Qed.

(* the owner of a process that executes call i is waiting for the reply of call i *)
Lemma exec_owner : forall c n x k p i, XInv c n x -> nth_error (ps (base x)) k = Some p -> In i (pexec p) ->
  exists j w, nth_error (ws (base x)) j = Some w /\ wproc w = S k /\ wp w = WRecv i.
Proof.
  intros c n x k p i H Hp Hi.
  assert (Hk : k < length (ps (base x))) by (apply nth_error_Some; congruence).
  destruct (xowner_exists c n x k H Hk) as (j & w & Hj & Hw).
  exists j, w. split; [exact Hj|]. split; [exact Hw|].
  pose proof (X_chan _ _ _ H j w Hj) as Hc. rewrite Hw in Hc. replace (S k - 1) with k in Hc by lia.
  rewrite (nth_error_nth' _ _ _ _ _ Hp) in Hc.
  pose proof (X_ow1 _ _ _ H j w Hj) as Ho. unfold spawnedb in Ho.
  unfold pexec in Hi. destruct p as [pc ib ob]. cbn [pp] in Hi.
  unfold chanS, chan_ok, chan2, serving, quiet, p_idle, palive in Hc. cbn [pp inbox outbox] in Hc.
  destruct pc; simpl in Hi; try contradiction; destruct Hi as [Hi|[]]; subst;
    destruct (wp w); try (exfalso; lia); simpl in Hc; try discriminate Hc;
    rewrite ?andb_true_r, ?orb_false_r in Hc; repeat (apply andb_true_iff in Hc; destruct Hc as [Hc _]);
    apply Nat.eqb_eq in Hc; now subst.
Qed.

Lemma exec_in_active : forall c n x i, XInv c n x -> In i (executing x) -> In (i, xslots c i) (active x).
Proof.
  intros c n x i H Hi. rewrite executing_eq in Hi. apply in_flat_map in Hi. destruct Hi as (p & Hp & Hi).
  apply In_nth_error in Hp. destruct Hp as [k Hp].
  destruct (exec_owner c n x k p i H Hp Hi) as (j & w & Hj & Hw & Hpc).
  assert (Hca : w_call w = Some i) by (unfold w_call; rewrite Hpc; reflexivity).
  assert (Hru : w_run w = Some i) by (unfold w_run; rewrite Hpc; reflexivity).
  pose proof (xrun_is_running c n x j w i H Hj Hru) as Hf.
  destruct (X_K _ _ _ H i) as [HinA _].
  - exists j, w. split; [exact Hj|now left].
  - unfold nth_f. unfold getf in Hf. rewrite Hf. reflexivity.
  - apply in_map_iff in HinA. destruct HinA as ([i' sl] & E & Hin). simpl in E. subst i'.
    rewrite <- (X_K3 _ _ _ H i sl Hin). exact Hin.
Qed.

Lemma flat_map_nodup : forall (l : list proc),
  (forall k1 k2 p1 p2 i, k1 <> k2 -> nth_error l k1 = Some p1 -> nth_error l k2 = Some p2 ->
                         In i (pexec p1) -> In i (pexec p2) -> False) ->
  NoDup (flat_map pexec l).
Proof.
  induction l as [|a l IH]; intros Hd; simpl; [constructor|].
  assert (Hrest : NoDup (flat_map pexec l)).
  { apply IH. intros k1 k2 p1 p2 i Hne H1 H2. apply (Hd (S k1) (S k2) p1 p2 i); simpl; auto. }
  assert (Hdis : forall i, In i (pexec a) -> ~ In i (flat_map pexec l)).
  { intros i Hi Hin. apply in_flat_map in Hin. destruct Hin as (p2 & Hp2 & Hi2).
    apply In_nth_error in Hp2. destruct Hp2 as [k2 Hp2].
    apply (Hd 0 (S k2) a p2 i); simpl; auto. }
  unfold pexec at 1. unfold pexec in Hdis. destruct (pp a); simpl; try exact Hrest;
    (constructor; [apply Hdis; now left|exact Hrest]).
Qed.

Lemma exec_nodup : forall c n x, XInv c n x -> NoDup (executing x).
Proof.
  intros c n x H. rewrite executing_eq. apply flat_map_nodup.
  intros k1 k2 p1 p2 i Hne H1 H2 Hi1 Hi2.
  destruct (exec_owner c n x k1 p1 i H H1 Hi1) as (j1 & w1 & Hj1 & Hw1 & Hpc1).
  destruct (exec_owner c n x k2 p2 i H H2 Hi2) as (j2 & w2 & Hj2 & Hw2 & Hpc2).
  assert (Hjne : j1 <> j2) by (intro E; subst j2; rewrite Hj1 in Hj2; inversion Hj2; subst; lia).
  assert (Hc1 : callsb i w1 = true) by (unfold callsb, w_call; rewrite Hpc1; apply Nat.eqb_refl).
  assert (Hc2 : callsb i w2 = true) by (unfold callsb, w_call; rewrite Hpc2; apply Nat.eqb_refl).
  pose proof (count_ge2 _ (callsb i) (ws (base x)) j1 j2 w1 w2 Hjne Hj1 Hj2 Hc1 Hc2) as Hg.
  pose proof (X_own1 _ _ _ H i) as Ho. unfold gcf in Ho. lia.
Qed.

Lemma sum_le_active : forall (f : nat -> nat) l act,
  NoDup l -> (forall i, In i l -> In (i, f i) act) ->
  fold_right (fun i acc => f i + acc) 0 l <= sum_slots act.
Proof.
  intros f l. induction l as [|a l IH]; intros act Hnd Hin; simpl; [lia|].
  inversion Hnd as [|a0 l0 Hna Hnd']; subst.
  destruct (in_split _ _ (Hin a (or_introl eq_refl))) as (a1 & a2 & E). subst act.
  assert (Hle : fold_right (fun i acc => f i + acc) 0 l <= sum_slots (a1 ++ a2)).
  { apply IH; [exact Hnd'|]. intros i Hi.
    pose proof (Hin i (or_intror Hi)) as Hia. apply in_app_or in Hia. apply in_or_app.
    destruct Hia as [Hia|[Hia|Hia]]; [now left| |now right].
    inversion Hia; subst. contradiction. }
  rewrite sum_slots_app in *. simpl. lia.
Qed.

Lemma len_le_active : forall l (act : list (nat * nat)),
  NoDup l -> (forall i, In i l -> In i (map fst act)) -> length l <= length act.
Proof.
  intros l act Hnd Hin. rewrite <- (map_length fst act). apply NoDup_incl_length; [exact Hnd|exact Hin].
Qed.

Theorem step_ceiling_cores : forall c n prog x m,
  wf_prog n prog -> xmax_cores c = Some m -> xreach c (xinit n prog) x -> exec_slots c x <= m.
Proof.
  intros c n prog x m Hwf Hm Hr. pose proof (xreach_inv c n prog x Hwf Hr) as H.
  pose proof (X_cap _ _ _ H) as Hc. unfold cap in Hc. rewrite Hm in Hc.
  unfold exec_slots.
  pose proof (sum_le_active (xslots c) (executing x) (active x) (exec_nodup c n x H)
                (fun i Hi => exec_in_active c n x i H Hi)) as Hle.
  lia.
Qed.
Print Assumptions step_ceiling_cores.

Theorem step_ceiling_workers : forall c n prog x m,
  wf_prog n prog -> xmax_cores c = None -> xmax_workers c = Some m ->
  xreach c (xinit n prog) x -> length (executing x) <= m.
Proof.
  intros c n prog x m Hwf Hn Hm Hr. pose proof (xreach_inv c n prog x Hwf Hr) as H.
  pose proof (X_cap _ _ _ H) as Hc. unfold cap in Hc. rewrite Hn, Hm in Hc.
  assert (Hle : length (executing x) <= length (active x)).
  { apply len_le_active; [apply (exec_nodup c n x H)|].
    intros i Hi. apply in_map_iff. exists (i, xslots c i). split; [reflexivity|].
    now apply (exec_in_active c n x i H). }
  lia.
Qed.
Print Assumptions step_ceiling_workers.

(* ------------------------------------------------------------------ *)

(* ================= traces and the one-call-per-process bookkeeping ================= *)
Inductive xreach_tr (c : xcfg) (x0 : xstate) : xstate -> list label -> Prop :=
| xreach_tr_init : xreach_tr c x0 x0 []
| xreach_tr_step : forall x tr t x' l, xreach_tr c x0 x tr -> xstep c x t = Some (x', l) ->
                                       xreach_tr c x0 x' (l :: tr).

Definition is_mcall (m : msg) : bool := match m with MCall _ => true | _ => false end.
Definition mcall_lbl (k : nat) (l : label) : bool :=
  match l with LZRecvP k' (MCall _) => Nat.eqb k' k | _ => false end.
(* how many calls process k has received in the history tr *)
Definition mcalls (k : nat) (tr : list label) : nat := count (mcall_lbl k) tr.

Definition dp : proc := mkP PExit [] [].
Definition sendpot (pc : wpc) : nat := match pc with WSrnc _ | WSend _ => 1 | _ => 0 end.
Definition pinb (pl : list proc) (k : nat) : nat :=
  match k with 0 => 0 | S k' => count is_mcall (inbox (nth k' pl dp)) end.
(* calls that the process of worker w may still receive *)
Definition wpot (qs : list queue) (pl : list proc) (w : wthread) : nat :=
  count is_task (qitems (nth (wq w) qs dq)) + sendpot (wp w) + pinb pl (wproc w).
Definition dhold1 (d : dpc) : nat := match d with DPutTask _ => 1 | _ => 0 end.

Record TInv (x : xstate) (tr : list label) : Prop := mkTInv {
  T_w : forall j w, nth_error (ws (base x)) j = Some w ->
          mcalls (wproc w) tr + wpot (queues (base x)) (ps (base x)) w <= 1;
  T_0 : forall k, k = 0 \/ length (ps (base x)) < k -> mcalls k tr = 0;
  T_p : prep (disp x) = 1 ->
          count is_task (qitems (nth (length (queues (base x)) - 1) (queues (base x)) dq)) + dhold1 (disp x) <= 1
}.

Lemma mcalls_cons_other : forall k l tr, mcall_lbl k l = false -> mcalls k (l :: tr) = mcalls k tr.
Proof. intros k l tr H. unfold mcalls. rewrite count_cons, H. reflexivity. Qed.

Lemma qpop_mono : forall (f : item -> bool) (qs : list queue) q0 u q,
  count f (qitems (nth q (upd qs q0 (mkQ (tl (qitems (nth q0 qs dq))) u)) dq)) <= count f (qitems (nth q qs dq)).
Proof.
  intros f qs q0 u q.
  destruct (nth_upd_cases _ qs q q0 (mkQ (tl (qitems (nth q0 qs dq))) u) dq) as [(E & L & Hx)|(E & Hx)]; rewrite Hx.
  - subst q. simpl. destruct (qitems (nth q0 qs dq)) as [|it rest]; [simpl; lia|]. simpl tl. rewrite count_cons. lia.
  - lia.
Qed.

Lemma pop_count : forall (f : item -> bool) (qs : list queue) q it rest u,
  qitems (nth q qs dq) = it :: rest ->
  count f (qitems (nth q (upd qs q (mkQ rest u)) dq)) + b2n (f it) = count f (qitems (nth q qs dq)).
Proof.
  intros f qs q it rest u H. pose proof (nth_items_range _ _ _ _ H) as E.
  assert (L : q < length qs) by (apply nth_error_Some; congruence).
  rewrite nth_upd_same by exact L. simpl. rewrite H, count_cons. lia.
Qed.

Lemma send_count : forall (pl : list proc) k a m b,
  count is_mcall (inbox (nth k (upd pl k (mkP a (inbox (nth k pl dp) ++ [m]) b)) dp))
  <= count is_mcall (inbox (nth k pl dp)) + b2n (is_mcall m).
Proof.
  intros pl k a m b.
  destruct (nth_upd_cases _ pl k k (mkP a (inbox (nth k pl dp) ++ [m]) b) dp) as [(E & L & Hx)|(E & Hx)]; rewrite Hx.
  - simpl. rewrite count_snoc. lia.
  - lia.
Qed.

Lemma recv_inbox : forall (pl : list proc) k a b,
  inbox (nth k (upd pl k (mkP a (inbox (nth k pl dp)) b)) dp) = inbox (nth k pl dp).
Proof.
  intros pl k a b.
  destruct (nth_upd_cases _ pl k k (mkP a (inbox (nth k pl dp)) b) dp) as [(E & L & Hx)|(E & Hx)]; rewrite Hx; reflexivity.
Qed.

(* ---- effect of a worker step ---- *)
Lemma w_step_eff : forall c s j s' l w,
  w_step c s j = Some (s', l) -> nth_error (ws s) j = Some w ->
  (forall k, mcall_lbl k l = false) /\
  length (queues s') = length (queues s) /\
  (forall q, count is_task (qitems (nth q (queues s') dq)) <= count is_task (qitems (nth q (queues s) dq))) /\
  exists w', ws s' = upd (ws s) j w' /\ wq w' = wq w /\
    ((wp w = WSpawn /\ wproc w' = S (length (ps s)) /\ wp w' = WGet /\ queues s' = queues s /\
      ps s' = ps s ++ [mkP PBegin [] []])
     \/ (wproc w' = wproc w /\ length (ps s') = length (ps s) /\
         (forall k, k <> wproc w - 1 -> nth k (ps s') dp = nth k (ps s) dp) /\
         (spawnedb w = false -> ps s' = ps s) /\
         count is_task (qitems (nth (wq w) (queues s') dq)) + sendpot (wp w')
         <= count is_task (qitems (nth (wq w) (queues s) dq)) + sendpot (wp w) /\
         count is_task (qitems (nth (wq w) (queues s') dq)) + sendpot (wp w')
           + count is_mcall (inbox (nth (wproc w - 1) (ps s') dp))
         <= count is_task (qitems (nth (wq w) (queues s) dq)) + sendpot (wp w)
           + count is_mcall (inbox (nth (wproc w - 1) (ps s) dp)))).
Proof.
  intros c s j s' l w H Hj. unfold w_step in H. rewrite Hj in H. cbv zeta in H.
  destruct (wp w) eqn:Hpc; destr_all H; inversion H; subst; clear H.
  all: wnorm; unfold getq, getp in *.
  all: split; [intros; reflexivity|].
  all: split; [rewrite ?upd_length; reflexivity|].
  all: split; [intros q; first [apply le_n | apply qpop_mono | rewrite qtd_items; apply le_n]|].
  all: eexists; split; [reflexivity|]; split; [reflexivity|].
  all: try solve [left; repeat split; reflexivity].
  all: right; cbn [wproc wp]; split; [reflexivity|]; split; [rewrite ?upd_length; reflexivity|].
  all: split; [intros k Hk; first [reflexivity | apply nth_upd_other; lia]|].
  all: split; [unfold spawnedb; rewrite Hpc; first [discriminate | intros _; reflexivity]|].
  all: simpl sendpot.
  all: split.
  all: try solve [lia].
  all: try solve [rewrite qtd_items; lia].
  all: try solve [rewrite recv_inbox; lia].
  all: try solve [match goal with |- context [inbox _ ++ [?m]] =>
         pose proof (send_count (ps s) (wproc w - 1) (pp (nth (wproc w - 1) (ps s) dp)) m
                       (outbox (nth (wproc w - 1) (ps s) dp))) as Hsend; simpl in Hsend; unfold dp in *; lia end].
  all: try solve [match goal with Hq : qitems (nth _ _ _) = ?it :: ?rest |- _ =>
         pose proof (pop_count is_task _ _ _ _ (qunf (nth (wq w) (queues s) dq)) Hq) as Hpop;
         unfold dq in *; rewrite Hq in *; cbn [tl b2n is_task] in *; lia end].
Qed.

Lemma pinb_snoc : forall pl e k, k <= length pl -> pinb (pl ++ [e]) k = pinb pl k.
Proof.
  intros pl e k Hk. destruct k as [|k']; [reflexivity|]. simpl. rewrite app_nth1 by lia. reflexivity.
Qed.

Lemma tinv_w : forall c n x tr j b l,
  XInv c n x -> TInv x tr -> w_step (bcfg c) (base x) j = Some (b, l) -> TInv (set_base x b) (l :: tr).
Proof.
  intros c n x tr j b l H HT Hst.
  destruct (nth_error (ws (base x)) j) as [w|] eqn:Hj;
    [|unfold w_step in Hst; rewrite Hj in Hst; discriminate].
  destruct (w_step_eff _ _ _ _ _ w Hst Hj) as (Hl & Hlq & Hqm & w' & Ews & Ewq & Hcase).
  destruct HT as [Tw T0 Tp].
  pose proof (X_ow1 _ _ _ H) as Ho1. pose proof (X_ow3 _ _ _ H) as Ho3.
  constructor; unfold set_base; xfld.
  - intros j2 w2 H2. rewrite mcalls_cons_other by apply Hl. rewrite Ews in H2.
    apply nth_error_upd_inv in H2 as [(E1 & E2 & _)|(E1 & E2)].
    + subst j2 w2. specialize (Tw j w Hj). unfold wpot in *. rewrite Ewq.
      destruct Hcase as [(Hsp & Hwp & Hpc' & Eq & Eps)|(Hwp & Hlp & Hoth & Hun & Hle1 & Hle2)].
      * rewrite Hwp, Hpc', Eq, Eps. rewrite (T0 (S (length (ps (base x))))) by (right; lia).
        simpl. rewrite app_nth2 by lia. rewrite Nat.sub_diag. simpl. unfold count at 2. simpl. lia.
      * rewrite Hwp. destruct (wproc w) as [|k'] eqn:Ek; simpl pinb in *.
        -- lia.
        -- replace (S k' - 1) with k' in Hle2 by lia. lia.
    + specialize (Tw j2 w2 E2). unfold wpot in *. specialize (Hqm (wq w2)).
      assert (Hp : pinb (ps b) (wproc w2) = pinb (ps (base x)) (wproc w2)).
      { destruct Hcase as [(Hsp & Hwp & Hpc' & Eq & Eps)|(Hwp & Hlp & Hoth & Hun & Hle1 & Hle2)].
        - rewrite Eps. apply pinb_snoc. specialize (Ho1 j2 w2 E2). destruct (spawnedb w2); lia.
        - destruct (wproc w2) as [|k2] eqn:Ek2; [reflexivity|]. simpl.
          destruct (spawnedb w) eqn:Sw.
          + rewrite Hoth; [reflexivity|]. intro Ek. apply E1.
            pose proof (Ho1 j w Hj) as B1. rewrite Sw in B1.
            apply (count_le1_inj _ (procb k2) (ws (base x)) j2 j w2 w (Ho3 _) E2 Hj); unfold procb; apply Nat.eqb_eq; lia.
          + rewrite (Hun eq_refl). reflexivity. }
      rewrite Hp. lia.
  - intros k Hk. rewrite mcalls_cons_other by apply Hl. apply T0.
    destruct Hk as [Hk|Hk]; [now left|right].
    destruct Hcase as [(Hsp & Hwp & Hpc' & Eq & Eps)|(Hwp & Hlp & Hoth & Hun & Hle1 & Hle2)].
    + rewrite Eps, app_length in Hk. simpl in Hk. lia.
    + lia.
  - intros Hpr. specialize (Tp Hpr). rewrite Hlq. specialize (Hqm (length (queues (base x)) - 1)). lia.
Qed.

Lemma p_step_eff : forall c s k s' l,
  p_step c s k = Some (s', l) ->
  exists p p', nth_error (ps s) (k - 1) = Some p /\ k <> 0 /\ s' = setp s k p' /\
    ((exists i, l = LZRecvP k (MCall i) /\ pp p = PRecv /\ (exists t, inbox p = MCall i :: t) /\
                count is_mcall (inbox p') + 1 = count is_mcall (inbox p))
     \/ ((forall k0, mcall_lbl k0 l = false) /\ count is_mcall (inbox p') <= count is_mcall (inbox p))).
Proof.
  intros c s k s' l H. unfold p_step in H.
  destruct (nth_error (ps s) (k - 1)) as [p|] eqn:Hp; [|discriminate].
  destruct (Nat.eqb k 0) eqn:Ek; [discriminate|]. apply Nat.eqb_neq in Ek.
  destruct (pp p) eqn:Hpp; destr_all H; inversion H; subst; clear H;
    exists p; eexists; (split; [reflexivity|]); (split; [exact Ek|]); (split; [reflexivity|]); cbn [inbox].
  all: try solve [right; split; [intros; reflexivity|lia]].
  all: match goal with Hi : inbox _ = _ |- _ => rewrite Hi end.
  all: try solve [right; split; [intros; reflexivity|rewrite count_cons; lia]].
  left. eexists. split; [reflexivity|]. split; [exact Hpp|]. split; [eexists; reflexivity|].
  rewrite count_cons. simpl. lia.
Qed.

Lemma tinv_p : forall c n x tr k b l,
  XInv c n x -> TInv x tr -> p_step (bcfg c) (base x) k = Some (b, l) -> TInv (set_base x b) (l :: tr).
Proof.
  intros c n x tr k b l H HT Hst.
  destruct (p_step_eff _ _ _ _ _ Hst) as (p & p' & Hp & Hk & Eb & Hcase). subst b.
  destruct HT as [Tw T0 Tp].
  assert (Hkl : k - 1 < length (ps (base x))) by (apply nth_error_Some; congruence).
  assert (Hpin : forall k2, pinb (upd (ps (base x)) (k - 1) p') k2
                            = if Nat.eqb k2 k then count is_mcall (inbox p') else pinb (ps (base x)) k2).
  { intros k2. destruct k2 as [|k2']; cbn [pinb].
    - destruct k; [lia|reflexivity].
    - destruct (Nat.eqb (S k2') k) eqn:E.
      + apply Nat.eqb_eq in E. subst k. replace (S k2' - 1) with k2' in * by lia.
        rewrite nth_upd_same by exact Hkl. rewrite ?Nat.eqb_refl. reflexivity.
      + apply Nat.eqb_neq in E. rewrite nth_upd_other by lia. reflexivity. }
  assert (Hpk : pinb (ps (base x)) k = count is_mcall (inbox p)).
  { destruct k as [|k']; [lia|]. simpl. replace (S k' - 1) with k' in Hp by lia.
    rewrite (nth_error_nth' _ _ _ _ _ Hp). reflexivity. }
  constructor; unfold set_base, setp, set_ps; xfld.
  - intros j w Hj. specialize (Tw j w Hj). unfold wpot in *. rewrite Hpin.
    unfold mcalls in *. rewrite count_cons.
    destruct Hcase as [(i & El & _ & _ & Hc)|(Hl & Hc)].
    + subst l. simpl mcall_lbl. rewrite (Nat.eqb_sym k (wproc w)).
      destruct (Nat.eqb (wproc w) k) eqn:E; simpl b2n.
      * apply Nat.eqb_eq in E. rewrite E in *. rewrite Hpk in Tw. lia.
      * lia.
    + rewrite Hl. simpl b2n. destruct (Nat.eqb (wproc w) k) eqn:E.
      * apply Nat.eqb_eq in E. rewrite E in *. rewrite Hpk in Tw. lia.
      * lia.
  - intros k0 Hk0. rewrite upd_length in Hk0. unfold mcalls in *. rewrite count_cons. rewrite (T0 k0 Hk0).
    destruct Hcase as [(i & El & _ & _ & Hc)|(Hl & Hc)].
    + subst l. simpl. replace (Nat.eqb k k0) with false by (symmetry; apply Nat.eqb_neq; lia). reflexivity.
    + rewrite Hl. reflexivity.
  - exact Tp.
Qed.

(* ---- effect of a client step ---- *)
Definition base_frame (s s' : state) : Prop :=
  ws s' = ws s /\ ps s' = ps s /\ length (queues s') = length (queues s) /\
  (forall q, q <> 0 -> nth q (queues s') dq = nth q (queues s) dq).

Lemma base_frame_refl : forall s, base_frame s s.
Proof. intros s. repeat split; reflexivity. Qed.

Lemma base_frame_trans : forall s1 s2 s3, base_frame s1 s2 -> base_frame s2 s3 -> base_frame s1 s3.
Proof.
  intros s1 s2 s3 (A1 & A2 & A3 & A4) (B1 & B2 & B3 & B4). repeat split; try congruence.
  intros q Hq. rewrite B4, A4 by exact Hq. reflexivity.
Qed.

Lemma bf_goto : forall s l x cl, base_frame s (m_goto s l x cl).
Proof. intros. unfold base_frame. autorewrite with flds. repeat split; reflexivity. Qed.

Lemma bf_done : forall s x cl, base_frame s (m_done s x cl).
Proof. intros. apply bf_goto. Qed.

Lemma bf_setmain : forall s m, base_frame s (set_main s m).
Proof. intros. repeat split; reflexivity. Qed.

Lemma bf_setfuts : forall s f, base_frame s (set_futs s f).
Proof. intros. repeat split; reflexivity. Qed.

Lemma bf_upd0 : forall s new, base_frame s (set_queues s (upd (queues s) 0 new)).
Proof.
  intros. unfold base_frame, set_queues. fld. rewrite upd_length. repeat split; try reflexivity.
  intros q Hq. apply nth_upd_other. lia.
Qed.

Lemma bf_qput : forall s it, base_frame s (qput s 0 it).
Proof. intros. apply bf_upd0. Qed.
Lemma bf_qpop : forall s, base_frame s (qpop s 0).
Proof. intros. apply bf_upd0. Qed.
Lemma bf_qtd : forall s, base_frame s (qtd s 0).
Proof. intros. apply bf_upd0. Qed.

Lemma bf_drain : forall s w b l, drain_step s w = Some (b, l) -> base_frame s b /\ (forall k, mcall_lbl k l = false).
Proof.
  intros s w b l H. unfold drain_step in H. destr_all H; inversion H; subst; clear H; (split; [|intros; reflexivity]).
  - eapply base_frame_trans; [apply bf_qpop|apply bf_setmain].
  - eapply base_frame_trans; [apply bf_qpop|apply bf_setmain].
Qed.

Lemma bf_xnorm : forall x, base_frame (base x) (base (xm_norm x)) /\ disp (xm_norm x) = disp x.
Proof.
  intros x. unfold xm_norm. destruct (main (base x)) as [| | | | | |w k|k| |]; try (split; [apply base_frame_refl|reflexivity]).
  - destruct k; [|split; [apply base_frame_refl|reflexivity]].
    destruct (cur_wait (base x)); (split; [|reflexivity]); simpl; [apply bf_setmain|apply bf_done].
  - destruct k; (split; [|reflexivity]); [apply base_frame_refl|simpl; apply bf_setmain].
Qed.

Ltac bf :=
  lazymatch goal with
  | |- base_frame ?s ?s => apply base_frame_refl
  | |- base_frame ?s (m_done ?s1 _ _) => apply (base_frame_trans s s1); [bf | apply bf_done]
  | |- base_frame ?s (m_goto ?s1 _ _ _) => apply (base_frame_trans s s1); [bf | apply bf_goto]
  | |- base_frame ?s (set_main ?s1 _) => apply (base_frame_trans s s1); [bf | apply bf_setmain]
  | |- base_frame ?s (set_futs ?s1 _) => apply (base_frame_trans s s1); [bf | apply bf_setfuts]
  | |- base_frame ?s (qput ?s1 0 _) => apply (base_frame_trans s s1); [bf | apply bf_qput]
  | |- base_frame ?s (qpop ?s1 0) => apply (base_frame_trans s s1); [bf | apply bf_qpop]
  | |- base_frame ?s (qtd ?s1 0) => apply (base_frame_trans s s1); [bf | apply bf_qtd]
  | |- base_frame ?s (base (xm_norm ?X)) =>
      apply (base_frame_trans s (base X)); [unfold set_base; xfld; bf | apply bf_xnorm]
  | |- base_frame _ (mkS _ _ _ _ _ _ _ _ _) =>
      unfold base_frame; fld; rewrite ?upd_length; repeat split; try reflexivity;
      intros; apply nth_upd_other; lia
  end.

Lemma xm_step_eff : forall c x x' l, xm_step c x = Some (x', l) ->
  base_frame (base x) (base x') /\ (forall k, mcall_lbl k l = false) /\
  (disp x' = disp x \/ (prep (disp x') = 0)) .
Proof.
  intros c x x' l H. unfold xm_step in H. cbv zeta in H.
  destruct (main (base x)) eqn:Hm; destr_all H; inversion H; subst; clear H.
  all: try match goal with Hd : drain_step _ _ = Some (_, _) |- _ =>
         destruct (bf_drain _ _ _ _ Hd) as [Hbf Hlb] end.
  all: split; [unfold set_base; xfld; first [assumption | bf]|].
  all: split; [first [assumption | intros; reflexivity]|].
  all: try solve [left; first [reflexivity | rewrite (proj2 (bf_xnorm _)); reflexivity
                               | unfold set_base; xfld; assumption]].
  all: try solve [right; reflexivity].
Qed.

Lemma tinv_m : forall c n x tr x' l,
  XInv c n x -> TInv x tr -> xm_step c x = Some (x', l) -> TInv x' (l :: tr).
Proof.
  intros c n x tr x' l H HT Hst.
  destruct (xm_step_eff _ _ _ _ Hst) as ((Ews & Eps & Elq & Enq) & Hl & Hd).
  destruct HT as [Tw T0 Tp].
  constructor.
  - intros j w Hj. rewrite mcalls_cons_other by apply Hl. rewrite Ews in Hj.
    specialize (Tw j w Hj). unfold wpot in *. rewrite Eps.
    destruct (wq_facts c n x j w H Hj) as (F1 & _). rewrite Enq by exact F1. exact Tw.
  - intros k Hk. rewrite mcalls_cons_other by apply Hl. apply T0. now rewrite <- Eps.
  - intros Hpr. destruct Hd as [Hd|Hd]; [|congruence]. rewrite Hd in *.
    specialize (Tp Hpr). pose proof (X_lq _ _ _ H) as L. rewrite Hpr in L.
    rewrite Elq. rewrite Enq by lia. exact Tp.
Qed.

(* ---- dispatcher steps ---- *)
Lemma tinv_frame : forall c n x x' tr l,
  XInv c n x -> TInv x tr -> (forall k, mcall_lbl k l = false) -> ps (base x') = ps (base x) ->
  (ws (base x') = ws (base x) \/
   (prep (disp x) = 1 /\ dhold1 (disp x) = 0 /\ queues (base x') = queues (base x) /\
    ws (base x') = ws (base x) ++ [mkW (length (queues (base x)) - 1) 0 WBegin])) ->
  (forall q, q <> 0 -> q < length (queues (base x)) -> (prep (disp x) = 1 -> q <> length (queues (base x)) - 1) ->
             nth q (queues (base x')) dq = nth q (queues (base x)) dq) ->
  (prep (disp x') = 1 ->
     count is_task (qitems (nth (length (queues (base x')) - 1) (queues (base x')) dq)) + dhold1 (disp x') <= 1) ->
  TInv x' (l :: tr).
Proof.
  intros c n x x' tr l H HT Hl Eps Hws Hq Hp'.
  destruct HT as [Tw T0 Tp].
  assert (Hold : forall j w, nth_error (ws (base x)) j = Some w ->
                   mcalls (wproc w) (l :: tr) + wpot (queues (base x')) (ps (base x')) w <= 1).
  { intros j w Hj. rewrite mcalls_cons_other by apply Hl. specialize (Tw j w Hj). unfold wpot in *. rewrite Eps.
    destruct (wq_facts c n x j w H Hj) as (F1 & F2 & F3). rewrite Hq by assumption. exact Tw. }
  constructor.
  - intros j w Hj. destruct Hws as [Ews|(Hpr & Hdh & Eq & Ews)]; rewrite Ews in Hj.
    + eauto.
    + apply nth_error_snoc_inv in Hj as [[_ Hj]|[_ Hj]]; [eauto|]. subst w.
      rewrite mcalls_cons_other by apply Hl. unfold wpot. cbn [wq wp wproc sendpot pinb].
      rewrite (T0 0) by now left. rewrite Eq. specialize (Tp Hpr). lia.
  - intros k Hk. rewrite mcalls_cons_other by apply Hl. apply T0. now rewrite <- Eps.
  - exact Hp'.
Qed.

Lemma tinv_after_puts : forall c n x x1 tr l i,
  XInv c n x -> TInv x tr -> (forall k, mcall_lbl k l = false) ->
  ps (base x1) = ps (base x) -> ws (base x1) = ws (base x) ->
  (forall q, q <> 0 -> q < length (queues (base x)) -> (prep (disp x) = 1 -> q <> length (queues (base x)) - 1) ->
             nth q (queues (base x1)) dq = nth q (queues (base x)) dq) ->
  count is_task (qitems (nth (length (queues (base x1)) - 1) (queues (base x1)) dq)) <= 1 ->
  TInv (after_puts c x1 i) (l :: tr).
Proof.
  intros c n x x1 tr l i H HT Hl Eps Ews Hq Hc.
  assert (Hb : base (after_puts c x1 i) = base x1).
  { unfold after_puts. destruct (must_wait c (active x1) i); [destruct (active x1)|]; reflexivity. }
  assert (Hd : dhold1 (disp (after_puts c x1 i)) = 0).
  { unfold after_puts. destruct (must_wait c (active x1) i); [destruct (active x1)|]; reflexivity. }
  apply (tinv_frame c n x); try assumption; rewrite ?Hb; try assumption.
  - now left.
  - intros _. rewrite Hd. lia.
Qed.

Ltac tframe c n x :=
  apply (tinv_frame c n x); try assumption; try reflexivity; try (intros; reflexivity); try (now left);
  try discriminate.

Lemma tinv_d : forall c n x tr x' l,
  XInv c n x -> TInv x tr -> d_step c 0 x = Some (x', l) -> TInv x' (l :: tr).
Proof.
  intros c n x tr x' l H HT Hst. unfold d_step in Hst. cbv zeta in Hst.
  pose proof (X_lq _ _ _ H) as Hlq. pose proof (T_p _ _ HT) as Tp.
  destruct (disp x) as [| | |i|i|i todo kept|i|i| |k| | | |] eqn:Hd; try discriminate; simpl prep in *; simpl dhold1 in *.
  - (* DBegin *) inversion Hst; subst; clear Hst. tframe c n x.
  - (* DGet *)
    destruct (qitems (getq (base x) 0)) as [|it rest] eqn:Hq0; [discriminate|].
    destruct it as [i|w]; inversion Hst; subst; clear Hst.
    + tframe c n x.
      * intros q Hq1 Hq2 _. unfold set_queues. xfld. fld.
        rewrite app_nth1 by (rewrite upd_length; lia). apply nth_upd_other. lia.
      * intros _. unfold set_queues. xfld. fld. rewrite app_length. simpl length.
        rewrite app_nth2 by lia.
        replace (length (upd (queues (base x)) 0 (mkQ (tl (qitems (getq (base x) 0))) (qunf (getq (base x) 0)))) + 1 - 1
                 - length (upd (queues (base x)) 0 (mkQ (tl (qitems (getq (base x) 0))) (qunf (getq (base x) 0))))) with 0 by lia.
        simpl. unfold count. simpl. lia.
    + tframe c n x.
      * intros q Hq1 Hq2 _. unfold qpop, set_queues. xfld. fld. apply nth_upd_other. lia.
      * xfld. destruct w; [destruct (Nat.eqb (launched x) 0)|]; discriminate.
  - (* DPutTask *) inversion Hst; subst; clear Hst. specialize (Tp eq_refl). tframe c n x.
    + intros q Hq1 Hq2 Hq3. rewrite Hd in Hq3. unfold qput, set_queues. xfld. fld. apply nth_upd_other.
      specialize (Hq3 eq_refl). lia.
    + intros _. unfold qput, set_queues, getq. xfld. fld. rewrite upd_length.
      rewrite nth_upd_same by lia. cbn [qitems]. rewrite count_snoc. simpl. unfold dq in *. lia.
  - (* DPutShut *) inversion Hst; subst; clear Hst. specialize (Tp eq_refl).
    apply (tinv_after_puts c n x); try assumption; try reflexivity; try (intros; reflexivity).
    + intros q Hq1 Hq2 Hq3. rewrite Hd in Hq3. unfold set_base, qput, set_queues. xfld. fld. apply nth_upd_other.
      specialize (Hq3 eq_refl). lia.
    + unfold set_base, qput, set_queues, getq. xfld. fld. rewrite upd_length.
      rewrite nth_upd_same by lia. cbn [qitems]. rewrite count_snoc. simpl. unfold dq in *. lia.
  - (* DScan *) specialize (Tp eq_refl).
    destruct todo as [|[f sl] rest]; [discriminate|].
    destruct rest as [|e rest']; inversion Hst; subst; clear Hst.
    + apply (tinv_after_puts c n x); try assumption; try reflexivity; try (intros; reflexivity). xfld. lia.
    + tframe c n x. intros _. xfld. simpl. lia.
  - (* DStart *) inversion Hst; subst; clear Hst. tframe c n x.
    right. rewrite Hd. repeat split; reflexivity.
  - (* DTd *) inversion Hst; subst; clear Hst. tframe c n x.
    intros q Hq1 Hq2 _. unfold qtd, set_queues. xfld. fld. apply nth_upd_other. lia.
  - (* DSJoin *)
    destruct (nth_error (ws (base x)) k) as [wt|]; [|discriminate].
    destruct (wdone wt); [|discriminate].
    destruct (wdead wt); [|destruct (Nat.eqb (S k) (launched x))]; inversion Hst; subst; clear Hst; tframe c n x.
  - (* DSTd *) inversion Hst; subst; clear Hst. tframe c n x.
    intros q Hq1 Hq2 _. unfold qtd, set_queues. xfld. fld. apply nth_upd_other. lia.
  - (* DSQJoin *)
    destruct (Nat.eqb (qunf (getq (base x) 0)) 0); [|discriminate]. inversion Hst; subst; clear Hst. tframe c n x.
Qed.

Lemma tinv_init : forall n prog, TInv (xinit n prog) [].
Proof.
  intros n prog. constructor; unfold xinit, init; xfld; fld.
  - intros j w Hj. destruct j; discriminate.
  - intros k _. reflexivity.
  - discriminate.
Qed.

Lemma d_step_label : forall c x x' l k, d_step c 0 x = Some (x', l) -> mcall_lbl k l = false.
Proof.
  intros c x x' l k H. unfold d_step in H. cbv zeta in H.
  destruct (disp x); destr_all H; inversion H; subst; reflexivity.
Qed.

Lemma tinv_step : forall c n x tr t x' l,
  XInv c n x -> TInv x tr -> xstep c x t = Some (x', l) -> TInv x' (l :: tr).
Proof.
  intros c n x tr t x' l H HT Hst. destruct t as [| | |j|k]; simpl in Hst; try discriminate.
  - eapply tinv_m; eauto.
  - eapply tinv_d; eauto.
  - destruct j as [|j]; [discriminate|].
    destruct (w_step (bcfg c) (base x) j) as [[b l0]|] eqn:E; [|discriminate].
    inversion Hst; subst. eapply tinv_w; eauto.
  - destruct (p_step (bcfg c) (base x) k) as [[b l0]|] eqn:E; [|discriminate].
    inversion Hst; subst. eapply tinv_p; eauto.
Qed.

Lemma xreach_tr_inv : forall c n prog x tr, wf_prog n prog -> xreach_tr c (xinit n prog) x tr ->
  XInv c n x /\ TInv x tr.
Proof.
  intros c n prog x tr Hwf Hr. induction Hr as [|x tr t x' l Hr [IH1 IH2] Hst].
  - split; [now apply xinv_init|apply tinv_init].
  - split; [eapply xstep_inv; eauto|eapply tinv_step; eauto].
Qed.

Lemma xreach_tr_xreach : forall c x0 x tr, xreach_tr c x0 x tr -> xreach c x0 x.
Proof. intros c x0 x tr H. induction H; [constructor|econstructor; eauto]. Qed.

Lemma xreach_xreach_tr : forall c x0 x, xreach c x0 x -> exists tr, xreach_tr c x0 x tr.
Proof.
  intros c x0 x H. induction H as [|x t x' l Hr [tr IH] Hst]; [exists []; constructor|].
  exists (l :: tr). econstructor; eauto.
Qed.

(* every process receives at most one call in the whole execution *)
Theorem step_at_most_one_call : forall c n prog x tr k,
  wf_prog n prog -> xreach_tr c (xinit n prog) x tr -> mcalls k tr <= 1.
Proof.
  intros c n prog x tr k Hwf Hr. destruct (xreach_tr_inv c n prog x tr Hwf Hr) as [H HT].
  destruct (Nat.eq_dec k 0) as [E|E]; [rewrite (T_0 _ _ HT k) by (now left); lia|].
  destruct (Nat.lt_ge_cases (length (ps (base x))) k) as [L|L]; [rewrite (T_0 _ _ HT k) by (now right); lia|].
  destruct (xowner_exists c n x (k - 1) H) as (j & w & Hj & Hw); [lia|].
  pose proof (T_w _ _ HT j w Hj) as Tw. replace (S (k - 1)) with k in Hw by lia. rewrite Hw in Tw. lia.
Qed.
Print Assumptions step_at_most_one_call.

Theorem step_one_call_per_process : forall c n prog x t x' k i,
  wf_prog n prog -> xreach c (xinit n prog) x -> xstep c x t = Some (x', LZRecvP k (MCall i)) ->
  (* fresh: in no history leading to x has process k received a call ... *)
  (forall tr, xreach_tr c (xinit n prog) x tr -> mcalls k tr = 0) /\
  (* ... and the worker thread that owns it is waiting for the reply of call i and has no
     further task in its private queue (the queue held exactly one task) *)
  (exists j w, nth_error (ws (base x)) j = Some w /\ wproc w = k /\ wp w = WRecv i /\
               count is_task (qitems (getq (base x) (wq w))) = 0).
Proof.
  intros c n prog x t x' k i Hwf Hr Hst.
  pose proof (xreach_inv c n prog x Hwf Hr) as H.
  assert (Hlbl : mcall_lbl k (LZRecvP k (MCall i)) = true) by (simpl; apply Nat.eqb_refl).
  destruct t as [| | |j0|k0]; simpl in Hst; try discriminate.
  - destruct (xm_step_eff _ _ _ _ Hst) as (_ & Hl & _). rewrite Hl in Hlbl. discriminate.
  - rewrite (d_step_label _ _ _ _ k Hst) in Hlbl. discriminate.
  - destruct j0 as [|j0]; [discriminate|].
    destruct (w_step (bcfg c) (base x) j0) as [[b l0]|] eqn:E; [|discriminate].
    inversion Hst; subst.
    destruct (nth_error (ws (base x)) j0) as [w0|] eqn:Hj0;
      [|unfold w_step in E; rewrite Hj0 in E; discriminate].
    destruct (w_step_eff _ _ _ _ _ w0 E Hj0) as (Hl & _). rewrite Hl in Hlbl. discriminate.
  - destruct (p_step (bcfg c) (base x) k0) as [[b l0]|] eqn:E; [|discriminate].
    inversion Hst; subst.
    destruct (p_step_eff _ _ _ _ _ E) as (p & p' & Hp & Hk0 & Eb & Hcase).
    destruct Hcase as [(i0 & El & Hpp & (t0 & Hib) & _)|(Hl & _)]; [|rewrite Hl in Hlbl; discriminate].
    inversion El; subst k0 i0.
    assert (Hkl : k - 1 < length (ps (base x))) by (apply nth_error_Some; congruence).
    destruct (xowner_exists c n x (k - 1) H Hkl) as (j & w & Hj & Hw).
    replace (S (k - 1)) with k in Hw by lia.
    assert (Hpc : wp w = WRecv i).
    { pose proof (X_chan _ _ _ H j w Hj) as Hc. rewrite Hw in Hc.
      rewrite (nth_error_nth' _ _ _ _ _ Hp) in Hc.
      pose proof (X_ow1 _ _ _ H j w Hj) as Ho. unfold spawnedb in Ho.
      destruct p as [pc ib ob]. simpl in Hpp, Hib. subst pc ib.
      unfold chanS, chan_ok, chan2, serving, quiet, p_idle, palive, msgs_eqb in Hc. cbn [pp inbox outbox] in Hc.
      destruct (wp w); try (exfalso; lia); destruct t0; simpl in Hc; try discriminate Hc;
        rewrite ?andb_true_r, ?andb_false_r, ?orb_false_r in Hc; simpl in Hc; try discriminate Hc.
      repeat (apply andb_true_iff in Hc; destruct Hc as [Hc _]). apply Nat.eqb_eq in Hc. now subst. }
    assert (Hfacts : forall tr, TInv x tr -> mcalls k tr = 0 /\
                                 count is_task (qitems (getq (base x) (wq w))) = 0).
    { intros tr HT. pose proof (T_w _ _ HT j w Hj) as Tw. unfold wpot in Tw. rewrite Hw, Hpc in Tw.
      destruct k as [|k']; [lia|]. simpl pinb in Tw. replace (S k' - 1) with k' in Hp by lia.
      rewrite (nth_error_nth' _ _ _ _ _ Hp) in Tw. rewrite Hib, count_cons in Tw. simpl in Tw.
      unfold getq. unfold dq in Tw. lia. }
    split.
    + intros tr Htr. destruct (xreach_tr_inv c n prog x tr Hwf Htr) as [_ HT]. now apply Hfacts.
    + destruct (xreach_xreach_tr _ _ _ Hr) as [tr Htr].
      destruct (xreach_tr_inv c n prog x tr Hwf Htr) as [_ HT].
      exists j, w. repeat split; try assumption. now apply (Hfacts tr).
Qed.
Print Assumptions step_one_call_per_process.
